/-
  `LocalNetwork` façade, changing ONLY the a-priori reference standard deviation `m_0_apr_` (`np.m0`):
  `np' = { np with m0 := s * np.m0 }`, `s > 0`.

  `prepareProjectEquations()` divides every cluster's `activeCov()` by `m0²` and factors it with
  `Adj::choldec`; so the cofactor blocks of `np'` are those of `np` divided by `s²`, and — by uniqueness of the
  Cholesky factor with positive diagonal (`Cov.chol_unique`, C10) — every factor of `np'` is the factor of `np`
  divided by `s`, whatever the band (CORRELATED clusters included).  Assembled: `L̃' = s⁻¹ L̃`, hence the
  whitening `W = L̃ᵀ P` (`P = m0²Σ⁻¹`) scales EXACTLY: `W' = s W`, `A_hom' = s A_hom`, `b_hom' = s b_hom`.
  Everything else `toProblem` carries (`A`, `b`, `S`, block dimensions, `Σ`) does not read `m0`.
-/
import Gama.Lemmas.Ls.NetFacadeCof
import Gama.Lemmas.Ls.NetFacadeStdDev
import Gama.Lemmas.Ls.NetFacadeCofExample

namespace Gama.Ls.Net
open Finset Matrix Gama.LS Gama.Ls.AdjM Dn Gama.Ls.Env

set_option linter.unusedSectionVars false
set_option linter.unusedVariables false

section transfer
variable {K : Type} [Field K] [LinearOrder K] [IsStrictOrderedRing K] (sq : K → K)

/-- C10's `adjCholdec_diag_pos` for an arbitrary name of the field scalar structure -/
theorem diagPos_transfer (S : Scalar K) (hS : S = Cov.fieldScalar K sq)
    (hsq : ∀ x : K, 0 < x → sq x * sq x = x ∧ 0 < sq x) {C U : Cov.CovMat K} (hC : C.WF)
    (hd : @Cov.adjCholdec K S C = .ok U) :
    ∀ i, 1 ≤ i → i ≤ C.dim → 0 < @Cov.CovMat.get K S.toZero U i i := by
  subst hS
  let _ : Gama.Cov.SqrtFn K := ⟨sq⟩
  exact Cov.adjCholdec_diag_pos hC hsq hd

end transfer

/-- the same network with the a-priori reference standard deviation multiplied by `s`:
    `{ np with m0 := s * np.m0 }` -/
@[reducible] def scaleM0 {K : Type} [Mul K] (s : K) (np : NetProblem K) : NetProblem K := { np with m0 := s * np.m0 }

variable {K : Type} [Field K] [LinearOrder K] [IsStrictOrderedRing K] [SqrtFn K]
attribute [local instance 2000] scalarOfField

/-! ### what does not read `m0` -/

theorem activeClusters_scale (s : K) (np : NetProblem K) : activeClusters (scaleM0 s np) = activeClusters np := rfl

theorem dimsN_scale (s : K) (np : NetProblem K) : dimsN (scaleM0 s np) = dimsN np := by
  rw [dimsN_eq, dimsN_eq]
  rfl

theorem toProblem_scale_A (s : K) (np : NetProblem K) : (toProblem (scaleM0 s np)).A = (toProblem np).A := rfl
theorem toProblem_scale_b (s : K) (np : NetProblem K) : (toProblem (scaleM0 s np)).b = (toProblem np).b := rfl
theorem toProblem_scale_S (s : K) (np : NetProblem K) : (toProblem (scaleM0 s np)).S = (toProblem np).S := rfl

theorem rowsOK_scale (s : K) (np : NetProblem K) (h : RowsOK (toProblem np)) : RowsOK (toProblem (scaleM0 s np)) := h

/-- the covariance matrix of the active observations (input units) is the same matrix -/
theorem Sigma_scale (s : K) (np : NetProblem K) : Sigma (scaleM0 s np) = Sigma np := by
  funext a b
  show sigmaF (scaleM0 s np) a.val b.val = sigmaF np a.val b.val
  unfold sigmaF
  rw [dimsN_scale, activeClusters_scale]

/-! ### one cluster -/

/-- the cofactor block for `s·m0` is the block for `m0` divided by `s²` -/
theorem cofactor_scale_get (s m0 : K) (hs : s ≠ 0) (hm0 : m0 ≠ 0) (c : Cluster K) (i j : Nat) :
    (c.cofactor m0).get i j = s * s * (c.cofactor (s * m0)).get i j := by
  unfold Cluster.cofactor
  rw [scaleBuf_get, scaleBuf_get]
  field_simp

/-- **one cluster**: `Adj::choldec` of `activeCov()/(s·m0)²` is `Adj::choldec` of `activeCov()/m0²` divided by
    `s` (uniqueness of the Cholesky factor with positive diagonal) — any band -/
theorem factor_scale (hsq : IsSqrt (SqrtFn.sq : K → K)) (s m0 : K) (hs : 0 < s) (hm0 : m0 ≠ 0) (c : Cluster K)
    (U U' : Cov.CovMat K) (hU : Cov.adjCholdec (c.cofactor m0) = .ok U)
    (hU' : Cov.adjCholdec (c.cofactor (s * m0)) = .ok U') :
    ∀ i j, 1 ≤ i → i ≤ j → j ≤ (c.cofactor m0).dim → U.get i j = s * U'.get i j := by
  have hw : (c.cofactor m0).WF := scaleBuf_WF _ _ (Cov.activeCov_submatrix c.cov c.obs).1
  have hw' : (c.cofactor (s * m0)).WF := scaleBuf_WF _ _ (Cov.activeCov_submatrix c.cov c.obs).1
  have hdd : (c.cofactor (s * m0)).dim = (c.cofactor m0).dim := rfl
  obtain ⟨-, -, -, -, hrep, -⟩ :=
    adjChol_transfer (SqrtFn.sq : K → K) scalarOfField (covFieldScalar_eq (SqrtFn.sq : K → K)).symm
      (hsq_pos hsq) hw hU
  obtain ⟨-, -, -, -, hrep', -⟩ :=
    adjChol_transfer (SqrtFn.sq : K → K) scalarOfField (covFieldScalar_eq (SqrtFn.sq : K → K)).symm
      (hsq_pos hsq) hw' hU'
  have hpos := diagPos_transfer (SqrtFn.sq : K → K) scalarOfField (covFieldScalar_eq (SqrtFn.sq : K → K)).symm
    (Env.hsq_of_isSqrt hsq) hw hU
  have hpos' := diagPos_transfer (SqrtFn.sq : K → K) scalarOfField (covFieldScalar_eq (SqrtFn.sq : K → K)).symm
    (Env.hsq_of_isSqrt hsq) hw' hU'
  refine @Cov.chol_unique K _ _ _ ⟨SqrtFn.sq⟩ (c.cofactor m0).dim (fun i j => (c.cofactor m0).get i j)
    (fun i j => U.get i j) (fun i j => s * U'.get i j) hrep ?_ hpos ?_
  · intro i j h1 h2 h3
    show (c.cofactor m0).get i j = ∑ r ∈ Icc 1 i, s * U'.get r i * (s * U'.get r j)
    rw [cofactor_scale_get s m0 hs.ne' hm0 c i j, hrep' i j h1 h2 (by rw [hdd]; exact h3), Finset.mul_sum]
    refine Finset.sum_congr rfl fun r _ => ?_
    ring
  · intro i h1 h2
    exact mul_pos hs (hpos' i h1 (by rw [hdd]; exact h2))

/-- the same for the entries of the lower factor the assembly reads -/
theorem lowerEntry_scale (hsq : IsSqrt (SqrtFn.sq : K → K)) (s m0 : K) (hs : 0 < s) (hm0 : m0 ≠ 0) (c : Cluster K)
    (U U' : Cov.CovMat K) (hU : Cov.adjCholdec (c.cofactor m0) = .ok U)
    (hU' : Cov.adjCholdec (c.cofactor (s * m0)) = .ok U') (u v : Nat) (hu : u < (c.cofactor m0).dim) :
    Env.lowerEntry U' u v = s⁻¹ * Env.lowerEntry U u v := by
  unfold Env.lowerEntry
  by_cases hvu : v ≤ u
  · rw [if_pos hvu, if_pos hvu, factor_scale hsq s m0 hs hm0 c U U' hU hU' (v + 1) (u + 1) (by omega) (by omega) (by omega),
      ← mul_assoc, inv_mul_cancel₀ hs.ne', one_mul]
  · rw [if_neg hvu, if_neg hvu, mul_zero]

/-! ### the assembled lower factor and the whitening -/

/-- **`L̃' = s⁻¹ L̃`**, entrywise on the assembly (`Env.lgG`), no matrix types involved -/
theorem lgG_scale (hsq : IsSqrt (SqrtFn.sq : K → K)) (np : NetProblem K) (s : K) (hs : 0 < s) (hm0 : np.m0 ≠ 0)
    (hdim : (dimsN np).sum = np.m) (Us Us' : List (Cov.CovMat K)) (hU : factors (cofs np) = .ok Us)
    (hU' : factors (cofs (scaleM0 s np)) = .ok Us') (a b : Nat) (ha : a < np.m) :
    Env.lgG (toProblem (scaleM0 s np)) (fun k u v => Env.lowerEntry (Us'.getD k ⟨0, 0, #[]⟩) u v) a b
      = s⁻¹ * Env.lgG (toProblem np) (fun k u v => Env.lowerEntry (Us.getD k ⟨0, 0, #[]⟩) u v) a b := by
  have hdim' : (dimsOf (toProblem np)).sum = (toProblem np).m := by rw [dimsOf_toProblem]; exact hdim
  unfold Env.lgG
  rw [dimsOf_toProblem, dimsOf_toProblem, dimsN_scale]
  split
  · rename_i hin
    obtain ⟨a1, a2, a3, ⟨blk, hblk, hd⟩, a5⟩ := Env.block_index (toProblem np) hdim' a ha
    obtain ⟨C, hCk, rfl⟩ := cov_getElem np _ blk hblk
    rw [dimsOf_toProblem] at a1 a2 a3 hd hCk
    have hklen : (AdjM.locate (dimsN np) a).1 < (activeClusters np).length := by
      have h1 : (AdjM.locate (dimsN np) a).1 < (cofs np).length := by
        by_contra hge
        rw [List.getElem?_eq_none (by omega)] at hCk
        cases hCk
      unfold cofs at h1
      rw [List.length_map] at h1
      exact h1
    have hC0 := cofs_getD np _ hklen
    have hC0' := cofs_getD (scaleM0 s np) _ (by rw [activeClusters_scale]; exact hklen)
    rw [activeClusters_scale] at hC0'
    have hCe : C = ((activeClusters np).getD (AdjM.locate (dimsN np) a).1 ⟨⟨0, 0, #[]⟩, []⟩).cofactor np.m0 :=
      Option.some.inj (hCk.symm.trans hC0)
    have hf := factors_spec (cofs np) Us hU _ _ hC0
    have hf' := factors_spec (cofs (scaleM0 s np)) Us' hU' _ _ hC0'
    have hdC : C.dim = (dimsN np).getD (AdjM.locate (dimsN np) a).1 0 := hd
    exact lowerEntry_scale hsq s np.m0 hs hm0 _ _ _ hf hf' _ _ (by rw [← hCe]; omega)
  · rw [mul_zero]

/-- **the block lower factor scales exactly: `L̃' = s⁻¹ L̃`** (`(toProblem np').m` IS `(toProblem np).m`) -/
theorem Lgen_scale (hsq : IsSqrt (SqrtFn.sq : K → K)) (np : NetProblem K) (s : K) (hs : 0 < s) (hm0 : np.m0 ≠ 0)
    (hdim : (dimsN np).sum = np.m) (Us Us' : List (Cov.CovMat K)) (hU : factors (cofs np) = .ok Us)
    (hU' : factors (cofs (scaleM0 s np)) = .ok Us') :
    Lgen (scaleM0 s np) Us' = s⁻¹ • Lgen np Us := by
  funext a b
  exact lgG_scale hsq np s hs hm0 hdim Us Us' hU hU' a.val b.val a.isLt

/-- the cofactor matrix of the specification: `C' = s⁻² C` -/
theorem C_scale (np : NetProblem K) (s : K) (hdim : (dimsN np).sum = np.m) :
    (toProblem (scaleM0 s np)).C = (1 / (s * np.m0 * (s * np.m0))) • Sigma np := by
  rw [cofactor_matrix (scaleM0 s np) (by rw [dimsN_scale]; exact hdim), Sigma_scale]
  rfl

/-- a weight matrix for `np` gives the weight matrix `s²P` for `np'` -/
theorem weight_scale (np : NetProblem K) (s : K) (hs : s ≠ 0) (hm0 : np.m0 ≠ 0) (hdim : (dimsN np).sum = np.m)
    (P : Matrix (Fin (toProblem np).m) (Fin (toProblem np).m) K) (hP : (toProblem np).C * P = 1)
    (P' : Matrix (Fin (toProblem (scaleM0 s np)).m) (Fin (toProblem (scaleM0 s np)).m) K) (hP' : P' = s ^ 2 • P) :
    (toProblem (scaleM0 s np)).C * P' = 1 := by
  subst hP'
  rw [cofactor_matrix np hdim, Matrix.smul_mul] at hP
  have key : ((1 / (s * np.m0 * (s * np.m0))) • Sigma np) * (s ^ 2 • P) = 1 := by
    rw [Matrix.smul_mul, Matrix.mul_smul, smul_smul]
    have e : 1 / (s * np.m0 * (s * np.m0)) * s ^ 2 = 1 / (np.m0 * np.m0) := by field_simp
    rw [e]; exact hP
  rw [C_scale np s hdim]
  exact key

/-- the weight matrix in input units: `P = m0² Pc` with `Σ Pc = 1` -/
theorem weight_unscale (np : NetProblem K) (hm0 : np.m0 ≠ 0) (hdim : (dimsN np).sum = np.m)
    (P : Matrix (Fin (toProblem np).m) (Fin (toProblem np).m) K) (hP : (toProblem np).C * P = 1) :
    Sigma np * ((1 / (np.m0 * np.m0)) • P) = 1 ∧ (np.m0 * np.m0) • ((1 / (np.m0 * np.m0)) • P) = P := by
  rw [cofactor_matrix np hdim, Matrix.smul_mul] at hP
  refine ⟨by rw [Matrix.mul_smul]; exact hP, ?_⟩
  rw [smul_smul]
  have : np.m0 * np.m0 * (1 / (np.m0 * np.m0)) = 1 := by field_simp
  rw [this, one_smul]

/-- **the whitening of `prepareProjectEquations()` scales exactly**: with `W = L̃ᵀP` for `np` and
    `W' = L̃'ᵀ(s²P)` for `np'` (`L'` = `L̃'` read over the rows of `np`: `(toProblem np').m` IS `(toProblem np).m`):
    `L̃' = s⁻¹L̃`, `W' = s W`; hence the homogenised dense system is `s` times the old one -/
theorem prepare_scale (hsq : IsSqrt (SqrtFn.sq : K → K)) (np : NetProblem K) (s : K) (hs : 0 < s) (hm0 : np.m0 ≠ 0)
    (hdim : (dimsN np).sum = np.m) (hrows : RowsOK (toProblem np))
    (P : Matrix (Fin (toProblem np).m) (Fin (toProblem np).m) K) (hP : (toProblem np).C * P = 1)
    (hh hh' : Hom K) (hp : prepare np = .ok hh) (hp' : prepare (scaleM0 s np) = .ok hh') :
    ∃ L' : Matrix (Fin (toProblem np).m) (Fin (toProblem np).m) K,
      L' = Lgen (scaleM0 s np) hh'.Us ∧ L' = s⁻¹ • Lgen np hh.Us ∧
      L'ᵀ * (s ^ 2 • P) = s • ((Lgen np hh.Us)ᵀ * P) ∧
      toMatrix (toProblem np).m (toProblem np).n hh'.Ad = s • toMatrix (toProblem np).m (toProblem np).n hh.Ad ∧
      toVec (toProblem np).m hh'.bd = s • toVec (toProblem np).m hh.bd := by
  obtain ⟨hF, -, -⟩ := prepare_ok np hh hp
  obtain ⟨hF', -, -⟩ := prepare_ok (scaleM0 s np) hh' hp'
  have hL := Lgen_scale hsq np s hs hm0 hdim hh.Us hh'.Us hF hF'
  obtain ⟨-, -, -, hA, hb⟩ := prepare_whiten hsq np hdim hrows P hP hh hp
  obtain ⟨-, -, -, hA', hb'⟩ := prepare_whiten hsq (scaleM0 s np) (by rw [dimsN_scale]; exact hdim)
    (rowsOK_scale s np hrows) _ (weight_scale np s hs.ne' hm0 hdim P hP _ rfl) hh' hp'
  obtain ⟨L', hL'⟩ : ∃ L' : Matrix (Fin (toProblem np).m) (Fin (toProblem np).m) K,
      L' = Lgen (scaleM0 s np) hh'.Us := ⟨_, rfl⟩
  have hLs : L' = s⁻¹ • Lgen np hh.Us := hL'.trans hL
  have hA2 : toMatrix (toProblem np).m (toProblem np).n hh'.Ad = (L'ᵀ * (s ^ 2 • P)) * (toProblem np).A := by
    rw [hL']; exact hA'
  have hb2 : toVec (toProblem np).m hh'.bd = (L'ᵀ * (s ^ 2 • P)) *ᵥ (toProblem np).b := by
    rw [hL']; exact hb'
  have hW : L'ᵀ * (s ^ 2 • P) = s • ((Lgen np hh.Us)ᵀ * P) := by
    rw [hLs, transpose_smul, Matrix.smul_mul, Matrix.mul_smul, smul_smul]
    have : s⁻¹ * s ^ 2 = s := by field_simp
    rw [this]
  refine ⟨L', hL', hLs, hW, ?_, ?_⟩
  · rw [hA2, hW, Matrix.smul_mul, ← hA]
  · rw [hb2, hW, Matrix.smul_mulVec, ← hb]

/-- `prepare_scale` without naming the assembly: `L`, `L'` are the lower Cholesky factors of the two cofactor
    matrices (`L Lᵀ = C`, `L' L'ᵀ = C'`) that `prepareProjectEquations()` whitens with in the two runs
    (`A_hom = (LᵀP) A`, `A_hom' = (L'ᵀ s²P) A`), and `L' = s⁻¹L`, `W' = s W` -/
theorem prepare_scale_spec (hsq : IsSqrt (SqrtFn.sq : K → K)) (np : NetProblem K) (s : K) (hs : 0 < s)
    (hm0 : np.m0 ≠ 0) (hdim : (dimsN np).sum = np.m) (hrows : RowsOK (toProblem np))
    (P : Matrix (Fin (toProblem np).m) (Fin (toProblem np).m) K) (hP : (toProblem np).C * P = 1)
    (hh hh' : Hom K) (hp : prepare np = .ok hh) (hp' : prepare (scaleM0 s np) = .ok hh') :
    ∃ L L' : Matrix (Fin (toProblem np).m) (Fin (toProblem np).m) K,
      L * Lᵀ = (toProblem np).C ∧ L' * L'ᵀ = (toProblem (scaleM0 s np)).C ∧ L' = s⁻¹ • L ∧
      toMatrix (toProblem np).m (toProblem np).n hh.Ad = (Lᵀ * P) * (toProblem np).A ∧
      toVec (toProblem np).m hh.bd = (Lᵀ * P) *ᵥ (toProblem np).b ∧
      toMatrix (toProblem np).m (toProblem np).n hh'.Ad = (L'ᵀ * (s ^ 2 • P)) * (toProblem np).A ∧
      toVec (toProblem np).m hh'.bd = (L'ᵀ * (s ^ 2 • P)) *ᵥ (toProblem np).b ∧
      L'ᵀ * (s ^ 2 • P) = s • (Lᵀ * P) ∧
      toMatrix (toProblem np).m (toProblem np).n hh'.Ad = s • toMatrix (toProblem np).m (toProblem np).n hh.Ad ∧
      toVec (toProblem np).m hh'.bd = s • toVec (toProblem np).m hh.bd := by
  have hdim' : (dimsOf (toProblem np)).sum = (toProblem np).m := by rw [dimsOf_toProblem]; exact hdim
  have hdimS : (dimsN (scaleM0 s np)).sum = (scaleM0 s np).m := by rw [dimsN_scale]; exact hdim
  have hdimS' : (dimsOf (toProblem (scaleM0 s np))).sum = (toProblem (scaleM0 s np)).m := by
    rw [dimsOf_toProblem]; exact hdimS
  obtain ⟨hF, -, -⟩ := prepare_ok np hh hp
  obtain ⟨hF', -, -⟩ := prepare_ok (scaleM0 s np) hh' hp'
  obtain ⟨L', hL', hLs, hW, hAs, hbs⟩ := prepare_scale hsq np s hs hm0 hdim hrows P hP hh hh' hp hp'
  obtain ⟨-, -, -, hA, hb⟩ := prepare_whiten hsq np hdim hrows P hP hh hp
  have hC : Lgen np hh.Us * (Lgen np hh.Us)ᵀ = (toProblem np).C := by
    rw [← Cadj_eq_C (toProblem np) hdim']; exact Lgen_mul_transpose hsq np hdim hh.Us hF
  have hC' : L' * L'ᵀ = (toProblem (scaleM0 s np)).C := by
    rw [hL', ← Cadj_eq_C (toProblem (scaleM0 s np)) hdimS']
    exact Lgen_mul_transpose hsq (scaleM0 s np) hdimS hh'.Us hF'
  refine ⟨Lgen np hh.Us, L', hC, hC', hLs, hA, hb, ?_, ?_, hW, hAs, hbs⟩
  · rw [hAs, hW, Matrix.smul_mul, ← hA]
  · rw [hbs, hW, Matrix.smul_mulVec, ← hb]

/-- `Σ` does not read `m0`: an inverse of `Σ` for `np` is one for `np'` -/
theorem sigma_inv_scale (np : NetProblem K) (s : K)
    (Pc : Matrix (Fin (toProblem np).m) (Fin (toProblem np).m) K) (hPc : Sigma np * Pc = 1)
    (Pc' : Matrix (Fin (toProblem (scaleM0 s np)).m) (Fin (toProblem (scaleM0 s np)).m) K) (h : Pc' = Pc) :
    Sigma (scaleM0 s np) * Pc' = 1 := by
  subst h
  rw [Sigma_scale]
  exact hPc

/-- the inverse of a Gram matrix `WᵀW` of an injective `W` has a positive diagonal -/
theorem inv_gram_diag_pos {m : ℕ} {C P W : Matrix (Fin m) (Fin m) K} (hP : C * P = 1) (hW : Wᵀ * W = P)
    (hinj : ∀ d, W *ᵥ d = 0 → d = 0) (k : Fin m) : 0 < C k k := by
  have hPC : P * C = 1 := mul_eq_one_comm.1 hP
  have hPd : P *ᵥ (C *ᵥ Pi.single k 1) = Pi.single k 1 := by rw [mulVec_mulVec, hPC, one_mulVec]
  have hne : C *ᵥ Pi.single k 1 ≠ 0 := by
    intro h0
    rw [h0, mulVec_zero] at hPd
    have := congrFun hPd k
    simp at this
  have hpos := (hW ▸ gram_pd W hinj : ∀ d, d ≠ 0 → 0 < d ⬝ᵥ P *ᵥ d) _ hne
  rw [hPd] at hpos
  simpa [dotProduct_single, mulVec_single] using hpos

/-- **every active observation has a positive standard deviation** once `prepareProjectEquations()` accepted the
    clusters (the weight matrix is then a Gram matrix of an injective whitening): `stdDev()² = Σ_kk = m0²·C_kk > 0` -/
theorem obsStdDev_pos (hsq : IsSqrt (SqrtFn.sq : K → K)) (np : NetProblem K) (hdim : (dimsN np).sum = np.m)
    (hm0 : np.m0 ≠ 0) (P W : Matrix (Fin (toProblem np).m) (Fin (toProblem np).m) K) (hP : (toProblem np).C * P = 1)
    (hW : Wᵀ * W = P) (hinj : ∀ d, W *ᵥ d = 0 → d = 0) (k : Fin (toProblem np).m) :
    0 < Dn.vget (obsStdDev np) k.val := by
  have hC := inv_gram_diag_pos hP hW hinj k
  rw [cofactor_matrix np hdim, Matrix.smul_apply, smul_eq_mul] at hC
  have hS : 0 < Sigma np k k := by
    have h2 : 0 < np.m0 * np.m0 := mul_self_pos.2 hm0
    have h3 : 0 < 1 / (np.m0 * np.m0) := by positivity
    exact (mul_pos_iff_of_pos_left h3).1 hC
  rw [obsStdDev_get np hdim k.val k.isLt]
  exact (Env.hsq_of_isSqrt hsq _ hS).2

/-- `CofFacts` reads the whitening only through the homogenised matrix `W A` -/
theorem _root_.Gama.Ls.CofFacts.of_mul_eq {m n : ℕ} {fxx fbb : Nat → Nat → Except ErrKind K} {defect : Nat}
    {A : Matrix (Fin m) (Fin n) K} {W W2 : Matrix (Fin m) (Fin m) K} {S : Finset (Fin n)}
    {Q : Matrix (Fin n) (Fin n) K} {B : Matrix (Fin m) (Fin m) K} (hWA : W2 * A = W * A)
    (h : CofFacts fxx fbb defect A W S Q B) : CofFacts fxx fbb defect A W2 S Q B where
  qxx := h.qxx
  qbb := h.qbb
  symm := h.symm
  psd := h.psd
  nqn := by rw [hWA]; exact h.nqn
  qnq := by rw [hWA]; exact h.qnq
  belongs := h.belongs
  hat := by rw [hWA]; exact h.hat
  hat_diag := h.hat_diag
  redundancy := h.redundancy
  defect_rank := h.defect_rank

section netField
variable {K : Type} [Field K] [LinearOrder K] [IsStrictOrderedRing K] [Gso.SqrtField K]
attribute [local instance] sqrtFnOfSqrtField
attribute [local instance 2000] scalarOfField

/-- **two runs of `LocalNetwork` that differ in `m_0_apr_` only** (`np` and `np' = {np with m0 := s·m0}`, any
    two algorithms): the homogenised dense system of the second is `s` times that of the first, and the cofactor
    facts of the second answer hold for the ORIGINAL design matrix with the whitening `s·W`, `W` THE whitening
    of the first run (`WᵀW = P`, `a.Ad = W A`, `a.bd = W b`).  No relation between `Q`, `B` and `Q'`, `B'` is
    claimed here (that is LS9 + uniqueness, `Props/C09NetScaling.lean`). -/
theorem net_scale_cofFacts (alg alg' : Alg) (np : NetProblem K) (s : K) (hs : 0 < s) (hm0 : np.m0 ≠ 0)
    (hdim : (dimsN np).sum = np.m) (hrows : RowsOK (toProblem np))
    (P : Matrix (Fin (toProblem np).m) (Fin (toProblem np).m) K) (hP : (toProblem np).C * P = 1)
    (hyp : SolverHyp alg np) (hyp' : SolverHyp alg' (scaleM0 s np))
    (a a' : NetAnswer K) (h : netSolve alg np = .ok a) (h' : netSolve alg' (scaleM0 s np) = .ok a') :
    ∃ (W : Matrix (Fin (toProblem np).m) (Fin (toProblem np).m) K)
      (Q Q' : Matrix (Fin (toProblem np).n) (Fin (toProblem np).n) K)
      (B B' : Matrix (Fin (toProblem np).m) (Fin (toProblem np).m) K),
      Wᵀ * W = P ∧ (∀ d, W *ᵥ d = 0 → d = 0) ∧
      toMatrix (toProblem np).m (toProblem np).n a.Ad = W * (toProblem np).A ∧
      toVec (toProblem np).m a.bd = W *ᵥ (toProblem np).b ∧
      toMatrix (toProblem np).m (toProblem np).n a'.Ad = s • toMatrix (toProblem np).m (toProblem np).n a.Ad ∧
      toVec (toProblem np).m a'.bd = s • toVec (toProblem np).m a.bd ∧
      CofFacts a.qxx a.qbb a.defect (toProblem np).A W (toProblem np).S Q B ∧
      CofFacts a'.qxx a'.qbb a'.defect (toProblem np).A (s • W) (toProblem np).S Q' B' := by
  have hsq : IsSqrt (SqrtFn.sq : K → K) := isSqrt_of_sqrtField
  obtain ⟨W, Q, B, hW, hinj, hA, hb, hf⟩ := net_cofFacts alg np hdim hrows P hP hyp a h
  obtain ⟨W', Q', B', -, -, hA', -, hf'⟩ := net_cofFacts alg' (scaleM0 s np) (by rw [dimsN_scale]; exact hdim)
    (rowsOK_scale s np hrows) _ (weight_scale np s hs.ne' hm0 hdim P hP _ rfl) hyp' a' h'
  obtain ⟨hh, hp, eA, eb⟩ := netSolve_hom alg np a h
  obtain ⟨hh', hp', eA', eb'⟩ := netSolve_hom alg' (scaleM0 s np) a' h'
  obtain ⟨L', -, -, -, hAs, hbs⟩ := prepare_scale hsq np s hs hm0 hdim hrows P hP hh hh' hp hp'
  rw [← eA, ← eA'] at hAs
  rw [← eb, ← eb'] at hbs
  obtain ⟨W2, hW2⟩ : ∃ W2 : Matrix (Fin (toProblem np).m) (Fin (toProblem np).m) K, W2 = W' := ⟨_, rfl⟩
  have hA2 : toMatrix (toProblem np).m (toProblem np).n a'.Ad = W2 * (toProblem np).A := by
    rw [hW2]; exact hA'
  have hf2 : CofFacts a'.qxx a'.qbb a'.defect (toProblem np).A W2 (toProblem np).S Q' B' := by
    rw [hW2]; exact hf'
  refine ⟨W, Q, Q', B, B', hW, hinj, hA, hb, hAs, hbs, hf, hf2.of_mul_eq ?_⟩
  rw [Matrix.smul_mul, ← hA, ← hAs, hA2]

/-- `obsStdDev_pos` for an answer of `LocalNetwork` -/
theorem netSolve_obsStdDev_pos (alg : Alg) (np : NetProblem K) (hdim : (dimsN np).sum = np.m)
    (hrows : RowsOK (toProblem np)) (hm0 : np.m0 ≠ 0)
    (P : Matrix (Fin (toProblem np).m) (Fin (toProblem np).m) K) (hP : (toProblem np).C * P = 1)
    (a : NetAnswer K) (h : netSolve alg np = .ok a) (k : Fin (toProblem np).m) :
    0 < Dn.vget (obsStdDev np) k.val := by
  have hsq : IsSqrt (SqrtFn.sq : K → K) := isSqrt_of_sqrtField
  obtain ⟨hh, hp, -, -⟩ := netSolve_hom alg np a h
  obtain ⟨-, hW, hinj, -, -⟩ := prepare_whiten hsq np hdim hrows P hP hh hp
  exact obsStdDev_pos hsq np hdim hm0 P _ hP hW hinj k

/-- `prepare_scale_spec` over a field with a true square root -/
theorem prepare_scale_field (np : NetProblem K) (s : K) (hs : 0 < s)
    (hm0 : np.m0 ≠ 0) (hdim : (dimsN np).sum = np.m) (hrows : RowsOK (toProblem np))
    (P : Matrix (Fin (toProblem np).m) (Fin (toProblem np).m) K) (hP : (toProblem np).C * P = 1)
    (hh hh' : Hom K) (hp : prepare np = .ok hh) (hp' : prepare (scaleM0 s np) = .ok hh') :
    ∃ L L' : Matrix (Fin (toProblem np).m) (Fin (toProblem np).m) K,
      L * Lᵀ = (toProblem np).C ∧ L' * L'ᵀ = (toProblem (scaleM0 s np)).C ∧ L' = s⁻¹ • L ∧
      toMatrix (toProblem np).m (toProblem np).n hh.Ad = (Lᵀ * P) * (toProblem np).A ∧
      toVec (toProblem np).m hh.bd = (Lᵀ * P) *ᵥ (toProblem np).b ∧
      toMatrix (toProblem np).m (toProblem np).n hh'.Ad = (L'ᵀ * (s ^ 2 • P)) * (toProblem np).A ∧
      toVec (toProblem np).m hh'.bd = (L'ᵀ * (s ^ 2 • P)) *ᵥ (toProblem np).b ∧
      L'ᵀ * (s ^ 2 • P) = s • (Lᵀ * P) ∧
      toMatrix (toProblem np).m (toProblem np).n hh'.Ad = s • toMatrix (toProblem np).m (toProblem np).n hh.Ad ∧
      toVec (toProblem np).m hh'.bd = s • toVec (toProblem np).m hh.bd :=
  prepare_scale_spec isSqrt_of_sqrtField np s hs hm0 hdim hrows P hP hh hh' hp hp'

/-- `weight_scale` over a field with a true square root (no `SqrtFn` instance in the statement) -/
theorem weight_scale_field (np : NetProblem K) (s : K) (hs : s ≠ 0) (hm0 : np.m0 ≠ 0) (hdim : (dimsN np).sum = np.m)
    (P : Matrix (Fin (toProblem np).m) (Fin (toProblem np).m) K) (hP : (toProblem np).C * P = 1)
    (P' : Matrix (Fin (toProblem (scaleM0 s np)).m) (Fin (toProblem (scaleM0 s np)).m) K) (hP' : P' = s ^ 2 • P) :
    (toProblem (scaleM0 s np)).C * P' = 1 := weight_scale np s hs hm0 hdim P hP P' hP'

theorem dimsN_scale_field (s : K) (np : NetProblem K) : dimsN (scaleM0 s np) = dimsN np := dimsN_scale s np

theorem weight_unscale_field (np : NetProblem K) (hm0 : np.m0 ≠ 0) (hdim : (dimsN np).sum = np.m)
    (P : Matrix (Fin (toProblem np).m) (Fin (toProblem np).m) K) (hP : (toProblem np).C * P = 1) :
    Sigma np * ((1 / (np.m0 * np.m0)) • P) = 1 ∧ (np.m0 * np.m0) • ((1 / (np.m0 * np.m0)) • P) = P :=
  weight_unscale np hm0 hdim P hP

theorem sigma_inv_scale_field (np : NetProblem K) (s : K)
    (Pc : Matrix (Fin (toProblem np).m) (Fin (toProblem np).m) K) (hPc : Sigma np * Pc = 1)
    (Pc' : Matrix (Fin (toProblem (scaleM0 s np)).m) (Fin (toProblem (scaleM0 s np)).m) K) (h : Pc' = Pc) :
    Sigma (scaleM0 s np) * Pc' = 1 := sigma_inv_scale np s Pc hPc Pc' h

end netField

end Gama.Ls.Net

/-! ### a kernel-evaluated pair of runs over ℚ (non-vacuity of `Props/C09NetScaling.lean`) -/

namespace Gama.Ls.Ex
open Gama Gama.Ls Gama.Ls.Net

/-- partial square root on ℚ, exact on every value whose root is taken by the two runs below
    (`Ex.sqQ` extended by `9/4`, the second pivot of the correlated cofactor block for `m0 = 4`) -/
def sqQ2 (x : ℚ) : ℚ :=
  if x = 4 then 2 else if x = 9 then 3 else if x = 1 / 4 then 1 / 2 else if x = 9 / 4 then 3 / 2 else x

/-- everything an answer of `LocalNetwork` carries, all index pairs of the cofactor accessors -/
def netTable (a : NetAnswer ℚ) :
    (Array ℚ × Array ℚ × ℚ × Nat) × (Array (Array ℚ) × Array ℚ) × (List (Option ℚ) × List (Option ℚ)) :=
  ((a.x, a.r, a.pvv, a.defect), (a.Ad, a.bd), cofTable a)

/-- `prepareProjectEquations()` on `Ex.npQ` (`m0 = 2`) and on `scaleM0 2 Ex.npQ` (`m0 = 4`): both accept; the factors
    of the second run are HALF those of the first (correlated block `[[2,1],[·,3]] ↦ [[1,1/2],[·,3/2]]`, single
    observation `2 ↦ 1`), the homogenised system is TWICE the first -/
theorem npQ_scale_prepare :
    (@prepare ℚ (fieldScalar sqQ2) npQ).toOption.map
        (fun h => (h.Us.map (fun C => (C.dim, C.band, C.buf)), h.Ad, h.bd))
      = some ([(2, 1, #[2, 1, 3]), (1, 0, #[2])], #[#[2, 2], #[1, 1], #[2, 2]], #[1/2, 1/2, 3/2]) ∧
    (@prepare ℚ (fieldScalar sqQ2) (scaleM0 2 npQ)).toOption.map
        (fun h => (h.Us.map (fun C => (C.dim, C.band, C.buf)), h.Ad, h.bd))
      = some ([(2, 1, #[1, 1/2, 3/2]), (1, 0, #[1])], #[#[4, 4], #[2, 2], #[4, 4]], #[1, 1, 3]) := by
  constructor <;> decide +kernel

set_option synthInstance.maxSize 1024 in
/-- two runs with DIFFERENT algorithms: cholesky on `Ex.npQ`, envelope on `scaleM0 2 Ex.npQ` — same `x`, same
    residuals, `[pvv]` `1/2 ↦ 2 = 2²·1/2`, same defect, `qxx(2,2)` `1/9 ↦ 1/36`, the same nine `qbb`, homogenised
    system doubled -/
theorem npQ_scale_answers :
    (@netSolve ℚ (fieldScalar sqQ2) .chol npQ).toOption.map netTable
      = some ((#[0, 1/2], #[1, 1/2, -1], 1/2, 1), (#[#[2, 2], #[1, 1], #[2, 2]], #[1/2, 1/2, 3/2]),
          [some 0, some 0, some 0, some (1/9)],
          [some (4/9), some (2/9), some (4/9), some (2/9), some (1/9), some (2/9), some (4/9), some (2/9), some (4/9)]) ∧
    (@netSolve ℚ (fieldScalar sqQ2) .env (scaleM0 2 npQ)).toOption.map netTable
      = some ((#[0, 1/2], #[1, 1/2, -1], 2, 1), (#[#[4, 4], #[2, 2], #[4, 4]], #[1, 1, 3]),
          [some 0, some 0, some 0, some (1/36)],
          [some (4/9), some (2/9), some (4/9), some (2/9), some (1/9), some (2/9), some (4/9), some (2/9), some (4/9)]) := by
  constructor <;> decide +kernel

end Gama.Ls.Ex
