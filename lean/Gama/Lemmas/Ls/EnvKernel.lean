/-
  Envelope solver, kernel of a singular normal matrix (pure algebra over a field):
  with `N = Lu D Luᵀ` and zero columns of `L` on the zero pivots, the vector the code builds
  for a zero pivot `col` (`tmp(i) = element(i,col)`, `upperSolve`, `tmp(col) = −1`) satisfies
  `Luᵀ g = −e_col`, hence `N g = 0`; its components at the other zero pivots and beyond `col`
  vanish; and a kernel vector that vanishes on all zero pivots is zero — so these vectors
  form a basis of `ker N`.
-/
import Gama.Lemmas.Ls.EnvFactor

namespace Gama.Ls.Env
open Finset

variable {K : Type} [Field K] [DecidableEq K]

/-- `tmp(i) = *envelope.element(i, col)` -/
def kerTmp (L : ℕ → ℕ → K) (D : ℕ → K) (col : ℕ) : ℕ → K := fun i =>
  if i < col then L col i else if i = col then D col else L i col

/-- `tmp(col) = −1` after the back substitution -/
def kerFix (col : ℕ) (g' : ℕ → K) : ℕ → K := fun i => if i = col then -1 else g' i

/-- back substitution: a right-hand side that vanishes beyond `k` gives a solution that
    vanishes beyond `k` -/
theorem IsUpper.zero_tail {L : ℕ → ℕ → K} {n : ℕ} {w x : ℕ → K} (hu : IsUpper L n w x) (k : ℕ)
    (hw : ∀ j, k < j → j < n → w j = 0) : ∀ j, k < j → j < n → x j = 0 := by
  have : ∀ s j, k < j → j < n → n - j ≤ s → x j = 0 := by
    intro s
    induction s with
    | zero => intro j _ hj hs; omega
    | succ s ih =>
      intro j hkj hj hs
      rw [hu j hj, hw j hkj hj, zero_sub, neg_eq_zero]
      refine sum_eq_zero fun i hi => ?_
      have hi' := mem_Ico.1 hi
      rw [ih i (by omega) hi'.2 (by omega), mul_zero]
  intro j hkj hj
  exact this (n - j) j hkj hj le_rfl

section
variable {N : ℕ → ℕ → K} {n : ℕ} {L : ℕ → ℕ → K} {D : ℕ → K} {y : ℕ → ℕ → K}

theorem kerTmp_above (h : IsLDL N n L D y) {col : ℕ} (h0 : D col = 0) :
    ∀ j, col < j → j < n → kerTmp L D col j = 0 := by
  intro j hj hjn
  have h1 : ¬ j < col := by omega
  have h2 : j ≠ col := by omega
  simp only [kerTmp, h1, h2, if_false]
  exact h.L_zero hjn hj h0

variable {g' : ℕ → K}

theorem ker_above (h : IsLDL N n L D y) {col : ℕ} (h0 : D col = 0)
    (hu : IsUpper L n (kerTmp L D col) g') : ∀ j, col < j → j < n → g' j = 0 :=
  hu.zero_tail col (kerTmp_above h h0)

theorem ker_at_col (h : IsLDL N n L D y) {col : ℕ} (hc : col < n) (h0 : D col = 0)
    (hu : IsUpper L n (kerTmp L D col) g') : g' col = 0 := by
  rw [hu col hc]
  have : kerTmp L D col col = 0 := by simp [kerTmp, h0]
  rw [this, zero_sub, neg_eq_zero]
  refine sum_eq_zero fun i hi => ?_
  have hi' := mem_Ico.1 hi
  rw [ker_above h h0 hu i (by omega) hi'.2, mul_zero]

/-- the components at the earlier zero pivots vanish -/
theorem ker_dep_below (h : IsLDL N n L D y) {col : ℕ} (hc : col < n)
    (hu : IsUpper L n (kerTmp L D col) g') {k : ℕ} (hk : k < col) (hk0 : D k = 0) : g' k = 0 := by
  rw [hu k (hk.trans hc)]
  have : kerTmp L D col k = 0 := by
    simp only [kerTmp, hk, if_true]; exact h.L_zero hc hk hk0
  rw [this, zero_sub, neg_eq_zero]
  refine sum_eq_zero fun i hi => ?_
  have hi' := mem_Ico.1 hi
  rw [h.L_zero hi'.2 (by omega) hk0, zero_mul]

/-- `Luᵀ g = −e_col` -/
theorem ker_LT (h : IsLDL N n L D y) {col : ℕ} (hc : col < n) (h0 : D col = 0)
    (hu : IsUpper L n (kerTmp L D col) g') {k : ℕ} (hk : k < n) :
    ∑ j ∈ range n, Lu L j k * kerFix col g' j = if k = col then -1 else 0 := by
  have hg : ∀ j, kerFix col g' j = g' j - (if j = col then 1 else 0) := by
    intro j
    by_cases hj : j = col
    · subst hj; simp [kerFix, ker_at_col h hc h0 hu]
    · simp [kerFix, hj]
  have e : ∑ j ∈ range n, Lu L j k * kerFix col g' j
      = ∑ j ∈ range n, Lu L j k * g' j - Lu L col k := by
    simp only [hg, mul_sub, sum_sub_distrib]
    congr 1
    rw [sum_eq_single col]
    · simp
    · intro j _ hj; simp [hj]
    · intro hn; exact absurd (mem_range.2 hc) hn
  rw [e, hu.mul hk]
  rcases lt_trichotomy k col with hlt | heq | hgt
  · have : k ≠ col := by omega
    simp [kerTmp, Lu, hlt, this]
  · subst heq; simp [kerTmp, Lu, h0]
  · have h1 : ¬ k < col := by omega
    have h2 : k ≠ col := by omega
    have h3 : ¬ col < k → False := fun hh => hh hgt
    simp only [kerTmp, Lu, h1, h2, if_false]
    rw [h.L_zero hk hgt h0]; simp

/-- **the kernel column is in the kernel** -/
theorem ker_N (h : IsLDL N n L D y)
    (hN : ∀ i < n, ∀ j < n, N i j = ∑ k ∈ range n, Lu L i k * D k * Lu L j k)
    {col : ℕ} (hc : col < n) (h0 : D col = 0)
    (hu : IsUpper L n (kerTmp L D col) g') {i : ℕ} (hi : i < n) :
    ∑ j ∈ range n, N i j * kerFix col g' j = 0 := by
  calc ∑ j ∈ range n, N i j * kerFix col g' j
      = ∑ j ∈ range n, ∑ k ∈ range n, Lu L i k * D k * (Lu L j k * kerFix col g' j) := by
        refine sum_congr rfl fun j hj => ?_
        rw [hN i hi j (mem_range.1 hj), sum_mul]
        exact sum_congr rfl fun k _ => by ring
    _ = ∑ k ∈ range n, Lu L i k * D k * ∑ j ∈ range n, Lu L j k * kerFix col g' j := by
        rw [sum_comm]
        exact sum_congr rfl fun k _ => by rw [mul_sum]
    _ = 0 := by
        refine sum_eq_zero fun k hk => ?_
        rw [ker_LT h hc h0 hu (mem_range.1 hk)]
        by_cases hkc : k = col
        · subst hkc; rw [h0]; ring
        · simp [hkc]

end

/-- unit lower triangular systems have only the trivial solution -/
theorem lower_unique {L : ℕ → ℕ → K} {n : ℕ} {s : ℕ → K}
    (h : ∀ i < n, ∑ k ∈ range n, Lu L i k * s k = 0) : ∀ i < n, s i = 0 := by
  intro i
  induction i using Nat.strong_induction_on with
  | _ i ih =>
  intro hi
  have := h i hi
  rw [sum_Lu_row L s hi] at this
  have hz : ∑ k ∈ range i, L i k * s k = 0 :=
    sum_eq_zero fun k hk => by rw [ih k (mem_range.1 hk) ((mem_range.1 hk).trans hi), mul_zero]
  rw [hz, zero_add] at this
  exact this

/-- **a kernel vector that vanishes on the zero pivots is zero** -/
theorem ker_unique {N : ℕ → ℕ → K} {n : ℕ} {L : ℕ → ℕ → K} {D : ℕ → K} {u : ℕ → K}
    (hN : ∀ i < n, ∀ j < n, N i j = ∑ k ∈ range n, Lu L i k * D k * Lu L j k)
    (hu : ∀ i < n, ∑ j ∈ range n, N i j * u j = 0) (hd : ∀ k < n, D k = 0 → u k = 0) :
    ∀ k < n, u k = 0 := by
  -- s = D Luᵀ u vanishes
  have hs : ∀ k < n, D k * ∑ j ∈ range n, Lu L j k * u j = 0 := by
    apply lower_unique (L := L)
    intro i hi
    rw [← hu i hi]
    calc ∑ k ∈ range n, Lu L i k * (D k * ∑ j ∈ range n, Lu L j k * u j)
        = ∑ k ∈ range n, ∑ j ∈ range n, Lu L i k * D k * (Lu L j k * u j) := by
          refine sum_congr rfl fun k _ => ?_
          rw [← mul_assoc, mul_sum]
      _ = ∑ j ∈ range n, ∑ k ∈ range n, Lu L i k * D k * (Lu L j k * u j) := sum_comm
      _ = ∑ j ∈ range n, N i j * u j := by
          refine sum_congr rfl fun j hj => ?_
          rw [hN i hi j (mem_range.1 hj), sum_mul]
          exact sum_congr rfl fun k _ => by ring
  have : ∀ s k, k < n → n - k ≤ s → u k = 0 := by
    intro s
    induction s with
    | zero => intro k hk hs; omega
    | succ s ih =>
      intro k hk hsk
      by_cases h0 : D k = 0
      · exact hd k hk h0
      · have ht : ∑ j ∈ range n, Lu L j k * u j = 0 := by
          have := hs k hk
          rcases mul_eq_zero.1 this with h | h
          · exact absurd h h0
          · exact h
        rw [sum_Lu_col L u hk] at ht
        have hz : ∑ j ∈ Ico (k + 1) n, L j k * u j = 0 :=
          sum_eq_zero fun j hj => by
            have hj' := mem_Ico.1 hj
            rw [ih j hj'.2 (by omega), mul_zero]
        rw [hz, add_zero] at ht
        exact ht
  intro k hk
  exact this (n - k) k hk le_rfl

end Gama.Ls.Env
