/-
  Cholesky solver (`AdjCholDec`, model `Gama/Model/Ls/Chol.lean`), cofactor matrix `Q = T Q0 Tᵀ`
  of the unknowns — the clauses of C03 / C02 that were not stated for this solver:

    * `Gama.LS.refl_ginv_psd'`        a symmetric reflexive g-inverse of a PSD matrix is PSD
    * `Gama.LS.nullity_eq_card_flags`  `dim ker A = #F` for a flag set `F` with the two C20 facts
                                      (kernel vectors vanishing on `F` are 0; every flagged unknown
                                      carries a kernel vector that is −1 there and 0 on the others)
    * `chol_Tm_eq_sProj`               the model's `T` IS the `S`-projector `1 − G G_Sᵀ` of LS8
    * `chol_Q_belongs`                 `Q y ⟂_S ker A` for every `y` (C03 "belongs to the chosen
                                      regularisation")
    * `chol_Q_psd`                     `0 ≤ yᵀ Q y`
    * `chol_defect_rank`               `nullity + rank A = n`
-/
import Gama.Lemmas.Ls.CholCofSing
import Gama.Lemmas.Ls.CholC20
import Gama.Lemmas.LS.Rank
import Gama.Lemmas.Ls.ComposeGinvUnique
import Mathlib.LinearAlgebra.Dimension.Constructions

namespace Gama.LS
open Matrix Finset Module

set_option linter.unusedSectionVars false

section
variable {𝕜 : Type*} [Field 𝕜] [LinearOrder 𝕜] [IsStrictOrderedRing 𝕜]
variable {m n : Type*} [Fintype m] [Fintype n]

/-- **C03 clause 2**: a symmetric reflexive generalised inverse of a positive semi-definite matrix
    is positive semi-definite: `yᵀ Q y = (Q y)ᵀ N (Q y)` -/
theorem refl_ginv_psd' {N Q : Matrix n n 𝕜} (hQs : Qᵀ = Q) (hr : Q * N * Q = Q)
    (hN : ∀ d, 0 ≤ d ⬝ᵥ N *ᵥ d) (y : n → 𝕜) : 0 ≤ y ⬝ᵥ Q *ᵥ y := by
  have h : y ⬝ᵥ Q *ᵥ y = (Q *ᵥ y) ⬝ᵥ N *ᵥ (Q *ᵥ y) := by
    conv_lhs => rw [← hr]
    rw [← mulVec_mulVec, ← mulVec_mulVec, mulVec_dot Q, hQs]
  rw [h]; exact hN _

end

section
variable {𝕜 : Type*} [Field 𝕜]
variable {m n : Type*} [Fintype m] [Fintype n] [DecidableEq n]

/-- **LS10 / C20 → rank**: if the kernel vectors vanishing on `F` are zero and every `i ∈ F`
    carries a kernel vector that is `−1` at `i` and `0` at the other members of `F`, the kernel has
    dimension `#F` (restriction to `F` is a linear isomorphism `ker A ≃ 𝕜^F`) -/
theorem nullity_eq_card_flags (A : Matrix m n 𝕜) (F : Finset n)
    (hinj : ∀ g, A *ᵥ g = 0 → (∀ i ∈ F, g i = 0) → g = 0)
    (hsurj : ∀ i ∈ F, ∃ g, A *ᵥ g = 0 ∧ g i = -1 ∧ ∀ i' ∈ F, i' ≠ i → g i' = 0) :
    nullity A = F.card := by
  classical
  choose gi hg1 hg2 hg3 using hsurj
  let φ : LinearMap.ker A.mulVecLin →ₗ[𝕜] (F → 𝕜) :=
    (LinearMap.funLeft 𝕜 𝕜 (Subtype.val : F → n)).comp (Submodule.subtype _)
  have hφ : ∀ (h : LinearMap.ker A.mulVecLin) (i : F), φ h i = h.1 i.1 := fun _ _ => rfl
  have hi : Function.Injective φ := by
    rw [injective_iff_map_eq_zero]
    intro h hh
    apply Subtype.ext
    apply hinj h.1 ((mem_ker_iff A h.1).1 h.2)
    intro i hiF
    have := congrFun hh ⟨i, hiF⟩
    rwa [hφ] at this
  have hs : Function.Surjective φ := by
    intro f
    have hmem : (∑ i : F, (-f i) • gi i.1 i.2) ∈ LinearMap.ker A.mulVecLin := by
      refine Submodule.sum_mem _ fun i _ => Submodule.smul_mem _ _ ?_
      exact (mem_ker_iff A _).2 (hg1 i.1 i.2)
    refine ⟨⟨_, hmem⟩, ?_⟩
    funext k
    rw [hφ]
    show (∑ i : F, (-f i) • gi i.1 i.2) k.1 = f k
    rw [Finset.sum_apply, Finset.sum_eq_single k]
    · rw [Pi.smul_apply, hg2 k.1 k.2, smul_eq_mul]; ring
    · intro j _ hjk
      rw [Pi.smul_apply, hg3 j.1 j.2 k.1 k.2 (fun e => hjk (Subtype.ext e.symm)), smul_zero]
    · intro h; exact absurd (Finset.mem_univ k) h
  have e := (LinearEquiv.ofBijective φ ⟨hi, hs⟩).finrank_eq
  unfold nullity
  rw [e, Module.finrank_fintype_fun_eq_card, Fintype.card_coe]

/-- … hence `#F + rank A = n` -/
theorem card_flags_add_rank (A : Matrix m n 𝕜) (F : Finset n)
    (hinj : ∀ g, A *ᵥ g = 0 → (∀ i ∈ F, g i = 0) → g = 0)
    (hsurj : ∀ i ∈ F, ∃ g, A *ᵥ g = 0 ∧ g i = -1 ∧ ∀ i' ∈ F, i' ≠ i → g i' = 0) :
    F.card + A.rank = Fintype.card n := by
  rw [← nullity_eq_card_flags A F hinj hsurj, add_comm]
  exact rank_add_nullity A

end
end Gama.LS

namespace Gama.Ls
open Finset Dn Chol Matrix Gama.LS

set_option linter.unusedSectionVars false
set_option linter.unusedVariables false

section
variable {K : Type} [Field K] [LinearOrder K] [IsStrictOrderedRing K] [SqrtFn K]
attribute [local instance 2000] scalarOfField

/-- the orthonormalised kernel columns `G(·, 1..nullity)` as a matrix (storage order) -/
def Chol.Solved.Gm (s : Solved K) (n : Nat) : Matrix (Fin n) (Fin s.nullity) K :=
  Matrix.of fun i c => vget (s.G.getD c.val #[]) i.val

/-- the Gram–Schmidt invariant at the end of the loop, for a solved singular problem -/
theorem chol_gs_final (p : Problem K) (hU : Chol.UnambiguousF (cholFact p)) (hsq : Chol.GsSqrtExact p)
    (s : Solved K) (hs : Chol.solve p = .ok s) (hne : s.nullity ≠ 0) :
    ∃ gpf, GSInv p.m p.n s.nullity p.dense s.S s.x0 s.nullity gpf s.G := by
  obtain ⟨hm, hn, hA, hperm, hinvp, hmat, hnull, hN0, hx0, hr, hQ, hreg, _, hgs⟩ := solve_shape p s hs
  have h0 : (cholFact p).nullity ≠ 0 := by rw [← hnull]; exact hne
  obtain ⟨hloop, hx⟩ := hgs h0
  have hS := regList_lt p.n p.reg s.S hreg
  have hinit := chol_gsInv_init p hU s.S
  rw [← hx0] at hinit
  obtain ⟨gpf, hfin⟩ := gsLoop_inv hS (cholFact p).nullity 0 _ _ s.G hinit (by omega) (by
    have := hsq s.S hreg
    rw [← hx0] at this
    exact this) hloop
  rw [← hnull] at hfin
  exact ⟨gpf, hfin⟩

/-- positions `< nullity` of the final `g_perm` name kernel columns (`x0` stays last) -/
theorem GSInv.gperm_lt {m n nullity : Nat} {A : DMat K} {S : List Nat} {x0 : Array K} {column : Nat}
    {gperm : Array Nat} {G : Array (Array K)} (h : GSInv m n nullity A S x0 column gperm G)
    (l : Nat) (hl : l < nullity) : pget gperm l < nullity := by
  have h1 := h.perm.lt l (by omega)
  by_contra hcon
  have e : pget gperm l = pget gperm nullity := by rw [h.last]; omega
  have := h.perm.inj l nullity (by omega) (by omega) e
  omega

/-- every storage index `< nullity` is a position of the final `g_perm` -/
theorem GSInv.gperm_surj {m n nullity : Nat} {A : DMat K} {S : List Nat} {x0 : Array K} {column : Nat}
    {gperm : Array Nat} {G : Array (Array K)} (h : GSInv m n nullity A S x0 column gperm G)
    (c : Nat) (hc : c < nullity) : ∃ l, l < nullity ∧ pget gperm l = c := by
  obtain ⟨l, hl, e⟩ := h.perm.surj c (by omega)
  refine ⟨l, ?_, e⟩
  by_contra hcon
  have : l = nullity := by omega
  rw [this, h.last] at e
  omega

/-- the kernel columns are `S`-orthonormal (by storage index) -/
theorem chol_G_orthonormal {m n nullity : Nat} {A : DMat K} {S : List Nat} {x0 : Array K}
    {gperm : Array Nat} {G : Array (Array K)} (h : GSInv m n nullity A S x0 nullity gperm G)
    (c d : Nat) (hc : c < nullity) (hd : d < nullity) :
    dotS S (G.getD c #[]) (G.getD d #[]) = if c = d then 1 else 0 := by
  obtain ⟨l, hl, rfl⟩ := h.gperm_surj c hc
  obtain ⟨l', hl', rfl⟩ := h.gperm_surj d hd
  by_cases e : l = l'
  · subst e; rw [if_pos rfl]; exact h.orthn l hl
  · rw [if_neg (fun e' => e (h.perm.inj l l' (by omega) (by omega) e'))]
    exact h.orth l l' hl (by omega) (fun e' => e e'.symm)

/-- `i ∈ p.S` ⇔ the model's `minx.contains` -/
theorem contains_iff_mem_S (p : Problem K) (S : List Nat) (h : regList p.n p.reg = some S) (i : Fin p.n) :
    S.contains i.val = true ↔ i ∈ p.S := by
  rw [mem_S_iff p S h i]; simp

/-- `G_Sᵀ G = 1`: the normalisation `Hᵀ G = 1` of LS8 for `H = G` restricted to the rows in `S` -/
theorem chol_HtG (p : Problem K) (hU : Chol.UnambiguousF (cholFact p)) (hsq : Chol.GsSqrtExact p)
    (hnd : ∀ S, regList p.n p.reg = some S → S.Nodup)
    (s : Solved K) (hs : Chol.solve p = .ok s) (hne : s.nullity ≠ 0) :
    (restrictS p.S (s.Gm p.n))ᵀ * s.Gm p.n = 1 := by
  obtain ⟨gpf, hfin⟩ := chol_gs_final p hU hsq s hs hne
  obtain ⟨_, _, _, _, _, _, _, _, _, _, _, hreg, _, _⟩ := solve_shape p s hs
  ext c d
  have e1 : ((restrictS p.S (s.Gm p.n))ᵀ * s.Gm p.n) c d
      = ((restrictS p.S (s.Gm p.n))ᵀ *ᵥ (fun i => s.Gm p.n i d)) c := rfl
  rw [e1, restrictS_transpose_mulVec]
  have e2 : ∑ i ∈ p.S, s.Gm p.n i d * s.Gm p.n i c
      = ∑ i ∈ p.S, (fun r => vget (s.G.getD c.val #[]) r * vget (s.G.getD d.val #[]) r) i.val :=
    Finset.sum_congr rfl fun i _ => mul_comm _ _
  have e3 := sum_S_eq p s.S hreg (hnd s.S hreg)
    (fun r => vget (s.G.getD c.val #[]) r * vget (s.G.getD d.val #[]) r)
  rw [e2, e3, ← dotS_eq, chol_G_orthonormal hfin c.val d.val c.isLt d.isLt, Matrix.one_apply]
  by_cases h : c = d
  · rw [if_pos h, if_pos (congrArg Fin.val h)]
  · rw [if_neg h, if_neg (fun e => h (Fin.ext e))]

/-- the model's `T` (`AdjCholDec::T`, `tEntry`) is the `S`-projector `1 − G G_Sᵀ` of LS8 -/
theorem chol_Tm_eq_sProj (p : Problem K) (s : Solved K) (hs : Chol.solve p = .ok s) :
    s.Tm p.n = sProj (s.Gm p.n) (restrictS p.S (s.Gm p.n)) := by
  obtain ⟨_, _, _, _, _, _, _, _, _, _, _, hreg, _, _⟩ := solve_shape p s hs
  funext i j
  show tEntry s.S s.G s.nullity i.val j.val = _
  unfold sProj tEntry
  rw [Matrix.sub_apply, Matrix.mul_apply, Matrix.one_apply]
  have hδ : (if i.val = j.val then (Scalar.ofNat 1 : K) else 0) = if i = j then 1 else 0 := by
    by_cases h : i = j
    · rw [if_pos h, if_pos (congrArg Fin.val h)]
      show ((1 : ℕ) : K) = 1
      exact Nat.cast_one
    · rw [if_neg h, if_neg (fun e => h (Fin.ext e))]
  simp only []
  rw [hδ]
  by_cases hc : s.S.contains j.val = true
  · have hj : j ∈ p.S := (contains_iff_mem_S p s.S hreg j).1 hc
    rw [if_pos hc, subFrom_eq, ← Finset.range_eq_Ico,
      ← Fin.sum_univ_eq_sum_range (fun c => vget (s.G.getD c #[]) i.val * vget (s.G.getD c #[]) j.val) s.nullity]
    congr 1
    refine Finset.sum_congr rfl fun c _ => ?_
    show _ = s.Gm p.n i c * (if j ∈ p.S then s.Gm p.n j c else 0)
    rw [if_pos hj]; rfl
  · have hj : j ∉ p.S := fun h => hc ((contains_iff_mem_S p s.S hreg j).2 h)
    rw [if_neg hc]
    have : ∑ c, s.Gm p.n i c * (restrictS p.S (s.Gm p.n))ᵀ c j = 0 :=
      Finset.sum_eq_zero fun c _ => by
        show s.Gm p.n i c * (if j ∈ p.S then s.Gm p.n j c else 0) = 0
        rw [if_neg hj, mul_zero]
    rw [this, sub_zero]

/-- `q_xx` of a singular problem as a matrix product: `Q = T Q0 Tᵀ` -/
theorem chol_Qm_eq (p : Problem K) (s : Solved K) (hs : Chol.solve p = .ok s) (hn0 : s.nullity ≠ 0) :
    s.Qm p.n = s.Tm p.n * s.Q0m p.n * (s.Tm p.n)ᵀ := by
  obtain ⟨hn, _⟩ := (solve_shape p s hs).2
  funext i j
  show s.qxx0 i.val j.val = _
  unfold Solved.qxx0
  rw [if_neg hn0, Matrix.mul_apply, sumFrom_eq, ← Finset.range_eq_Ico, hn,
    ← Fin.sum_univ_eq_sum_range (fun k => sumFrom 0 p.n (fun l => tEntry s.S s.G s.nullity i.val l * sget s.Q0 l k)
      * tEntry s.S s.G s.nullity j.val k) p.n]
  refine Finset.sum_congr rfl fun k _ => ?_
  rw [Matrix.mul_apply, sumFrom_eq, ← Finset.range_eq_Ico,
    ← Fin.sum_univ_eq_sum_range (fun l => tEntry s.S s.G s.nullity i.val l * sget s.Q0 l k.val) p.n]
  rfl

/-- **C03 clause 6 (cholesky)**: `Q` belongs to the chosen regularisation — `Q y` is `S`-orthogonal
    to the kernel of `A` for every `y` -/
theorem chol_Q_belongs (p : Problem K) (hU : Chol.UnambiguousF (cholFact p)) (hsq : Chol.GsSqrtExact p)
    (hnd : ∀ S, regList p.n p.reg = some S → S.Nodup)
    (s : Solved K) (hs : Chol.solve p = .ok s) : BelongsTo p.A p.S (s.Qm p.n) := by
  intro y g hg
  obtain ⟨_, _, _, _, _, _, hnull, _, _, _, _, hreg, _, _⟩ := solve_shape p s hs
  by_cases hn0 : s.nullity = 0
  · have : g = 0 := cholFact_regular_ker p (by rw [← hnull]; exact hn0) g hg
    subst this
    simp
  · obtain ⟨gpf, hfin⟩ := chol_gs_final p hU hsq s hs hn0
    have hHG := chol_HtG p hU hsq hnd s hs hn0
    have hQ : s.Qm p.n = sProj (s.Gm p.n) (restrictS p.S (s.Gm p.n)) * s.Q0m p.n
        * (sProj (s.Gm p.n) (restrictS p.S (s.Gm p.n)))ᵀ := by
      rw [chol_Qm_eq p s hs hn0, chol_Tm_eq_sProj p s hs]
    have key : ∀ c (hc : c < s.nullity),
        ∑ i ∈ p.S, (s.Qm p.n *ᵥ y) i * vget (s.G.getD c #[]) i.val = 0 := by
      intro c hc
      rw [hQ]
      exact tq0t_mulVec_orth (Q₀ := s.Q0m p.n) p.S rfl hHG y ⟨c, hc⟩
    have hk : ∀ k, k < p.m → ∑ v ∈ range p.n, mget p.dense k v * extend g v = 0 := by
      intro k hk
      rw [← mulVec_extend p g ⟨k, hk⟩, hg]; rfl
    obtain ⟨γ, hγ⟩ := hfin.span (extend g) hk
    have e1 : ∀ i ∈ p.S, (s.Qm p.n *ᵥ y) i * g i
        = ∑ l ∈ range s.nullity, γ l * ((s.Qm p.n *ᵥ y) i * vget (s.G.getD (pget gpf l) #[]) i.val) := by
      intro i _
      have : g i = extend g i.val := by unfold extend; rw [dif_pos i.isLt]
      rw [this, hγ i.val i.isLt, Finset.mul_sum]
      exact Finset.sum_congr rfl fun l _ => by ring
    rw [Finset.sum_congr rfl e1, Finset.sum_comm]
    refine Finset.sum_eq_zero fun l hl => ?_
    rw [← Finset.mul_sum, key _ (hfin.gperm_lt l (Finset.mem_range.1 hl)), mul_zero]

/-- **C03 clause 2 (cholesky)**: `Q` is positive semi-definite -/
theorem chol_Q_psd (p : Problem K) (hU : Chol.UnambiguousF (cholFact p)) (hsq : Chol.GsSqrtExact p)
    (s : Solved K) (hs : Chol.solve p = .ok s) (y : Fin p.n → K) : 0 ≤ y ⬝ᵥ s.Qm p.n *ᵥ y := by
  obtain ⟨q1, _, q3, _⟩ := chol_Q_spec p hU hsq s hs
  exact refl_ginv_psd' q1 q3 (gram_psd p.A) y

/-- **C02 clause 1 (cholesky)**: `defect + rank A = n` -/
theorem chol_defect_rank (p : Problem K) (hU : Chol.UnambiguousF (cholFact p)) (s : Solved K)
    (hs : Chol.solve p = .ok s) : s.nullity + p.A.rank = p.n := by
  obtain ⟨_, h2, h3, h4⟩ := chol_lindep_spec p hU s hs
  have hc := card_flags_add_rank p.A (Finset.univ.filter fun i : Fin p.n => s.lindep0 i.val = true)
    (fun g hg hz => h3 g hg fun i hi => hz i (Finset.mem_filter.2 ⟨Finset.mem_univ _, hi⟩))
    (fun i hi => by
      obtain ⟨g, g1, g2, g3⟩ := h4 i (Finset.mem_filter.1 hi).2
      exact ⟨g, g1, g2, fun i' hi' hne => g3 i' (Finset.mem_filter.1 hi').2 hne⟩)
  have hcard : (Finset.univ.filter fun i : Fin p.n => s.lindep0 i.val = true).card
      = ((range p.n).filter fun i => s.lindep0 i = true).card := by
    refine Finset.card_bij (fun i _ => i.val) ?_ ?_ ?_
    · intro i hi
      exact Finset.mem_filter.2 ⟨Finset.mem_range.2 i.isLt, (Finset.mem_filter.1 hi).2⟩
    · intro i _ j _ e; exact Fin.ext e
    · intro r hr
      obtain ⟨hr1, hr2⟩ := Finset.mem_filter.1 hr
      exact ⟨⟨r, Finset.mem_range.1 hr1⟩, Finset.mem_filter.2 ⟨Finset.mem_univ _, hr2⟩, rfl⟩
  rw [hcard, h2, Fintype.card_fin] at hc
  exact hc

/-! ### the answers of `cholSolve` -/

theorem cholSolve_ok {p : Problem K} {a : Answer K} (h : cholSolve p = .ok a) :
    ∃ s, Chol.solve p = .ok s ∧ a = s.answer := by
  unfold cholSolve at h
  cases hs : Chol.solve p with
  | error e => rw [hs] at h; simp [Except.map] at h
  | ok s => rw [hs] at h; exact ⟨s, rfl, (Except.ok.inj h).symm⟩

/-- `q_xx(i,j)` and `q0_xx(i,j)` (1-based) report the entries of `Q` -/
theorem chol_answer_qxx (p : Problem K) (s : Solved K) (hs : Chol.solve p = .ok s) (i j : Fin p.n) :
    s.answer.qxx (i + 1) (j + 1) = .ok (s.Qm p.n i j) ∧ s.answer.q0xx (i + 1) (j + 1) = .ok (s.Qm p.n i j) := by
  obtain ⟨hm, hnn, _⟩ := solve_shape p s hs
  have hi : s.idx (i.val + 1) = true := by simp [Chol.Solved.idx, hnn]
  have hj : s.idx (j.val + 1) = true := by simp [Chol.Solved.idx, hnn]
  have : (if s.idx (i.val + 1) && s.idx (j.val + 1) then
      Except.ok (s.qxx0 (i.val + 1 - 1) (j.val + 1 - 1)) else Except.error ErrKind.NotModelled)
      = Except.ok (s.Qm p.n i j) := by
    rw [hi, hj]; simp [Chol.Solved.Qm]
  exact ⟨this, this⟩

/-- `q_bb(i,j)` (1-based) reports the entries of `A Q Aᵀ` -/
theorem chol_answer_qbb (p : Problem K) (hU : Chol.UnambiguousF (cholFact p)) (hsq : Chol.GsSqrtExact p)
    (s : Solved K) (hs : Chol.solve p = .ok s) (i j : Fin p.m) :
    s.answer.qbb (i + 1) (j + 1) = .ok ((p.A * s.Qm p.n * p.Aᵀ) i j) := by
  obtain ⟨hm, hnn, _⟩ := solve_shape p s hs
  obtain ⟨_, _, _, q4⟩ := chol_Q_spec p hU hsq s hs
  have hi : s.obs (i.val + 1) = true := by simp [Chol.Solved.obs, hm]
  have hj : s.obs (j.val + 1) = true := by simp [Chol.Solved.obs, hm]
  show (if s.obs (i.val + 1) && s.obs (j.val + 1) then
      Except.ok (s.qbb0 (i.val + 1 - 1) (j.val + 1 - 1)) else Except.error ErrKind.NotModelled) = _
  rw [hi, hj]
  simp only [Bool.and_self, if_true, Nat.add_sub_cancel]
  rw [← q4, chol_qbb0_eq p s hs i j]

/-- **C03 clause 9 (cholesky)**: the redundancy numbers sum to `m − n + defect` -/
theorem chol_redundancy (p : Problem K) (hU : Chol.UnambiguousF (cholFact p)) (s : Solved K)
    (hs : Chol.solve p = .ok s) (Q : Matrix (Fin p.n) (Fin p.n) K)
    (hQ : (p.Aᵀ * p.A) * Q * (p.Aᵀ * p.A) = p.Aᵀ * p.A) :
    ∑ i, (1 - (p.A * Q * p.Aᵀ) i i) = (p.m : K) - (p.n : K) + (s.nullity : K) := by
  have h := chol_defect_rank p hU s hs
  have h' : (p.n : K) = (s.nullity : K) + (p.A.rank : K) := by rw [← Nat.cast_add, h]
  rw [redundancy_sum hQ, Fintype.card_fin, h']
  ring

end
end Gama.Ls
