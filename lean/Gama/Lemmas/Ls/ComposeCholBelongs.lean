/-
  Cholesky solver (`AdjCholDec`, model `Gama/Model/Ls/Chol.lean`), cofactor matrix `Q = T Q0 Tᵀ`
  of the unknowns — the clauses of C03 / C02 that were not stated for this solver:

    * `Gama.LS.refl_ginv_psd'`        a symmetric reflexive g-inverse of a PSD matrix is PSD
    * `Gama.LS.nullity_eq_card_flags`  `dim ker A = #F` for a flag set `F` with the two C20 facts
                                      (kernel vectors vanishing on `F` are 0; every flagged unknown
                                      carries a kernel vector that is −1 there and 0 on the others)
    * `chol_Tm_eq_sProj`               the model's `T` IS the `S`-projector `1 − G G_Sᵀ` of LS8
    * `chol_Q_belongs`                 `Q y ⟂_S ker A` for every `y` (C03 "belongs to the chosen
                                      regularisation")
    * `chol_Q_psd`                     `0 ≤ yᵀ Q y`
    * `chol_defect_rank`               `nullity + rank A = n`
-/
import Gama.Lemmas.Ls.CholCofSing
import Gama.Lemmas.Ls.CholC20
import Gama.Lemmas.LS.Rank
import Gama.Lemmas.Ls.ComposeGinvUnique
import Mathlib.LinearAlgebra.Dimension.Constructions

namespace Gama.LS
open Matrix Finset Module

set_option linter.unusedSectionVars false

section
variable {𝕜 : Type*} [Field 𝕜] [LinearOrder 𝕜] [IsStrictOrderedRing 𝕜]
variable {m n : Type*} [Fintype m] [Fintype n]

/-- **C03 clause 2**: a symmetric reflexive generalised inverse of a positive semi-definite matrix
    is positive semi-definite: `yᵀ Q y = (Q y)ᵀ N (Q y)` -/
theorem refl_ginv_psd' {N Q : Matrix n n 𝕜} (hQs : Qᵀ = Q) (hr : Q * N * Q = Q)
    (hN : ∀ d, 0 ≤ d ⬝ᵥ N *ᵥ d) (y : n → 𝕜) : 0 ≤ y ⬝ᵥ Q *ᵥ y := by
  have h : y ⬝ᵥ Q *ᵥ y = (Q *ᵥ y) ⬝ᵥ N *ᵥ (Q *ᵥ y) := by
    conv_lhs => rw [← hr]
    rw [← mulVec_mulVec, ← mulVec_mulVec, mulVec_dot Q, hQs]
  rw [h]; exact hN _

end

section
variable {𝕜 : Type*} [Field 𝕜]
variable {m n : Type*} [Fintype m] [Fintype n] [DecidableEq n]

/-- **LS10 / C20 → rank**: if the kernel vectors vanishing on `F` are zero and every `i ∈ F`
    carries a kernel vector that is `−1` at `i` and `0` at the other members of `F`, the kernel has
    dimension `#F` (restriction to `F` is a linear isomorphism `ker A ≃ 𝕜^F`) -/
theorem nullity_eq_card_flags (A : Matrix m n 𝕜) (F : Finset n)
    (hinj : ∀ g, A *ᵥ g = 0 → (∀ i ∈ F, g i = 0) → g = 0)
    (hsurj : ∀ i ∈ F, ∃ g, A *ᵥ g = 0 ∧ g i = -1 ∧ ∀ i' ∈ F, i' ≠ i → g i' = 0) :
    nullity A = F.card := by
  classical
  choose gi hg1 hg2 hg3 using hsurj
  let φ : LinearMap.ker A.mulVecLin →ₗ[𝕜] (F → 𝕜) :=
    (LinearMap.funLeft 𝕜 𝕜 (Subtype.val : F → n)).comp (Submodule.subtype _)
  have hφ : ∀ (h : LinearMap.ker A.mulVecLin) (i : F), φ h i = h.1 i.1 := fun _ _ => rfl
  have hi : Function.Injective φ := by
    rw [injective_iff_map_eq_zero]
    intro h hh
    apply Subtype.ext
    apply hinj h.1 ((mem_ker_iff A h.1).1 h.2)
    intro i hiF
    have := congrFun hh ⟨i, hiF⟩
    rwa [hφ] at this
  have hs : Function.Surjective φ := by
    intro f
    have hmem : (∑ i : F, (-f i) • gi i.1 i.2) ∈ LinearMap.ker A.mulVecLin := by
      refine Submodule.sum_mem _ fun i _ => Submodule.smul_mem _ _ ?_
      exact (mem_ker_iff A _).2 (hg1 i.1 i.2)
    refine ⟨⟨_, hmem⟩, ?_⟩
    funext k
    rw [hφ]
    show (∑ i : F, (-f i) • gi i.1 i.2) k.1 = f k
    rw [Finset.sum_apply, Finset.sum_eq_single k]
    · rw [Pi.smul_apply, hg2 k.1 k.2, smul_eq_mul]; ring
    · intro j _ hjk
      rw [Pi.smul_apply, hg3 j.1 j.2 k.1 k.2 (fun e => hjk (Subtype.ext e.symm)), smul_zero]
    · intro h; exact absurd (Finset.mem_univ k) h
  have e := (LinearEquiv.ofBijective φ ⟨hi, hs⟩).finrank_eq
  unfold nullity
  rw [e, Module.finrank_fintype_fun_eq_card, Fintype.card_coe]

/-- … hence `#F + rank A = n` -/
theorem card_flags_add_rank (A : Matrix m n 𝕜) (F : Finset n)
    (hinj : ∀ g, A *ᵥ g = 0 → (∀ i ∈ F, g i = 0) → g = 0)
    (hsurj : ∀ i ∈ F, ∃ g, A *ᵥ g = 0 ∧ g i = -1 ∧ ∀ i' ∈ F, i' ≠ i → g i' = 0) :
    F.card + A.rank = Fintype.card n := by
  rw [← nullity_eq_card_flags A F hinj hsurj, add_comm]
  exact rank_add_nullity A

end
end Gama.LS
