/-
  Concrete instances for the non-vacuity examples of `Props/C01/Gap.lean`: the singular design
  matrix `A = [1 1; 0 0]` (defect 1), whose exact Schur pivots are 0 and 1 in every order
  (`gapAll_example`, proved by characterising all residuals), as
    * a dense array over ℚ (envelope: `gA`),
    * a `Problem ℚ` (cholesky: `pGap`; also the levelling triangle `Ex.pSing`, pivots 2, 3/2, 0),
    * the `Problem ℝ` `Gso.Ex.pR` of `GsoReal.lean` (pair theorems; `Real.sqrt` is lawful).
-/
import Gama.Lemmas.Ls.ComposeGap
import Gama.Lemmas.Ls.CholExample
import Gama.Lemmas.Ls.CholFactor
import Gama.Lemmas.Ls.GsoReal
import Gama.Lemmas.Ls.EnvExamples

namespace Gama.Ls.GapEx
open Gama Gama.Ls Gama.LS Matrix

/-! ### ℚ, dense (envelope) -/

def gA : DMat ℚ := #[#[1, 1], #[0, 0]]
def gb : Array ℚ := #[1, 1]

theorem gA_matrix : toMatrix 2 2 gA = !![1, 1; 0, 0] := by
  ext i j; fin_cases i <;> fin_cases j <;> rfl

theorem gA_gap : GapAll (toMatrix 2 2 gA) (1 / 2) := by
  rw [gA_matrix]; exact gapAll_example ℚ

/-! ### ℚ, `Problem` (cholesky) -/

section
attribute [local instance 2000] scalarOfField

/-- `A = [1 1; 0 0]`, `b = (1, 1)`, unit weights -/
def pGap (reg : Reg) : Problem ℚ :=
  { m := 2, n := 2, rows := #[#[(1, 1), (2, 1)], #[]],
    cov := #[⟨2, 0, #[1, 1]⟩], rhs := #[1, 1], reg := reg }

theorem pGap_dense (reg : Reg) : (pGap reg).dense = #[#[1, 1], #[0, 0]] := by
  simp [Problem.dense, pGap]
  refine ⟨?_, ?_⟩ <;> rfl

theorem pGap_A (reg : Reg) : (pGap reg).A = !![1, 1; 0, 0] := by
  ext (i : Fin 2) (j : Fin 2)
  show (((pGap reg).dense.getD i #[]).getD j 0) = _
  rw [pGap_dense]
  fin_cases i <;> fin_cases j <;> rfl

end

/-- `s_tol = 2⁻²⁶ ≤ 1/2` in every ordered field -/
theorem sTol_le_half {K : Type} [Field K] [LinearOrder K] [IsStrictOrderedRing K] [SqrtFn K] :
    (@Chol.sTol K scalarOfField) ≤ 1 / 2 := by
  show ((1 : ℕ) : K) / ((67108864 : ℕ) : K) ≤ 1 / 2
  norm_num

section
attribute [local instance 2000] scalarOfField

theorem pGap_gap (reg : Reg) : GapAll (pGap reg).A (Chol.sTol : ℚ) := by
  rw [pGap_A]; exact (gapAll_example ℚ).mono sTol_le_half

/-- the levelling triangle `Ex.pSing` of `CholExample.lean` -/
theorem pSing_dense (reg : Reg) : (Ex.pSing reg).dense = #[#[-1, 1, 0], #[0, -1, 1], #[1, 0, -1]] := by
  simp [Problem.dense, Ex.pSing]
  refine ⟨?_, ?_, ?_⟩ <;> rfl

theorem pSing_A (reg : Reg) : (Ex.pSing reg).A = !![-1, 1, 0; 0, -1, 1; 1, 0, -1] := by
  ext (i : Fin 3) (j : Fin 3)
  show (((Ex.pSing reg).dense.getD i #[]).getD j 0) = _
  rw [pSing_dense]
  fin_cases i <;> fin_cases j <;> rfl

theorem pSing_gap (reg : Reg) : GapAll (Ex.pSing reg).A (Chol.sTol : ℚ) := by
  rw [pSing_A]
  exact (gapAll_triangle ℚ).mono (le_trans sTol_le_half (by norm_num))

end

/-! ### ℝ (`Gso.Ex.pR`) -/

theorem pR_A : Gso.Ex.pR.A = !![1, 1; 0, 0] := by
  ext (r : Fin 2) (c : Fin 2)
  show ((Gso.Ex.pR.dense.getD r #[]).getD c 0) = _
  rw [Gso.Ex.pR_dense]
  fin_cases r <;> fin_cases c <;> rfl

theorem pR_gap : GapAll Gso.Ex.pR.A (1 / 2) := by
  rw [pR_A]; exact gapAll_example ℝ

/-- `S = {1}` resolves the defect of `[1 1; 0 0]` (kernel `(t, −t)`) -/
theorem pR_resolves : Resolves Gso.Ex.pR.A Gso.Ex.pR.S := by
  rw [pR_A]
  intro (g : Fin 2 → ℝ) hg hS
  have h0 : g 0 = 0 := hS (0 : Fin 2) (by
    show (0 : Fin 2) ∈ Reg.toFinset 2 (.subset [1])
    simp)
  have h1 : g 0 + g 1 = 0 := by
    have : ((!![1, 1; 0, 0] : Matrix (Fin 2) (Fin 2) ℝ) *ᵥ g) 0 = (0 : Fin 2 → ℝ) 0 := congrFun hg (0 : Fin 2)
    simpa [Matrix.mulVec, dotProduct, Fin.sum_univ_two] using this
  ext i
  fin_cases i
  · exact h0
  · show g 1 = 0
    rw [h0, zero_add] at h1
    exact h1

end Gama.Ls.GapEx
