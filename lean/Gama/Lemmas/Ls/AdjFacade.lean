/-
  Class `Adj`, full-solver branch (model `AdjM.homogenise`, `adjSolve`): the homogenised system is
  `(L̃⁻¹A, L̃⁻¹b)` for the block diagonal Cholesky factor `L̃` of the covariance matrix, hence
  (LS4, `IsLSSolution.of_whitened`) a least-squares solution of the homogenised unit-weight
  problem is one of the original weighted problem, with the residuals recomputed from the
  ORIGINAL `A`, `b` and `rtr = v̄ᵀv̄`.
-/
import Gama.Lemmas.Ls.AdjDense
import Gama.Lemmas.Ls.CholIsLS
import Gama.Lemmas.LS.Transform

namespace Gama.Ls
open Finset Dn AdjM Matrix Gama.LS

set_option linter.unusedSectionVars false
set_option linter.unusedVariables false

/-! ### block bookkeeping -/

theorem locate_cons (d : Nat) (ds : List Nat) (s : Nat) :
    locate (d :: ds) s = if s < d then (0, 0) else ((locate ds (s - d)).1 + 1, (locate ds (s - d)).2 + d) := by
  rfl

theorem locate_spec : ∀ (dims : List Nat) (s : Nat), s < dims.sum →
    (locate dims s).1 < dims.length ∧ (locate dims s).2 ≤ s ∧
    s < (locate dims s).2 + dims.getD (locate dims s).1 0 ∧
    (locate dims s).2 + dims.getD (locate dims s).1 0 ≤ dims.sum ∧
    ∀ t, (locate dims s).2 ≤ t → t < (locate dims s).2 + dims.getD (locate dims s).1 0 →
      locate dims t = locate dims s := by
  intro dims
  induction dims with
  | nil => intro s hs; simp at hs
  | cons d ds ih =>
    intro s hs
    rw [List.sum_cons] at hs
    rw [locate_cons]
    by_cases h : s < d
    · rw [if_pos h]
      refine ⟨by simp, Nat.zero_le s, by simpa using h, by simp, ?_⟩
      intro t _ ht
      have : t < d := by simpa using ht
      rw [locate_cons, if_pos this]
    · rw [if_neg h]
      obtain ⟨h1, h2, h3, h4, h5⟩ := ih (s - d) (by omega)
      simp only [List.length_cons, List.getD_cons_succ, List.sum_cons]
      refine ⟨by omega, by omega, by omega, by omega, ?_⟩
      intro t ht1 ht2
      have htd : ¬ t < d := by omega
      rw [locate_cons, if_neg htd, h5 (t - d) (by omega) (by omega)]

section
variable {K : Type} [Field K] [LinearOrder K] [IsStrictOrderedRing K] [SqrtFn K]
attribute [local instance 2000] scalarOfField

theorem factorsL_spec : ∀ (bs : List (CovBlock K)) (Ls : List (DMat K)), factorsL bs = .ok Ls →
    ∀ k b, bs[k]? = some b → choldec b = .ok (Ls.getD k #[]) := by
  intro bs
  induction bs with
  | nil => intro Ls _ k b hb; simp at hb
  | cons b0 bs ih =>
    intro Ls h k b hb
    unfold factorsL at h
    cases h0 : choldec b0 with
    | error e => rw [h0] at h; cases h
    | ok L0 =>
      rw [h0] at h
      simp only at h
      cases h1 : factorsL bs with
      | error e => rw [h1] at h; cases h
      | ok Ls' =>
        rw [h1] at h
        have := Except.ok.inj h
        subst this
        cases k with
        | zero =>
          simp only [List.getElem?_cons_zero, Option.some.injEq] at hb
          subst hb
          simpa using h0
        | succ k =>
          simp only [List.getElem?_cons_succ] at hb
          simpa using ih Ls' h1 k b hb

/-- block dimensions -/
def dimsOf (p : Problem K) : List Nat := p.cov.toList.map (·.dim)

/-- the covariance matrix as class `Adj` reads it: block diagonal, each block the symmetric band
    matrix stored in the `CovBlock` -/
def covF (p : Problem K) (s t : Nat) : K :=
  let kr := locate (dimsOf p) s
  if kr.2 ≤ t ∧ t < kr.2 + (dimsOf p).getD kr.1 0 then
    sget (blockDense (p.cov.toList.getD kr.1 ⟨0, 0, #[]⟩)) (s - kr.2) (t - kr.2)
  else 0

/-- `covF` as a matrix -/
def Cadj (p : Problem K) : Matrix (Fin p.m) (Fin p.m) K := Matrix.of fun s t => covF p s.val t.val

/-- block diagonal factor assembled from the per-block factors -/
def lgF (p : Problem K) (Ls : List (DMat K)) (s t : Nat) : K :=
  let kr := locate (dimsOf p) s
  if kr.2 ≤ t ∧ t < kr.2 + (dimsOf p).getD kr.1 0 then mget (Ls.getD kr.1 #[]) (s - kr.2) (t - kr.2) else 0

theorem sum_window (m r d : Nat) (h : r + d ≤ m) (f : Nat → K) :
    ∑ t ∈ range m, (if r ≤ t ∧ t < r + d then f t else 0) = ∑ i ∈ range d, f (r + i) := by
  rw [Finset.range_eq_Ico, ← Finset.sum_Ico_consecutive _ (Nat.zero_le r) (by omega : r ≤ m),
    ← Finset.sum_Ico_consecutive _ (by omega : r ≤ r + d) h]
  have h1 : ∑ t ∈ Ico 0 r, (if r ≤ t ∧ t < r + d then f t else 0) = 0 :=
    Finset.sum_eq_zero fun t ht => by
      have := (Finset.mem_Ico.1 ht).2
      rw [if_neg (by omega)]
  have h3 : ∑ t ∈ Ico (r + d) m, (if r ≤ t ∧ t < r + d then f t else 0) = 0 :=
    Finset.sum_eq_zero fun t ht => by
      have := (Finset.mem_Ico.1 ht).1
      rw [if_neg (by omega)]
  have h2 : ∑ t ∈ Ico r (r + d), (if r ≤ t ∧ t < r + d then f t else 0) = ∑ t ∈ Ico r (r + d), f t :=
    Finset.sum_congr rfl fun t ht => by
      have := Finset.mem_Ico.1 ht
      rw [if_pos ⟨this.1, this.2⟩]
  rw [h1, h2, h3, zero_add, add_zero, Finset.sum_Ico_eq_sum_range]
  simp

/-- the square root is exact on the pivots of every covariance block -/
def SqrtExactP (p : Problem K) : Prop := ∀ b ∈ p.cov.toList, SqrtExact b

theorem SqrtExactP.of_lawful [LawfulSqrt K] (p : Problem K) : SqrtExactP p :=
  fun b _ => SqrtExact.of_lawful b

/-- everything known about the block containing observation `s` -/
theorem block_facts (p : Problem K) (hsq : SqrtExactP p) (hdim : (dimsOf p).sum = p.m) (Ls : List (DMat K))
    (hLs : factorsL p.cov.toList = .ok Ls) (s : Nat) (hs : s < p.m) :
    let kr := locate (dimsOf p) s
    let d := (dimsOf p).getD kr.1 0
    let blk := p.cov.toList.getD kr.1 ⟨0, 0, #[]⟩
    let L := Ls.getD kr.1 #[]
    kr.2 ≤ s ∧ s < kr.2 + d ∧ kr.2 + d ≤ p.m ∧ blk.dim = d ∧
    (∀ t, kr.2 ≤ t → t < kr.2 + d → locate (dimsOf p) t = kr) ∧
    (∀ u v, u < d → v < d → sget (blockDense blk) u v = ∑ k ∈ range d, mget L u k * mget L v k) ∧
    (∀ u k, u < d → k < d → u < k → mget L u k = 0) ∧ (∀ u, u < d → mget L u u ≠ 0) := by
  intro kr d blk L
  obtain ⟨h1, h2, h3, h4, h5⟩ := locate_spec (dimsOf p) s (by rw [hdim]; exact hs)
  have hlen : kr.1 < p.cov.toList.length := by
    have : (dimsOf p).length = p.cov.toList.length := by unfold dimsOf; simp
    rw [← this]; exact h1
  have hblk : p.cov.toList[kr.1]? = some blk := by
    show _ = some (p.cov.toList.getD kr.1 ⟨0, 0, #[]⟩)
    rw [List.getD_eq_getElem?_getD, List.getElem?_eq_getElem hlen]; rfl
  have hd : blk.dim = d := by
    show _ = (dimsOf p).getD kr.1 0
    unfold dimsOf
    rw [List.getD_eq_getElem?_getD, List.getElem?_map, hblk]; rfl
  have hch := factorsL_spec p.cov.toList Ls hLs kr.1 blk hblk
  obtain ⟨c1, c2, c3⟩ := choldec_spec blk L (hsq blk (List.mem_of_getElem? hblk)) hch
  rw [hd] at c1 c2 c3
  exact ⟨h2, h3, by rw [← hdim]; exact h4, hd, h5, c1, c2, c3⟩

/-- **homogenisation**: there is a (block diagonal, lower triangular) `L̃` with `L̃ L̃ᵀ = C`,
    `L̃ · A_dot = A`, `L̃ · b_dot = b` -/
theorem homogenise_spec (p : Problem K) (hsq : SqrtExactP p) (hdim : (dimsOf p).sum = p.m) (Ad : DMat K) (bd : Array K)
    (h : homogenise p = .ok (Ad, bd)) :
    ∃ Lg : Matrix (Fin p.m) (Fin p.m) K, Lg * Lgᵀ = Cadj p ∧
      Lg * toMatrix p.m p.n Ad = p.A ∧ Lg *ᵥ toVec p.m bd = p.b := by
  unfold homogenise at h
  simp only [] at h
  cases hLs : factorsL p.cov.toList with
  | error e => rw [hLs] at h; cases h
  | ok Ls =>
    rw [hLs] at h
    simp only at h
    have hAB := Except.ok.inj h
    have hAd : Ad = mmk p.m p.n fun s j =>
        vget (forwardSubst ((dimsOf p).getD (locate (dimsOf p) s).1 0) (Ls.getD (locate (dimsOf p) s).1 #[])
          (vmk ((dimsOf p).getD (locate (dimsOf p) s).1 0) fun i => mget p.dense ((locate (dimsOf p) s).2 + i) j))
          (s - (locate (dimsOf p) s).2) := (Prod.mk.inj hAB).1.symm
    have hbd : bd = vmk p.m fun s =>
        vget (forwardSubst ((dimsOf p).getD (locate (dimsOf p) s).1 0) (Ls.getD (locate (dimsOf p) s).1 #[])
          (vmk ((dimsOf p).getD (locate (dimsOf p) s).1 0) fun i => vget p.rhs ((locate (dimsOf p) s).2 + i)))
          (s - (locate (dimsOf p) s).2) := (Prod.mk.inj hAB).2.symm
    clear h hAB
    have BF := block_facts p hsq hdim Ls hLs
    refine ⟨Matrix.of fun s t => lgF p Ls s.val t.val, ?_, ?_, ?_⟩
    · -- L̃ L̃ᵀ = C
      funext s t
      rw [Matrix.mul_apply]
      show ∑ u : Fin p.m, lgF p Ls s.val u.val * lgF p Ls t.val u.val = covF p s.val t.val
      rw [Fin.sum_univ_eq_sum_range (fun u => lgF p Ls s.val u * lgF p Ls t.val u) p.m]
      obtain ⟨a1, a2, a3, _, a5, a6, _, _⟩ := BF s.val s.isLt
      obtain ⟨b1, b2, b3, _, b5, _, _, _⟩ := BF t.val t.isLt
      unfold covF
      simp only []
      by_cases hin : (locate (dimsOf p) s.val).2 ≤ t.val ∧
          t.val < (locate (dimsOf p) s.val).2 + (dimsOf p).getD (locate (dimsOf p) s.val).1 0
      · rw [if_pos hin]
        have hkt := a5 t.val hin.1 hin.2
        have : ∀ u ∈ range p.m, lgF p Ls s.val u * lgF p Ls t.val u
            = if (locate (dimsOf p) s.val).2 ≤ u ∧
                u < (locate (dimsOf p) s.val).2 + (dimsOf p).getD (locate (dimsOf p) s.val).1 0 then
                mget (Ls.getD (locate (dimsOf p) s.val).1 #[]) (s.val - (locate (dimsOf p) s.val).2)
                    (u - (locate (dimsOf p) s.val).2) *
                  mget (Ls.getD (locate (dimsOf p) s.val).1 #[]) (t.val - (locate (dimsOf p) s.val).2)
                    (u - (locate (dimsOf p) s.val).2)
              else 0 := by
          intro u _
          unfold lgF
          simp only [hkt]
          split <;> simp
        rw [Finset.sum_congr rfl this, sum_window p.m _ _ a3, a6 _ _ (by omega) (by omega)]
        refine Finset.sum_congr rfl fun i _ => ?_
        simp only [Nat.add_sub_cancel_left]
      · rw [if_neg hin]
        refine Finset.sum_eq_zero fun u _ => ?_
        unfold lgF
        simp only []
        by_cases hu1 : (locate (dimsOf p) s.val).2 ≤ u ∧
            u < (locate (dimsOf p) s.val).2 + (dimsOf p).getD (locate (dimsOf p) s.val).1 0
        · by_cases hu2 : (locate (dimsOf p) t.val).2 ≤ u ∧
              u < (locate (dimsOf p) t.val).2 + (dimsOf p).getD (locate (dimsOf p) t.val).1 0
          · exfalso
            have e1 := a5 u hu1.1 hu1.2
            have e2 := b5 u hu2.1 hu2.2
            have e : locate (dimsOf p) t.val = locate (dimsOf p) s.val := by rw [← e2, e1]
            rw [e] at b1 b2
            exact hin ⟨b1, b2⟩
          · rw [if_neg hu2, mul_zero]
        · rw [if_neg hu1, zero_mul]
    · -- L̃ A_dot = A
      funext s j
      rw [Matrix.mul_apply]
      show ∑ u : Fin p.m, lgF p Ls s.val u.val * mget Ad u.val j.val = mget p.dense s.val j.val
      rw [Fin.sum_univ_eq_sum_range (fun u => lgF p Ls s.val u * mget Ad u j.val) p.m]
      obtain ⟨a1, a2, a3, _, a5, _, a7, a8⟩ := BF s.val s.isLt
      set kr := locate (dimsOf p) s.val with hkr
      set d := (dimsOf p).getD kr.1 0 with hd
      set L := Ls.getD kr.1 #[] with hL
      set col := vmk d fun i => mget p.dense (kr.2 + i) j.val with hcol
      have hAdu : ∀ i, i < d → mget Ad (kr.2 + i) j.val = vget (forwardSubst d L col) i := by
        intro i hi
        rw [hAd, mget_mmk]
        simp only [show kr.2 + i < p.m by omega, j.isLt, and_self, if_true]
        rw [a5 (kr.2 + i) (by omega) (by omega)]
        simp only [Nat.add_sub_cancel_left]
        rfl
      have : ∀ u ∈ range p.m, lgF p Ls s.val u * mget Ad u j.val
          = if kr.2 ≤ u ∧ u < kr.2 + d then mget L (s.val - kr.2) (u - kr.2) * mget Ad u j.val else 0 := by
        intro u _
        show (if kr.2 ≤ u ∧ u < kr.2 + d then mget L (s.val - kr.2) (u - kr.2) else 0) * mget Ad u j.val = _
        split
        · rfl
        · rw [zero_mul]
      rw [Finset.sum_congr rfl this, sum_window p.m kr.2 d a3]
      have h2 : ∀ i ∈ range d, mget L (s.val - kr.2) (kr.2 + i - kr.2) * mget Ad (kr.2 + i) j.val
          = mget L (s.val - kr.2) i * vget (forwardSubst d L col) i := by
        intro i hi
        rw [hAdu i (Finset.mem_range.1 hi), Nat.add_sub_cancel_left]
      rw [Finset.sum_congr rfl h2]
      obtain ⟨_, hfs⟩ := forwardSubst_spec d L col (vmk_size _ _) a7 a8
      rw [hfs (s.val - kr.2) (by omega), hcol, vget_vmk, if_pos (by omega)]
      congr 1; omega
    · -- L̃ b_dot = b
      funext s
      show ∑ u : Fin p.m, lgF p Ls s.val u.val * vget bd u.val = vget p.rhs s.val
      rw [Fin.sum_univ_eq_sum_range (fun u => lgF p Ls s.val u * vget bd u) p.m]
      obtain ⟨a1, a2, a3, _, a5, _, a7, a8⟩ := BF s.val s.isLt
      set kr := locate (dimsOf p) s.val with hkr
      set d := (dimsOf p).getD kr.1 0 with hd
      set L := Ls.getD kr.1 #[] with hL
      set col := vmk d fun i => vget p.rhs (kr.2 + i) with hcol
      have hbdu : ∀ i, i < d → vget bd (kr.2 + i) = vget (forwardSubst d L col) i := by
        intro i hi
        rw [hbd, vget_vmk]
        simp only [show kr.2 + i < p.m by omega, if_true]
        rw [a5 (kr.2 + i) (by omega) (by omega)]
        simp only [Nat.add_sub_cancel_left]
        rfl
      have : ∀ u ∈ range p.m, lgF p Ls s.val u * vget bd u
          = if kr.2 ≤ u ∧ u < kr.2 + d then mget L (s.val - kr.2) (u - kr.2) * vget bd u else 0 := by
        intro u _
        show (if kr.2 ≤ u ∧ u < kr.2 + d then mget L (s.val - kr.2) (u - kr.2) else 0) * vget bd u = _
        split
        · rfl
        · rw [zero_mul]
      rw [Finset.sum_congr rfl this, sum_window p.m kr.2 d a3]
      have h2 : ∀ i ∈ range d, mget L (s.val - kr.2) (kr.2 + i - kr.2) * vget bd (kr.2 + i)
          = mget L (s.val - kr.2) i * vget (forwardSubst d L col) i := by
        intro i hi
        rw [hbdu i (Finset.mem_range.1 hi), Nat.add_sub_cancel_left]
      rw [Finset.sum_congr rfl h2]
      obtain ⟨_, hfs⟩ := forwardSubst_spec d L col (vmk_size _ _) a7 a8
      rw [hfs (s.val - kr.2) (by omega), hcol, vget_vmk, if_pos (by omega)]
      congr 1; omega

theorem dotProblem_A (p : Problem K) (Ad : DMat K) (bd : Array K) (reg : Reg) :
    (dotProblem p Ad bd reg).A = toMatrix p.m p.n Ad := by
  funext i j
  show mget (dotProblem p Ad bd reg).dense i.val j.val = mget Ad i.val j.val
  exact mget_dense_dotProblem p Ad bd reg i.val j.val i.isLt j.isLt

theorem regOf_toFinset (n : Nat) (r : Reg) : (regOf r).toFinset n = r.toFinset n := by
  cases r <;> rfl

/-- **C01, class `Adj`, full solvers.**  If the solver model returns a least-squares solution of
    the homogenised unit-weight problem it was given, the `Adj`-level `x`, `r`, `rtr` are a
    least-squares solution of the ORIGINAL problem `(A, b, P)`, `P` the inverse of the block
    diagonal covariance matrix `Cadj p`. -/
theorem adjFull_isLS (alg : Alg) (p : Problem K) (hsq : SqrtExactP p) (hdim : (dimsOf p).sum = p.m) (hrows : RowsOK p)
    (P : Matrix (Fin p.m) (Fin p.m) K) (hP : Cadj p * P = 1)
    (hsol : ∀ Ad bd s, homogenise p = .ok (Ad, bd) →
      solverOf alg (dotProblem p Ad bd (regOf p.reg)) = .ok s →
      s.IsLS (dotProblem p Ad bd (regOf p.reg)) 1)
    (a : Answer K) (h : adjFull alg p = .ok a) : a.IsLS p P := by
  unfold adjFull at h
  simp only [] at h
  cases hh : homogenise p with
  | error e => rw [hh] at h; cases h
  | ok AB =>
    obtain ⟨Ad, bd⟩ := AB
    rw [hh] at h
    simp only at h
    cases hs : solverOf alg (dotProblem p Ad bd (regOf p.reg)) with
    | error e => rw [hs] at h; cases h
    | ok s =>
      rw [hs] at h
      simp only at h
      cases hx : s.xErr with
      | some e => rw [hx] at h; cases h
      | none =>
        rw [hx] at h
        have ha := (Except.ok.inj h).symm
        subst ha
        have hIs := hsol Ad bd s hh hs
        obtain ⟨Lg, hC, hLA, hLb⟩ := homogenise_spec p hsq hdim Ad bd hh
        -- the whitening matrix
        set Linv := Lgᵀ * P with hLinv
        have h1 : Lg * Linv = 1 := by rw [hLinv, ← Matrix.mul_assoc, hC, hP]
        have h2 : Linv * Lg = 1 := mul_eq_one_comm.1 h1
        have hW : Linvᵀ * Linv = P := whiten_of_chol hC.symm h2 hP
        have hA' : toMatrix p.m p.n Ad = Linv * p.A := by
          rw [← hLA, ← Matrix.mul_assoc, h2, Matrix.one_mul]
        have hb' : toVec p.m bd = Linv *ᵥ p.b := by
          rw [← hLb, mulVec_mulVec, h2, one_mulVec]
        unfold Answer.IsLS at hIs
        have hIs' : IsLSSolution (Linv * p.A) (Linv *ᵥ p.b) 1 p.S (toVec p.n s.x) (toVec p.m s.r) s.rtr := by
          have e1 : (dotProblem p Ad bd (regOf p.reg)).A = Linv * p.A := by rw [dotProblem_A, hA']
          have e2 : (dotProblem p Ad bd (regOf p.reg)).b = Linv *ᵥ p.b := hb'
          have e3 : (dotProblem p Ad bd (regOf p.reg)).S = p.S := regOf_toFinset p.n p.reg
          rw [e1, e2, e3] at hIs
          exact hIs
        have hfin := IsLSSolution.of_whitened hW hIs'
        unfold Answer.IsLS
        have hr : toVec p.m (origResiduals p s.x) = p.A *ᵥ toVec p.n s.x - p.b := by
          funext i
          show vget (origResiduals p s.x) i.val = _
          rw [origResiduals_spec p hrows s.x i.val i.isLt, Pi.sub_apply]
          unfold Problem.A Problem.b
          rw [mulVec_toMatrix]
          rfl
        have hrtr : (sumFrom 0 p.m fun i => vget s.r i * vget s.r i) = s.rtr := by
          rw [hIs'.rtr_eq, one_mulVec, sumFrom_eq, ← Finset.range_eq_Ico]
          unfold dotProduct
          rw [← Fin.sum_univ_eq_sum_range (fun i => vget s.r i * vget s.r i) p.m]
          rfl
        show IsLSSolution p.A p.b P p.S (toVec p.n s.x) (toVec p.m (origResiduals p s.x))
          (sumFrom 0 p.m fun i => vget s.r i * vget s.r i)
        rw [hr, hrtr]
        exact hfin

/-- what a successful `Adj` (full branch) answer is made of -/
theorem adjFull_shape (alg : Alg) (p : Problem K) (a : Answer K) (h : adjFull alg p = .ok a) :
    ∃ Ad bd s, homogenise p = .ok (Ad, bd) ∧ solverOf alg (dotProblem p Ad bd (regOf p.reg)) = .ok s ∧
      s.xErr = none ∧ a.x = s.x ∧ a.r = origResiduals p s.x ∧ a.defect = s.defect ∧ a.qxx = s.qxx ∧
      a.qbb = qbb p s.q0xx := by
  unfold adjFull at h
  simp only [] at h
  cases hh : homogenise p with
  | error e => rw [hh] at h; cases h
  | ok AB =>
    obtain ⟨Ad, bd⟩ := AB
    rw [hh] at h
    simp only at h
    cases hs : solverOf alg (dotProblem p Ad bd (regOf p.reg)) with
    | error e => rw [hs] at h; cases h
    | ok s =>
      rw [hs] at h
      simp only at h
      cases hx : s.xErr with
      | some e => rw [hx] at h; cases h
      | none =>
        rw [hx] at h
        have ha := (Except.ok.inj h).symm
        subst ha
        exact ⟨Ad, bd, s, rfl, hs, hx, rfl, rfl, rfl, rfl, rfl⟩

end
end Gama.Ls
