/-
  The column loop of `AdjCholDec::solve` (and, with the identity ordering, of `CovMat::cholDec`)
  maintains   N(u,v) = R_c(u,v) + Σ_{k<c} ℓ_k(u) d_k ℓ_k(v)
  where `d_k = mat(p_k,p_k)`, `ℓ_k(u) = 1 | mat(u,p_k) | 0` according to the position of `u`
  relative to `k`, and `R_c` is the stored trailing block (positions ≥ c).
-/
import Gama.Lemmas.Ls.CholPerm

namespace Gama.Ls
open Finset Dn Chol

set_option linter.unusedSectionVars false
set_option linter.unusedVariables false

section
variable {K : Type} [Field K] [LinearOrder K] [IsStrictOrderedRing K] [SqrtFn K]
attribute [local instance 2000] scalarOfField

/-- `d_k` -/
def dd (perm : Array Nat) (a : DMat K) (k : Nat) : K := sget a (pget perm k) (pget perm k)

/-- `ℓ_k(u)`: column `k` of the unit lower triangular factor, indexed by the ORIGINAL index `u` -/
def ell (n : Nat) (perm : Array Nat) (a : DMat K) (k u : Nat) : K :=
  if qq n perm u = k then 1 else if k < qq n perm u then sget a u (pget perm k) else 0

/-- the stored trailing block -/
def trail (n : Nat) (perm : Array Nat) (a : DMat K) (c u v : Nat) : K :=
  if c ≤ qq n perm u ∧ c ≤ qq n perm v then sget a u v else 0

structure LDLInv (n : Nat) (tol : K) (Nf : Nat → Nat → K) (perm : Array Nat) (a : DMat K) (c : Nat) : Prop where
  isPerm : IsPerm n perm
  le : c ≤ n
  piv : ∀ k, k < c → tol < dd perm a k
  dec : ∀ u v, u < n → v < n →
    Nf u v = trail n perm a c u v + ∑ k ∈ range c, ell n perm a k u * dd perm a k * ell n perm a k v

theorem LDLInv.init (n : Nat) (tol : K) (Nf : Nat → Nat → K) (a : DMat K)
    (h : ∀ u v, u < n → v < n → Nf u v = sget a u v) : LDLInv n tol Nf (pmk n id) a 0 where
  isPerm := isPerm_id n
  le := Nat.zero_le n
  piv := fun k hk => absurd hk (Nat.not_lt_zero k)
  dec := fun u v hu hv => by simp [trail, h u v hu hv]

/-- `std::swap(perm(c), perm(i))` with `c ≤ i` keeps the invariant -/
theorem LDLInv.swap {n : Nat} {tol : K} {Nf : Nat → Nat → K} {perm : Array Nat} {a : DMat K} {c : Nat}
    (h : LDLInv n tol Nf perm a c) (i : Nat) (hc : c < n) (hci : c ≤ i) (hi : i < n) :
    LDLInv n tol Nf (swapP n perm c i) a c := by
  have hP := h.isPerm
  have hpk : ∀ k, k < c → pget (swapP n perm c i) k = pget perm k := by
    intro k hk
    rw [pget_swapP n perm c i k (by omega), if_neg (by omega), if_neg (by omega)]
  have hq := qq_swap hP c i hc hi
  have hqeq : ∀ u, u < n → ∀ k, k < c → (qq n (swapP n perm c i) u = k ↔ qq n perm u = k) := by
    intro u hu k hk; rw [hq u hu]; split_ifs <;> omega
  have hqlt : ∀ u, u < n → ∀ k, k < c → (k < qq n (swapP n perm c i) u ↔ k < qq n perm u) := by
    intro u hu k hk; rw [hq u hu]; split_ifs <;> omega
  have hqle : ∀ u, u < n → (c ≤ qq n (swapP n perm c i) u ↔ c ≤ qq n perm u) := by
    intro u hu; rw [hq u hu]; split_ifs <;> omega
  have hell : ∀ u, u < n → ∀ k, k < c → ell n (swapP n perm c i) a k u = ell n perm a k u := by
    intro u hu k hk
    unfold ell
    simp only [hqeq u hu k hk, hqlt u hu k hk, hpk k hk]
  have hdd : ∀ k, k < c → dd (swapP n perm c i) a k = dd perm a k := by
    intro k hk; unfold dd; rw [hpk k hk]
  refine ⟨isPerm_swap hP c i hc hi, h.le, fun k hk => by rw [hdd k hk]; exact h.piv k hk, ?_⟩
  intro u v hu hv
  rw [h.dec u v hu hv]
  congr 1
  · unfold trail; simp only [hqle u hu, hqle v hv]
  · refine Finset.sum_congr rfl fun k hk => ?_
    have hk' := Finset.mem_range.1 hk
    rw [hell u hu k hk', hell v hv k hk', hdd k hk']

/-- one elimination step with a non-zero pivot -/
theorem LDLInv.step {n : Nat} {tol : K} {Nf : Nat → Nat → K} {perm : Array Nat} {a : DMat K} {c : Nat}
    (h : LDLInv n tol Nf perm a c) (hc : c < n) (htol : 0 ≤ tol)
    (hpiv : tol < dd perm a c) :
    LDLInv n tol Nf perm (elim n perm c (dd perm a c) a) (c + 1) := by
  have hP := h.isPerm
  set pc := pget perm c with hpc
  set d := dd perm a c with hd
  have hd0 : d ≠ 0 := ne_of_gt (lt_of_le_of_lt htol hpiv)
  have hpcn : pc < n := hP.lt c hc
  have hqpc : qq n perm pc = c := qq_perm hP c hc
  -- entries of the new matrix
  have E := fun u v hu hv => sget_elim n perm c d a u v hu hv
  -- positions
  have hqs := fun u hu => qq_spec hP u hu
  -- d_k, ℓ_k for k < c are unchanged
  have hpk_lt : ∀ k, k < n → pget perm k < n := hP.lt
  have hdd : ∀ k, k ≤ c → dd perm (elim n perm c d a) k = dd perm a k := by
    intro k hk
    unfold dd
    have hkn : k < n := by omega
    rw [E _ _ (hpk_lt k hkn) (hpk_lt k hkn), qq_perm hP k hkn]
    rw [if_neg (by omega), if_neg (by rintro ⟨_, h2⟩; omega), if_neg (by rintro ⟨_, h2⟩; omega)]
  have hell : ∀ u, u < n → ∀ k, k < c → ell n perm (elim n perm c d a) k u = ell n perm a k u := by
    intro u hu k hk
    unfold ell
    by_cases h1 : qq n perm u = k
    · rw [if_pos h1, if_pos h1]
    · rw [if_neg h1, if_neg h1]
      by_cases h2 : k < qq n perm u
      · rw [if_pos h2, if_pos h2]
        have hkn : k < n := by omega
        rw [E u _ hu (hpk_lt k hkn), qq_perm hP k hkn]
        have hne : pget perm k ≠ pc := by
          intro e
          have := hP.inj k c hkn hc e
          omega
        rw [if_neg (by omega), if_neg (by rintro ⟨h3, _⟩; exact hne h3), if_neg (by rintro ⟨_, h3⟩; omega)]
      · rw [if_neg h2, if_neg h2]
  have hellc : ∀ u, u < n → ell n perm (elim n perm c d a) c u =
      if qq n perm u = c then 1 else if c < qq n perm u then sget a u pc / d else 0 := by
    intro u hu
    unfold ell
    by_cases h1 : qq n perm u = c
    · rw [if_pos h1, if_pos h1]
    · rw [if_neg h1, if_neg h1]
      by_cases h2 : c < qq n perm u
      · rw [if_pos h2, if_pos h2, E u pc hu hpcn, hqpc]
        rw [if_neg (by omega), if_pos ⟨rfl, h2⟩]
      · rw [if_neg h2, if_neg h2]
  refine ⟨hP, hc, ?_, ?_⟩
  · intro k hk
    rw [hdd k (by omega)]
    by_cases hkc : k = c
    · subst hkc; exact hpiv
    · exact h.piv k (by omega)
  · intro u v hu hv
    rw [h.dec u v hu hv, Finset.sum_range_succ]
    have hsum : ∑ k ∈ range c, ell n perm (elim n perm c d a) k u * dd perm (elim n perm c d a) k *
          ell n perm (elim n perm c d a) k v
        = ∑ k ∈ range c, ell n perm a k u * dd perm a k * ell n perm a k v := by
      refine Finset.sum_congr rfl fun k hk => ?_
      have hk' := Finset.mem_range.1 hk
      rw [hell u hu k hk', hell v hv k hk', hdd k (by omega)]
    rw [hsum, hdd c (le_refl c), hellc u hu, hellc v hv]
    have hu' : qq n perm u = c ↔ u = pc := qq_eq_iff hP u c hu hc
    have hv' : qq n perm v = c ↔ v = pc := qq_eq_iff hP v c hv hc
    unfold trail
    rw [E u v hu hv]
    -- case analysis on the positions of u and v relative to c
    rcases lt_trichotomy (qq n perm u) c with hu1 | hu1 | hu1 <;>
    rcases lt_trichotomy (qq n perm v) c with hv1 | hv1 | hv1
    · simp [show ¬ c ≤ qq n perm u by omega, show ¬ c + 1 ≤ qq n perm u by omega,
        show ¬ qq n perm u = c by omega, show ¬ c < qq n perm u by omega]
    · simp [show ¬ c ≤ qq n perm u by omega, show ¬ c + 1 ≤ qq n perm u by omega,
        show ¬ qq n perm u = c by omega, show ¬ c < qq n perm u by omega]
    · simp [show ¬ c ≤ qq n perm u by omega, show ¬ c + 1 ≤ qq n perm u by omega,
        show ¬ qq n perm u = c by omega, show ¬ c < qq n perm u by omega]
    · simp [show ¬ c ≤ qq n perm v by omega, show ¬ c + 1 ≤ qq n perm v by omega,
        show ¬ qq n perm v = c by omega, show ¬ c < qq n perm v by omega]
    · -- u = v = pc
      have eu := hu'.1 hu1
      have ev := hv'.1 hv1
      subst eu; subst ev
      simp [hu1, hd, dd] <;> ring
    · -- u = pc, v behind
      have eu := hu'.1 hu1
      subst eu
      have hvne : ¬ qq n perm v = c := by omega
      simp only [hu1, hvne, hv1, le_refl, show c ≤ qq n perm v by omega, and_self, if_true,
        show ¬ c + 1 ≤ c by omega, false_and, if_false, lt_irrefl, true_and, and_true]
      rw [sget_comm a pc v]
      field_simp
      (try simp only [← hd])
      ring
    · simp [show ¬ c ≤ qq n perm v by omega, show ¬ c + 1 ≤ qq n perm v by omega,
        show ¬ qq n perm v = c by omega, show ¬ c < qq n perm v by omega]
    · have ev := hv'.1 hv1
      subst ev
      have hune : ¬ qq n perm u = c := by omega
      simp only [hv1, hune, hu1, le_refl, show c ≤ qq n perm u by omega, and_self, if_true,
        show ¬ c + 1 ≤ c by omega, and_false, if_false, lt_irrefl, true_and, and_true]
      field_simp
      (try simp only [← hd])
      ring
    · have hune : ¬ qq n perm u = c := by omega
      have hvne : ¬ qq n perm v = c := by omega
      simp only [hune, hvne, hu1, hv1, show c ≤ qq n perm u by omega, show c ≤ qq n perm v by omega,
        show c + 1 ≤ qq n perm u by omega, show c + 1 ≤ qq n perm v by omega, and_self, if_true, if_false]
      field_simp
      ring

end
end Gama.Ls
