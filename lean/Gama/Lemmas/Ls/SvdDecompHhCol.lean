/-
  The LEFT Householder half-step `hhCol` of the bidiagonalisation of `Svd.decompose`
  (piece of `SvdDecompStruct.lean`) meets its interface `HhColStmt` (`SvdDecompSpec.lean`).

    1. `hc_hhCol_eq_pure`: the piece never throws; its result is the pure expression `hc_hhColPure`
       built from the folds `hc_absSum`, `hc_divLoop`, `hc_dotLoop`, `hc_axpyLoop`, `hc_colsLoop`, `hc_scaleLoop`;
    2. closed forms of these folds at the field's own operations;
    3. the Householder algebra (`hc_hh_core`, `hc_post_nz`, `hc_post_zero`);
    4. `hhCol_stmt`.
-/
import Gama.Lemmas.Ls.SvdDecompSpec

namespace Gama.Ls.Svd
open Matrix Finset Gama.LS Gama.Ls Gama
set_option linter.unusedSectionVars false
set_option linter.unusedVariables false
set_option linter.unusedSimpArgs false

section pieces
variable {K : Type} [Scalar K]

theorem hc_forIn_range_pure' {ε σ : Type} (a b : Nat) (init : σ) (F : Nat → σ → σ) :
    forIn [a:b] init (fun k s => (pure (ForInStep.yield (F k s)) : Except ε (ForInStep σ)))
      = pure (rfold F a (b - a) init) := forIn_range_pure a b init F

def hc_absSum (m i : Nat) (U : DMat K) : K :=
  rfold (fun k (acc : K) => acc + absC (mg U k i)) i (m + 1 - i) 0

def hc_divLoop (m i : Nat) (c : K) (U : DMat K) : DMat K × K :=
  rfold (fun k (p : DMat K × K) => (ms p.1 k i (mg p.1 k i / c), p.2 + mg p.1 k i / c * (mg p.1 k i / c)))
    i (m + 1 - i) (U, 0)

def hc_dotLoop (m i j : Nat) (X : DMat K) : K :=
  rfold (fun k (acc : K) => acc + mg X k i * mg X k j) i (m + 1 - i) 0

def hc_axpyLoop (m i j : Nat) (c : K) (X : DMat K) : DMat K :=
  rfold (fun k (X : DMat K) => ms X k j (mg X k j + c * mg X k i)) i (m + 1 - i) X

def hc_colsLoop (m n i : Nat) (h : K) (X : DMat K) (s f : K) : DMat K × K × K :=
  rfold (fun j (st : DMat K × K × K) =>
      (hc_axpyLoop m i j (hc_dotLoop m i j st.1 / h) st.1, hc_dotLoop m i j st.1, hc_dotLoop m i j st.1 / h))
    (i + 1) (n + 1 - (i + 1)) (X, s, f)

def hc_scaleLoop (m i : Nat) (c : K) (X : DMat K) : DMat K :=
  rfold (fun k (X : DMat K) => ms X k i (mg X k i * c)) i (m + 1 - i) X

def hc_tailPure (m n i : Nat) (scale g : K) (U1 : DMat K) (s : K) : DMat K × K × K × K × K × K :=
  if i ≠ n then
    (hc_scaleLoop m i scale (hc_colsLoop m n i (mg U1 i i * g - s) (ms U1 i i (mg U1 i i - g)) s (mg U1 i i)).1, g, scale,
      (hc_colsLoop m n i (mg U1 i i * g - s) (ms U1 i i (mg U1 i i - g)) s (mg U1 i i)).2.1,
      (hc_colsLoop m n i (mg U1 i i * g - s) (ms U1 i i (mg U1 i i - g)) s (mg U1 i i)).2.2, mg U1 i i * g - s)
  else (hc_scaleLoop m i scale (ms U1 i i (mg U1 i i - g)), g, scale, s, mg U1 i i, mg U1 i i * g - s)

def hc_hhColPure (m n i : Nat) (U : DMat K) (f h : K) : DMat K × K × K × K × K × K :=
  if i ≤ m then
    if nz (hc_absSum m i U) = true then
      if (0 : K) ≤ mg (hc_divLoop m i (hc_absSum m i U) U).1 i i then
        hc_tailPure m n i (hc_absSum m i U) (-Scalar.sqrt (hc_divLoop m i (hc_absSum m i U) U).2) (hc_divLoop m i (hc_absSum m i U) U).1
          (hc_divLoop m i (hc_absSum m i U) U).2
      else
        hc_tailPure m n i (hc_absSum m i U) (Scalar.sqrt (hc_divLoop m i (hc_absSum m i U) U).2) (hc_divLoop m i (hc_absSum m i U) U).1
          (hc_divLoop m i (hc_absSum m i U) U).2
    else (U, 0, hc_absSum m i U, 0, f, h)
  else (U, 0, 0, 0, f, h)

theorem hc_hhCol_eq_pure (m n i : Nat) (U : DMat K) (f h : K) :
    hhCol m n i (i + 1) U f h = .ok (hc_hhColPure m n i U f h) := by
  unfold hhCol hc_hhColPure hc_tailPure hc_colsLoop hc_scaleLoop hc_axpyLoop hc_dotLoop hc_divLoop hc_absSum
  simp only [hc_forIn_range_pure', pure_bind]
  split_ifs <;> rfl

end pieces

section closed
variable {K : Type} [Field K] [LinearOrder K] [IsStrictOrderedRing K] (sq : K → K)
local notation "𝕊" => (Gama.LS.fieldScalar sq)

theorem hc_wf_ms {r c : Nat} {M : DMat K} (h : MWF r c M) (i j : Nat) (x : K) : MWF r c (ms M i j x) :=
  @MWF.ms K (Gama.LS.fieldScalar id) r c M h i j x

theorem hc_mg_ms_in' {r c : Nat} {M : DMat K} (h : MWF r c M) {i j : Nat} (hi : 1 ≤ i) (hi' : i ≤ r)
    (hj : 1 ≤ j) (hj' : j ≤ c) (a b : Nat) (x : K) :
    @mg K 𝕊 (ms M i j x) a b = if a = i ∧ b = j then x else @mg K 𝕊 M a b :=
  @mg_ms_in K 𝕊 r c M h i j hi hi' hj hj' a b x

/-- a summation loop -/
theorem hc_rfold_sum (F : Nat → K) {a b : Nat} (hab : a ≤ b + 1) (init : K) :
    rfold (fun k (acc : K) => acc + F k) a (b + 1 - a) init = init + ∑ k ∈ Icc a b, F k := by
  have := rfold_range_inv (fun k (acc : K) => acc + F k) (fun t acc => acc = init + ∑ k ∈ Ico a t, F k) hab init
    (by simp) (by
      intro t acc h1 h2 h
      rw [h, Finset.sum_Ico_succ_top h1, add_assoc])
  rw [this, Finset.Ico_add_one_right_eq_Icc]

/-- a loop that rewrites rows `lo..hi` of column `j`, the new entry depending on row `k` only -/
theorem hc_rfold_colmap {m n : Nat} (G : Nat → DMat K → K)
    (hG : ∀ k X X', (∀ b, @mg K 𝕊 X k b = @mg K 𝕊 X' k b) → G k X = G k X')
    {j lo hi : Nat} (hj : 1 ≤ j) (hj' : j ≤ n) (hlo : 1 ≤ lo) (hhi : hi ≤ m) (hlh : lo ≤ hi + 1)
    (X0 : DMat K) (hwf : MWF m n X0) :
    MWF m n (rfold (fun k (X : DMat K) => ms X k j (G k X)) lo (hi + 1 - lo) X0) ∧
    ∀ a b, @mg K 𝕊 (rfold (fun k (X : DMat K) => ms X k j (G k X)) lo (hi + 1 - lo) X0) a b
      = if b = j ∧ lo ≤ a ∧ a ≤ hi then G a X0 else @mg K 𝕊 X0 a b := by
  have := rfold_range_inv (fun k (X : DMat K) => ms X k j (G k X))
    (fun t X => MWF m n X ∧ ∀ a b, @mg K 𝕊 X a b = if b = j ∧ lo ≤ a ∧ a < t then G a X0 else @mg K 𝕊 X0 a b)
    hlh X0 ⟨hwf, fun a b => by rw [if_neg (by omega)]⟩ (by
      intro t X h1 h2 ⟨hw, hX⟩
      refine ⟨hc_wf_ms hw _ _ _, fun a b => ?_⟩
      rw [hc_mg_ms_in' sq hw (by omega) (by omega) hj hj']
      have hrow : G t X = G t X0 := hG t X X0 (fun b => by rw [hX, if_neg (by omega)])
      by_cases hab : a = t ∧ b = j
      · rw [if_pos hab, if_pos (by omega), hrow, hab.1]
      · rw [if_neg hab, hX]
        by_cases hc : b = j ∧ lo ≤ a ∧ a < t
        · rw [if_pos hc, if_pos (by omega)]
        · rw [if_neg hc, if_neg (by omega)])
  refine ⟨this.1, fun a b => ?_⟩
  rw [this.2]
  by_cases hc : b = j ∧ lo ≤ a ∧ a ≤ hi
  · rw [if_pos hc, if_pos (by omega)]
  · rw [if_neg hc, if_neg (by omega)]

/-- the same with an accumulated sum -/
theorem hc_rfold_colmap_acc {m n : Nat} (G H : Nat → DMat K → K)
    (hG : ∀ k X X', (∀ b, @mg K 𝕊 X k b = @mg K 𝕊 X' k b) → G k X = G k X')
    (hH : ∀ k X X', (∀ b, @mg K 𝕊 X k b = @mg K 𝕊 X' k b) → H k X = H k X')
    {j lo hi : Nat} (hj : 1 ≤ j) (hj' : j ≤ n) (hlo : 1 ≤ lo) (hhi : hi ≤ m) (hlh : lo ≤ hi + 1)
    (X0 : DMat K) (s0 : K) (hwf : MWF m n X0) :
    MWF m n (rfold (fun k (p : DMat K × K) => (ms p.1 k j (G k p.1), p.2 + H k p.1)) lo (hi + 1 - lo) (X0, s0)).1 ∧
    (∀ a b, @mg K 𝕊 (rfold (fun k (p : DMat K × K) => (ms p.1 k j (G k p.1), p.2 + H k p.1)) lo (hi + 1 - lo) (X0, s0)).1 a b
      = if b = j ∧ lo ≤ a ∧ a ≤ hi then G a X0 else @mg K 𝕊 X0 a b) ∧
    (rfold (fun k (p : DMat K × K) => (ms p.1 k j (G k p.1), p.2 + H k p.1)) lo (hi + 1 - lo) (X0, s0)).2
      = s0 + ∑ k ∈ Icc lo hi, H k X0 := by
  have := rfold_range_inv (fun k (p : DMat K × K) => (ms p.1 k j (G k p.1), p.2 + H k p.1))
    (fun t p => MWF m n p.1 ∧ (∀ a b, @mg K 𝕊 p.1 a b = if b = j ∧ lo ≤ a ∧ a < t then G a X0 else @mg K 𝕊 X0 a b)
      ∧ p.2 = s0 + ∑ k ∈ Ico lo t, H k X0)
    hlh (X0, s0) ⟨hwf, fun a b => by rw [if_neg (by omega)], by simp⟩ (by
      intro t p h1 h2 ⟨hw, hX, hs⟩
      have hrow : G t p.1 = G t X0 := hG t p.1 X0 (fun b => by rw [hX, if_neg (by omega)])
      have hrow' : H t p.1 = H t X0 := hH t p.1 X0 (fun b => by rw [hX, if_neg (by omega)])
      refine ⟨hc_wf_ms hw _ _ _, fun a b => ?_, ?_⟩
      · show @mg K 𝕊 (ms p.1 t j (G t p.1)) a b = _
        rw [hc_mg_ms_in' sq hw (by omega) (by omega) hj hj']
        by_cases hab : a = t ∧ b = j
        · rw [if_pos hab, if_pos (by omega), hrow, hab.1]
        · rw [if_neg hab, hX]
          by_cases hc : b = j ∧ lo ≤ a ∧ a < t
          · rw [if_pos hc, if_pos (by omega)]
          · rw [if_neg hc, if_neg (by omega)]
      · show p.2 + H t p.1 = _
        rw [hs, hrow', Finset.sum_Ico_succ_top h1, add_assoc])
  refine ⟨this.1, fun a b => ?_, ?_⟩
  · rw [this.2.1]
    by_cases hc : b = j ∧ lo ≤ a ∧ a ≤ hi
    · rw [if_pos hc, if_pos (by omega)]
    · rw [if_neg hc, if_neg (by omega)]
  · rw [this.2.2, Finset.Ico_add_one_right_eq_Icc]


theorem hc_absSum_eq {m i : Nat} (him : i ≤ m + 1) (U : DMat K) :
    @hc_absSum K 𝕊 m i U = ∑ k ∈ Icc i m, |@mg K 𝕊 U k i| := by
  unfold hc_absSum
  simp only [absC_eq']
  exact (hc_rfold_sum (fun k => |@mg K 𝕊 U k i|) him 0).trans (zero_add _)

theorem hc_dotLoop_eq {m i : Nat} (him : i ≤ m + 1) (j : Nat) (X : DMat K) :
    @hc_dotLoop K 𝕊 m i j X = ∑ k ∈ Icc i m, @mg K 𝕊 X k i * @mg K 𝕊 X k j := by
  unfold hc_dotLoop
  exact (hc_rfold_sum (fun k => @mg K 𝕊 X k i * @mg K 𝕊 X k j) him 0).trans (zero_add _)

theorem hc_divLoop_spec {m n i : Nat} (hi1 : 1 ≤ i) (hin : i ≤ n) (him : i ≤ m) (c : K) (U : DMat K) (hwf : MWF m n U) :
    MWF m n (@hc_divLoop K 𝕊 m i c U).1 ∧
    (∀ a b, @mg K 𝕊 (@hc_divLoop K 𝕊 m i c U).1 a b
      = if b = i ∧ i ≤ a ∧ a ≤ m then @mg K 𝕊 U a i / c else @mg K 𝕊 U a b) ∧
    (@hc_divLoop K 𝕊 m i c U).2 = ∑ k ∈ Icc i m, @mg K 𝕊 U k i / c * (@mg K 𝕊 U k i / c) := by
  have := hc_rfold_colmap_acc sq (fun k X => @mg K 𝕊 X k i / c) (fun k X => @mg K 𝕊 X k i / c * (@mg K 𝕊 X k i / c))
    (fun k X X' h => by simp only [h]) (fun k X X' h => by simp only [h])
    hi1 hin hi1 (le_refl m) (by omega) U 0 hwf
  rw [zero_add] at this
  unfold hc_divLoop
  exact this

theorem hc_axpyLoop_spec {m n i j : Nat} (hi1 : 1 ≤ i) (him : i ≤ m) (hj1 : 1 ≤ j) (hjn : j ≤ n) (c : K) (X : DMat K)
    (hwf : MWF m n X) :
    MWF m n (@hc_axpyLoop K 𝕊 m i j c X) ∧
    ∀ a b, @mg K 𝕊 (@hc_axpyLoop K 𝕊 m i j c X) a b
      = if b = j ∧ i ≤ a ∧ a ≤ m then @mg K 𝕊 X a j + c * @mg K 𝕊 X a i else @mg K 𝕊 X a b := by
  have := hc_rfold_colmap sq (fun k X => @mg K 𝕊 X k j + c * @mg K 𝕊 X k i)
    (fun k X X' h => by simp only [h])
    hj1 hjn hi1 (le_refl m) (by omega) X hwf
  unfold hc_axpyLoop
  exact this

theorem hc_scaleLoop_spec {m n i : Nat} (hi1 : 1 ≤ i) (hin : i ≤ n) (him : i ≤ m) (c : K) (X : DMat K)
    (hwf : MWF m n X) :
    MWF m n (@hc_scaleLoop K 𝕊 m i c X) ∧
    ∀ a b, @mg K 𝕊 (@hc_scaleLoop K 𝕊 m i c X) a b
      = if b = i ∧ i ≤ a ∧ a ≤ m then @mg K 𝕊 X a i * c else @mg K 𝕊 X a b := by
  have := hc_rfold_colmap sq (fun k X => @mg K 𝕊 X k i * c)
    (fun k X X' h => by simp only [h])
    hi1 hin hi1 (le_refl m) (by omega) X hwf
  unfold hc_scaleLoop
  exact this


theorem hc_colsLoop_spec {m n i : Nat} (hi1 : 1 ≤ i) (hin : i ≤ n) (him : i ≤ m) (c : K) (X0 : DMat K) (s0 f0 : K)
    (hwf : MWF m n X0) :
    MWF m n (@hc_colsLoop K 𝕊 m n i c X0 s0 f0).1 ∧
    ∀ a b, @mg K 𝕊 (@hc_colsLoop K 𝕊 m n i c X0 s0 f0).1 a b
      = if i + 1 ≤ b ∧ b ≤ n ∧ i ≤ a ∧ a ≤ m then
          @mg K 𝕊 X0 a b + (∑ r ∈ Icc i m, @mg K 𝕊 X0 r i * @mg K 𝕊 X0 r b) / c * @mg K 𝕊 X0 a i
        else @mg K 𝕊 X0 a b := by
  unfold hc_colsLoop
  have := rfold_range_inv (fun j (st : DMat K × K × K) =>
      (@hc_axpyLoop K 𝕊 m i j (@HDiv.hDiv K K K (@instHDiv K (𝕊).toDiv) (@hc_dotLoop K 𝕊 m i j st.1) c) st.1,
        @hc_dotLoop K 𝕊 m i j st.1, @HDiv.hDiv K K K (@instHDiv K (𝕊).toDiv) (@hc_dotLoop K 𝕊 m i j st.1) c))
    (fun t st => MWF m n st.1 ∧ ∀ a b, @mg K 𝕊 st.1 a b
      = if i + 1 ≤ b ∧ b < t ∧ i ≤ a ∧ a ≤ m then
          @mg K 𝕊 X0 a b + (∑ r ∈ Icc i m, @mg K 𝕊 X0 r i * @mg K 𝕊 X0 r b) / c * @mg K 𝕊 X0 a i
        else @mg K 𝕊 X0 a b)
    (show i + 1 ≤ n + 1 by omega) (X0, s0, f0) ⟨hwf, fun a b => by rw [if_neg (by omega)]⟩ (by
      intro t st h1 h2 ⟨hw, hX⟩
      obtain ⟨hw', hX'⟩ := hc_axpyLoop_spec sq hi1 him (show 1 ≤ t by omega) (show t ≤ n by omega)
        (@hc_dotLoop K 𝕊 m i t st.1 / c) st.1 hw
      refine ⟨hw', fun a b => ?_⟩
      show @mg K 𝕊 (@hc_axpyLoop K 𝕊 m i t (@hc_dotLoop K 𝕊 m i t st.1 / c) st.1) a b = _
      rw [hX', hc_dotLoop_eq sq (by omega)]
      have hdot : ∑ k ∈ Icc i m, @mg K 𝕊 st.1 k i * @mg K 𝕊 st.1 k t
          = ∑ k ∈ Icc i m, @mg K 𝕊 X0 k i * @mg K 𝕊 X0 k t := by
        refine Finset.sum_congr rfl fun k _ => ?_
        rw [hX, hX, if_neg (by omega), if_neg (by omega)]
      rw [hdot]
      by_cases hc : b = t ∧ i ≤ a ∧ a ≤ m
      · rw [if_pos hc, if_pos (by omega), hX, hX, if_neg (by omega), if_neg (by omega), hc.1]
      · rw [if_neg hc, hX]
        by_cases hd : i + 1 ≤ b ∧ b < t ∧ i ≤ a ∧ a ≤ m
        · rw [if_pos hd, if_pos (by omega)]
        · rw [if_neg hd, if_neg (by omega)])
  refine ⟨this.1, fun a b => ?_⟩
  rw [this.2]
  by_cases hd : i + 1 ≤ b ∧ b ≤ n ∧ i ≤ a ∧ a ≤ m
  · rw [if_pos hd, if_pos (by omega)]
  · rw [if_neg hd, if_neg (by omega)]


/-- the part of `hhCol` after the choice of the sign of `g` -/
theorem hc_tailPure_spec {m n i : Nat} (hi1 : 1 ≤ i) (hin : i ≤ n) (him : i ≤ m) (σ g s : K) (U1 : DMat K)
    (hwf : MWF m n U1) :
    MWF m n (@hc_tailPure K 𝕊 m n i σ g U1 s).1 ∧
    (@hc_tailPure K 𝕊 m n i σ g U1 s).2.1 = g ∧ (@hc_tailPure K 𝕊 m n i σ g U1 s).2.2.1 = σ ∧
    ∀ a b, @mg K 𝕊 (@hc_tailPure K 𝕊 m n i σ g U1 s).1 a b
      = if b = i ∧ i ≤ a ∧ a ≤ m then (if a = i then @mg K 𝕊 U1 i i - g else @mg K 𝕊 U1 a i) * σ
        else if i + 1 ≤ b ∧ b ≤ n ∧ i ≤ a ∧ a ≤ m then
          @mg K 𝕊 U1 a b
            + (∑ r ∈ Icc i m, (if r = i then @mg K 𝕊 U1 i i - g else @mg K 𝕊 U1 r i) * @mg K 𝕊 U1 r b)
                / (@mg K 𝕊 U1 i i * g - s) * (if a = i then @mg K 𝕊 U1 i i - g else @mg K 𝕊 U1 a i)
        else @mg K 𝕊 U1 a b := by
  have hw2 : MWF m n (ms U1 i i (@mg K 𝕊 U1 i i - g)) := hc_wf_ms hwf _ _ _
  have h2 : ∀ a b, @mg K 𝕊 (ms U1 i i (@mg K 𝕊 U1 i i - g)) a b
      = if a = i ∧ b = i then @mg K 𝕊 U1 i i - g else @mg K 𝕊 U1 a b :=
    fun a b => hc_mg_ms_in' sq hwf hi1 him hi1 hin a b _
  unfold hc_tailPure
  simp only [fs_mul, fs_sub]
  by_cases hn : i = n
  · rw [if_neg (not_not.mpr hn)]
    obtain ⟨hw4, h4⟩ := hc_scaleLoop_spec sq hi1 hin him σ _ hw2
    refine ⟨hw4, rfl, rfl, fun a b => ?_⟩
    show @mg K 𝕊 (@hc_scaleLoop K 𝕊 m i σ (ms U1 i i (@mg K 𝕊 U1 i i - g))) a b = _
    rw [h4, h2, h2]
    by_cases hc : b = i ∧ i ≤ a ∧ a ≤ m
    · rw [if_pos hc, if_pos hc]
      by_cases ha : a = i
      · rw [if_pos ⟨ha, rfl⟩, if_pos ha]
      · rw [if_neg (fun hh => ha hh.1), if_neg ha]
    · rw [if_neg hc, if_neg hc, if_neg (by omega), if_neg (by omega)]
  · rw [if_pos hn]
    obtain ⟨hw3, h3⟩ := hc_colsLoop_spec sq hi1 hin him (@mg K 𝕊 U1 i i * g - s) _ s (@mg K 𝕊 U1 i i) hw2
    obtain ⟨hw4, h4⟩ := hc_scaleLoop_spec sq hi1 hin him σ _ hw3
    refine ⟨hw4, rfl, rfl, fun a b => ?_⟩
    show @mg K 𝕊 (@hc_scaleLoop K 𝕊 m i σ (@hc_colsLoop K 𝕊 m n i (@mg K 𝕊 U1 i i * g - s)
      (ms U1 i i (@mg K 𝕊 U1 i i - g)) s (@mg K 𝕊 U1 i i)).1) a b = _
    rw [h4, h3, h3]
    by_cases hc : b = i ∧ i ≤ a ∧ a ≤ m
    · rw [if_pos hc, if_pos hc, if_neg (by omega), h2]
      by_cases ha : a = i
      · rw [if_pos ⟨ha, rfl⟩, if_pos ha]
      · rw [if_neg (fun hh => ha hh.1), if_neg ha]
    · rw [if_neg hc, if_neg hc]
      by_cases hd : i + 1 ≤ b ∧ b ≤ n ∧ i ≤ a ∧ a ≤ m
      · rw [if_pos hd, if_pos hd, h2, h2, if_neg (by omega)]
        have hsum : ∑ r ∈ Icc i m, @mg K 𝕊 (ms U1 i i (@mg K 𝕊 U1 i i - g)) r i
              * @mg K 𝕊 (ms U1 i i (@mg K 𝕊 U1 i i - g)) r b
            = ∑ r ∈ Icc i m, (if r = i then @mg K 𝕊 U1 i i - g else @mg K 𝕊 U1 r i) * @mg K 𝕊 U1 r b := by
          refine Finset.sum_congr rfl fun r _ => ?_
          rw [h2 r b, if_neg (show ¬(r = i ∧ b = i) by omega), h2 r i]
          by_cases hr : r = i
          · rw [if_pos ⟨hr, rfl⟩, if_pos hr]
          · rw [if_neg (fun hh => hr hh.1), if_neg hr]
        rw [hsum]
        by_cases ha : a = i
        · rw [if_pos ⟨ha, rfl⟩, if_pos ha]
        · rw [if_neg (fun hh => ha hh.1), if_neg ha]
      · rw [if_neg hd, if_neg hd, h2, if_neg (by omega)]


theorem hc_hh_core (i m : Nat) (him : i ≤ m) (x : Nat → K) (g s : K)
    (hs : s = ∑ a ∈ Icc i m, x a * x a) (hg : g * g = s) :
    (∑ a ∈ Icc i m, (if a = i then x i - g else x a) * (if a = i then x i - g else x a) = -2 * (x i * g - s)) ∧
    (∑ a ∈ Icc i m, (if a = i then x i - g else x a) * x a = -(x i * g - s)) := by
  have hmem : i ∈ Icc i m := Finset.mem_Icc.mpr ⟨le_refl _, him⟩
  have e1 : ∀ a, (if a = i then x i - g else x a) * (if a = i then x i - g else x a)
      = x a * x a + (if a = i then (x i - g) * (x i - g) - x i * x i else 0) := by
    intro a
    by_cases ha : a = i
    · subst ha; simp
    · simp [ha]
  have e2 : ∀ a, (if a = i then x i - g else x a) * x a
      = x a * x a + (if a = i then (x i - g) * x i - x i * x i else 0) := by
    intro a
    by_cases ha : a = i
    · subst ha; simp
    · simp [ha]
  constructor
  · simp only [e1, Finset.sum_add_distrib, Finset.sum_ite_eq', hmem, if_true, ← hs]
    rw [← hg]; ring
  · simp only [e2, Finset.sum_add_distrib, Finset.sum_ite_eq', hmem, if_true, ← hs]
    rw [← hg]; ring


theorem hc_post_nz {m n i : Nat} (hi1 : 1 ≤ i) (hin : i ≤ n) (him : i ≤ m) (U U' : DMat K) (σ g s : K)
    (x u : Nat → K) (hσ : σ ≠ 0) (hx : ∀ a, @mg K 𝕊 U a i = σ * x a)
    (hs : s = ∑ a ∈ Icc i m, x a * x a) (hs0 : s ≠ 0) (hg : g * g = s) (hfg : x i * g ≤ 0)
    (hu : ∀ a, u a = if a = i then x i - g else x a)
    (hwf : MWF m n U')
    (hU' : ∀ a b, @mg K 𝕊 U' a b = if b = i ∧ i ≤ a ∧ a ≤ m then u a * σ
        else if i + 1 ≤ b ∧ b ≤ n ∧ i ≤ a ∧ a ≤ m then
          @mg K 𝕊 U a b + (∑ r ∈ Icc i m, u r * @mg K 𝕊 U r b) / (x i * g - s) * u a
        else @mg K 𝕊 U a b) :
    HhColPost sq m n i U U' (σ * g) := by
  obtain ⟨hB, hC⟩ := hc_hh_core i m him x g s hs hg
  simp only [← hu] at hB hC
  have hspos : 0 < s := lt_of_le_of_ne (by rw [← hg]; exact mul_self_nonneg g) (Ne.symm hs0)
  have hg0 : g ≠ 0 := by rintro rfl; rw [mul_zero] at hg; exact hs0 hg.symm
  have hh0 : x i * g - s ≠ 0 := by
    have : x i * g - s < 0 := by linarith
    exact ne_of_lt this
  have hui : u i = x i - g := by rw [hu, if_pos rfl]
  have hui0 : u i ≠ 0 := by
    rw [hui]
    intro h0
    have : x i = g := by linarith
    rw [this, hg] at hfg
    exact absurd hspos (not_lt.mpr hfg)
  have hUi : ∀ a, i ≤ a → a ≤ m → @mg K 𝕊 U' a i = u a * σ := fun a h1 h2 => by rw [hU', if_pos ⟨rfl, h1, h2⟩]
  have hβ : @mg K 𝕊 U' i i * (σ * g) = σ * σ * (x i * g - s) := by
    rw [hUi i (le_refl _) him, hui, ← hg]; ring
  have hβ0 : @mg K 𝕊 U' i i * (σ * g) ≠ 0 := by
    rw [hβ]; exact mul_ne_zero (mul_ne_zero hσ hσ) hh0
  refine ⟨hwf, ?_, ?_, ?_, ?_, ?_, ?_⟩
  · intro a b hab
    rw [hU', if_neg (by omega), if_neg (by omega)]
  · right
    have : ∑ a ∈ Icc i m, @mg K 𝕊 U' a i * @mg K 𝕊 U' a i = σ * σ * ∑ a ∈ Icc i m, u a * u a := by
      rw [Finset.mul_sum]
      refine Finset.sum_congr rfl fun a ha => ?_
      rw [hUi a (Finset.mem_Icc.mp ha).1 (Finset.mem_Icc.mp ha).2]; ring
    rw [this, hB, hβ]; ring
  · intro _
    rw [hUi i (le_refl _) him]
    exact mul_ne_zero hui0 hσ
  · intro a b h1 h2 h3 h4
    have : ∑ r ∈ Icc i m, @mg K 𝕊 U' r i * @mg K 𝕊 U r b = σ * ∑ r ∈ Icc i m, u r * @mg K 𝕊 U r b := by
      rw [Finset.mul_sum]
      refine Finset.sum_congr rfl fun r hr => ?_
      rw [hUi r (Finset.mem_Icc.mp hr).1 (Finset.mem_Icc.mp hr).2]; ring
    rw [this, hβ, hUi a h1 h2, hU', if_neg (by omega), if_pos ⟨h3, h4, h1, h2⟩]
    field_simp
  · intro a h1 h2
    have : ∑ r ∈ Icc i m, @mg K 𝕊 U' r i * @mg K 𝕊 U r i = σ * σ * ∑ r ∈ Icc i m, u r * x r := by
      rw [Finset.mul_sum]
      refine Finset.sum_congr rfl fun r hr => ?_
      rw [hUi r (Finset.mem_Icc.mp hr).1 (Finset.mem_Icc.mp hr).2, hx]; ring
    rw [this, hβ, hUi a h1 h2, hC, hx, hu]
    by_cases ha : a = i
    · subst ha
      rw [if_pos rfl, if_pos rfl]
      field_simp
      ring
    · rw [if_neg ha, if_neg ha]
      field_simp
      ring
  · intro hmi; omega


theorem hc_post_zero {m n i : Nat} (U : DMat K) (w : K) (hw : w = 0) (hwf : MWF m n U)
    (hz : ∀ a, i ≤ a → a ≤ m → @mg K 𝕊 U a i = 0) : HhColPost sq m n i U U w := by
  subst hw
  refine ⟨hwf, fun _ _ _ => rfl, Or.inl (mul_zero _), fun h => absurd rfl h, ?_, ?_, fun _ => rfl⟩
  · intro a b _ _ _ _
    rw [mul_zero, _root_.inv_zero, zero_mul, zero_mul, add_zero]
  · intro a h1 h2
    rw [mul_zero, _root_.inv_zero, zero_mul, zero_mul, add_zero, hz a h1 h2]
    split <;> rfl

/-- the non-degenerate branch, for either sign of `g` -/
theorem hc_tail_post {m n i : Nat} (hi1 : 1 ≤ i) (hin : i ≤ n) (him : i ≤ m) (U : DMat K) (hwf : MWF m n U) (g : K)
    (hσ : @hc_absSum K 𝕊 m i U ≠ 0)
    (hg : g * g = (@hc_divLoop K 𝕊 m i (@hc_absSum K 𝕊 m i U) U).2)
    (hfg : @mg K 𝕊 (@hc_divLoop K 𝕊 m i (@hc_absSum K 𝕊 m i U) U).1 i i * g ≤ 0) :
    HhColPost sq m n i U
      (@hc_tailPure K 𝕊 m n i (@hc_absSum K 𝕊 m i U) g (@hc_divLoop K 𝕊 m i (@hc_absSum K 𝕊 m i U) U).1
        (@hc_divLoop K 𝕊 m i (@hc_absSum K 𝕊 m i U) U).2).1
      ((@hc_tailPure K 𝕊 m n i (@hc_absSum K 𝕊 m i U) g (@hc_divLoop K 𝕊 m i (@hc_absSum K 𝕊 m i U) U).1
        (@hc_divLoop K 𝕊 m i (@hc_absSum K 𝕊 m i U) U).2).2.2.1 *
       (@hc_tailPure K 𝕊 m n i (@hc_absSum K 𝕊 m i U) g (@hc_divLoop K 𝕊 m i (@hc_absSum K 𝕊 m i U) U).1
        (@hc_divLoop K 𝕊 m i (@hc_absSum K 𝕊 m i U) U).2).2.1) := by
  have hσe := hc_absSum_eq sq (show i ≤ m + 1 by omega) U
  generalize @hc_absSum K 𝕊 m i U = σ at *
  obtain ⟨hw1, h1, hs⟩ := hc_divLoop_spec sq hi1 hin him σ U hwf
  generalize @hc_divLoop K 𝕊 m i σ U = p at *
  obtain ⟨hw4, hg4, hσ4, h4⟩ := hc_tailPure_spec sq hi1 hin him σ g p.2 p.1 hw1
  rw [hg4, hσ4]
  generalize (@hc_tailPure K 𝕊 m n i σ g p.1 p.2).1 = U' at *
  have eii : @mg K 𝕊 p.1 i i = @mg K 𝕊 U i i / σ := by rw [h1, if_pos ⟨rfl, le_refl _, him⟩]
  have hs0 : p.2 ≠ 0 := by
    intro h0
    rw [h0] at hs
    have hall := (Finset.sum_eq_zero_iff_of_nonneg (fun a _ => mul_self_nonneg _)).mp hs.symm
    apply hσ
    rw [hσe]
    refine Finset.sum_eq_zero fun a ha => ?_
    have := mul_self_eq_zero.mp (hall a ha)
    rw [div_eq_zero_iff] at this
    rcases this with h | h
    · rw [h, abs_zero]
    · exact absurd (hσe ▸ h) hσ
  refine hc_post_nz sq hi1 hin him U U' σ g p.2 (fun a => @mg K 𝕊 U a i / σ)
    (fun a => if a = i then @mg K 𝕊 U i i / σ - g else @mg K 𝕊 U a i / σ) hσ
    (fun a => by field_simp) hs hs0 hg (by rw [← eii]; exact hfg) (fun a => rfl) hw4 ?_
  intro a b
  rw [h4, eii]
  by_cases hc : b = i ∧ i ≤ a ∧ a ≤ m
  · rw [if_pos hc, if_pos hc]
    rw [h1 a i, if_pos (show i = i ∧ i ≤ a ∧ a ≤ m from ⟨rfl, hc.2.1, hc.2.2⟩)]
  · rw [if_neg hc, if_neg hc]
    by_cases hd : i + 1 ≤ b ∧ b ≤ n ∧ i ≤ a ∧ a ≤ m
    · rw [if_pos hd, if_pos hd, h1 a b, if_neg (show ¬(b = i ∧ i ≤ a ∧ a ≤ m) by omega), h1 a i,
        if_pos (show i = i ∧ i ≤ a ∧ a ≤ m from ⟨rfl, hd.2.2.1, hd.2.2.2⟩)]
      have hsum : ∑ r ∈ Icc i m, (if r = i then @mg K 𝕊 U i i / σ - g else @mg K 𝕊 p.1 r i) * @mg K 𝕊 p.1 r b
          = ∑ r ∈ Icc i m, (if r = i then @mg K 𝕊 U i i / σ - g else @mg K 𝕊 U r i / σ) * @mg K 𝕊 U r b := by
        refine Finset.sum_congr rfl fun r hr => ?_
        rw [h1 r b, if_neg (show ¬(b = i ∧ i ≤ r ∧ r ≤ m) by omega), h1 r i,
          if_pos (show i = i ∧ i ≤ r ∧ r ≤ m from ⟨rfl, (Finset.mem_Icc.mp hr).1, (Finset.mem_Icc.mp hr).2⟩)]
      rw [hsum]
    · rw [if_neg hd, if_neg hd, h1, if_neg hc]

/-- **the left Householder half-step meets its interface** -/
theorem hhCol_stmt : HhColStmt sq := by
  intro hsq hsq0 m n i U f0 h0 r hwf hi1 hin hrun
  rw [@hc_hhCol_eq_pure K 𝕊] at hrun
  have hr := ok_inj hrun
  subst hr
  unfold hc_hhColPure
  by_cases him : i ≤ m
  · rw [if_pos him]
    have hσe := hc_absSum_eq sq (show i ≤ m + 1 by omega) U
    by_cases hnz : @nz K 𝕊 (@hc_absSum K 𝕊 m i U) = true
    · rw [if_pos hnz]
      have hσ : @hc_absSum K 𝕊 m i U ≠ 0 := (nz_iff sq _).mp hnz
      have hs := (hc_divLoop_spec sq hi1 hin him (@hc_absSum K 𝕊 m i U) U hwf).2.2
      have hs0 : 0 ≤ (@hc_divLoop K 𝕊 m i (@hc_absSum K 𝕊 m i U) U).2 := by
        rw [hs]; exact Finset.sum_nonneg fun a _ => mul_self_nonneg _
      split
      · next hf =>
        have hf' : (0 : K) ≤ @mg K 𝕊 (@hc_divLoop K 𝕊 m i (@hc_absSum K 𝕊 m i U) U).1 i i := hf
        refine hc_tail_post sq hi1 hin him U hwf _ hσ ?_ ?_
        · show -sq _ * -sq _ = _
          rw [neg_mul_neg, hsq _ hs0]
        · show _ * -sq _ ≤ 0
          have := mul_nonneg hf' (hsq0 _ hs0)
          linarith
      · next hf =>
        have hf' : ¬ (0 : K) ≤ @mg K 𝕊 (@hc_divLoop K 𝕊 m i (@hc_absSum K 𝕊 m i U) U).1 i i := hf
        refine hc_tail_post sq hi1 hin him U hwf _ hσ ?_ ?_
        · show sq _ * sq _ = _
          rw [hsq _ hs0]
        · show _ * sq _ ≤ 0
          exact mul_nonpos_of_nonpos_of_nonneg (le_of_lt (not_le.mp hf')) (hsq0 _ hs0)
    · rw [if_neg hnz]
      have hσ : @hc_absSum K 𝕊 m i U = 0 := (nz_false_iff sq _).mp (by simpa using hnz)
      refine hc_post_zero sq U _ (mul_zero _) hwf fun a h1 h2 => ?_
      rw [hσe] at hσ
      have := (Finset.sum_eq_zero_iff_of_nonneg (fun a _ => abs_nonneg _)).mp hσ a
        (Finset.mem_Icc.mpr ⟨h1, h2⟩)
      exact abs_eq_zero.mp this
  · rw [if_neg him]
    exact hc_post_zero sq U _ (mul_zero _) hwf fun a h1 h2 => by omega

end closed
end Gama.Ls.Svd
