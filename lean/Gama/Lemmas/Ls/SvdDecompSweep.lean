/-
  One implicit-shift QR sweep ("next QR transformation") of `SVD::svd()` on the unreduced block `L..k`
  of the bidiagonal matrix: `SweepStmt` of `SvdDecompSpec.lean`.

  The loop `for i1 in [L:k-1+1]` (`sweepBody`) applies, per iteration, a right Givens rotation `H` to
  columns `i1, i1+1` (`V := V·H`) and a left one `G` to rows `i1, i1+1` (`U := U·G`).  Ghost state: the
  true middle factor `M` (`M := Gᵀ·(M·H)`) and `Z` (`Z := Z·G`); `A = U M Vᵀ`, `VᵀV = 1`,
  `UᵀU + ZᵀZ = 1`, `Z M = 0` are preserved by matrix algebra (`sw_Fact.step`), and `M` is described
  entrywise by the current arrays and the scalars `c, s, f, x` (`sw_Mf`, `sw_Mf_step`; file
  `SvdDecompSweep1.lean`).  The rotations are orthogonal whatever the shift `f0` is: the first one of
  an iteration has `z = pythag f (s·rv1[i]) ≠ 0` because `s ≠ 0` (invariant) and `rv1[i] ≠ 0`
  (unreduced block); the second one keeps the first pair `(c, s)` when its `z = 0`.

    sw_body_eq        `sweepBody` is `pure (yield (sw_next …))`
    sw_Inv            the invariant at the top of iteration `i1`
    sweep_invariant   one iteration carries `sw_Inv` from `i1` to `i1 + 1`
    sweep_stmt        `SweepStmt sq`
-/
import Gama.Lemmas.Ls.SvdDecompSweep1

namespace Gama.Ls.Svd
open Matrix Finset Gama.LS Gama.Ls

set_option linter.unusedSectionVars false
set_option linter.unusedVariables false
set_option linter.unusedSimpArgs false

variable {K : Type} [Field K] [LinearOrder K] [IsStrictOrderedRing K] (sq : K → K)

local notation "𝕊" => (Gama.LS.fieldScalar sq)

theorem sw_ok_bind {ε α β : Type} (a : α) (f : α → Except ε β) : (Except.ok a >>= f) = f a := rfl

/-- the state after one iteration of the sweep, as a pure function of the state before -/
def sw_next (m n i1 : Nat) (U : DMat K) (W : Array K) (V : DMat K) (rv1 : Array K) (s f c x : K) : StQ K :=
  let e := @g1 K 𝕊 rv1 (i1 + 1)
  let y := @g1 K 𝕊 W (i1 + 1)
  let z := @pythag K 𝕊 f (s * e)
  let c₁ := f / z
  let s₁ := s * e / z
  let f' := x * c₁ + c * e * s₁
  let g' := -x * s₁ + c * e * c₁
  let h' := y * s₁
  let y' := y * c₁
  let z' := @pythag K 𝕊 f' h'
  let c₂ := if @nz K 𝕊 z' = true then f' / z' else c₁
  let s₂ := if @nz K 𝕊 z' = true then h' / z' else s₁
  (rfold (sw_rotF sq i1 (i1 + 1) c₂ s₂) 1 (m + 1 - 1) U, s1 W i1 z',
   rfold (sw_rotF sq i1 (i1 + 1) c₁ s₁) 1 (n + 1 - 1) V, s1 rv1 i1 z,
   g', s₂, c₂ * g' + s₂ * y', h', c₂, -s₂ * g' + c₂ * y', y', z')

theorem sw_body_eq (m n i1 : Nat) (U : DMat K) (W : Array K) (V : DMat K) (rv1 : Array K)
    (g s f h c x y z : K) :
    @sweepBody K 𝕊 m n i1 (U, W, V, rv1, g, s, f, h, c, x, y, z)
      = .ok (.yield (sw_next sq m n i1 U W V rv1 s f c x)) := by
  unfold sweepBody
  simp only []
  rw [forIn_range_pure, sw_ok_bind]
  split
  · next hz =>
    rw [forIn_range_pure, sw_ok_bind]
    unfold sw_next
    simp only []
    rw [if_pos hz, if_pos hz]
    rfl
  · next hz =>
    rw [forIn_range_pure, sw_ok_bind]
    unfold sw_next
    simp only []
    rw [if_neg hz, if_neg hz]
    rfl

/-- **invariant of the sweep** at the top of iteration `i1` (`L ≤ i1 ≤ k`; `i1 = k`: after the loop):
    the arrays are well-formed, `A = U · M · Vᵀ` with `M = sw_Mf …` the matrix described entrywise by the
    current arrays and the scalars `c, s, f, x`, `V` orthogonal, `UᵀU + ZᵀZ = 1`, `Z M = 0`;
    `s ≠ 0` as long as an iteration follows; `W`, `rv1` are still the original ones outside `L..i1-1` -/
structure sw_Inv (m n : Nat) (A : DMat K) (W0 rv10 : Array K) (L k i1 : Nat) (st : StQ K) : Prop where
  wfU : MWF m n st.1
  wfW : st.2.1.size = n
  wfV : MWF n n st.2.2.1
  wfr : st.2.2.2.1.size = n
  fact : sw_Fact (toMatrix m n A) (toMatrix m n st.1)
      (sw_toM n (sw_Mf L i1 (@g1 K 𝕊 st.2.1) (@g1 K 𝕊 st.2.2.2.1) st.2.2.2.2.2.2.2.2.1 st.2.2.2.2.2.1
         st.2.2.2.2.2.2.1 st.2.2.2.2.2.2.2.2.2.1))
      (toMatrix n n st.2.2.1)
  snz : i1 < k → st.2.2.2.2.2.1 ≠ 0
  frW : ∀ j, (j < L ∨ i1 ≤ j) → @g1 K 𝕊 st.2.1 j = @g1 K 𝕊 W0 j
  frr : ∀ j, (j < L ∨ i1 ≤ j) → @g1 K 𝕊 st.2.2.2.1 j = @g1 K 𝕊 rv10 j

theorem sw_g1_s1 (n : Nat) (v : Array K) (hv : v.size = n) (i : Nat) (hi : 1 ≤ i) (hi' : i ≤ n) (x : K) :
    @g1 K 𝕊 (s1 v i x) = sw_upd (@g1 K 𝕊 v) i x := by
  funext j
  rw [@g1_s1_in K 𝕊 n v hv i hi hi' j x]
  rfl

/-- one iteration with abstract rotation parameters -/
theorem sw_step_core (m n : Nat) (A : DMat K) (W0 rv10 : Array K) (L k i1 : Nat)
    (hL1 : 1 ≤ L) (hLi : L ≤ i1) (hik : i1 < k) (hkn : k ≤ n)
    (U : DMat K) (W : Array K) (V : DMat K) (rv1 : Array K) (g s f h c x y z : K)
    (hI : sw_Inv sq m n A W0 rv10 L k i1 (U, W, V, rv1, g, s, f, h, c, x, y, z))
    (c₁ s₁ z₁ c₂ s₂ z₂ g' h' y' : K)
    (hu1 : c₁ * c₁ + s₁ * s₁ = 1) (hu2 : c₂ * c₂ + s₂ * s₂ = 1)
    (h1 : f * c₁ + (s * @g1 K 𝕊 rv1 (i1 + 1)) * s₁ = z₁)
    (h2 : -f * s₁ + (s * @g1 K 𝕊 rv1 (i1 + 1)) * c₁ = 0)
    (h3 : c₂ * (x * c₁ + c * @g1 K 𝕊 rv1 (i1 + 1) * s₁) + s₂ * (@g1 K 𝕊 W (i1 + 1) * s₁) = z₂)
    (h4 : -s₂ * (x * c₁ + c * @g1 K 𝕊 rv1 (i1 + 1) * s₁) + c₂ * (@g1 K 𝕊 W (i1 + 1) * s₁) = 0)
    (hs2 : i1 + 1 < k → s₂ ≠ 0) :
    sw_Inv sq m n A W0 rv10 L k (i1 + 1)
      (rfold (sw_rotF sq i1 (i1 + 1) c₂ s₂) 1 (m + 1 - 1) U, s1 W i1 z₂,
       rfold (sw_rotF sq i1 (i1 + 1) c₁ s₁) 1 (n + 1 - 1) V, s1 rv1 i1 z₁,
       g', s₂,
       c₂ * (-x * s₁ + c * @g1 K 𝕊 rv1 (i1 + 1) * c₁) + s₂ * (@g1 K 𝕊 W (i1 + 1) * c₁), h', c₂,
       -s₂ * (-x * s₁ + c * @g1 K 𝕊 rv1 (i1 + 1) * c₁) + c₂ * (@g1 K 𝕊 W (i1 + 1) * c₁), y', z₂) := by
  obtain ⟨wfU, wfW, wfV, wfr, hfact, hsnz, hfW, hfr⟩ := hI
  simp only [] at wfU wfW wfV wfr hfact hsnz hfW hfr
  obtain ⟨P, hP⟩ : ∃ P : Fin n, P.val + 1 = i1 := ⟨⟨i1 - 1, by omega⟩, by simp only []; omega⟩
  obtain ⟨Q, hQ⟩ : ∃ Q : Fin n, Q.val + 1 = i1 + 1 := ⟨⟨i1, by omega⟩, rfl⟩
  have hne : P ≠ Q := by intro e; rw [e] at hP; omega
  obtain ⟨wU', eU⟩ := sw_rot_cols_loop sq m n i1 (i1 + 1) c₂ s₂ U wfU P Q hP hQ (by omega)
  obtain ⟨wV', eV⟩ := sw_rot_cols_loop sq n n i1 (i1 + 1) c₁ s₁ V wfV P Q hP hQ (by omega)
  have step := hfact.step (Grot P Q c₁ s₁) (Grot P Q c₂ s₂) (Grot_mul_transpose hne c₁ s₁ hu1)
    (Grot_transpose_mul hne c₁ s₁ hu1) (Grot_mul_transpose hne c₂ s₂ hu2) (Grot_transpose_mul hne c₂ s₂ hu2)
  have hM : (Grot P Q c₂ s₂)ᵀ * (sw_toM n (sw_Mf L i1 (@g1 K 𝕊 W) (@g1 K 𝕊 rv1) c s f x) * Grot P Q c₁ s₁)
      = sw_toM n (sw_Mf L (i1 + 1) (@g1 K 𝕊 (s1 W i1 z₂)) (@g1 K 𝕊 (s1 rv1 i1 z₁)) c₂ s₂
          (c₂ * (-x * s₁ + c * @g1 K 𝕊 rv1 (i1 + 1) * c₁) + s₂ * (@g1 K 𝕊 W (i1 + 1) * c₁))
          (-s₂ * (-x * s₁ + c * @g1 K 𝕊 rv1 (i1 + 1) * c₁) + c₂ * (@g1 K 𝕊 W (i1 + 1) * c₁))) := by
    rw [sw_toM_mul_Grot n i1 _ c₁ s₁ P Q hP hQ, sw_Grot_transpose_mul_toM n i1 _ c₂ s₂ P Q hP hQ,
      sw_g1_s1 sq n W wfW i1 (by omega) (by omega), sw_g1_s1 sq n rv1 wfr i1 (by omega) (by omega)]
    exact sw_toM_congr n _ _ (fun r col hr _ =>
      sw_Mf_step L i1 hL1 hLi _ _ c s f x c₁ s₁ z₁ c₂ s₂ z₂ h1 h2 h3 h4 r col hr)
  refine ⟨wU', @s1_size K 𝕊 _ _ wfW _ _, wV', @s1_size K 𝕊 _ _ wfr _ _, ?_, hs2, fun j hj => ?_, fun j hj => ?_⟩
  · show sw_Fact _ (toMatrix m n (rfold (sw_rotF sq i1 (i1 + 1) c₂ s₂) 1 (m + 1 - 1) U)) _
      (toMatrix n n (rfold (sw_rotF sq i1 (i1 + 1) c₁ s₁) 1 (n + 1 - 1) V))
    rw [eU, eV, ← hM]
    exact step
  · show @g1 K 𝕊 (s1 W i1 z₂) j = _
    rw [@g1_s1_in K 𝕊 n W wfW i1 (by omega) (by omega) j z₂, if_neg (by omega)]
    exact hfW j (by omega)
  · show @g1 K 𝕊 (s1 rv1 i1 z₁) j = _
    rw [@g1_s1_in K 𝕊 n rv1 wfr i1 (by omega) (by omega) j z₁, if_neg (by omega)]
    exact hfr j (by omega)


/-- **the per-iteration invariant**: one iteration of the sweep (a right Givens rotation of columns
    `i1, i1+1` of `V` and the ghost matrix, then a left one of rows `i1, i1+1`, i.e. columns of `U`)
    carries `sw_Inv` from `i1` to `i1 + 1` -/
theorem sweep_invariant (hsq : ∀ x : K, 0 ≤ x → sq x * sq x = x) (hsq0 : ∀ x : K, 0 ≤ x → 0 ≤ sq x)
    (m n : Nat) (A : DMat K) (W0 rv10 : Array K) (L k i1 : Nat)
    (hL1 : 1 ≤ L) (hLi : L ≤ i1) (hik : i1 < k) (hkn : k ≤ n)
    (hnz : ∀ j, L < j → j ≤ k → @g1 K 𝕊 rv10 j ≠ 0 ∧ @g1 K 𝕊 W0 (j - 1) ≠ 0)
    (st st' : StQ K) (hI : sw_Inv sq m n A W0 rv10 L k i1 st)
    (hb : @sweepBody K 𝕊 m n i1 st = .ok (.yield st')) :
    sw_Inv sq m n A W0 rv10 L k (i1 + 1) st' := by
  obtain ⟨U, W, V, rv1, g, s, f, h, c, x, y, z⟩ := st
  rw [sw_body_eq] at hb
  have hst : st' = sw_next sq m n i1 U W V rv1 s f c x := by
    injection hb with hb; injection hb with hb; exact hb.symm
  subst hst
  have hs : s ≠ 0 := hI.snz hik
  have he : @g1 K 𝕊 rv1 (i1 + 1) ≠ 0 := by
    rw [hI.frr (i1 + 1) (Or.inr (by omega))]; exact (hnz (i1 + 1) (by omega) (by omega)).1
  have hy : i1 + 1 < k → @g1 K 𝕊 W (i1 + 1) ≠ 0 := by
    intro hlt
    rw [hI.frW (i1 + 1) (Or.inr (by omega))]; exact (hnz (i1 + 2) (by omega) (by omega)).2
  have hz : @pythag K 𝕊 f (s * @g1 K 𝕊 rv1 (i1 + 1)) ≠ 0 := by
    rw [Ne, pythag_eq_zero sq hsq]; exact fun hh => (mul_ne_zero hs he) hh.2
  have hzz := pythag_sq sq hsq f (s * @g1 K 𝕊 rv1 (i1 + 1))
  have hu1 := pythag_unit sq hsq f (s * @g1 K 𝕊 rv1 (i1 + 1)) hz
  unfold sw_next
  simp only []
  generalize @pythag K 𝕊 f (s * @g1 K 𝕊 rv1 (i1 + 1)) = z₁ at *
  have h1 : f * (f / z₁) + (s * @g1 K 𝕊 rv1 (i1 + 1)) * (s * @g1 K 𝕊 rv1 (i1 + 1) / z₁) = z₁ := by
    field_simp
    first | linear_combination hzz | linear_combination -hzz
  have h2 : -f * (s * @g1 K 𝕊 rv1 (i1 + 1) / z₁) + (s * @g1 K 𝕊 rv1 (i1 + 1)) * (f / z₁) = 0 := by ring
  have hs1 : s * @g1 K 𝕊 rv1 (i1 + 1) / z₁ ≠ 0 := div_ne_zero (mul_ne_zero hs he) hz
  generalize f / z₁ = c₁ at *
  generalize s * @g1 K 𝕊 rv1 (i1 + 1) / z₁ = s₁ at *
  have hzz2 := pythag_sq sq hsq (x * c₁ + c * @g1 K 𝕊 rv1 (i1 + 1) * s₁) (@g1 K 𝕊 W (i1 + 1) * s₁)
  have hz0 := pythag_eq_zero sq hsq (x * c₁ + c * @g1 K 𝕊 rv1 (i1 + 1) * s₁) (@g1 K 𝕊 W (i1 + 1) * s₁)
  by_cases hnzz : @nz K 𝕊 (@pythag K 𝕊 (x * c₁ + c * @g1 K 𝕊 rv1 (i1 + 1) * s₁) (@g1 K 𝕊 W (i1 + 1) * s₁)) = true
  · rw [if_pos hnzz, if_pos hnzz]
    have hz2 := (nz_iff sq _).mp hnzz
    have hu2 := pythag_unit sq hsq _ _ hz2
    generalize @pythag K 𝕊 (x * c₁ + c * @g1 K 𝕊 rv1 (i1 + 1) * s₁) (@g1 K 𝕊 W (i1 + 1) * s₁) = z₂ at *
    refine sw_step_core sq m n A W0 rv10 L k i1 hL1 hLi hik hkn U W V rv1 g s f h c x y z hI
      c₁ s₁ z₁ _ _ z₂ _ _ _ hu1 hu2 h1 h2 ?_ ?_ ?_
    · field_simp
      first | linear_combination hzz2 | linear_combination -hzz2
    · ring
    · intro hlt
      exact div_ne_zero (mul_ne_zero (hy hlt) hs1) hz2
  · rw [if_neg hnzz, if_neg hnzz]
    have hz2 := (nz_false_iff sq _).mp (by simpa using hnzz)
    obtain ⟨hf0, hh0⟩ := hz0.mp hz2
    refine sw_step_core sq m n A W0 rv10 L k i1 hL1 hLi hik hkn U W V rv1 g s f h c x y z hI
      c₁ s₁ z₁ c₁ s₁ _ _ _ _ hu1 hu1 h1 h2 ?_ ?_ (fun _ => hs1)
    · rw [hz2, hf0, hh0]; ring
    · rw [hf0, hh0]; ring


/-- the invariant holds initially: `c = s = 1`, `x = W[L]`, the ghost matrix is `bidiagN(W, rv1)` -/
theorem sw_Inv_init (m n : Nat) (A U : DMat K) (W : Array K) (V : DMat K) (rv1 : Array K) (k L : Nat)
    (g0 f0 h0 y0 z0 : K) (hQ : QRInv sq m n A U W V rv1) (hrL : @g1 K 𝕊 rv1 L = 0) :
    sw_Inv sq m n A W rv1 L k L (U, W, V, rv1, g0, 1, f0, h0, 1, @g1 K 𝕊 W L, y0, z0) := by
  have hM := sw_Mf_init n L (@g1 K 𝕊 W) (@g1 K 𝕊 rv1) f0 hrL
  refine ⟨hQ.wfU, hQ.wfW, hQ.wfV, hQ.wfr, ⟨?_, hQ.vtv, ?_⟩, fun _ => one_ne_zero, fun _ _ => rfl, fun _ _ => rfl⟩
  · show toMatrix m n A = toMatrix m n U *
        sw_toM n (sw_Mf L L (@g1 K 𝕊 W) (@g1 K 𝕊 rv1) 1 1 f0 (@g1 K 𝕊 W L)) * (toMatrix n n V)ᵀ
    rw [← hM]; exact hQ.fact
  · obtain ⟨Z, hz1, hz2⟩ := hQ.utu
    refine ⟨Z, hz1, ?_⟩
    show Z * sw_toM n (sw_Mf L L (@g1 K 𝕊 W) (@g1 K 𝕊 rv1) 1 1 f0 (@g1 K 𝕊 W L)) = 0
    rw [← hM]; exact hz2

/-- after the loop (`i1 = k`) the final assignments `rv1[L] := 0; rv1[k] := f; W[k] := x` restore `QRInv` -/
theorem sw_Inv_final (m n : Nat) (A : DMat K) (W0 rv10 : Array K) (L k : Nat)
    (hL1 : 1 ≤ L) (hLk : L < k) (hkn : k ≤ n) (hr1 : @g1 K 𝕊 rv10 1 = 0) (hrk : @g1 K 𝕊 rv10 (k + 1) = 0)
    (U : DMat K) (W : Array K) (V : DMat K) (rv1 : Array K) (g s f h c x y z : K)
    (hI : sw_Inv sq m n A W0 rv10 L k k (U, W, V, rv1, g, s, f, h, c, x, y, z)) :
    QRInv sq m n A U (s1 W k x) V (s1 (s1 rv1 L 0) k f) ∧
    (∀ j, k < j → @g1 K 𝕊 (s1 (s1 rv1 L 0) k f) j = @g1 K 𝕊 rv10 j ∧ @g1 K 𝕊 (s1 W k x) j = @g1 K 𝕊 W0 j) := by
  obtain ⟨wfU, wfW, wfV, wfr, hfact, _, hfW, hfr⟩ := hI
  simp only [] at wfU wfW wfV wfr hfact hfW hfr
  have hek : @g1 K 𝕊 rv1 (k + 1) = 0 := by rw [hfr (k + 1) (Or.inr (by omega))]; exact hrk
  have hM := sw_Mf_final n L k hLk (@g1 K 𝕊 W) (@g1 K 𝕊 rv1) c s f x hek
  have wfr' : (s1 rv1 L (0 : K)).size = n := @s1_size K 𝕊 _ _ wfr _ _
  have eW : @g1 K 𝕊 (s1 W k x) = sw_upd (@g1 K 𝕊 W) k x := sw_g1_s1 sq n W wfW k (by omega) hkn x
  have er : @g1 K 𝕊 (s1 (s1 rv1 L 0) k f) = sw_upd (sw_upd (@g1 K 𝕊 rv1) L 0) k f := by
    rw [sw_g1_s1 sq n _ wfr' k (by omega) hkn f, sw_g1_s1 sq n rv1 wfr L hL1 (by omega) 0]
  refine ⟨⟨wfU, wfV, @s1_size K 𝕊 _ _ wfW _ _, @s1_size K 𝕊 _ _ wfr' _ _, ?_, ?_, hfact.vtv, ?_⟩, fun j hj => ?_⟩
  · rw [er]
    unfold sw_upd
    rw [if_neg (by omega)]
    by_cases hL : L = 1
    · rw [if_pos hL.symm]
    · rw [if_neg (fun e => hL e.symm), hfr 1 (Or.inl (by omega))]; exact hr1
  · rw [eW, er, ← hM]; exact hfact.fact
  · obtain ⟨Z, hz1, hz2⟩ := hfact.utu
    refine ⟨Z, hz1, ?_⟩
    rw [eW, er, ← hM]; exact hz2
  · rw [eW, er]
    unfold sw_upd
    rw [if_neg (by omega), if_neg (by omega), if_neg (by omega)]
    exact ⟨hfr j (Or.inr (by omega)), hfW j (Or.inr (by omega))⟩

/-- **one QR sweep** keeps the invariant of the diagonalisation -/
theorem sweep_stmt : SweepStmt sq := by
  intro hsq hsq0 m n A U W V rv1 k L g0 f0 h0 y0 z0 r hQ hL1 hLk hkn hrL hrk hnz hloop
  have hab : L ≤ k - 1 + 1 := by omega
  have hEnd := forIn_range_inv' hab hloop (fun i st => sw_Inv sq m n A W rv1 L k i st)
    (sw_Inv_init sq m n A U W V rv1 k L g0 f0 h0 y0 z0 hQ hrL)
    (fun i st st' hi1 hi2 hP hb =>
      sweep_invariant sq hsq hsq0 m n A W rv1 L k i hL1 hi1 (by omega) hkn hnz st st' hP hb)
    (fun i st st' hi1 hi2 hP hb => by
      obtain ⟨U, W, V, rv1, g, s, f, h, c, x, y, z⟩ := st
      rw [sw_body_eq] at hb
      injection hb with hb
      injection hb)
  have hk : k - 1 + 1 = k := by omega
  simp only [hk] at hEnd
  obtain ⟨U', W', V', rv1', g, s, f, h, c, x, y, z⟩ := r
  exact sw_Inv_final sq m n A W rv1 L k hL1 hLk hkn hQ.r1 hrk U' W' V' rv1' g s f h c x y z hEnd

end Gama.Ls.Svd
