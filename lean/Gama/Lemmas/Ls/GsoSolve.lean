/-
  Gram–Schmidt invariant library, part 5: from the list-level invariants of `icgs1/icgs2`
  to statements about `gsoSolve` in the vocabulary of `Lemmas/LS` (Mathlib matrices):
  the augmented matrix `AdjGSO::solve` builds meets the input conditions; the state after the
  run as matrices `T` (tops), `C` (bottoms), `d`; `gsoSolve_isLS` (C01); kernel spanning.
-/
import Gama.Lemmas.Ls.GsoPhase2
import Gama.Lemmas.Ls.GsoAlgebra
import Mathlib.Algebra.BigOperators.Fin

namespace Gama.Ls.Gso
open Gama Finset Matrix Gama.LS

set_option linter.unusedSectionVars false

variable {K : Type} [Field K] [LinearOrder K] [IsStrictOrderedRing K] [SqrtField K]

-- ------------------------------------------------------------------ list sums

theorem dot_eq_sum : ∀ (n : Nat) (u v : List K), u.length = n → v.length = n →
    dot u v = ∑ i ∈ range n, u.getD i 0 * v.getD i 0 := by
  intro n
  induction n with
  | zero =>
    intro u v hu hv
    rw [List.length_eq_zero_iff.1 hu]; simp
  | succ n ih =>
    intro u v hu hv
    cases u with
    | nil => simp at hu
    | cons a u =>
      cases v with
      | nil => simp at hv
      | cons b v =>
        rw [dot_cons, ih u v (by simpa using hu) (by simpa using hv), sum_range_succ']
        simp [add_comm]

theorem dotM_eq_sum : ∀ (n : Nat) (mk : List Bool) (u v : List K), mk.length = n → u.length = n →
    v.length = n →
    dotM mk u v = ∑ i ∈ range n, if mk.getD i false then u.getD i 0 * v.getD i 0 else 0 := by
  intro n
  induction n with
  | zero =>
    intro mk u v hm hu hv
    rw [List.length_eq_zero_iff.1 hm]; simp
  | succ n ih =>
    intro mk u v hm hu hv
    cases mk with
    | nil => simp at hm
    | cons c mk =>
      cases u with
      | nil => simp at hu
      | cons a u =>
        cases v with
        | nil => simp at hv
        | cons b v =>
          rw [dotM_cons, ih mk u v (by simpa using hm) (by simpa using hu) (by simpa using hv),
            sum_range_succ']
          simp [add_comm]

theorem getD_map_range (f : Nat → K) (n i : Nat) :
    ((List.range n).map f).getD i 0 = if i < n then f i else 0 := by
  by_cases h : i < n
  · simp [List.getD_eq_getElem?_getD, h]
  · simp [List.getD_eq_getElem?_getD, h, List.getElem?_eq_none (l := (List.range n).map f)
      (by simpa using Nat.le_of_not_lt h)]

-- ------------------------------------------------------------------ the augmented matrix

theorem tolerance_nonneg : (0 : K) ≤ tolerance := by
  show (0 : K) ≤ 1 / ((2 ^ 52 : Nat) : K) * ((100000 : Nat) : K)
  positivity

theorem augmented_cols_getElem? (M N : Nat) (a : Nat → Nat → K) (b : Nat → K) (i : Nat) (c : Col K)
    (h : (augmented M N a b).1[i]? = some c) :
    i < N ∧ c = { top := (List.range M).map fun r => a r i,
                  bot := (List.range N).map fun r => if r = i then 1 else 0 } := by
  simp only [augmented, List.getElem?_map] at h
  by_cases hi : i < N
  · rw [List.getElem?_range hi] at h
    simp only [Option.map_some, Option.some.injEq] at h
    exact ⟨hi, h.symm⟩
  · rw [List.getElem?_eq_none (by simpa using Nat.le_of_not_lt hi)] at h
    simp at h

theorem augmented_inCols (M N : Nat) (a : Nat → Nat → K) (b : Nat → K) :
    InCols a M N (augmented M N a b).1 := by
  refine ⟨?_, ?_, ?_⟩
  · intro c hc
    obtain ⟨i, hi⟩ := List.mem_iff_getElem?.1 hc
    obtain ⟨hiN, rfl⟩ := augmented_cols_getElem? M N a b i c hi
    refine ⟨by simp, by simp, ?_⟩
    intro r hr
    simp only [getD_map_range, if_pos hr, sub_zero]
    rw [sum_eq_single_of_mem i (mem_range.2 hiN)]
    · simp [hiN]
    · intro j hj hji
      rw [if_pos (mem_range.1 hj), if_neg hji, mul_zero]
  · intro i c hi j hij
    obtain ⟨_, rfl⟩ := augmented_cols_getElem? M N a b i c hi
    simp only [getD_map_range]
    split
    · rw [if_neg (by omega)]
    · rfl
  · intro i c hi
    obtain ⟨hiN, rfl⟩ := augmented_cols_getElem? M N a b i c hi
    simp [getD_map_range, hiN]

theorem augmented_length (M N : Nat) (a : Nat → Nat → K) (b : Nat → K) :
    (augmented M N a b).1.length = N := by simp [augmented]

theorem augmented_rhs (M N : Nat) (a : Nat → Nat → K) (b : Nat → K) :
    AugG a b M N (augmented M N a b).2 := by
  refine ⟨by simp [augmented], by simp [augmented], ?_⟩
  intro r hr
  simp only [augmented, getD_map_range, if_pos hr]
  have : ∀ j ∈ range N, a r j * (List.replicate N (0 : K)).getD j 0 = 0 := by
    intro j _
    have : (List.replicate N (0 : K)).getD j 0 = 0 :=
      getD_of_all_zero (fun x hx => (List.mem_replicate.1 hx).2) j
    rw [this, mul_zero]
  rw [sum_congr rfl this]; simp

/-- design-matrix entries and right-hand side of a problem, 0-based -/
abbrev aOf (p : Problem K) : Nat → Nat → K := entry p.dense
abbrev bOf (p : Problem K) : Nat → K := fun i => p.rhs.getD i 0
/-- the columns 1..N of the block matrix of `AdjGSO::solve` -/
abbrev colsIn (p : Problem K) : List (Col K) := (augmented p.m p.n (aOf p) (bOf p)).1
/-- the object after `icgs1()` -/
abbrev stage1 (p : Problem K) : R1 K :=
  icgs1 (tolerance : K) (colsIn p) (augmented p.m p.n (aOf p) (bOf p)).2

theorem runOf_eq (p : Problem K) :
    runOf p = icgs2 (tolerance : K) (maskOf p.n p.reg) (stage1 p) := rfl

/-- "rank numerically unambiguous" for the Gram–Schmidt solver: every norm the run compares
    with the tolerance (first and second orthogonalisation) is exactly 0 or greater than it -/
def Unambiguous (p : Problem K) : Prop := ∀ r ∈ (runOf p).tested, r = 0 ∨ (tolerance : K) < r

theorem gso_final (p : Problem K) (hU : Unambiguous p) :
    Inv1 (aOf p) p.m p.n (colsIn p) ((colsIn p).foldl (step1 (tolerance : K)) {}) ∧
    Final (aOf p) (bOf p) p.m p.n (maskOf p.n p.reg) (colsIn p) (stage1 p) (runOf p) :=
  final_icgs tolerance_nonneg _ _ (augmented_inCols _ _ _ _) (augmented_length _ _ _ _)
    (augmented_rhs _ _ _ _) hU

-- ------------------------------------------------------------------ lists of columns as matrices

def colAt (l : List (Col K)) (j : Nat) : Col K := l.getD j ⟨[], []⟩
def matT (M N : Nat) (l : List (Col K)) : Matrix (Fin M) (Fin N) K :=
  fun r j => (colAt l j).top.getD r 0
def matC (N : Nat) (l : List (Col K)) : Matrix (Fin N) (Fin N) K :=
  fun i j => (colAt l j).bot.getD i 0
def vecD (N : Nat) (l : List (Col K)) : Fin N → K := fun j => dot (colAt l j).top (colAt l j).top
def matA (M N : Nat) (a : Nat → Nat → K) : Matrix (Fin M) (Fin N) K := fun r j => a r j

theorem colAt_getElem? {l : List (Col K)} {j : Nat} (h : j < l.length) : l[j]? = some (colAt l j) := by
  simp [colAt, List.getD_eq_getElem?_getD, List.getElem?_eq_getElem h]

theorem colAt_mem {l : List (Col K)} {j : Nat} (h : j < l.length) : colAt l j ∈ l :=
  List.mem_of_getElem? (colAt_getElem? h)

theorem matAC {a : Nat → Nat → K} {M N : Nat} {l : List (Col K)} (hl : l.length = N)
    (h : ∀ c ∈ l, Aug a M N c) : matA M N a * matC N l = matT M N l := by
  ext r j
  simp only [mul_apply, matA, matC, matT]
  rw [Fin.sum_univ_eq_sum_range (fun i => a r i * (colAt l j).bot.getD i 0) N]
  have := (h _ (colAt_mem (by rw [hl]; exact j.2))).eq r r.2
  simp only [sub_zero] at this
  exact this.symm

theorem matTT {M N : Nat} {l : List (Col K)} (hl : l.length = N)
    (h : GSOk M dot (l.map (·.top))) : (matT M N l)ᵀ * matT M N l = diagonal (vecD N l) := by
  have hlen : ∀ j : Fin N, (colAt l j).top.length = M := fun j =>
    h.len _ (List.mem_map.2 ⟨_, colAt_mem (by rw [hl]; exact j.2), rfl⟩)
  have hdot : ∀ j k : Fin N, ∑ r : Fin M, (colAt l j).top.getD r 0 * (colAt l k).top.getD r 0
      = dot (colAt l j).top (colAt l k).top := fun j k => by
    rw [dot_eq_sum M _ _ (hlen j) (hlen k),
      Fin.sum_univ_eq_sum_range (fun r => (colAt l j).top.getD r 0 * (colAt l k).top.getD r 0) M]
  have hpw := List.pairwise_iff_getElem.1 h.pw
  have hget : ∀ (j : Nat) (hj : j < (l.map (·.top)).length), (l.map (·.top))[j] = (colAt l j).top := by
    intro j hj
    have hj' : j < l.length := by simpa using hj
    rw [List.getElem_map]
    have := colAt_getElem? hj'
    rw [List.getElem?_eq_getElem hj'] at this
    rw [Option.some.inj this]
  ext j k
  simp only [mul_apply, transpose_apply, matT]
  rw [hdot j k]
  by_cases hjk : j = k
  · subst hjk; simp [vecD]
  · rw [diagonal_apply_ne _ hjk]
    have hjl : (j : Nat) < (l.map (·.top)).length := by simp [hl]
    have hkl : (k : Nat) < (l.map (·.top)).length := by simp [hl]
    rcases Nat.lt_or_gt_of_ne (fun h => hjk (Fin.ext h)) with hlt | hgt
    · have := hpw j k hjl hkl hlt
      rwa [hget, hget] at this
    · have := hpw k j hkl hjl hgt
      rw [hget, hget, dot_comm] at this
      exact this

theorem vecD_01 {M N : Nat} {l : List (Col K)} (hl : l.length = N)
    (h : GSOk M dot (l.map (·.top))) : ∀ j, vecD N l j = 1 ∨ vecD N l j = 0 := fun j =>
  (h.uz _ (List.mem_map.2 ⟨_, colAt_mem (by rw [hl]; exact j.2), rfl⟩)).2

theorem matA_eq (p : Problem K) : matA p.m p.n (aOf p) = p.A := by
  ext r j; rfl

/-- a vector `w : Fin N → K` as a list -/
theorem dot_ofFn {N : Nat} (u : List K) (hu : u.length = N) (w : Fin N → K) :
    dot u (List.ofFn w) = ∑ i : Fin N, u.getD i 0 * w i := by
  rw [dot_eq_sum N u _ hu (by simp),
    ← Fin.sum_univ_eq_sum_range (fun i => u.getD i 0 * (List.ofFn w).getD i 0) N]
  refine sum_congr rfl fun i _ => ?_
  simp [List.getD_eq_getElem?_getD]

/-- spanning of the tops in matrix form -/
theorem span_matT {a : Nat → Nat → K} {b : Nat → K} {M N : Nat} {l : List (Col K)}
    (hl : l.length = N) (hlen : ∀ c ∈ l, c.top.length = M)
    (hspan : ∀ w, (∀ c ∈ l, dot c.top w = 0) → ∀ c ∈ (augmented M N a b).1, dot c.top w = 0) :
    ∀ w : Fin M → K, (∀ j, ∑ r, matT M N l r j * w r = 0) → (matA M N a)ᵀ *ᵥ w = 0 := by
  intro w hw
  have h1 : ∀ c ∈ l, dot c.top (List.ofFn w) = 0 := by
    intro c hc
    obtain ⟨j, hj, rfl⟩ := List.getElem_of_mem hc
    have hj' : j < N := by rw [← hl]; exact hj
    rw [dot_ofFn _ (hlen _ (List.getElem_mem hj))]
    have := hw ⟨j, hj'⟩
    simp only [matT] at this
    have e : colAt l j = l[j] := by
      have := colAt_getElem? hj
      rw [List.getElem?_eq_getElem hj] at this
      exact (Option.some.inj this).symm
    rw [e] at this
    exact this
  have h2 := hspan _ h1
  funext c
  have hc : (augmented M N a b).1[(c : Nat)]? = some
      { top := (List.range M).map fun r => a r c,
        bot := (List.range N).map fun r => if r = (c : Nat) then 1 else 0 } := by
    simp [augmented, List.getElem?_range c.2]
  have h3 := h2 _ (List.mem_of_getElem? hc)
  rw [dot_ofFn _ (by simp)] at h3
  simp only [mulVec, dotProduct, transpose_apply, matA, Pi.zero_apply]
  rw [← h3]
  refine sum_congr rfl fun r _ => ?_
  simp [getD_map_range]

-- ------------------------------------------------------------------ answers of gsoSolve

theorem gsoSolveWith_ok {refuse : Bool} {p : Problem K} {ans : Answer K}
    (h : gsoSolveWith refuse p = .ok ans) :
    ans.x = (runOf p).rhs.bot.toArray ∧ ans.r = (runOf p).rhs.top.toArray ∧
    ans.rtr = dot (runOf p).rhs.top (runOf p).rhs.top ∧ ans.defect = (runOf p).dep.length ∧
    (∀ i, ans.lindep i = .ok ((runOf p).dep.contains i)) ∧
    (∀ i j, 1 ≤ i → i ≤ p.n → 1 ≤ j → j ≤ p.n → ans.qxx i j = .ok (rowdot (runOf p).cols
      (fun c => c.bot.getD (i - 1) 0) (fun c => c.bot.getD (j - 1) 0))) ∧
    (∀ i j, 1 ≤ i → i ≤ p.m → 1 ≤ j → j ≤ p.m → ans.qbb i j = .ok (rowdot (runOf p).cols
      (fun c => c.top.getD (i - 1) 0) (fun c => c.top.getD (j - 1) 0))) ∧
    (∀ i j, 1 ≤ i → i ≤ p.m → 1 ≤ j → j ≤ p.n → ans.qbx i j = .ok (rowdot (runOf p).cols
      (fun c => c.top.getD (i - 1) 0) (fun c => c.bot.getD (j - 1) 0))) := by
  unfold gsoSolveWith at h
  simp only [] at h
  split at h
  · exact absurd h (by simp)
  · split at h
    · exact absurd h (by simp)
    · cases h
      refine ⟨rfl, rfl, rfl, rfl, fun _ => rfl, ?_, ?_, ?_⟩ <;>
      · intro i j h1 h2 h3 h4
        simp only [h1, h2, h3, h4, and_self, if_true]

theorem toVec_toArray (n : Nat) (l : List K) (i : Fin n) : toVec n l.toArray i = l.getD i 0 := by
  simp [toVec, List.getD_eq_getElem?_getD]

/-- membership in the regularisation subset ↔ the mask of the second orthogonalisation -/
theorem sum_mask (p : Problem K) (f : Nat → K) :
    (∑ i ∈ range p.n, if (maskOf p.n p.reg).getD i false then f i else 0) = ∑ i ∈ p.S, f i := by
  rw [← Fin.sum_univ_eq_sum_range (fun i => if (maskOf p.n p.reg).getD i false then f i else 0) p.n,
    ← sum_filter]
  apply sum_congr _ (fun _ _ => rfl)
  ext i
  simp only [mem_filter, mem_univ, true_and, Problem.S]
  cases hr : p.reg with
  | none => simp [maskOf, Reg.toFinset, List.getD_eq_getElem?_getD, i.2]
  | all => simp [maskOf, Reg.toFinset, List.getD_eq_getElem?_getD, i.2]
  | subset l =>
    simp [maskOf, Reg.toFinset, List.getD_eq_getElem?_getD, i.2]

theorem length_maskOf (N : Nat) (r : Reg) : (maskOf N r).length = N := by
  cases r <;> simp [maskOf]

/-- **C01 for the Gram–Schmidt solver** (solver-level entry, unit weights) -/
theorem gsoSolveWith_isLS {refuse : Bool} (p : Problem K) (hU : Unambiguous p) {ans : Answer K}
    (h : gsoSolveWith refuse p = .ok ans) :
    IsLSSolution p.A p.b (1 : Matrix (Fin p.m) (Fin p.m) K) p.S
      (toVec p.n ans.x) (toVec p.m ans.r) ans.rtr := by
  obtain ⟨hx, hr, hrtr, -⟩ := gsoSolveWith_ok h
  obtain ⟨I1, F⟩ := gso_final p hU
  set R := runOf p with hR
  have hxv : ∀ i : Fin p.n, toVec p.n ans.x i = R.rhs.bot.getD i 0 := fun i => by
    rw [hx]; exact toVec_toArray _ _ i
  have hrv : ∀ i : Fin p.m, toVec p.m ans.r i = R.rhs.top.getD i 0 := fun i => by
    rw [hr]; exact toVec_toArray _ _ i
  refine ⟨?_, ?_, ?_, ?_⟩
  · -- v = A x − b
    funext r
    rw [hrv, F.rhsAug.eq r r.2]
    simp only [Pi.sub_apply, mulVec, dotProduct]
    rw [← Fin.sum_univ_eq_sum_range (fun j => aOf p r j * R.rhs.bot.getD j 0) p.n]
    congr 1
    refine sum_congr rfl fun j _ => ?_
    rw [hxv]; rfl
  · -- normal equations
    rw [one_mulVec]
    funext c
    have hc : (colsIn p)[(c : Nat)]? = some
        { top := (List.range p.m).map fun r => aOf p r c,
          bot := (List.range p.n).map fun r => if r = (c : Nat) then 1 else 0 } := by
      simp [colsIn, augmented, List.getElem?_range c.2]
    have h3 := F.normal _ (List.mem_of_getElem? hc)
    rw [dot_eq_sum p.m _ _ (by simp) F.rhsAug.ltop,
      ← Fin.sum_univ_eq_sum_range (fun r => ((List.range p.m).map fun r => aOf p r c).getD r 0
        * R.rhs.top.getD r 0) p.m] at h3
    simp only [mulVec, dotProduct, transpose_apply, Pi.zero_apply]
    rw [← h3]
    refine sum_congr rfl fun r _ => ?_
    rw [hrv, getD_map_range, if_pos r.2]; rfl
  · -- reported sum of squares
    rw [one_mulVec, hrtr, dot_eq_sum p.m _ _ F.rhsAug.ltop F.rhsAug.ltop,
      ← Fin.sum_univ_eq_sum_range (fun r => R.rhs.top.getD r 0 * R.rhs.top.getD r 0) p.m]
    simp only [dotProduct]
    exact sum_congr rfl fun r _ => by rw [hrv]
  · -- second criterion: x ⟂_S ker A
    intro g hg
    set qs := ((colsIn p).foldl (step1 (tolerance : K)) {}).qs with hqs
    have hql : qs.length = p.n := by rw [hqs, I1.len]; exact augmented_length _ _ _ _
    have hsep : ∀ w : Fin p.n → K, (∀ j, ∑ i, matC p.n qs i j * w i = 0) → w = 0 := by
      intro w hw
      have h1 : ∀ q ∈ qs, dot q.bot (List.ofFn w) = 0 := by
        intro q hq
        obtain ⟨j, hj, rfl⟩ := List.getElem_of_mem hq
        rw [dot_ofFn _ (I1.aug _ (List.getElem_mem hj)).lbot]
        have := hw ⟨j, by rw [← hql]; exact hj⟩
        simp only [matC] at this
        have e : colAt qs j = qs[j] := by
          have := colAt_getElem? hj
          rw [List.getElem?_eq_getElem hj] at this
          exact (Option.some.inj this).symm
        rw [e] at this
        exact this
      have h2 := I1.spanBot _ h1
      funext k
      have hc : (colsIn p)[(k : Nat)]? = some
          { top := (List.range p.m).map fun r => aOf p r k,
            bot := (List.range p.n).map fun r => if r = (k : Nat) then 1 else 0 } := by
        simp [colsIn, augmented, List.getElem?_range k.2]
      have h3 := h2 _ (List.mem_of_getElem? hc)
      rw [dot_ofFn _ (by simp)] at h3
      rw [sum_eq_single_of_mem k (mem_univ k)] at h3
      · simpa [getD_map_range, k.2] using h3
      · intro i _ hik
        have : (i : Nat) ≠ (k : Nat) := fun h => hik (Fin.ext h)
        simp [getD_map_range, i.2, this]
    have hAC := matAC hql I1.aug
    rw [matA_eq] at hAC
    obtain ⟨c, hc1, hc2⟩ := GsoAlg.ker_span hAC (matTT hql I1.gs) hsep g hg
    -- S-orthogonality of x to the flagged bottoms
    have hflag : ∀ j : Fin p.n, vecD p.n qs j = 0 →
        ∑ i ∈ p.S, toVec p.n ans.x i * matC p.n qs i j = 0 := by
      intro j hj
      have hjl : (j : Nat) < qs.length := by rw [hql]; exact j.2
      have hmem : (j : Nat) + 1 ∈ R.dep := by
        rw [F.dep]
        exact (I1.flag j _ (colAt_getElem? hjl)).2 hj
      have := F.sOrth _ hmem (colAt qs j) (by
        show qs[(j : Nat) + 1 - 1]? = some (colAt qs j)
        rw [Nat.add_sub_cancel]; exact colAt_getElem? hjl)
      rw [dotM_eq_sum p.n _ _ _ (length_maskOf _ _) (I1.aug _ (colAt_mem hjl)).lbot F.rhsAug.lbot,
        sum_mask p (fun i => (colAt qs j).bot.getD i 0 * R.rhs.bot.getD i 0)] at this
      rw [← this]
      refine sum_congr rfl fun i _ => ?_
      rw [hxv, mul_comm]; rfl
    rw [hc2]
    have : ∑ i ∈ p.S, toVec p.n ans.x i * (matC p.n qs *ᵥ c) i
        = ∑ j, c j * ∑ i ∈ p.S, toVec p.n ans.x i * matC p.n qs i j := by
      simp only [mulVec, dotProduct, mul_sum]
      rw [sum_comm]
      refine sum_congr rfl fun j _ => sum_congr rfl fun i _ => by ring
    rw [this]
    refine sum_eq_zero fun j _ => ?_
    rcases vecD_01 hql I1.gs j with h1 | h0
    · rw [hc1 j h1, zero_mul]
    · rw [hflag j h0, mul_zero]

end Gama.Ls.Gso
