/-
  Envelope solver: the sum-level results of `EnvX0.lean` as statements about Mathlib
  matrices over `Fin n`, regular case: `solve` is multiplication by `N⁻¹`, the matrix of
  `q0_xx` is `N⁻¹` (symmetric, reflexive g-inverse), `q_bb = A N⁻¹ Aᵀ`, trivial kernel.
-/
import Gama.Lemmas.Ls.EnvX0
import Mathlib.LinearAlgebra.Matrix.NonsingularInverse
import Mathlib.Data.Matrix.Mul

namespace Gama.Ls.Env
open Finset Matrix

set_option linter.unusedSectionVars false

variable {K : Type} [Field K] [LinearOrder K] [IsStrictOrderedRing K] (sq : K → K)
local notation "𝔽" => fieldScalar sq

/-- leading `n × n` block of a function as a matrix -/
def matOf (r c : ℕ) (N : ℕ → ℕ → K) : Matrix (Fin r) (Fin c) K := fun i j => N i j
/-- first `n` components of a function as a vector -/
def vecFn (n : ℕ) (x : ℕ → K) : Fin n → K := fun i => x i

theorem matOf_mulVec (r c : ℕ) (N : ℕ → ℕ → K) (x : ℕ → K) (i : Fin r) :
    (matOf r c N *ᵥ vecFn c x) i = ∑ j ∈ range c, N i j * x j := by
  simp only [mulVec, dotProduct, matOf, vecFn]
  exact Fin.sum_univ_eq_sum_range (fun j => N i j * x j) c

theorem ip_eq_dot (m : ℕ) (a b : ℕ → K) : ip m a b = vecFn m a ⬝ᵥ vecFn m b := by
  simp only [ip, dotProduct, vecFn]
  exact (Fin.sum_univ_eq_sum_range (fun r => a r * b r) m).symm

variable {N : ℕ → ℕ → K} {tol : K} {n : ℕ}

/-- the matrix of `q0_xx` : column `j` is `solve(e_j)` -/
def Q0 (N : ℕ → ℕ → K) (tol : K) (n : ℕ) : Matrix (Fin n) (Fin n) K :=
  fun i j => solvef sq N tol n (@unit K 𝔽 j) i

theorem unit_apply (k i : ℕ) : @unit K 𝔽 k i = if i = k then 1 else 0 := rfl

/-- regular case: `N · Q0 = 1` -/
theorem N_mul_Q0 (hR : Regular sq N tol n) (htol : 0 < tol) (hsym : ∀ i < n, ∀ j < n, N i j = N j i) :
    matOf n n N * Q0 sq N tol n = 1 := by
  ext i j
  have := solve_regular sq hR htol hsym (@unit K 𝔽 j) i.2
  rw [unit_apply] at this
  simp only [mul_apply, matOf, Q0, one_apply, Fin.ext_iff]
  rw [Fin.sum_univ_eq_sum_range (fun k => N i k * solvef sq N tol n (@unit K 𝔽 j) k) n, this]

theorem Q0_eq_inv (hR : Regular sq N tol n) (htol : 0 < tol) (hsym : ∀ i < n, ∀ j < n, N i j = N j i) :
    Q0 sq N tol n = (matOf n n N)⁻¹ :=
  (Matrix.inv_eq_right_inv (N_mul_Q0 sq hR htol hsym)).symm

theorem Q0_mul_N (hR : Regular sq N tol n) (htol : 0 < tol) (hsym : ∀ i < n, ∀ j < n, N i j = N j i) :
    Q0 sq N tol n * matOf n n N = 1 :=
  mul_eq_one_comm.1 (N_mul_Q0 sq hR htol hsym)

theorem matOf_symm (hsym : ∀ i < n, ∀ j < n, N i j = N j i) : (matOf n n N)ᵀ = matOf n n N := by
  ext i j; exact hsym j j.2 i i.2

theorem Q0_symm (hR : Regular sq N tol n) (htol : 0 < tol) (hsym : ∀ i < n, ∀ j < n, N i j = N j i) :
    (Q0 sq N tol n)ᵀ = Q0 sq N tol n := by
  rw [Q0_eq_inv sq hR htol hsym, transpose_nonsing_inv, matOf_symm hsym]

/-- regular case: `solve(c) = N⁻¹ c = Q0 c` -/
theorem solve_eq_Q0_mulVec (hR : Regular sq N tol n) (htol : 0 < tol) (hsym : ∀ i < n, ∀ j < n, N i j = N j i)
    (c : ℕ → K) : vecFn n (solvef sq N tol n c) = Q0 sq N tol n *ᵥ vecFn n c := by
  have h1 : matOf n n N *ᵥ vecFn n (solvef sq N tol n c) = vecFn n c := by
    ext i; rw [matOf_mulVec]; exact solve_regular sq hR htol hsym c i.2
  calc vecFn n (solvef sq N tol n c)
      = (Q0 sq N tol n * matOf n n N) *ᵥ vecFn n (solvef sq N tol n c) := by
        rw [Q0_mul_N sq hR htol hsym, one_mulVec]
    _ = Q0 sq N tol n *ᵥ vecFn n c := by rw [← mulVec_mulVec, h1]

/-- regular case: the normal matrix has a trivial kernel -/
theorem regular_ker (hR : Regular sq N tol n) (htol : 0 < tol) (hsym : ∀ i < n, ∀ j < n, N i j = N j i)
    (g : Fin n → K) (hg : matOf n n N *ᵥ g = 0) : g = 0 := by
  have := congrArg (Q0 sq N tol n *ᵥ ·) hg
  simpa [mulVec_mulVec, Q0_mul_N sq hR htol hsym] using this

/-- `AdjEnvelope::q0_xx` reads component `min i j` of `solve(e_{max i j})` : that is `Q0 i j` -/
theorem q0_model (hR : Regular sq N tol n) (htol : 0 < tol) (hsym : ∀ i < n, ∀ j < n, N i j = N j i) (i j : Fin n) :
    @q0 K 𝔽 (@ldl K 𝔽 N tol n) n i j = Q0 sq N tol n i j := by
  unfold q0
  rw [vget_solve]
  rcases le_total i.1 j.1 with h | h
  · rw [max_eq_right h, min_eq_left h]; rfl
  · rw [max_eq_left h, min_eq_right h]
    have := congrFun (congrFun (Q0_symm sq hR htol hsym) i) j
    rw [transpose_apply] at this
    exact this

end Gama.Ls.Env
