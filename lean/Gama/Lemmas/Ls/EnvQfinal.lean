/-
  Envelope solver, C03 for singular systems: the matrix of `q_xx` is symmetric with
  `N Q N = N`, `Q N Q = Q`, in the new numbering and in the numbering of the problem.
-/
import Gama.Lemmas.Ls.EnvQsing
import Gama.Lemmas.Ls.EnvCofactor

namespace Gama.Ls.Env
open Finset Matrix Gama.LS

set_option linter.unusedSectionVars false

variable {K : Type} [Field K] [LinearOrder K] [IsStrictOrderedRing K] (sq : K → K)
local notation "𝔽" => fieldScalar sq

variable (tol stol : K) (m n : ℕ) (A : DMat K) (b : Array K) (At : DMat K) (bt : Array K)
  (reg : Reg) (o : EnvOrd)

/-- what `solve_x` returned, unpacked -/
theorem solveX_cols (hsq : IsSqrt sq) (hU : FactUnambiguous sq tol m n At bt o) (htol : 0 < tol)
    (hstol : 0 < stol) {S : List ℕ} (hS : ∀ k ∈ S, k < n) {G : List (Array K)} {x : Array K}
    (h : @solveX K 𝔽 (@factor K 𝔽 tol m n At bt o) S stol = .ok (G, x)) :
    OrthoN sq S G ∧ ∀ q ∈ G, av sq n q ∈ kerV sq tol m n At bt o := by
  rw [solveX_eq sq tol stol m n At bt o hU htol] at h
  unfold gs at h
  cases hG : @gsCols K 𝔽 n S stol [] (kerCols sq tol m n At bt o) with
  | error e => rw [hG] at h; cases h
  | ok G' =>
    rw [hG] at h
    have hGx : (G', @orthAgainst K 𝔽 n S G' (@factor K 𝔽 tol m n At bt o).x0p) = (G, x) := by
      cases h; rfl
    obtain ⟨rfl, -⟩ := Prod.mk.inj hGx
    obtain ⟨r1, r2, -, -⟩ := gsCols_spec sq hsq hS hstol (kerV sq tol m n At bt o)
      (kerCols sq tol m n At bt o) [] G' hG ⟨List.Pairwise.nil, fun q hq => by cases hq⟩
      (fun q hq => by cases hq) (kerCols_mem_kerV sq tol m n At bt o hU)
    exact ⟨r1, r2⟩

/-- the matrix of `q_xx` of a singular system in the new numbering -/
def QsM (S : List ℕ) (G : List (Array K)) : Matrix (Fin n) (Fin n) K :=
  fun i j => @qxxSing K 𝔽 (@factor K 𝔽 tol m n At bt o).rows n S G i j

/-- **C03, singular, new numbering** -/
theorem QsM_props (hU : FactUnambiguous sq tol m n At bt o) {S : List ℕ} {G : List (Array K)}
    (hker : ∀ q ∈ G, av sq n q ∈ kerV sq tol m n At bt o) :
    (QsM sq tol m n At bt o S G)ᵀ = QsM sq tol m n At bt o S G
    ∧ matOf n n (NF sq tol m n At bt o) * QsM sq tol m n At bt o S G * matOf n n (NF sq tol m n At bt o)
        = matOf n n (NF sq tol m n At bt o)
    ∧ QsM sq tol m n At bt o S G * matOf n n (NF sq tol m n At bt o) * QsM sq tol m n At bt o S G
        = QsM sq tol m n At bt o S G := by
  have hQ : QsM sq tol m n At bt o S G
      = TM sq n S G * Q0M sq (NF sq tol m n At bt o) tol n * (TM sq n S G)ᵀ := by
    ext i j; exact qxxSing_eq sq (NF sq tol m n At bt o) tol i j
  obtain ⟨q1, q2, q3⟩ := Q0M_props sq hU (NF_gram sq tol m n At bt o)
  have hNs : (matOf n n (NF sq tol m n At bt o))ᵀ = matOf n n (NF sq tol m n At bt o) :=
    matOf_symm (NF_symm sq tol m n At bt o)
  have hNG : matOf n n (NF sq tol m n At bt o) * GmM sq n G = 0 := by
    ext i c
    have := (mem_kerV sq tol m n At bt o _).1 (hker (G.get c) (List.get_mem G c))
    have h2 := congrFun this i
    simp only [mulVec, dotProduct, Pi.zero_apply] at h2
    simp only [mul_apply, Matrix.zero_apply]
    exact h2
  rw [hQ]
  exact ⟨tq0t_symm q1, tq0t_ginv hNs hNG q2, tq0t_reflexive hNs hNG q3⟩

/-- the cofactor matrix in the numbering of the problem -/
def QsO (hO : OrdOK n o) (S : List ℕ) (G : List (Array K)) : Matrix (Fin n) (Fin n) K :=
  (QsM sq tol m n At bt o S G).submatrix hO.equiv.symm hO.equiv.symm

/-- **C03, singular, numbering of the problem**: `Q` symmetric, `N Q N = N`, `Q N Q = Q` for
    `N = ÃᵀÃ` -/
theorem QsO_props (hO : OrdOK n o) (hU : FactUnambiguous sq tol m n At bt o) {S : List ℕ} {G : List (Array K)}
    (hker : ∀ q ∈ G, av sq n q ∈ kerV sq tol m n At bt o) :
    (QsO sq tol m n At bt o hO S G)ᵀ = QsO sq tol m n At bt o hO S G
    ∧ NO m n At * QsO sq tol m n At bt o hO S G * NO m n At = NO m n At
    ∧ QsO sq tol m n At bt o hO S G * NO m n At * QsO sq tol m n At bt o hO S G
        = QsO sq tol m n At bt o hO S G := by
  obtain ⟨p1, p2, p3⟩ := QsM_props sq tol m n At bt o hU (S := S) hker
  have hN : NO m n At = (matOf n n (NF sq tol m n At bt o)).submatrix hO.equiv.symm hO.equiv.symm := by
    rw [NF_eq_submatrix sq tol m n At bt o hO]
    ext i j; simp
  unfold QsO
  refine ⟨?_, ?_, ?_⟩
  · rw [transpose_submatrix, p1]
  · rw [hN, submatrix_mul_equiv, submatrix_mul_equiv, p2]
  · rw [hN, submatrix_mul_equiv, submatrix_mul_equiv, p3]


/-- **C03 singular**: `q_xx(i,j)` (1-based query) is the entry of that matrix; it needs
    `solve_x` (and throws what `solve_x` throws) -/
theorem envCore_qxx_singular (hO : OrdOK n o)
    (hd : (@envCore K 𝔽 tol stol m n A b At bt reg o).defect ≠ 0) {G : List (Array K)} {xn : Array K}
    (hs : @solveX K 𝔽 (@factor K 𝔽 tol m n At bt o) (regList n o reg) stol = .ok (G, xn)) (i j : Fin n) :
    (@envCore K 𝔽 tol stol m n A b At bt reg o).qxx (i + 1) (j + 1)
      = .ok (QsO sq tol m n At bt o hO (regList n o reg) G i j) := by
  have hd' : ¬ @defectOf K (@factor K 𝔽 tol m n At bt o).rows = 0 := hd
  have hi : (decide (1 ≤ i.1 + 1) && decide (i.1 + 1 ≤ n)) = true := by simp
  have hj : (decide (1 ≤ j.1 + 1) && decide (j.1 + 1 ≤ n)) = true := by simp
  show (if !((decide (1 ≤ i.1 + 1) && decide (i.1 + 1 ≤ n)) && (decide (1 ≤ j.1 + 1) && decide (j.1 + 1 ≤ n)))
      then Except.error ErrKind.NotModelled
      else if @defectOf K (@factor K 𝔽 tol m n At bt o).rows = 0 then _
      else (@solveX K 𝔽 (@factor K 𝔽 tol m n At bt o) (regList n o reg) stol).map fun gx =>
        @qxxSing K 𝔽 (@factor K 𝔽 tol m n At bt o).rows n (regList n o reg) gx.1
          (o.invp.getD (i.1 + 1 - 1) 0) (o.invp.getD (j.1 + 1 - 1) 0)) = _
  rw [hi, hj, if_neg hd', hs]
  simp only [Nat.add_sub_cancel]
  rfl

end Gama.Ls.Env
