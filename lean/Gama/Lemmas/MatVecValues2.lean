/-
  VALUES of the matrix-valued products with a `TransMat` operand (round 10): `trans(A)·B`, `A·trans(B)`,
  `trans(A)·trans(B)` and `trans(trans(M))` — the closed-form models (= the regenerated loops, Lemmas/MatVecKernels2.lean)
  compute the Mathlib matrix product of the operands' VIEWS, all dimensions, any semiring.
-/
import Gama.Lemmas.MatVecValues
namespace Gama.MatVec
open Finset
variable {K : Type}

/-- the Mathlib matrix of a `TransMat` view -/
def TMat.toMatrix (A : TMat K) (d : K) (r c : Nat) : Matrix (Fin r) (Fin c) K := fun i j => A.at d i.val j.val

theorem trans_toMatrix (M : Mat K) (d : K) :
    (trans M).toMatrix d M.cols M.rows = (M.toMatrix d M.rows M.cols).transpose := by
  funext i j; simp [TMat.toMatrix, Mat.toMatrix, trans_at]

section
variable [Semiring K]

/-- one statement for all four product loops: offsets that read the entries `fa i k`, `fb k j` -/
theorem prod_spec (A B : Array K) (n m l : Nat) (offA offB : Nat → Nat → Nat) (fa fb : Nat → Nat → K)
    (hA : ∀ i k, i < n → k < l → rd A (offA i k) = .ok (fa i k))
    (hB : ∀ k j, k < l → j < m → rd B (offB j k) = .ok (fb k j)) :
    ∃ a, tabulate (n * m) (fun p => sumLoop l (fun k => mulRd A (offA (p / m) k) B (offB (p % m) k))) = .ok a
      ∧ a.size = n * m ∧ ∀ i j, i < n → j < m → a[i * m + j]? = some (∑ k ∈ range l, fa i k * fb k j) := by
  have hl : ∀ p, p < n * m → sumLoop l (fun k => mulRd A (offA (p / m) k) B (offB (p % m) k))
      = .ok (∑ k ∈ range l, fa (p / m) k * fb k (p % m)) := by
    intro p hp
    have hpos : 0 < m := by
      rcases Nat.eq_zero_or_pos m with h | h
      · rw [h] at hp; simp at hp
      · exact h
    have hi : p / m < n := by rw [Nat.div_lt_iff_lt_mul hpos]; exact hp
    have hj : p % m < m := Nat.mod_lt _ hpos
    apply sumLoop_spec
    intro k hk
    simp [mulRd, hA _ _ hi hk, hB _ _ hk hj]
  obtain ⟨a, ha, hs, he⟩ := tabulate_spec (n * m) _ _ hl
  refine ⟨a, ha, hs, ?_⟩
  intro i j hi hj
  have := he (i * m + j) (idx_lt hi hj)
  obtain ⟨e1, e2⟩ := div_mod_idx (i := i) hj
  rw [this, e1, e2]

theorem toMatrix_of_cells (C : Mat K) (d : K) (g : Nat → Nat → K)
    (he : ∀ i j, i < C.rows → j < C.cols → C.data[i * C.cols + j]? = some (g i j)) :
    C.toMatrix d C.rows C.cols = fun i j => g i.val j.val := by
  funext i j
  simp [Mat.toMatrix, Mat.at, Array.getD_eq_getD_getElem?, he i.val j.val i.isLt j.isLt]

/-- `operator*(TransMat,Mat)`: `trans(A)·B` -/
theorem tMulMat_toMatrix (A : TMat K) (B : Mat K) (hA : A.WF) (hB : B.WF) (hc : A.cols = B.rows) (d : K) :
    ∃ C, tMulMat A B = .ok C ∧ C.rows = A.rows ∧ C.cols = B.cols ∧ C.WF ∧
      C.toMatrix d A.rows B.cols = A.toMatrix d A.rows A.cols * B.toMatrix d A.cols B.cols := by
  obtain ⟨a, ha, hs, he⟩ := prod_spec A.data B.data A.rows B.cols A.cols
    (fun i k => i + k * A.rows) (fun j k => j + k * B.cols) (A.at d) (B.at d)
    (fun i k hi hk => TMat.rd_at hA d hi hk)
    (fun k j hk hj => by rw [Nat.add_comm]; exact Mat.rd_at hB d (by omega) hj)
  refine ⟨⟨A.rows, B.cols, a⟩, ?_, rfl, rfl, hs, ?_⟩
  · have hg : ¬ (A.cols ≠ B.rows) := by simp [hc]
    simp only [tMulMat, hg, if_false, ha]
  · rw [toMatrix_of_cells ⟨A.rows, B.cols, a⟩ d _ he]
    funext i j
    simp only [Matrix.mul_apply, TMat.toMatrix, Mat.toMatrix]
    exact (Fin.sum_univ_eq_sum_range (fun k => A.at d i.val k * B.at d k j.val) A.cols).symm

/-- `operator*(Mat,TransMat)`: `A·trans(B)` -/
theorem matMulT_toMatrix (A : Mat K) (B : TMat K) (hA : A.WF) (hB : B.WF) (hc : A.cols = B.rows) (d : K) :
    ∃ C, matMulT A B = .ok C ∧ C.rows = A.rows ∧ C.cols = B.cols ∧ C.WF ∧
      C.toMatrix d A.rows B.cols = A.toMatrix d A.rows A.cols * B.toMatrix d A.cols B.cols := by
  obtain ⟨a, ha, hs, he⟩ := prod_spec A.data B.data A.rows B.cols A.cols
    (fun i k => i * A.cols + k) (fun j k => j * B.rows + k) (A.at d) (B.at d)
    (fun i k hi hk => Mat.rd_at hA d hi hk)
    (fun k j hk hj => by rw [Nat.add_comm]; exact TMat.rd_at hB d (by omega) hj)
  refine ⟨⟨A.rows, B.cols, a⟩, ?_, rfl, rfl, hs, ?_⟩
  · have hg : ¬ (A.cols ≠ B.rows) := by simp [hc]
    simp only [matMulT, hg, if_false, ha]
  · rw [toMatrix_of_cells ⟨A.rows, B.cols, a⟩ d _ he]
    funext i j
    simp only [Matrix.mul_apply, TMat.toMatrix, Mat.toMatrix]
    exact (Fin.sum_univ_eq_sum_range (fun k => A.at d i.val k * B.at d k j.val) A.cols).symm

/-- `operator*(TransMat,TransMat)`: `trans(A)·trans(B)` -/
theorem tMulT_toMatrix (A B : TMat K) (hA : A.WF) (hB : B.WF) (hc : A.cols = B.rows) (d : K) :
    ∃ C, tMulT A B = .ok C ∧ C.rows = A.rows ∧ C.cols = B.cols ∧ C.WF ∧
      C.toMatrix d A.rows B.cols = A.toMatrix d A.rows A.cols * B.toMatrix d A.cols B.cols := by
  obtain ⟨a, ha, hs, he⟩ := prod_spec A.data B.data A.rows B.cols A.cols
    (fun i k => i + k * A.rows) (fun j k => j * B.rows + k) (A.at d) (B.at d)
    (fun i k hi hk => TMat.rd_at hA d hi hk)
    (fun k j hk hj => by rw [Nat.add_comm]; exact TMat.rd_at hB d (by omega) hj)
  refine ⟨⟨A.rows, B.cols, a⟩, ?_, rfl, rfl, hs, ?_⟩
  · have hg : ¬ (A.cols ≠ B.rows) := by simp [hc]
    simp only [tMulT, hg, if_false, ha]
  · rw [toMatrix_of_cells ⟨A.rows, B.cols, a⟩ d _ he]
    funext i j
    simp only [Matrix.mul_apply, TMat.toMatrix]
    exact (Fin.sum_univ_eq_sum_range (fun k => A.at d i.val k * B.at d k j.val) A.cols).symm

end

/-- `trans(const TransMat&)`: the `Mat` whose entries are the transposed view's -/
theorem transT_toMatrix (T : TMat K) (hT : T.WF) (d : K) :
    ∃ C, transT T = .ok C ∧ C.rows = T.cols ∧ C.cols = T.rows ∧ C.WF ∧
      C.toMatrix d T.cols T.rows = (T.toMatrix d T.rows T.cols).transpose := by
  have hl : ∀ p, p < T.cols * T.rows → rd T.data (tmatIdx T.rows (p % T.rows + 1) (p / T.rows + 1))
      = .ok (T.at d (p % T.rows) (p / T.rows)) := by
    intro p hp
    have hpos : 0 < T.rows := by
      rcases Nat.eq_zero_or_pos T.rows with h | h
      · rw [h] at hp; simp at hp
      · exact h
    have hj : p / T.rows < T.cols := by rw [Nat.div_lt_iff_lt_mul hpos]; exact hp
    have hi : p % T.rows < T.rows := Nat.mod_lt _ hpos
    have := TMat.rd_at hT d hi hj
    simp only [tmatIdx, Nat.add_sub_cancel]
    rw [Nat.add_comm]; exact this
  obtain ⟨a, ha, hs, he⟩ := tabulate_spec (T.cols * T.rows) _ _ hl
  refine ⟨⟨T.cols, T.rows, a⟩, by simp only [transT, ha], rfl, rfl, hs, ?_⟩
  funext i j
  have := he (i.val * T.rows + j.val) (idx_lt i.isLt j.isLt)
  obtain ⟨e1, e2⟩ := div_mod_idx (i := i.val) j.isLt
  simp [Mat.toMatrix, Mat.at, TMat.toMatrix, Matrix.transpose_apply, Array.getD_eq_getD_getElem?, this, e1, e2]

/-! ### storage primitives: entrywise -/

theorem baseMul_spec [Mul K] (a : Array K) (f : K) (d : K) :
    ∃ v, baseMul a f a.size = .ok v ∧ v.size = a.size ∧ ∀ p, p < a.size → vat v d p = vat a d p * f := by
  have hl : ∀ p, p < a.size → (match rd a p with | .error e => .error e | .ok x => .ok (x * f) : Except Err K)
      = .ok (vat a d p * f) := by
    intro p hp; simp [rd_vat d hp]
  obtain ⟨v, hv, hs, he⟩ := tabulate_spec a.size _ _ hl
  exact ⟨v, by unfold baseMul; simp only [ne_eq, not_true_eq_false, if_false]; exact hv, hs, fun p hp => vec_of_tab d he hp⟩

theorem baseZip_spec (g : K → K → K) (a b : Array K) (hab : a.size = b.size) (d : K) :
    ∃ v, tabulate a.size (zipRd g a b) = .ok v ∧ v.size = a.size ∧
      ∀ p, p < a.size → vat v d p = g (vat a d p) (vat b d p) := by
  have hl : ∀ p, p < a.size → zipRd g a b p = .ok (g (vat a d p) (vat b d p)) := by
    intro p hp; simp [zipRd, rd_vat d hp, rd_vat d (show p < b.size by omega)]
  obtain ⟨v, hv, hs, he⟩ := tabulate_spec a.size _ _ hl
  exact ⟨v, hv, hs, fun p hp => vec_of_tab d he hp⟩

end Gama.MatVec
