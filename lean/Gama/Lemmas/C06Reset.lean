/-
  C06 — ApproxPoint::reset on exact observations: `ResetOK` (Gama/Lemmas/C06Inter.lean) derived from the exactness of
  the raw observations of the clusters (`ExactCl`), the temporary stand-point of AcordIntersection::execute and the
  end-to-end theorem `aiExecute_sound_exact`.
-/
import Gama.Lemmas.C06Inter
import Gama.Lemmas.C06ResetData
open Gama Gama.Cogo Gama.Median Gama.C06R Gama.C06L Gama.Acord Gama.C06A Gama.Inter

namespace Gama.C06I
open Real
set_option linter.unusedSectionVars false
set_option linter.unusedSimpArgs false
set_option linter.unusedTactic false
set_option linter.unreachableTactic false
set_option linter.unnecessarySeqFocus false
variable {ι : Type} [DecidableEq ι]

/-- the true position of a point -/
abbrev tp (T : Truth ι) (i : ι) : Pt ℝ := ⟨T.x i, T.y i⟩

/-! ### real-number layer: ranges and the ±2π normalisations -/

theorem bearing_range (p q : Pt ℝ) : 0 ≤ bearing p q ∧ bearing p q < 2 * π := by
  by_cases h : Real.sqrt ((q.y - p.y) * (q.y - p.y) + (q.x - p.x) * (q.x - p.x)) < 1 / 10 ^ 6
  · have : bearing p q = 0 := by
      unfold bearing bearingDistance
      simp only [sub_eq, mul_eq, add_eq, sqrt_eq, lt_eq, tiny_eq, h, if_true]
    rw [this]; exact ⟨le_refl _, by positivity⟩
  · unfold bearing
    rw [bearingDistance_spec _ _ _ _ h]
    exact ⟨Lin.brg_nonneg _ _, Lin.brg_lt_two_pi _ _⟩

theorem normRad_id (v : ℝ) (h0 : 0 ≤ v) (h2 : v < 2 * π) : normRad v = v := by
  unfold normRad
  simp only [le_eq, twoPi_eq, sub_eq, lt_eq, zero_eq, add_eq, not_le.mpr h2, not_lt.mpr h0, if_false]

theorem innerAngle_eq (X A B : Pt ℝ) :
    innerAngle X A B = if bearing X B - bearing X A < 0 then bearing X B - bearing X A + 2 * π
      else bearing X B - bearing X A := by
  unfold innerAngle
  simp only [sub_eq, add_eq, lt_eq, zero_eq, twoPi_eq]
  split_ifs <;> simp

theorem innerAngle_range (X A B : Pt ℝ) : 0 ≤ innerAngle X A B ∧ innerAngle X A B < 2 * π := by
  have ha := bearing_range X A
  have hb := bearing_range X B
  rw [innerAngle_eq]
  split_ifs with h
  · constructor <;> linarith
  · constructor <;> linarith

theorem innerAngle_ne_zero (X A B : Pt ℝ) (h : bearing X A ≠ bearing X B) : innerAngle X A B ≠ 0 := by
  have ha := bearing_range X A
  have hb := bearing_range X B
  rw [innerAngle_eq]
  split_ifs with h1
  · intro e; linarith
  · intro e; exact h (by linarith)

/-- swapping the arms of a non-zero inner angle -/
theorem innerAngle_swap (X A B : Pt ℝ) (h : innerAngle X A B ≠ 0) :
    innerAngle X B A = 2 * π - innerAngle X A B := by
  have ha := bearing_range X A
  have hb := bearing_range X B
  rw [innerAngle_eq] at h
  rw [innerAngle_eq X A B, innerAngle_eq X B A]
  split_ifs at h ⊢ with h1 h2 h2
  · linarith
  · ring
  · ring
  · exfalso; exact h (by linarith)

theorem g2d_symm (a b : Pt ℝ) : g2dDistance a b = g2dDistance b a := by
  unfold g2dDistance
  simp only [sub_eq, sqr_eq, add_eq, sqrt_eq]
  congr 1; ring

theorem g2d_eq_hd (T : Truth ι) (f t : ι) : g2dDistance (tp T f) (tp T t) = hd T f t := by
  unfold g2dDistance hd
  simp only [sub_eq, sqr_eq, add_eq, sqrt_eq]
  congr 1; ring

theorem far_symm (p q : Pt ℝ) (h : Far p q) : Far q p := by
  unfold Far at *
  have e : (p.y - q.y) * (p.y - q.y) + (p.x - q.x) * (p.x - q.x)
      = (q.y - p.y) * (q.y - p.y) + (q.x - p.x) * (q.x - p.x) := by ring
  rw [e]; exact h

theorem sight_symm (p q : Pt ℝ) (h : Sight p q) : Sight q p := by
  unfold Sight at *
  have e : (p.y - q.y) * (p.y - q.y) + (p.x - q.x) * (p.x - q.x)
      = (q.y - p.y) * (q.y - p.y) + (q.x - p.x) * (q.x - p.x) := by ring
  rw [e]; exact h

theorem sight_far (p q : Pt ℝ) (h : Sight p q) : Far p q := not_lt.mpr (le_of_lt h)

theorem not_far_self (p : Pt ℝ) : ¬ Far p p := by
  unfold Far
  simp

/-- `makeAngle`: the difference of two exact directions of one set is the inner angle -/
theorem angle_of_dirs (βa βb o va vb : ℝ) (ha0 : 0 ≤ βa) (ha2 : βa < 2 * π) (hb0 : 0 ≤ βb) (hb2 : βb < 2 * π)
    (hva0 : 0 ≤ va) (hva2 : va < 2 * π) (hvb0 : 0 ≤ vb) (hvb2 : vb < 2 * π)
    (ha : va = βa - o ∨ va = βa - o + 2 * π) (hb : vb = βb - o ∨ vb = βb - o + 2 * π) :
    normRad (if vb - va < 0 then vb - va + 2 * π else vb - va) =
      if βb - βa < 0 then βb - βa + 2 * π else βb - βa := by
  have hp := Real.pi_pos
  have hr : 0 ≤ (if vb - va < 0 then vb - va + 2 * π else vb - va) ∧
      (if vb - va < 0 then vb - va + 2 * π else vb - va) < 2 * π := by
    split_ifs with h
    · constructor <;> linarith
    · constructor <;> linarith
  rw [normRad_id _ hr.1 hr.2]
  rcases ha with ha | ha <;> rcases hb with hb | hb <;> split_ifs at hr ⊢ with h1 h2 h2 <;>
    first | linarith | (exfalso; linarith)

/-- `makeBearing(Direction)`: value + orientation, reduced -/
theorem makeBearingD_exact (β o v : ℝ) (hb0 : 0 ≤ β) (hb2 : β < 2 * π)
    (hv : v = β - o ∨ v = β - o + 2 * π) : normRad (makeBearingD v o) = β := by
  have hp := Real.pi_pos
  unfold makeBearingD
  simp only [add_eq, le_eq, twoPi_eq, sub_eq, zero_eq]
  rcases hv with hv | hv
  · have e : v + o = β := by linarith
    rw [e, if_neg (not_le.mpr hb2), sub_zero]
    exact normRad_id _ hb0 hb2
  · have e : v + o = β + 2 * π := by linarith
    rw [e, if_pos (by linarith), add_sub_cancel_right]
    exact normRad_id _ hb0 hb2

/-! ### exactness of the observation list `SM` of ApproximateCoordinates -/

/-- an exact Direction `f → t` with value `v` of an observation set whose true orientation is `o`:
    value and orientation in [0, 2π) (Direction's constructor, Orientation::add_all), `v ≡ bearing − o (mod 2π)`
    (with both in range only the two forms are possible), sight longer than the 1e-6 of bearing_distance -/
structure DirOK (T : Truth ι) (o : ℝ) (f t : ι) (v : ℝ) : Prop where
  v0 : 0 ≤ v
  v2 : v < 2 * π
  o0 : 0 ≤ o
  o2 : o < 2 * π
  val : v = bearing (tp T f) (tp T t) - o ∨ v = bearing (tp T f) (tp T t) - o + 2 * π
  sight : Sight (tp T f) (tp T t)

/-- an exact Angle at `f` from `bs` to `fs`: both arms longer than 1e-6 (strictly: an arm is also used as an outer
    bearing, `ArrOK (.dir ..)` asks for `Sight`), the two targets not closer than 1e-6 (`AngOK`).  The value may be 0
    (targets in one direction): an OBSERVED angle is never mixed with a `2π − 0`. -/
structure AngExact (T : Truth ι) (f bs fs : ι) (v : ℝ) : Prop where
  val : v = innerAngle (tp T f) (tp T bs) (tp T fs)
  s1 : Sight (tp T f) (tp T bs)
  s2 : Sight (tp T f) (tp T fs)
  far : Far (tp T bs) (tp T fs)

/-- two Directions of one observation set observed at the same point: their targets are not closer than 1e-6 to each
    other and do not lie in the same direction from the stand-point.  REQUIRED: `makeAngle` turns every such pair into
    an angle; for coinciding targets `AngOK` (`Far B1 B2`) fails; for targets in one direction the angle is 0 and
    ArrangeObservations mixes it with `2π − 0` of the pair taken in the other order (another set of the same
    stand-point), the median π is handed to the calculation. -/
def DirSep (T : Truth ι) (a b : HObs ι ℝ) : Prop :=
  ∀ f t v t' v', a = .direction f t v → b = .direction f t' v' →
    Far (tp T t) (tp T t') ∧ bearing (tp T f) (tp T t) ≠ bearing (tp T f) (tp T t')

/-- exactness of a list `SM` (observation + cluster index); `tori k` = true orientation of cluster `k`;
    clusters in `fixed` are oriented from the start (no same-station requirement: add_all skips them) -/
structure ExactSM (T : Truth ι) (tori : Nat → ℝ) (fixed : Nat → Prop) (sm : List (SMo ι ℝ)) : Prop where
  dir : ∀ e ∈ sm, ∀ f t v, e.o = .direction f t v → DirOK T (tori e.cl) f t v
  dist : ∀ e ∈ sm, ∀ f t v, e.o = .distance f t v → v = g2dDistance (tp T f) (tp T t)
  ang : ∀ e ∈ sm, ∀ f bs fs v, e.o = .angle f bs fs v → AngExact T f bs fs v
  station : ∀ e ∈ sm, ∀ e' ∈ sm, e.cl = e'.cl → ¬ fixed e.cl →
    ∀ f t v f' t' v', e.o = .direction f t v → e'.o = .direction f' t' v' → f = f'
  sep : sm.Pairwise (fun e e' => e.cl = e'.cl → DirSep T e.o e'.o)

/-- every orientation that is set is the true one -/
def OriOK (tori : Nat → ℝ) (oris : List (Option ℝ)) : Prop := ∀ k o, oriAt oris k = some o → o = tori k

/-- … and the clusters in `fixed` are oriented -/
def OriInv (tori : Nat → ℝ) (fixed : Nat → Prop) (oris : List (Option ℝ)) : Prop :=
  OriOK tori oris ∧ ∀ k, fixed k → (oriAt oris k).isSome = true

theorem oriAt_set (oris : List (Option ℝ)) (k j : Nat) (a : ℝ) :
    oriAt (oris.set k (some a)) j = if j = k ∧ k < oris.length then some a else oriAt oris j := by
  unfold oriAt
  simp only [List.getD_eq_getElem?_getD, List.getElem?_set]
  split_ifs <;> simp_all

theorem oriInv_set (tori : Nat → ℝ) (fixed : Nat → Prop) (oris : List (Option ℝ)) (k : Nat)
    (h : OriInv tori fixed oris) : OriInv tori fixed (oris.set k (some (tori k))) := by
  constructor
  · intro j o hj
    rw [oriAt_set] at hj
    split_ifs at hj with c
    · simp only [Option.some.injEq] at hj; rw [← hj, c.1]
    · exact h.1 j o hj
  · intro j hj
    rw [oriAt_set]
    split_ifs
    · rfl
    · exact h.2 j hj

theorem mem_takeWhile {α : Type} (p : α → Bool) : ∀ (l : List α) (x : α), x ∈ l.takeWhile p → p x = true ∧ x ∈ l := by
  intro l
  induction l with
  | nil => intro x hx; simp at hx
  | cons a l ih =>
    intro x hx
    rw [List.takeWhile_cons] at hx
    split at hx
    · rcases List.mem_cons.mp hx with rfl | hx
      · exact ⟨by assumption, List.mem_cons_self⟩
      · exact ⟨(ih x hx).1, List.mem_cons_of_mem _ (ih x hx).2⟩
    · simp at hx

theorem ptOf_sound (T : Truth ι) (pd : PD ι ℝ) (hs : SoundXY T pd) (i : ι) (h : (pd i).bxy = true) :
    ptOf (pd i) = tp T i := by
  unfold ptOf tp
  rw [(hs i h).1, (hs i h).2]

theorem orientation_nil (fuel : Nat) : (orientation fuel ([] : List (ℝ × ℝ))).2 = 0 := by
  simp [orientation, orientationOfShifts]

/-- Orientation::orientation on the run of an unoriented set: if it uses a direction at all it returns the true
    orientation -/
theorem orientRun_exact (T : Truth ι) (tori : Nat → ℝ) (n : Nat) (pd : PD ι ℝ) (hs : SoundXY T pd) (k : Nat) (f : ι)
    (run : List (SMo ι ℝ))
    (hrun : ∀ x ∈ run, ∀ f' t v, x.o = .direction f' t v → f' = f ∧ DirOK T (tori k) f' t v)
    (hpos : 0 < (orientRun (n + 1) pd f run).2) : (orientRun (n + 1) pd f run).1 = tori k := by
  unfold orientRun at hpos ⊢
  split_ifs at hpos ⊢ with hf
  · generalize hd : List.filterMap _ run = dirs at hpos ⊢
    by_cases hne : dirs = []
    · rw [hne, orientation_nil] at hpos; exact absurd hpos (lt_irrefl _)
    · obtain ⟨x0, hx0⟩ := List.exists_mem_of_ne_nil _ hne
      have hall : ∀ p ∈ dirs, p.2 = p.1 - tori k ∨ p.2 = p.1 - tori k + 2 * π := by
        intro p hp
        rw [← hd, List.mem_filterMap] at hp
        obtain ⟨x, hx, hg⟩ := hp
        split at hg
        · rename_i f' t v ho
          split_ifs at hg with ht
          simp only [Option.some.injEq] at hg
          obtain ⟨rfl, hok⟩ := hrun x hx f' t v ho
          rw [← hg, ptOf_sound T pd hs _ hf, ptOf_sound T pd hs t ht]
          exact hok.val
        · simp at hg
      have hor : ∃ f' t v x, x ∈ run ∧ x.o = .direction f' t v := by
        rw [← hd, List.mem_filterMap] at hx0
        obtain ⟨x, hx, hg⟩ := hx0
        split at hg
        · rename_i f' t v ho; exact ⟨f', t, v, x, hx, ho⟩
        · simp at hg
      obtain ⟨f', t, v, x, hx, ho⟩ := hor
      have hok := (hrun x hx f' t v ho).2
      rw [orientation_consistent n (tori k) dirs hne hok.o0 hok.o2 hall]
  · simp at hpos

/-- Orientation::add_all sets only true orientations -/
theorem addAll_keep (T : Truth ι) (tori : Nat → ℝ) (fixed : Nat → Prop) (sm0 : List (SMo ι ℝ))
    (hex : ExactSM T tori fixed sm0) (fuel : Nat) (pd : PD ι ℝ) (hs : SoundXY T pd) :
    ∀ (n : Nat) (sm : List (SMo ι ℝ)), (∀ e ∈ sm, e ∈ sm0) → ∀ oris, OriInv tori fixed oris →
      OriInv tori fixed (addAll (fuel + 1) pd n sm oris) := by
  intro n
  induction n with
  | zero => intro sm _ oris h; simpa [addAll] using h
  | succ n ih =>
    intro sm hsub oris hinv
    cases sm with
    | nil => simpa [addAll] using hinv
    | cons e rest =>
      have hdrop : ∀ x ∈ (e :: rest).dropWhile (fun x => x.cl == e.cl), x ∈ sm0 :=
        fun x hx => hsub x ((List.dropWhile_sublist _).subset hx)
      have hrest : ∀ x ∈ rest, x ∈ sm0 := fun x hx => hsub x (List.mem_cons_of_mem _ hx)
      unfold addAll
      split
      · rename_i f t v ho
        dsimp only
        split
        · exact ih _ hdrop oris hinv
        · rename_i hnone
          apply ih _ hdrop
          split_ifs with hpos
          · have hnf : ¬ fixed e.cl := by
              intro hf
              have := hinv.2 e.cl hf
              rw [hnone] at this; simp at this
            have := orientRun_exact T tori fuel pd hs e.cl f
              ((e :: rest).takeWhile (fun x => x.cl == e.cl)) (by
                intro x hx f' t' v' hox
                obtain ⟨hcl, hmem⟩ := mem_takeWhile _ _ x hx
                have hcl' : x.cl = e.cl := by simpa using hcl
                have hxe := hex.station x (hsub x hmem) e (hsub e List.mem_cons_self) hcl' (by rw [hcl']; exact hnf)
                  f' t' v' f t v hox ho
                refine ⟨hxe, ?_⟩
                have := hex.dir x (hsub x hmem) f' t' v' hox
                rw [hcl'] at this; exact this) hpos
            rw [this]
            exact oriInv_set tori fixed oris e.cl hinv
          · exact hinv
      · exact ih _ hrest oris hinv

/-! ### the selection loop of ApproxPoint::reset -/

/-- what the selection loop puts into `sm_s` -/
def selS (pd : PD ι ℝ) (cb : ι) (e : SMo ι ℝ) : Option (Nat × ι × ℝ) :=
  match e.o with
  | .direction f t v => if f = cb ∧ (pd t).bxy = true then some (e.cl, t, v) else none
  | _ => none

theorem selStep_smS (pd : PD ι ℝ) (oris : List (Option ℝ)) (cb : ι) (s : Sel ι ℝ) (e : SMo ι ℝ) :
    (selStep pd oris cb s e).smS = s.smS ++ (selS pd cb e).toList := by
  obtain ⟨cl, o⟩ := e
  cases o <;> simp only [selStep, selS, HObs.from', HObs.to', Bool.and_true] <;> (repeat' split) <;> simp_all

theorem foldl_selStep_smS (pd : PD ι ℝ) (oris : List (Option ℝ)) (cb : ι) :
    ∀ (sm : List (SMo ι ℝ)) (s : Sel ι ℝ),
      (sm.foldl (selStep pd oris cb) s).smS = s.smS ++ sm.filterMap (selS pd cb) := by
  intro sm
  induction sm with
  | nil => intro s; simp
  | cons e rest ih =>
    intro s
    rw [List.foldl_cons, ih, selStep_smS, List.filterMap_cons]
    cases selS pd cb e <;> simp

theorem selS_some (pd : PD ι ℝ) (cb : ι) (e : SMo ι ℝ) (x : Nat × ι × ℝ) (h : selS pd cb e = some x) :
    e.o = .direction cb x.2.1 x.2.2 ∧ x.1 = e.cl ∧ (pd x.2.1).bxy = true := by
  unfold selS at h
  split at h
  · rename_i f t v ho
    split_ifs at h with c
    simp only [Option.some.injEq] at h
    subst h
    exact ⟨by rw [ho, c.1], rfl, c.2⟩
  · simp at h

/-- an entry of `sm_s` -/
def SOK (T : Truth ι) (tori : Nat → ℝ) (pd : PD ι ℝ) (cb : ι) (x : Nat × ι × ℝ) : Prop :=
  DirOK T (tori x.1) cb x.2.1 x.2.2 ∧ (pd x.2.1).bxy = true

def SSep (T : Truth ι) (cb : ι) (a b : Nat × ι × ℝ) : Prop :=
  a.1 = b.1 → Far (tp T a.2.1) (tp T b.2.1) ∧ bearing (tp T cb) (tp T a.2.1) ≠ bearing (tp T cb) (tp T b.2.1)

theorem smS_ok (T : Truth ι) (tori : Nat → ℝ) (fixed : Nat → Prop) (sm0 : List (SMo ι ℝ))
    (hex : ExactSM T tori fixed sm0) (pd : PD ι ℝ) (cb : ι) :
    (∀ x ∈ sm0.filterMap (selS pd cb), SOK T tori pd cb x) ∧ (sm0.filterMap (selS pd cb)).Pairwise (SSep T cb) := by
  constructor
  · intro x hx
    obtain ⟨e, he, hse⟩ := List.mem_filterMap.mp hx
    obtain ⟨ho, hcl, hb⟩ := selS_some pd cb e x hse
    refine ⟨?_, hb⟩
    rw [hcl]
    exact hex.dir e he _ _ _ ho
  · refine List.Pairwise.filterMap (selS pd cb) ?_ hex.sep
    intro a a' hR b hb b' hb'
    obtain ⟨ho, hcl, _⟩ := selS_some pd cb a b hb
    obtain ⟨ho', hcl', _⟩ := selS_some pd cb a' b' hb'
    intro hbb
    exact hR (by rw [← hcl, ← hcl', hbb]) cb _ _ _ _ ho ho'

/-- an entry of the distances of `sm_pom` -/
def DOK (T : Truth ι) (pd : PD ι ℝ) (cb : ι) (d : ι × ι × ℝ) : Prop :=
  d.2.2 = g2dDistance (tp T d.1) (tp T d.2.1) ∧
  ((d.1 = cb ∧ (pd d.2.1).bxy = true) ∨ (d.1 ≠ cb ∧ d.2.1 = cb ∧ (pd d.1).bxy = true))

/-- an angle at `cb` (observed or made from two directions) -/
def UOK (T : Truth ι) (pd : PD ι ℝ) (cb : ι) (u : ι × ι × ℝ) : Prop :=
  u.2.2 = innerAngle (tp T cb) (tp T u.1) (tp T u.2.1) ∧ AngOK (tp T cb) (tp T u.1) (tp T u.2.1) ∧
  (pd u.1).bxy = true ∧ (pd u.2.1).bxy = true

/-- an outer bearing -/
def OOK (T : Truth ι) (pd : PD ι ℝ) (cb : ι) (x : ι × ℝ) : Prop :=
  x.2 = bearing (tp T x.1) (tp T cb) ∧ Sight (tp T x.1) (tp T cb) ∧ (pd x.1).bxy = true

structure SelInv (T : Truth ι) (pd : PD ι ℝ) (cb : ι) (s : Sel ι ℝ) : Prop where
  d : ∀ x ∈ s.pomD, DOK T pd cb x
  a : ∀ x ∈ s.pomA, UOK T pd cb x
  o : ∀ x ∈ s.outS, OOK T pd cb x

theorem normRad_eq_of (x β : ℝ) (h : x = β) (h0 : 0 ≤ β) (h2 : β < 2 * π) : normRad x = β := by
  rw [h]; exact normRad_id β h0 h2

/-- `makeBearing(Angle)`: the outer bearing from the stand-point of an angle one arm of which ends at `cb` -/
theorem makeBearingA_exact (T : Truth ι) (pd : PD ι ℝ) (hs : SoundXY T pd) (cb f bs fs : ι) (v : ℝ)
    (ha : AngExact T f bs fs v) (hf : (pd f).bxy = true)
    (hc : (bs = cb ∧ (pd fs).bxy = true) ∨ (fs = cb ∧ (pd bs).bxy = true)) :
    normRad (makeBearingA pd cb f bs fs v) = bearing (tp T f) (tp T cb) := by
  have hp := Real.pi_pos
  have hne : bs ≠ fs := by
    intro e
    have := ha.far
    rw [e] at this
    exact not_far_self _ this
  have rb := bearing_range (tp T f) (tp T bs)
  have rf := bearing_range (tp T f) (tp T fs)
  have hv := ha.val
  rw [innerAngle_eq] at hv
  unfold makeBearingA
  by_cases hb : bs = cb
  · have hfs : (pd fs).bxy = true := by
      rcases hc with h | h
      · exact h.2
      · exact absurd (hb.trans h.1.symm) hne
    simp only [hb, if_true, add_eq, neg_eq, lt_eq, zero_eq, twoPi_eq, le_eq, sub_eq]
    rw [ptOf_sound T pd hs f hf, ptOf_sound T pd hs fs hfs]
    rw [hb] at hv rb
    apply normRad_eq_of _ _ _ rb.1 rb.2
    rw [hv]
    split_ifs <;> linarith
  · have hfc : fs = cb ∧ (pd bs).bxy = true := by
      rcases hc with h | h
      · exact absurd h.1 hb
      · exact h
    simp only [hb, if_false, add_eq, neg_eq, lt_eq, zero_eq, twoPi_eq, le_eq, sub_eq]
    rw [ptOf_sound T pd hs f hf, ptOf_sound T pd hs bs hfc.2]
    rw [hfc.1] at hv rf
    apply normRad_eq_of _ _ _ rf.1 rf.2
    rw [hv]
    split_ifs <;> linarith

theorem selStep_inv (T : Truth ι) (tori : Nat → ℝ) (pd : PD ι ℝ) (hs : SoundXY T pd) (oris : List (Option ℝ))
    (ho : OriOK tori oris) (cb : ι) (s : Sel ι ℝ) (e : SMo ι ℝ)
    (hdir : ∀ f t v, e.o = .direction f t v → DirOK T (tori e.cl) f t v)
    (hdist : ∀ f t v, e.o = .distance f t v → v = g2dDistance (tp T f) (tp T t))
    (hang : ∀ f bs fs v, e.o = .angle f bs fs v → AngExact T f bs fs v)
    (h : SelInv T pd cb s) : SelInv T pd cb (selStep pd oris cb s e) := by
  obtain ⟨cl, o⟩ := e
  cases o with
  | direction f t v =>
    have hd := hdir f t v rfl
    simp only [selStep, HObs.from', HObs.to', Bool.and_true]
    split_ifs with c1 c2 c3
    · exact ⟨h.d, h.a, h.o⟩
    · refine ⟨h.d, h.a, ?_⟩
      intro x hx
      rcases List.mem_append.mp hx with hx | hx
      · exact h.o x hx
      · simp only [List.mem_singleton] at hx
        subst hx
        simp only [Bool.and_eq_true] at c2
        obtain ⟨o, ho'⟩ := Option.isSome_iff_exists.mp c2.2
        have e1 : o = tori cl := ho cl o ho'
        subst c3
        have rb := bearing_range (tp T f) (tp T t)
        refine ⟨?_, hd.sight, c2.1⟩
        simp only [ho', Option.getD_some]
        rw [e1]
        exact makeBearingD_exact _ _ _ rb.1 rb.2 hd.val
    · exact h
    · exact h
  | distance f t v =>
    have hd := hdist f t v rfl
    simp only [selStep, HObs.from', HObs.to', Bool.and_true]
    split_ifs with c1 c2 c3
    · refine ⟨?_, h.a, h.o⟩
      intro x hx
      rcases List.mem_append.mp hx with hx | hx
      · exact h.d x hx
      · simp only [List.mem_singleton] at hx
        subst hx
        exact ⟨hd, Or.inl c1⟩
    · refine ⟨?_, h.a, h.o⟩
      intro x hx
      rcases List.mem_append.mp hx with hx | hx
      · exact h.d x hx
      · simp only [List.mem_singleton] at hx
        subst hx
        refine ⟨hd, Or.inr ⟨?_, c3, c2⟩⟩
        intro e
        apply c1
        refine ⟨e, ?_⟩
        rw [c3, ← e]; exact c2
    · exact h
    · exact h
  | angle f bs fs v =>
    have ha := hang f bs fs v rfl
    simp only [selStep, HObs.from', HObs.to', Bool.and_true]
    split_ifs with c1 c2 c3
    · refine ⟨h.d, ?_, h.o⟩
      intro x hx
      rcases List.mem_append.mp hx with hx | hx
      · exact h.a x hx
      · simp only [List.mem_singleton] at hx
        subst hx
        obtain ⟨rfl, c1⟩ := c1
        simp only [Bool.and_eq_true] at c1
        exact ⟨ha.val, ⟨sight_far _ _ ha.s1, sight_far _ _ ha.s2, ha.far⟩, c1.1, c1.2⟩
    · refine ⟨h.d, h.a, ?_⟩
      intro x hx
      rcases List.mem_append.mp hx with hx | hx
      · exact h.o x hx
      · simp only [List.mem_singleton] at hx
        subst hx
        refine ⟨makeBearingA_exact T pd hs cb f bs fs v ha c2 c3, ?_, c2⟩
        rcases c3 with c | c
        · rw [← c.1]; exact ha.s1
        · rw [← c.1]; exact ha.s2
    · exact h
    · exact h
  | azimuth f t v => simp only [selStep]; split_ifs <;> exact h
  | sdistance f t v _ _ => simp only [selStep]; split_ifs <;> exact h
  | zangle f t v => simp only [selStep]; split_ifs <;> exact h

theorem foldl_selStep_inv (T : Truth ι) (tori : Nat → ℝ) (fixed : Nat → Prop) (sm0 : List (SMo ι ℝ))
    (hex : ExactSM T tori fixed sm0) (pd : PD ι ℝ) (hs : SoundXY T pd) (oris : List (Option ℝ))
    (ho : OriOK tori oris) (cb : ι) :
    ∀ (sm : List (SMo ι ℝ)) (s : Sel ι ℝ), (∀ e ∈ sm, e ∈ sm0) → SelInv T pd cb s →
      SelInv T pd cb (sm.foldl (selStep pd oris cb) s) := by
  intro sm
  induction sm with
  | nil => intro s _ h; simpa using h
  | cons e rest ih =>
    intro s hsub h
    rw [List.foldl_cons]
    have he := hsub e List.mem_cons_self
    exact ih _ (fun x hx => hsub x (List.mem_cons_of_mem _ hx))
      (selStep_inv T tori pd hs oris ho cb s e (hex.dir e he) (hex.dist e he) (hex.ang e he) h)

/-! ### makeAngle and ArrangeObservations -/

/-- `makeAngle`: every pair of directions of one set gives the exact, non-zero inner angle -/
theorem makeAngles_ok (T : Truth ι) (tori : Nat → ℝ) (pd : PD ι ℝ) (cb : ι) :
    ∀ l : List (Nat × ι × ℝ), (∀ x ∈ l, SOK T tori pd cb x) → l.Pairwise (SSep T cb) →
      ∀ u ∈ makeAngles l, UOK T pd cb u ∧ u.2.2 ≠ 0 := by
  intro l
  induction l with
  | nil => intro _ _ u hu; simp [makeAngles] at hu
  | cons a rest ih =>
    intro hl hp u hu
    rw [List.pairwise_cons] at hp
    unfold makeAngles at hu
    rcases List.mem_append.mp hu with hu | hu
    · obtain ⟨b, hb, rfl⟩ := List.mem_map.mp hu
      rw [List.mem_filter] at hb
      obtain ⟨hbr, hcl⟩ := hb
      have hcl' : b.1 = a.1 := by simpa using hcl
      obtain ⟨hda, hka⟩ := hl a List.mem_cons_self
      obtain ⟨hdb, hkb⟩ := hl b (List.mem_cons_of_mem _ hbr)
      rw [hcl'] at hdb
      obtain ⟨hfar, hbne⟩ := hp.1 b hbr hcl'.symm
      have ra := bearing_range (tp T cb) (tp T a.2.1)
      have rb := bearing_range (tp T cb) (tp T b.2.1)
      have hval : normRad (if b.2.2 - a.2.2 < 0 then b.2.2 - a.2.2 + 2 * π else b.2.2 - a.2.2) =
          innerAngle (tp T cb) (tp T a.2.1) (tp T b.2.1) := by
        rw [innerAngle_eq]
        exact angle_of_dirs _ _ (tori a.1) _ _ ra.1 ra.2 rb.1 rb.2 hda.v0 hda.v2 hdb.v0 hdb.v2 hda.val hdb.val
      simp only [sub_eq, lt_eq, zero_eq, add_eq, twoPi_eq]
      refine ⟨⟨hval, ⟨sight_far _ _ hda.sight, sight_far _ _ hdb.sight, hfar⟩, hka, hkb⟩, ?_⟩
      rw [hval]
      exact innerAngle_ne_zero _ _ _ hbne
    · exact ih (fun x hx => hl x (List.mem_cons_of_mem _ hx)) hp.2 u hu

theorem arrDist_ok (T : Truth ι) (pd : PD ι ℝ) (hs : SoundXY T pd) (cb : ι) :
    ∀ (n : Nat) (l : List (ι × ι × ℝ)), (∀ d ∈ l, DOK T pd cb d) →
      ∀ a ∈ arrDist cb n l, ArrOK (tp T cb) pd a := by
  intro n
  induction n with
  | zero => intro l _ a ha; simp [arrDist] at ha
  | succ n ih =>
    intro l hl a ha
    cases l with
    | nil => simp [arrDist] at ha
    | cons d rest =>
      unfold arrDist at ha
      rcases List.mem_cons.mp ha with rfl | ha
      · obtain ⟨hv, hk⟩ := hl d List.mem_cons_self
        have hmed : median (d.2.2 :: (rest.filter (sameDist d)).map (·.2.2)) = d.2.2 := by
          apply median_const _ _ (by simp)
          intro x hx
          rcases List.mem_cons.mp hx with rfl | hx
          · rfl
          · obtain ⟨y, hy, rfl⟩ := List.mem_map.mp hx
            rw [List.mem_filter] at hy
            obtain ⟨hyr, hsame⟩ := hy
            have hvy := (hl y (List.mem_cons_of_mem _ hyr)).1
            unfold sameDist at hsame
            simp only [Bool.or_eq_true, Bool.and_eq_true, decide_eq_true_eq] at hsame
            rw [hvy, hv]
            rcases hsame with ⟨e1, e2⟩ | ⟨e1, e2⟩
            · rw [e1, e2]
            · rw [e1, e2]; exact g2d_symm _ _
        rw [hmed]
        simp only [ArrOK]
        rcases hk with ⟨e, hb⟩ | ⟨ne, e, hb⟩
        · rw [if_pos e, ptOf_sound T pd hs _ hb, hv, e]
        · rw [if_neg ne, ptOf_sound T pd hs _ hb, hv, e]; exact g2d_symm _ _
      · exact ih _ (fun x hx => hl x (List.mem_cons_of_mem _ (List.mem_filter.mp hx).1)) a ha

theorem arrDir_ok (T : Truth ι) (pd : PD ι ℝ) (hs : SoundXY T pd) (cb : ι) :
    ∀ (n : Nat) (l : List (ι × ℝ)), (∀ d ∈ l, OOK T pd cb d) →
      ∀ a ∈ arrDir n l, ArrOK (tp T cb) pd a := by
  intro n
  induction n with
  | zero => intro l _ a ha; simp [arrDir] at ha
  | succ n ih =>
    intro l hl a ha
    cases l with
    | nil => simp [arrDir] at ha
    | cons d rest =>
      unfold arrDir at ha
      rcases List.mem_cons.mp ha with rfl | ha
      · obtain ⟨hv, hsi, hk⟩ := hl d List.mem_cons_self
        have hmed : median (d.2 :: (rest.filter (fun x => decide (x.1 = d.1))).map (·.2)) = d.2 := by
          apply median_const _ _ (by simp)
          intro x hx
          rcases List.mem_cons.mp hx with rfl | hx
          · rfl
          · obtain ⟨y, hy, rfl⟩ := List.mem_map.mp hx
            rw [List.mem_filter] at hy
            obtain ⟨hyr, hsame⟩ := hy
            have hvy := (hl y (List.mem_cons_of_mem _ hyr)).1
            simp only [decide_eq_true_eq] at hsame
            rw [hvy, hv, hsame]
        rw [hmed]
        have rb := bearing_range (tp T d.1) (tp T cb)
        simp only [ArrOK]
        rw [ptOf_sound T pd hs _ hk, hv, normRad_id _ rb.1 rb.2]
        exact ⟨rfl, hsi⟩
      · exact ih _ (fun x hx => hl x (List.mem_cons_of_mem _ (List.mem_filter.mp hx).1)) a ha

/-- `u_mer` of a matching angle made from directions (non-zero) is the value of `u` -/
theorem angVal_same (T : Truth ι) (pd : PD ι ℝ) (cb : ι) (u x : ι × ι × ℝ) (hu : UOK T pd cb u)
    (hx : UOK T pd cb x) (hx0 : x.2.2 ≠ 0) (hsame : sameAng u x = true) : angVal u x = u.2.2 := by
  unfold sameAng at hsame
  simp only [Bool.or_eq_true, Bool.and_eq_true, decide_eq_true_eq] at hsame
  unfold angVal
  rcases hsame with ⟨e1, e2⟩ | ⟨e1, e2⟩
  · rw [if_pos e1, hx.1, hu.1, e1, e2]
  · by_cases e : u.1 = x.1
    · exfalso
      have := hx.2.1.2.2
      rw [← e, ← e1] at this
      exact not_far_self _ this
    · rw [if_neg e, hu.1, e1, e2]
      simp only [sub_eq, twoPi_eq]
      rw [hx.1] at hx0 ⊢
      exact (innerAngle_swap _ _ _ hx0).symm

/-- `UU`: the arms are swapped when the angle is ≥ π -/
theorem mkAng_ok (T : Truth ι) (pd : PD ι ℝ) (hs : SoundXY T pd) (cb : ι) (u : ι × ι × ℝ) (hu : UOK T pd cb u) :
    ArrOK (tp T cb) pd (mkAng u u.2.2) := by
  have hp := Real.pi_pos
  obtain ⟨hv, ⟨f1, f2, f12⟩, k1, k2⟩ := hu
  have r := innerAngle_range (tp T cb) (tp T u.1) (tp T u.2.1)
  unfold mkAng
  simp only [pi_eq, le_eq, sub_eq, twoPi_eq]
  split_ifs with c
  · simp only [ArrOK]
    rw [ptOf_sound T pd hs _ k1, ptOf_sound T pd hs _ k2]
    have hne : innerAngle (tp T cb) (tp T u.1) (tp T u.2.1) ≠ 0 := by
      rw [← hv]; intro e; rw [e] at c; linarith
    refine ⟨?_, f2, f1, far_symm _ _ f12⟩
    rw [innerAngle_swap _ _ _ hne, ← hv]
    rw [hv] at c ⊢
    exact normRad_id _ (by linarith) (by linarith)
  · simp only [ArrOK]
    rw [ptOf_sound T pd hs _ k1, ptOf_sound T pd hs _ k2]
    refine ⟨?_, f1, f2, f12⟩
    rw [hv]
    exact normRad_id _ r.1 r.2

theorem median_group (T : Truth ι) (pd : PD ι ℝ) (cb : ι) (u : ι × ι × ℝ) (hu : UOK T pd cb u)
    (l : List (ι × ι × ℝ)) (hl : ∀ x ∈ l, UOK T pd cb x ∧ x.2.2 ≠ 0) :
    median (u.2.2 :: (l.filter (sameAng u)).map (angVal u)) = u.2.2 := by
  apply median_const _ _ (by simp)
  intro x hx
  rcases List.mem_cons.mp hx with rfl | hx
  · rfl
  · obtain ⟨y, hy, rfl⟩ := List.mem_map.mp hx
    rw [List.mem_filter] at hy
    exact angVal_same T pd cb u y hu (hl y hy.1).1 (hl y hy.1).2 hy.2

theorem arrAngObs_ok (T : Truth ι) (pd : PD ι ℝ) (hs : SoundXY T pd) (cb : ι) :
    ∀ (l smU : List (ι × ι × ℝ)), (∀ u ∈ l, UOK T pd cb u) → (∀ x ∈ smU, UOK T pd cb x ∧ x.2.2 ≠ 0) →
      (∀ a ∈ (arrAngObs l smU).1, ArrOK (tp T cb) pd a) ∧
      (∀ x ∈ (arrAngObs l smU).2, UOK T pd cb x ∧ x.2.2 ≠ 0) := by
  intro l
  induction l with
  | nil => intro smU _ h; simpa [arrAngObs] using h
  | cons u rest ih =>
    intro smU hl hU
    have hu := hl u List.mem_cons_self
    obtain ⟨i1, i2⟩ := ih (smU.filter (fun x => !sameAng u x)) (fun x hx => hl x (List.mem_cons_of_mem _ hx))
      (fun x hx => hU x (List.mem_filter.mp hx).1)
    unfold arrAngObs
    dsimp only
    refine ⟨?_, i2⟩
    intro a ha
    rcases List.mem_cons.mp ha with rfl | ha
    · rw [median_group T pd cb u hu smU hU]
      exact mkAng_ok T pd hs cb u hu
    · exact i1 a ha

theorem arrAngU_ok (T : Truth ι) (pd : PD ι ℝ) (hs : SoundXY T pd) (cb : ι) :
    ∀ (n : Nat) (l : List (ι × ι × ℝ)), (∀ x ∈ l, UOK T pd cb x ∧ x.2.2 ≠ 0) →
      ∀ a ∈ arrAngU n l, ArrOK (tp T cb) pd a := by
  intro n
  induction n with
  | zero => intro l _ a ha; simp [arrAngU] at ha
  | succ n ih =>
    intro l hl a ha
    cases l with
    | nil => simp [arrAngU] at ha
    | cons u rest =>
      unfold arrAngU at ha
      rcases List.mem_cons.mp ha with rfl | ha
      · have hu := (hl u List.mem_cons_self).1
        rw [median_group T pd cb u hu rest (fun x hx => hl x (List.mem_cons_of_mem _ hx))]
        exact mkAng_ok T pd hs cb u hu
      · exact ih _ (fun x hx => hl x (List.mem_cons_of_mem _ (List.mem_filter.mp hx).1)) a ha

/-- ApproxPoint::reset hands exact observations to the calculation -/
theorem arrange_exact (T : Truth ι) (tori : Nat → ℝ) (fixed : Nat → Prop) (sm : List (SMo ι ℝ))
    (hex : ExactSM T tori fixed sm) (pd : PD ι ℝ) (hs : SoundXY T pd) (oris : List (Option ℝ))
    (ho : OriOK tori oris) (cb : ι) : ∀ a ∈ arrange pd oris sm cb, ArrOK (tp T cb) pd a := by
  have hinv := foldl_selStep_inv T tori fixed sm hex pd hs oris ho cb sm {} (fun _ h => h)
    ⟨by simp, by simp, by simp⟩
  have hS := foldl_selStep_smS pd oris cb sm {}
  simp only [List.nil_append] at hS
  obtain ⟨s1, s2⟩ := smS_ok T tori fixed sm hex pd cb
  rw [← hS] at s1 s2
  have hU := makeAngles_ok T tori pd cb _ s1 s2
  obtain ⟨a1, a2⟩ := arrAngObs_ok T pd hs cb _ _ hinv.a hU
  intro a ha
  unfold arrange at ha
  dsimp only at ha
  simp only [List.mem_append] at ha
  rcases ha with ((ha | ha) | ha) | ha
  · exact arrDist_ok T pd hs cb _ _ hinv.d a ha
  · exact arrDir_ok T pd hs cb _ _ hinv.o a ha
  · exact a1 a ha
  · exact arrAngU_ok T pd hs cb _ _ a2 a ha

/-- ApproxPoint::reset on an exact observation list -/
theorem resetOK_of_exactSM (T : Truth ι) (tori : Nat → ℝ) (fixed : Nat → Prop) (sm : List (SMo ι ℝ))
    (hex : ExactSM T tori fixed sm) (n : Nat) : ResetOK T (n + 1) sm (OriInv tori fixed) where
  keep := fun pd oris hs hi => addAll_keep T tori fixed sm hex n pd hs _ sm (fun _ h => h) oris hi
  exact := fun pd oris cb hs hi => arrange_exact T tori fixed sm hex pd hs oris hi.1 cb

/-! ### from the clusters to the list `SM` (`copy_horizontal`) -/

/-- the Directions, Distances and Angles of one observation list (a cluster) with true orientation `o` are exact;
    `sep`: REQUIRED, see `DirSep` (positions of the list: a direction is not compared with itself) -/
structure HorizOK (T : Truth ι) (o : ℝ) (obs : List (HObs ι ℝ)) : Prop where
  dir : ∀ f t v, HObs.direction f t v ∈ obs → DirOK T o f t v
  dist : ∀ f t v, HObs.distance f t v ∈ obs → v = g2dDistance (tp T f) (tp T t)
  ang : ∀ f bs fs v, HObs.angle f bs fs v ∈ obs → AngExact T f bs fs v
  sep : obs.Pairwise (DirSep T)

/-- all Directions of the list are observed at one point (a StandPoint cluster): Orientation::orientation uses the
    `from` of the first Direction of the cluster for all of them -/
def SameStation (obs : List (HObs ι ℝ)) : Prop :=
  ∀ f t v f' t' v', HObs.direction f t v ∈ obs → HObs.direction f' t' v' ∈ obs → f = f'

/-- what `copy_horizontal` takes from cluster `k` -/
def block (k : Nat) (obs : List (HObs ι ℝ)) : List (SMo ι ℝ) := (obs.filter HObs.isHoriz).map (fun o => ⟨k, o⟩)

theorem copyFrom_cons (k : Nat) (c : Cl ι ℝ) (cs : List (Cl ι ℝ)) :
    copyFrom k (c :: cs) = block k c.obs ++ copyFrom (k + 1) cs := rfl

theorem mem_block (k : Nat) (obs : List (HObs ι ℝ)) (e : SMo ι ℝ) (h : e ∈ block k obs) : e.cl = k ∧ e.o ∈ obs := by
  unfold block at h
  obtain ⟨o, ho, rfl⟩ := List.mem_map.mp h
  exact ⟨rfl, (List.mem_filter.mp ho).1⟩

theorem exactSM_block (T : Truth ι) (tori : Nat → ℝ) (fixed : Nat → Prop) (k : Nat) (obs : List (HObs ι ℝ))
    (h : HorizOK T (tori k) obs) (hst : ¬ fixed k → SameStation obs) : ExactSM T tori fixed (block k obs) where
  dir := fun e he f t v ho => by
    obtain ⟨hk, hm⟩ := mem_block k obs e he
    rw [hk]; rw [ho] at hm; exact h.dir f t v hm
  dist := fun e he f t v ho => by
    obtain ⟨_, hm⟩ := mem_block k obs e he
    rw [ho] at hm; exact h.dist f t v hm
  ang := fun e he f bs fs v ho => by
    obtain ⟨_, hm⟩ := mem_block k obs e he
    rw [ho] at hm; exact h.ang f bs fs v hm
  station := fun e he e' he' _ hnf f t v f' t' v' ho ho' => by
    obtain ⟨hk, hm⟩ := mem_block k obs e he
    obtain ⟨_, hm'⟩ := mem_block k obs e' he'
    rw [ho] at hm; rw [ho'] at hm'
    rw [hk] at hnf
    exact hst hnf f t v f' t' v' hm hm'
  sep := by
    unfold block
    rw [List.pairwise_map]
    refine List.Pairwise.imp ?_ (h.sep.sublist List.filter_sublist)
    intro a b hab _
    exact hab

theorem exactSM_nil (T : Truth ι) (tori : Nat → ℝ) (fixed : Nat → Prop) : ExactSM T tori fixed [] :=
  ⟨by simp, by simp, by simp, by simp, List.Pairwise.nil⟩

theorem exactSM_append (T : Truth ι) (tori : Nat → ℝ) (fixed : Nat → Prop) (s1 s2 : List (SMo ι ℝ))
    (h1 : ExactSM T tori fixed s1) (h2 : ExactSM T tori fixed s2) (hd : ∀ e ∈ s1, ∀ e' ∈ s2, e.cl ≠ e'.cl) :
    ExactSM T tori fixed (s1 ++ s2) where
  dir := fun e he => by
    rcases List.mem_append.mp he with h | h
    · exact h1.dir e h
    · exact h2.dir e h
  dist := fun e he => by
    rcases List.mem_append.mp he with h | h
    · exact h1.dist e h
    · exact h2.dist e h
  ang := fun e he => by
    rcases List.mem_append.mp he with h | h
    · exact h1.ang e h
    · exact h2.ang e h
  station := fun e he e' he' hcl => by
    rcases List.mem_append.mp he with h | h <;> rcases List.mem_append.mp he' with h' | h'
    · exact h1.station e h e' h' hcl
    · exact absurd hcl (hd e h e' h')
    · exact absurd hcl.symm (hd e' h' e h)
    · exact h2.station e h e' h' hcl
  sep := by
    rw [List.pairwise_append]
    exact ⟨h1.sep, h2.sep, fun a ha b hb hcl => absurd hcl (hd a ha b hb)⟩

/-- `copy_horizontal` of exact clusters is an exact list; its cluster indices -/
theorem exactSM_copyFrom (T : Truth ι) (tori : Nat → ℝ) (fixed : Nat → Prop) :
    ∀ (cls : List (Cl ι ℝ)) (k0 : Nat),
      (∀ j c, cls[j]? = some c → HorizOK T (tori (k0 + j)) c.obs ∧ (¬ fixed (k0 + j) → SameStation c.obs)) →
      ExactSM T tori fixed (copyFrom k0 cls) ∧ ∀ e ∈ copyFrom k0 cls, k0 ≤ e.cl ∧ e.cl < k0 + cls.length := by
  intro cls
  induction cls with
  | nil => intro k0 _; exact ⟨exactSM_nil T tori fixed, by simp [copyFrom]⟩
  | cons c cs ih =>
    intro k0 h
    obtain ⟨i1, i2⟩ := ih (k0 + 1) (by
      intro j c' hj
      have := h (j + 1) c' (by simpa using hj)
      rwa [show k0 + (j + 1) = k0 + 1 + j by omega] at this)
    have h0 := h 0 c (by simp)
    rw [Nat.add_zero] at h0
    have hb := exactSM_block T tori fixed k0 c.obs h0.1 h0.2
    rw [copyFrom_cons]
    constructor
    · apply exactSM_append T tori fixed _ _ hb i1
      intro e he e' he'
      have := (mem_block k0 c.obs e he).1
      have := (i2 e' he').1
      omega
    · intro e he
      rcases List.mem_append.mp he with he | he
      · have := (mem_block k0 c.obs e he).1
        simp only [List.length_cons]; omega
      · have := i2 e he
        simp only [List.length_cons]; omega

/-! ### the hypothesis on the clusters -/

/-- two Azimuths (different positions of `ObservationData`) that share an end point `p` (as stand-point or target —
    AcordIntersection turns an azimuth observed at an unknown point round): the other ends `q1`, `q2` are not
    closer than 1e-6 to each other and not in the same direction from `p`.  REQUIRED for the same reason as `DirSep`:
    all azimuths become directions of ONE temporary oriented set; in particular no azimuth is observed twice. -/
def AzSep (T : Truth ι) (a b : HObs ι ℝ) : Prop :=
  ∀ f1 t1 v1 f2 t2 v2, a = .azimuth f1 t1 v1 → b = .azimuth f2 t2 v2 →
    ∀ p q1 q2, ((f1 = p ∧ t1 = q1) ∨ (t1 = p ∧ f1 = q1)) → ((f2 = p ∧ t2 = q2) ∨ (t2 = p ∧ f2 = q2)) →
      Far (tp T q1) (tp T q2) ∧ bearing (tp T p) (tp T q1) ≠ bearing (tp T p) (tp T q2)

/-- every observation of the clusters is its function of the true coordinates `T`; `tori k` = the true orientation of
    cluster `k` (position in `cls` = the cluster index `copy_horizontal` attaches), `xN` = `xNorthAngle()`.
    * `horiz`   — cluster `k`: every Direction `f → t`, value `v`: `0 ≤ v < 2π`, `0 ≤ tori k < 2π`,
                  `v = bearing − tori k` or `… + 2π`, sight > 1e-6 (`DirOK`); every Distance is the distance of the
                  true points; every Angle is the inner angle, arms > 1e-6, targets ≥ 1e-6 apart (`AngExact`);
                  two Directions (different positions) observed at one point: targets ≥ 1e-6 apart and not in one
                  direction from the stand-point (`DirSep`, REQUIRED: see there)
    * `station` — all Directions of a cluster are observed at one point
    * `own`     — an orientation a cluster already has is the true one
    * `az`      — every Azimuth points, with `xN`, from `f` at `t` (`AzDir`), value in [0, 2π), sight > 1e-6
    * `azSep`   — see `AzSep` (REQUIRED)
    * `slopeZ`  — a slope distance and a zenith angle of the same cluster and the same sight belong to one line of
                  sight whose horizontal part is the true horizontal distance (either face)
    * `slopeH`  — a slope distance is the distance in space between the instrument (`from_dh` above the mark of `f`) and
                  the target (`to_dh` above the mark of `t`) — fix 863dd00; used with both heights known -/
structure ExactCl (T : Truth ι) (xN : ℝ) (tori : Nat → ℝ) (cls : List (Cl ι ℝ)) : Prop where
  horiz : ∀ k c, cls[k]? = some c → HorizOK T (tori k) c.obs
  station : ∀ c ∈ cls, SameStation c.obs
  own : ∀ k c o, cls[k]? = some c → c.ori = some o → o = tori k
  az : ∀ c ∈ cls, ∀ f t v, HObs.azimuth f t v ∈ c.obs →
    AzDir T xN f t v ∧ 0 ≤ v ∧ v < 2 * π ∧ Sight (tp T f) (tp T t)
  azSep : (cls.flatMap (·.obs)).Pairwise (AzSep T)
  slopeZ : ∀ c ∈ cls, ∀ f t v a b zv, HObs.sdistance f t v a b ∈ c.obs → HObs.zangle f t zv ∈ c.obs →
    ∃ dz, IsZenithObs (hd T f t) dz v zv
  slopeH : ∀ c ∈ cls, ∀ f t v a b, HObs.sdistance f t v a b ∈ c.obs →
    v * v = hd T f t * hd T f t + ((T.z f + a) - (T.z t + b)) * ((T.z f + a) - (T.z t + b))

theorem resetOK_imp (T : Truth ι) (fuel : Nat) (sm : List (SMo ι ℝ)) (I J : List (Option ℝ) → Prop)
    (h : ResetOK T fuel sm I) (h1 : ∀ o, J o → I o)
    (h2 : ∀ pd o, J o → I (addAll fuel pd (sm.length + 1) sm o) → J (addAll fuel pd (sm.length + 1) sm o)) :
    ResetOK T fuel sm J where
  keep := fun pd oris hs hj => h2 pd oris hj (h.keep pd oris hs (h1 _ hj))
  exact := fun pd oris cb hs hj => h.exact pd oris cb hs (h1 _ hj)

/-- ApproxPoint::reset on exact clusters -/
theorem reset_ok (T : Truth ι) (xN : ℝ) (tori : Nat → ℝ) (cls : List (Cl ι ℝ)) (n : Nat)
    (h : ExactCl T xN tori cls) : ResetOK T (n + 1) (copyHorizontal cls) (OriOK tori) := by
  have hsm := (exactSM_copyFrom T tori (fun _ => False) cls 0 (by
    intro j c hj
    rw [Nat.zero_add]
    exact ⟨h.horiz j c hj, fun _ => h.station c (List.mem_of_getElem? hj)⟩)).1
  exact resetOK_imp T (n + 1) _ _ _ (resetOK_of_exactSM T tori _ _ hsm n)
    (fun o ho => ⟨ho, fun _ hf => absurd hf (by simp)⟩) (fun _ _ _ hi => hi.1)

theorem oriOK_init (T : Truth ι) (xN : ℝ) (tori : Nat → ℝ) (cls : List (Cl ι ℝ)) (h : ExactCl T xN tori cls) :
    OriOK tori (cls.map (·.ori)) := by
  intro k o hk
  unfold oriAt at hk
  rw [List.getD_eq_getElem?_getD, List.getElem?_map] at hk
  cases hc : cls[k]? with
  | none => rw [hc] at hk; simp at hk
  | some c =>
    rw [hc] at hk
    simp only [Option.map_some, Option.getD_some] at hk
    exact h.own k c o hc hk

/-! ### the temporary oriented stand-point of AcordIntersection::execute -/

/-- an exact azimuth in [0, 2π) over a sight longer than 1e-6 is an exact direction of a set oriented by `xN` -/
theorem dirOK_of_az (T : Truth ι) (xN : ℝ) (hx0 : 0 ≤ xN) (hx2 : xN < 2 * π) (f t : ι) (v : ℝ)
    (h : AzDir T xN f t v) (h0 : 0 ≤ v) (h2 : v < 2 * π) (hs : Sight (tp T f) (tp T t)) : DirOK T xN f t v := by
  have hp := Real.pi_pos
  refine ⟨h0, h2, hx0, hx2, ?_, hs⟩
  obtain ⟨px, py⟩ := sight_polar (tp T f) (tp T t) hs
  have hdd : Real.sqrt (((tp T t).y - (tp T f).y) * ((tp T t).y - (tp T f).y) +
      ((tp T t).x - (tp T f).x) * ((tp T t).x - (tp T f).x)) = hd T f t := by
    unfold hd; congr 1; ring
  rw [hdd] at px py
  have hpos : 0 < hd T f t := by
    rw [← hdd]; exact lt_trans (by norm_num) hs
  obtain ⟨a1, a2⟩ := h
  have hc : Real.cos (v + xN) = Real.cos (bearing (tp T f) (tp T t)) :=
    mul_left_cancel₀ hpos.ne' (by simp only [tp] at px; linarith)
  have hsn : Real.sin (v + xN) = Real.sin (bearing (tp T f) (tp T t)) :=
    mul_left_cancel₀ hpos.ne' (by simp only [tp] at py; linarith)
  have ha : ((v + xN : ℝ) : Real.Angle) = ((bearing (tp T f) (tp T t) : ℝ) : Real.Angle) :=
    Real.Angle.cos_sin_inj (by simpa using hc) (by simpa using hsn)
  obtain ⟨k, hk⟩ := Real.Angle.angle_eq_iff_two_pi_dvd_sub.mp ha
  have rb := bearing_range (tp T f) (tp T t)
  have hk1 : (-1 : ℝ) < k := by
    have : (-1 : ℝ) * π < k * π := by linarith
    exact lt_of_mul_lt_mul_right this hp.le
  have hk2 : (k : ℝ) < 2 := by
    have : (k : ℝ) * π < 2 * π := by linarith
    exact lt_of_mul_lt_mul_right this hp.le
  have hk1' : -1 < k := by exact_mod_cast hk1
  have hk2' : k < 2 := by exact_mod_cast hk2
  have hk' : k = 0 ∨ k = 1 := by omega
  rcases hk' with rfl | rfl
  · left; simp at hk; linarith
  · right; simp at hk; linarith

/-- where a direction of the temporary set comes from -/
theorem tempObs_src (pd : PD ι ℝ) (cl : List (HObs ι ℝ)) (o : HObs ι ℝ) (f t : ι) (v : ℝ)
    (h : HObs.direction f t v ∈ tempObs pd cl o) :
    (∃ v0, o = .azimuth f t v0 ∧ v = v0) ∨ (∃ v0, o = .azimuth t f v0 ∧ v = normRad (v0 + π)) := by
  cases o with
  | azimuth f0 t0 v0 =>
    simp only [tempObs] at h
    split_ifs at h with c1 c2
    · simp only [List.mem_singleton, HObs.direction.injEq] at h
      obtain ⟨rfl, rfl, rfl⟩ := h
      exact Or.inl ⟨v, rfl, rfl⟩
    · simp only [List.mem_singleton, HObs.direction.injEq] at h
      obtain ⟨rfl, rfl, rfl⟩ := h
      exact Or.inr ⟨v0, rfl, by simp only [add_eq, pi_eq]⟩
    · simp at h
  | sdistance f0 t0 v0 a0 b0 =>
    exfalso
    simp only [tempObs] at h
    rcases List.mem_append.mp h with h | h
    · obtain ⟨z, _, hg⟩ := List.mem_filterMap.mp h
      split at hg
      · split_ifs at hg; simp at hg
      · simp at hg
    · split_ifs at h <;> simp at h
  | direction _ _ _ => simp [tempObs] at h
  | distance _ _ _ => simp [tempObs] at h
  | angle _ _ _ _ => simp [tempObs] at h
  | zangle _ _ _ => simp [tempObs] at h

theorem tempObs_dir (T : Truth ι) (xN : ℝ) (hx0 : 0 ≤ xN) (hx2 : xN < 2 * π) (pd : PD ι ℝ) (cl : List (HObs ι ℝ))
    (o : HObs ι ℝ)
    (haz : ∀ f t v, o = .azimuth f t v → AzDir T xN f t v ∧ 0 ≤ v ∧ v < 2 * π ∧ Sight (tp T f) (tp T t))
    (f t : ι) (v : ℝ) (h : HObs.direction f t v ∈ tempObs pd cl o) : DirOK T xN f t v := by
  have hp := Real.pi_pos
  rcases tempObs_src pd cl o f t v h with ⟨v0, ho, rfl⟩ | ⟨v0, ho, rfl⟩
  · obtain ⟨a, b0, b2, s⟩ := haz f t v ho
    exact dirOK_of_az T xN hx0 hx2 f t v a b0 b2 s
  · obtain ⟨a, b0, b2, s⟩ := haz t f v0 ho
    obtain ⟨r1, r2⟩ := azDir_reverse T xN f t v0 a
    unfold normRad
    simp only [le_eq, twoPi_eq, sub_eq, lt_eq, zero_eq, add_eq]
    split_ifs with c1 c2
    · exact dirOK_of_az T xN hx0 hx2 f t _ r2 (by linarith) (by linarith) (sight_symm _ _ s)
    · exfalso; linarith
    · exact dirOK_of_az T xN hx0 hx2 f t _ r1 (by linarith) (by linarith) (sight_symm _ _ s)

theorem tempObs_dist (T : Truth ι) (pd : PD ι ℝ) (hz : SoundZ T pd) (cl : List (HObs ι ℝ)) (o : HObs ι ℝ)
    (hZ : ∀ f t v0 a b zv, o = .sdistance f t v0 a b → HObs.zangle f t zv ∈ cl →
      ∃ dz, IsZenithObs (hd T f t) dz v0 zv)
    (hH : ∀ f t v0 a b, o = .sdistance f t v0 a b →
      v0 * v0 = hd T f t * hd T f t + ((T.z f + a) - (T.z t + b)) * ((T.z f + a) - (T.z t + b)))
    (f t : ι) (v : ℝ) (h : HObs.distance f t v ∈ tempObs pd cl o) : v = g2dDistance (tp T f) (tp T t) := by
  rw [g2d_eq_hd]
  cases o with
  | azimuth f0 t0 v0 =>
    simp only [tempObs] at h
    split_ifs at h <;> simp at h
  | sdistance f0 t0 v0 a0 b0 =>
    simp only [tempObs] at h
    rcases List.mem_append.mp h with h | h
    · obtain ⟨z, hzm, hg⟩ := List.mem_filterMap.mp h
      split at hg
      · rename_i f' t' zv
        split_ifs at hg with c
        simp only [Option.some.injEq, HObs.distance.injEq] at hg
        obtain ⟨rfl, rfl, rfl⟩ := hg
        obtain ⟨rfl, rfl⟩ := c
        obtain ⟨dz, hzo⟩ := hZ f0 t0 v0 a0 b0 zv rfl hzm
        simp only [mul_eq, abs_eq, sin_eq]
        exact temp_slope_zenith _ _ _ _ hzo
      · simp at hg
    · split_ifs at h with c1 c2
      · simp only [List.mem_singleton, HObs.distance.injEq] at h
        obtain ⟨rfl, rfl, rfl⟩ := h
        simp only [Bool.and_eq_true] at c1
        simp only [sub_eq, add_eq, mul_eq, sqrt_eq]
        rw [hz _ c1.1, hz _ c1.2]
        exact temp_slope_heights _ _ _ (Real.sqrt_nonneg _) (hH f t v0 a0 b0 rfl)
      · simp at h
      · simp at h
  | direction _ _ _ => simp [tempObs] at h
  | distance _ _ _ => simp [tempObs] at h
  | angle _ _ _ _ => simp [tempObs] at h
  | zangle _ _ _ => simp [tempObs] at h

theorem tempObs_ang (pd : PD ι ℝ) (cl : List (HObs ι ℝ)) (o : HObs ι ℝ) (f bs fs : ι) (v : ℝ) :
    HObs.angle f bs fs v ∉ tempObs pd cl o := by
  intro h
  cases o with
  | azimuth f0 t0 v0 =>
    simp only [tempObs] at h
    split_ifs at h <;> simp at h
  | sdistance f0 t0 v0 a0 b0 =>
    simp only [tempObs] at h
    rcases List.mem_append.mp h with h | h
    · obtain ⟨z, _, hg⟩ := List.mem_filterMap.mp h
      split at hg
      · split_ifs at hg; simp at hg
      · simp at hg
    · split_ifs at h <;> simp at h
  | direction _ _ _ => simp [tempObs] at h
  | distance _ _ _ => simp [tempObs] at h
  | angle _ _ _ _ => simp [tempObs] at h
  | zangle _ _ _ => simp [tempObs] at h

theorem mem_tempAll (pd : PD ι ℝ) : ∀ (cls : List (Cl ι ℝ)) (o : HObs ι ℝ), o ∈ tempAll pd cls →
    ∃ c ∈ cls, ∃ o' ∈ c.obs, o ∈ tempObs pd c.obs o' := by
  intro cls
  induction cls with
  | nil => intro o h; simp [tempAll] at h
  | cons c cs ih =>
    intro o h
    unfold tempAll at h
    rcases List.mem_append.mp h with h | h
    · obtain ⟨l, hl, hol⟩ := List.mem_flatten.mp h
      obtain ⟨o', ho', rfl⟩ := List.mem_map.mp hl
      exact ⟨c, List.mem_cons_self, o', ho', hol⟩
    · obtain ⟨c', hc', r⟩ := ih o h
      exact ⟨c', List.mem_cons_of_mem _ hc', r⟩

theorem dirSep_of_azSep (T : Truth ι) (pd : PD ι ℝ) (cl1 cl2 : List (HObs ι ℝ)) (o1 o2 : HObs ι ℝ)
    (h : AzSep T o1 o2) : ∀ a ∈ tempObs pd cl1 o1, ∀ b ∈ tempObs pd cl2 o2, DirSep T a b := by
  intro a ha b hb f t v t' v' ea eb
  subst ea eb
  rcases tempObs_src pd cl1 o1 f t v ha with ⟨v0, ho, _⟩ | ⟨v0, ho, _⟩ <;>
    rcases tempObs_src pd cl2 o2 f t' v' hb with ⟨v0', ho', _⟩ | ⟨v0', ho', _⟩
  · exact h _ _ _ _ _ _ ho ho' f t t' (Or.inl ⟨rfl, rfl⟩) (Or.inl ⟨rfl, rfl⟩)
  · exact h _ _ _ _ _ _ ho ho' f t t' (Or.inl ⟨rfl, rfl⟩) (Or.inr ⟨rfl, rfl⟩)
  · exact h _ _ _ _ _ _ ho ho' f t t' (Or.inr ⟨rfl, rfl⟩) (Or.inl ⟨rfl, rfl⟩)
  · exact h _ _ _ _ _ _ ho ho' f t t' (Or.inr ⟨rfl, rfl⟩) (Or.inr ⟨rfl, rfl⟩)

theorem tempObs_pairwise (T : Truth ι) (pd : PD ι ℝ) (cl : List (HObs ι ℝ)) (o : HObs ι ℝ) :
    (tempObs pd cl o).Pairwise (DirSep T) := by
  cases o with
  | azimuth f0 t0 v0 =>
    simp only [tempObs]
    split_ifs <;> simp
  | sdistance f0 t0 v0 a0 b0 =>
    apply List.pairwise_of_forall_mem_list
    intro a ha b _ f t v t' v' ea _
    subst ea
    rcases tempObs_src pd cl _ f t v ha with ⟨v0, ho, _⟩ | ⟨v0, ho, _⟩ <;> simp at ho
  | direction _ _ _ => simp [tempObs]
  | distance _ _ _ => simp [tempObs]
  | angle _ _ _ _ => simp [tempObs]
  | zangle _ _ _ => simp [tempObs]

theorem tempAll_pairwise (T : Truth ι) (pd : PD ι ℝ) : ∀ cls : List (Cl ι ℝ),
    (cls.flatMap (·.obs)).Pairwise (AzSep T) → (tempAll pd cls).Pairwise (DirSep T) := by
  intro cls
  induction cls with
  | nil => intro _; simp [tempAll]
  | cons c cs ih =>
    intro h
    rw [List.flatMap_cons, List.pairwise_append] at h
    obtain ⟨hA, hB, hAB⟩ := h
    unfold tempAll
    rw [List.pairwise_append]
    refine ⟨?_, ih hB, ?_⟩
    · rw [List.pairwise_flatten]
      constructor
      · intro l hl
        obtain ⟨o, _, rfl⟩ := List.mem_map.mp hl
        exact tempObs_pairwise T pd c.obs o
      · rw [List.pairwise_map]
        exact hA.imp (fun hab => dirSep_of_azSep T pd c.obs c.obs _ _ hab)
    · intro a ha b hb
      obtain ⟨l, hl, hal⟩ := List.mem_flatten.mp ha
      obtain ⟨o1, ho1, rfl⟩ := List.mem_map.mp hl
      obtain ⟨c', hc', o2, ho2, hbo⟩ := mem_tempAll pd cs b hb
      exact dirSep_of_azSep T pd c.obs c'.obs o1 o2
        (hAB o1 ho1 o2 (List.mem_flatMap.mpr ⟨c', hc', ho2⟩)) a hal b hbo

/-- the observations of the temporary stand-point are exact for the orientation `xN` -/
theorem temp_horiz (T : Truth ι) (xN : ℝ) (hx0 : 0 ≤ xN) (hx2 : xN < 2 * π) (tori : Nat → ℝ)
    (cls : List (Cl ι ℝ)) (hex : ExactCl T xN tori cls) (pd : PD ι ℝ) (hz : SoundZ T pd) :
    HorizOK T xN (tempAll pd cls) where
  dir := fun f t v h => by
    obtain ⟨c, hc, o, ho, hm⟩ := mem_tempAll pd cls _ h
    exact tempObs_dir T xN hx0 hx2 pd c.obs o (fun f t v e => hex.az c hc f t v (e ▸ ho)) f t v hm
  dist := fun f t v h => by
    obtain ⟨c, hc, o, ho, hm⟩ := mem_tempAll pd cls _ h
    exact tempObs_dist T pd hz c.obs o (fun f t v0 a b zv e hzm => hex.slopeZ c hc f t v0 a b zv (e ▸ ho) hzm)
      (fun f t v0 a b e => hex.slopeH c hc f t v0 a b (e ▸ ho)) f t v hm
  ang := fun f bs fs v h => by
    obtain ⟨c, _, o, _, hm⟩ := mem_tempAll pd cls _ h
    exact absurd hm (tempObs_ang pd c.obs o f bs fs v)
  sep := tempAll_pairwise T pd cls hex.azSep

/-! ### AcordIntersection::execute on exact observations -/

theorem addAll_length (fuel : Nat) (pd : PD ι ℝ) : ∀ (n : Nat) (sm : List (SMo ι ℝ)) (oris : List (Option ℝ)),
    (addAll fuel pd n sm oris).length = oris.length := by
  intro n
  induction n with
  | zero => intro sm oris; simp [addAll]
  | succ n ih =>
    intro sm oris
    cases sm with
    | nil => simp [addAll]
    | cons e rest =>
      unfold addAll
      split
      · dsimp only
        split
        · exact ih _ _
        · rw [ih]
          split_ifs
          · exact List.length_set
          · rfl
      · exact ih _ _

/-- the orientation list keeps its length -/
theorem resetOK_len (T : Truth ι) (fuel : Nat) (sm : List (SMo ι ℝ)) (I : List (Option ℝ) → Prop) (L : Nat)
    (h : ResetOK T fuel sm I) : ResetOK T fuel sm (fun o => I o ∧ o.length = L) :=
  resetOK_imp T fuel sm I _ h (fun _ ho => ho.1) (fun pd o hj hi => ⟨hi, by rw [addAll_length]; exact hj.2⟩)

/-! ApproximateCoordinates only ever stores xy (`set_xy`): heights and their flags are untouched -/

theorem sameZ_upd (pd : PD ι ℝ) (i : ι) (x y : ℝ) : SameZ pd (pd.upd i ((pd i).setXY x y)) := by
  intro j
  unfold PD.upd
  by_cases e : j = i
  · subst e; simp [LP.setXY]
  · simp [e]

theorem siPass_sameZ (fuel : Nat) (sal : ℝ) (sm : List (SMo ι ℝ)) :
    ∀ (what : List ι) (st : ACState ι ℝ), SameZ st.pd (siPass fuel sal sm what st).1.pd := by
  intro what
  induction what with
  | nil => intro st; exact SameZ.refl _
  | cons i rest ih =>
    intro st
    unfold siPass
    dsimp only
    split
    · exact SameZ.trans (sameZ_upd st.pd i _ _) (ih _)
    · exact ih _

theorem solveIntersection_sameZ (fuel : Nat) (sal : ℝ) (sm : List (SMo ι ℝ)) :
    ∀ (n : Nat) (what : List ι) (st : ACState ι ℝ), SameZ st.pd (solveIntersection fuel sal sm n what st).1.pd := by
  intro n
  induction n with
  | zero => intro what st; exact SameZ.refl _
  | succ n ih =>
    intro what st
    unfold solveIntersection
    dsimp only
    split_ifs
    · exact SameZ.refl _
    · exact SameZ.trans (siPass_sameZ fuel sal sm what st) (ih _ _)
    · exact siPass_sameZ fuel sal sm what st

theorem compLoop_go_sameZ (fuel : Nat) (sal : ℝ) (sm : List (SMo ι ℝ)) :
    ∀ (n : Nat) (what : List ι) (st : ACState ι ℝ), SameZ st.pd (compLoop.go fuel sal sm n what st).pd := by
  intro n
  induction n with
  | zero => intro what st; exact SameZ.refl _
  | succ n ih =>
    intro what st
    unfold compLoop.go
    dsimp only
    split_ifs
    · exact SameZ.trans (solveIntersection_sameZ fuel sal sm _ what st) (ih _ _)
    · exact solveIntersection_sameZ fuel sal sm _ what st

theorem acCalculation_sameZ (fuel : Nat) (lt : ι → ι → Bool) (keys : List ι) (extra : Bool) (sal : ℝ)
    (sm : List (SMo ι ℝ)) (st : ACState ι ℝ) : SameZ st.pd (acCalculation fuel lt keys extra sal sm st).pd := by
  unfold acCalculation
  dsimp only
  split_ifs
  · exact SameZ.refl _
  · exact compLoop_go_sameZ fuel sal sm _ _ st
  · exact SameZ.refl _

theorem oriAt_append (o : List (Option ℝ)) (x : Option ℝ) (k : Nat) :
    oriAt (o ++ [x]) k = if k < o.length then oriAt o k else if k = o.length then x else none := by
  unfold oriAt
  simp only [List.getD_eq_getElem?_getD]
  split_ifs with c1 c2
  · rw [List.getElem?_append_left c1]
  · rw [List.getElem?_append_right (by omega), c2]; simp
  · rw [List.getElem?_append_right (by omega)]
    have : k - o.length ≠ 0 := by omega
    cases hk : k - o.length with
    | zero => exact absurd hk this
    | succ m => simp

theorem oriAt_take (o : List (Option ℝ)) (n k : Nat) : oriAt (o.take n) k = if k < n then oriAt o k else none := by
  unfold oriAt
  simp only [List.getD_eq_getElem?_getD, List.getElem?_take]
  split_ifs <;> simp

/-- the orientations of the clusters plus the temporary stand-point -/
noncomputable def toriX (tori : Nat → ℝ) (nst : Nat) (xN : ℝ) : Nat → ℝ := fun k => if k = nst then xN else tori k

/-- ApproxPoint::reset on the clusters plus the temporary stand-point of AcordIntersection::execute -/
theorem reset_ok_temp (T : Truth ι) (xN : ℝ) (hx0 : 0 ≤ xN) (hx2 : xN < 2 * π) (tori : Nat → ℝ)
    (cls : List (Cl ι ℝ)) (n : Nat) (hex : ExactCl T xN tori cls) (pd : PD ι ℝ) (hz : SoundZ T pd) :
    ResetOK T (n + 1) (copyHorizontal (cls ++ [⟨some xN, tempAll pd cls⟩]))
      (OriInv (toriX tori cls.length xN) (fun k => k = cls.length)) := by
  refine resetOK_of_exactSM T _ _ _ (exactSM_copyFrom T _ _ _ 0 ?_).1 n
  intro j c hj
  rw [Nat.zero_add]
  by_cases hlt : j < cls.length
  · rw [List.getElem?_append_left hlt] at hj
    have e : toriX tori cls.length xN j = tori j := by simp [toriX, Nat.ne_of_lt hlt]
    rw [e]
    exact ⟨hex.horiz j c hj, fun _ => hex.station c (List.mem_of_getElem? hj)⟩
  · rw [List.getElem?_append_right (by omega)] at hj
    have hj0 : j = cls.length := by
      by_contra hne
      have : j - cls.length ≠ 0 := by omega
      cases hk : j - cls.length with
      | zero => exact this hk
      | succ m => rw [hk] at hj; simp at hj
    subst hj0
    simp only [Nat.sub_self, List.getElem?_cons_zero, Option.some.injEq] at hj
    subst hj
    have e : toriX tori cls.length xN cls.length = xN := by simp [toriX]
    rw [e]
    exact ⟨temp_horiz T xN hx0 hx2 tori cls hex pd hz, fun h => absurd rfl h⟩

/-- the state invariant of AcordIntersection::execute -/
structure AiInv (T : Truth ι) (tori : Nat → ℝ) (nst : Nat) (st : AiState ι ℝ) : Prop where
  xy : SoundXY T st.pd
  z : SoundZ T st.pd
  ori : OriOK tori st.oris
  len : st.oris.length = nst
  sal : 0 < st.sal

theorem aiLoop_sound_exact (T : Truth ι) (n : Nat) (lt : ι → ι → Bool) (keys : List ι) (extra : Bool) (xN : ℝ)
    (hx0 : 0 ≤ xN) (hx2 : xN < 2 * π) (tori : Nat → ℝ) (cls : List (Cl ι ℝ)) (hex : ExactCl T xN tori cls)
    (st : AiState ι ℝ) (h : AiInv T tori cls.length st) :
    AiInv T tori cls.length (aiLoop (n + 1) lt keys extra xN cls st).1 := by
  unfold aiLoop
  dsimp only
  split_ifs
  · exact ⟨h.xy, h.z, h.ori, h.len, h.sal⟩
  · have hr := resetOK_len T (n + 1) _ _ (cls.length + 1) (reset_ok_temp T xN hx0 hx2 tori cls n hex st.pd h.z)
    have hI : OriInv (toriX tori cls.length xN) (fun k => k = cls.length) (st.oris ++ [some xN]) ∧
        (st.oris ++ [some xN]).length = cls.length + 1 := by
      refine ⟨⟨?_, ?_⟩, by simp [h.len]⟩
      · intro k o hk
        rw [oriAt_append, h.len] at hk
        unfold toriX
        by_cases c1 : k < cls.length
        · rw [if_pos c1] at hk
          rw [if_neg (Nat.ne_of_lt c1)]
          exact h.ori k o hk
        · rw [if_neg c1] at hk
          by_cases c2 : k = cls.length
          · rw [if_pos c2] at hk; rw [if_pos c2]; simpa using hk.symm
          · rw [if_neg c2] at hk; simp at hk
      · intro k hk
        rw [oriAt_append, h.len, hk]
        simp
    have c := acCalculation_sound T (n + 1) lt keys extra _ _ hr _ sal_relaxed_pos
      ⟨st.pd, st.oris ++ [some xN]⟩ ⟨h.xy, hI⟩
    have cz := acCalculation_sameZ (n + 1) lt keys extra (salDefault / Scalar.ofSci 15 true 1)
      (copyHorizontal (cls ++ [⟨some xN, tempAll st.pd cls⟩])) ⟨st.pd, st.oris ++ [some xN]⟩
    refine ⟨c.1, cz.sound h.z, ?_, ?_, sal_relaxed_pos⟩
    · intro k o hk
      rw [oriAt_take, h.len] at hk
      by_cases c1 : k < cls.length
      · rw [if_pos c1] at hk
        have := c.2.1.1 k o hk
        rw [this]; simp [toriX, Nat.ne_of_lt c1]
      · rw [if_neg c1] at hk; simp at hk
    · simp only [List.length_take]
      rw [c.2.2, h.len]; omega

/-- AcordIntersection::execute on exact observations (`ExactCl`): starting from a sound point list (xy and heights),
    true orientations (one entry per cluster: `hlen`) and a positive small-angle limit, every coordinate it stores
    is the true one and every orientation Orientation::add_all sets is the true one; the conclusion restores the
    hypotheses (any number of repeated calls). -/
theorem aiExecute_sound_exact (T : Truth ι) (n : Nat) (lt : ι → ι → Bool) (keys : List ι) (extra : Bool) (xN : ℝ)
    (hx0 : 0 ≤ xN) (hx2 : xN < 2 * π) (tori : Nat → ℝ) (cls : List (Cl ι ℝ)) (hex : ExactCl T xN tori cls)
    (alg : AiAlg) (st : AiState ι ℝ) (hs : SoundXY T st.pd) (hz : SoundZ T st.pd) (hi : OriOK tori st.oris)
    (hlen : st.oris.length = cls.length) (hsal : 0 < st.sal) :
    SoundXY T (aiExecute (n + 1) lt keys extra xN cls alg st).2.pd ∧
    SoundZ T (aiExecute (n + 1) lt keys extra xN cls alg st).2.pd ∧
    OriOK tori (aiExecute (n + 1) lt keys extra xN cls alg st).2.oris ∧
    (aiExecute (n + 1) lt keys extra xN cls alg st).2.oris.length = cls.length ∧
    0 < (aiExecute (n + 1) lt keys extra xN cls alg st).2.sal := by
  suffices h : AiInv T tori cls.length (aiExecute (n + 1) lt keys extra xN cls alg st).2 from
    ⟨h.xy, h.z, h.ori, h.len, h.sal⟩
  have h0 : AiInv T tori cls.length st := ⟨hs, hz, hi, hlen, hsal⟩
  have hr := resetOK_len T (n + 1) _ _ cls.length (reset_ok T xN tori cls n hex)
  have c := acCalculation_sound T (n + 1) lt keys extra _ _ hr st.sal hsal ⟨st.pd, st.oris⟩ ⟨hs, hi, hlen⟩
  have cz := acCalculation_sameZ (n + 1) lt keys extra st.sal (copyHorizontal cls) ⟨st.pd, st.oris⟩
  have h1 : AiInv T tori cls.length
      { st with pd := (acCalculation (n + 1) lt keys extra st.sal (copyHorizontal cls) ⟨st.pd, st.oris⟩).pd,
                oris := (acCalculation (n + 1) lt keys extra st.sal (copyHorizontal cls) ⟨st.pd, st.oris⟩).oris } :=
    ⟨c.1, cz.sound hz, c.2.1, c.2.2, hsal⟩
  have l1 := aiLoop_sound_exact T n lt keys extra xN hx0 hx2 tori cls hex _ h1
  have l2 := aiLoop_sound_exact T n lt keys extra xN hx0 hx2 tori cls hex _ l1
  unfold aiExecute
  dsimp only
  split_ifs
  all_goals first | exact h0 | exact l1 | exact l2

end Gama.C06I

/-! ### the hypotheses are satisfiable: the network of Gama/Lemmas/C06ResetData.lean -/

namespace Gama.C06RD
open Real Gama.C06I

set_option linter.unusedSimpArgs false
set_option linter.unusedTactic false
set_option linter.unreachableTactic false
set_option linter.unnecessarySeqFocus false

/-- the true orientations: cluster 0 has no direction (any value in range), cluster 1 is oriented by 0 -/
noncomputable def rTori : Nat → ℝ := fun _ => 0

theorem rx_tp0 : tp rT 0 = ⟨-(3/4), 0⟩ := by simp [tp, rT]
theorem rx_tp1 : tp rT 1 = ⟨3/4, 0⟩ := by simp [tp, rT]
theorem rx_tp2 : tp rT 2 = ⟨0, 0⟩ := by simp [tp, rT]
theorem rx_tp3 : tp rT 3 = ⟨0, 1⟩ := by simp [tp, rT]

theorem rx_sqrt (a b : ℝ) (hb : 0 ≤ b) (h : a = b * b) : Real.sqrt a = b := by
  rw [h]; exact Real.sqrt_mul_self hb

theorem rx_g2d_30 : (5/4 : ℝ) = g2dDistance (tp rT 3) (tp rT 0) := by
  rw [rx_tp3, rx_tp0]
  unfold g2dDistance
  simp only [sub_eq, sqr_eq, add_eq, sqrt_eq]
  exact (rx_sqrt _ _ (by norm_num) (by norm_num)).symm

theorem rx_g2d_31 : (5/4 : ℝ) = g2dDistance (tp rT 3) (tp rT 1) := by
  rw [rx_tp3, rx_tp1]
  unfold g2dDistance
  simp only [sub_eq, sqr_eq, add_eq, sqrt_eq]
  exact (rx_sqrt _ _ (by norm_num) (by norm_num)).symm

theorem rx_sight_23 : Sight (tp rT 2) (tp rT 3) := by
  rw [rx_tp2, rx_tp3]
  unfold Sight
  rw [rx_sqrt _ 1 (by norm_num) (by norm_num)]
  norm_num

theorem rx_bearing_23 : bearing (tp rT 2) (tp rT 3) = π / 2 := by
  have hf : Far (tp rT 2) (tp rT 3) := sight_far _ _ rx_sight_23
  unfold bearing
  rw [bearingDistance_spec _ _ _ _ hf, rx_tp2, rx_tp3]
  have : Complex.arg ⟨(0:ℝ) - 0, (1:ℝ) - 0⟩ = π / 2 := Complex.arg_eq_pi_div_two_iff.mpr ⟨by simp, by simp⟩
  simp only [Lin.brg, this]
  rw [if_pos (by linarith [Real.pi_pos])]

theorem rx_horiz0 : HorizOK rT (rTori 0) [HObs.distance 3 0 (5/4), HObs.distance 3 1 (5/4)] where
  dir := by simp
  dist := by
    intro f t v h
    simp only [List.mem_cons, HObs.distance.injEq, List.not_mem_nil, or_false] at h
    rcases h with ⟨rfl, rfl, rfl⟩ | ⟨rfl, rfl, rfl⟩
    · exact rx_g2d_30
    · exact rx_g2d_31
  ang := by simp
  sep := by simp [DirSep]

theorem rx_horiz1 : HorizOK rT (rTori 1) [HObs.direction 2 3 (π / 2)] where
  dir := by
    intro f t v h
    simp only [List.mem_singleton, HObs.direction.injEq] at h
    obtain ⟨rfl, rfl, rfl⟩ := h
    have hp := Real.pi_pos
    refine ⟨by linarith, by linarith, le_refl _, by simp [rTori, hp], ?_, rx_sight_23⟩
    left
    rw [rx_bearing_23]; simp [rTori]
  dist := by simp
  ang := by simp
  sep := by simp

/-- the exactness hypotheses of `aiExecute_sound_exact` hold for the network -/
theorem rExact : ExactCl rT 0 rTori rCls where
  horiz := by
    intro k c hk
    match k with
    | 0 => simp only [rCls, List.getElem?_cons_zero, Option.some.injEq] at hk; subst hk; exact rx_horiz0
    | 1 => simp only [rCls, List.getElem?_cons_succ, List.getElem?_cons_zero, Option.some.injEq] at hk
           subst hk; exact rx_horiz1
    | k + 2 => simp [rCls] at hk
  station := by
    intro c hc f t v f' t' v' h h'
    simp only [rCls, List.mem_cons, List.not_mem_nil, or_false] at hc
    rcases hc with rfl | rfl
    · simp at h
    · simp only [List.mem_singleton, HObs.direction.injEq] at h h'
      rw [h.1, h'.1]
  own := by
    intro k c o hk ho
    match k with
    | 0 => simp only [rCls, List.getElem?_cons_zero, Option.some.injEq] at hk; subst hk; simp at ho
    | 1 => simp only [rCls, List.getElem?_cons_succ, List.getElem?_cons_zero, Option.some.injEq] at hk
           subst hk; simp only [Option.some.injEq] at ho; rw [← ho]; rfl
    | k + 2 => simp [rCls] at hk
  az := by
    intro c hc f t v h
    simp only [rCls, List.mem_cons, List.not_mem_nil, or_false] at hc
    rcases hc with rfl | rfl <;> simp at h
  azSep := by
    apply List.pairwise_of_forall_mem_list
    intro a ha b _ f1 t1 v1 f2 t2 v2 ea _
    subst ea
    simp [rCls] at ha
  slopeZ := by
    intro c hc f t v a b zv h
    simp only [rCls, List.mem_cons, List.not_mem_nil, or_false] at hc
    rcases hc with rfl | rfl <;> simp at h
  slopeH := by
    intro c hc f t v a b h
    simp only [rCls, List.mem_cons, List.not_mem_nil, or_false] at hc
    rcases hc with rfl | rfl <;> simp at h

theorem rSoundXY : SoundXY rT rPd := by
  intro i hi
  unfold rPd at hi ⊢
  split_ifs at hi ⊢ with h0 h1 h2
  · subst h0; simp [rT]
  · subst h1; simp [rT]
  · subst h2; simp [rT]
  · simp [LP.unset] at hi

theorem rSoundZ : SoundZ rT rPd := by
  intro i hi
  unfold rPd at hi
  split_ifs at hi <;> simp [LP.unset] at hi

theorem rOriOK : OriOK rTori rSt.oris := by
  intro k o hk
  match k with
  | 0 => simp [rSt, oriAt] at hk
  | 1 => simp [rSt, oriAt] at hk; rw [← hk]; rfl
  | k + 2 => simp [rSt, oriAt] at hk

theorem rLen : rSt.oris.length = rCls.length := rfl

theorem rSalPos : 0 < rSt.sal := by
  have h1 : (salDefault : ℝ) = 15 / 100 := by simp [salDefault, Scalar.ofSci] <;> norm_num
  show (0:ℝ) < salDefault
  rw [h1]; norm_num

/-- `aiExecute_sound_exact` applies to the network (for every fuel, key order, `extra`, call history `alg`) -/
theorem rApplies (n : Nat) (lt : ℕ → ℕ → Bool) (keys : List ℕ) (extra : Bool) (alg : AiAlg) :
    SoundXY rT (aiExecute (n + 1) lt keys extra 0 rCls alg rSt).2.pd ∧
    SoundZ rT (aiExecute (n + 1) lt keys extra 0 rCls alg rSt).2.pd ∧
    OriOK rTori (aiExecute (n + 1) lt keys extra 0 rCls alg rSt).2.oris ∧
    (aiExecute (n + 1) lt keys extra 0 rCls alg rSt).2.oris.length = rCls.length ∧
    0 < (aiExecute (n + 1) lt keys extra 0 rCls alg rSt).2.sal :=
  aiExecute_sound_exact rT n lt keys extra 0 le_rfl (by positivity) rTori rCls rExact alg rSt
    rSoundXY rSoundZ rOriOK rLen rSalPos

end Gama.C06RD
