/-
  VALUE of `operator*(SymMat,SymMat)` AS CODED (round 13, known finding C15-symmat-product): the returned `SymMat` holds,
  in cell `(i,j)`, `j ≤ i`, the entry `(AB)(i,j)` of the true product — and denotes, as a symmetric matrix, `AB` exactly
  when `AB` is symmetric.
-/
import Gama.Lemmas.MatVecValues3
import Gama.Lemmas.KernelLoopsTri
namespace Gama.MatVec
open Finset
variable {K : Type}

theorem symIdx_lower (i j : Nat) (hj : j ≤ i) : symIdx (i + 1) (j + 1) = triN i + j := by
  unfold symIdx triN
  simp only [ge_iff_le, show j + 1 ≤ i + 1 by omega, if_true, Nat.add_sub_cancel, Nat.mul_comm (i + 1) i]
  omega

theorem symMul_cells [Semiring K] (A B : SMat K) (hA : A.WF) (hB : B.WF) (hc : A.dim = B.dim) (d : K) :
    ∃ C, symMul A B = .ok C ∧ C.dim = A.dim ∧ C.WF ∧
      ∀ i j, j ≤ i → i < A.dim → C.at d i j = ∑ k ∈ range A.dim, A.at d i k * B.at d j k := by
  have hl : ∀ p, p < A.dim * (A.dim + 1) / 2 →
      sumLoop A.dim (fun k0 => mulRd A.data (symWalk (triRow A.dim p).1 (k0 + 1) - 1) B.data (symWalk (triRow A.dim p).2 (k0 + 1) - 1))
        = .ok (∑ k ∈ range A.dim, A.at d ((triRow A.dim p).1 - 1) k * B.at d ((triRow A.dim p).2 - 1) k) := by
    intro p hp
    obtain ⟨h1, h2, h3⟩ := triRow_spec A.dim p hp
    apply sumLoop_spec
    intro k hk
    have ea : rd A.data (symWalk (triRow A.dim p).1 (k + 1) - 1) = .ok (A.at d ((triRow A.dim p).1 - 1) k) := by
      rw [symWalk_eq]
      have := SMat.rd_at hA d (i := (triRow A.dim p).1 - 1) (j := k) (by omega) hk
      rwa [show (triRow A.dim p).1 - 1 + 1 = (triRow A.dim p).1 by omega] at this
    have eb : rd B.data (symWalk (triRow A.dim p).2 (k + 1) - 1) = .ok (B.at d ((triRow A.dim p).2 - 1) k) := by
      rw [symWalk_eq]
      have := SMat.rd_at hB d (i := (triRow A.dim p).2 - 1) (j := k) (by omega) (by omega)
      rwa [show (triRow A.dim p).2 - 1 + 1 = (triRow A.dim p).2 by omega] at this
    simp [mulRd, ea, eb]
  obtain ⟨a, ha, hs, he⟩ := tabulate_spec (A.dim * (A.dim + 1) / 2) _ _ hl
  refine ⟨⟨A.dim, a⟩, ?_, rfl, hs, ?_⟩
  · have hg : ¬ (A.dim ≠ B.dim) := by simp [hc]
    simp only [symMul, hg, if_false, ha]
  · intro i j hj hi
    have hp : triN i + j < A.dim * (A.dim + 1) / 2 := by
      have := triN_mono (show i + 1 ≤ A.dim by omega)
      rw [triN_step] at this; unfold triN at this ⊢; omega
    have := he (triN i + j) hp
    rw [triRow_eq A.dim i j hj hi] at this
    simp only [Nat.add_sub_cancel] at this
    simp only [SMat.at, symIdx_lower i j hj, Array.getD_eq_getD_getElem?, this, Option.getD_some]

end Gama.MatVec
