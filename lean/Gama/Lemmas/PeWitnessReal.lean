/-
  ONE network over ℝ that IS an input of `project_equations()` with a NON-trivial adjustment, for the joint witnesses of the
  composed (`…_of_project_equations`, `…_pe_…`) theorems (audit #4, remaining gap 2; round 11).

  `Ex.netWobs : PE.Net ℝ` — b-W7h's levelling network `netWexact` (`Lemmas/C06NetWitness.lean`) with INEXACT height
  differences: `A` fixed (100 m), `B` constrained (110 m), `C` free (105 m);
    * a CORRELATED cluster of three height differences, `covariance_matrix = [[16,3,8],[3,25,5],[8,5,40]]` (band 2):
      `A→B = 10.001`, `B→C = −4` SWITCHED OFF, `B→C = −4.998`;
    * a cluster whose only observation `C→A = −5` is switched off;  an uncorrelated cluster: `A→C = 5.004`, variance 16;
    * `m_0_apr_ = 2`.
  `projectEquations netWobs = .ok (npO, uO)`: rows `[(1,1)]`, `[(1,−1),(2,1)]`, `[(2,1)]`, `rhs_ = (1,2,4)` (mm; not consistent: residuals `(3/11, 6/11, −2/11)`), `min_x_ = [1]`,
  the clusters of `Ex.npW 2 [1]`.  `Ex.netWobs'` = the same network with `B` free and `C` constrained (`DatumEq`):
  `projectEquations netWobs' = .ok ({ npO with minx := [2] }, uO')`.
  `A = [[1,0],[−1,1],[0,1]]` (full column rank) — `RankGap` with `τ = 2⁻¹³` for EVERY list (`gapLit`, `kerLit` of b-W7h);
  envelope, cholesky and gso answer by `C02_net_answered_iff_resolves` (envelope: `Homogenization::run` accepts — the
  evaluated `BlockDiagonal::cholDec` of `Lemmas/Ls/NetFacadeReal.lean`).
-/
import Gama.Lemmas.C06NetWitness
import Gama.Lemmas.ProjectEquationsDatum
namespace Gama.C06NZ.Ex
open Gama Gama.Lin Gama.PE Gama.Ls Gama.Ls.Net Gama.LS Gama.C06FP Gama.C06NZ Gama.Ls.Ex Gama.Props.C01 Matrix

noncomputable def netWg (sB sC : Status) : PE.Net ℝ :=
  { points := [⟨"A", ⟨0, 0, 100, .unused, .fixed⟩⟩, ⟨"B", ⟨0, 0, 110, .unused, sB⟩⟩, ⟨"C", ⟨0, 0, 105, .unused, sC⟩⟩]
    clusters := [⟨none, ⟨3, 2, #[16, 3, 8, 25, 5, 40]⟩,
                   [hdR true 0 1 (10 + 1 / 1000), hdR false 1 2 (-4), hdR true 1 2 (-5 + 2 / 1000)]⟩,
                 ⟨none, ⟨1, 0, #[1]⟩, [hdR false 2 0 (-5)]⟩,
                 ⟨none, ⟨1, 0, #[16]⟩, [hdR true 0 2 (5 + 4 / 1000)]⟩]
    m0 := 2, xNorth := 0, fuel := 10, idx := IdxState.init }

/-- the network: `B` constrained, `C` free -/
noncomputable def netWobs : PE.Net ℝ := netWg .constrained .free
/-- the datum variant: `B` free, `C` constrained -/
noncomputable def netWobs' : PE.Net ℝ := netWg .free .constrained

theorem datumEq_obs : DatumEq netWobs netWobs' := rfl

/-- what `project_equations()` hands to the solver -/
noncomputable def npG (l : List Nat) : NetProblem ℝ :=
  { npW 2 l with rows := #[#[(1, 1)], #[(1, -1), (2, 1)], #[(2, 1)]], rhs := #[1, 2, 4] }
noncomputable def npO : NetProblem ℝ := npG [1]

noncomputable def bO : PassOut ℝ :=
  ⟨[[(1, 1)], [(1, -1), (2, 1)], [(2, 1)]], [1, 2, 4], ⟨2, [(⟨2, .z⟩, 2), (⟨1, .z⟩, 1)]⟩⟩

section facade
attribute [local instance] sqrtFnOfSqrtField
attribute [local instance 2000] scalarOfField
attribute [local instance 3000] fieldTrig

theorem robsO (sB sC : Status) : revisedObs (netWg sB sC) =
    [⟨.h_diff, 0, 0, 1, 0, 10 + 1 / 1000⟩, ⟨.h_diff, 0, 1, 2, 0, -5 + 2 / 1000⟩, ⟨.h_diff, 2, 0, 2, 0, 5 + 4 / 1000⟩] := rfl

theorem robsO_noalias (sB sC : Status) : ∀ ob ∈ revisedObs (netWg sB sC), NoAlias ob := by
  intro ob hob
  rw [robsO] at hob
  simp only [List.mem_cons, List.not_mem_nil, or_false] at hob
  rcases hob with rfl | rfl | rfl <;> decide

theorem passO_real (sB sC : Status) (hB : sB.isFree = true) (hC : sC.isFree = true) :
    @passFrom ℝ instTrigScalarReal (sigmaOf (netWg sB sC)) (netWg sB sC).fuel (revisedObs (netWg sB sC)) IdxState.init
      = .ok bO := by
  rw [robsO]
  cases sB <;> cases sC <;> first | (exact absurd hB (by decide)) | (exact absurd hC (by decide)) | skip
  all_goals
    simp only [passFrom, Kind.lin, h_diff_eq]
    show Except.ok (⟨[[(1, 1)], [(1, -1), (2, 1)], [(2, 1)]],
      [((10 + 1 / 1000 : ℝ) - (110 - 100)) * 1000, ((-5 + 2 / 1000 : ℝ) - (105 - 110)) * 1000,
        ((5 + 4 / 1000 : ℝ) - (105 - 100)) * 1000],
      ⟨2, [(⟨2, .z⟩, 2), (⟨1, .z⟩, 1)]⟩⟩ : PassOut ℝ) = _
    unfold bO
    norm_num


/-! #### `netWobs` -/

theorem passO : passFrom (sigmaOf netWobs) netWobs.fuel (revisedObs netWobs) IdxState.init = .ok bO := by
  rw [passFrom_inst]; exact passO_real .constrained .free (by decide) (by decide)

noncomputable def asmO : Asm ℝ :=
  { np := { npG [1] with minx := [] }, idx := bO.idx, list := unknownsList netWobs bO.idx }

theorem assembleO : assemble netWobs = .ok asmO := by
  have hlin : linPass netWobs (revisedObs netWobs) (netWobs.idx.resetPass (guardOf netWobs)) = .ok bO := by
    unfold linPass
    have h1 : (revisedObs netWobs).takeWhile (oriOK netWobs) = revisedObs netWobs := rfl
    have h2 : netWobs.idx.resetPass (guardOf netWobs) = IdxState.init := rfl
    simp only [h1, h2, passO, if_true]
  unfold assemble
  simp only [hlin]
  rfl

theorem prepareO : ∃ hh, prepare asmO.np = .ok hh := by
  have hf : factors (cofs asmO.np) = .ok [⟨2, 1, #[2, 1, 3]⟩, ⟨1, 0, #[2]⟩] := by
    rw [show cofs asmO.np = cofs (npW 2 [1]) from rfl]; exact npW2_factors [1]
  unfold prepare
  simp only [hf]
  exact ⟨_, rfl⟩

/-- the network as the call leaves it -/
noncomputable def uO : Unknowns ℝ := ⟨2, asmO.list, { netWobs with idx := bO.idx }, []⟩

/-- **`project_equations()` on `netWobs` over ℝ** -/
theorem peO : projectEquations netWobs = .ok (npG [1], uO) := by
  obtain ⟨hh, hp⟩ := prepareO
  have hs : (SingularCoords.singularCoords hh.Ad (idxFn asmO.idx) (ptsOf netWobs)).1 = false := rfl
  have hr : revise netWobs = netWobs := rfl
  show peLoop 4 netWobs [] = _
  unfold peLoop
  simp only [hr, assembleO, hp, hs]
  rfl

/-! #### `netWobs'` -/

theorem passO' : passFrom (sigmaOf netWobs') netWobs'.fuel (revisedObs netWobs') IdxState.init = .ok bO := by
  rw [passFrom_inst]; exact passO_real .free .constrained (by decide) (by decide)

noncomputable def asmO' : Asm ℝ :=
  { np := { npG [2] with minx := [] }, idx := bO.idx, list := unknownsList netWobs' bO.idx }

theorem assembleO' : assemble netWobs' = .ok asmO' := by
  have hlin : linPass netWobs' (revisedObs netWobs') (netWobs'.idx.resetPass (guardOf netWobs')) = .ok bO := by
    unfold linPass
    have h1 : (revisedObs netWobs').takeWhile (oriOK netWobs') = revisedObs netWobs' := rfl
    have h2 : netWobs'.idx.resetPass (guardOf netWobs') = IdxState.init := rfl
    simp only [h1, h2, passO', if_true]
  unfold assemble
  simp only [hlin]
  rfl

theorem prepareO' : ∃ hh, prepare asmO'.np = .ok hh := by
  have hf : factors (cofs asmO'.np) = .ok [⟨2, 1, #[2, 1, 3]⟩, ⟨1, 0, #[2]⟩] := by
    rw [show cofs asmO'.np = cofs (npW 2 [1]) from rfl]; exact npW2_factors [1]
  unfold prepare
  simp only [hf]
  exact ⟨_, rfl⟩

/-- the network as the call leaves it -/
noncomputable def uO' : Unknowns ℝ := ⟨2, asmO'.list, { netWobs' with idx := bO.idx }, []⟩

/-- **`project_equations()` on `netWobs'` over ℝ** -/
theorem peO' : projectEquations netWobs' = .ok (npG [2], uO') := by
  obtain ⟨hh, hp⟩ := prepareO'
  have hs : (SingularCoords.singularCoords hh.Ad (idxFn asmO'.idx) (ptsOf netWobs')).1 = false := rfl
  have hr : revise netWobs' = netWobs' := rfl
  show peLoop 4 netWobs' [] = _
  unfold peLoop
  simp only [hr, assembleO', hp, hs]
  rfl

/-! ### the hypotheses of the façade theorems on `npG l` (`l = [1]`: `npO`; `l = [2]`: the datum variant) -/

attribute [-simp] Gama.C06R.add_eq Gama.C06R.sub_eq Gama.C06R.mul_eq Gama.C06R.div_eq Gama.C06R.neg_eq Gama.C06R.zero_eq
  Gama.C06R.one_eq Gama.C06R.lt_eq Gama.C06R.le_eq

theorem npG_dims (l : List Nat) : (dimsN (npG l)).sum = (npG l).m := npW_dims 2 l

theorem npG_rows (l : List Nat) : RowsOK (toProblem (npG l)) := by
  apply RowsOK.of_nodup
  intro i hi
  have : i = 0 ∨ i = 1 ∨ i = 2 := by have : i < 3 := hi; omega
  rcases this with rfl | rfl | rfl <;> simp [toProblem, npG, npW, Array.getD]

/-- `Σ⁻¹` at the index type of `npG l` -/
noncomputable def PcG (l : List Nat) : Matrix (Fin (toProblem (npG l)).m) (Fin (toProblem (npG l)).m) ℝ := PcR

theorem npG_sigma_inv (l : List Nat) : Sigma (npG l) * PcG l = 1 := npW_sigma_inv 2 l

theorem npG_reg (l : List Nat) (hl : l = [1] ∨ l = [2]) : Env.RegListOK (toProblem (npG l)) := npW_regListOK 2 l hl

theorem npG_m0 (l : List Nat) : (npG l).m0 ≠ 0 := by show (2 : ℝ) ≠ 0; norm_num

theorem npG_dense (l : List Nat) : (toProblem (npG l)).dense = #[#[1, 0], #[-1, 1], #[0, 1]] := by
  simp [Problem.dense, toProblem, npG, npW]
  refine ⟨?_, ?_, ?_⟩ <;> rfl

theorem npG_A (l : List Nat) : ((toProblem (npG l)).A : Matrix (Fin 3) (Fin 2) ℝ) = !![1, 0; -1, 1; 0, 1] := by
  have h : (toProblem (npG l)).A = toMatrix 3 2 (toProblem (npG l)).dense := rfl
  rw [h, npG_dense]
  ext i j; fin_cases i <;> fin_cases j <;> rfl

theorem npG_b (l : List Nat) : ((toProblem (npG l)).b : Fin 3 → ℝ) = ![1, 2, 4] := by
  funext i; fin_cases i <;> rfl

theorem npG_ker (l : List Nat) (g : Fin (toProblem (npG l)).n → ℝ) (hg : (toProblem (npG l)).A *ᵥ g = 0) : g = 0 := by
  have h := kerLit g
  rw [← npG_A l] at h
  exact h hg

theorem npG_gap (l : List Nat) : GapAllP (toProblem (npG l)).A (((npG l).m0 * (npG l).m0) • PcG l) (1 / 8192) := by
  have h := gapLit
  rw [← npG_A l] at h
  exact h

/-- **`RankGap` (`τ = 2⁻¹³`) for every list**: the design matrix has full column rank -/
theorem npG_rankGap (l : List Nat) :
    RankGap (toProblem (npG l)).A (((npG l).m0 * (npG l).m0) • PcG l) (toProblem (npG l)).S (1 / 8192) :=
  ⟨npG_gap l, fun g hg hne => (hne (npG_ker l g hg)).elim⟩

theorem npG_prepare (l : List Nat) : ∃ hh, prepare (npG l) = .ok hh := by
  have hf : factors (cofs (npG l)) = .ok [⟨2, 1, #[2, 1, 3]⟩, ⟨1, 0, #[2]⟩] := by
    rw [show cofs (npG l) = cofs (npW 2 l) from rfl]; exact npW2_factors l
  unfold prepare
  simp only [hf]
  exact ⟨_, rfl⟩

/-- `Homogenization::run` inside the envelope solver accepts the blocks of `npG l` (the evaluated `BlockDiagonal::cholDec`) -/
theorem npG_envSolve (l : List Nat) : ∃ s, envSolve (toProblem (npG l)) = .ok s := by
  have hc : (toProblem (npG l)).cov.toList = (pSp l).cov.toList := by
    rw [cov_toList, show cofs (npG l) = cofs (npW 2 l) from rfl, npW2_cofs]; rfl
  have hf : Env.factorsU (toProblem (npG l)).cov.toList = some [⟨2, 1, #[2, 1, 3]⟩, ⟨1, 0, #[2]⟩] := by
    rw [hc]; exact pSp_factorsU l
  unfold envSolve envAnswer envAnswerOrd Env.homogenize
  simp only [hf]
  exact ⟨_, rfl⟩

/-- **envelope, cholesky and gso answer** on `npG l` — by `C02_net_answered_iff_resolves` -/
theorem npG_answers (l : List Nat) (hl : l = [1] ∨ l = [2]) (alg : Alg) (halg : alg ≠ .svd) :
    ∃ a, netSolve alg (npG l) = .ok a := by
  obtain ⟨hh, hp⟩ := npG_prepare l
  refine (Gama.Props.C02.C02_net_answered_iff_resolves (npG l) (npG_dims l) (npG_rows l) (npG_m0 l) (PcG l)
    (npG_sigma_inv l) (npG_reg l hl) alg (fun _ => ⟨C01_gap_thresholds_default, npG_gap l⟩)
    (fun h => absurd h halg)
    (fun g hg hne => (hne (npG_ker l g hg)).elim) hh hp
    (fun h => absurd h halg)
    (fun _ => npG_envSolve l)).2 ?_
  intro g hg _
  exact npG_ker l g hg

end facade

end Gama.C06NZ.Ex
