/-
  Correctness of the Gauss–Jordan phase of `Mat<>::invert(Float tol)` (lib/matvec/mat.h),
  model in `Gama/Model/MatInvert.lean`, over a linearly ordered field
  (`Scalar` structure `fieldScalar K sq`):

  * `pivotSearch_spec`  : the pivot is `0` or an entry of the not yet eliminated block,
  * `gjStep_spec`       : closed form of one in-place elimination step,
  * `gj_invariant`      : after `k` steps the storage holds `[E·A | E]` interleaved,
  * `invert_correct`    : `invert N N tol A = .ok X  ⇒  X·A = 1 ∧ A·X = 1`.
-/
import Gama.Model.MatInvert
import Gama.Lemmas.C15Field
import Gama.Lemmas.MatInvertPerm
import Mathlib.Algebra.Order.Field.Basic
import Mathlib.Algebra.BigOperators.Intervals
import Mathlib.Algebra.BigOperators.Ring.Finset
import Mathlib.Algebra.BigOperators.Fin
import Mathlib.Algebra.BigOperators.Field
import Mathlib.LinearAlgebra.Matrix.NonsingularInverse
import Mathlib.Tactic.Ring
import Mathlib.Tactic.Linarith
import Mathlib.Tactic.FieldSimp

namespace Gama.MatVec
open Finset

set_option linter.unusedSectionVars false
set_option linter.unusedVariables false

/-! ### generic loop facts -/

theorem gj_forUp_succ {σ : Type} (n : Nat) (body : Nat → σ → σ) (s : σ) :
    forUp (n + 1) body s = body n (forUp n body s) := rfl

theorem gj_forUp_inv {σ : Type} (P : σ → Prop) (body : Nat → σ → σ) :
    ∀ n s, P s → (∀ t, t < n → ∀ s, P s → P (body t s)) → P (forUp n body s) := by
  intro n
  induction n with
  | zero => intro s hs _; exact hs
  | succ n ih =>
    intro s hs hb
    rw [gj_forUp_succ]
    exact hb n (Nat.lt_succ_self n) _ (ih s hs (fun t ht => hb t (Nat.lt_succ_of_lt ht)))

theorem fswap_self {α : Type} (f : Nat → α) (i : Nat) : fswap f i i = f := by
  funext k
  unfold fswap
  by_cases h : k = i
  · rw [if_pos h, h]
  · rw [if_neg h, if_neg h]

theorem fset_off {α : Type} (N : Nat) (m : Nat → α) (r q : Nat) (v : α) (a j : Nat)
    (hj : j < N) (hq : q < N) :
    fset m (r*N + q) v (a*N + j) = if a = r ∧ j = q then v else m (a*N + j) := by
  unfold fset
  by_cases h : a = r ∧ j = q
  · rw [if_pos h, if_pos ((off_eq_iff hj hq).mpr h)]
  · rw [if_neg h, if_neg (fun h' => h ((off_eq_iff hj hq).mp h'))]

/-- index swap underlying `fswap` -/
def swIdx (i j k : Nat) : Nat := if k = i then j else if k = j then i else k

theorem fswap_eq_comp {α : Type} (f : Nat → α) (i j k : Nat) : fswap f i j k = f (swIdx i j k) := by
  unfold fswap swIdx
  by_cases h1 : k = i
  · rw [if_pos h1, if_pos h1]
  · rw [if_neg h1, if_neg h1]
    by_cases h2 : k = j
    · rw [if_pos h2, if_pos h2]
    · rw [if_neg h2, if_neg h2]

theorem swIdx_invol (i j k : Nat) : swIdx i j (swIdx i j k) = k := by
  unfold swIdx
  by_cases h1 : k = i
  · subst h1
    by_cases h2 : j = k
    · simp [h2]
    · simp [h2]
  · by_cases h2 : k = j
    · simp [h2]
    · simp [h1, h2]

theorem swIdx_lt {N i j k : Nat} (hi : i < N) (hj : j < N) (hk : k < N) : swIdx i j k < N := by
  unfold swIdx
  split
  · exact hj
  · split
    · exact hi
    · exact hk

theorem swIdx_ge {s i j k : Nat} (hi : s ≤ i) (hj : s ≤ j) (hk : s ≤ k) : s ≤ swIdx i j k := by
  unfold swIdx
  split
  · exact hj
  · split
    · exact hi
    · exact hk

theorem swIdx_low {s i j k : Nat} (hi : s ≤ i) (hj : s ≤ j) (hk : k < s) : swIdx i j k = k := by
  unfold swIdx
  rw [if_neg (by omega), if_neg (by omega)]

/-! ### the loops of one step, with the field operations -/

section Loops
variable {K : Type} [Field K] [LinearOrder K] [IsStrictOrderedRing K]

/-- `for j: entry(i,j) *= c` -/
def scaleLoop (N i : Nat) (c : K) (n : Nat) (b : Box (Nat → K)) : Box (Nat → K) :=
  forUp n (fun j (b : Box (Nat → K)) =>
    ⟨fset b.val (i*N + j) (b.val (i*N + j) * c), b.cnt + 1⟩) b

/-- `for j: entry(i,j) -= e * entry(p,j)` -/
def elimInner (N p i : Nat) (e : K) (n : Nat) (b : Box (Nat → K)) : Box (Nat → K) :=
  forUp n (fun j (b : Box (Nat → K)) =>
    ⟨fset b.val (i*N + j) (b.val (i*N + j) - e * b.val (p*N + j)), b.cnt + 1⟩) b

/-- the elimination over all rows `indr row ≠ p` -/
def elimOuter (N : Nat) (indr : Nat → Nat) (p q : Nat) (n : Nat) (b : Box (Nat → K)) :
    Box (Nat → K) :=
  forUp n (fun row (b : Box (Nat → K)) =>
    if indr row ≠ p then
      elimInner N p (indr row) (b.val (indr row * N + q)) N
        ⟨fset b.val (indr row * N + q) (0 : K), b.cnt + 1⟩
    else b) b

theorem gjStep_eq (sq : K → K) (N : Nat) (tol : K) (step : Nat) (g : GJ K) :
    @gjStep K (fieldScalar K sq) N tol step g =
      (let ps := @pivotSearch K (fieldScalar K sq) N step g
       if (if 0 ≤ ps.1 then ps.1 else -ps.1) ≤ tol then none else
       let indr := if step ≠ ps.2.1 then fswap g.indr step ps.2.1 else g.indr
       let indc := if step ≠ ps.2.2 then fswap g.indc step ps.2.2 else g.indc
       some ⟨(elimOuter N indr (indr step) (indc step) N
               ⟨(scaleLoop N (indr step) (1 / ps.1) N
                  ⟨fset g.m (indr step * N + indc step) 1, 0⟩).val, 0⟩).val,
             indr, indc, ps.2.1, ps.2.2⟩) := rfl

theorem scaleLoop_spec (N i : Nat) (c : K) (b : Box (Nat → K)) :
    ∀ n, n ≤ N → ∀ a j, j < N →
      (scaleLoop N i c n b).val (a*N + j)
        = if a = i ∧ j < n then b.val (a*N + j) * c else b.val (a*N + j) := by
  intro n
  induction n with
  | zero => intro _ a j _; simp [scaleLoop, forUp]
  | succ n ih =>
    intro hn a j hj
    have hnN : n < N := by omega
    have ih' := ih (by omega)
    show fset (scaleLoop N i c n b).val (i*N + n) ((scaleLoop N i c n b).val (i*N + n) * c) (a*N + j) = _
    unfold fset
    simp only [off_eq_iff hj hnN]
    rw [ih' i n hnN, ih' a j hj]
    by_cases h1 : a = i
    · subst h1
      rcases Nat.lt_trichotomy j n with h | h | h
      · have : ¬ j = n := by omega
        have h5 : j < n + 1 := by omega
        simp [h, this, h5]
      · subst h; simp
      · have : ¬ j = n := by omega
        have h5 : ¬ j < n + 1 := by omega
        have h6 : ¬ j < n := by omega
        simp [this, h5, h6]
    · simp [h1]

theorem elimInner_spec (N p i : Nat) (hpi : i ≠ p) (e : K) (b : Box (Nat → K)) :
    ∀ n, n ≤ N → ∀ a j, j < N →
      (elimInner N p i e n b).val (a*N + j)
        = if a = i ∧ j < n then b.val (a*N + j) - e * b.val (p*N + j) else b.val (a*N + j) := by
  intro n
  induction n with
  | zero => intro _ a j _; simp [elimInner, forUp]
  | succ n ih =>
    intro hn a j hj
    have hnN : n < N := by omega
    have ih' := ih (by omega)
    show fset (elimInner N p i e n b).val (i*N + n)
      ((elimInner N p i e n b).val (i*N + n) - e * (elimInner N p i e n b).val (p*N + n)) (a*N + j) = _
    unfold fset
    simp only [off_eq_iff hj hnN]
    rw [ih' i n hnN, ih' p n hnN, ih' a j hj]
    have hpi' : ¬ p = i := fun h => hpi h.symm
    by_cases h1 : a = i
    · subst h1
      rcases Nat.lt_trichotomy j n with h | h | h
      · have : ¬ j = n := by omega
        have h5 : j < n + 1 := by omega
        simp [h, this, h5]
      · subst h; simp [hpi']
      · have : ¬ j = n := by omega
        have h5 : ¬ j < n + 1 := by omega
        have h6 : ¬ j < n := by omega
        simp [this, h5, h6]
    · simp [h1]

theorem elimOuter_succ (N : Nat) (indr : Nat → Nat) (p q n : Nat) (b : Box (Nat → K)) :
    elimOuter N indr p q (n + 1) b =
      (if indr n ≠ p then
        elimInner N p (indr n) ((elimOuter N indr p q n b).val (indr n * N + q)) N
          ⟨fset (elimOuter N indr p q n b).val (indr n * N + q) (0 : K),
           (elimOuter N indr p q n b).cnt + 1⟩
       else elimOuter N indr p q n b) := rfl

theorem elimOuter_spec (N : Nat) (indr : Nat → Nat) (p q : Nat) (hq : q < N)
    (hinj : ∀ i j, i < N → j < N → indr i = indr j → i = j) (b : Box (Nat → K)) :
    ∀ n, n ≤ N →
      (∀ a j, j < N → (a = p ∨ ∀ row, row < n → indr row ≠ a) →
          (elimOuter N indr p q n b).val (a*N + j) = b.val (a*N + j)) ∧
      (∀ row j, row < n → j < N → indr row ≠ p →
          (elimOuter N indr p q n b).val (indr row * N + j)
            = (if j = q then 0 else b.val (indr row * N + j))
                - b.val (indr row * N + q) * b.val (p*N + j)) := by
  intro n
  induction n with
  | zero =>
    intro _
    exact ⟨fun a j _ _ => rfl, fun row j hrow _ _ => absurd hrow (Nat.not_lt_zero _)⟩
  | succ n ih =>
    intro hn
    have hnN : n < N := by omega
    obtain ⟨ih1, ih2⟩ := ih (by omega)
    rw [elimOuter_succ]
    by_cases hr : indr n = p
    · rw [if_neg (by simpa using hr)]
      refine ⟨?_, ?_⟩
      · intro a j hj ha
        refine ih1 a j hj ?_
        rcases ha with ha | ha
        · exact Or.inl ha
        · exact Or.inr (fun row hrow => ha row (by omega))
      · intro row j hrow hj hne
        have : row ≠ n := by
          intro he; rw [he] at hne; exact hne hr
        exact ih2 row j (by omega) hj hne
    · rw [if_pos hr]
      have hfresh : ∀ row, row < n → indr row ≠ indr n := by
        intro row hrow he
        have := hinj row n (by omega) hnN he
        omega
      have hpn : ¬ p = indr n := fun h => hr h.symm
      refine ⟨?_, ?_⟩
      · intro a j hj ha
        have han : a ≠ indr n := by
          rcases ha with ha | ha
          · rw [ha]; exact hpn
          · exact fun h => ha n (Nat.lt_succ_self n) h.symm
        rw [elimInner_spec N p (indr n) hr _ _ N (Nat.le_refl N) a j hj]
        rw [if_neg (fun h => han h.1)]
        show fset _ _ _ _ = _
        rw [fset_off N _ _ _ _ _ _ hj hq, if_neg (fun h => han h.1)]
        refine ih1 a j hj ?_
        rcases ha with ha | ha
        · exact Or.inl ha
        · exact Or.inr (fun row hrow => ha row (by omega))
      · intro row j hrow hj hne
        rw [elimInner_spec N p (indr n) hr _ _ N (Nat.le_refl N) (indr row) j hj]
        by_cases hrn : row = n
        · subst hrn
          rw [if_pos ⟨rfl, hj⟩]
          show fset _ _ _ _ - _ * fset _ _ _ _ = _
          rw [fset_off N _ _ _ _ (indr row) j hj hq, fset_off N _ _ _ _ p j hj hq,
            if_neg (fun h : p = indr row ∧ j = q => hpn h.1)]
          rw [ih1 (indr row) q hq (Or.inr hfresh), ih1 p j hj (Or.inl rfl),
            ih1 (indr row) j hj (Or.inr hfresh)]
          by_cases hjq : j = q
          · simp [hjq]
          · simp [hjq]
        · have hrow' : row < n := by omega
          have hne' : indr row ≠ indr n := hfresh row hrow'
          rw [if_neg (fun h => hne' h.1)]
          show fset _ _ _ _ = _
          rw [fset_off N _ _ _ _ _ _ hj hq, if_neg (fun h => hne' h.1)]
          exact ih2 row j hrow' hj hne

/-- closed form of the scaling loop followed by the elimination loops -/
theorem gjCore_spec (N : Nat) (indr' : Nat → Nat)
    (hrlt' : ∀ i, i < N → indr' i < N)
    (hrinj' : ∀ i j, i < N → j < N → indr' i = indr' j → i = j)
    (p q : Nat) (hqN : q < N) (pivot : K) (m : Nat → K) :
    ∀ i j, i < N → j < N →
      (elimOuter N indr' p q N
        ⟨(scaleLoop N p (1 / pivot) N ⟨fset m (p*N + q) 1, 0⟩).val, 0⟩).val (i*N + j) =
        if i = p then (if j = q then 1 else m (p*N + j)) * (1 / pivot)
        else (if j = q then 0 else m (i*N + j))
              - m (i*N + q) * ((if j = q then 1 else m (p*N + j)) * (1 / pivot)) := by
  have hsurj := surj_of_inj N _ hrlt' hrinj'
  have hb1 : ∀ a j, j < N →
      (scaleLoop N p (1 / pivot) N ⟨fset m (p*N + q) 1, 0⟩).val (a*N + j)
        = if a = p then (if j = q then 1 else m (p*N + j)) * (1 / pivot)
          else m (a*N + j) := by
    intro a j hj
    rw [scaleLoop_spec N p (1 / pivot) _ N (Nat.le_refl N) a j hj]
    show (if a = p ∧ j < N then fset m (p*N + q) 1 (a*N + j) * (1 / pivot)
          else fset m (p*N + q) 1 (a*N + j)) = _
    rw [fset_off N _ _ _ _ a j hj hqN]
    by_cases ha : a = p
    · subst ha
      rw [if_pos ⟨rfl, hj⟩, if_pos rfl]
      by_cases hjq : j = q <;> simp [hjq]
    · simp [ha]
  generalize scaleLoop N p (1 / pivot) N ⟨fset m (p*N + q) 1, 0⟩ = b1 at hb1 ⊢
  obtain ⟨ho1, ho2⟩ := elimOuter_spec N indr' p q hqN hrinj' ⟨b1.val, 0⟩ N (Nat.le_refl N)
  intro i j hi hj
  by_cases hip : i = p
  · rw [if_pos hip, ho1 i j hj (Or.inl hip)]
    show b1.val (i*N + j) = _
    rw [hb1 i j hj, if_pos hip]
  · rw [if_neg hip]
    obtain ⟨row, hrow, hri⟩ := hsurj i hi
    subst hri
    rw [ho2 row j hrow hj hip]
    show (if j = q then 0 else b1.val (indr' row * N + j))
      - b1.val (indr' row * N + q) * b1.val (p*N + j) = _
    rw [hb1 _ j hj, hb1 _ q hqN, hb1 p j hj, if_neg hip, if_neg hip, if_pos rfl]

end Loops

/-! ### pivot search -/

theorem pivotSearch_spec {K : Type} [Scalar K] (N step : Nat) (g : GJ K) :
    (pivotSearch N step g).1 = 0 ∨
      (step ≤ (pivotSearch N step g).2.1 ∧ (pivotSearch N step g).2.1 < N ∧
       step ≤ (pivotSearch N step g).2.2 ∧ (pivotSearch N step g).2.2 < N ∧
       (pivotSearch N step g).1
          = g.m (g.indr (pivotSearch N step g).2.1 * N + g.indc (pivotSearch N step g).2.2)) := by
  unfold pivotSearch
  refine gj_forUp_inv (fun acc : K × Nat × Nat => acc.1 = 0 ∨
      (step ≤ acc.2.1 ∧ acc.2.1 < N ∧ step ≤ acc.2.2 ∧ acc.2.2 < N ∧
       acc.1 = g.m (g.indr acc.2.1 * N + g.indc acc.2.2))) _ _ _ (Or.inl rfl) ?_
  intro a ha acc hacc
  refine gj_forUp_inv (fun acc : K × Nat × Nat => acc.1 = 0 ∨
      (step ≤ acc.2.1 ∧ acc.2.1 < N ∧ step ≤ acc.2.2 ∧ acc.2.2 < N ∧
       acc.1 = g.m (g.indr acc.2.1 * N + g.indc acc.2.2))) _ _ _ hacc ?_
  intro b hb acc hacc
  dsimp only
  split
  · refine Or.inr ⟨?_, ?_, ?_, ?_, rfl⟩ <;> dsimp only <;> omega
  · exact hacc

section Step
variable {K : Type} [Field K] [LinearOrder K] [IsStrictOrderedRing K]

theorem pivotSearch_spec_field (sq : K → K) (N step : Nat) (g : GJ K) :
    (@pivotSearch K (fieldScalar K sq) N step g).1 = (0 : K) ∨
      (step ≤ (@pivotSearch K (fieldScalar K sq) N step g).2.1 ∧
       (@pivotSearch K (fieldScalar K sq) N step g).2.1 < N ∧
       step ≤ (@pivotSearch K (fieldScalar K sq) N step g).2.2 ∧
       (@pivotSearch K (fieldScalar K sq) N step g).2.2 < N ∧
       (@pivotSearch K (fieldScalar K sq) N step g).1
          = g.m (g.indr (@pivotSearch K (fieldScalar K sq) N step g).2.1 * N
                  + g.indc (@pivotSearch K (fieldScalar K sq) N step g).2.2)) :=
  @pivotSearch_spec K (fieldScalar K sq) N step g

/-- closed form of one elimination step -/
theorem gjStep_spec (sq : K → K) (N : Nat) (tol : K) (htol : 0 ≤ tol) (k : Nat) (hk : k < N)
    (g g' : GJ K)
    (hrlt : ∀ i, i < N → g.indr i < N)
    (hrinj : ∀ i j, i < N → j < N → g.indr i = g.indr j → i = j)
    (hclt : ∀ i, i < N → g.indc i < N)
    (h : @gjStep K (fieldScalar K sq) N tol k g = some g') :
    ∃ pr pc, k ≤ pr ∧ pr < N ∧ k ≤ pc ∧ pc < N ∧
      g'.indr = fswap g.indr k pr ∧ g'.indc = fswap g.indc k pc ∧
      g.m (g'.indr k * N + g'.indc k) ≠ 0 ∧
      ∀ i j, i < N → j < N → g'.m (i*N + j) =
        if i = g'.indr k then
          (if j = g'.indc k then 1 else g.m (g'.indr k * N + j))
            * (1 / g.m (g'.indr k * N + g'.indc k))
        else
          (if j = g'.indc k then 0 else g.m (i*N + j))
            - g.m (i*N + g'.indc k)
              * ((if j = g'.indc k then 1 else g.m (g'.indr k * N + j))
                  * (1 / g.m (g'.indr k * N + g'.indc k))) := by
  rw [gjStep_eq] at h
  have hps := pivotSearch_spec_field sq N k g
  generalize @pivotSearch K (fieldScalar K sq) N k g = ps at h hps
  obtain ⟨pivot, pr, pc⟩ := ps
  dsimp only at h hps
  by_cases hnot : (if 0 ≤ pivot then pivot else -pivot) ≤ tol
  · rw [if_pos hnot] at h
    cases h
  · rw [if_neg hnot] at h
    have hpiv0 : pivot ≠ 0 := by
      intro h0
      apply hnot
      rw [h0]
      simpa using htol
    rcases hps with h0 | ⟨hpr1, hpr2, hpc1, hpc2, hpv⟩
    · exact absurd h0 hpiv0
    have e1 : (if k ≠ pr then fswap g.indr k pr else g.indr) = fswap g.indr k pr := by
      by_cases hh : k = pr
      · rw [if_neg (by simpa using hh), ← hh, fswap_self]
      · rw [if_pos hh]
    have e2 : (if k ≠ pc then fswap g.indc k pc else g.indc) = fswap g.indc k pc := by
      by_cases hh : k = pc
      · rw [if_neg (by simpa using hh), ← hh, fswap_self]
      · rw [if_pos hh]
    rw [e1, e2] at h
    simp only [Option.some.injEq] at h
    subst h
    refine ⟨pr, pc, hpr1, hpr2, hpc1, hpc2, rfl, rfl, ?_, ?_⟩
    all_goals dsimp only
    all_goals
      have hp : fswap g.indr k pr k = g.indr pr := by unfold fswap; rw [if_pos rfl]
      have hq : fswap g.indc k pc k = g.indc pc := by unfold fswap; rw [if_pos rfl]
    · rw [hp, hq, ← hpv]; exact hpiv0
    · have hqN : fswap g.indc k pc k < N := by rw [hq]; exact hclt pc hpc2
      have hpiv : g.m (fswap g.indr k pr k * N + fswap g.indc k pc k) = pivot := by
        rw [hp, hq, ← hpv]
      rw [hpiv]
      have hrlt' : ∀ i, i < N → fswap g.indr k pr i < N := by
        intro i hi; rw [fswap_eq_comp]; exact hrlt _ (swIdx_lt hk hpr2 hi)
      have hrinj' : ∀ i j, i < N → j < N → fswap g.indr k pr i = fswap g.indr k pr j → i = j := by
        intro i j hi hj he
        rw [fswap_eq_comp, fswap_eq_comp] at he
        have := hrinj _ _ (swIdx_lt hk hpr2 hi) (swIdx_lt hk hpr2 hj) he
        rw [← swIdx_invol k pr i, this, swIdx_invol]
      exact gjCore_spec N _ hrlt' hrinj' _ _ hqN pivot g.m

end Step

/-! ### the invariant: the storage holds `[E·A | E]` interleaved -/

theorem gjEliminate_succ_some {K : Type} [Scalar K] (N : Nat) (tol : K) (s : Nat) (g g'' : GJ K)
    (h : gjEliminate N tol (s + 1) g = some g'') :
    ∃ g', gjEliminate N tol s g = some g' ∧ gjStep N tol s g' = some g'' := by
  rw [gjEliminate] at h
  split at h
  · cases h
  · exact ⟨_, ‹_›, h⟩

section Invariant
variable {K : Type} [Field K] [LinearOrder K] [IsStrictOrderedRing K]

/-- `(E·A)(i,j)` -/
def EA (N : Nat) (E : Nat → Nat → K) (A : Nat → K) (i j : Nat) : K :=
  ∑ b ∈ range N, E i b * A (b*N + j)

/-- accumulated row operations after the step with pivot `(p,q)`, `piv` -/
def stepE (N : Nat) (E : Nat → Nat → K) (m : Nat → K) (p q : Nat) (piv : K) : Nat → Nat → K :=
  fun i b => if i = p then E p b / piv else E i b - m (i*N + q) / piv * E p b

/-- After `k` steps: `E` is the product of the row operations so far (`E·A` has unit vectors in
    the pivot columns `indc s`, `s < k`; `E` differs from the identity only in the columns
    `indr s`, `s < k`), and the storage holds column `indr s` of `E` in column `indc s` for
    `s < k`, and the columns of `E·A` elsewhere. -/
structure GJInv (N : Nat) (A : Nat → K) (k : Nat) (m : Nat → K) (indr indc : Nat → Nat)
    (E : Nat → Nat → K) : Prop where
  rlt : ∀ i, i < N → indr i < N
  rinj : ∀ i j, i < N → j < N → indr i = indr j → i = j
  clt : ∀ i, i < N → indc i < N
  cinj : ∀ i j, i < N → j < N → indc i = indc j → i = j
  pa : ∀ i, i < N → ∀ s, s < k → EA N E A i (indc s) = if i = indr s then 1 else 0
  pb : ∀ i, i < N → ∀ t, k ≤ t → t < N → E i (indr t) = if i = indr t then 1 else 0
  pc : ∀ i, i < N → ∀ s, s < k → m (i*N + indc s) = E i (indr s)
  pd : ∀ i, i < N → ∀ t, k ≤ t → t < N → m (i*N + indc t) = EA N E A i (indc t)

theorem GJInv_init (N : Nat) (A : Nat → K) :
    GJInv N A 0 A id id (fun i b => if i = b then 1 else 0) := by
  refine ⟨fun i hi => hi, fun i j _ _ h => h, fun i hi => hi, fun i j _ _ h => h, ?_, ?_, ?_, ?_⟩
  · intro i _ s hs; omega
  · intro i _ t _ _; rfl
  · intro i _ s hs; omega
  · intro i hi t _ _
    unfold EA
    simp only [id, ite_mul, one_mul, zero_mul]
    rw [Finset.sum_ite_eq]
    rw [if_pos (mem_range.mpr hi)]

theorem GJInv_swap {N : Nat} {A : Nat → K} {k : Nat} {m : Nat → K} {indr indc : Nat → Nat}
    {E : Nat → Nat → K} (h : GJInv N A k m indr indc E) (hk : k < N)
    (pr pc : Nat) (hpr1 : k ≤ pr) (hpr2 : pr < N) (hpc1 : k ≤ pc) (hpc2 : pc < N) :
    GJInv N A k m (fswap indr k pr) (fswap indc k pc) E := by
  refine ⟨?_, ?_, ?_, ?_, ?_, ?_, ?_, ?_⟩
  · intro i hi; rw [fswap_eq_comp]; exact h.rlt _ (swIdx_lt hk hpr2 hi)
  · intro i j hi hj he
    rw [fswap_eq_comp, fswap_eq_comp] at he
    have := h.rinj _ _ (swIdx_lt hk hpr2 hi) (swIdx_lt hk hpr2 hj) he
    rw [← swIdx_invol k pr i, this, swIdx_invol]
  · intro i hi; rw [fswap_eq_comp]; exact h.clt _ (swIdx_lt hk hpc2 hi)
  · intro i j hi hj he
    rw [fswap_eq_comp, fswap_eq_comp] at he
    have := h.cinj _ _ (swIdx_lt hk hpc2 hi) (swIdx_lt hk hpc2 hj) he
    rw [← swIdx_invol k pc i, this, swIdx_invol]
  · intro i hi s hs
    rw [fswap_eq_comp, fswap_eq_comp, swIdx_low (Nat.le_refl k) hpr1 hs,
      swIdx_low (Nat.le_refl k) hpc1 hs]
    exact h.pa i hi s hs
  · intro i hi t ht htN
    rw [fswap_eq_comp]
    exact h.pb i hi _ (swIdx_ge (Nat.le_refl k) hpr1 ht) (swIdx_lt hk hpr2 htN)
  · intro i hi s hs
    rw [fswap_eq_comp, fswap_eq_comp, swIdx_low (Nat.le_refl k) hpr1 hs,
      swIdx_low (Nat.le_refl k) hpc1 hs]
    exact h.pc i hi s hs
  · intro i hi t ht htN
    rw [fswap_eq_comp]
    exact h.pd i hi _ (swIdx_ge (Nat.le_refl k) hpc1 ht) (swIdx_lt hk hpc2 htN)

theorem EA_stepE (N : Nat) (E : Nat → Nat → K) (A m : Nat → K) (p q : Nat) (piv : K) (i j : Nat) :
    EA N (stepE N E m p q piv) A i j =
      if i = p then EA N E A p j / piv
      else EA N E A i j - m (i*N + q) / piv * EA N E A p j := by
  by_cases hip : i = p
  · rw [if_pos hip]
    unfold EA
    rw [Finset.sum_div]
    refine sum_congr rfl (fun b _ => ?_)
    unfold stepE
    rw [if_pos hip]
    ring
  · rw [if_neg hip]
    unfold EA
    rw [Finset.mul_sum, ← Finset.sum_sub_distrib]
    refine sum_congr rfl (fun b _ => ?_)
    unfold stepE
    rw [if_neg hip]
    ring

/-- the elimination with pivot `(indr k, indc k)` advances the invariant -/
theorem GJInv_elim {N : Nat} {A : Nat → K} {k : Nat} {m : Nat → K} {indr indc : Nat → Nat}
    {E : Nat → Nat → K} (h : GJInv N A k m indr indc E) (hk : k < N)
    (hpiv : m (indr k * N + indc k) ≠ 0) (m2 : Nat → K)
    (hm2 : ∀ i j, i < N → j < N → m2 (i*N + j) =
        if i = indr k then
          (if j = indc k then 1 else m (indr k * N + j)) * (1 / m (indr k * N + indc k))
        else
          (if j = indc k then 0 else m (i*N + j))
            - m (i*N + indc k)
              * ((if j = indc k then 1 else m (indr k * N + j)) * (1 / m (indr k * N + indc k)))) :
    GJInv N A (k + 1) m2 indr indc
      (stepE N E m (indr k) (indc k) (m (indr k * N + indc k))) := by
  have hpN : indr k < N := h.rlt k hk
  have hqN : indc k < N := h.clt k hk
  have hpivEA : EA N E A (indr k) (indc k) = m (indr k * N + indc k) :=
    (h.pd _ hpN k (Nat.le_refl k) hk).symm
  have hrne : ∀ s, s < N → s ≠ k → indr s ≠ indr k := fun s hs hne he => hne (h.rinj s k hs hk he)
  have hcne : ∀ s, s < N → s ≠ k → indc s ≠ indc k := fun s hs hne he => hne (h.cinj s k hs hk he)
  have hEpp : E (indr k) (indr k) = 1 := by
    rw [h.pb _ hpN k (Nat.le_refl k) hk, if_pos rfl]
  generalize hpivdef : m (indr k * N + indc k) = piv at *
  refine ⟨h.rlt, h.rinj, h.clt, h.cinj, ?_, ?_, ?_, ?_⟩
  · -- (a)
    intro i hi s hs
    rw [EA_stepE]
    by_cases hsk : s = k
    · subst hsk
      by_cases hip : i = indr s
      · rw [if_pos hip, if_pos hip, hpivEA, div_self hpiv]
      · rw [if_neg hip, if_neg hip, hpivEA, ← h.pd i hi s (Nat.le_refl s) hk,
          div_mul_cancel₀ _ hpiv, sub_self]
    · have hs' : s < k := by omega
      have hne := hrne s (by omega) hsk
      have h0 : EA N E A (indr k) (indc s) = 0 := by
        rw [h.pa _ hpN s hs', if_neg (fun he => hne he.symm)]
      by_cases hip : i = indr k
      · rw [if_pos hip, h0, zero_div, if_neg (fun he => hne (he.symm.trans hip))]
      · rw [if_neg hip, h0, mul_zero, sub_zero, h.pa i hi s hs']
  · -- (b)
    intro i hi t ht htN
    have hne := hrne t htN (by omega)
    have h0 : E (indr k) (indr t) = 0 := by
      rw [h.pb _ hpN t (by omega) htN, if_neg (fun he => hne he.symm)]
    unfold stepE
    by_cases hip : i = indr k
    · rw [if_pos hip, h0, zero_div, if_neg (fun he => hne (he.symm.trans hip))]
    · rw [if_neg hip, h0, mul_zero, sub_zero, h.pb i hi t (by omega) htN]
  · -- (c)
    intro i hi s hs
    by_cases hsk : s = k
    · subst hsk
      rw [hm2 i _ hi hqN]
      unfold stepE
      by_cases hip : i = indr s
      · subst hip
        simp only [↓reduceIte]
        rw [hEpp]
        ring
      · have hE0 : E i (indr s) = 0 := by
          rw [h.pb i hi s (Nat.le_refl s) hk, if_neg hip]
        simp only [hip, ↓reduceIte]
        rw [hEpp, hE0]
        ring
    · have hs' : s < k := by omega
      have hne := hcne s (by omega) hsk
      rw [hm2 i _ hi (h.clt s (by omega))]
      unfold stepE
      by_cases hip : i = indr k
      · subst hip
        simp only [hne, ↓reduceIte]
        rw [h.pc _ hpN s hs']
        ring
      · simp only [hip, hne, ↓reduceIte]
        rw [h.pc _ hpN s hs', h.pc i hi s hs']
        ring
  · -- (d)
    intro i hi t ht htN
    have hne := hcne t htN (by omega)
    rw [hm2 i _ hi (h.clt t htN), EA_stepE]
    by_cases hip : i = indr k
    · subst hip
      simp only [hne, ↓reduceIte]
      rw [h.pd _ hpN t (by omega) htN]
      ring
    · simp only [hip, hne, ↓reduceIte]
      rw [h.pd _ hpN t (by omega) htN, h.pd i hi t (by omega) htN]
      ring

/-- one step of the model advances the invariant -/
theorem gj_invariant_step (sq : K → K) (N : Nat) (tol : K) (htol : 0 ≤ tol) (A : Nat → K)
    (k : Nat) (hk : k < N) (g g' : GJ K) (E : Nat → Nat → K)
    (hinv : GJInv N A k g.m g.indr g.indc E)
    (h : @gjStep K (fieldScalar K sq) N tol k g = some g') :
    ∃ E', GJInv N A (k + 1) g'.m g'.indr g'.indc E' := by
  obtain ⟨pr, pc, hpr1, hpr2, hpc1, hpc2, hir, hic, hpiv, hm2⟩ :=
    gjStep_spec sq N tol htol k hk g g' hinv.rlt hinv.rinj hinv.clt h
  have hsw := GJInv_swap hinv hk pr pc hpr1 hpr2 hpc1 hpc2
  rw [← hir, ← hic] at hsw
  exact ⟨_, GJInv_elim hsw hk hpiv g'.m hm2⟩

/-- the invariant holds after `k ≤ N` steps -/
theorem gj_invariant (sq : K → K) (N : Nat) (tol : K) (htol : 0 ≤ tol) (A : Nat → K) :
    ∀ k, k ≤ N → ∀ g, @gjEliminate K (fieldScalar K sq) N tol k ⟨A, id, id, 0, 0⟩ = some g →
      ∃ E, GJInv N A k g.m g.indr g.indc E := by
  intro k
  induction k with
  | zero =>
    intro _ g h
    have : g = ⟨A, id, id, 0, 0⟩ := by
      have h' : some (⟨A, id, id, 0, 0⟩ : GJ K) = some g := h
      exact (Option.some.inj h').symm
    subst this
    exact ⟨_, GJInv_init N A⟩
  | succ k ih =>
    intro hk g h
    obtain ⟨g1, h1, h2⟩ := @gjEliminate_succ_some K (fieldScalar K sq) N tol k _ g h
    obtain ⟨E, hE⟩ := ih (by omega) g1 h1
    exact gj_invariant_step sq N tol htol A k (by omega) g1 g E hE h2

end Invariant

/-! ### `invert` -/

theorem invert_badRank {K : Type} [Scalar K] (rows cols : Nat) (tol : K) (A : Nat → K)
    (h : rows ≠ cols) : invert rows cols tol A = .error .badRank := by
  unfold invert
  rw [if_pos h]

section Final
variable {K : Type} [Field K] [LinearOrder K] [IsStrictOrderedRing K]

/-- the storage `f` (offset `i*N + j`) as a Mathlib matrix -/
def toM (N : Nat) (f : Nat → K) : Matrix (Fin N) (Fin N) K := fun i j => f (i.val * N + j.val)

theorem toM_mul_eq_one_iff (N : Nat) (X A : Nat → K) :
    toM N X * toM N A = 1 ↔
      ∀ a j, a < N → j < N →
        ∑ b ∈ range N, X (a*N + b) * A (b*N + j) = if a = j then 1 else 0 := by
  constructor
  · intro h a j ha hj
    have := congrFun (congrFun h ⟨a, ha⟩) ⟨j, hj⟩
    rw [Matrix.mul_apply, Matrix.one_apply] at this
    simp only [toM] at this
    rw [Fin.sum_univ_eq_sum_range (fun b => X (a*N + b) * A (b*N + j)) N] at this
    rw [this]
    simp only [Fin.mk.injEq]
  · intro h
    ext i j
    rw [Matrix.mul_apply, Matrix.one_apply]
    simp only [toM]
    rw [Fin.sum_univ_eq_sum_range (fun b => X (i.val*N + b) * A (b*N + j.val)) N,
      h i.val j.val i.2 j.2]
    simp only [Fin.ext_iff]

/-- `invert` returns a left inverse -/
theorem invert_left (sq : K → K) (N : Nat) (tol : K) (htol : 0 ≤ tol) (A X : Nat → K)
    (h : @invert K (fieldScalar K sq) N N tol A = .ok X) :
    ∀ a j, a < N → j < N →
      ∑ b ∈ range N, X (a*N + b) * A (b*N + j) = if a = j then 1 else 0 := by
  unfold invert at h
  rw [if_neg (fun hne => hne rfl)] at h
  dsimp only at h
  split at h
  · cases h
  · rename_i g hg
    have hX : X = undoPermutation N g.indr g.indc g.m := (Except.ok.inj h).symm
    obtain ⟨E, hE⟩ := gj_invariant sq N tol htol A N (Nat.le_refl N) g hg
    have hundo := undoPermutation_spec N g.indr g.indc g.m ⟨hE.rlt, hE.rinj⟩ ⟨hE.clt, hE.cinj⟩
    have hrs := surj_of_inj N g.indr hE.rlt hE.rinj
    have hcs := surj_of_inj N g.indc hE.clt hE.cinj
    intro a j ha hj
    obtain ⟨s, hs, rfl⟩ := hcs a ha
    obtain ⟨u, hu, rfl⟩ := hcs j hj
    have hrow : ∀ b, b < N → X (g.indc s * N + b) = E (g.indr s) b := by
      intro b hb
      obtain ⟨t, ht, rfl⟩ := hrs b hb
      rw [hX, hundo s t hs ht]
      exact hE.pc (g.indr s) (hE.rlt s hs) t ht
    have hsum : ∑ b ∈ range N, X (g.indc s * N + b) * A (b*N + g.indc u)
        = EA N E A (g.indr s) (g.indc u) := by
      unfold EA
      exact sum_congr rfl (fun b hb => by rw [hrow b (mem_range.mp hb)])
    rw [hsum, hE.pa (g.indr s) (hE.rlt s hs) u hu]
    by_cases hsu : s = u
    · subst hsu
      rw [if_pos rfl, if_pos rfl]
    · rw [if_neg (fun he => hsu (hE.rinj _ _ hs hu he)),
        if_neg (fun he => hsu (hE.cinj _ _ hs hu he))]

/-- `invert` on a square matrix, when it does not throw `Singular`, returns the two-sided inverse -/
theorem invert_correct_matrix (sq : K → K) (N : Nat) (tol : K) (htol : 0 ≤ tol) (A X : Nat → K)
    (h : @invert K (fieldScalar K sq) N N tol A = .ok X) :
    toM N X * toM N A = 1 ∧ toM N A * toM N X = 1 := by
  have h1 : toM N X * toM N A = 1 :=
    (toM_mul_eq_one_iff N X A).mpr (invert_left sq N tol htol A X h)
  exact ⟨h1, mul_eq_one_comm.mp h1⟩

theorem invert_correct (sq : K → K) (N : Nat) (tol : K) (htol : 0 ≤ tol) (A X : Nat → K)
    (h : @invert K (fieldScalar K sq) N N tol A = .ok X) :
    (∀ a j, a < N → j < N →
      ∑ b ∈ Finset.range N, X (a * N + b) * A (b * N + j) = if a = j then 1 else 0) ∧
    (∀ a j, a < N → j < N →
      ∑ b ∈ Finset.range N, A (a * N + b) * X (b * N + j) = if a = j then 1 else 0) := by
  obtain ⟨h1, h2⟩ := invert_correct_matrix sq N tol htol A X h
  exact ⟨(toM_mul_eq_one_iff N X A).mp h1, (toM_mul_eq_one_iff N A X).mp h2⟩

end Final

/-! ### non-vacuity: `[[0,2],[1,0]]` over `ℚ` (needs a pivot swap) -/

section Example

def gjAEx : Nat → ℚ := fun k => if k = 0 then 0 else if k = 1 then 2 else if k = 2 then 1 else 0

/-- checker used to phrase the evaluation as a closed Boolean computation -/
def gjChkEx (r : Except InvErr (Nat → ℚ)) : Bool :=
  match r with
  | .ok X => decide (X 0 = 0) && decide (X 1 = 1) && decide (X 2 = 1 / 2) && decide (X 3 = 0)
  | .error _ => false

theorem gjChkEx_ok {r : Except InvErr (Nat → ℚ)} (h : gjChkEx r = true) :
    ∃ X, r = .ok X ∧ X 0 = 0 ∧ X 1 = 1 ∧ X 2 = 1 / 2 ∧ X 3 = 0 := by
  match r, h with
  | .ok X, h =>
    simp only [gjChkEx, Bool.and_eq_true, decide_eq_true_eq] at h
    obtain ⟨⟨⟨h0, h1⟩, h2⟩, h3⟩ := h
    exact ⟨X, rfl, h0, h1, h2, h3⟩
  | .error _, h => simp [gjChkEx] at h

/-- `invert` accepts `[[0,2],[1,0]]` (pivot search swaps rows and columns) and returns
    `[[0,1],[1/2,0]]` -/
theorem invert_example :
    ∃ X, @invert ℚ (fieldScalar ℚ id) 2 2 0 gjAEx = .ok X ∧
      X 0 = 0 ∧ X 1 = 1 ∧ X 2 = 1 / 2 ∧ X 3 = 0 := by
  apply gjChkEx_ok
  norm_num [gjChkEx, invert, gjEliminate, gjStep, pivotSearch, cabs, forUp, fset, fswap,
    undoPermutation, undoRows, undoCols, swapRows, swapCols, gjAEx]

end Example

end Gama.MatVec
