/-
  `envSolve` on the packed kernels: the chain from the factor `envCore` computes (`Ls.Env.factor`: dense normal matrix of
  the homogenised system with permuted columns, `Ls.Env.ldl`, `Ls.Env.solve`) to the packed profile storage
  (`Env.ofSparse` = `Envelope::set`, `Env.cholDec`, `Env.solve`) of the sparse matrix `Homogenization::run` produced.

    * `build_congr`, `ldl_congr` : `Ls.Env.ldl` depends on its matrix argument only through the entries of the lower
                                   triangle of the leading block;
    * `isDenseOf_of_denseRow`    : the dense reading `Cov.denseRow (rowEntries r) c` (C10's vocabulary) is the dense reading
                                   `EnvLsBridge.IsDenseOf` (C16's vocabulary);
    * `factor_rows_eq_packed`    : rows / defect / particular solution of `Ls.Env.factor` = the packed kernels.
-/
import Gama.Lemmas.EnvelopeLsBridge
import Gama.Lemmas.HomEnvBridge
import Gama.Lemmas.Ls.ComposeEnvSolve

namespace Gama.Ls
open Gama.Ls.Env

set_option linter.unusedSectionVars false
set_option linter.unusedVariables false

section Generic
variable {K : Type} [Scalar K]

theorem Env.build_congr {α : Type} (f g : Nat → Array α → α) :
    ∀ n, (∀ j, j < n → ∀ acc, f j acc = g j acc) → Env.build f n = Env.build g n
  | 0, _ => rfl
  | n + 1, h => by
    show (Env.build f n).push _ = (Env.build g n).push _
    rw [Env.build_congr f g n (fun j hj => h j (by omega)), h n (by omega)]

/-- `cholDec` on the leading `n × n` block reads the lower triangle of that block only -/
theorem Env.ldl_congr (N N' : Nat → Nat → K) (tol : K) (n : Nat)
    (h : ∀ i j, j ≤ i → i < n → N i j = N' i j) : Env.ldl N tol n = Env.ldl N' tol n := by
  unfold Env.ldl
  apply Env.build_congr
  intro i hi rows
  have hy : Env.yRow N rows i = Env.yRow N' rows i := by
    unfold Env.yRow
    exact Env.build_congr _ _ i (fun j hj acc => by rw [h i j (by omega) hi])
  unfold Env.rowStep
  rw [hy, h i i (Nat.le_refl i) hi]

end Generic
section Field
variable {K : Type} [Field K] [LinearOrder K] [IsStrictOrderedRing K] [SqrtFn K]
attribute [local instance 2000] scalarOfField

/-- C10's dense reading of a stored row (sum of the values stored with column `v`) is C16's -/
theorem denseRow_rowEntries (A : SMat K) (r v : Nat) :
    Cov.denseRow (@SMat.rowEntries K ⟨0⟩ A r) v =
      @Dense.sum K (ordFieldScalar K (SqrtFn.sq : K → K))
        (((A.rowRange r).filter fun q => A.cind[q]! == v).map fun q => A.nonz.getD q 0) := by
  have key : ∀ (l : List Nat) (a : K),
      ((l.map fun p => (A.cind[p]!, A.nonz.getD p 0)).filter (fun e => e.1 == v)).foldl (fun acc e => acc + e.2) a =
        ((l.filter fun q => A.cind[q]! == v).map fun q => A.nonz.getD q 0).foldl (· + ·) a := by
    intro l
    induction l with
    | nil => intro a; rfl
    | cons p l ih =>
      intro a
      simp only [List.map_cons, List.filter_cons]
      by_cases hc : (A.cind[p]! == v) = true
      · simp only [hc, if_true, List.map_cons, List.foldl_cons]
        exact ih _
      · simp only [hc, if_false, Bool.false_eq_true]
        exact ih _
  exact key (A.rowRange r) 0

theorem isDenseOf_of_denseRow (sm : SMat K) (At : DMat K)
    (hAt : ∀ s c, s < sm.rows → c < sm.cols →
      Env.mget At s c = Cov.denseRow (@SMat.rowEntries K ⟨0⟩ sm (s + 1)) (c + 1)) :
    EnvLsBridge.IsDenseOfWith (SqrtFn.sq : K → K) sm At := by
  intro r v hr1 hr2 hv1 hv2
  have := hAt (r - 1) (v - 1) (by omega) (by omega)
  rw [show r - 1 + 1 = r by omega, show v - 1 + 1 = v by omega, denseRow_rowEntries] at this
  exact this

/-- the factor `envCore` computes from the dense homogenised matrix `At` is `Ls.Env.ldl` of the permuted normal
    matrix of the SPARSE matrix `sm` whose dense reading `At` is (C16's `Dense.normal`) -/
theorem factor_rows_eq (sm : SMat K) (hwf : sm.WF) (At : DMat K) (bt : Array K)
    (hAt : ∀ s c, s < sm.rows → c < sm.cols →
      Env.mget At s c = Cov.denseRow (@SMat.rowEntries K ⟨0⟩ sm (s + 1)) (c + 1))
    (o : SOrdering) (ho : o.IsPerm sm.cols) (ord : EnvOrd)
    (hp0 : ∀ i, i < sm.cols → ord.perm.getD i 0 = o.perm[i + 1]! - 1) (tol : K) :
    (Env.factor tol sm.rows sm.cols At bt ord).rows =
      Env.ldl (fun i j => @Dense.get K (ordFieldScalar K (SqrtFn.sq : K → K))
        (@Dense.normal K (ordFieldScalar K (SqrtFn.sq : K → K)) sm o.invp sm.cols) i j) tol sm.cols := by
  show Env.ldl (Env.mget _) tol sm.cols = _
  apply Env.ldl_congr
  intro i j hji hi
  have hj : j < sm.cols := by omega
  have hn := EnvLsBridge.normal_eq_ls (SqrtFn.sq : K → K) sm o ho
    (fun r hr1 hr2 q hq => Gama.Env.rowCols_range hwf hr1 hr2 (List.mem_map.mpr ⟨q, hq, rfl⟩))
    At (isDenseOf_of_denseRow sm At hAt) ord.perm hp0 i j hi hj
  rw [hn]
  show Env.vget ((Array.ofFn _).getD i #[]) j = _
  rw [getD_ofFn', dif_pos hi]
  show (Array.ofFn _).getD j 0 = _
  rw [getD_ofFn', dif_pos hj]

/-- the ordering `envSolve` uses (`Env.rcmOrd`, 0-based arrays) is C16's reverse Cuthill–McKee ordering
    `rcm (patGraph n pat)` of the pattern graph, and that is a valid `SOrdering` -/
theorem rcmOrd_packed (p : Problem K) (hrows : RowsOK p) (hdim : (dimsOf p).sum = p.m)
    (hh : Env.Homog K) (hhom : Env.homogenize p = .ok hh) :
    (rcm (Env.patGraph p.n hh.pat)).IsPerm p.n ∧
    ∀ i, i < p.n → (Env.rcmOrd p.n hh.pat).perm.getD i 0 = (rcm (Env.patGraph p.n hh.pat)).perm[i + 1]! - 1 := by
  have hpat := Env.homogenize_pat_range p hrows hdim hh hhom
  refine ⟨rcm_isPerm _ (Env.patGraph_inRange p.n hh.pat hpat) (Env.patGraph_sym p.n hh.pat hpat), ?_⟩
  intro i hi
  show (Array.ofFn (n := p.n) fun i => (rcm (Env.patGraph p.n hh.pat)).perm[i.1 + 1]! - 1).getD i 0 = _
  simp [Array.getD, hi]

theorem factor_c_size (tol : K) (m n : Nat) (At : DMat K) (bt : Array K) (ord : EnvOrd) :
    (Env.factor tol m n At bt ord).c.size = n := by
  simp [Env.factor, Env.vecOf]

end Field

end Gama.Ls
