/-
  Lemmas about the GKF run on events with real attribute strings (Model/GkfValues.lean) and the generated value-check
  table (Gen/GkfValueChecks.lean) against the documented one (Model/GkfDocValues.lean).
-/
import Gama.Model.GkfValues
import Gama.Model.GkfDocValues
import Gama.Lemmas.GkfGrammar
import Gama.Lemmas.LiteralsComplete
namespace Gama.Gkf
open Gama.Lit

/-! ### table facts (`decide` on the generated tables: re-checked whenever the C++ changes) -/

/-- every attribute name a handler compares has a check entry; a variable that reaches toDouble/toInteger/toIndex/deg2gon
    belongs to an attribute whose entry is a numeric (or word-list) check, and an attribute whose entry is `free` or an
    enumeration is bound to no such variable -/
def coverOk (h : Handler) : Bool :=
  (attrNames h).all (fun a =>
    match valueCheck h a with
    | none => false
    | some e =>
      match bindVar h a with
      | some v => (match e.check with
                   | .num _ _ => (numericSinks h).contains v
                   | .words _ _ => false
                   | _ => !(numericSinks h).contains v)
      | none => true)

theorem cover_table : ∀ h : Handler, coverOk h = true := forall_handler (by decide)

theorem doc_refined_table : ∀ h : Handler, docRefined h = true := forall_handler (by decide)

theorem doc_strict_table : ∀ h : Handler, docStrict h = true := forall_handler (by decide)

/-- in every handler the attribute loop (with the value checks) comes before anything that can leave the handler -/
def attrsBeforeRet : List Op → Bool
  | .setState _ :: r => attrsBeforeRet r
  | .attrs _ :: _ => true
  | _ => false

theorem attrs_first_table : ∀ h : Handler, attrsBeforeRet (handlerOps h) = true := forall_handler (by decide)

/-! ### the documented check implies the code's check -/

theorem checkLe_sound (a b : Check) (h : checkLe a b = true) (s : List Char) (hs : checkOk a s = true) :
    checkOk b s = true := by
  cases b with
  | free => rfl
  | enum vb =>
    cases a with
    | enum va =>
      simp only [checkLe, List.all_eq_true] at h
      simp only [checkOk, List.any_eq_true] at hs ⊢
      obtain ⟨v, hv, hvs⟩ := hs
      exact ⟨v, by simpa using h v hv, hvs⟩
    | _ => simp [checkLe] at h
  | num c' r' =>
    cases a with
    | num c r =>
      simp only [checkLe, Bool.and_eq_true, Bool.or_eq_true, beq_iff_eq] at h
      simp only [checkOk, Bool.and_eq_true] at hs ⊢
      obtain ⟨hc, hr⟩ := h
      rcases hc with hc | ⟨⟨hc1, hc2⟩, hc3⟩
      · subst hc
        refine ⟨hs.1, ?_⟩
        rcases hr with hr | hr
        · subst hr; exact hs.2
        · subst hr; rfl
      · subst hc1; subst hc2; subst hc3
        refine ⟨?_, rfl⟩
        have := hs.1
        simp only [convOk] at this ⊢
        simp [this]
    | _ => simp [checkLe] at h
  | words n' c' =>
    cases a with
    | words n c =>
      simp only [checkLe, Bool.and_eq_true, decide_eq_true_eq, beq_iff_eq] at h
      obtain ⟨hn, hc⟩ := h
      subst hc
      simp only [checkOk, Bool.and_eq_true, decide_eq_true_eq] at hs ⊢
      exact ⟨Nat.le_trans hs.1 hn, hs.2⟩
    | _ => simp [checkLe] at h

theorem entryLe_sound (d e : Entry) (h : entryLe d e = true) (s : List Char) (hs : entryOk d s = true) :
    entryOk e s = true := by
  simp only [entryLe, Bool.and_eq_true, Bool.or_eq_true, beq_iff_eq] at h
  obtain ⟨hc, hf⟩ := h
  simp only [entryOk, Bool.or_eq_true, Bool.and_eq_true] at hs ⊢
  rcases hf with hf | hf
  · rcases hs with hs | hs
    · left; rw [← hf]; exact hs
    · right; exact checkLe_sound _ _ hc s hs
  · right; rw [hf]; rfl

/-- a value of the documented literal language / range of a documented attribute passes the check the code applies -/
theorem valueOk_of_documented (h : Handler) (a : String) (d : Entry) (s : List Char) (hmem : a ∈ docNames h)
    (hd : docCheck h a = some d) (hs : entryOk d s = true) : valueOk h a s = true := by
  have := doc_refined_table h
  simp only [docRefined, List.all_eq_true] at this
  have h1 := this a hmem
  rw [hd] at h1
  unfold valueOk
  cases hv : valueCheck h a with
  | none => rfl
  | some e =>
    rw [hv] at h1
    exact entryLe_sound d e h1 s hs

/-- … and on the strict attributes a value outside the documented language / range is refused -/
theorem valueOk_false_of_undocumented (h : Handler) (a : String) (d : Entry) (s : List Char)
    (hstrict : a ∈ strictAttrs h) (hd : docCheck h a = some d) (hs : entryOk d s = false) : valueOk h a s = false := by
  have := doc_strict_table h
  simp only [docStrict, List.all_eq_true, beq_iff_eq] at this
  have h1 := this a hstrict
  unfold valueOk
  rw [← h1, hd]
  exact hs

/-! ### the run -/

theorem crun_nil (cs : CSt) : crun cs [] = cs := rfl
theorem crun_cons (cs : CSt) (e : CEvent) (r : List CEvent) : crun cs (e :: r) = crun (cstep cs e) r := rfl
theorem crun_append (cs : CSt) (a b : List CEvent) : crun cs (a ++ b) = crun (crun cs a) b := by
  simp [crun, List.foldl_append]

theorem absEvents_append : ∀ (a b : List CEvent) (cs : CSt),
    absEvents cs (a ++ b) = absEvents cs a ++ absEvents (crun cs a) b := by
  intro a
  induction a with
  | nil => intro b cs; rfl
  | cons e r ih => intro b cs; simp only [List.cons_append, absEvents, crun_cons, ih]

theorem absEvents_length : ∀ (a : List CEvent) (cs : CSt), (absEvents cs a).length = a.length := by
  intro a
  induction a with
  | nil => intro cs; rfl
  | cons e r ih => intro cs; simp [absEvents, ih]

/-- the event with its value bit set: what a document whose values all pass looks like to the abstract run -/
def shape : CEvent → Event
  | .start t as => .start t (absAttrs as) true
  | .stop _ => .stop true
  | .text s => .text s

theorem execOps_attrs_fail (as : List Attr) : ∀ (ops : List Op) (st : St) (f : Bool),
    attrsBeforeRet ops = true → st.err = none → (execOps ops as false st f).err = some (st.n, .handler) := by
  intro ops
  induction ops with
  | nil => intro st f h; simp [attrsBeforeRet] at h
  | cons o r ih =>
    intro st f h he
    cases o with
    | setState s =>
      simp only [execOps]
      exact ih _ _ (by simpa [attrsBeforeRet] using h) he
    | attrs g =>
      simp only [execOps, Bool.and_false]
      exact execOps_err_preserved r as false _ true _ (error_err_new _ he)
    | retIfFailed => simp [attrsBeforeRet] at h
    | needXYorZ => simp [attrsBeforeRet] at h
    | ret => simp [attrsBeforeRet] at h

/-- a start tag whose handler has a failing value check records `handler` at this event -/
theorem step_handler_fail (st : St) (t : Tag) (as : List Attr) (h : Handler) (he : st.err = none)
    (hrun : start st.state t = .run h) : (step st (.start t as false)).err = some (st.n, .handler) := by
  simp only [step, react, hrun]
  exact execOps_attrs_fail as (handlerOps h) st false (attrs_first_table h) he

/-- a start tag whose handler refuses the values records `handler` at this event, whatever follows, and the document is
    refused with that location (the index stands for the line of the element) -/
theorem handler_fail_located (pre post : List CEvent) (t : Tag) (attrs : List CAttr) (h : Handler)
    (hclean : (crun CSt.init pre).st.err = none)
    (hrun : start (crun CSt.init pre).st.state t = .run h)
    (hh : handlerOk (crun CSt.init pre).ctx (valueHandler h) attrs = false) :
    (crun CSt.init (pre ++ .start t attrs :: post)).st.err = some (pre.length, .handler) ∧
    outcome (crun CSt.init (pre ++ .start t attrs :: post)).st = .refused (some (pre.length, .handler)) := by
  have hn : (crun CSt.init pre).st.n = pre.length := by
    rw [crun_st, run_n, absEvents_length]; simp [CSt.init, St.init]
  have hstep : (cstep (crun CSt.init pre) (.start t attrs)).st.err = some (pre.length, .handler) := by
    simp only [cstep, toAbs, hrun, hh]
    rw [← hn]
    exact step_handler_fail _ t _ h hclean hrun
  have herr : (crun CSt.init (pre ++ .start t attrs :: post)).st.err = some (pre.length, .handler) := by
    rw [crun_append, crun_cons, crun_st]
    exact run_err_preserved _ _ _ hstep
  refine ⟨herr, ?_⟩
  have hst : (crun CSt.init (pre ++ .start t attrs :: post)).st.state = .error_ := by
    have h1 := crun_st (pre ++ .start t attrs :: post) CSt.init
    have h2 := run_errImplies (absEvents CSt.init (pre ++ .start t attrs :: post)) St.init (fun h0 => by cases h0)
    rw [h1] at herr ⊢
    have herr' : (run St.init (absEvents CSt.init (pre ++ .start t attrs :: post))).err = some (pre.length, .handler) := herr
    exact h2 (by rw [herr']; rfl)
  simp [outcome, hst, herr]

/-- `process_point` starts from an EMPTY id (since fix c9d862c `pp_id = "";` precedes the attribute loop; before it the
    initial value was the member left by the previous point and this fact was false) -/
theorem point_id_starts_empty : varInit .point_ "pp_id" = .empty ∧ requiredVars .point_ = ["pp_id"] ∧
    pointIdVars.contains "pp_id" = true ∧ attrLoop .point_ = .all := by decide

/-- a `<point>` (with compared attribute names) none of whose `id` attributes has a non-blank value fails the value checks,
    whatever the members hold -/
theorem point_without_id (ctx : Ctx) (attrs : List CAttr) (hn : ∀ a ∈ attrs, a.name ∈ attrNames .point_)
    (hid : ∀ a ∈ attrs, a.name = "id" → normId a.val = []) : handlerOk ctx .point_ attrs = false := by
  have T := point_id_starts_empty
  have hex : examined .point_ attrs = attrs := by simp [examined, T.2.2.2]
  have henv : normId (env ctx .point_ attrs "pp_id") = [] := by
    unfold env
    cases hf : attrs.reverse.find? (fun a => bindVar .point_ a.name == some "pp_id") with
    | none => simp only [T.1, srcVal]; rfl
    | some a =>
      have hm : a ∈ attrs := by
        have := List.mem_of_find?_eq_some hf
        simpa using this
      have hp := List.find?_some hf
      simp only [beq_iff_eq] at hp
      have hname := hn a hm
      have : a.name = "id" := by
        simp only [attrNames, List.mem_cons, List.not_mem_nil, or_false] at hname
        rcases hname with h | h | h | h | h | h
        · exact h
        all_goals (rw [h] at hp; exact absurd hp (by decide))
      exact hid a hm this
  have hr : requiredOk ctx .point_ attrs = false := by
    simp only [requiredOk, T.2.1, List.all_cons, List.all_nil, Bool.and_true, T.2.2.1, if_true, henv]
    rfl
  simp only [handlerOk, hex, hr, Bool.and_false, Bool.false_and]

/-! ### documented conditions along a document -/

/-- every value of the examined attributes is documented for this handler and lies in its documented language / range -/
def docValuesOk (g : Handler) (as : List CAttr) : Bool :=
  as.all (fun a => (docNames g).contains a.name && match docCheck g a.name with
    | some d => entryOk d a.val
    | none => false)

/-- the documented conditions on one event, in the context (`Ctx`) the parser has accumulated:
    values in their documented languages and ranges; required attributes present (a `from` may come from `<obs>`);
    `x` with `y`; distances and zenith angles positive, `from ≠ fs`, `band < dim`; at the end of a cluster `dim` = number
    of observations, exactly `covElements` numbers in `<cov-mat>`, covariance matrix positive definite -/
def docEventOk (cs : CSt) : CEvent → Bool
  | .start t as =>
    (match start cs.st.state t with
     | .run h =>
       let g := valueHandler h
       docValuesOk g (examined g as) && requiredOk cs.ctx g (examined g as) && pairsOk cs.ctx g (examined g as) &&
         crossAllOk cs.ctx g (examined g as)
     | _ => true)
  | .stop pd =>
    (match stop cs.st.state with
     | .goto _ (some f) => finishOk cs.ctx f pd
     | _ => true)
  | .text _ => true

def allDocOk : CSt → List CEvent → Bool
  | _, [] => true
  | cs, e :: r => docEventOk cs e && allDocOk (cstep cs e) r

theorem valuesOk_of_doc (g : Handler) (as : List CAttr) (h : docValuesOk g as = true) : valuesOk g as = true := by
  simp only [docValuesOk, valuesOk, List.all_eq_true] at h ⊢
  intro a ha
  have := h a ha
  simp only [Bool.and_eq_true, List.contains_iff_mem] at this
  obtain ⟨hm, this⟩ := this
  cases hd : docCheck g a.name with
  | none => rw [hd] at this; cases this
  | some d => rw [hd] at this; exact valueOk_of_documented g a.name d a.val hm hd this

theorem toAbs_of_docOk (cs : CSt) (e : CEvent) (h : docEventOk cs e = true) : toAbs cs e = shape e := by
  cases e with
  | start t as =>
    simp only [toAbs, shape, docEventOk] at h ⊢
    cases hs : start cs.st.state t with
    | run x =>
      rw [hs] at h
      simp only [Bool.and_eq_true] at h
      obtain ⟨⟨⟨h1, h2⟩, h3⟩, h4⟩ := h
      simp only [handlerOk, valuesOk_of_doc _ _ h1, h2, h3, h4, Bool.and_self]
    | set s => rfl
    | err k => rfl
    | ignore => rfl
  | stop pd =>
    simp only [toAbs, shape, docEventOk] at h ⊢
    cases hs : stop cs.st.state with
    | goto s f =>
      rw [hs] at h
      cases f with
      | none => rfl
      | some f => simp only at h ⊢; rw [h]
    | fail k => rfl
    | silent => rfl
  | text s => rfl

theorem absEvents_of_allDocOk : ∀ (evs : List CEvent) (cs : CSt), allDocOk cs evs = true →
    absEvents cs evs = evs.map shape := by
  intro evs
  induction evs with
  | nil => intro cs _; rfl
  | cons e r ih =>
    intro cs h
    simp only [allDocOk, Bool.and_eq_true] at h
    simp only [absEvents, List.map_cons, toAbs_of_docOk cs e h.1, ih _ h.2]

end Gama.Gkf
