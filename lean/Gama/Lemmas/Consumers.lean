/-
  C12 — lemmas about the two consumers of the adjustment XML (`Gama/Model/Consumers.lean`).

  * `std::map` as a strictly sorted association list: `upsert` keeps the keys sorted, `find?` after
    `upsert`, extensionality of sorted maps (`kSorted_ext`), `foldl upsert` seen through `find?`.
  * compare-xyz: `fetch`, `rows`, `maxAbs`, `compareMaps`.
  * gama-local-deformation: `adjrec12` (no `Nodup` needed: the last point with an id wins),
    `adjdiffFrom` against the prefix length of `t1List`/`t2List`, `deformation`.
-/
import Gama.Model.Consumers
import Mathlib.Algebra.Order.Field.Basic
import Mathlib.Tactic.Ring
import Mathlib.Tactic.Linarith
import Mathlib.Data.List.Perm.Basic
import Mathlib.Data.List.Nodup
import Mathlib.Algebra.Order.Field.Rat

set_option linter.unusedSectionVars false

namespace Gama.Consumers

/-! ### `std::map` -/
section Map
variable {ι β : Type} [LinearOrder ι]

/-- the keys are strictly increasing -/
def KSorted (m : List (ι × β)) : Prop := m.Pairwise (fun a b => a.1 < b.1)

theorem kSorted_nil : KSorted ([] : List (ι × β)) := List.Pairwise.nil

theorem kSorted_keys {m : List (ι × β)} (h : KSorted m) : (m.map (·.1)).Pairwise (· < ·) :=
  List.pairwise_map.2 h

theorem upsert_mem (k : ι) (f : Option β → β) (m : List (ι × β)) :
    ∀ a ∈ upsert k f m, a.1 = k ∨ a ∈ m := by
  induction m with
  | nil => intro a ha; simp [upsert] at ha; left; rw [ha]
  | cons b rest ih =>
    obtain ⟨k', v⟩ := b
    intro a ha
    simp only [upsert] at ha
    split_ifs at ha with h1 h2
    · rcases List.mem_cons.1 ha with h | h
      · left; rw [h]
      · right; exact h
    · rcases List.mem_cons.1 ha with h | h
      · left; rw [h]
      · right; exact List.mem_cons_of_mem _ h
    · rcases List.mem_cons.1 ha with h | h
      · right; rw [h]; exact List.mem_cons_self
      · rcases ih a h with h | h
        · left; exact h
        · right; exact List.mem_cons_of_mem _ h

theorem kSorted_upsert {m : List (ι × β)} (h : KSorted m) (k : ι) (f : Option β → β) :
    KSorted (upsert k f m) := by
  induction m with
  | nil => simp [upsert, KSorted]
  | cons b rest ih =>
    obtain ⟨k', v⟩ := b
    have hc := List.pairwise_cons.1 h
    simp only [upsert]
    split_ifs with h1 h2
    · refine List.pairwise_cons.2 ⟨?_, h⟩
      intro a ha
      rcases List.mem_cons.1 ha with h' | h'
      · rw [h']; exact h1
      · exact lt_trans h1 (hc.1 a h')
    · subst h2
      exact List.pairwise_cons.2 ⟨hc.1, hc.2⟩
    · refine List.pairwise_cons.2 ⟨?_, ih hc.2⟩
      intro a ha
      rcases upsert_mem k f rest a ha with h' | h'
      · rw [h']; exact lt_of_le_of_ne (not_lt.1 h1) (Ne.symm h2)
      · exact hc.1 a h'

theorem find?_none_of_lt {k : ι} {m : List (ι × β)} (h : ∀ a ∈ m, k < a.1) : find? k m = none := by
  induction m with
  | nil => rfl
  | cons b rest ih =>
    obtain ⟨k', v⟩ := b
    have h1 : k < k' := h (k', v) List.mem_cons_self
    simp only [find?, ne_of_lt h1, if_false]
    exact ih (fun a ha => h a (List.mem_cons_of_mem _ ha))

theorem mem_of_find? {k : ι} {v : β} {m : List (ι × β)} (h : find? k m = some v) : (k, v) ∈ m := by
  induction m with
  | nil => simp [find?] at h
  | cons b rest ih =>
    obtain ⟨k', v'⟩ := b
    simp only [find?] at h
    split_ifs at h with h1
    · cases h; subst h1; exact List.mem_cons_self
    · exact List.mem_cons_of_mem _ (ih h)

theorem find?_of_mem {k : ι} {v : β} {m : List (ι × β)} (hs : KSorted m) (h : (k, v) ∈ m) :
    find? k m = some v := by
  induction m with
  | nil => simp at h
  | cons b rest ih =>
    obtain ⟨k', v'⟩ := b
    have hc := List.pairwise_cons.1 hs
    rcases List.mem_cons.1 h with h' | h'
    · cases h'; simp [find?]
    · have : k' < k := hc.1 _ h'
      simp only [find?, ne_of_gt this, if_false]
      exact ih hc.2 h'

theorem find?_eq_some_iff {k : ι} {v : β} {m : List (ι × β)} (hs : KSorted m) :
    find? k m = some v ↔ (k, v) ∈ m := ⟨mem_of_find?, find?_of_mem hs⟩

theorem find?_upsert {m : List (ι × β)} (hs : KSorted m) (k : ι) (f : Option β → β) (j : ι) :
    find? j (upsert k f m) = if j = k then some (f (find? k m)) else find? j m := by
  induction m with
  | nil =>
    by_cases hj : j = k <;> simp [upsert, find?, hj]
  | cons b rest ih =>
    obtain ⟨k', v⟩ := b
    have hc := List.pairwise_cons.1 hs
    simp only [upsert]
    split_ifs with h1 h2 h3 h4 h5
    · -- k < k', j = k
      subst h2
      have : find? j ((k', v) :: rest) = none :=
        find?_none_of_lt (by
          intro a ha
          rcases List.mem_cons.1 ha with h' | h'
          · rw [h']; exact h1
          · exact lt_trans h1 (hc.1 a h'))
      rw [this]; simp [find?]
    · simp only [find?, h2, if_false]
    · subst h3; subst h4; simp [find?]
    · subst h3; simp [find?, h4]
    · subst h5; simp only [find?, h3, if_false]
      exact (ih hc.2).trans (by simp)
    · simp only [find?]
      split_ifs with h6
      · rfl
      · exact (ih hc.2).trans (by simp [h5])

/-- two sorted maps with the same `find?` are the same list -/
theorem kSorted_ext : ∀ {m1 m2 : List (ι × β)}, KSorted m1 → KSorted m2 →
    (∀ k, find? k m1 = find? k m2) → m1 = m2
  | [], [], _, _, _ => rfl
  | [], (k, v) :: r, _, _, h => by have := h k; simp [find?] at this
  | (k, v) :: r, [], _, _, h => by have := h k; simp [find?] at this
  | (k, v) :: r, (k', v') :: r', h1, h2, h => by
    have c1 := List.pairwise_cons.1 h1
    have c2 := List.pairwise_cons.1 h2
    have hk : k = k' := by
      by_contra hne
      have a := h k
      simp only [find?, if_true, hne, if_false] at a
      have a' : k' < k := c2.1 _ (mem_of_find? a.symm)
      have b := h k'
      simp only [find?, if_true, Ne.symm hne, if_false] at b
      have b' : k < k' := c1.1 _ (mem_of_find? b)
      exact lt_asymm a' b'
    subst hk
    have hv : v = v' := by
      have a := h k
      simpa [find?] using a
    subst hv
    have : r = r' := by
      refine kSorted_ext c1.2 c2.2 (fun j => ?_)
      by_cases hj : j = k
      · subst hj
        rw [find?_none_of_lt c1.1, find?_none_of_lt c2.1]
      · have a := h j
        simpa [find?, hj] using a
    rw [this]

/-- what a key sees of `for (p : pts) m[key p] = g p (old)` -/
def foldOpt {α : Type} (key : α → ι) (g : α → Option β → β) (k : ι) (o : Option β) (pts : List α) :
    Option β :=
  pts.foldl (fun o p => if key p = k then some (g p o) else o) o

theorem kSorted_foldl_upsert {α : Type} (key : α → ι) (g : α → Option β → β) (pts : List α)
    {m0 : List (ι × β)} (h : KSorted m0) :
    KSorted (pts.foldl (fun m p => upsert (key p) (g p) m) m0) := by
  induction pts generalizing m0 with
  | nil => exact h
  | cons p ps ih => exact ih (kSorted_upsert h _ _)

theorem find?_foldl_upsert {α : Type} (key : α → ι) (g : α → Option β → β) (pts : List α)
    {m0 : List (ι × β)} (h : KSorted m0) (k : ι) :
    find? k (pts.foldl (fun m p => upsert (key p) (g p) m) m0) = foldOpt key g k (find? k m0) pts := by
  induction pts generalizing m0 with
  | nil => rfl
  | cons p ps ih =>
    simp only [List.foldl_cons, foldOpt]
    rw [ih (kSorted_upsert h _ _), find?_upsert h]
    by_cases hk : k = key p
    · subst hk; simp [foldOpt]
    · simp [foldOpt, hk, Ne.symm hk]

theorem foldOpt_of_not_mem {α : Type} (key : α → ι) (g : α → Option β → β) (k : ι) (o : Option β)
    (pts : List α) (h : ∀ p ∈ pts, key p ≠ k) : foldOpt key g k o pts = o := by
  induction pts generalizing o with
  | nil => rfl
  | cons p ps ih =>
    have hp : key p ≠ k := h p List.mem_cons_self
    simp only [foldOpt, List.foldl_cons, hp, if_false]
    exact ih o (fun q hq => h q (List.mem_cons_of_mem _ hq))

theorem foldOpt_of_mem {α : Type} (key : α → ι) (g : α → Option β → β) (k : ι) (o : Option β)
    (pts : List α) (hnd : (pts.map key).Nodup) {p : α} (hp : p ∈ pts) (hk : key p = k) :
    foldOpt key g k o pts = some (g p o) := by
  induction pts generalizing o with
  | nil => simp at hp
  | cons q qs ih =>
    have hnd' : key q ∉ qs.map key ∧ (qs.map key).Nodup := List.nodup_cons.1 hnd
    rcases List.mem_cons.1 hp with h | h
    · subst h
      simp only [foldOpt, List.foldl_cons, hk, if_true]
      refine foldOpt_of_not_mem key g k _ qs (fun r hr hrk => hnd'.1 ?_)
      rw [hk, ← hrk]; exact List.mem_map_of_mem hr
    · have hq : key q ≠ k := by
        intro hqk; apply hnd'.1; rw [hqk, ← hk]; exact List.mem_map_of_mem h
      simp only [foldOpt, List.foldl_cons, hq, if_false]
      exact ih o hnd'.2 h

theorem foldOpt_isSome {α : Type} (key : α → ι) (g : α → Option β → β) (k : ι) (o : Option β)
    (pts : List α) : (foldOpt key g k o pts).isSome = true ↔ (o.isSome = true ∨ ∃ p ∈ pts, key p = k) := by
  induction pts generalizing o with
  | nil => simp [foldOpt]
  | cons q qs ih =>
    simp only [foldOpt, List.foldl_cons]
    have := ih (if key q = k then some (g q o) else o)
    simp only [foldOpt] at this
    rw [this]
    by_cases hq : key q = k
    · simp [hq]
    · simp [hq]

omit [LinearOrder ι] in
theorem mem_unique_of_nodup {α : Type} (key : α → ι) {pts : List α} (hnd : (pts.map key).Nodup)
    {p q : α} (hp : p ∈ pts) (hq : q ∈ pts) (h : key p = key q) : p = q :=
  List.inj_on_of_nodup_map hnd hp hq h

theorem find?_isSome_iff {k : ι} {m : List (ι × β)} : (find? k m).isSome = true ↔ k ∈ m.map (·.1) := by
  induction m with
  | nil => simp [find?]
  | cons b rest ih =>
    obtain ⟨k', v⟩ := b
    simp only [find?, List.map_cons, List.mem_cons]
    split_ifs with h
    · simp [h]
    · rw [ih]; simp [h]

end Map

/-! ### compare-xyz -/
section Compare
variable {ι K : Type} [LinearOrder ι]

def xyzOf (p : APoint ι K) : XYZ K := ⟨p.x, p.y, p.z⟩

theorem fetch_aux (pts : List (APoint ι K)) (m0 : List (ι × XYZ K)) :
    pts.foldl (fun m p => if p.hxy && p.hz then upsert p.id (fun _ => (⟨p.x, p.y, p.z⟩ : XYZ K)) m else m) m0
      = (pts.filter (fun p => p.hxy && p.hz)).foldl
          (fun m p => upsert ((fun p : APoint ι K => p.id) p) ((fun p _ => xyzOf p) p) m) m0 := by
  induction pts generalizing m0 with
  | nil => rfl
  | cons p ps ih =>
    simp only [List.foldl_cons, List.filter_cons]
    by_cases h : (p.hxy && p.hz) = true
    · simp only [h, if_true, List.foldl_cons]; exact ih _
    · simp only [h]; exact ih _

theorem fetch_eq (pts : List (APoint ι K)) :
    fetch pts = (pts.filter (fun p => p.hxy && p.hz)).foldl
          (fun m p => upsert ((fun p : APoint ι K => p.id) p) ((fun p _ => xyzOf p) p) m) [] :=
  fetch_aux pts []

theorem kSorted_fetch (pts : List (APoint ι K)) : KSorted (fetch pts) := by
  rw [fetch_eq]; exact kSorted_foldl_upsert _ _ _ kSorted_nil

theorem find?_fetch_iff {pts : List (APoint ι K)} (hnd : (pts.map (·.id)).Nodup) (k : ι) (v : XYZ K) :
    find? k (fetch pts) = some v ↔
      ∃ p ∈ pts, p.id = k ∧ p.hxy = true ∧ p.hz = true ∧ v = xyzOf p := by
  have hnd' : ((pts.filter (fun p => p.hxy && p.hz)).map (fun p : APoint ι K => p.id)).Nodup :=
    List.Nodup.sublist (List.Sublist.map _ List.filter_sublist) hnd
  rw [fetch_eq, find?_foldl_upsert _ _ _ kSorted_nil]
  constructor
  · intro h
    by_cases hex : ∃ p ∈ pts.filter (fun p => p.hxy && p.hz), p.id = k
    · obtain ⟨p, hp, hk⟩ := hex
      rw [foldOpt_of_mem _ _ k _ _ hnd' hp hk] at h
      have hp' := List.mem_filter.1 hp
      have hb : (p.hxy && p.hz) = true := by simpa using hp'.2
      rw [Bool.and_eq_true] at hb
      exact ⟨p, hp'.1, hk, hb.1, hb.2, by cases h; rfl⟩
    · rw [foldOpt_of_not_mem _ _ k _ _ (fun p hp hk => hex ⟨p, hp, hk⟩)] at h
      simp [find?] at h
  · rintro ⟨p, hp, hk, h1, h2, rfl⟩
    have hp' : p ∈ pts.filter (fun p => p.hxy && p.hz) := List.mem_filter.2 ⟨hp, by simp [h1, h2]⟩
    rw [foldOpt_of_mem _ _ k _ _ hnd' hp' hk]

theorem fetch_perm {f f' : List (APoint ι K)} (hp : f.Perm f') (hnd : (f.map (·.id)).Nodup) :
    fetch f' = fetch f := by
  have hnd' : (f'.map (·.id)).Nodup := (hp.map _).nodup_iff.1 hnd
  refine kSorted_ext (kSorted_fetch _) (kSorted_fetch _) (fun k => Option.ext (fun v => ?_))
  rw [find?_fetch_iff hnd, find?_fetch_iff hnd']
  constructor
  · rintro ⟨p, hp', h⟩; exact ⟨p, hp.mem_iff.2 hp', h⟩
  · rintro ⟨p, hp', h⟩; exact ⟨p, hp.mem_iff.1 hp', h⟩

/-- the keys of `adjmap`: the ids of the points with both `hxy` and `hz` (no `Nodup` needed) -/
theorem fetch_keys (pts : List (APoint ι K)) (k : ι) :
    k ∈ (fetch pts).map (·.1) ↔ ∃ p ∈ pts, p.id = k ∧ p.hxy = true ∧ p.hz = true := by
  rw [← find?_isSome_iff, fetch_eq, find?_foldl_upsert _ _ _ kSorted_nil, foldOpt_isSome]
  constructor
  · rintro (h | ⟨p, hp, hk⟩)
    · simp [find?] at h
    · have hp' := List.mem_filter.1 hp
      have hb : (p.hxy && p.hz) = true := by simpa using hp'.2
      rw [Bool.and_eq_true] at hb
      exact ⟨p, hp'.1, hk, hb.1, hb.2⟩
  · rintro ⟨p, hp, hk, h1, h2⟩
    exact Or.inr ⟨p, List.mem_filter.2 ⟨hp, by simp [h1, h2]⟩, hk⟩

variable [Sub K]

/-- the row printed for `a ∈ adjmap_1` found as `b` in `adjmap_2` -/
def rowOf (a : ι × XYZ K) (b : XYZ K) : Row ι K :=
  ⟨a.1, a.2.x, a.2.y, a.2.z, b.x - a.2.x, b.y - a.2.y, b.z - a.2.z⟩

theorem rows_eq (m1 m2 : List (ι × XYZ K)) :
    rows m1 m2 = m1.filterMap (fun a => (find? a.1 m2).map (rowOf a)) := by
  unfold rows
  apply List.filterMap_congr
  intro a _
  cases find? a.1 m2 <;> rfl

theorem mem_rows {m1 m2 : List (ι × XYZ K)} {row : Row ι K} :
    row ∈ rows m1 m2 ↔ ∃ a ∈ m1, ∃ b, find? a.1 m2 = some b ∧ row = rowOf a b := by
  rw [rows_eq, List.mem_filterMap]
  constructor
  · rintro ⟨a, ha, h⟩
    rw [Option.map_eq_some_iff] at h
    obtain ⟨b, hb, rfl⟩ := h
    exact ⟨a, ha, b, hb, rfl⟩
  · rintro ⟨a, ha, b, hb, rfl⟩
    exact ⟨a, ha, by rw [hb]; rfl⟩

theorem rows_self {m : List (ι × XYZ K)} (hs : KSorted m) :
    rows m m = m.map (fun a => rowOf a a.2) := by
  rw [rows_eq, ← List.filterMap_eq_map]
  apply List.filterMap_congr
  intro a ha
  rw [find?_of_mem hs (k := a.1) (v := a.2) ha]; rfl

theorem rows_ids_sorted {m1 : List (ι × XYZ K)} (hs : KSorted m1) (m2 : List (ι × XYZ K)) :
    ((rows m1 m2).map (·.id)).Pairwise (· < ·) := by
  rw [List.pairwise_map, rows_eq]
  refine List.Pairwise.filterMap _ ?_ hs
  intro a a' haa' b hb b' hb'
  rw [Option.map_eq_some_iff] at hb hb'
  obtain ⟨_, _, rfl⟩ := hb
  obtain ⟨_, _, rfl⟩ := hb'
  exact haa'

end Compare

section CompareField
variable {ι K : Type} [LinearOrder ι] [Field K] [LinearOrder K] [IsStrictOrderedRing K]

theorem maxAbs_fold_spec (ds : List K) (D0 : K) :
    (ds.foldl (fun D d => if |D| < |d| then d else D) D0 = D0 ∨
      ds.foldl (fun D d => if |D| < |d| then d else D) D0 ∈ ds) ∧
    |D0| ≤ |ds.foldl (fun D d => if |D| < |d| then d else D) D0| ∧
    ∀ d ∈ ds, |d| ≤ |ds.foldl (fun D d => if |D| < |d| then d else D) D0| := by
  induction ds generalizing D0 with
  | nil => simp
  | cons d ds ih =>
    simp only [List.foldl_cons]
    obtain ⟨h1, h2, h3⟩ := ih (if |D0| < |d| then d else D0)
    have hD0 : |D0| ≤ |if |D0| < |d| then d else D0| := by
      split_ifs with h
      · exact le_of_lt h
      · exact le_refl _
    have hd : |d| ≤ |if |D0| < |d| then d else D0| := by
      split_ifs with h
      · exact le_refl _
      · exact not_lt.1 h
    refine ⟨?_, le_trans hD0 h2, ?_⟩
    · rcases h1 with h1 | h1
      · rw [h1]
        split_ifs with h
        · right; exact List.mem_cons_self
        · left; rfl
      · right; exact List.mem_cons_of_mem _ h1
    · intro d' hd'
      rcases List.mem_cons.1 hd' with h | h
      · rw [h]; exact le_trans hd h2
      · exact h3 d' h

theorem maxAbs_ge (ds : List K) : ∀ d ∈ ds, |d| ≤ |maxAbs (fun x : K => |x|) ds| :=
  (maxAbs_fold_spec ds 0).2.2

theorem maxAbs_mem {ds : List K} (hne : ds ≠ []) : maxAbs (fun x : K => |x|) ds ∈ ds := by
  rcases (maxAbs_fold_spec ds 0).1 with h | h
  · cases ds with
    | nil => exact absurd rfl hne
    | cons d ds' =>
      have hd := maxAbs_ge (d :: ds') d List.mem_cons_self
      have hR : maxAbs (fun x : K => |x|) (d :: ds') = 0 := h
      rw [hR, abs_zero] at hd
      have : d = 0 := abs_eq_zero.1 (le_antisymm hd (abs_nonneg d))
      rw [hR, this]; exact List.mem_cons_self
  · exact h

omit [LinearOrder K] [IsStrictOrderedRing K] in
theorem maxAbs_zeros [LT K] [DecidableRel (α := K) (· < ·)] (abs : K → K) {ds : List K}
    (h : ∀ d ∈ ds, d = 0) : maxAbs abs ds = 0 := by
  unfold maxAbs
  induction ds with
  | nil => rfl
  | cons d ds ih =>
    have hd : d = 0 := h d List.mem_cons_self
    simp only [List.foldl_cons, hd, ite_self]
    exact ih (fun d' hd' => h d' (List.mem_cons_of_mem _ hd'))

theorem ite_lt_eq_max (a b : K) : (if a < b then b else a) = max a b := by
  split_ifs with h
  · exact (max_eq_right (le_of_lt h)).symm
  · exact (max_eq_left (not_lt.1 h)).symm

theorem compareMaps_absMax (tol : K) (m1 m2 : List (ι × XYZ K)) :
    (compareMaps (fun x : K => |x|) tol m1 m2).absMax
      = max |(compareMaps (fun x : K => |x|) tol m1 m2).DX|
          (max |(compareMaps (fun x : K => |x|) tol m1 m2).DY|
               |(compareMaps (fun x : K => |x|) tol m1 m2).DZ|) := by
  simp only [compareMaps, ite_lt_eq_max]
  have h0 : ∀ a : K, max 0 |a| = |a| := fun a => max_eq_right (abs_nonneg a)
  rw [h0, max_assoc]

theorem compareMaps_failed (tol : K) (m1 m2 : List (ι × XYZ K)) :
    (compareMaps (fun x : K => |x|) tol m1 m2).failed = true ↔
      tol < (compareMaps (fun x : K => |x|) tol m1 m2).absMax := by
  simp only [compareMaps, decide_eq_true_eq]

theorem compareMaps_rows (abs : K → K) (tol : K) (m1 m2 : List (ι × XYZ K)) :
    (compareMaps abs tol m1 m2).rows = rows m1 m2 := rfl

theorem compareMaps_DX (abs : K → K) (tol : K) (m1 m2 : List (ι × XYZ K)) :
    (compareMaps abs tol m1 m2).DX = maxAbs abs ((rows m1 m2).map (·.dx)) := rfl
theorem compareMaps_DY (abs : K → K) (tol : K) (m1 m2 : List (ι × XYZ K)) :
    (compareMaps abs tol m1 m2).DY = maxAbs abs ((rows m1 m2).map (·.dy)) := rfl
theorem compareMaps_DZ (abs : K → K) (tol : K) (m1 m2 : List (ι × XYZ K)) :
    (compareMaps abs tol m1 m2).DZ = maxAbs abs ((rows m1 m2).map (·.dz)) := rfl

/-- a sorted map compared with itself -/
theorem compareMaps_self {tol : K} (htol : 0 ≤ tol) {m : List (ι × XYZ K)} (hs : KSorted m) :
    let r := compareMaps (fun x : K => |x|) tol m m
    (∀ row ∈ r.rows, row.dx = 0 ∧ row.dy = 0 ∧ row.dz = 0) ∧
    r.rows.map (·.id) = m.map (·.1) ∧
    r.DX = 0 ∧ r.DY = 0 ∧ r.DZ = 0 ∧ r.absMax = 0 ∧ r.failed = false ∧ exitCode r = 0 := by
  intro r
  have hrows : r.rows = m.map (fun a => rowOf a a.2) := rows_self hs
  have hz : ∀ row ∈ r.rows, row.dx = 0 ∧ row.dy = 0 ∧ row.dz = 0 := by
    intro row hrow
    rw [hrows, List.mem_map] at hrow
    obtain ⟨a, _, rfl⟩ := hrow
    simp [rowOf]
  have hDX : r.DX = 0 := maxAbs_zeros _ (by
    intro d hd
    obtain ⟨row, hrow, rfl⟩ := List.mem_map.1 hd
    exact (hz row hrow).1)
  have hDY : r.DY = 0 := maxAbs_zeros _ (by
    intro d hd
    obtain ⟨row, hrow, rfl⟩ := List.mem_map.1 hd
    exact (hz row hrow).2.1)
  have hDZ : r.DZ = 0 := maxAbs_zeros _ (by
    intro d hd
    obtain ⟨row, hrow, rfl⟩ := List.mem_map.1 hd
    exact (hz row hrow).2.2)
  have hA : r.absMax = 0 := by
    have := compareMaps_absMax tol m m
    rw [this]
    show max |r.DX| (max |r.DY| |r.DZ|) = 0
    rw [hDX, hDY, hDZ]; simp
  have hF : r.failed = false := by
    rw [← Bool.not_eq_true, compareMaps_failed]
    show ¬ tol < r.absMax
    rw [hA]; exact not_lt.2 htol
  refine ⟨hz, ?_, hDX, hDY, hDZ, hA, hF, ?_⟩
  · rw [hrows, List.map_map]; rfl
  · simp [exitCode, hF]

theorem compare_sound (tol : K) {f1 f2 : List (APoint ι K)}
    (h1 : (f1.map (·.id)).Nodup) (h2 : (f2.map (·.id)).Nodup) :
    ∀ row ∈ (compareXYZ (fun x : K => |x|) tol f1 f2).rows, ∃ p ∈ f1, ∃ q ∈ f2,
      p.id = row.id ∧ q.id = row.id ∧ p.hxy ∧ p.hz ∧ q.hxy ∧ q.hz ∧
      row.x1 = p.x ∧ row.y1 = p.y ∧ row.z1 = p.z ∧
      row.dx = q.x - p.x ∧ row.dy = q.y - p.y ∧ row.dz = q.z - p.z := by
  intro row hrow
  have hrow' : row ∈ rows (fetch f1) (fetch f2) := hrow
  obtain ⟨a, ha, b, hb, rfl⟩ := mem_rows.1 hrow'
  have ha' : find? a.1 (fetch f1) = some a.2 := find?_of_mem (kSorted_fetch f1) ha
  obtain ⟨p, hp, hpk, hp1, hp2, hpa⟩ := (find?_fetch_iff h1 _ _).1 ha'
  obtain ⟨q, hq, hqk, hq1, hq2, hqb⟩ := (find?_fetch_iff h2 _ _).1 hb
  refine ⟨p, hp, q, hq, hpk, hqk, hp1, hp2, hq1, hq2, ?_⟩
  simp [rowOf, hpa, hqb, xyzOf]

theorem compare_complete (tol : K) {f1 f2 : List (APoint ι K)}
    (h1 : (f1.map (·.id)).Nodup) (h2 : (f2.map (·.id)).Nodup) :
    ∀ p ∈ f1, ∀ q ∈ f2, p.id = q.id → p.hxy → p.hz → q.hxy → q.hz →
      ∃ row ∈ (compareXYZ (fun x : K => |x|) tol f1 f2).rows,
        row.id = p.id ∧ row.dx = q.x - p.x ∧ row.dy = q.y - p.y ∧ row.dz = q.z - p.z := by
  intro p hp q hq hid hp1 hp2 hq1 hq2
  have ha : find? p.id (fetch f1) = some (xyzOf p) :=
    (find?_fetch_iff h1 _ _).2 ⟨p, hp, rfl, hp1, hp2, rfl⟩
  have hb : find? p.id (fetch f2) = some (xyzOf q) :=
    (find?_fetch_iff h2 _ _).2 ⟨q, hq, hid.symm, hq1, hq2, rfl⟩
  refine ⟨rowOf (p.id, xyzOf p) (xyzOf q), ?_, rfl, rfl, rfl, rfl⟩
  exact mem_rows.2 ⟨(p.id, xyzOf p), mem_of_find? ha, xyzOf q, hb, rfl⟩

theorem compare_rows_sorted (tol : K) (f1 f2 : List (APoint ι K)) :
    ((compareXYZ (fun x : K => |x|) tol f1 f2).rows.map (·.id)).Pairwise (· < ·) :=
  rows_ids_sorted (kSorted_fetch f1) (fetch f2)

theorem compare_perm (tol : K) {f1 f2 f1' f2' : List (APoint ι K)}
    (h1 : (f1.map (·.id)).Nodup) (h2 : (f2.map (·.id)).Nodup) (p1 : f1.Perm f1') (p2 : f2.Perm f2') :
    compareXYZ (fun x : K => |x|) tol f1' f2' = compareXYZ (fun x : K => |x|) tol f1 f2 := by
  unfold compareXYZ
  rw [fetch_perm p1 h1, fetch_perm p2 h2]

theorem compare_self {tol : K} (htol : 0 ≤ tol) (f : List (APoint ι K)) :
    let r := compareXYZ (fun x : K => |x|) tol f f
    (∀ row ∈ r.rows, row.dx = 0 ∧ row.dy = 0 ∧ row.dz = 0) ∧
    r.rows.map (·.id) = (fetch f).map (·.1) ∧
    r.DX = 0 ∧ r.DY = 0 ∧ r.DZ = 0 ∧ r.absMax = 0 ∧ r.failed = false ∧ exitCode r = 0 :=
  compareMaps_self htol (kSorted_fetch f)

theorem compare_max (tol : K) (f1 f2 : List (APoint ι K)) :
    let r := compareXYZ (fun x : K => |x|) tol f1 f2
    (r.failed = true ↔ tol < r.absMax) ∧
    r.absMax = max |r.DX| (max |r.DY| |r.DZ|) ∧
    (∀ row ∈ r.rows, |row.dx| ≤ |r.DX| ∧ |row.dy| ≤ |r.DY| ∧ |row.dz| ≤ |r.DZ|) ∧
    (r.rows ≠ [] → (∃ row ∈ r.rows, r.DX = row.dx) ∧ (∃ row ∈ r.rows, r.DY = row.dy) ∧
      (∃ row ∈ r.rows, r.DZ = row.dz)) := by
  intro r
  refine ⟨compareMaps_failed _ _ _, compareMaps_absMax _ _ _, ?_, ?_⟩
  · intro row hrow
    exact ⟨maxAbs_ge _ _ (List.mem_map_of_mem (f := (·.dx)) hrow),
      maxAbs_ge _ _ (List.mem_map_of_mem (f := (·.dy)) hrow),
      maxAbs_ge _ _ (List.mem_map_of_mem (f := (·.dz)) hrow)⟩
  · intro hne
    have hx : r.rows.map (·.dx) ≠ [] := by simpa using hne
    have hy : r.rows.map (·.dy) ≠ [] := by simpa using hne
    have hz : r.rows.map (·.dz) ≠ [] := by simpa using hne
    refine ⟨?_, ?_, ?_⟩
    · obtain ⟨row, hrow, h⟩ := List.mem_map.1 (maxAbs_mem hx); exact ⟨row, hrow, h.symm⟩
    · obtain ⟨row, hrow, h⟩ := List.mem_map.1 (maxAbs_mem hy); exact ⟨row, hrow, h.symm⟩
    · obtain ⟨row, hrow, h⟩ := List.mem_map.1 (maxAbs_mem hz); exact ⟨row, hrow, h.symm⟩

end CompareField

/-! ### gama-local-deformation : `adjrec12` -/
section Deformation
variable {ι K : Type} [LinearOrder ι] [Zero K]

/-- one epoch's half of a `Rec12` -/
structure Half (K : Type) where
  ix : Nat
  x : K
  iy : Nat
  y : K
  iz : Nat
  z : K

def part1 (r : Rec12 K) : Half K := ⟨r.indx1, r.x1, r.indy1, r.y1, r.indz1, r.z1⟩
def part2 (r : Rec12 K) : Half K := ⟨r.indx2, r.x2, r.indy2, r.y2, r.indz2, r.z2⟩
def halfOf (p : APoint ι K) : Half K := ⟨p.indx, p.x, p.indy, p.y, p.indz, p.z⟩
def mkRec (a b : Half K) : Rec12 K :=
  ⟨a.ix, a.x, a.iy, a.y, a.iz, a.z, b.ix, b.x, b.iy, b.y, b.iz, b.z⟩
def zHalf : Half K := ⟨0, 0, 0, 0, 0, 0⟩

omit [Zero K] in
theorem mkRec_parts (r : Rec12 K) : mkRec (part1 r) (part2 r) = r := by cases r; rfl

/-! #### the regenerated sites of `GamaLocalDeformation::init()` (round 5)

`put1`, `put2`, `t1Of`, `t2Of` (Model/Consumers.lean) interpret the tables that tools/gen/c12_deform.py
regenerates from deformation.cpp.  The four closed forms below are everything the rest of this file knows
about those tables; they are proved by evaluating the interpreter on the GENERATED text, so a changed
member or epoch at any of the 12 assignments / 2 guards / 6 `push_back`s makes the corresponding proof fail
(seeded/C12-seed3, `t2.push_back( r.second.indz1 )`, breaks `sites_table` and `t2Of_def`). -/

/-- the table as the code has it: `t1` reads the epoch-1 members, `t2` the epoch-2 members, in the order x, y | z,
    each block guarded by the x (resp. z) index of BOTH epochs -/
theorem sites_table :
    Gama.Gen.DeformSites.blocks =
      [⟨[⟨.ind, .x, 1⟩, ⟨.ind, .x, 2⟩],
        [⟨1, ⟨.ind, .x, 1⟩⟩, ⟨1, ⟨.ind, .y, 1⟩⟩, ⟨2, ⟨.ind, .x, 2⟩⟩, ⟨2, ⟨.ind, .y, 2⟩⟩]⟩,
       ⟨[⟨.ind, .z, 1⟩, ⟨.ind, .z, 2⟩],
        [⟨1, ⟨.ind, .z, 1⟩⟩, ⟨2, ⟨.ind, .z, 2⟩⟩]⟩] := by decide

omit [LinearOrder ι] in
/-- loop 1 writes the six epoch-1 members from the same-named fields of the point -/
theorem put1_def (p : APoint ι K) (o : Option (Rec12 K)) :
    put1 p o = { (o.getD Rec12.zero) with indx1 := p.indx, x1 := p.x, indy1 := p.indy, y1 := p.y,
                                          indz1 := p.indz, z1 := p.z } := rfl

omit [LinearOrder ι] in
theorem put2_def (p : APoint ι K) (o : Option (Rec12 K)) :
    put2 p o = { (o.getD Rec12.zero) with indx2 := p.indx, x2 := p.x, indy2 := p.indy, y2 := p.y,
                                          indz2 := p.indz, z2 := p.z } := rfl

omit [LinearOrder ι] [Zero K] in
theorem t1Of_def (r : Rec12 K) :
    t1Of r = (if r.indx1 ≠ 0 ∧ r.indx2 ≠ 0 then [r.indx1, r.indy1] else []) ++
             (if r.indz1 ≠ 0 ∧ r.indz2 ≠ 0 then [r.indz1] else []) := by
  simp only [t1Of, tOf, tOfWith, sites_table]
  by_cases a : r.indx1 = 0 <;> by_cases b : r.indx2 = 0 <;> by_cases c : r.indz1 = 0 <;>
    by_cases d : r.indz2 = 0 <;> simp [Rec12.ind, a, b, c, d]

omit [LinearOrder ι] [Zero K] in
theorem t2Of_def (r : Rec12 K) :
    t2Of r = (if r.indx1 ≠ 0 ∧ r.indx2 ≠ 0 then [r.indx2, r.indy2] else []) ++
             (if r.indz1 ≠ 0 ∧ r.indz2 ≠ 0 then [r.indz2] else []) := by
  simp only [t2Of, tOf, tOfWith, sites_table]
  by_cases a : r.indx1 = 0 <;> by_cases b : r.indx2 = 0 <;> by_cases c : r.indz1 = 0 <;>
    by_cases d : r.indz2 = 0 <;> simp [Rec12.ind, a, b, c, d]

/-- the data of the last point of `pts` with id `k` (`d0` when there is none) -/
def lastData (k : ι) (d0 : Half K) (pts : List (APoint ι K)) : Half K :=
  pts.foldl (fun d p => if p.id = k then halfOf p else d) d0

omit [Zero K] in
theorem lastData_cases (k : ι) (d0 : Half K) (pts : List (APoint ι K)) :
    (lastData k d0 pts = d0 ∧ ∀ p ∈ pts, p.id ≠ k) ∨
      ∃ p ∈ pts, p.id = k ∧ lastData k d0 pts = halfOf p := by
  induction pts generalizing d0 with
  | nil => left; exact ⟨rfl, by simp⟩
  | cons q qs ih =>
    simp only [lastData, List.foldl_cons]
    rcases ih (if q.id = k then halfOf q else d0) with ⟨h1, h2⟩ | ⟨p, hp, hk, h⟩
    · simp only [lastData] at h1
      by_cases hq : q.id = k
      · right
        refine ⟨q, List.mem_cons_self, hq, ?_⟩
        rw [h1, if_pos hq]
      · left
        refine ⟨by rw [h1, if_neg hq], ?_⟩
        intro p hp
        rcases List.mem_cons.1 hp with h | h
        · rw [h]; exact hq
        · exact h2 p h
    · right
      exact ⟨p, List.mem_cons_of_mem _ hp, hk, h⟩

omit [Zero K] in
theorem lastData_of_mem {k : ι} (d0 : Half K) {pts : List (APoint ι K)}
    (hnd : (pts.map (·.id)).Nodup) {p : APoint ι K} (hp : p ∈ pts) (hk : p.id = k) :
    lastData k d0 pts = halfOf p := by
  rcases lastData_cases k d0 pts with ⟨_, h2⟩ | ⟨q, hq, hqk, h⟩
  · exact absurd hk (h2 p hp)
  · rw [h, mem_unique_of_nodup (fun p : APoint ι K => p.id) hnd hq hp (hqk.trans hk.symm)]

omit [Zero K] in
theorem lastData_of_not_mem {k : ι} (d0 : Half K) {pts : List (APoint ι K)}
    (h : ∀ p ∈ pts, p.id ≠ k) : lastData k d0 pts = d0 := by
  rcases lastData_cases k d0 pts with ⟨h1, _⟩ | ⟨q, hq, hqk, _⟩
  · exact h1
  · exact absurd hqk (h q hq)

omit [Zero K] in
theorem lastData_perm {k : ι} (d0 : Half K) {pts pts' : List (APoint ι K)}
    (hp : pts.Perm pts') (hnd : (pts.map (·.id)).Nodup) :
    lastData k d0 pts' = lastData k d0 pts := by
  have hnd' : (pts'.map (·.id)).Nodup := (hp.map _).nodup_iff.1 hnd
  by_cases hex : ∃ p ∈ pts, p.id = k
  · obtain ⟨p, hp1, hk⟩ := hex
    rw [lastData_of_mem d0 hnd hp1 hk, lastData_of_mem d0 hnd' (hp.mem_iff.1 hp1) hk]
  · rw [lastData_of_not_mem d0 (fun p hp1 hk => hex ⟨p, hp1, hk⟩),
      lastData_of_not_mem d0 (fun p hp1 hk => hex ⟨p, hp.mem_iff.2 hp1, hk⟩)]

theorem part1_put1 (p : APoint ι K) (o : Option (Rec12 K)) : part1 (put1 p o) = halfOf p := by
  rw [put1_def]; rfl
theorem part2_put1 (p : APoint ι K) (o : Option (Rec12 K)) : part2 (put1 p o) = part2 (o.getD Rec12.zero) := by
  rw [put1_def]; rfl
theorem part2_put2 (p : APoint ι K) (o : Option (Rec12 K)) : part2 (put2 p o) = halfOf p := by
  rw [put2_def]; rfl
theorem part1_put2 (p : APoint ι K) (o : Option (Rec12 K)) : part1 (put2 p o) = part1 (o.getD Rec12.zero) := by
  rw [put2_def]; rfl

theorem foldOpt_put1_parts (k : ι) (pts : List (APoint ι K)) (o : Option (Rec12 K)) :
    part1 ((foldOpt (fun p : APoint ι K => p.id) put1 k o pts).getD Rec12.zero)
        = lastData k (part1 (o.getD Rec12.zero)) pts ∧
    part2 ((foldOpt (fun p : APoint ι K => p.id) put1 k o pts).getD Rec12.zero)
        = part2 (o.getD Rec12.zero) := by
  induction pts generalizing o with
  | nil => exact ⟨rfl, rfl⟩
  | cons p ps ih =>
    simp only [foldOpt, lastData, List.foldl_cons]
    have := ih (if p.id = k then some (put1 p o) else o)
    simp only [foldOpt, lastData] at this
    by_cases hk : p.id = k
    · rw [if_pos hk] at this ⊢; rw [if_pos hk]
      simp only [Option.getD_some, part1_put1, part2_put1] at this
      exact this
    · rw [if_neg hk] at this ⊢; rw [if_neg hk]; exact this

theorem foldOpt_put2_parts (k : ι) (pts : List (APoint ι K)) (o : Option (Rec12 K)) :
    part2 ((foldOpt (fun p : APoint ι K => p.id) put2 k o pts).getD Rec12.zero)
        = lastData k (part2 (o.getD Rec12.zero)) pts ∧
    part1 ((foldOpt (fun p : APoint ι K => p.id) put2 k o pts).getD Rec12.zero)
        = part1 (o.getD Rec12.zero) := by
  induction pts generalizing o with
  | nil => exact ⟨rfl, rfl⟩
  | cons p ps ih =>
    simp only [foldOpt, lastData, List.foldl_cons]
    have := ih (if p.id = k then some (put2 p o) else o)
    simp only [foldOpt, lastData] at this
    by_cases hk : p.id = k
    · rw [if_pos hk] at this ⊢; rw [if_pos hk]
      simp only [Option.getD_some, part1_put2, part2_put2] at this
      exact this
    · rw [if_neg hk] at this ⊢; rw [if_neg hk]; exact this

theorem kSorted_adjrec12 (e1 e2 : List (APoint ι K)) : KSorted (adjrec12 e1 e2) :=
  kSorted_foldl_upsert (fun p : APoint ι K => p.id) put2 e2
    (kSorted_foldl_upsert (fun p : APoint ι K => p.id) put1 e1 kSorted_nil)

theorem find?_adjrec12_raw (e1 e2 : List (APoint ι K)) (k : ι) :
    find? k (adjrec12 e1 e2) = foldOpt (fun p : APoint ι K => p.id) put2 k
      (foldOpt (fun p : APoint ι K => p.id) put1 k none e1) e2 := by
  have h1 := find?_foldl_upsert (fun p : APoint ι K => p.id) put1 e1 kSorted_nil k
  have h2 := find?_foldl_upsert (fun p : APoint ι K => p.id) put2 e2
    (kSorted_foldl_upsert (fun p : APoint ι K => p.id) put1 e1 kSorted_nil) k
  rw [h1] at h2
  exact h2

/-- the record of id `k`: exists iff one of the files has the id; its halves are the data of the last
    point with that id in the respective file (zeros when absent) -/
theorem find?_adjrec12 (e1 e2 : List (APoint ι K)) (k : ι) (r : Rec12 K) :
    find? k (adjrec12 e1 e2) = some r ↔
      ((∃ p ∈ e1, p.id = k) ∨ (∃ q ∈ e2, q.id = k)) ∧
        r = mkRec (lastData k zHalf e1) (lastData k zHalf e2) := by
  rw [find?_adjrec12_raw]
  have hX := foldOpt_put1_parts k e1 (none : Option (Rec12 K))
  have hY := foldOpt_put2_parts k e2 (foldOpt (fun p : APoint ι K => p.id) put1 k none e1)
  have hS := foldOpt_isSome (fun p : APoint ι K => p.id) put2 k
    (foldOpt (fun p : APoint ι K => p.id) put1 k none e1) e2
  have hS1 := foldOpt_isSome (fun p : APoint ι K => p.id) put1 k (none : Option (Rec12 K)) e1
  rw [hS1] at hS
  have key : ∀ r', foldOpt (fun p : APoint ι K => p.id) put2 k
      (foldOpt (fun p : APoint ι K => p.id) put1 k none e1) e2 = some r' →
      r' = mkRec (lastData k zHalf e1) (lastData k zHalf e2) := by
    intro r' hr'
    rw [hr'] at hY
    rw [hX.2] at hY
    rw [hX.1] at hY
    rw [← mkRec_parts r']
    have a : part2 r' = lastData k zHalf e2 := hY.1
    have b : part1 r' = lastData k zHalf e1 := hY.2
    rw [a, b]
  constructor
  · intro h
    refine ⟨?_, key r h⟩
    have : (foldOpt (fun p : APoint ι K => p.id) put2 k
      (foldOpt (fun p : APoint ι K => p.id) put1 k none e1) e2).isSome = true := by rw [h]; rfl
    rcases hS.1 this with (h' | h') | h'
    · simp at h'
    · left; exact h'
    · right; exact h'
  · rintro ⟨hex, rfl⟩
    have : (foldOpt (fun p : APoint ι K => p.id) put2 k
      (foldOpt (fun p : APoint ι K => p.id) put1 k none e1) e2).isSome = true := by
      apply hS.2
      rcases hex with h | h
      · left; right; exact h
      · right; exact h
    obtain ⟨r', hr'⟩ := Option.isSome_iff_exists.1 this
    rw [hr', key r' hr']

theorem mem_adjrec12 (e1 e2 : List (APoint ι K)) (k : ι) (r : Rec12 K) :
    (k, r) ∈ adjrec12 e1 e2 ↔
      ((∃ p ∈ e1, p.id = k) ∨ (∃ q ∈ e2, q.id = k)) ∧
        r = mkRec (lastData k zHalf e1) (lastData k zHalf e2) := by
  rw [← find?_eq_some_iff (kSorted_adjrec12 e1 e2), find?_adjrec12]

theorem adjrec12_perm {e1 e2 e1' e2' : List (APoint ι K)}
    (h1 : (e1.map (·.id)).Nodup) (h2 : (e2.map (·.id)).Nodup) (p1 : e1.Perm e1') (p2 : e2.Perm e2') :
    adjrec12 e1' e2' = adjrec12 e1 e2 := by
  refine kSorted_ext (kSorted_adjrec12 _ _) (kSorted_adjrec12 _ _) (fun k => Option.ext (fun r => ?_))
  rw [find?_adjrec12, find?_adjrec12, lastData_perm _ p1 h1, lastData_perm _ p2 h2]
  have a : (∃ p ∈ e1', p.id = k) ↔ (∃ p ∈ e1, p.id = k) :=
    ⟨fun ⟨p, hp, h⟩ => ⟨p, p1.mem_iff.2 hp, h⟩, fun ⟨p, hp, h⟩ => ⟨p, p1.mem_iff.1 hp, h⟩⟩
  have b : (∃ p ∈ e2', p.id = k) ↔ (∃ p ∈ e2, p.id = k) :=
    ⟨fun ⟨p, hp, h⟩ => ⟨p, p2.mem_iff.2 hp, h⟩, fun ⟨p, hp, h⟩ => ⟨p, p2.mem_iff.1 hp, h⟩⟩
  rw [a, b]

end Deformation

/-! ### gama-local-deformation : `adjdiffFrom`, `t1List`, `t2List` -/
section Diff
variable {ι K : Type} [LinearOrder ι] [Zero K]

omit [LinearOrder ι] [Zero K] in
/-- the four kinds of record -/
theorem dim_cases (r : Rec12 K) :
    (¬ (r.indx1 ≠ 0 ∧ r.indx2 ≠ 0) ∧ ¬ (r.indz1 ≠ 0 ∧ r.indz2 ≠ 0) ∧ r.dim = 0 ∧
        t1Of r = [] ∧ t2Of r = []) ∨
    ((r.indx1 ≠ 0 ∧ r.indx2 ≠ 0) ∧ ¬ (r.indz1 ≠ 0 ∧ r.indz2 ≠ 0) ∧ r.dim = 2 ∧
        t1Of r = [r.indx1, r.indy1] ∧ t2Of r = [r.indx2, r.indy2]) ∨
    (¬ (r.indx1 ≠ 0 ∧ r.indx2 ≠ 0) ∧ (r.indz1 ≠ 0 ∧ r.indz2 ≠ 0) ∧ r.dim = 1 ∧
        t1Of r = [r.indz1] ∧ t2Of r = [r.indz2]) ∨
    ((r.indx1 ≠ 0 ∧ r.indx2 ≠ 0) ∧ (r.indz1 ≠ 0 ∧ r.indz2 ≠ 0) ∧ r.dim = 3 ∧
        t1Of r = [r.indx1, r.indy1, r.indz1] ∧ t2Of r = [r.indx2, r.indy2, r.indz2]) := by
  by_cases a : r.indx1 = 0 <;> by_cases b : r.indx2 = 0 <;> by_cases c : r.indz1 = 0 <;>
    by_cases d : r.indz2 = 0 <;> simp [Rec12.dim, t1Of_def, t2Of_def, a, b, c, d]

omit [LinearOrder ι] [Zero K] in
theorem t1Of_length (r : Rec12 K) : (t1Of r).length = r.dim := by
  rcases dim_cases r with h | h | h | h <;> rw [h.2.2.1, h.2.2.2.1] <;> rfl

omit [LinearOrder ι] [Zero K] in
theorem t2Of_length (r : Rec12 K) : (t2Of r).length = r.dim := by
  rcases dim_cases r with h | h | h | h <;> rw [h.2.2.1, h.2.2.2.2] <;> rfl

omit [LinearOrder ι] [Zero K] in
theorem t1List_cons (a : ι × Rec12 K) (m : List (ι × Rec12 K)) :
    t1List (a :: m) = t1Of a.2 ++ t1List m := by simp [t1List]
omit [LinearOrder ι] [Zero K] in
theorem t2List_cons (a : ι × Rec12 K) (m : List (ι × Rec12 K)) :
    t2List (a :: m) = t2Of a.2 ++ t2List m := by simp [t2List]
omit [LinearOrder ι] [Zero K] in
theorem t1List_append (l m : List (ι × Rec12 K)) : t1List (l ++ m) = t1List l ++ t1List m := by
  simp [t1List]
omit [LinearOrder ι] [Zero K] in
theorem t2List_append (l m : List (ι × Rec12 K)) : t2List (l ++ m) = t2List l ++ t2List m := by
  simp [t2List]

omit [LinearOrder ι] [Zero K] in
theorem t2List_length (m : List (ι × Rec12 K)) : (t2List m).length = (t1List m).length := by
  induction m with
  | nil => rfl
  | cons a m ih => rw [t1List_cons, t2List_cons, List.length_append, List.length_append, ih,
      t1Of_length, t2Of_length]

omit [LinearOrder ι] [Zero K] in
theorem mem_t1List {m : List (ι × Rec12 K)} {k : Nat} :
    k ∈ t1List m ↔ ∃ a ∈ m, k ∈ t1Of a.2 := by simp [t1List]

theorem getD_append_add (l l' : List Nat) (j : Nat) : (l ++ l').getD (l.length + j) 0 = l'.getD j 0 := by
  simp [List.getD_eq_getElem?_getD, List.getElem?_append_right]

variable [Sub K]

/-- the record the third loop of `init` appends when the running `cov_index` is `k` -/
def diffOf (k : Nat) (id : ι) (r : Rec12 K) : RecDiff ι K :=
  ⟨id, if r.dim = 3 ∨ r.dim = 2 then k + 1 else 0, if r.dim = 3 ∨ r.dim = 2 then k + 2 else 0,
    if r.dim = 3 then k + 3 else if r.dim = 1 then k + 1 else 0,
    r.x2 - r.x1, r.y2 - r.y1, r.z2 - r.z1, r.x2, r.y2, r.z2⟩

theorem adjdiffFrom_cons (k : Nat) (id : ι) (r : Rec12 K) (rest : List (ι × Rec12 K)) :
    adjdiffFrom k ((id, r) :: rest) =
      if r.dim = 0 then adjdiffFrom k rest
      else (diffOf k id r :: (adjdiffFrom (k + r.dim) rest).1, (adjdiffFrom (k + r.dim) rest).2) := by
  by_cases h : r.dim = 0
  · rw [adjdiffFrom, if_pos h, if_pos h]
  · rw [adjdiffFrom, if_neg h, if_neg h]
    rfl

theorem adjdiffFrom_snd (k : Nat) (m : List (ι × Rec12 K)) :
    (adjdiffFrom k m).2 = k + (t1List m).length := by
  induction m generalizing k with
  | nil => rfl
  | cons a m ih =>
    obtain ⟨id, r⟩ := a
    rw [adjdiffFrom_cons, t1List_cons, List.length_append, t1Of_length]
    split_ifs with h
    · rw [ih, h]; simp
    · show (adjdiffFrom (k + r.dim) m).2 = _
      rw [ih, Nat.add_assoc]

theorem mem_adjdiffFrom_split {k : Nat} {m : List (ι × Rec12 K)} {d : RecDiff ι K}
    (hd : d ∈ (adjdiffFrom k m).1) :
    ∃ l1 id r l2, m = l1 ++ (id, r) :: l2 ∧ r.dim ≠ 0 ∧ d = diffOf (k + (t1List l1).length) id r := by
  induction m generalizing k with
  | nil => simp [adjdiffFrom] at hd
  | cons a m ih =>
    obtain ⟨id0, r0⟩ := a
    rw [adjdiffFrom_cons] at hd
    split_ifs at hd with h0
    · obtain ⟨l1, id, r, l2, rfl, hr, rfl⟩ := ih hd
      refine ⟨(id0, r0) :: l1, id, r, l2, rfl, hr, ?_⟩
      rw [t1List_cons, List.length_append, t1Of_length, h0, Nat.zero_add]
    · rcases List.mem_cons.1 hd with h | h
      · exact ⟨[], id0, r0, m, rfl, h0, by rw [h]; rfl⟩
      · obtain ⟨l1, id, r, l2, rfl, hr, rfl⟩ := ih h
        refine ⟨(id0, r0) :: l1, id, r, l2, rfl, hr, ?_⟩
        rw [t1List_cons, List.length_append, t1Of_length, Nat.add_assoc]

theorem mem_adjdiffFrom_of_split (k : Nat) (l1 : List (ι × Rec12 K)) (id : ι) (r : Rec12 K)
    (l2 : List (ι × Rec12 K)) (hr : r.dim ≠ 0) :
    diffOf (k + (t1List l1).length) id r ∈ (adjdiffFrom k (l1 ++ (id, r) :: l2)).1 := by
  induction l1 generalizing k with
  | nil =>
    rw [List.nil_append, adjdiffFrom_cons, if_neg hr]
    exact List.mem_cons_self
  | cons a l1 ih =>
    obtain ⟨id0, r0⟩ := a
    rw [List.cons_append, adjdiffFrom_cons, t1List_cons, List.length_append, t1Of_length]
    split_ifs with h0
    · rw [h0, Nat.zero_add]; exact ih k
    · refine List.mem_cons_of_mem _ ?_
      rw [← Nat.add_assoc]; exact ih (k + r0.dim)

/-- everything the tool prints about one record, in terms of the record and of the position of its
    entries in `t1`/`t2` -/
theorem diffOf_facts (l1 : List (ι × Rec12 K)) (id : ι) (r : Rec12 K) (l2 : List (ι × Rec12 K)) :
    let d := diffOf (0 + (t1List l1).length) id r
    let t1 := t1List (l1 ++ (id, r) :: l2)
    let t2 := t2List (l1 ++ (id, r) :: l2)
    (d.indx ≠ 0 ↔ (r.indx1 ≠ 0 ∧ r.indx2 ≠ 0)) ∧ (d.indz ≠ 0 ↔ (r.indz1 ≠ 0 ∧ r.indz2 ≠ 0)) ∧
    (d.indx ≠ 0 → t1.getD (d.indx - 1) 0 = r.indx1 ∧ t1.getD (d.indy - 1) 0 = r.indy1 ∧
        t2.getD (d.indx - 1) 0 = r.indx2 ∧ t2.getD (d.indy - 1) 0 = r.indy2) ∧
    (d.indz ≠ 0 → t1.getD (d.indz - 1) 0 = r.indz1 ∧ t2.getD (d.indz - 1) 0 = r.indz2) := by
  intro d t1 t2
  have ht1 : ∀ j, t1.getD ((t1List l1).length + j) 0 = (t1Of r ++ t1List l2).getD j 0 := by
    intro j
    show (t1List (l1 ++ (id, r) :: l2)).getD _ 0 = _
    rw [t1List_append, t1List_cons, getD_append_add]
  have ht2 : ∀ j, t2.getD ((t1List l1).length + j) 0 = (t2Of r ++ t2List l2).getD j 0 := by
    intro j
    show (t2List (l1 ++ (id, r) :: l2)).getD _ 0 = _
    rw [t2List_append, t2List_cons, ← t2List_length, getD_append_add]
  have ht10 : t1.getD (t1List l1).length 0 = (t1Of r ++ t1List l2).getD 0 0 := ht1 0
  have ht20 : t2.getD (t1List l1).length 0 = (t2Of r ++ t2List l2).getD 0 0 := ht2 0
  rcases dim_cases r with h | h | h | h <;> obtain ⟨hx, hz, hdim, h1, h2⟩ := h
  · simp [d, diffOf, hdim, hx, hz]
  all_goals
    simp [d, diffOf, hdim, hx, hz]
    simp only [← List.getD_eq_getElem?_getD, ht1, ht10, ht2, ht20, h1, h2]
    simp

end Diff

/-! ### gama-local-deformation : `deformation` -/
section Def
variable {ι K : Type} [LinearOrder ι] [Zero K] [Sub K] [Add K]

/-- what `deformation` returns when both index checks pass -/
def defOut (e1 e2 : Epoch ι K) : DefOut ι K :=
  ⟨(adjdiffFrom 0 (adjrec12 e1.pts e2.pts)).1, (adjdiffFrom 0 (adjrec12 e1.pts e2.pts)).2,
    t1List (adjrec12 e1.pts e2.pts), t2List (adjrec12 e1.pts e2.pts),
    (List.range (adjdiffFrom 0 (adjrec12 e1.pts e2.pts)).2).map (fun i0 =>
      (List.range ((adjdiffFrom 0 (adjrec12 e1.pts e2.pts)).2 - i0)).map (fun d =>
        shiftCov e1.cov e2.cov (t1List (adjrec12 e1.pts e2.pts)) (t2List (adjrec12 e1.pts e2.pts))
          (i0 + 1) (i0 + 1 + d)))⟩

theorem deformation_of_ok {e1 e2 : Epoch ι K} (h1 : indexesOk e1 = true) (h2 : indexesOk e2 = true) :
    deformation e1 e2 = .ok (defOut e1 e2) := by
  unfold deformation
  rw [h1, h2]
  rfl

theorem deformation_ok_iff (e1 e2 : Epoch ι K) :
    (∃ o, deformation e1 e2 = .ok o) ↔ (indexesOk e1 = true ∧ indexesOk e2 = true) := by
  constructor
  · rintro ⟨o, h⟩
    unfold deformation at h
    cases h1 : indexesOk e1 <;> cases h2 : indexesOk e2 <;> rw [h1, h2] at h <;>
      first | exact ⟨rfl, rfl⟩ | (exfalso; cases h)
  · rintro ⟨h1, h2⟩
    exact ⟨_, deformation_of_ok h1 h2⟩

theorem deformation_eq_ok {e1 e2 : Epoch ι K} {o : DefOut ι K} (h : deformation e1 e2 = .ok o) :
    indexesOk e1 = true ∧ indexesOk e2 = true ∧ o = defOut e1 e2 := by
  obtain ⟨h1, h2⟩ := (deformation_ok_iff e1 e2).1 ⟨o, h⟩
  rw [deformation_of_ok h1 h2] at h
  exact ⟨h1, h2, by cases h; rfl⟩

theorem deformation_congr {e1 e2 e1' e2' : Epoch ι K} (h1 : indexesOk e1' = indexesOk e1)
    (h2 : indexesOk e2' = indexesOk e2) (hm : adjrec12 e1'.pts e2'.pts = adjrec12 e1.pts e2.pts)
    (c1 : e1'.cov = e1.cov) (c2 : e2'.cov = e2.cov) : deformation e1' e2' = deformation e1 e2 := by
  unfold deformation
  rw [h1, h2, hm, c1, c2]

omit [LinearOrder ι] [Zero K] [Sub K] [Add K] in
theorem indexesOk_perm {pts pts' : List (APoint ι K)} (hp : pts.Perm pts') (n : Nat) (c : Nat → Nat → K) :
    indexesOk ⟨pts', n, c⟩ = indexesOk ⟨pts, n, c⟩ := by
  unfold indexesOk
  rw [Bool.eq_iff_iff, List.all_eq_true, List.all_eq_true]
  exact ⟨fun h x hx => h x (hp.mem_iff.1 hx), fun h x hx => h x (hp.mem_iff.2 hx)⟩

theorem deformation_perm {pts1 pts2 pts1' pts2' : List (APoint ι K)}
    (h1 : (pts1.map (·.id)).Nodup) (h2 : (pts2.map (·.id)).Nodup)
    (p1 : pts1.Perm pts1') (p2 : pts2.Perm pts2') (n1 n2 : Nat) (c1 c2 : Nat → Nat → K) :
    deformation ⟨pts1', n1, c1⟩ ⟨pts2', n2, c2⟩ = deformation ⟨pts1, n1, c1⟩ ⟨pts2, n2, c2⟩ :=
  deformation_congr (indexesOk_perm p1 n1 c1) (indexesOk_perm p2 n2 c2)
    (adjrec12_perm h1 h2 p1 p2) rfl rfl

omit [Add K] in
/-- soundness of the difference records, with the position of their entries in `t1`/`t2` -/
theorem diffs_sound (e1 e2 : List (APoint ι K)) :
    ∀ d ∈ (adjdiffFrom 0 (adjrec12 e1 e2)).1, ∃ p ∈ e1, ∃ q ∈ e2,
      p.id = d.id ∧ q.id = d.id ∧ d.dx = q.x - p.x ∧ d.dy = q.y - p.y ∧ d.dz = q.z - p.z ∧
      d.x2 = q.x ∧ d.y2 = q.y ∧ d.z2 = q.z ∧
      (d.indx ≠ 0 ↔ (p.indx ≠ 0 ∧ q.indx ≠ 0)) ∧ (d.indz ≠ 0 ↔ (p.indz ≠ 0 ∧ q.indz ≠ 0)) ∧
      (d.indx ≠ 0 →
        (t1List (adjrec12 e1 e2)).getD (d.indx - 1) 0 = p.indx ∧
        (t1List (adjrec12 e1 e2)).getD (d.indy - 1) 0 = p.indy ∧
        (t2List (adjrec12 e1 e2)).getD (d.indx - 1) 0 = q.indx ∧
        (t2List (adjrec12 e1 e2)).getD (d.indy - 1) 0 = q.indy) ∧
      (d.indz ≠ 0 →
        (t1List (adjrec12 e1 e2)).getD (d.indz - 1) 0 = p.indz ∧
        (t2List (adjrec12 e1 e2)).getD (d.indz - 1) 0 = q.indz) := by
  intro d hd
  obtain ⟨l1, id, r, l2, hm, hr, rfl⟩ := mem_adjdiffFrom_split hd
  have hmem : (id, r) ∈ adjrec12 e1 e2 := by rw [hm]; simp
  obtain ⟨_, hrec⟩ := (mem_adjrec12 e1 e2 id r).1 hmem
  rcases lastData_cases id zHalf e1 with ⟨hz1, _⟩ | ⟨p, hp, hpk, hp1⟩
  · exfalso; apply hr; rw [hrec, hz1]; simp [Rec12.dim, mkRec, zHalf]
  rcases lastData_cases id zHalf e2 with ⟨hz2, _⟩ | ⟨q, hq, hqk, hq1⟩
  · exfalso; apply hr; rw [hrec, hz2]; simp [Rec12.dim, mkRec, zHalf]
  rw [hp1, hq1] at hrec
  subst hrec
  have F := diffOf_facts l1 id (mkRec (halfOf p) (halfOf q)) l2
  rw [← hm] at F
  exact ⟨p, hp, q, hq, hpk, hqk, rfl, rfl, rfl, rfl, rfl, rfl, F.1, F.2.1, F.2.2.1, F.2.2.2⟩

omit [Add K] in
theorem diffs_complete {e1 e2 : List (APoint ι K)}
    (h1 : (e1.map (·.id)).Nodup) (h2 : (e2.map (·.id)).Nodup) :
    ∀ p ∈ e1, ∀ q ∈ e2, p.id = q.id →
      ((p.indx ≠ 0 ∧ q.indx ≠ 0) ∨ (p.indz ≠ 0 ∧ q.indz ≠ 0)) →
      ∃ d ∈ (adjdiffFrom 0 (adjrec12 e1 e2)).1,
        d.id = p.id ∧ d.dx = q.x - p.x ∧ d.dy = q.y - p.y ∧ d.dz = q.z - p.z := by
  intro p hp q hq hid hdim
  have hmem : (p.id, mkRec (halfOf p) (halfOf q)) ∈ adjrec12 e1 e2 := by
    rw [mem_adjrec12]
    refine ⟨Or.inl ⟨p, hp, rfl⟩, ?_⟩
    rw [lastData_of_mem _ h1 hp rfl, lastData_of_mem _ h2 hq hid.symm]
  obtain ⟨l1, l2, hm⟩ := List.append_of_mem hmem
  have hr : (mkRec (halfOf p) (halfOf q)).dim ≠ 0 := by
    rcases dim_cases (mkRec (halfOf p) (halfOf q)) with h | h | h | h
    · rcases hdim with h' | h'
      · exact absurd h' h.1
      · exact absurd h' h.2.1
    · rw [h.2.2.1]; decide
    · rw [h.2.2.1]; decide
    · rw [h.2.2.1]; decide
  refine ⟨diffOf (0 + (t1List l1).length) p.id (mkRec (halfOf p) (halfOf q)), ?_, rfl, rfl, rfl, rfl⟩
  rw [hm]
  exact mem_adjdiffFrom_of_split 0 l1 _ _ l2 hr

omit [LinearOrder ι] [Zero K] [Sub K] [Add K] in
theorem mem_t1Of {r : Rec12 K} {k : Nat} (h : k ∈ t1Of r) : k = r.indx1 ∨ k = r.indy1 ∨ k = r.indz1 := by
  rcases dim_cases r with c | c | c | c <;> rw [c.2.2.2.1] at h <;> simp at h <;> tauto

omit [LinearOrder ι] [Zero K] [Sub K] [Add K] in
theorem mem_t2Of {r : Rec12 K} {k : Nat} (h : k ∈ t2Of r) : k = r.indx2 ∨ k = r.indy2 ∨ k = r.indz2 := by
  rcases dim_cases r with c | c | c | c <;> rw [c.2.2.2.2] at h <;> simp at h <;> tauto

omit [LinearOrder ι] [Zero K] [Sub K] [Add K] in
theorem indexesOk_mem {e : Epoch ι K} (h : indexesOk e = true) {p : APoint ι K} (hp : p ∈ e.pts) :
    p.indx ≤ e.covDim ∧ p.indy ≤ e.covDim ∧ p.indz ≤ e.covDim := by
  unfold indexesOk at h
  rw [List.all_eq_true] at h
  have := h p hp
  simp only [Bool.and_eq_true, decide_eq_true_eq] at this
  exact ⟨this.1.1, this.1.2, this.2⟩

omit [Sub K] [Add K] in
/-- every index the matrix loop reads from epoch 1 is inside the first covariance matrix -/
theorem t1List_le {e1 e2 : Epoch ι K} (h1 : indexesOk e1 = true) :
    ∀ k ∈ t1List (adjrec12 e1.pts e2.pts), k ≤ e1.covDim := by
  intro k hk
  obtain ⟨⟨id, r⟩, ha, hk'⟩ := mem_t1List.1 hk
  obtain ⟨_, hrec⟩ := (mem_adjrec12 _ _ id r).1 ha
  have hk'' := mem_t1Of hk'
  rcases lastData_cases id zHalf e1.pts with ⟨hz1, _⟩ | ⟨p, hp, _, hp1⟩
  · rw [hz1] at hrec; subst hrec
    have : k = 0 := by simpa [mkRec, zHalf] using hk''
    rw [this]; exact Nat.zero_le _
  · rw [hp1] at hrec; subst hrec
    obtain ⟨a, b, c⟩ := indexesOk_mem h1 hp
    rcases hk'' with h | h | h <;> rw [h] <;> assumption

omit [LinearOrder ι] [Zero K] [Sub K] [Add K] in
theorem mem_t2List {m : List (ι × Rec12 K)} {k : Nat} :
    k ∈ t2List m ↔ ∃ a ∈ m, k ∈ t2Of a.2 := by simp [t2List]

omit [Sub K] [Add K] in
theorem t2List_le {e1 e2 : Epoch ι K} (h2 : indexesOk e2 = true) :
    ∀ k ∈ t2List (adjrec12 e1.pts e2.pts), k ≤ e2.covDim := by
  intro k hk
  obtain ⟨⟨id, r⟩, ha, hk'⟩ := mem_t2List.1 hk
  obtain ⟨_, hrec⟩ := (mem_adjrec12 _ _ id r).1 ha
  have hk'' := mem_t2Of hk'
  rcases lastData_cases id zHalf e2.pts with ⟨hz1, _⟩ | ⟨p, hp, _, hp1⟩
  · rw [hz1] at hrec; subst hrec
    have : k = 0 := by simpa [mkRec, zHalf] using hk''
    rw [this]; exact Nat.zero_le _
  · rw [hp1] at hrec; subst hrec
    obtain ⟨a, b, c⟩ := indexesOk_mem h2 hp
    rcases hk'' with h | h | h <;> rw [h] <;> assumption

theorem defOut_C_entry (e1 e2 : Epoch ι K) {i0 d : Nat} (hi : i0 < (defOut e1 e2).covIndex)
    (hd : d < (defOut e1 e2).covIndex - i0) :
    ((defOut e1 e2).C.getD i0 []).getD d 0 =
      e1.cov ((defOut e1 e2).t1.getD i0 0) ((defOut e1 e2).t1.getD (i0 + d) 0) +
      e2.cov ((defOut e1 e2).t2.getD i0 0) ((defOut e1 e2).t2.getD (i0 + d) 0) := by
  simp only [defOut] at hi hd ⊢
  simp [List.getD_eq_getElem?_getD, hi, hd, shiftCov]

theorem defOut_covIndex (e1 e2 : Epoch ι K) : (defOut e1 e2).covIndex = (defOut e1 e2).t1.length := by
  show (adjdiffFrom 0 (adjrec12 e1.pts e2.pts)).2 = (t1List (adjrec12 e1.pts e2.pts)).length
  rw [adjdiffFrom_snd, Nat.zero_add]

end Def

/-! ### gama-local-deformation : an epoch compared with itself -/
section Self
variable {ι K : Type} [LinearOrder ι] [Field K]

theorem adjrec12_self_sym (e : List (APoint ι K)) :
    ∀ a ∈ adjrec12 e e, part1 a.2 = part2 a.2 := by
  rintro ⟨id, r⟩ ha
  obtain ⟨_, hrec⟩ := (mem_adjrec12 e e id r).1 ha
  rw [hrec]; rfl

omit [LinearOrder ι] [Field K] in
theorem t1Of_eq_t2Of {r : Rec12 K} (h : part1 r = part2 r) : t1Of r = t2Of r := by
  have a : r.indx1 = r.indx2 := congrArg Half.ix h
  have b : r.indy1 = r.indy2 := congrArg Half.iy h
  have c : r.indz1 = r.indz2 := congrArg Half.iz h
  simp [t1Of_def, t2Of_def, a, b, c]

omit [LinearOrder ι] [Field K] in
theorem t1List_eq_t2List {m : List (ι × Rec12 K)} (h : ∀ a ∈ m, part1 a.2 = part2 a.2) :
    t1List m = t2List m := by
  induction m with
  | nil => rfl
  | cons a m ih =>
    rw [t1List_cons, t2List_cons, t1Of_eq_t2Of (h a List.mem_cons_self),
      ih (fun b hb => h b (List.mem_cons_of_mem _ hb))]

theorem shiftCov_self (c : Nat → Nat → K) (t : List Nat) (i0 d : Nat) :
    shiftCov c c t t (i0 + 1) (i0 + 1 + d) = 2 * c (t.getD i0 0) (t.getD (i0 + d) 0) := by
  have e : i0 + 1 + d - 1 = i0 + d := by omega
  unfold shiftCov
  rw [e, Nat.add_sub_cancel, two_mul]

theorem deformation_self (e : Epoch ι K) (h : indexesOk e = true) :
    ∃ o, deformation e e = .ok o ∧ (∀ d ∈ o.diffs, d.dx = 0 ∧ d.dy = 0 ∧ d.dz = 0) ∧
      o.t1 = o.t2 ∧ o.covIndex = o.t1.length ∧
      o.C = (List.range o.covIndex).map (fun i0 => (List.range (o.covIndex - i0)).map (fun d =>
        2 * e.cov (o.t1.getD i0 0) (o.t1.getD (i0 + d) 0))) := by
  have ht : t1List (adjrec12 e.pts e.pts) = t2List (adjrec12 e.pts e.pts) :=
    t1List_eq_t2List (adjrec12_self_sym e.pts)
  refine ⟨defOut e e, deformation_of_ok h h, ?_, ht, defOut_covIndex e e, ?_⟩
  · intro d hd
    obtain ⟨l1, id, r, l2, hm, _, rfl⟩ := mem_adjdiffFrom_split (show d ∈ (adjdiffFrom 0 _).1 from hd)
    have hmem : (id, r) ∈ adjrec12 e.pts e.pts := by rw [hm]; simp
    have hs := adjrec12_self_sym e.pts _ hmem
    have a : r.x1 = r.x2 := congrArg Half.x hs
    have b : r.y1 = r.y2 := congrArg Half.y hs
    have c : r.z1 = r.z2 := congrArg Half.z hs
    simp [diffOf, a, b, c]
  · simp only [defOut, ← ht, shiftCov_self]

/-- with unique ids the compared coordinates are exactly the adjusted coordinates of the file -/
theorem self_compared {e : List (APoint ι K)} (hnd : (e.map (·.id)).Nodup) (k : Nat) :
    k ∈ t1List (adjrec12 e e) ↔
      ∃ p ∈ e, (p.indx ≠ 0 ∧ (k = p.indx ∨ k = p.indy)) ∨ (p.indz ≠ 0 ∧ k = p.indz) := by
  rw [mem_t1List]
  constructor
  · rintro ⟨⟨id, r⟩, ha, hk⟩
    obtain ⟨_, hrec⟩ := (mem_adjrec12 e e id r).1 ha
    rcases lastData_cases id zHalf e with ⟨hz1, _⟩ | ⟨p, hp, _, hp1⟩
    · rw [hz1] at hrec; subst hrec
      simp [t1Of_def, mkRec, zHalf] at hk
    · rw [hp1] at hrec; subst hrec
      refine ⟨p, hp, ?_⟩
      by_cases hx : p.indx = 0 <;> by_cases hz : p.indz = 0 <;>
        simp [t1Of_def, mkRec, halfOf, hx, hz] at hk ⊢ <;> tauto
  · rintro ⟨p, hp, hk⟩
    refine ⟨(p.id, mkRec (halfOf p) (halfOf p)), ?_, ?_⟩
    · rw [mem_adjrec12]
      refine ⟨Or.inl ⟨p, hp, rfl⟩, ?_⟩
      rw [lastData_of_mem _ hnd hp rfl]
    · by_cases hx : p.indx = 0 <;> by_cases hz : p.indz = 0 <;>
        simp [t1Of_def, mkRec, halfOf, hx, hz] at hk ⊢ <;> tauto

end Self

/-! ### concrete data for the non-vacuity examples of `Props/C12Consumers.lean` -/
namespace Ex

/-- file 1: ids out of order, point 2 without height -/
def f1 : List (APoint Nat ℚ) :=
  [⟨3, true, true, 10, 20, 30, 1, 2, 3⟩, ⟨1, true, true, 1, 2, 3, 4, 5, 6⟩, ⟨2, true, false, 5, 5, 0, 7, 8, 0⟩]
/-- file 2: another order, point 4 only here -/
def f2 : List (APoint Nat ℚ) :=
  [⟨1, true, true, 3 / 2, 2, 2, 1, 2, 3⟩, ⟨4, true, true, 0, 0, 0, 0, 0, 0⟩, ⟨3, true, true, 10, 21, 30, 4, 5, 6⟩]
def f1' : List (APoint Nat ℚ) :=
  [⟨1, true, true, 1, 2, 3, 4, 5, 6⟩, ⟨2, true, false, 5, 5, 0, 7, 8, 0⟩, ⟨3, true, true, 10, 20, 30, 1, 2, 3⟩]
def f2' : List (APoint Nat ℚ) :=
  [⟨4, true, true, 0, 0, 0, 0, 0, 0⟩, ⟨3, true, true, 10, 21, 30, 4, 5, 6⟩, ⟨1, true, true, 3 / 2, 2, 2, 1, 2, 3⟩]

def cov1 : Nat → Nat → ℚ := fun i j => if i = j then 2 else 1 / 2
def cov2 : Nat → Nat → ℚ := fun i j => if i = j then 3 else 1 / 3
def e1 : Epoch Nat ℚ := ⟨f1, 8, cov1⟩
def e2 : Epoch Nat ℚ := ⟨f2, 6, cov2⟩
/-- index 8 (point 2) is outside the 7×7 matrix (the situation of fix e4c977d) -/
def eBad : Epoch Nat ℚ := ⟨f1, 7, cov1⟩

theorem perm1 : f1.Perm f1' := List.perm_append_comm (l₁ := [_]) (l₂ := [_, _])
theorem perm2 : f2.Perm f2' := List.perm_append_comm (l₁ := [_]) (l₂ := [_, _])

end Ex

end Gama.Consumers
