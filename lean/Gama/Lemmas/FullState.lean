/-
  Invariants of the full-solver state machines (Model/FullState.lean) and the refinement
  "every answer is what a fresh object with the current configuration would compute".
  Core Lean only.
-/
import Gama.Model.FullState
namespace Gama.C04.Full
open Gama Gama.C04

/-- expected provenance of the regularisation-dependent artefact for the effective list `l` -/
def vexp (inp : Input) (l : List Nat) : VProv := if inp.nullity = 0 then .plain else .reg l

/-- the property's quantifier: a `min_x` call configures a list that resolves the defect -/
def Op.Ok (inp : Input) : Op → Prop
  | .minx l => inp.nullity = 0 ∨ inp.resolves l = true
  | .minxAll => inp.nullity = 0 ∨ inp.resolves (allList inp.n) = true
  | _ => True

instance (inp : Input) (o : Op) : Decidable (o.Ok inp) := by
  cases o <;> simp only [Op.Ok] <;> infer_instance

/-- queries (as opposed to configuration changes) -/
def Op.IsQuery : Op → Prop
  | .minxAll => False
  | .minx _ => False
  | .reset => False
  | _ => True

theorem allList_length (n : Nat) : (allList n).length = n := by simp [allList]

/-! ### AdjCholDec / AdjGSO -/

structure Inv (k : Kind) (inp : Input) (s : FState) : Prop where
  wf : inp.nullity ≤ inp.n
  cfg : inp.nullity = 0 ∨ inp.resolves (eff inp s) = true
  sub : s.useAll = false → s.list.isSome = true
  /-- chol, `minx_t == ALL`: the stored list is absent or the list 1..n' that `solve()` built for SOME
      system size n' (possibly of an earlier input: `solve()` rebuilds it iff `minx_n != N`) -/
  all : k = .chol → s.useAll = true → s.list = none ∨ ∃ n', s.list = some (allList n')
  solved : s.solved = true → s.dec = true ∧ s.gprov = vexp inp (eff inp s)
            ∧ (0 < inp.nullity → s.list = some (eff inp s))

/-- a configuration (as the harness / `Adj::init_least_squares` sets it up) is admissible -/
def CfgOk (k : Kind) (inp : Input) (useAll : Bool) (list : Option (List Nat)) : Prop :=
  Inv k inp (init useAll list)

/-- the history-free specification: a function of the input and the effective list -/
def spec (k : Kind) (inp : Input) (l : List Nat) : Op → Out
  | .minxAll => .ok
  | .minx _ => .ok
  | .reset => .ok
  | .unknowns => .x (vexp inp l)
  | .residuals => .resid .plain
  | .sumsq => .sumsq .plain
  | .defect => .defect
  | .lindep i => .lindep i
  | .qbb i j => .qbb i j
  | .qxx i j =>
    match k with
    | .chol => if inp.nullity = 0 then .qxx i j none .plain else .qxx i j (some l) (.reg l)
    | .gso => .qxx i j none (vexp inp l)
  | .qbx i j =>
    match k with
    | .chol => if inp.nullity = 0 then .qbx i j none .plain else .qbx i j (some l) (.reg l)
    | .gso => .qbx i j none (vexp inp l)

/-! ### the ICGS error counter: what the REGENERATED table implies (round 5)

Everything below this block sees `solve` only through `solve_eq`.  The three lemmas are proved by evaluating the
interpreter of Model/FullState.lean on `Gen/IcgsError.lean`; with the reset behind the early return of `icgs2()`
(seeded/C20-seed3) `counter_code` is false (`counter … false false e = e`) and the file no longer checks. -/

/-- the counter value a `solve()` leaves — a function of (kind, singular?, regularisation failed?) only -/
def errC (k : Kind) (sing fail : Bool) : Nat := counter icgsCode k sing fail icgsCode.ctorValue

/-- **the counter is reset on every `solve()` before anything can increment or read it**: its value after the ICGS
    calls does not depend on the value it had before (`error_icgs2_defect = 0;` opens `icgs1()`, which every
    `solve()` runs — directly and, were the call removed, through `if (!icgs1_is_ready) icgs1();`) -/
theorem counter_code (k : Kind) (sing fail : Bool) (e : Nat) :
    counter icgsCode k sing fail e = errC k sing fail := by
  cases k <;> cases sing <;> cases fail <;> rfl

/-- `solve()` throws iff the regularisation of THIS system failed (`fail` presupposes a singular system) -/
theorem throws_code (k : Kind) (sing fail : Bool) (h : fail = true → sing = true) :
    throwsOn icgsCode k fail (errC k sing fail) = fail := by
  cases k <;> cases sing <;> cases fail <;> first | rfl | (exact absurd (h rfl) (by decide))

/-- the read site: `is_solved = true` precedes the throw (the machines set `solved` before reporting the throw) -/
theorem solved_set_before_throw : Gama.Gen.IcgsError.solvedSetBeforeThrow = true := rfl

/-- `solve()` of the code in closed form -/
theorem solve_eq (k : Kind) (inp : Input) (s : FState) :
    solve k inp s =
      if s.solved then (s, false) else
      let s := { s with dec := true }
      if inp.nullity = 0 then ({ s with solved := true, gprov := .plain, err := errC k false false }, false)
      else
        let s := materialise k inp s
        let l := s.list.getD []
        if inp.resolves l then ({ s with solved := true, gprov := .reg l, err := errC k true false }, false)
        else ({ s with solved := true, gprov := .broken l, err := errC k true true }, true) := by
  simp only [solve, solveWith, counter_code, throws_code k false false (by simp),
    throws_code k true false (by simp), throws_code k true true (by simp)]

theorem solveWith_code (k : Kind) (inp : Input) (s : FState) : solveWith icgsCode k inp s = solve k inp s := rfl

theorem step_eq (k : Kind) (inp : Input) (s : FState) (op : Op) : step k inp s op = stepWith icgsCode k inp s op := rfl

/-- on a singular system `materialise` leaves the effective list in the object -/
theorem materialise_spec {k : Kind} {inp : Input} {s : FState} (h : Inv k inp s) (hn : 0 < inp.nullity) :
    (materialise k inp s).list = some (eff inp s) ∧ (materialise k inp s).useAll = s.useAll
    ∧ (materialise k inp s).solved = s.solved ∧ (materialise k inp s).dec = s.dec
    ∧ (materialise k inp s).gprov = s.gprov := by
  have hw := h.wf
  cases hu : s.useAll with
  | false =>
    have := h.sub hu
    cases hl : s.list with
    | none => simp [hl] at this
    | some l => cases k <;> simp [materialise, eff, hu, hl]
  | true =>
    cases k with
    | gso => simp [materialise, eff, hu]
    | chol =>
      rcases h.all rfl hu with hl | ⟨n', hl⟩
      · have : ¬ (0 = inp.n) := by omega
        simp [materialise, eff, hu, hl, this]
      · by_cases hn' : n' = inp.n
        · simp [materialise, eff, hu, hl, allList_length, hn']
        · simp [materialise, eff, hu, hl, allList_length, hn']

theorem eff_materialise {k : Kind} {inp : Input} {s : FState} (h : Inv k inp s) (hn : 0 < inp.nullity) :
    eff inp (materialise k inp s) = eff inp s := by
  have hm := materialise_spec h hn
  unfold eff
  rw [hm.2.1, hm.1]
  cases hu : s.useAll <;> simp [eff, hu]

/-- `solve()` in a state satisfying the invariant: no throw, the object ends up solved for the
    effective list, which is unchanged -/
theorem solve_spec {k : Kind} {inp : Input} {s : FState} (h : Inv k inp s) :
    Inv k inp (solve k inp s).1 ∧ (solve k inp s).2 = false
    ∧ (solve k inp s).1.solved = true ∧ eff inp (solve k inp s).1 = eff inp s := by
  obtain ⟨sv, ua, l, d, g, e⟩ := s
  cases sv with
  | true => simp [solve_eq, h]
  | false =>
    by_cases hn : inp.nullity = 0
    · simp only [solve_eq, hn]
      refine ⟨⟨h.wf, ?_, h.sub, h.all, ?_⟩, by simp, by simp, by simp [eff]⟩
      · exact Or.inl hn
      · intro _; exact ⟨rfl, by simp [vexp, hn], fun h0 => by omega⟩
    · have h0 : 0 < inp.nullity := by omega
      -- the state `materialise` starts from differs from `s` only in the ghost `dec`
      have h1 : Inv k inp ⟨false, ua, l, true, g, e⟩ :=
        ⟨h.wf, h.cfg, h.sub, h.all, fun hh => absurd hh (by simp)⟩
      have hm := materialise_spec h1 h0
      have he := eff_materialise h1 h0
      have heff1 : eff inp ⟨false, ua, l, true, g, e⟩ = eff inp ⟨false, ua, l, d, g, e⟩ := rfl
      have hr : inp.resolves (eff inp ⟨false, ua, l, d, g, e⟩) = true := by
        rcases h.cfg with hc | hc
        · exact absurd hc hn
        · exact hc
      rw [heff1] at hm he
      generalize hM : materialise k inp ⟨false, ua, l, true, g, e⟩ = M at hm he
      generalize hE : eff inp ⟨false, ua, l, d, g, e⟩ = E at hm he hr
      have hsolve : solve k inp ⟨false, ua, l, d, g, e⟩ = ({ M with solved := true, gprov := .reg E, err := errC k true false }, false) := by
        simp only [solve_eq, hn, if_false, Bool.false_eq_true, hM]
        rw [hm.1]
        simp [hr]
      rw [hsolve]
      have heff2 : eff inp { M with solved := true, gprov := .reg E, err := errC k true false } = E := by
        have := he; unfold eff at this ⊢; simpa using this
      refine ⟨⟨h.wf, ?_, ?_, ?_, ?_⟩, rfl, rfl, heff2⟩
      · rw [heff2]; exact Or.inr hr
      · intro hu
        show M.list.isSome = true
        rw [hm.1]; rfl
      · intro hk hu
        have hu' : ua = true := by
          have := hm.2.1; simp at hu; rw [this] at hu; exact hu
        right
        refine ⟨inp.n, ?_⟩
        show M.list = _
        rw [hm.1, ← hE]; simp [eff, hu']
      · intro _
        rw [heff2]
        refine ⟨?_, by simp [vexp, hn], fun _ => ?_⟩
        · show M.dec = true
          rw [hm.2.2.2.1]
        · show M.list = _
          rw [hm.1]

/-- what a query reads after `solve()` -/
theorem solved_reads {k : Kind} {inp : Input} {s : FState} (h : Inv k inp s) (hs : s.solved = true) :
    s.dec = true ∧ s.gprov = vexp inp (eff inp s) ∧ (0 < inp.nullity → s.list = some (eff inp s)) :=
  h.solved hs

theorem inv_config {k : Kind} {inp : Input} {s : FState} (h : Inv k inp s)
    (ua : Bool) (l : Option (List Nat))
    (hcfg : inp.nullity = 0 ∨ inp.resolves (if ua then allList inp.n else l.getD []) = true)
    (hsub : ua = false → l.isSome = true)
    (hall : k = .chol → ua = true → l = none ∨ ∃ n', l = some (allList n')) :
    Inv k inp { s with list := l, useAll := ua, solved := false } :=
  ⟨h.wf, by simpa [eff] using hcfg, hsub, hall, fun hh => absurd hh (by simp)⟩

/-- one step keeps the invariant and answers according to the history-free specification -/
theorem step_spec {k : Kind} {inp : Input} {s : FState} (h : Inv k inp s) (op : Op) (hop : op.Ok inp) :
    Inv k inp (step k inp s op).1 ∧ (step k inp s op).2 = spec k inp (eff inp s) op
    ∧ (op.IsQuery → eff inp (step k inp s op).1 = eff inp s) := by
  have hs := solve_spec h
  have hr := solved_reads hs.1 hs.2.2.1
  have he := hs.2.2.2
  cases op with
  | unknowns => simp [step, stepWith, solveWith_code, spec, hs.2.1, hr.1, hr.2.1, he, hs.1]
  | residuals => simp [step, stepWith, solveWith_code, spec, hs.2.1, hr.1, he, hs.1]
  | sumsq => simp [step, stepWith, solveWith_code, spec, hs.2.1, hr.1, he, hs.1]
  | defect => simp [step, stepWith, solveWith_code, spec, hs.2.1, hr.1, he, hs.1]
  | lindep i => simp [step, stepWith, solveWith_code, spec, hs.2.1, hr.1, he, hs.1]
  | qbb i j => simp [step, stepWith, solveWith_code, spec, hs.2.1, hr.1, he, hs.1]
  | qxx i j =>
    cases k with
    | gso => simp [step, stepWith, solveWith_code, spec, hs.2.1, hr.1, hr.2.1, he, hs.1]
    | chol =>
      by_cases hn : inp.nullity = 0
      · simp [step, stepWith, solveWith_code, spec, hs.2.1, hr.1, he, hs.1, hn]
      · have h0 : 0 < inp.nullity := by omega
        have hl := hr.2.2 h0
        simp [step, stepWith, solveWith_code, spec, hs.2.1, hr.1, hr.2.1, he, hs.1, hn, hl, vexp]
  | qbx i j =>
    cases k with
    | gso => simp [step, stepWith, solveWith_code, spec, hs.2.1, hr.1, hr.2.1, he, hs.1]
    | chol =>
      by_cases hn : inp.nullity = 0
      · simp [step, stepWith, solveWith_code, spec, hs.2.1, hr.1, he, hs.1, hn]
      · have h0 : 0 < inp.nullity := by omega
        have hl := hr.2.2 h0
        simp [step, stepWith, solveWith_code, spec, hs.2.1, hr.1, hr.2.1, he, hs.1, hn, hl, vexp]
  | minxAll =>
    cases k with
    | chol =>
      exact ⟨inv_config h true none (by simpa [Op.Ok] using hop) (by simp) (by simp), rfl,
        fun hq => absurd hq (by simp [Op.IsQuery])⟩
    | gso =>
      exact ⟨inv_config h true s.list (by simpa [Op.Ok] using hop) (by simp) (by simp), rfl,
        fun hq => absurd hq (by simp [Op.IsQuery])⟩
  | minx l =>
    exact ⟨inv_config h false (some l) (by simpa [Op.Ok] using hop) (by simp) (by simp), rfl,
      fun hq => absurd hq (by simp [Op.IsQuery])⟩
  | reset =>
    exact ⟨⟨h.wf, h.cfg, h.sub, h.all, fun hh => absurd hh (by simp [step, stepWith])⟩, rfl,
      fun hq => absurd hq (by simp [Op.IsQuery])⟩

theorem run_inv {k : Kind} {inp : Input} {s : FState} (h : Inv k inp s) {ops : List Op}
    (hops : ∀ o ∈ ops, o.Ok inp) : Inv k inp (run k inp s ops) := by
  induction ops generalizing s with
  | nil => exact h
  | cons o ops ih =>
    exact ih (step_spec h o (hops o (List.mem_cons_self ..))).1
      (fun o' ho' => hops o' (List.mem_cons_of_mem _ ho'))

/-- the invariant of a state only constrains a fresh object through its configuration -/
theorem inv_init_of {k : Kind} {inp : Input} {s : FState} (h : Inv k inp s) :
    Inv k inp (init s.useAll s.list) :=
  ⟨h.wf, h.cfg, h.sub, h.all, fun hh => absurd hh (by simp [init])⟩

theorem step_eq_fresh {k : Kind} {inp : Input} {s : FState} (h : Inv k inp s) (op : Op) (hop : op.Ok inp) :
    (step k inp s op).2 = fresh k inp s.useAll s.list op := by
  rw [(step_spec h op hop).2.1]
  unfold fresh
  rw [(step_spec (inv_init_of h) op hop).2.1]
  rfl

theorem step_twice {k : Kind} {inp : Input} {s : FState} (h : Inv k inp s) (q : Op) (hop : q.Ok inp)
    (hq : q.IsQuery) : (step k inp (step k inp s q).1 q).2 = (step k inp s q).2 := by
  have h1 := step_spec h q hop
  rw [(step_spec h1.1 q hop).2.1, h1.2.1, h1.2.2 hq]

theorem step_after_reset {k : Kind} {inp : Input} {s : FState} (h : Inv k inp s) (q : Op) (hop : q.Ok inp) :
    (step k inp (step k inp s .reset).1 q).2 = (step k inp s q).2 := by
  have h1 := step_spec h .reset trivial
  rw [(step_spec h1.1 q hop).2.1, (step_spec h q hop).2.1]
  rfl

/-! ### AdjSVD / SVD -/

/-- the list the regularisation would work with (`none`: `minx == all`, V stays plain) -/
def seff (s : SState) : Option (List Nat) := if s.sub then some (s.list.getD []) else none

/-- expected provenance of `V_` for a configuration -/
def svexp (inp : Input) (c : Option (List Nat)) : VProv :=
  if inp.nullity = 0 then .plain else match c with | none => .plain | some l => .reg l

structure SInv (inp : Input) (s : SState) : Prop where
  cfg : inp.nullity = 0 ∨ s.sub = false ∨ inp.resolves (s.list.getD []) = true
  dec : s.decomposed = true → s.defKnown = true ∧ s.vprov = svexp inp (seff s)
          ∧ (0 < inp.nullity → s.minV = true ∧ s.minVok = true)
  solved : s.solved = true → s.decomposed = true ∧ s.haveX = true ∧ s.xprov = svexp inp (seff s)

def SCfgOk (inp : Input) (sub : Bool) (list : Option (List Nat)) : Prop := SInv inp (sinit sub list)

def sspec (inp : Input) (c : Option (List Nat)) : Op → Out
  | .minxAll => .ok
  | .minx _ => .ok
  | .reset => .ok
  | .unknowns => .x (svexp inp c)
  | .residuals => .resid (svexp inp c)
  | .sumsq => .sumsq (svexp inp c)
  | .defect => .defect
  | .lindep i => .lindep i
  | .qbb i j => .qbb i j
  | .qxx i j => .qxx i j none (svexp inp c)
  | .qbx i j => .qbx i j none (svexp inp c)

theorem svdDecomp_spec {inp : Input} {s : SState} (h : SInv inp s) (hns : s.solved = false ∨ s.decomposed = true) :
    SInv inp (svdDecomp inp s).1 ∧ (svdDecomp inp s).2 = false
    ∧ (svdDecomp inp s).1.decomposed = true ∧ seff (svdDecomp inp s).1 = seff s
    ∧ (svdDecomp inp s).1.solved = s.solved ∧ (svdDecomp inp s).1.xprov = s.xprov
    ∧ (svdDecomp inp s).1.haveX = s.haveX := by
  obtain ⟨sv, dc, sb, l, mv, dk, mo, vp, xp, hx⟩ := s
  cases dc with
  | true => simp [svdDecomp, h]
  | false =>
    have hsol : sv = false := by
      rcases hns with h1 | h1
      · exact h1
      · simp at h1
    subst hsol
    by_cases hn : inp.nullity = 0
    · simp only [svdDecomp, hn]
      refine ⟨⟨Or.inl hn, ?_, ?_⟩, by simp, by simp, by simp [seff], by simp, by simp, by simp⟩
      · intro _; exact ⟨rfl, by simp [svexp, hn], fun h0 => by omega⟩
      · intro hh; simp at hh
    · have h0 : 0 < inp.nullity := by omega
      cases sb with
      | false =>
        simp only [svdDecomp, hn]
        refine ⟨⟨Or.inr (Or.inl rfl), ?_, ?_⟩, by simp, by simp, by simp [seff], by simp, by simp, by simp⟩
        · intro _; exact ⟨rfl, by simp [svexp, hn, seff], fun _ => ⟨rfl, rfl⟩⟩
        · intro hh; simp at hh
      | true =>
        have hr : inp.resolves (l.getD []) = true := by
          rcases h.cfg with hc | hc | hc
          · exact absurd hc hn
          · simp at hc
          · exact hc
        simp only [svdDecomp, hn, minSubsetX, hr]
        refine ⟨⟨Or.inr (Or.inr hr), ?_, ?_⟩, by simp, by simp, by simp [seff], by simp, by simp, by simp⟩
        · intro _; exact ⟨rfl, by simp [svexp, hn, seff], fun _ => ⟨rfl, rfl⟩⟩
        · intro hh; simp at hh

theorem svdSolve_spec {inp : Input} {s : SState} (h : SInv inp s) :
    SInv inp (svdSolve inp s).1 ∧ (svdSolve inp s).2 = false
    ∧ (svdSolve inp s).1.solved = true ∧ seff (svdSolve inp s).1 = seff s := by
  obtain ⟨sv, dc, sb, l, mv, dk, mo, vp, xp, hx⟩ := s
  cases sv with
  | true => simp [svdSolve, h]
  | false =>
    have h1 : SInv inp ⟨false, false, sb, l, mv, dk, mo, vp, xp, hx⟩ :=
      ⟨h.cfg, fun hh => absurd hh (by simp), fun hh => absurd hh (by simp)⟩
    have hd := svdDecomp_spec h1 (Or.inl rfl)
    have hdec := hd.1.dec hd.2.2.1
    generalize hD : svdDecomp inp ⟨false, false, sb, l, mv, dk, mo, vp, xp, hx⟩ = D at hd hdec
    obtain ⟨D1, D2⟩ := D
    have hD2 : D2 = false := hd.2.1
    subst hD2
    have hsolve : svdSolve inp ⟨false, dc, sb, l, mv, dk, mo, vp, xp, hx⟩
        = ({ D1 with solved := true, xprov := D1.vprov, haveX := true }, false) := by
      simp [svdSolve, hD]
    rw [hsolve]
    refine ⟨⟨hd.1.cfg, ?_, ?_⟩, rfl, rfl, ?_⟩
    · intro _
      exact ⟨hdec.1, hdec.2.1, hdec.2.2⟩
    · intro _
      exact ⟨hd.2.2.1, rfl, hdec.2.1⟩
    · exact hd.2.2.2.1

theorem sinv_config_all {inp : Input} {s : SState} (h : SInv inp s) :
    SInv inp (sstep inp s .minxAll).1 := by
  obtain ⟨sv, dc, sb, l, mv, dk, mo, vp, xp, hx⟩ := s
  refine ⟨Or.inr (Or.inl (by simp [sstep])), ?_, fun hh => absurd hh (by simp [sstep])⟩
  cases dc with
  | false => intro hd; simp [sstep] at hd
  | true =>
    intro _
    have hdec := h.dec rfl
    by_cases hn : inp.nullity = 0
    · have := hdec.2.1
      simp [svexp, hn] at this
      simp [sstep, hn, svexp, this]
      exact hdec.1
    · have h0 : 0 < inp.nullity := by omega
      have hm := hdec.2.2 h0
      simp at hm
      cases sb with
      | true =>
        simp [sstep, hn, hm.1, hm.2, svexp, seff]
        exact hdec.1
      | false =>
        have := hdec.2.1
        simp [svexp, hn, seff] at this
        simp [sstep, hn, hm.1, hm.2, svexp, seff, this]
        exact hdec.1

theorem sinv_config_sub {inp : Input} {s : SState} (h : SInv inp s) (l' : List Nat)
    (hok : inp.nullity = 0 ∨ inp.resolves l' = true) :
    SInv inp (sstep inp s (.minx l')).1 ∧ (sstep inp s (.minx l')).2 = .ok := by
  obtain ⟨sv, dc, sb, l, mv, dk, mo, vp, xp, hx⟩ := s
  cases dc with
  | true =>
    have hdec := h.dec rfl
    by_cases hn : inp.nullity = 0
    · have := hdec.2.1
      simp [svexp, hn] at this
      simp only [sstep, hn]
      refine ⟨⟨Or.inl hn, ?_, fun hh => absurd hh (by simp)⟩, by simp⟩
      intro _
      exact ⟨by simpa using hdec.1, by simp [svexp, hn, this], fun h0 => by omega⟩
    · have h0 : 0 < inp.nullity := by omega
      have hm := hdec.2.2 h0
      simp at hm
      have hr : inp.resolves l' = true := by
        rcases hok with hc | hc
        · exact absurd hc hn
        · exact hc
      have hne : (inp.nullity != 0) = true := by simp [hn]
      simp only [sstep, hne, Bool.and_self, if_true, minSubsetX, Option.getD_some, hr]
      refine ⟨⟨Or.inr (Or.inr (by simpa using hr)), ?_, fun hh => absurd hh (by simp)⟩, by simp⟩
      intro _
      exact ⟨by simpa using hdec.1, by simp [svexp, hn, seff], fun _ => by simp [hm]⟩
  | false =>
    simp only [sstep, Bool.false_and, Bool.false_eq_true, if_false]
    refine ⟨⟨?_, fun hh => absurd hh (by simp), fun hh => absurd hh (by simp)⟩, trivial⟩
    rcases hok with hc | hc
    · exact Or.inl hc
    · exact Or.inr (Or.inr (by simpa using hc))

/-- one step keeps the invariant and answers according to the history-free specification -/
theorem sstep_spec {inp : Input} {s : SState} (h : SInv inp s) (op : Op) (hop : op.Ok inp) :
    SInv inp (sstep inp s op).1 ∧ (sstep inp s op).2 = sspec inp (seff s) op
    ∧ (op.IsQuery → seff (sstep inp s op).1 = seff s) := by
  have hs := svdSolve_spec h
  have hsol := hs.1.solved hs.2.2.1
  have hdec := hs.1.dec hsol.1
  have he := hs.2.2.2
  -- `svd.q_*` after `solve()`: already decomposed
  have hd2eq : svdDecomp inp (svdSolve inp s).1 = ((svdSolve inp s).1, false) := by
    simp [svdDecomp, hsol.1]
  cases op with
  | unknowns => simp [sstep, sspec, hs.2.1, hsol.2.1, hsol.2.2, he, hs.1]
  | residuals => simp [sstep, sspec, hs.2.1, hsol.2.1, hsol.2.2, he, hs.1]
  | sumsq => simp [sstep, sspec, hs.2.1, hsol.2.1, hsol.2.2, he, hs.1]
  | qxx i j => simp [sstep, sspec, hs.2.1, hd2eq, hdec.2.1, he, hs.1]
  | qbx i j => simp [sstep, sspec, hs.2.1, hd2eq, hdec.2.1, he, hs.1]
  | qbb i j => simp [sstep, sspec, hs.2.1, hd2eq, hdec.1, he, hs.1]
  | defect =>
    have hns : s.solved = false ∨ s.decomposed = true := by
      by_cases hq : s.solved = true
      · exact Or.inr (h.solved hq).1
      · exact Or.inl (by simpa using hq)
    have hd := svdDecomp_spec h hns
    have := hd.1.dec hd.2.2.1
    simp [sstep, sspec, hd.2.1, this.1, hd.1, hd.2.2.2.1]
  | lindep i =>
    have hns : s.solved = false ∨ s.decomposed = true := by
      by_cases hq : s.solved = true
      · exact Or.inr (h.solved hq).1
      · exact Or.inl (by simpa using hq)
    have hd := svdDecomp_spec h hns
    have := hd.1.dec hd.2.2.1
    simp [sstep, sspec, hd.2.1, this.1, hd.1, hd.2.2.2.1]
  | minxAll =>
    exact ⟨sinv_config_all h, rfl, fun hq => absurd hq (by simp [Op.IsQuery])⟩
  | minx l =>
    have := sinv_config_sub h l (by simpa [Op.Ok] using hop)
    exact ⟨this.1, by rw [this.2]; rfl, fun hq => absurd hq (by simp [Op.IsQuery])⟩
  | reset =>
    exact ⟨⟨h.cfg, fun hh => absurd hh (by simp [sstep]), fun hh => absurd hh (by simp [sstep])⟩, rfl,
      fun hq => absurd hq (by simp [Op.IsQuery])⟩

theorem srun_inv {inp : Input} {s : SState} (h : SInv inp s) {ops : List Op}
    (hops : ∀ o ∈ ops, o.Ok inp) : SInv inp (srun inp s ops) := by
  induction ops generalizing s with
  | nil => exact h
  | cons o ops ih =>
    exact ih (sstep_spec h o (hops o (List.mem_cons_self ..))).1
      (fun o' ho' => hops o' (List.mem_cons_of_mem _ ho'))

theorem sinv_init_of {inp : Input} {s : SState} (h : SInv inp s) : SInv inp (sinit s.sub s.list) :=
  ⟨h.cfg, fun hh => absurd hh (by simp [sinit]), fun hh => absurd hh (by simp [sinit])⟩

theorem sstep_eq_fresh {inp : Input} {s : SState} (h : SInv inp s) (op : Op) (hop : op.Ok inp) :
    (sstep inp s op).2 = sfresh inp s.sub s.list op := by
  rw [(sstep_spec h op hop).2.1]
  unfold sfresh
  rw [(sstep_spec (sinv_init_of h) op hop).2.1]
  rfl

theorem sstep_twice {inp : Input} {s : SState} (h : SInv inp s) (q : Op) (hop : q.Ok inp)
    (hq : q.IsQuery) : (sstep inp (sstep inp s q).1 q).2 = (sstep inp s q).2 := by
  have h1 := sstep_spec h q hop
  rw [(sstep_spec h1.1 q hop).2.1, h1.2.1, h1.2.2 hq]

theorem sstep_after_reset {inp : Input} {s : SState} (h : SInv inp s) (q : Op) (hop : q.Ok inp) :
    (sstep inp (sstep inp s .reset).1 q).2 = (sstep inp s q).2 := by
  have h1 := sstep_spec h .reset trivial
  rw [(sstep_spec h1.1 q hop).2.1, (sstep_spec h q hop).2.1]
  rfl

end Gama.C04.Full
