/-
  C05 — the sparsity pattern of a row in EVERY regime (inside the cut of `bearing_distance` too):
  which unknowns are touched, in which order, and which receive a coefficient.
-/
import Gama.Lemmas.LinJacobian
import Gama.Lemmas.LinCut
namespace Gama.Lin

/-- the state of `runEvs` after an observation only depends on its touches -/
theorem runEvs_state {K : Type} (name : Role → Coord → Unk) (evs : List (Ev K)) :
    ∀ s : IdxState, (runEvs name evs s).1 = (touches evs).foldl (fun s rc => s.touch (name rc.1 rc.2)) s := by
  induction evs with
  | nil => intro s; rfl
  | cons e t ih =>
    intro s
    cases e with
    | touch r c => exact ih _
    | push r c v => exact ih s

/-- the (role, coordinate) pairs a member function touches, in program order -/
def Kind.touchList : Kind → List (Role × Coord)
  | .direction => [(.station, .ori), (.pfrom, .x), (.pfrom, .y), (.pto, .x), (.pto, .y)]
  | .distance | .azimuth => [(.pfrom, .x), (.pfrom, .y), (.pto, .x), (.pto, .y)]
  | .angle => [(.pfrom, .x), (.pfrom, .y), (.pto, .x), (.pto, .y), (.pfs, .x), (.pfs, .y)]
  | .s_distance | .z_angle => [(.pfrom, .x), (.pfrom, .y), (.pfrom, .z), (.pto, .x), (.pto, .y), (.pto, .z)]
  | .h_diff | .zdiff => [(.pfrom, .z), (.pto, .z)]
  | .xdiff => [(.pfrom, .x), (.pto, .x)]
  | .ydiff => [(.pfrom, .y), (.pto, .y)]
  | .x => [(.pfrom, .x)]
  | .y => [(.pfrom, .y)]
  | .z => [(.pfrom, .z)]

/-- in EVERY regime (inside the cut too) a member function that returns touches exactly the
    adjusted unknowns of its list, in that order -/
theorem touches_of_ok (k : Kind) (fuel : Nat) (o : Obs ℝ) (out : LinOut ℝ) (hok : k.lin fuel o = .ok out) :
    touches out.evs = k.touchList.filter (freeAt o) := by
  cases k
  case direction =>
    rw [(direction_form fuel o out hok).2]
    cases hf : o.pfrom.free_xy <;> cases ht : o.pto.free_xy <;>
      simp [xyBlock, Kind.touchList, List.filter, freeAt, Obs.pt, hf, ht]
  case distance =>
    have hok' : Gen.Lin.distance fuel o = .ok out := hok
    rw [distance_form] at hok'; injection hok' with hok'; subst hok'
    cases hf : o.pfrom.free_xy <;> cases ht : o.pto.free_xy <;>
      simp [xyBlock, Kind.touchList, List.filter, freeAt, Obs.pt, hf, ht]
  case azimuth =>
    rw [(azimuth_form fuel o out hok).2]
    cases hf : o.pfrom.free_xy <;> cases ht : o.pto.free_xy <;>
      simp [xyBlock, Kind.touchList, List.filter, freeAt, Obs.pt, hf, ht]
  case angle =>
    rw [(angle_form fuel o out hok).2]
    cases hf : o.pfrom.free_xy <;> cases ht : o.pto.free_xy <;> cases hs : o.pfs.free_xy <;>
      simp [xyBlock, Kind.touchList, List.filter, freeAt, Obs.pt, hf, ht, hs]
  case s_distance =>
    have hok' : Gen.Lin.s_distance fuel o = .ok out := hok
    rw [s_distance_eq] at hok'
    split at hok'
    · exact absurd hok' (by simp)
    · injection hok' with hok'; subst hok'
      unfold sdistEvs
      cases hf : o.pfrom.free_xy <;> cases ht : o.pto.free_xy <;> cases hfz : o.pfrom.free_z <;> cases htz : o.pto.free_z <;>
        simp [Kind.touchList, List.filter, freeAt, Obs.pt, hf, ht, hfz, htz]
  case z_angle =>
    have hok' : Gen.Lin.z_angle fuel o = .ok out := hok
    rw [z_angle_eq] at hok'
    split at hok'
    · exact absurd hok' (by simp)
    · injection hok' with hok'; subst hok'
      unfold zangleEvs
      cases hf : o.pfrom.free_xy <;> cases ht : o.pto.free_xy <;> cases hfz : o.pfrom.free_z <;> cases htz : o.pto.free_z <;>
        simp [Kind.touchList, List.filter, freeAt, Obs.pt, hf, ht, hfz, htz]
  case h_diff =>
    have hok' : Gen.Lin.h_diff fuel o = .ok out := hok
    rw [h_diff_eq fuel o] at hok'; injection hok' with hok'; subst hok'
    cases hf : o.pfrom.free_z <;> cases ht : o.pto.free_z <;> simp [Kind.touchList, List.filter, freeAt, Obs.pt, hf, ht]
  case zdiff =>
    have hok' : Gen.Lin.zdiff fuel o = .ok out := hok
    rw [zdiff_eq fuel o] at hok'; injection hok' with hok'; subst hok'
    cases hf : o.pfrom.free_z <;> cases ht : o.pto.free_z <;> simp [Kind.touchList, List.filter, freeAt, Obs.pt, hf, ht]
  case xdiff =>
    have hok' : Gen.Lin.xdiff fuel o = .ok out := hok
    rw [xdiff_eq fuel o] at hok'; injection hok' with hok'; subst hok'
    cases hf : o.pfrom.free_xy <;> cases ht : o.pto.free_xy <;> simp [Kind.touchList, List.filter, freeAt, Obs.pt, hf, ht]
  case ydiff =>
    have hok' : Gen.Lin.ydiff fuel o = .ok out := hok
    rw [ydiff_eq fuel o] at hok'; injection hok' with hok'; subst hok'
    cases hf : o.pfrom.free_xy <;> cases ht : o.pto.free_xy <;> simp [Kind.touchList, List.filter, freeAt, Obs.pt, hf, ht]
  case x =>
    have hok' : Gen.Lin.x fuel o = .ok out := hok
    rw [x_eq fuel o] at hok'; injection hok' with hok'; subst hok'
    cases hf : o.pfrom.free_xy <;> simp [Kind.touchList, List.filter, freeAt, Obs.pt, hf]
  case y =>
    have hok' : Gen.Lin.y fuel o = .ok out := hok
    rw [y_eq fuel o] at hok'; injection hok' with hok'; subst hok'
    cases hf : o.pfrom.free_xy <;> simp [Kind.touchList, List.filter, freeAt, Obs.pt, hf]
  case z =>
    have hok' : Gen.Lin.z fuel o = .ok out := hok
    rw [z_eq fuel o] at hok'; injection hok' with hok'; subst hok'
    cases hf : o.pfrom.free_z <;> simp [Kind.touchList, List.filter, freeAt, Obs.pt, hf]


/-- in EVERY regime (inside the cut too) a member function that returns pushes a coefficient for
    exactly the adjusted unknowns among the roles of its class, in that order -/
theorem pushes_of_ok (k : Kind) (fuel : Nat) (o : Obs ℝ) (out : LinOut ℝ) (hok : k.lin fuel o = .ok out) :
    targets out.pushes = k.roles.filter (freeAt o) := by
  cases k
  case direction =>
    unfold LinOut.pushes; rw [(direction_form fuel o out hok).2]
    cases hf : o.pfrom.free_xy <;> cases ht : o.pto.free_xy <;>
      simp [xyBlock, Kind.roles, targets, LinOut.pushes, List.filter, freeAt, Obs.pt, hf, ht]
  case distance =>
    have hok' : Gen.Lin.distance fuel o = .ok out := hok
    rw [distance_form] at hok'; injection hok' with hok'; subst hok'
    cases hf : o.pfrom.free_xy <;> cases ht : o.pto.free_xy <;>
      simp [xyBlock, Kind.roles, targets, LinOut.pushes, List.filter, freeAt, Obs.pt, hf, ht]
  case azimuth =>
    unfold LinOut.pushes; rw [(azimuth_form fuel o out hok).2]
    cases hf : o.pfrom.free_xy <;> cases ht : o.pto.free_xy <;>
      simp [xyBlock, Kind.roles, targets, LinOut.pushes, List.filter, freeAt, Obs.pt, hf, ht]
  case angle =>
    unfold LinOut.pushes; rw [(angle_form fuel o out hok).2]
    cases hf : o.pfrom.free_xy <;> cases ht : o.pto.free_xy <;> cases hs : o.pfs.free_xy <;>
      simp [xyBlock, Kind.roles, targets, LinOut.pushes, List.filter, freeAt, Obs.pt, hf, ht, hs]
  case s_distance =>
    have hok' : Gen.Lin.s_distance fuel o = .ok out := hok
    rw [s_distance_eq] at hok'
    split at hok'
    · exact absurd hok' (by simp)
    · injection hok' with hok'; subst hok'
      unfold LinOut.pushes sdistEvs
      cases hf : o.pfrom.free_xy <;> cases ht : o.pto.free_xy <;> cases hfz : o.pfrom.free_z <;> cases htz : o.pto.free_z <;>
        simp [Kind.roles, targets, LinOut.pushes, List.filter, freeAt, Obs.pt, hf, ht, hfz, htz]
  case z_angle =>
    have hok' : Gen.Lin.z_angle fuel o = .ok out := hok
    rw [z_angle_eq] at hok'
    split at hok'
    · exact absurd hok' (by simp)
    · injection hok' with hok'; subst hok'
      unfold LinOut.pushes zangleEvs
      cases hf : o.pfrom.free_xy <;> cases ht : o.pto.free_xy <;> cases hfz : o.pfrom.free_z <;> cases htz : o.pto.free_z <;>
        simp [Kind.roles, targets, LinOut.pushes, List.filter, freeAt, Obs.pt, hf, ht, hfz, htz]
  case h_diff =>
    have hok' : Gen.Lin.h_diff fuel o = .ok out := hok
    rw [h_diff_eq fuel o] at hok'; injection hok' with hok'; subst hok'
    cases hf : o.pfrom.free_z <;> cases ht : o.pto.free_z <;> simp [Kind.roles, targets, LinOut.pushes, List.filter, freeAt, Obs.pt, hf, ht]
  case zdiff =>
    have hok' : Gen.Lin.zdiff fuel o = .ok out := hok
    rw [zdiff_eq fuel o] at hok'; injection hok' with hok'; subst hok'
    cases hf : o.pfrom.free_z <;> cases ht : o.pto.free_z <;> simp [Kind.roles, targets, LinOut.pushes, List.filter, freeAt, Obs.pt, hf, ht]
  case xdiff =>
    have hok' : Gen.Lin.xdiff fuel o = .ok out := hok
    rw [xdiff_eq fuel o] at hok'; injection hok' with hok'; subst hok'
    cases hf : o.pfrom.free_xy <;> cases ht : o.pto.free_xy <;> simp [Kind.roles, targets, LinOut.pushes, List.filter, freeAt, Obs.pt, hf, ht]
  case ydiff =>
    have hok' : Gen.Lin.ydiff fuel o = .ok out := hok
    rw [ydiff_eq fuel o] at hok'; injection hok' with hok'; subst hok'
    cases hf : o.pfrom.free_xy <;> cases ht : o.pto.free_xy <;> simp [Kind.roles, targets, LinOut.pushes, List.filter, freeAt, Obs.pt, hf, ht]
  case x =>
    have hok' : Gen.Lin.x fuel o = .ok out := hok
    rw [x_eq fuel o] at hok'; injection hok' with hok'; subst hok'
    cases hf : o.pfrom.free_xy <;> simp [Kind.roles, targets, LinOut.pushes, List.filter, freeAt, Obs.pt, hf]
  case y =>
    have hok' : Gen.Lin.y fuel o = .ok out := hok
    rw [y_eq fuel o] at hok'; injection hok' with hok'; subst hok'
    cases hf : o.pfrom.free_xy <;> simp [Kind.roles, targets, LinOut.pushes, List.filter, freeAt, Obs.pt, hf]
  case z =>
    have hok' : Gen.Lin.z fuel o = .ok out := hok
    rw [z_eq fuel o] at hok'; injection hok' with hok'; subst hok'
    cases hf : o.pfrom.free_z <;> simp [Kind.roles, targets, LinOut.pushes, List.filter, freeAt, Obs.pt, hf]


end Gama.Lin
