/-
  Acceptance side of the adjustment-results reader model: what the run (Model/AdjResRun.lean over the GENERATED
  tables) does on a well-formed `<cov-mat>` element, as EQUATIONS between states, for every dimension, band width and
  word list.  Facts about the generated tables are used only at the concrete states / tags / handlers involved
  (`rfl` / `decide`): they are re-checked whenever the C++ (hence the tables) changes.
-/
import Gama.Lemmas.AdjResCov
import Gama.Model.AdjResDoc
namespace Gama.AdjRes
open Gama.Lit

/-! ### single events -/

theorem step_text (st : St) (s : List Char) :
    step st (.text s) = { st with data := st.data ++ s, n := st.n + 1 } := rfl

/-- a start tag without attributes whose handler is `stack.push(self); set_state(s')` -/
theorem step_start_simple (st : St) (name nm : String) (t : Tag) (h : Handler) (s' : State)
    (hd : st.data.all isSpace = true) (hs : st.state ≠ .error_)
    (ht : tagTable.find? (fun p => p.1 == name) = some (nm, t, none))
    (hf : tagfun st.state t = h) (ho : startOps h = [.push h, .setState s']) :
    step st (.start name []) = { st with data := [], stack := h :: st.stack, state := s', n := st.n + 1 } := by
  simp [step, react, St.checkData, hd, tagOf, ht, hf, ho, execOps, execOp, St.setState, setState_is_guarded, hs]

theorem step_stop_cons (st : St) (h : Handler) (rest : List Handler) (hs : st.stack = h :: rest) :
    step st .stop = { execOps (endOps h) [] { st with stack := rest } with data := [], n := st.n + 1 } := by
  simp [step, react, hs]


/-! ### table facts at the states / tags / handlers of `<cov-mat>` (re-checked on every regeneration) -/

theorem tag_dim : tagTable.find? (fun p => p.1 == "dim") = some ("dim", .dim_, none) := by decide
theorem tag_band : tagTable.find? (fun p => p.1 == "band") = some ("band", .band_, none) := by decide
theorem tag_flt : tagTable.find? (fun p => p.1 == "flt") = some ("flt", .flt_, none) := by decide

theorem end_dim : endOps .dim_ = [.getInt .dim, .setState .dim_end] := rfl
theorem end_band : endOps .band_ =
    [.getInt .band, .data, .covGuard .e_bad_dimension_or_bandwidth_of_covariance, .covReset, .iterBegin, .iterEnd,
     .setState .flt_end] := rfl
theorem end_flt : endOps .flt_ = [.store true, .setState .flt_end] := rfl
theorem end_cov_mat : endOps .cov_mat =
    [.iterErr (some .flt_end) false .e_bad_number_of_elements_in_covariance_mat, .setState .cov_mat_end] := rfl

/-! ### `<dim>sd</dim>` -/

theorem run_dim (st : St) (sd : List Char) (hst : st.state = .cov_mat) (hd : st.data.all isSpace = true)
    (hi : isInteger sd = true) :
    run st (leafC "dim" sd) = { st with state := .dim_end, data := [], dim := extractInt sd, n := st.n + 3 } := by
  simp only [leafC, run_cons, run_nil]
  rw [step_start_simple st "dim" "dim" .dim_ .dim_ .dim_ hd (by rw [hst]; decide) tag_dim (by rw [hst]; rfl) rfl,
    step_text, step_stop_cons _ .dim_ st.stack rfl, end_dim]
  simp [execOps, execOp, St.getIntCheck, hi, St.setState, setState_is_guarded]


/-! ### `<band>sb</band>`: the guard of `band(false)` passes, `adj->cov.reset(dim, band)`, `tmp_i = begin()`, `tmp_e = end()` -/

theorem run_band (st : St) (sb : List Char) (hst : st.state = .dim_end) (hd : st.data.all isSpace = true)
    (hi : isInteger sb = true) (h1 : 0 ≤ st.dim) (h2 : 0 ≤ extractInt sb) (h3 : extractInt sb ≤ max (st.dim - 1) 0)
    (h4 : (extractInt sb + 1) * st.dim ≤ intMax) (h5 : st.dim ≤ st.unknowns) :
    run st (leafC "band" sb) =
      { st with state := .flt_end, data := [], band := extractInt sb, n := st.n + 3,
                covSize := covElems st.dim (extractInt sb), iterI := some 0,
                iterE := some (covElems st.dim (extractInt sb)),
                allocs := (covElems st.dim (extractInt sb), st.unknowns, extractInt sb) :: st.allocs } := by
  simp only [leafC, run_cons, run_nil]
  rw [step_start_simple st "band" "band" .band_ .band_ .band_ hd (by rw [hst]; decide) tag_band (by rw [hst]; rfl) rfl,
    step_text, step_stop_cons _ .band_ st.stack rfl, end_band]
  have g1 : ¬ st.dim < 0 := by omega
  have g2 : ¬ extractInt sb < 0 := by omega
  have g3 : ¬ extractInt sb > max (st.dim - 1) 0 := by omega
  have g4 : ¬ (extractInt sb + 1) * st.dim > intMax := by omega
  have g5 : ¬ st.dim > st.unknowns := by omega
  simp [execOps, execOp, St.getIntCheck, hi, St.setState, setState_is_guarded, g1, g2, g3, g4, g5]

/-! ### `<flt>w</flt>` -/

/-- a word of the float language, room left: stored at `tmp_i`, `tmp_i` advances -/
theorem run_flt_ok (st : St) (w : List Char) (i e : Nat) (hst : st.state = .flt_end) (hd : st.data.all isSpace = true)
    (hi : st.iterI = some i) (he : st.iterE = some e) (hne : i ≠ e) (hw : isFloat w = true) :
    run st (leafC "flt" w) =
      { st with state := .flt_end, data := [], n := st.n + 3, writes := (i, st.covSize) :: st.writes,
                iterI := some (i + 1) } := by
  simp only [leafC, run_cons, run_nil]
  rw [step_start_simple st "flt" "flt" .flt_ .flt_ .flt_ hd (by rw [hst]; decide) tag_flt (by rw [hst]; rfl) rfl,
    step_text, step_stop_cons _ .flt_ st.stack rfl, end_flt]
  simp [execOps, execOp, St.store, hi, he, hne, St.getFloatCheck, hw, St.setState, setState_is_guarded]

/-- a word outside the float language, room left: `error("float syntax error")` at the `</flt>` event (the third of the
    element); first error -/
theorem run_flt_bad (st : St) (w : List Char) (i e : Nat) (hst : st.state = .flt_end) (hd : st.data.all isSpace = true)
    (hi : st.iterI = some i) (he : st.iterE = some e) (hne : i ≠ e) (hw : isFloat w = false) (herr : st.err = none) :
    (run st (leafC "flt" w)).err = some (st.n + 2, .e_float_syntax_error) := by
  simp only [leafC, run_cons, run_nil]
  rw [step_start_simple st "flt" "flt" .flt_ .flt_ .flt_ hd (by rw [hst]; decide) tag_flt (by rw [hst]; rfl) rfl,
    step_text, step_stop_cons _ .flt_ st.stack rfl, end_flt]
  simp [execOps, execOp, St.store, hi, he, hne, St.getFloatCheck, hw, St.setState, setState_is_guarded, St.error, herr]

/-! ### `</cov-mat>` -/

theorem step_covmat_stop_ok (st : St) (rest : List Handler) (i : Nat) (hst : st.state = .flt_end)
    (hs : st.stack = .cov_mat :: rest) (hi : st.iterI = some i) (he : st.iterE = some i) :
    step st .stop = { st with state := .cov_mat_end, stack := rest, data := [], n := st.n + 1 } := by
  rw [step_stop_cons st .cov_mat rest hs, end_cov_mat]
  simp [execOps, execOp, St.iterErr, iterGuardFires, hst, St.iterCmp, hi, he, St.setState, setState_is_guarded]

theorem step_covmat_stop_short (st : St) (rest : List Handler) (i e : Nat) (hst : st.state = .flt_end)
    (hs : st.stack = .cov_mat :: rest) (hi : st.iterI = some i) (he : st.iterE = some e) (hne : i ≠ e)
    (herr : st.err = none) :
    (step st .stop).err = some (st.n, .e_bad_number_of_elements_in_covariance_mat) := by
  rw [step_stop_cons st .cov_mat rest hs, end_cov_mat]
  simp [execOps, execOp, St.iterErr, iterGuardFires, hst, St.iterCmp, hi, he, hne, St.setState, setState_is_guarded,
    St.error, herr]


/-- no room left (`tmp_i == tmp_e`): the element is skipped, its text is NOT looked at -/
theorem run_flt_full (st : St) (w : List Char) (i : Nat) (hst : st.state = .flt_end) (hd : st.data.all isSpace = true)
    (hi : st.iterI = some i) (he : st.iterE = some i) :
    run st (leafC "flt" w) = { st with state := .flt_end, data := [], n := st.n + 3 } := by
  simp only [leafC, run_cons, run_nil]
  rw [step_start_simple st "flt" "flt" .flt_ .flt_ .flt_ hd (by rw [hst]; decide) tag_flt (by rw [hst]; rfl) rfl,
    step_text, step_stop_cons _ .flt_ st.stack rfl, end_flt]
  simp [execOps, execOp, St.store, hi, he, St.setState, setState_is_guarded]

/-! ### the log of consecutive stores -/

theorem fillLog_length (N : Nat) : ∀ (k i : Nat), (fillLog i k N).length = k := by
  intro k; induction k with
  | zero => intro i; rfl
  | succ k ih => intro i; simp [fillLog, ih]

theorem fillLog_eq (N : Nat) : ∀ (k i : Nat), fillLog i k N = ((List.range k).map (fun j => (i + j, N))).reverse := by
  intro k; induction k with
  | zero => intro i; rfl
  | succ k ih =>
    intro i
    rw [fillLog, ih, List.range_succ_eq_map, List.map_cons, List.reverse_cons, List.map_map]
    congr 2
    apply List.map_congr_left
    intro j _
    simp only [Function.comp, Nat.succ_eq_add_one]
    congr 1; omega

theorem fillLog_mem (N : Nat) (k i : Nat) (w : Nat × Nat) (h : w ∈ fillLog i k N) : i ≤ w.1 ∧ w.1 < i + k ∧ w.2 = N := by
  rw [fillLog_eq] at h
  simp only [List.mem_reverse, List.mem_map, List.mem_range] at h
  obtain ⟨j, hj, rfl⟩ := h
  exact ⟨by simp, by simp; omega, rfl⟩

theorem fltEvents_length : ∀ ws : List (List Char), (fltEvents ws).length = 3 * ws.length := by
  intro ws; induction ws with
  | nil => rfl
  | cons w r ih => simp [fltEvents, leafC, ih]; omega

theorem fltEvents_append (a b : List (List Char)) : fltEvents (a ++ b) = fltEvents a ++ fltEvents b := by
  induction a with
  | nil => rfl
  | cons w r ih => simp [fltEvents, ih]

/-! ### `(<flt>w</flt>)*` with room for every word -/

theorem run_flts_ok : ∀ (ws : List (List Char)) (st : St) (i e : Nat), st.state = .flt_end → st.data = [] →
    st.iterI = some i → st.iterE = some e → i + ws.length ≤ e → (∀ w ∈ ws, isFloat w = true) →
    run st (fltEvents ws) =
      { st with n := st.n + 3 * ws.length, writes := fillLog i ws.length st.covSize ++ st.writes,
                iterI := some (i + ws.length) } := by
  intro ws
  induction ws with
  | nil =>
    intro st i e _ _ hi _ _ _
    cases st; simp_all [fltEvents, run_nil, fillLog]
  | cons w r ih =>
    intro st i e hst hd hi he hle hws
    have hw : isFloat w = true := hws w (by simp)
    have hr : ∀ x ∈ r, isFloat x = true := fun x hx => hws x (by simp [hx])
    simp only [List.length_cons] at hle
    rw [fltEvents, run_append, run_flt_ok st w i e hst (by simp [hd]) hi he (by omega) hw]
    rw [ih { st with state := .flt_end, data := [], n := st.n + 3, writes := (i, st.covSize) :: st.writes,
                     iterI := some (i + 1) } (i + 1) e rfl rfl rfl he (by omega) hr]
    cases st
    simp_all [fillLog]
    omega


/-! ### `<dim>d</dim> <band>b</band>` with `b < d ≤ unknowns`, `(b+1)·d ≤ INT_MAX` -/

/-- the state right after `</band>` -/
def afterHead (st : St) (d b : Nat) : St :=
  { st with state := .flt_end, data := [], dim := d, band := b, n := st.n + 6, covSize := covElems d b,
            iterI := some 0, iterE := some (covElems d b), allocs := (covElems d b, st.unknowns, (b : Int)) :: st.allocs }

theorem run_covHead (st : St) (sd sb : List Char) (d b : Nat) (hst : st.state = .cov_mat)
    (hd : st.data.all isSpace = true) (hisd : isInteger sd = true) (hvd : extractInt sd = d)
    (hisb : isInteger sb = true) (hvb : extractInt sb = b) (h2 : d ≤ st.unknowns) (h3 : b < d)
    (h4 : (b + 1) * d ≤ 2147483647) :
    run st (covHead sd sb) = afterHead st d b := by
  have h4' : ((b : Int) + 1) * (d : Int) ≤ intMax := by
    have := Int.ofNat_le.mpr h4
    rw [Int.natCast_mul, Int.natCast_add] at this
    exact this
  rw [covHead, run_append, run_dim st sd hst hd hisd,
    run_band { st with state := .dim_end, data := [], dim := extractInt sd, n := st.n + 3 } sb rfl rfl hisb
      (by show (0 : Int) ≤ extractInt sd; omega) (by omega)
      (by show extractInt sb ≤ max (extractInt sd - 1) 0; omega)
      (by show (extractInt sb + 1) * extractInt sd ≤ intMax; rw [hvd, hvb]; exact h4')
      (by show extractInt sd ≤ (st.unknowns : Int); omega)]
  simp [afterHead, hvd, hvb]

/-- the state after `k` more stored words -/
def afterFlts (st : St) (d b k : Nat) : St :=
  { afterHead st d b with n := st.n + 6 + 3 * k, writes := fillLog 0 k (covElems d b) ++ st.writes, iterI := some k }

theorem run_afterHead_flts (st : St) (d b : Nat) (ws : List (List Char)) (hlen : ws.length ≤ covElems d b)
    (hws : ∀ w ∈ ws, isFloat w = true) : run (afterHead st d b) (fltEvents ws) = afterFlts st d b ws.length := by
  rw [run_flts_ok ws (afterHead st d b) 0 (covElems d b) rfl rfl rfl rfl (by omega) hws]
  simp [afterHead, afterFlts]

/-- the complete, self-consistent element: exactly `covElems d b` words of the float language -/
theorem run_covBody_ok (st : St) (rest : List Handler) (sd sb : List Char) (ws : List (List Char)) (d b : Nat)
    (hst : st.state = .cov_mat) (hs : st.stack = .cov_mat :: rest) (hd : st.data.all isSpace = true)
    (hisd : isInteger sd = true) (hvd : extractInt sd = d) (hisb : isInteger sb = true) (hvb : extractInt sb = b)
    (h2 : d ≤ st.unknowns) (h3 : b < d) (h4 : (b + 1) * d ≤ 2147483647)
    (hlen : ws.length = covElems d b) (hws : ∀ w ∈ ws, isFloat w = true) :
    run st (covBody sd sb ws) =
      { st with state := .cov_mat_end, stack := rest, data := [], dim := d, band := b, n := st.n + 7 + 3 * covElems d b,
                covSize := covElems d b, iterI := some (covElems d b), iterE := some (covElems d b),
                writes := fillLog 0 (covElems d b) (covElems d b) ++ st.writes,
                allocs := (covElems d b, st.unknowns, (b : Int)) :: st.allocs } := by
  rw [covBody, run_append, run_append, run_covHead st sd sb d b hst hd hisd hvd hisb hvb h2 h3 h4,
    run_afterHead_flts st d b ws (by omega) hws, run_cons, run_nil,
    step_covmat_stop_ok (afterFlts st d b ws.length) rest (covElems d b) rfl hs (by simp [afterFlts, hlen]) rfl]
  simp [afterHead, afterFlts, hlen]
  omega

/-- word number `k` (counted from 0, `k < covElems d b`) is outside the float language, the words before it are inside:
    the error is recorded at the `</flt>` event of that word, whatever follows -/
theorem run_covBody_bad (st : St) (sd sb : List Char) (ws1 : List (List Char)) (w : List Char) (more : List Event)
    (d b : Nat) (hst : st.state = .cov_mat) (herr : st.err = none) (hd : st.data.all isSpace = true)
    (hisd : isInteger sd = true) (hvd : extractInt sd = d) (hisb : isInteger sb = true) (hvb : extractInt sb = b)
    (h2 : d ≤ st.unknowns) (h3 : b < d) (h4 : (b + 1) * d ≤ 2147483647)
    (hlen : ws1.length < covElems d b) (hws : ∀ x ∈ ws1, isFloat x = true) (hw : isFloat w = false) :
    (run st (covHead sd sb ++ fltEvents ws1 ++ leafC "flt" w ++ more)).err =
      some (st.n + 6 + 3 * ws1.length + 2, .e_float_syntax_error) := by
  rw [run_append, run_append, run_append, run_covHead st sd sb d b hst hd hisd hvd hisb hvb h2 h3 h4,
    run_afterHead_flts st d b ws1 (by omega) hws]
  apply run_err_preserved
  rw [run_flt_bad (afterFlts st d b ws1.length) w ws1.length (covElems d b) rfl rfl rfl rfl (by omega) hw herr]
  rfl

/-- fewer words than `covElems d b`, all in the float language: the error is recorded at the `</cov-mat>` event -/
theorem run_covBody_short (st : St) (rest : List Handler) (sd sb : List Char) (ws : List (List Char)) (d b : Nat)
    (hst : st.state = .cov_mat) (hs : st.stack = .cov_mat :: rest) (herr : st.err = none)
    (hd : st.data.all isSpace = true)
    (hisd : isInteger sd = true) (hvd : extractInt sd = d) (hisb : isInteger sb = true) (hvb : extractInt sb = b)
    (h2 : d ≤ st.unknowns) (h3 : b < d) (h4 : (b + 1) * d ≤ 2147483647)
    (hlen : ws.length < covElems d b) (hws : ∀ w ∈ ws, isFloat w = true) :
    (run st (covBody sd sb ws)).err =
      some (st.n + 6 + 3 * ws.length, .e_bad_number_of_elements_in_covariance_mat) := by
  rw [covBody, run_append, run_append, run_covHead st sd sb d b hst hd hisd hvd hisb hvb h2 h3 h4,
    run_afterHead_flts st d b ws (by omega) hws, run_cons, run_nil,
    step_covmat_stop_short (afterFlts st d b ws.length) rest ws.length (covElems d b) rfl hs rfl rfl (by omega) herr]
  rfl


/-! ## whole documents of the sub-grammar `Doc` (Model/AdjResDoc.lean) -/

/-- a start tag without attributes: `check_and_clear_data`, `tag()`, the handler -/
theorem step_start_gen (st : St) (name nm : String) (t : Tag) (hd : st.data.all isSpace = true)
    (ht : tagTable.find? (fun p => p.1 == name) = some (nm, t, none)) :
    step st (.start name []) = { execOps (startOps (tagfun st.state t)) [] { st with data := [] } with n := st.n + 1 } := by
  simp [step, react, St.checkData, hd, tagOf, ht]

/-- an end tag whose handler is `set_state(s')` -/
theorem step_stop_simple (st : St) (h : Handler) (rest : List Handler) (s' : State) (hs : st.stack = h :: rest)
    (ho : endOps h = [.setState s']) (hne : st.state ≠ .error_) :
    step st .stop = { st with stack := rest, state := s', data := [], n := st.n + 1 } := by
  rw [step_stop_cons st h rest hs, ho]
  simp [execOps, execOp, St.setState, setState_is_guarded, hne]

/-- `<name>txt</name>` for a handler that starts with `stack.push(self); set_state(s')` -/
theorem run_leaf_gen (st : St) (name nm : String) (t : Tag) (h : Handler) (s' : State) (txt : List Char)
    (hd : st.data.all isSpace = true) (hs : st.state ≠ .error_)
    (ht : tagTable.find? (fun p => p.1 == name) = some (nm, t, none))
    (hf : tagfun st.state t = h) (ho : startOps h = [.push h, .setState s']) :
    run st (leafC name txt) =
      { execOps (endOps h) [] { st with data := txt, state := s', n := st.n + 2 } with data := [], n := st.n + 3 } := by
  simp only [leafC, run_cons, run_nil]
  rw [step_start_simple st name nm t h s' hd hs ht hf ho, step_text, step_stop_cons _ h st.stack rfl]
  simp

theorem tag_point : tagTable.find? (fun p => p.1 == "point") = some ("point", .point_, none) := by decide
theorem tag_id : tagTable.find? (fun p => p.1 == "id") = some ("id", .id_, none) := by decide
theorem tag_x : tagTable.find? (fun p => p.1 == "x") = some ("x", .x_, none) := by decide
theorem tag_y : tagTable.find? (fun p => p.1 == "y") = some ("y", .y_, none) := by decide
theorem tag_z : tagTable.find? (fun p => p.1 == "z") = some ("z", .z_, none) := by decide
theorem tag_orientation : tagTable.find? (fun p => p.1 == "orientation") = some ("orientation", .orientation, none) := by
  decide
theorem tag_approx : tagTable.find? (fun p => p.1 == "approx") = some ("approx", .approx, none) := by decide
theorem tag_adj : tagTable.find? (fun p => p.1 == "adj") = some ("adj", .adj_, none) := by decide
theorem tag_ind : tagTable.find? (fun p => p.1 == "ind") = some ("ind", .ind_, none) := by decide
theorem tag_orientation_shifts :
    tagTable.find? (fun p => p.1 == "orientation-shifts") = some ("orientation-shifts", .orientation_shifts, none) := by decide
theorem tag_cov_mat : tagTable.find? (fun p => p.1 == "cov-mat") = some ("cov-mat", .cov_mat, none) := by decide
theorem tag_original_index :
    tagTable.find? (fun p => p.1 == "original-index") = some ("original-index", .original_index, none) := by decide
theorem tag_observations :
    tagTable.find? (fun p => p.1 == "observations") = some ("observations", .observations, none) := by decide

theorem filters_cleared (L : List Flag) :
    (((((L.filter (· != Flag.hasX)).filter (· != Flag.hasY)).filter (· != Flag.hasZ)).filter (· != Flag.conX)).filter
      (· != Flag.conY)).filter (· != Flag.conZ) = [] := by
  simp only [List.filter_filter]
  rw [List.filter_eq_nil_iff]
  intro a _
  cases a <;> decide

/-- `tmp_point.clear()`-side of `point(true)`: all six flags false -/
theorem setFlags_cleared (st : St) :
    (((((st.setFlag .hasX false).setFlag .hasY false).setFlag .hasZ false).setFlag .conX false).setFlag .conY false).setFlag
      .conZ false = { st with flags := [] } := by
  simp only [St.setFlag, Bool.false_eq_true, if_false]
  rw [filters_cleared]

/-! ### one adjusted point -/

theorem step_point_start (st : St) (hs : st.state = .adjusted ∨ st.state = .point_end) (hd : st.data = []) :
    step st (.start "point" []) =
      { st with data := [], flags := [], stack := .point_ :: st.stack, state := .point_, n := st.n + 1 } := by
  have hf : tagfun st.state .point_ = .point_ := by rcases hs with h | h <;> rw [h] <;> rfl
  have hne : st.state ≠ .error_ := by rcases hs with h | h <;> rw [h] <;> decide
  have ho : startOps .point_ = [.data, .setFlag .hasX false, .setFlag .hasY false, .setFlag .hasZ false,
      .setFlag .conX false, .setFlag .conY false, .setFlag .conZ false, .push .point_, .setState .point_] := rfl
  rw [step_start_gen st "point" "point" .point_ (by simp [hd]) tag_point, hf, ho]
  simp only [execOps, execOp, setFlags_cleared]
  simp [St.setState, setState_is_guarded, hne]

theorem run_id (st : St) (txt : List Char) (hs : st.state = .point_ ∨ st.state = .orientation) (hd : st.data = []) :
    run st (leafC "id" txt) = { st with state := .id_end, data := [], n := st.n + 3 } := by
  have hf : tagfun st.state .id_ = .id_ := by rcases hs with h | h <;> rw [h] <;> rfl
  have hne : st.state ≠ .error_ := by rcases hs with h | h <;> rw [h] <;> decide
  have he : endOps .id_ = [.getString .none, .setState .id_end] := rfl
  rw [run_leaf_gen st "id" "id" .id_ .id_ .id_ txt (by simp [hd]) hne tag_id hf rfl, he]
  simp [execOps, execOp, St.setState, setState_is_guarded]

theorem run_x (st : St) (txt : List Char) (hs : st.state = .id_end) (hd : st.data = []) (hx : isFloat txt = true) :
    run st (leafC "x" txt) =
      { st with state := .x_end, data := [], n := st.n + 3, flags := .hasX :: st.flags.filter (· != .hasX) } := by
  have he : endOps .x_ = [.getFloat, .setFlag .hasX true, .setState .x_end] := rfl
  rw [run_leaf_gen st "x" "x" .x_ .x_ .x_ txt (by simp [hd]) (by rw [hs]; decide) tag_x (by rw [hs]; rfl) rfl, he]
  simp [execOps, execOp, St.getFloatCheck, hx, St.setFlag, St.setState, setState_is_guarded]

theorem run_y (st : St) (txt : List Char) (hs : st.state = .x_end) (hd : st.data = []) (hx : isFloat txt = true) :
    run st (leafC "y" txt) =
      { st with state := .y_end, data := [], n := st.n + 3, flags := .hasY :: st.flags.filter (· != .hasY) } := by
  have he : endOps .y_ = [.getFloat, .setFlag .hasY true, .setState .y_end] := rfl
  rw [run_leaf_gen st "y" "y" .y_ .y_ .y_ txt (by simp [hd]) (by rw [hs]; decide) tag_y (by rw [hs]; rfl) rfl, he]
  simp [execOps, execOp, St.getFloatCheck, hx, St.setFlag, St.setState, setState_is_guarded]

theorem run_z (st : St) (txt : List Char) (hs : st.state = .id_end ∨ st.state = .y_end) (hd : st.data = [])
    (hx : isFloat txt = true) :
    run st (leafC "z" txt) =
      { st with state := .z_end, data := [], n := st.n + 3, flags := .hasZ :: st.flags.filter (· != .hasZ) } := by
  have hf : tagfun st.state .z_ = .z_ := by rcases hs with h | h <;> rw [h] <;> rfl
  have hne : st.state ≠ .error_ := by rcases hs with h | h <;> rw [h] <;> decide
  have he : endOps .z_ = [.getFloat, .setFlag .hasZ true, .setState .z_end] := rfl
  rw [run_leaf_gen st "z" "z" .z_ .z_ .z_ txt (by simp [hd]) hne tag_z hf rfl, he]
  simp [execOps, execOp, St.getFloatCheck, hx, St.setFlag, St.setState, setState_is_guarded]

theorem end_point : endOps .point_ =
    [.requireFlagEq .hasX .hasY .e_point_must_have_both_x_and_y, .requireFlagEq .conX .conY .e_point_must_have_both_x_and_y_2,
     .data, .data, .data, .data, .data, .data, .book .pushPoint, .setState .point_end] := rfl

/-- the invariant between the `<point>` elements of `<adjusted>` -/
structure PInv (stk : List Handler) (u : Nat) (st : St) : Prop where
  err : st.err = none
  state : st.state = .adjusted ∨ st.state = .point_end
  stack : st.stack = stk
  data : st.data = []
  la : st.listAdjusted = true
  pa : st.pointAdjusted = true
  unk : st.unknowns = u

theorem run_point (stk : List Handler) (u : Nat) (st : St) (p : Pt) (h : PInv stk u st) (hv : p.valid = true) :
    PInv stk (u + p.unknowns) (run st p.events) := by
  obtain ⟨herr, hstate, hstack, hdata, hla, hpa, hunk⟩ := h
  have hne : ∀ s : St, s.state = .x_end ∨ s.state = .y_end ∨ s.state = .z_end → s.state ≠ .error_ := by
    intro s hs; rcases hs with h | h | h <;> rw [h] <;> decide
  cases hk : p.kind with
  | xy =>
    simp only [Pt.valid, hk, Bool.and_eq_true] at hv
    simp only [Pt.events, Pt.coords, hk, run_append, run_cons, run_nil]
    rw [step_point_start st hstate hdata]
    rw [run_id _ p.id (.inl rfl) rfl]; dsimp only
    rw [run_x _ p.x rfl rfl hv.1]; dsimp only
    rw [run_y _ p.y rfl rfl hv.2]; dsimp only
    rw [step_stop_cons _ .point_ st.stack rfl, end_point]
    constructor <;>
      simp [execOps, execOp, St.flag, St.book, St.setState, setState_is_guarded, herr, hstack, hla, hpa, hunk, Pt.unknowns, hk]
  | z =>
    simp only [Pt.valid, hk] at hv
    simp only [Pt.events, Pt.coords, hk, run_append, run_cons, run_nil]
    rw [step_point_start st hstate hdata]
    rw [run_id _ p.id (.inl rfl) rfl]; dsimp only
    rw [run_z _ p.z (.inl rfl) rfl hv]; dsimp only
    rw [step_stop_cons _ .point_ st.stack rfl, end_point]
    constructor <;>
      simp [execOps, execOp, St.flag, St.book, St.setState, setState_is_guarded, herr, hstack, hla, hpa, hunk, Pt.unknowns, hk]
  | xyz =>
    simp only [Pt.valid, hk, Bool.and_eq_true] at hv
    simp only [Pt.events, Pt.coords, hk, run_append, run_cons, run_nil]
    rw [step_point_start st hstate hdata]
    rw [run_id _ p.id (.inl rfl) rfl]; dsimp only
    rw [run_x _ p.x rfl rfl hv.1.1]; dsimp only
    rw [run_y _ p.y rfl rfl hv.1.2]; dsimp only
    rw [run_z _ p.z (.inr rfl) rfl hv.2]; dsimp only
    rw [step_stop_cons _ .point_ st.stack rfl, end_point]
    constructor <;>
      simp [execOps, execOp, St.flag, St.book, St.setState, setState_is_guarded, herr, hstack, hla, hpa, hunk, Pt.unknowns, hk]

theorem run_points (stk : List Handler) : ∀ (ps : List Pt) (u : Nat) (st : St), PInv stk u st →
    ps.all Pt.valid = true → PInv stk (u + ptsUnknowns ps) (run st (ptsEvents ps)) := by
  intro ps
  induction ps with
  | nil => intro u st h _; simpa [ptsEvents, ptsUnknowns, run_nil] using h
  | cons p r ih =>
    intro u st h hv
    simp only [List.all_cons, Bool.and_eq_true] at hv
    rw [ptsEvents, run_append, ptsUnknowns, ← Nat.add_assoc]
    exact ih _ _ (run_point stk u st p h hv.1) hv.2


/-! ### one orientation shift -/

/-- the invariant between the `<orientation>` elements of `<orientation-shifts>` -/
structure OInv (stk : List Handler) (u : Nat) (st : St) : Prop where
  err : st.err = none
  state : st.state = .orientation_shifts ∨ st.state = .orientation_end
  stack : st.stack = stk
  data : st.data = []
  unk : st.unknowns = u

theorem step_ori_start (st : St) (hs : st.state = .orientation_shifts ∨ st.state = .orientation_end) (hd : st.data = []) :
    step st (.start "orientation" []) =
      { st with data := [], stack := .orientation :: st.stack, state := .orientation, n := st.n + 1 } := by
  have hf : tagfun st.state .orientation = .orientation := by rcases hs with h | h <;> rw [h] <;> rfl
  have hne : st.state ≠ .error_ := by rcases hs with h | h <;> rw [h] <;> decide
  exact step_start_simple st "orientation" "orientation" .orientation .orientation .orientation (by simp [hd]) hne
    tag_orientation hf rfl

theorem run_approx (st : St) (txt : List Char) (hs : st.state = .id_end) (hd : st.data = []) (hx : isFloat txt = true) :
    run st (leafC "approx" txt) = { st with state := .ors_approx_end, data := [], n := st.n + 3 } := by
  have he : endOps .ors_approx = [.getFloat, .setState .ors_approx_end] := rfl
  rw [run_leaf_gen st "approx" "approx" .approx .ors_approx .ors_approx txt (by simp [hd]) (by rw [hs]; decide) tag_approx
    (by rw [hs]; rfl) rfl, he]
  simp [execOps, execOp, St.getFloatCheck, hx, St.setState, setState_is_guarded]

theorem run_adj (st : St) (txt : List Char) (hs : st.state = .ors_approx_end) (hd : st.data = []) (hx : isFloat txt = true) :
    run st (leafC "adj" txt) = { st with state := .ors_adj_end, data := [], n := st.n + 3 } := by
  have he : endOps .ors_adj = [.getFloat, .setState .ors_adj_end] := rfl
  rw [run_leaf_gen st "adj" "adj" .adj_ .ors_adj .ors_adj txt (by simp [hd]) (by rw [hs]; decide) tag_adj
    (by rw [hs]; rfl) rfl, he]
  simp [execOps, execOp, St.getFloatCheck, hx, St.setState, setState_is_guarded]

theorem end_orientation : endOps .orientation =
    [.requireState [.ors_adj_end] .e_missing_tag_approx_or_adj, .data, .data, .book .pushOrientation,
     .setState .orientation_end] := rfl

theorem run_ori (stk : List Handler) (u : Nat) (st : St) (o : Ori) (h : OInv stk u st) (hv : o.valid = true) :
    OInv stk (u + 1) (run st o.events) := by
  obtain ⟨herr, hstate, hstack, hdata, hunk⟩ := h
  simp only [Ori.valid, Bool.and_eq_true] at hv
  simp only [Ori.events, run_append, run_cons, run_nil]
  rw [step_ori_start st hstate hdata]
  rw [run_id _ o.id (.inr rfl) rfl]; dsimp only
  rw [run_approx _ o.approx rfl rfl hv.1]; dsimp only
  rw [run_adj _ o.adj rfl rfl hv.2]; dsimp only
  rw [step_stop_cons _ .orientation st.stack rfl, end_orientation]
  constructor <;> simp [execOps, execOp, St.book, St.setState, setState_is_guarded, herr, hstack, hunk]

theorem run_oris (stk : List Handler) : ∀ (os : List Ori) (u : Nat) (st : St), OInv stk u st →
    os.all Ori.valid = true → OInv stk (u + os.length) (run st (orisEvents os)) := by
  intro os
  induction os with
  | nil => intro u st h _; simpa [orisEvents, run_nil] using h
  | cons o r ih =>
    intro u st h hv
    simp only [List.all_cons, Bool.and_eq_true] at hv
    have := ih (u + 1) _ (run_ori stk u st o h hv.1) hv.2
    rw [orisEvents, run_append, List.length_cons]
    have e : u + (r.length + 1) = u + 1 + r.length := by omega
    rw [e]; exact this

/-! ### `<original-index>`: `<ind>n</ind>` -/

structure IInv (stk : List Handler) (st : St) : Prop where
  err : st.err = none
  state : st.state = .original_index ∨ st.state = .ind_end
  stack : st.stack = stk
  data : st.data = []

theorem run_ind (stk : List Handler) (st : St) (w : List Char) (h : IInv stk st) (hw : isInteger w = true) :
    IInv stk (run st (leafC "ind" w)) := by
  obtain ⟨herr, hstate, hstack, hdata⟩ := h
  have hf : tagfun st.state .ind_ = .ind_ := by rcases hstate with h | h <;> rw [h] <;> rfl
  have hne : st.state ≠ .error_ := by rcases hstate with h | h <;> rw [h] <;> decide
  have he : endOps .ind_ = [.getInt .none, .setState .ind_end] := rfl
  rw [run_leaf_gen st "ind" "ind" .ind_ .ind_ .ind_ w (by simp [hdata]) hne tag_ind hf rfl, he]
  constructor <;> simp [execOps, execOp, St.getIntCheck, hw, St.setState, setState_is_guarded, herr, hstack]

theorem run_inds (stk : List Handler) : ∀ (ws : List (List Char)) (st : St), IInv stk st →
    ws.all isInteger = true → IInv stk (run st (indEvents ws)) := by
  intro ws
  induction ws with
  | nil => intro st h _; simpa [indEvents, run_nil] using h
  | cons w r ih =>
    intro st h hv
    simp only [List.all_cons, Bool.and_eq_true] at hv
    rw [indEvents, run_append]
    exact ih _ (run_ind stk st w h hv.1) hv.2

/-! ### the fixed events between the lists -/

/-- `</adjusted> <orientation-shifts>` -/
theorem run_glue1 (rest : List Handler) (u : Nat) (st : St) (h : PInv (.adjusted :: rest) u st) :
    OInv (.orientation_shifts :: rest) u (run st [.stop, .start "orientation-shifts" []]) := by
  obtain ⟨herr, hstate, hstack, hdata, _, _, hunk⟩ := h
  have hne : st.state ≠ .error_ := by rcases hstate with h | h <;> rw [h] <;> decide
  simp only [run_cons, run_nil]
  rw [step_stop_simple st .adjusted rest .adjusted_end hstack rfl hne]
  rw [step_start_simple _ "orientation-shifts" "orientation-shifts" .orientation_shifts .orientation_shifts
    .orientation_shifts rfl (by simp) tag_orientation_shifts rfl rfl]
  constructor <;> simp [herr, hunk]

/-- what the acceptance theorem of `<cov-mat>` needs of the state just after `<cov-mat>` -/
structure AtCov (rest : List Handler) (u : Nat) (st : St) : Prop where
  err : st.err = none
  state : st.state = .cov_mat
  stack : st.stack = .cov_mat :: rest
  data : st.data = []
  unk : st.unknowns = u

/-- `</orientation-shifts> <cov-mat>` -/
theorem run_glue2 (rest : List Handler) (u : Nat) (st : St) (h : OInv (.orientation_shifts :: rest) u st) :
    AtCov rest u (run st [.stop, .start "cov-mat" []]) := by
  obtain ⟨herr, hstate, hstack, hdata, hunk⟩ := h
  have hne : st.state ≠ .error_ := by rcases hstate with h | h <;> rw [h] <;> decide
  simp only [run_cons, run_nil]
  rw [step_stop_simple st .orientation_shifts rest .orientation_shifts_end hstack rfl hne]
  rw [step_start_simple _ "cov-mat" "cov-mat" .cov_mat .cov_mat .cov_mat rfl (by simp) tag_cov_mat rfl rfl]
  constructor <;> simp [herr, hunk]

/-- `<original-index>` after `</cov-mat>` -/
theorem run_glue3 (rest : List Handler) (st : St) (herr : st.err = none) (hstate : st.state = .cov_mat_end)
    (hstack : st.stack = rest) (hdata : st.data = []) :
    IInv (.original_index :: rest) (run st [.start "original-index" []]) := by
  have ho : startOps .original_index = [.data, .data, .push .original_index, .setState .original_index] := rfl
  have hf : tagfun st.state .original_index = .original_index := by rw [hstate]; rfl
  simp only [run_cons, run_nil]
  rw [step_start_gen st "original-index" "original-index" .original_index (by simp [hdata]) tag_original_index, hf, ho]
  constructor <;> simp [execOps, execOp, St.setState, setState_is_guarded, hstate, herr, hstack]

/-- `</original-index> </coordinates> <observations> </observations> </gama-local-adjustment>` -/
theorem run_glue4 (st : St) (h : IInv [.original_index, .coordinates, .gama_local_adjustment] st) :
    (run st [.stop, .stop, .start "observations" [], .stop, .stop]).err = none ∧
    (run st [.stop, .stop, .start "observations" [], .stop, .stop]).state = .stop_ ∧
    (run st [.stop, .stop, .start "observations" [], .stop, .stop]).stack = [] := by
  obtain ⟨herr, hstate, hstack, hdata⟩ := h
  have hne : st.state ≠ .error_ := by rcases hstate with h | h <;> rw [h] <;> decide
  have ho : startOps .observations = [.data, .push .observations, .setState .observations] := rfl
  have hf : tagfun .coordinates_end .observations = .observations := rfl
  rw [run_cons, step_stop_simple st .original_index _ .original_index_end hstack rfl hne]
  rw [run_cons, step_stop_simple _ .coordinates _ .coordinates_end rfl rfl (by simp)]; dsimp only
  rw [run_cons, step_start_gen _ "observations" "observations" .observations rfl tag_observations]; dsimp only
  rw [hf, ho]
  simp only [execOps, execOp, St.setState, setState_is_guarded]
  rw [run_cons, step_stop_simple _ .observations _ .observations_end rfl rfl (by simp)]; dsimp only
  rw [run_cons, step_stop_simple _ .gama_local_adjustment _ .stop_ rfl rfl (by simp)]
  simp [run_nil, herr]


/-! ### the whole document -/

theorem prefix_pinv : PInv [.adjusted, .coordinates, .gama_local_adjustment] 0 (run St.init docPrefix) := by
  constructor <;> decide +kernel

theorem run_doc (d : Doc) (hv : d.valid = true) :
    (run St.init d.events).err = none ∧ (run St.init d.events).state = .stop_ ∧ (run St.init d.events).stack = [] := by
  simp only [Doc.valid, Bool.and_eq_true, decide_eq_true_eq] at hv
  obtain ⟨⟨⟨⟨⟨⟨⟨⟨⟨⟨hpts, horis⟩, hidim⟩, hiband⟩, hdim⟩, hb0⟩, hbd⟩, hmax⟩, hlen⟩, hcov⟩, hinds⟩ := hv
  obtain ⟨b, hb⟩ : ∃ b : Nat, extractInt d.band = b := ⟨_, (Int.toNat_of_nonneg hb0).symm⟩
  rw [hb, hdim] at hmax hlen hbd
  have hmaxN : (b + 1) * d.unknowns ≤ 2147483647 := by
    have : (((b + 1) * d.unknowns : Nat) : Int) ≤ ((2147483647 : Nat) : Int) := by
      rw [Int.natCast_mul, Int.natCast_add]; exact hmax
    exact Int.ofNat_le.mp this
  have h1 := run_points _ d.points 0 _ prefix_pinv hpts
  have h2 := run_glue1 _ _ _ h1
  have h3 := run_oris _ d.oris _ _ h2 horis
  obtain ⟨cerr, cstate, cstack, cdata, cunk⟩ := run_glue2 _ _ _ h3
  have heq := run_covBody_ok _ _ d.dim d.band d.cov d.unknowns b cstate cstack (by simp [cdata]) hidim hdim hiband hb
    (by rw [cunk]; simp [Doc.unknowns]) (by omega) hmaxN hlen (by simpa using hcov)
  have h5 := run_glue3 [.coordinates, .gama_local_adjustment] _ ((congrArg St.err heq).trans cerr)
    (congrArg St.state heq) (congrArg St.stack heq) (congrArg St.data heq)
  have h6 := run_inds _ d.inds _ h5 hinds
  have h7 := run_glue4 _ h6
  simp only [Doc.events, run_append]
  exact h7

end Gama.AdjRes
