/-
  Refinement for object histories of `Vec` (Model/VecObj.lean).  A `Vec` has no member besides its
  `MemRep` sub-object, so the invariant is `MemRep.Inv` and the value of an object is `MemRep.val`;
  the `MemRep` operations are lifted from `Lemmas/MemRepRefine`, the element-wise loops from
  `Lemmas/MatObj` (`rewriteAt_own`).
-/
import Gama.Lemmas.ObjCatch
import Gama.Model.VecObj
namespace Gama.VecObj
open Gama.MemRep (upd upd_same upd_other)
open Gama.MatObj (Stop readAt writeAt rewriteAt readAt_own writeAt_own rewriteAt_own)

variable {K : Type} [Scalar K] [Inhabited K]

@[reducible] def Post (sp : Except Stop (Vals K)) : Except Stop (St K) → Prop
  | .ok s' => MemRep.Inv s' ∧ sp = .ok (MemRep.val s')
  | .error e => sp = .error e

theorem viaMem_refines (s : St K) (h : MemRep.Inv s) (op : MemRep.Op K) :
    Post ((MemRep.spec (MemRep.val s) op).mapError Stop.ofMem) (viaMem s op) := by
  unfold viaMem
  cases hs : MemRep.step s op with
  | ok m =>
    obtain ⟨h1, h2⟩ := MemRep.step_ok h hs
    exact ⟨h1, by rw [h2]; rfl⟩
  | error x =>
    have h2 := MemRep.step_error h hs
    show Except.mapError _ _ = _
    rw [h2]; rfl

theorem inPlace_refines (s : St K) (h : MemRep.Inv s) (i : Nat) (f : List K → List K)
    (hf : ∀ l0, MemRep.val s i = some l0 → (f l0).length = l0.length) :
    Post (match MemRep.val s i with
          | none => .error .precondition
          | some t => .ok (upd (MemRep.val s) i (some (f t)))) (inPlace s i f) := by
  unfold inPlace
  cases hi : s.objs i with
  | none => simp [(MemRep.val_none_iff s i).2 hi]
  | some t =>
    obtain ⟨l0, hv0⟩ := MemRep.val_some_of_obj hi
    obtain ⟨m, hm1, hm2, hm3⟩ := rewriteAt_own h hi hv0 f (hf l0 hv0)
    simp only [hv0, hm1]
    exact ⟨hm2, by rw [hm3]⟩

theorem zip2_length (f : K → K → K) (la lb : List K) : (zip2 f la lb).length = la.length := by
  simp [zip2]

theorem refines_binAssign (s : St K) (h : MemRep.Inv s) (i j : Nat) (f : K → K → K) :
    Post (match MemRep.val s i, MemRep.val s j with
          | some t, some u => if t.length ≠ u.length then .error .badRank
                              else .ok (upd (MemRep.val s) i (some (zip2 f t u)))
          | _, _ => .error .precondition) (binAssign s i j f) := by
  unfold binAssign
  cases hi : s.objs i with
  | none => simp [(MemRep.val_none_iff s i).2 hi]
  | some t =>
    obtain ⟨l0, hv0⟩ := MemRep.val_some_of_obj hi
    cases hj : s.objs j with
    | none => simp [(MemRep.val_none_iff s j).2 hj, hv0]
    | some u =>
      obtain ⟨lj, hvj⟩ := MemRep.val_some_of_obj hj
      obtain ⟨hri, hli⟩ := readAt_own h hi hv0
      obtain ⟨hrj, hlj⟩ := readAt_own h hj hvj
      simp only [hv0, hvj]
      by_cases hd : t.sz = u.sz
      · have hl : l0.length = lj.length := by omega
        have hne : ¬ (t.sz ≠ u.sz) := by simpa using hd
        have hne2 : ¬ (l0.length ≠ lj.length) := by simpa using hl
        simp only [if_neg hne, if_neg hne2]
        rw [hrj]
        obtain ⟨m, hm1, hm2, hm3⟩ := rewriteAt_own h hi hv0 (fun la => zip2 f la lj) (zip2_length _ _ _)
        simp only [hm1]
        exact ⟨hm2, by rw [hm3]⟩
      · have hl : l0.length ≠ lj.length := by omega
        simp [hd, hl]

theorem upd_upd {α : Type} (g : Nat → α) (i : Nat) (a b : α) : upd (upd g i a) i b = upd g i b := by
  funext k; by_cases hk : k = i
  · subst hk; simp
  · simp [upd_other _ _ hk]

theorem refines_binNew (s : St K) (h : MemRep.Inv s) (i j k : Nat) (f : K → K → K) :
    Post (match MemRep.val s i, MemRep.val s j, MemRep.val s k with
          | none, some a, some b => if a.length ≠ b.length then .error .badRank
                                    else .ok (upd (MemRep.val s) i (some (zip2 f a b)))
          | _, _, _ => .error .precondition) (binNew s i j k f) := by
  unfold binNew
  cases hi : s.objs i with
  | some t =>
    obtain ⟨l0, hv0⟩ := MemRep.val_some_of_obj hi
    simp [hv0]
  | none =>
    have hvi := (MemRep.val_none_iff s i).2 hi
    cases hj : s.objs j with
    | none => simp [(MemRep.val_none_iff s j).2 hj, hvi]
    | some a =>
      obtain ⟨la, hva⟩ := MemRep.val_some_of_obj hj
      cases hk : s.objs k with
      | none => simp [(MemRep.val_none_iff s k).2 hk, hvi, hva]
      | some b =>
        obtain ⟨lb, hvb⟩ := MemRep.val_some_of_obj hk
        obtain ⟨hra, hla⟩ := readAt_own h hj hva
        obtain ⟨hrb, hlb⟩ := readAt_own h hk hvb
        simp only [hvi, hva, hvb]
        by_cases hd : a.sz = b.sz
        · have hl : la.length = lb.length := by omega
          have hne : ¬ (a.sz ≠ b.sz) := by simpa using hd
          have hne2 : ¬ (la.length ≠ lb.length) := by simpa using hl
          simp only [if_neg hne, if_neg hne2]
          rw [hra, hrb]
          simp only []
          cases hs : MemRep.step s (.ctor i (a.sz : Int)) with
          | error x =>
            have := MemRep.step_error h hs
            simp [MemRep.spec, hvi] at this
          | ok s1 =>
            obtain ⟨h1, hsp⟩ := MemRep.step_ok h hs
            simp only [MemRep.spec, hvi, Int.natCast_nonneg, if_true, Int.toNat_natCast,
              Except.ok.injEq] at hsp
            simp only []
            have hv1 : MemRep.val s1 i = some (List.replicate a.sz default) := by rw [← hsp]; simp
            have := inPlace_refines s1 h1 i (fun _ => zip2 f la lb)
              (by intro l0 hl0; rw [hv1] at hl0; cases hl0; rw [zip2_length]; simp [hla])
            rw [hv1] at this
            cases hp : inPlace s1 i (fun _ => zip2 f la lb) with
            | error x => rw [hp] at this; cases this
            | ok s2 =>
              rw [hp] at this
              obtain ⟨h2, hsp2⟩ := this
              simp only [Except.ok.injEq] at hsp2
              refine ⟨h2, ?_⟩
              rw [← hsp2, ← hsp, upd_upd]
        · have hl : la.length ≠ lb.length := by omega
          simp [hd, hl]

/-- **Refinement, one step.** -/
theorem step_refines (s : St K) (h : MemRep.Inv s) (op : Op K) :
    Post (spec (MemRep.val s) op) (step s op) := by
  cases op with
  | ctor i n => exact viaMem_refines s h _
  | copyCtor i j => exact viaMem_refines s h _
  | moveCtor i j => exact viaMem_refines s h _
  | assign i j => exact viaMem_refines s h _
  | moveAssign i j => exact viaMem_refines s h _
  | reset i n => exact viaMem_refines s h _
  | set i k x =>
    simp only [step, spec]
    by_cases hk : 1 ≤ k
    · simp only [hk, if_true]; exact viaMem_refines s h _
    · simp [hk]
  | setAll i x => exact inPlace_refines s h i _ (by intro l0 _; simp)
  | scale i f => exact inPlace_refines s h i _ (by intro l0 _; simp)
  | addAssign i j => exact refines_binAssign s h i j _
  | subAssign i j => exact refines_binAssign s h i j _
  | plus i j k => exact refines_binNew s h i j k _
  | minus i j k => exact refines_binNew s h i j k _
  | dtor i => exact viaMem_refines s h _

theorem step_ok {s s' : St K} (h : MemRep.Inv s) {op : Op K} (hs : step s op = .ok s') :
    MemRep.Inv s' ∧ spec (MemRep.val s) op = .ok (MemRep.val s') := by
  have := step_refines s h op; rw [hs] at this; exact this

theorem step_error {s : St K} (h : MemRep.Inv s) {op : Op K} {e : Stop} (hs : step s op = .error e) :
    spec (MemRep.val s) op = .error e := by
  have := step_refines s h op; rw [hs] at this; exact this

theorem mapError_ne_heapFault (v : Vals K) (op : MemRep.Op K) :
    (MemRep.spec v op).mapError Stop.ofMem ≠ .error .heapFault := by
  intro hh
  cases hs : MemRep.spec v op with
  | ok v' => rw [hs] at hh; cases hh
  | error x =>
    rw [hs] at hh
    have hx : x ≠ .heapFault := fun hx => MemRep.spec_ne_heapFault v op (hx ▸ hs)
    cases x <;> first | (exact hx rfl) | cases hh

theorem spec_ne_heapFault (v : Vals K) (op : Op K) : spec v op ≠ .error .heapFault := by
  cases op with
  | ctor i n => exact mapError_ne_heapFault v _
  | copyCtor i j => exact mapError_ne_heapFault v _
  | moveCtor i j => exact mapError_ne_heapFault v _
  | assign i j => exact mapError_ne_heapFault v _
  | moveAssign i j => exact mapError_ne_heapFault v _
  | reset i n => exact mapError_ne_heapFault v _
  | dtor i => exact mapError_ne_heapFault v _
  | set i k x =>
    simp only [spec]; split
    · exact mapError_ne_heapFault v _
    · simp
  | _ => simp only [spec] <;> repeat' split <;> first | simp | (repeat' split <;> simp)

/-- **Refinement, whole histories** (stopping at the first throw). -/
theorem run_refines (ops : List (Op K)) : ∀ (s : St K), MemRep.Inv s →
    match run s ops with
    | .ok s' => MemRep.Inv s' ∧ specRun (MemRep.val s) ops = .ok (MemRep.val s')
    | .error e => specRun (MemRep.val s) ops = .error e ∧ e ≠ .heapFault := by
  induction ops with
  | nil => intro s h; exact ⟨h, rfl⟩
  | cons op ops ih =>
    intro s h
    unfold run specRun
    cases hs : step s op with
    | error e =>
      have := step_error h hs
      simp only [this]
      exact ⟨trivial, fun he => spec_ne_heapFault _ op (he ▸ this)⟩
    | ok s1 =>
      obtain ⟨h1, hsp⟩ := step_ok h hs
      simp only [hsp]
      exact ih s1 h1

theorem memSpec_frame {v v' : Vals K} {op : MemRep.Op K} (h : MemRep.spec v op = .ok v') (t : Nat)
    (src : Option Nat)
    (ht : ∀ k, k ≠ t → src ≠ some k →
      match op with
      | .ctor i _ | .copyCtor i _ | .assign i _ | .resize i _ | .write i _ _ | .dtor i => k ≠ i
      | .moveCtor i j | .moveAssign i j => k ≠ i ∧ k ≠ j) :
    ∀ k, k ≠ t → src ≠ some k → v' k = v k := by
  intro k hk hsrc
  have hh := ht k hk hsrc
  cases op <;> simp only [MemRep.spec] at h <;> simp only at hh <;> (repeat' split at h) <;>
    first
      | (cases h; rfl)
      | (cases h; exact upd_other _ _ hh)
      | (cases h; rw [upd_other _ _ hh.1, upd_other _ _ hh.2])
      | cases h

theorem mapError_ok {v v' : Vals K} {op : MemRep.Op K}
    (h : (MemRep.spec v op).mapError Stop.ofMem = .ok v') : MemRep.spec v op = .ok v' := by
  cases hs : MemRep.spec v op with
  | ok w => rw [hs] at h; simpa [Except.mapError] using h
  | error x => rw [hs] at h; simp [Except.mapError] at h

/-- the value-level semantics changes the target object only (a move also empties its source) -/
theorem spec_frame {v v' : Vals K} {op : Op K} (h : spec v op = .ok v') :
    ∀ k, k ≠ op.target → op.source ≠ some k → v' k = v k := by
  cases op with
  | ctor i n => exact memSpec_frame (mapError_ok h) i none (fun k hk _ => hk)
  | copyCtor i j => exact memSpec_frame (mapError_ok h) i none (fun k hk _ => hk)
  | assign i j => exact memSpec_frame (mapError_ok h) i none (fun k hk _ => hk)
  | reset i n => exact memSpec_frame (mapError_ok h) i none (fun k hk _ => hk)
  | dtor i => exact memSpec_frame (mapError_ok h) i none (fun k hk _ => hk)
  | moveCtor i j =>
    exact memSpec_frame (mapError_ok h) i (some j) (fun k hk hs => ⟨hk, fun e => hs (by rw [e])⟩)
  | moveAssign i j =>
    exact memSpec_frame (mapError_ok h) i (some j) (fun k hk hs => ⟨hk, fun e => hs (by rw [e])⟩)
  | set i k x =>
    simp only [spec] at h
    split at h
    · exact memSpec_frame (mapError_ok h) i none (fun k hk _ => hk)
    · cases h
  | _ =>
    intro k hk _
    simp only [spec] at h
    simp only [Op.target] at hk
    (repeat' split at h) <;>
      first
        | (cases h; rfl)
        | (cases h; exact upd_other _ _ hk)
        | cases h

/-- **Independence**: one operation changes the value of its target only (and empties the source of
    a move). -/
theorem step_frame {s s' : St K} (h : MemRep.Inv s) {op : Op K} (hs : step s op = .ok s') :
    ∀ k, k ≠ op.target → op.source ≠ some k → MemRep.val s' k = MemRep.val s k :=
  spec_frame (step_ok h hs).2

/-! ### caught exceptions -/

/-- **A throw of a `Vec` operation changes nothing**: all `Vec` throws are dimension guards
    (`MemRep(Index)` with a negative size, `add`/`sub`); the temporary of `a + b` is destroyed. -/
theorem thrown_unchanged (s : St K) (h : MemRep.Inv s) (op : Op K) :
    MemRep.Inv (thrown s op) ∧ MemRep.val (thrown s op) = MemRep.val s ∧
    (thrown s op).objs = s.objs ∧
    ∀ a, (thrown s op).heap a = s.heap a ∨ (a = s.next ∧ (thrown s op).heap a = none) := by
  have key : ∀ n, MemRep.Inv (ObjCatch.tempGone s n) ∧ MemRep.val (ObjCatch.tempGone s n) = MemRep.val s ∧
      (ObjCatch.tempGone s n).objs = s.objs ∧
      ∀ a, (ObjCatch.tempGone s n).heap a = s.heap a ∨ (a = s.next ∧ (ObjCatch.tempGone s n).heap a = none) :=
    fun n => ⟨ObjCatch.tempGone_inv h n, ObjCatch.tempGone_val h n, ObjCatch.tempGone_objs s n,
      ObjCatch.tempGone_heap s n⟩
  cases op with
  | plus i j k =>
    simp only [thrown]
    cases s.objs j with
    | none => exact ⟨h, rfl, rfl, fun _ => .inl rfl⟩
    | some a => exact key a.sz
  | minus i j k =>
    simp only [thrown]
    cases s.objs j with
    | none => exact ⟨h, rfl, rfl, fun _ => .inl rfl⟩
    | some a => exact key a.sz
  | _ => exact ⟨h, rfl, rfl, fun _ => .inl rfl⟩

theorem runC_refines (ops : List (Op K)) (s : St K) (h : MemRep.Inv s) :
    (∀ s' tr, runC s ops = .ok (s', tr) →
      MemRep.Inv s' ∧ specRunC (MemRep.val s) ops = .ok (MemRep.val s', tr)) ∧
    (∀ e, runC s ops = .error e → specRunC (MemRep.val s) ops = .error e ∧ ObjCatch.isExc e = false) :=
  ObjCatch.runC_refines' MemRep.Inv MemRep.val step thrown spec specThrown
    (fun _ _ _ hI hs => step_ok hI hs) (fun _ _ _ hI hs => step_error hI hs)
    (fun s op hI => ⟨(thrown_unchanged s hI op).1, (thrown_unchanged s hI op).2.1⟩) ops s h

end Gama.VecObj
