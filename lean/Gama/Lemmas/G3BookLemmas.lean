/-
  C19 helper lemmas: the g3 index bookkeeping (`Model::update_index`, `update_observations`).
-/
import Gama.Model.G3Book
import Mathlib.Data.List.Perm.Basic
import Mathlib.Data.List.Nodup
import Mathlib.Data.List.Range
import Mathlib.Data.Finset.Card
import Mathlib.Data.List.Dedup
import Mathlib.Algebra.BigOperators.Group.List.Basic
import Mathlib.Tactic.Ring

namespace Gama
namespace G3Book

variable {ι : Type} [DecidableEq ι]

/-- invariant of `update_index`: every stored `ind` is non-zero, a parameter is on `par_list` once,
    the free parameters carry exactly `1 … dm_cols` in list order, the others carry the marker `1` -/
structure Inv (fr : Par ι → Bool) (s : Idx ι) : Prop where
  nz : ∀ e ∈ s.par, e.2 ≠ 0
  nodup : (s.par.map Prod.fst).Nodup
  range : (s.par.filter fun e => fr e.1).map Prod.snd = List.range' 1 s.cols
  fixed1 : ∀ e ∈ s.par, fr e.1 = false → e.2 = 1

theorem inv_init (fr : Par ι → Bool) : Inv fr (⟨0, []⟩ : Idx ι) :=
  ⟨by simp, by simp, by simp, by simp⟩

theorem lookup_eq_none_of_not_mem {α β : Type} [BEq α] [LawfulBEq α] (l : List (α × β)) (q : α)
    (h : q ∉ l.map Prod.fst) : l.lookup q = none := by
  induction l with
  | nil => rfl
  | cons e l ih =>
    obtain ⟨a, b⟩ := e
    simp only [List.map_cons, List.mem_cons, not_or] at h
    have : (q == a) = false := by simpa using h.1
    simp [List.lookup, this, ih h.2]

theorem lookup_eq_some_of_mem {α β : Type} [BEq α] [LawfulBEq α] (l : List (α × β)) (q : α) (k : β)
    (hn : (l.map Prod.fst).Nodup) (h : (q, k) ∈ l) : l.lookup q = some k := by
  induction l with
  | nil => simp at h
  | cons e l ih =>
    obtain ⟨a, b⟩ := e
    simp only [List.map_cons, List.nodup_cons] at hn
    rcases List.mem_cons.mp h with h1 | h1
    · cases h1; simp [List.lookup]
    · have hne : (q == a) = false := by
        have : q ≠ a := by
          intro hqa; subst hqa
          exact hn.1 (List.mem_map.mpr ⟨(q, k), h1, rfl⟩)
        simpa using this
      simp [List.lookup, hne, ih hn.2 h1]

theorem ind_of_mem {fr : Par ι → Bool} {s : Idx ι} (h : Inv fr s) {q : Par ι} {k : Nat}
    (hm : (q, k) ∈ s.par) : s.ind q = k := by
  unfold Idx.ind
  rw [lookup_eq_some_of_mem s.par q k h.nodup hm]; rfl

theorem ind_eq_zero_iff {fr : Par ι → Bool} {s : Idx ι} (h : Inv fr s) (q : Par ι) :
    s.ind q = 0 ↔ q ∉ s.par.map Prod.fst := by
  constructor
  · intro h0 hq
    obtain ⟨e, he, rfl⟩ := List.mem_map.mp hq
    rw [ind_of_mem h (k := e.2) (by simpa using he)] at h0
    exact h.nz e he h0
  · intro hq
    unfold Idx.ind
    rw [lookup_eq_none_of_not_mem _ _ hq]; rfl

/-- `update_index` keeps the invariant and adds exactly the parameter it was called with -/
theorem inv_updateIndex {fr : Par ι → Bool} {s : Idx ι} (h : Inv fr s) (q : Par ι) :
    Inv fr (updateIndex fr s q) ∧
      (∀ p, p ∈ (updateIndex fr s q).par.map Prod.fst ↔ p ∈ s.par.map Prod.fst ∨ p = q) := by
  unfold updateIndex
  by_cases h0 : s.ind q = 0
  · have hq := (ind_eq_zero_iff h q).mp h0
    simp only [h0, ne_eq, not_true_eq_false, if_false]
    by_cases hf : fr q = true
    · simp only [hf, if_true]
      refine ⟨⟨?_, ?_, ?_, ?_⟩, ?_⟩
      · intro e he
        rcases List.mem_append.mp he with he | he
        · exact h.nz e he
        · simp at he; subst he; simp
      · rw [List.map_append, List.nodup_append]
        refine ⟨h.nodup, by simp, ?_⟩
        intro a ha b hb
        simp at hb; subst hb
        intro hab; subst hab; exact hq ha
      · simp [List.filter_append, hf, h.range, List.range'_concat]
        omega
      · intro e he hfe
        rcases List.mem_append.mp he with he | he
        · exact h.fixed1 e he hfe
        · simp at he; subst he; simp [hf] at hfe
      · intro p; simp [List.map_append]
    · have hf' : fr q = false := by simpa using hf
      simp only [hf', Bool.false_eq_true, if_false]
      refine ⟨⟨?_, ?_, ?_, ?_⟩, ?_⟩
      · intro e he
        rcases List.mem_append.mp he with he | he
        · exact h.nz e he
        · simp at he; subst he; simp
      · rw [List.map_append, List.nodup_append]
        refine ⟨h.nodup, by simp, ?_⟩
        intro a ha b hb
        simp at hb; subst hb
        intro hab; subst hab; exact hq ha
      · simp [List.filter_append, hf', h.range]
      · intro e he hfe
        rcases List.mem_append.mp he with he | he
        · exact h.fixed1 e he hfe
        · simp at he; subst he; rfl
      · intro p; simp [List.map_append]
  · simp only [h0, ne_eq, not_false_eq_true, if_true]
    refine ⟨h, ?_⟩
    intro p
    have hq : q ∈ s.par.map Prod.fst := by
      by_contra hc; exact h0 ((ind_eq_zero_iff h q).mpr hc)
    constructor
    · intro hp; exact Or.inl hp
    · rintro (hp | rfl)
      · exact hp
      · exact hq

theorem inv_foldl {fr : Par ι → Bool} (l : List (Par ι)) {s : Idx ι} (h : Inv fr s) :
    Inv fr (l.foldl (updateIndex fr) s) ∧
      (∀ p, p ∈ (l.foldl (updateIndex fr) s).par.map Prod.fst ↔ p ∈ s.par.map Prod.fst ∨ p ∈ l) := by
  induction l generalizing s with
  | nil => simp [h]
  | cons q l ih =>
    obtain ⟨h1, k1⟩ := inv_updateIndex h q
    obtain ⟨h2, k2⟩ := ih h1
    refine ⟨h2, ?_⟩
    intro p
    rw [List.foldl_cons, k2, k1]
    simp only [List.mem_cons]
    tauto

/-! ### consequences for the final assignment -/

theorem cols_eq_length {fr : Par ι → Bool} {s : Idx ι} (h : Inv fr s) :
    s.cols = (s.par.filter fun e => fr e.1).length := by
  have := congrArg List.length h.range
  simpa using this.symm

theorem freeKeys_nodup {fr : Par ι → Bool} {s : Idx ι} (h : Inv fr s) :
    ((s.par.filter fun e => fr e.1).map Prod.fst).Nodup :=
  h.nodup.sublist ((List.filter_sublist (l := s.par)).map Prod.fst)

/-- `dm_cols` is the number of distinct free parameters on `par_list` -/
theorem cols_eq_card {fr : Par ι → Bool} {s : Idx ι} (h : Inv fr s) :
    s.cols = ((s.par.map Prod.fst).toFinset.filter fun p => fr p = true).card := by
  rw [cols_eq_length h, ← List.length_map (f := Prod.fst), ← List.toFinset_card_of_nodup (freeKeys_nodup h)]
  congr 1
  ext p
  simp only [List.mem_toFinset, List.mem_map, List.mem_filter, Finset.mem_filter]
  constructor
  · rintro ⟨e, ⟨he, hf⟩, rfl⟩; exact ⟨⟨e, he, rfl⟩, hf⟩
  · rintro ⟨⟨e, he, rfl⟩, hf⟩; exact ⟨e, ⟨he, hf⟩, rfl⟩

theorem index_ne_zero_iff {fr : Par ι → Bool} {s : Idx ι} (h : Inv fr s) (q : Par ι) :
    s.index fr q ≠ 0 ↔ fr q = true ∧ q ∈ s.par.map Prod.fst := by
  unfold Idx.index
  by_cases hf : fr q = true
  · simp only [hf, if_true, true_and]
    rw [ne_eq, ind_eq_zero_iff h q, not_not]
  · simp [hf]

theorem index_mem {fr : Par ι → Bool} {s : Idx ι} (h : Inv fr s) {q : Par ι} (hq : s.index fr q ≠ 0) :
    (q, s.index fr q) ∈ s.par.filter fun e => fr e.1 := by
  obtain ⟨hf, hk⟩ := (index_ne_zero_iff h q).mp hq
  obtain ⟨e, he, rfl⟩ := List.mem_map.mp hk
  have : s.index fr e.1 = e.2 := by
    unfold Idx.index; rw [if_pos hf]; exact ind_of_mem h (by simpa using he)
  rw [this]
  exact List.mem_filter.mpr ⟨he, by simpa using hf⟩

/-- the column index of an adjusted parameter lies in `1 … dm_cols` -/
theorem index_range {fr : Par ι → Bool} {s : Idx ι} (h : Inv fr s) {q : Par ι} (hq : s.index fr q ≠ 0) :
    1 ≤ s.index fr q ∧ s.index fr q ≤ s.cols := by
  have hm := List.mem_map_of_mem (f := Prod.snd) (index_mem h hq)
  rw [h.range, List.mem_range'_1] at hm
  simp only at hm
  omega

/-- two different adjusted parameters never share a column -/
theorem index_injective {fr : Par ι → Bool} {s : Idx ι} (h : Inv fr s) {q q' : Par ι}
    (hq : s.index fr q ≠ 0) (he : s.index fr q = s.index fr q') : q = q' := by
  have hq' : s.index fr q' ≠ 0 := he ▸ hq
  have m1 := index_mem h hq
  have m2 := index_mem h hq'
  have hnd : ((s.par.filter fun e => fr e.1).map Prod.snd).Nodup := by
    rw [h.range]; exact List.nodup_range'
  have := List.inj_on_of_nodup_map hnd m1 m2 (by simpa using he)
  exact congrArg Prod.fst this

/-- every column `1 … dm_cols` belongs to some adjusted parameter -/
theorem index_surjective {fr : Par ι → Bool} {s : Idx ι} (h : Inv fr s) {k : Nat} (h1 : 1 ≤ k) (h2 : k ≤ s.cols) :
    ∃ q, s.index fr q = k := by
  have : k ∈ (s.par.filter fun e => fr e.1).map Prod.snd := by
    rw [h.range, List.mem_range'_1]; omega
  obtain ⟨e, he, rfl⟩ := List.mem_map.mp this
  obtain ⟨hm, hf⟩ := List.mem_filter.mp he
  refine ⟨e.1, ?_⟩
  unfold Idx.index
  rw [if_pos (by simpa using hf)]
  exact ind_of_mem h (by simpa using hm)

/-! ### `update_observations` as folds -/

/-- the parameters passed to `update_index`, in program order -/
def touchesOf (P : Points ι) (obs : List (Obs ι)) : List (Par ι) :=
  (obs.filterMap (revision P)).flatMap (·.touches)

theorem updateObservations_fold (P : Points ι) (obs : List (Obs ι)) (b : Book ι) :
    (obs.foldl (reviseOne P) b).idx = (touchesOf P obs).foldl (updateIndex (isFreePar P)) b.idx ∧
    (obs.foldl (reviseOne P) b).rows = b.rows + ((obs.filterMap (revision P)).map (·.rows)).sum ∧
    (obs.foldl (reviseOne P) b).floats = b.floats + ((obs.filterMap (revision P)).map (·.floats)).sum ∧
    (obs.foldl (reviseOne P) b).active = b.active ++ obs.filter (fun o => (revision P o).isSome) := by
  induction obs generalizing b with
  | nil => simp [touchesOf]
  | cons o obs ih =>
    rw [List.foldl_cons]
    obtain ⟨i1, i2, i3, i4⟩ := ih (reviseOne P b o)
    rw [i1, i2, i3, i4]
    unfold reviseOne touchesOf
    cases hr : revision P o with
    | none => simp [hr]
    | some r => simp [hr, List.foldl_append, Nat.add_assoc]

theorem final_inv (P : Points ι) (obs : List (Obs ι)) :
    Inv (isFreePar P) (updateObservations P obs).idx ∧
      ∀ p, p ∈ (updateObservations P obs).idx.par.map Prod.fst ↔ p ∈ touchesOf P obs := by
  unfold updateObservations
  rw [(updateObservations_fold P obs Book.init).1]
  have := inv_foldl (touchesOf P obs) (inv_init (isFreePar P))
  simpa [Book.init] using this

theorem touchesOf_perm (P : Points ι) {o₁ o₂ : List (Obs ι)} (h : o₁.Perm o₂) :
    (touchesOf P o₁).Perm (touchesOf P o₂) :=
  (h.filterMap _).flatMap_right _

/-- Permuting the input records renumbers the unknowns by a bijection `σ` of `1 … dm_cols`
    and changes nothing else of the bookkeeping. -/
theorem order_independent (P : Points ι) {o₁ o₂ : List (Obs ι)} (h : o₁.Perm o₂) :
    (updateObservations P o₁).rows = (updateObservations P o₂).rows ∧
    (updateObservations P o₁).floats = (updateObservations P o₂).floats ∧
    (updateObservations P o₁).idx.cols = (updateObservations P o₂).idx.cols ∧
    (updateObservations P o₁).active.Perm (updateObservations P o₂).active ∧
    ∃ σ : Nat → Nat,
      (∀ k, 1 ≤ k → k ≤ (updateObservations P o₁).idx.cols →
          1 ≤ σ k ∧ σ k ≤ (updateObservations P o₂).idx.cols) ∧
      (∀ k k', 1 ≤ k → k ≤ (updateObservations P o₁).idx.cols →
          1 ≤ k' → k' ≤ (updateObservations P o₁).idx.cols → σ k = σ k' → k = k') ∧
      ∀ q, (updateObservations P o₂).idx.index (isFreePar P) q =
        if (updateObservations P o₁).idx.index (isFreePar P) q = 0 then 0
        else σ ((updateObservations P o₁).idx.index (isFreePar P) q) := by
  obtain ⟨inv1, key1⟩ := final_inv P o₁
  obtain ⟨inv2, key2⟩ := final_inv P o₂
  have hmem : ∀ p, p ∈ touchesOf P o₁ ↔ p ∈ touchesOf P o₂ := fun p => (touchesOf_perm P h).mem_iff
  have hkeys : ∀ p, p ∈ (updateObservations P o₁).idx.par.map Prod.fst ↔
      p ∈ (updateObservations P o₂).idx.par.map Prod.fst := fun p => by rw [key1, key2, hmem]
  have f1 := updateObservations_fold P o₁ Book.init
  have f2 := updateObservations_fold P o₂ Book.init
  have hz : ∀ q, (updateObservations P o₁).idx.index (isFreePar P) q ≠ 0 ↔
      (updateObservations P o₂).idx.index (isFreePar P) q ≠ 0 := fun q => by
    rw [index_ne_zero_iff inv1, index_ne_zero_iff inv2, hkeys]
  have hcols : (updateObservations P o₁).idx.cols = (updateObservations P o₂).idx.cols := by
    rw [cols_eq_card inv1, cols_eq_card inv2]
    congr 1
    ext p
    simp only [Finset.mem_filter, List.mem_toFinset]
    rw [hkeys]
  refine ⟨?_, ?_, hcols, ?_, ?_⟩
  · unfold updateObservations
    rw [f1.2.1, f2.2.1]
    congr 1
    exact ((h.filterMap _).map _).sum_eq
  · unfold updateObservations
    rw [f1.2.2.1, f2.2.2.1]
    congr 1
    exact ((h.filterMap _).map _).sum_eq
  · unfold updateObservations
    rw [f1.2.2.2, f2.2.2.2]
    simpa [Book.init] using h.filter _
  · classical
    let σ : Nat → Nat := fun k =>
      if hk : ∃ q, (updateObservations P o₁).idx.index (isFreePar P) q = k ∧ k ≠ 0 then
        (updateObservations P o₂).idx.index (isFreePar P) hk.choose else 0
    have hσ : ∀ q, (updateObservations P o₁).idx.index (isFreePar P) q ≠ 0 →
        σ ((updateObservations P o₁).idx.index (isFreePar P) q) =
          (updateObservations P o₂).idx.index (isFreePar P) q := by
      intro q hq
      have hk : ∃ q', (updateObservations P o₁).idx.index (isFreePar P) q' =
          (updateObservations P o₁).idx.index (isFreePar P) q ∧
          (updateObservations P o₁).idx.index (isFreePar P) q ≠ 0 := ⟨q, rfl, hq⟩
      simp only [σ, dif_pos hk]
      have hc := hk.choose_spec.1
      have : hk.choose = q := index_injective inv1 (by rw [hc]; exact hq) hc
      rw [this]
    refine ⟨σ, ?_, ?_, ?_⟩
    · intro k h1 h2
      obtain ⟨q, hq⟩ := index_surjective inv1 h1 h2
      have hq0 : (updateObservations P o₁).idx.index (isFreePar P) q ≠ 0 := by omega
      have := hσ q hq0
      rw [hq] at this
      rw [this]
      exact index_range inv2 ((hz q).mp hq0)
    · intro k k' h1 h2 h1' h2' he
      obtain ⟨q, hq⟩ := index_surjective inv1 h1 h2
      obtain ⟨q', hq'⟩ := index_surjective inv1 h1' h2'
      have hq0 : (updateObservations P o₁).idx.index (isFreePar P) q ≠ 0 := by omega
      have hq0' : (updateObservations P o₁).idx.index (isFreePar P) q' ≠ 0 := by omega
      have e1 := hσ q hq0
      have e2 := hσ q' hq0'
      rw [hq] at e1
      rw [hq'] at e2
      rw [e1, e2] at he
      have : q = q' := index_injective inv2 ((hz q).mp hq0) he
      subst this
      omega
    · intro q
      by_cases hq : (updateObservations P o₁).idx.index (isFreePar P) q = 0
      · rw [if_pos hq]
        by_contra hc
        exact ((hz q).mpr hc) hq
      · rw [if_neg hq, hσ q hq]

/-- the bookkeeping identity of `Model::update_adjustment`: redundancy = observations − unknowns + defect -/
theorem redundancy_eq (b : Book ι) (defect : Nat) :
    redundancy b defect + (b.idx.cols : Int) = (b.rows : Int) + (defect : Int) := by
  unfold redundancy; ring

/-- a point table for the non-vacuity examples in `Props/C19.lean`:
    point 0 fixed, point 1 free, point 2 constrained, all with coordinates -/
def examplePoints : Points Nat := fun n =>
  if n = 0 then some ⟨true, false, false, .fixed, .fixed, .fixed⟩
  else if n = 1 then some ⟨true, false, false, .free, .free, .free⟩
  else if n = 2 then some ⟨true, false, false, .constr, .constr, .constr⟩ else none

end G3Book
end Gama
