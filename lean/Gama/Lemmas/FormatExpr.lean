/-
  C12 — meaning of the format table: evaluation of the streamed expressions in a commutative ring and soundness of
  the normal form `canon` (equal normal forms ⇒ equal values for every valuation of the accessor atoms).
-/
import Gama.Model.FormatExpr
import Mathlib.Algebra.BigOperators.Group.List.Basic
import Mathlib.Algebra.Ring.Basic
import Mathlib.Tactic.Ring

namespace Gama.FormatExpr

variable {K : Type} [CommRing K]

/-- value of a streamed expression: `ρ` values the accessor atoms, `inv n` is the value of `1/n` -/
def eval (inv : Nat → K) (ρ : Nat → K) : Expr → K
  | .atom n => ρ n
  | .lit z => (z : K)
  | .inv n => inv n
  | .add a b => eval inv ρ a + eval inv ρ b
  | .sub a b => eval inv ρ a - eval inv ρ b
  | .mul a b => eval inv ρ a * eval inv ρ b
  | .neg a => - eval inv ρ a

def evalFac (inv : Nat → K) (ρ : Nat → K) : Fac → K
  | .a n => ρ n
  | .i n => inv n

def evalMono (inv : Nat → K) (ρ : Nat → K) (m : Mono) : K := (m.map (evalFac inv ρ)).prod

def evalTerm (inv : Nat → K) (ρ : Nat → K) (t : Term) : K := (t.1 : K) * evalMono inv ρ t.2

def evalPoly (inv : Nat → K) (ρ : Nat → K) (p : Poly) : K := (p.map (evalTerm inv ρ)).sum

theorem perm_insertBy {α : Type} (le : α → α → Bool) (x : α) (l : List α) : (insertBy le x l).Perm (x :: l) := by
  induction l with
  | nil => exact List.Perm.refl _
  | cons y ys ih =>
    unfold insertBy
    by_cases h : le x y = true
    · simp [h]
    · simp only [h]
      exact (List.Perm.cons y ih).trans (List.Perm.swap x y ys)

theorem perm_sortBy {α : Type} (le : α → α → Bool) (l : List α) : (sortBy le l).Perm l := by
  induction l with
  | nil => exact List.Perm.refl _
  | cons x xs ih =>
    unfold sortBy
    exact (perm_insertBy le x _).trans (List.Perm.cons x ih)

variable (inv : Nat → K) (ρ : Nat → K)

theorem evalPoly_nil : evalPoly inv ρ [] = 0 := by simp [evalPoly]

theorem evalPoly_cons (t : Term) (p : Poly) : evalPoly inv ρ (t :: p) = evalTerm inv ρ t + evalPoly inv ρ p := by
  simp [evalPoly]

theorem evalPoly_append (p q : Poly) : evalPoly inv ρ (p ++ q) = evalPoly inv ρ p + evalPoly inv ρ q := by
  simp [evalPoly]

theorem evalPoly_neg (p : Poly) : evalPoly inv ρ (p.map (fun t => (-t.1, t.2))) = - evalPoly inv ρ p := by
  induction p with
  | nil => simp [evalPoly]
  | cons t p ih =>
    simp only [List.map_cons, evalPoly_cons, ih]
    simp [evalTerm]
    ring

theorem evalMono_append (m n : Mono) : evalMono inv ρ (m ++ n) = evalMono inv ρ m * evalMono inv ρ n := by
  simp [evalMono]

theorem evalPoly_scale (s : Term) (q : Poly) :
    evalPoly inv ρ (q.map (fun t => (s.1 * t.1, s.2 ++ t.2))) = evalTerm inv ρ s * evalPoly inv ρ q := by
  induction q with
  | nil => simp [evalPoly]
  | cons t q ih =>
    simp only [List.map_cons, evalPoly_cons, ih]
    simp only [evalTerm, evalMono_append, Int.cast_mul]
    ring

theorem evalPoly_mul (p q : Poly) :
    evalPoly inv ρ (p.flatMap (fun s => q.map (fun t => (s.1 * t.1, s.2 ++ t.2)))) = evalPoly inv ρ p * evalPoly inv ρ q := by
  induction p with
  | nil => simp [evalPoly]
  | cons s p ih =>
    simp only [List.flatMap_cons, evalPoly_append, evalPoly_cons, ih, evalPoly_scale]
    ring

theorem evalPoly_expand (e : Expr) : evalPoly inv ρ (expand e) = eval inv ρ e := by
  induction e with
  | atom n => simp [expand, evalPoly, evalTerm, evalMono, evalFac, eval]
  | lit z => simp [expand, evalPoly, evalTerm, evalMono, eval]
  | inv n => simp [expand, evalPoly, evalTerm, evalMono, evalFac, eval]
  | add a b iha ihb => simp [expand, eval, evalPoly_append, iha, ihb]
  | sub a b iha ihb => simp [expand, eval, evalPoly_append, evalPoly_neg, iha, ihb]; ring
  | mul a b iha ihb => simp [expand, eval, evalPoly_mul, iha, ihb]
  | neg a iha => simp [expand, eval, evalPoly_neg, iha]

theorem evalMono_perm {m n : Mono} (h : m.Perm n) : evalMono inv ρ m = evalMono inv ρ n := by
  unfold evalMono
  exact (h.map _).prod_eq

theorem evalPoly_perm {p q : Poly} (h : p.Perm q) : evalPoly inv ρ p = evalPoly inv ρ q := by
  unfold evalPoly
  exact (h.map _).sum_eq

theorem evalPoly_sortMonos (p : Poly) :
    evalPoly inv ρ (p.map (fun t => (t.1, sortBy Fac.le t.2))) = evalPoly inv ρ p := by
  induction p with
  | nil => rfl
  | cons t p ih =>
    simp only [List.map_cons, evalPoly_cons, ih]
    simp only [evalTerm]
    rw [evalMono_perm inv ρ (perm_sortBy Fac.le t.2)]

theorem evalPoly_canon (e : Expr) : evalPoly inv ρ (canon e) = eval inv ρ e := by
  unfold canon
  rw [evalPoly_perm inv ρ (perm_sortBy termLe _), evalPoly_sortMonos, evalPoly_expand]

/-- equal normal forms: the two writers print the same function of the accessors -/
theorem canon_sound {a b : Expr} (h : canon a = canon b) : eval inv ρ a = eval inv ρ b := by
  rw [← evalPoly_canon, ← evalPoly_canon, h]

theorem same_sound {x y : Entry} (h : Entry.same x y = true) :
    x.wrap = y.wrap ∧ eval inv ρ x.expr = eval inv ρ y.expr := by
  unfold Entry.same at h
  simp only [Bool.and_eq_true, decide_eq_true_eq] at h
  exact ⟨h.2, canon_sound inv ρ h.1⟩

/-- what `Group.ok` decides -/
theorem ok_sound {documented : List (String × String)} {g : Group} (h : g.ok documented = true)
    {x y : Entry} (hx : x ∈ g.entries) (hy : y ∈ g.entries)
    (dx : documented.contains (g.q, x.base) = false) (dy : documented.contains (g.q, y.base) = false) :
    x.wrap = y.wrap ∧ eval inv ρ x.expr = eval inv ρ y.expr := by
  unfold Group.ok at h
  have mx : x ∈ g.entries.filter (fun e => !documented.contains (g.q, e.base)) :=
    List.mem_filter.mpr ⟨hx, by rw [dx]; rfl⟩
  have my : y ∈ g.entries.filter (fun e => !documented.contains (g.q, e.base)) :=
    List.mem_filter.mpr ⟨hy, by rw [dy]; rfl⟩
  revert h mx my
  generalize g.entries.filter (fun e => !documented.contains (g.q, e.base)) = es
  intro h mx my
  cases es with
  | nil => cases mx
  | cons r rest =>
    simp only [List.all_eq_true] at h
    have key : ∀ z, z ∈ r :: rest → r.wrap = z.wrap ∧ eval inv ρ r.expr = eval inv ρ z.expr := by
      intro z hz
      rcases List.mem_cons.mp hz with rfl | hz
      · exact ⟨rfl, rfl⟩
      · exact same_sound inv ρ (h z hz)
    obtain ⟨w1, e1⟩ := key x mx
    obtain ⟨w2, e2⟩ := key y my
    exact ⟨w1.symm.trans w2, e1.symm.trans e2⟩

end Gama.FormatExpr
