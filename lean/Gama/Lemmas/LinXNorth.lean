/-
  C05 — `PointData::xNorthAngle()` (regenerated: `Gama/Gen/XNorth.lean`): specification for the
  8 axes orientations × 2 angle senses, and the azimuth right-hand side in geographic terms.

  Geography.  A compass direction has a clockwise azimuth (`Dir.az`, gon).  `axes-xy="en"` means:
  +x points east, +y points north (`CS.xDir`, `CS.yDir`).  Angles are measured clockwise
  (`left-handed`, `rh = false`) or counter-clockwise (`right-handed`, `rh = true`); `senseGon`
  re-expresses a clockwise azimuth in the sense in force.  When the handedness of the axes and of
  the angles disagree gama mirrors every y (`consistent`, `ySign`), so that internally the bearing
  `atan2(Δy, Δx)` always turns in the sense in force.

  Specification of `xNorthAngle`: the direction of NORTH seen from the +x axis, in the sense in
  force — i.e. minus the bearing of the +x axis from north — so that `bearing − xNorthAngle` is the
  azimuth of a line.
-/
import Gama.Lemmas.LinReal
import Gama.Gen.XNorth
namespace Gama.Lin
open Real

inductive Dir where
  | N | E | S | W
deriving DecidableEq, Repr

/-- clockwise azimuth of a compass direction (gon) -/
def Dir.az : Dir → Nat
  | .N => 0 | .E => 100 | .S => 200 | .W => 300

def Dir.opp : Dir → Dir
  | .N => .S | .E => .W | .S => .N | .W => .E

/-- where the +x axis points (first letter of the `axes-xy` code) -/
def CS.xDir : CS → Dir
  | .EN => .E | .NW => .N | .SE => .S | .WS => .W | .NE => .N | .SW => .S | .ES => .E | .WN => .W
/-- where the +y axis points (second letter) -/
def CS.yDir : CS → Dir
  | .EN => .N | .NW => .W | .SE => .E | .WS => .S | .NE => .E | .SW => .W | .ES => .S | .WN => .N

/-- a clockwise azimuth expressed in the sense in force (counter-clockwise for right-handed angles) -/
def senseGon (rh : Bool) (a : Nat) : Nat := if rh then (400 - a) % 400 else a

/-- SPECIFICATION: north seen from the +x axis in the sense in force = minus the bearing of the
    +x axis from north, reduced to [0, 400) -/
def xNorthSpec (cs : CS) (rh : Bool) : Nat := (400 - senseGon rh cs.xDir.az) % 400

/-- the +y axis gama computes with: mirrored when axes and angles disagree -/
def internalY (cs : CS) (rh : Bool) : Dir := if Gen.XNorth.consistent cs rh then cs.yDir else cs.yDir.opp

/-- the generated table meets the specification in all 16 combinations -/
theorem xnorth_spec : ∀ (cs : CS) (rh : Bool), Gen.XNorth.xNorthGon cs rh = (xNorthSpec cs rh : Int) := by
  intro cs rh; cases cs <;> cases rh <;> decide

/-- after the mirroring the +y axis is the +x axis turned by +100 gon in the sense in force:
    the bearing `atan2(Δy, Δx)` turns like the observed angles -/
theorem internal_axes_turn_in_sense : ∀ (cs : CS) (rh : Bool),
    senseGon rh (internalY cs rh).az = (senseGon rh cs.xDir.az + 100) % 400 := by
  intro cs rh; cases cs <;> cases rh <;> decide

/-- the axes are what the code says they are: right- and left-handed systems as lcoords.h classifies them -/
theorem handedness_spec : ∀ cs : CS,
    (Gen.XNorth.leftHandedCoordinates cs = true ↔ cs.yDir.az = (cs.xDir.az + 100) % 400) ∧
    (Gen.XNorth.rightHandedCoordinates cs = true ↔ cs.xDir.az = (cs.yDir.az + 100) % 400) := by
  intro cs; cases cs <;> decide

/-- the hand-written table used so far (`Model/LinTypes.lean`) equals the generated one -/
theorem xNorthGon_models_agree : ∀ (cs : CS) (rh : Bool), (Lin.xNorthGon cs rh : Int) = Gen.XNorth.xNorthGon cs rh := by
  intro cs rh; cases cs <;> cases rh <;> decide

/-! ### over ℝ -/

theorem ofInt_real_nat (n : Nat) : (Scalar.ofInt (n : Int) : ℝ) = (n : ℝ) := by
  simp [Scalar.ofInt]

theorem xNorthAngle_real (cs : CS) (rh : Bool) :
    (Gen.XNorth.xNorthAngle cs rh : ℝ) = (xNorthSpec cs rh : ℝ) * π / 200 := by
  unfold Gen.XNorth.xNorthAngle
  rw [xnorth_spec, ofInt_real_nat]
  simp

/-- component of a ground displacement (east `dE`, north `dN`) along a compass direction -/
def comp : Dir → ℝ → ℝ → ℝ
  | .N, _, dN => dN | .E, dE, _ => dE | .S, _, dN => -dN | .W, dE, _ => -dE

/-- `y_sign()` : −1 when `remove_inconsistency` mirrored the y coordinates -/
def ySign (cs : CS) (rh : Bool) : ℝ := if Gen.XNorth.consistent cs rh then 1 else -1

theorem polar_unique {x y θ₁ θ₂ : ℝ} (h1 : IsPolarAngle x y θ₁) (h2 : IsPolarAngle x y θ₂)
    (hd : Real.sqrt (x * x + y * y) ≠ 0) : ∃ m : ℤ, θ₁ - θ₂ = 2 * π * m := by
  have hc : Real.cos θ₁ = Real.cos θ₂ := by
    have a := h1.1; have b := h2.1
    have : Real.sqrt (x * x + y * y) * Real.cos θ₁ = Real.sqrt (x * x + y * y) * Real.cos θ₂ := by rw [← a, ← b]
    exact mul_left_cancel₀ hd this
  have hs : Real.sin θ₁ = Real.sin θ₂ := by
    have a := h1.2; have b := h2.2
    have : Real.sqrt (x * x + y * y) * Real.sin θ₁ = Real.sqrt (x * x + y * y) * Real.sin θ₂ := by rw [← a, ← b]
    exact mul_left_cancel₀ hd this
  exact Real.Angle.angle_eq_iff_two_pi_dvd_sub.mp (Real.Angle.cos_sin_inj hc hs)

theorem cos_q1 (θ : ℝ) : Real.cos (θ + 100 * π / 200) = -Real.sin θ := by
  rw [show (100:ℝ) * π / 200 = π / 2 by ring, Real.cos_add_pi_div_two]
theorem sin_q1 (θ : ℝ) : Real.sin (θ + 100 * π / 200) = Real.cos θ := by
  rw [show (100:ℝ) * π / 200 = π / 2 by ring, Real.sin_add_pi_div_two]
theorem cos_q2 (θ : ℝ) : Real.cos (θ + 200 * π / 200) = -Real.cos θ := by
  rw [show (200:ℝ) * π / 200 = π by ring, Real.cos_add_pi]
theorem sin_q2 (θ : ℝ) : Real.sin (θ + 200 * π / 200) = -Real.sin θ := by
  rw [show (200:ℝ) * π / 200 = π by ring, Real.sin_add_pi]
theorem cos_q3 (θ : ℝ) : Real.cos (θ + 300 * π / 200) = Real.sin θ := by
  rw [show θ + (300:ℝ) * π / 200 = (θ + π) + π / 2 by ring, Real.cos_add_pi_div_two, Real.sin_add_pi]; ring
theorem sin_q3 (θ : ℝ) : Real.sin (θ + 300 * π / 200) = -Real.cos θ := by
  rw [show θ + (300:ℝ) * π / 200 = (θ + π) + π / 2 by ring, Real.sin_add_pi_div_two, Real.cos_add_pi]

/-- in gama's internal coordinates the line of geographic azimuth `α` (clockwise from north) has
    the bearing `(α in the sense in force) + xNorthAngle`, for every axes code and angle sense -/
theorem internal_bearing_geographic (cs : CS) (rh : Bool) (dE dN α : ℝ) (hα : IsPolarAngle dN dE α) :
    IsPolarAngle (comp cs.xDir dE dN) (ySign cs rh * comp cs.yDir dE dN)
      ((if rh then -α else α) + (Gen.XNorth.xNorthAngle cs rh : ℝ)) := by
  rw [xNorthAngle_real]
  obtain ⟨h1, h2⟩ := hα
  have e1 : dE * dE + dN * dN = dN * dN + dE * dE := by ring
  have h1' : dN = Real.sqrt (dE * dE + dN * dN) * Real.cos α := by rw [e1]; exact h1
  have h2' : dE = Real.sqrt (dE * dE + dN * dN) * Real.sin α := by rw [e1]; exact h2
  cases cs <;> cases rh <;>
    simp only [IsPolarAngle, comp, ySign, CS.xDir, CS.yDir, xNorthSpec, senseGon, Dir.az, Gen.XNorth.consistent,
      Gen.XNorth.leftHandedCoordinates, Gen.XNorth.csIndex, Bool.not_true, Bool.not_false, if_true, if_false,
      decide_true, decide_false, beq_self_eq_true, Bool.false_eq_true, Bool.true_eq_false,
      show (false == true) = false from rfl, show (true == false) = false from rfl,
      Nat.reduceSub, Nat.reduceMod, Nat.cast_ofNat, Nat.cast_zero, zero_mul, zero_div, add_zero, one_mul, neg_mul,
      neg_mul_neg, neg_neg, mul_neg, Real.cos_neg, Real.sin_neg, cos_q1, sin_q1, cos_q2, sin_q2, cos_q3, sin_q3, e1] <;>
    (try simp only [Nat.reduceGT, Nat.reduceLT, decide_true, decide_false, Bool.not_true, Bool.not_false,
      show (false == true) = false from rfl, show (true == false) = false from rfl, beq_self_eq_true,
      Bool.false_eq_true, Bool.true_eq_false, if_true, if_false, one_mul, neg_mul, neg_neg, mul_neg, neg_mul_neg]) <;>
    (refine ⟨?_, ?_⟩ <;> first | exact h1 | exact h2 | linarith [h1, h2, h1', h2'])

/-- **azimuth, geographic form**: the right-hand side is observed − (geographic azimuth of the
    line, in the sense in force), reduced to `(−200 gon, 200 gon]` — in every axes / sense combination.
    `dE, dN`: true ground displacement from → to; the record `o` holds gama's internal coordinates. -/
theorem azimuth_rhs_geographic (cs : CS) (rh : Bool) (dE dN α : ℝ) (fuel : Nat) (o : Obs ℝ) (out : LinOut ℝ)
    (hx : dX o = comp cs.xDir dE dN) (hy : dY o = ySign cs rh * comp cs.yDir dE dN)
    (hN : o.xNorth = Gen.XNorth.xNorthAngle cs rh) (hα : IsPolarAngle dN dE α)
    (h : ¬ hdist o < CUT) (hok : Gen.Lin.azimuth fuel o = .ok out) :
    IsWrapOf ((o.value - (if rh then -α else α)) * R2CC) out.rhs := by
  obtain ⟨⟨k, hk⟩, hlo, hhi⟩ := (azimuth_ok fuel o out h hok).1
  have hd : Real.sqrt (dX o * dX o + dY o * dY o) ≠ 0 := (hdist_pos_of_not_cut h).ne'
  have hp1 := isPolarAngle_brg (dX o) (dY o)
  have hp2 := internal_bearing_geographic cs rh dE dN α hα
  rw [← hx, ← hy, ← hN] at hp2
  obtain ⟨m, hm⟩ := polar_unique hp1 hp2 hd
  refine ⟨⟨k + m, ?_⟩, hlo, hhi⟩
  rw [hk]
  have hpi : π ≠ 0 := Real.pi_ne_zero
  have : brg (dX o) (dY o) = (if rh then -α else α) + o.xNorth + 2 * π * m := by linarith
  rw [this]
  simp only [R2CC, FULL]
  push_cast
  field_simp
  ring

end Gama.Lin
