/-
  C19 helper lemmas: the NEU frame of `g3::Point` over ℝ.
-/
import Gama.Model.Neu
import Mathlib.Analysis.SpecialFunctions.Trigonometric.Basic
import Mathlib.Analysis.SpecialFunctions.Sqrt
import Mathlib.Analysis.Calculus.Deriv.Add
import Mathlib.Analysis.Calculus.Deriv.Mul
import Mathlib.Analysis.Calculus.Deriv.Pow
import Mathlib.LinearAlgebra.Matrix.Determinant.Basic
import Mathlib.LinearAlgebra.Matrix.Notation
import Mathlib.Tactic.Ring
import Mathlib.Tactic.LinearCombination
import Mathlib.Tactic.FinCases

namespace Gama
namespace Neu

/-- ℝ as a `Scalar` (the model's operations are the field's; `sqrt` is `Real.sqrt`).
    Deliberately *not* an instance: it is passed explicitly so that Mathlib's own
    instances on ℝ stay the only ones found by elaboration. -/
@[reducible] noncomputable def realScalar : Scalar ℝ where
  sqrt := Real.sqrt
  ofNat := fun n => (n : ℝ)
  ofSci := fun m s e => (OfScientific.ofScientific m s e : ℝ)
  decLt := fun a b => Classical.propDecidable (a < b)
  decLe := fun a b => Classical.propDecidable (a ≤ b)
  beq := fun a b => @decide (a = b) (Classical.propDecidable _)
  abs := fun x => |x|

@[reducible] noncomputable def realSinCos : SinCos ℝ :=
  { realScalar with sin := Real.sin, cos := Real.cos }

/-- the frame of a point at latitude `b`, longitude `l`, over ℝ -/
noncomputable def frame (b l : ℝ) : Rot ℝ := @transformationMatrix ℝ realSinCos b l

/-- a `Rot` as a Mathlib matrix (row i, column j = `r_ij`) -/
def Rot.toMatrix {K : Type} (R : Rot K) : Matrix (Fin 3) (Fin 3) K :=
  !![R.r11, R.r12, R.r13; R.r21, R.r22, R.r23; R.r31, R.r32, R.r33]

theorem frame_eq (b l : ℝ) : frame b l =
    { r11 := -Real.sin b * Real.cos l, r12 := -Real.sin l, r13 := Real.cos b * Real.cos l,
      r21 := -Real.sin b * Real.sin l, r22 := Real.cos l,  r23 := Real.cos b * Real.sin l,
      r31 := Real.cos b,               r32 := 0,           r33 := Real.sin b } := rfl

/-- orthogonality entry by entry -/
structure Orthonormal (R : Rot ℝ) : Prop where
  c11 : R.r11 * R.r11 + R.r21 * R.r21 + R.r31 * R.r31 = 1
  c22 : R.r12 * R.r12 + R.r22 * R.r22 + R.r32 * R.r32 = 1
  c33 : R.r13 * R.r13 + R.r23 * R.r23 + R.r33 * R.r33 = 1
  c12 : R.r11 * R.r12 + R.r21 * R.r22 + R.r31 * R.r32 = 0
  c13 : R.r11 * R.r13 + R.r21 * R.r23 + R.r31 * R.r33 = 0
  c23 : R.r12 * R.r13 + R.r22 * R.r23 + R.r32 * R.r33 = 0

theorem frame_orthonormal (b l : ℝ) : Orthonormal (frame b l) := by
  have hb := Real.sin_sq_add_cos_sq b
  have hl := Real.sin_sq_add_cos_sq l
  rw [frame_eq]
  constructor <;> dsimp only
  · linear_combination (Real.sin b) ^ 2 * hl + hb
  · linear_combination hl
  · linear_combination (Real.cos b) ^ 2 * hl + hb
  · ring
  · linear_combination (-(Real.sin b * Real.cos b)) * hl
  · ring

open Matrix in
theorem toMatrix_transpose_mul_self {R : Rot ℝ} (h : Orthonormal R) :
    R.toMatrixᵀ * R.toMatrix = 1 := by
  obtain ⟨c11, c22, c33, c12, c13, c23⟩ := h
  ext i j
  fin_cases i <;> fin_cases j <;>
    simp [Rot.toMatrix, Matrix.mul_apply, Fin.sum_univ_three, Matrix.one_apply] <;>
    first
      | linear_combination c11 | linear_combination c22 | linear_combination c33
      | linear_combination c12 | linear_combination c13 | linear_combination c23

/-- north × east = down: the (north, east, up) frame is left-handed, the determinant is −1 -/
theorem frame_det (b l : ℝ) : (frame b l).toMatrix.det = -1 := by
  have hb := Real.sin_sq_add_cos_sq b
  have hl := Real.sin_sq_add_cos_sq l
  rw [frame_eq, Rot.toMatrix, Matrix.det_fin_three]
  simp
  linear_combination (-((Real.sin b) ^ 2 + (Real.cos b) ^ 2)) * hl - hb

end Neu
end Gama

namespace Gama
namespace Neu

/-! ### the linearisation over ℝ -/

/-- the NEU displacement the unknowns `x` (by index) describe for a point; components that are
    not adjusted do not move -/
def dispN (p : Pt ℝ) (x : ℕ → ℝ) : ℝ := if p.freeH then x p.iN else 0
def dispE (p : Pt ℝ) (x : ℕ → ℝ) : ℝ := if p.freeH then x p.iE else 0
def dispU (p : Pt ℝ) (x : ℕ → ℝ) : ℝ := if p.freeU then x p.iU else 0

/-- XYZ displacement of a point: `R · (n, e, u)` (`Point::x_transform` …, used by `Point::write_xml`
    to turn the adjusted n, e, u into the corrections of X, Y, Z) -/
noncomputable def dispXYZ (p : Pt ℝ) (x : ℕ → ℝ) : ℝ × ℝ × ℝ :=
  (@Rot.xTransform ℝ realScalar p.R (dispN p x) (dispE p x) (dispU p x),
   @Rot.yTransform ℝ realScalar p.R (dispN p x) (dispE p x) (dispU p x),
   @Rot.zTransform ℝ realScalar p.R (dispN p x) (dispE p x) (dispU p x))

theorem pointTriple_dot (p : Pt ℝ) (dX dY dZ : ℝ) (x : ℕ → ℝ) :
    @rowDot ℝ realScalar (@pointTriple ℝ realScalar p dX dY dZ) x =
      dX * (dispXYZ p x).1 + dY * (dispXYZ p x).2.1 + dZ * (dispXYZ p x).2.2 := by
  unfold pointTriple rowDot dispXYZ dispN dispE dispU Rot.xTransform Rot.yTransform Rot.zTransform
    Rot.diffN Rot.diffE Rot.diffU
  cases p.freeH <;> cases p.freeU <;> simp <;> ring

theorem rowDot_append (r s : Row ℝ) (x : ℕ → ℝ) :
    @rowDot ℝ realScalar (r ++ s) x = @rowDot ℝ realScalar r x + @rowDot ℝ realScalar s x := by
  unfold rowDot
  induction r with
  | nil => simp
  | cons a r ih => simp [List.foldr_cons, ih]; ring

/-- the three rows of a vector observation, applied tgt the unknowns, are the XYZ displacement
    of `to` minus that of `from` -/
theorem linVector_rows (frm tgt : Pt ℝ) (dx dy dz fdh tdh tol : ℝ) (x : ℕ → ℝ) :
    (@linVector ℝ realScalar frm tgt dx dy dz fdh tdh tol).rows.map (fun r => @rowDot ℝ realScalar r x) =
      [ (dispXYZ tgt x).1 - (dispXYZ frm x).1,
        (dispXYZ tgt x).2.1 - (dispXYZ frm x).2.1,
        (dispXYZ tgt x).2.2 - (dispXYZ frm x).2.2 ] := by
  simp only [linVector, unitXYZ, List.map_cons, List.map_nil, rowDot_append, pointTriple_dot]
  simp
  refine ⟨by ring, by ring, by ring⟩

theorem linXYZ_rows (p : Pt ℝ) (a b c tol : ℝ) (x : ℕ → ℝ) :
    (@linXYZ ℝ realScalar p a b c tol).rows.map (fun r => @rowDot ℝ realScalar r x) =
      [ (dispXYZ p x).1, (dispXYZ p x).2.1, (dispXYZ p x).2.2 ] := by
  simp only [linXYZ, unitXYZ, List.map_cons, List.map_nil, pointTriple_dot]
  simp

theorem sqrt_real (x : ℝ) : @Scalar.sqrt ℝ realScalar x = Real.sqrt x := rfl

theorem linScale_real : @linScale ℝ realScalar = 1000 := by
  show ((1000 : ℕ) : ℝ) = 1000
  norm_num

theorem dispXYZ_scale (p : Pt ℝ) (k : ℝ) (ξ : ℕ → ℝ) :
    dispXYZ p (fun i => k * ξ i) = (k * (dispXYZ p ξ).1, k * (dispXYZ p ξ).2.1, k * (dispXYZ p ξ).2.2) := by
  unfold dispXYZ dispN dispE dispU Rot.xTransform Rot.yTransform Rot.zTransform
  cases p.freeH <;> cases p.freeU <;> simp <;> refine ⟨by ring, by ring, by ring⟩

/-- one Gauss–Newton step is exact for vectors: if the observed vector is the difference of the
    points displaced by `ξ` (metres, in their own n-e-u frames), the right-hand side (millimetres)
    is the design rows applied to `1000 ξ` — so `x = 1000 ξ` solves the equations with zero residual -/
theorem linVector_one_step (frm tgt : Pt ℝ) (dx dy dz fdh tdh tol : ℝ) (ξ : ℕ → ℝ)
    (hx : dx = (@Pt.Xdh ℝ realScalar tgt tdh + (dispXYZ tgt ξ).1) - (@Pt.Xdh ℝ realScalar frm fdh + (dispXYZ frm ξ).1))
    (hy : dy = (@Pt.Ydh ℝ realScalar tgt tdh + (dispXYZ tgt ξ).2.1) - (@Pt.Ydh ℝ realScalar frm fdh + (dispXYZ frm ξ).2.1))
    (hz : dz = (@Pt.Zdh ℝ realScalar tgt tdh + (dispXYZ tgt ξ).2.2) - (@Pt.Zdh ℝ realScalar frm fdh + (dispXYZ frm ξ).2.2)) :
    (@linVector ℝ realScalar frm tgt dx dy dz fdh tdh tol).rhs =
      (@linVector ℝ realScalar frm tgt dx dy dz fdh tdh tol).rows.map
        (fun r => @rowDot ℝ realScalar r (fun i => 1000 * ξ i)) := by
  rw [linVector_rows, dispXYZ_scale, dispXYZ_scale]
  subst hx hy hz
  simp [linVector, linScale_real]
  refine ⟨by ring, by ring, by ring⟩

theorem linXYZ_one_step (p : Pt ℝ) (a b c tol : ℝ) (ξ : ℕ → ℝ)
    (hx : a = p.X + (dispXYZ p ξ).1) (hy : b = p.Y + (dispXYZ p ξ).2.1) (hz : c = p.Z + (dispXYZ p ξ).2.2) :
    (@linXYZ ℝ realScalar p a b c tol).rhs =
      (@linXYZ ℝ realScalar p a b c tol).rows.map (fun r => @rowDot ℝ realScalar r (fun i => 1000 * ξ i)) := by
  rw [linXYZ_rows, dispXYZ_scale]
  subst hx hy hz
  simp [linXYZ, linScale_real]
  refine ⟨by ring, by ring, by ring⟩

/-- spatial distance between the `dh`-shifted points (what `linDistance` compares the observation with) -/
noncomputable def dist3 (frm tgt : Pt ℝ) (fdh tdh : ℝ) : ℝ :=
  Real.sqrt ((@Pt.Xdh ℝ realScalar tgt tdh - @Pt.Xdh ℝ realScalar frm fdh) ^ 2 +
             (@Pt.Ydh ℝ realScalar tgt tdh - @Pt.Ydh ℝ realScalar frm fdh) ^ 2 +
             (@Pt.Zdh ℝ realScalar tgt tdh - @Pt.Zdh ℝ realScalar frm fdh) ^ 2)

theorem linDistance_rhs (frm tgt : Pt ℝ) (obs fdh tdh tol : ℝ) :
    (@linDistance ℝ realScalar frm tgt obs fdh tdh tol).rhs = [(obs - dist3 frm tgt fdh tdh) * 1000] := by
  simp [linDistance, dist3, linScale_real, sq, Pt.Xdh, Pt.Ydh, Pt.Zdh, sqrt_real]

/-- distance between the points moved by `t·ξ` (no instrument / target heights) -/
noncomputable def distAlong (frm tgt : Pt ℝ) (ξ : ℕ → ℝ) (t : ℝ) : ℝ :=
  Real.sqrt (((tgt.X + t * (dispXYZ tgt ξ).1) - (frm.X + t * (dispXYZ frm ξ).1)) ^ 2 +
             ((tgt.Y + t * (dispXYZ tgt ξ).2.1) - (frm.Y + t * (dispXYZ frm ξ).2.1)) ^ 2 +
             ((tgt.Z + t * (dispXYZ tgt ξ).2.2) - (frm.Z + t * (dispXYZ frm ξ).2.2)) ^ 2)

/-- the row `linDistance` produces -/
noncomputable def distRow (frm tgt : Pt ℝ) : Row ℝ :=
  let D := Real.sqrt ((tgt.X - frm.X) * (tgt.X - frm.X) + (tgt.Y - frm.Y) * (tgt.Y - frm.Y) +
    (tgt.Z - frm.Z) * (tgt.Z - frm.Z))
  @pointTriple ℝ realScalar frm (-((tgt.X - frm.X) / D)) (-((tgt.Y - frm.Y) / D)) (-((tgt.Z - frm.Z) / D)) ++
  @pointTriple ℝ realScalar tgt ((tgt.X - frm.X) / D) ((tgt.Y - frm.Y) / D) ((tgt.Z - frm.Z) / D)

theorem linDistance_rows (frm tgt : Pt ℝ) (obs fdh tdh tol : ℝ)
    (hne : (tgt.X - frm.X) ^ 2 + (tgt.Y - frm.Y) ^ 2 + (tgt.Z - frm.Z) ^ 2 ≠ 0) :
    (@linDistance ℝ realScalar frm tgt obs fdh tdh tol).rows = [distRow frm tgt] := by
  have hq : 0 < (tgt.X - frm.X) * (tgt.X - frm.X) + (tgt.Y - frm.Y) * (tgt.Y - frm.Y) +
      (tgt.Z - frm.Z) * (tgt.Z - frm.Z) := by
    have : 0 ≤ (tgt.X - frm.X) ^ 2 + (tgt.Y - frm.Y) ^ 2 + (tgt.Z - frm.Z) ^ 2 := by positivity
    have h2 := lt_of_le_of_ne this (Ne.symm hne)
    nlinarith [h2]
  have hD0 : Real.sqrt ((tgt.X - frm.X) * (tgt.X - frm.X) + (tgt.Y - frm.Y) * (tgt.Y - frm.Y) +
      (tgt.Z - frm.Z) * (tgt.Z - frm.Z)) ≠ 0 := ne_of_gt (Real.sqrt_pos.mpr hq)
  have hb : (@Scalar.beq ℝ realScalar (@Scalar.sqrt ℝ realScalar
      ((tgt.X - frm.X) * (tgt.X - frm.X) + (tgt.Y - frm.Y) * (tgt.Y - frm.Y) + (tgt.Z - frm.Z) * (tgt.Z - frm.Z))) 0) = false := by
    show @decide _ (Classical.propDecidable _) = false
    simp [hD0, sqrt_real]
  simp only [linDistance, hb]
  rfl

/-- the distance row is the gradient of the spatial distance in the n-e-u unknowns:
    directional derivative along any displacement `ξ` -/
theorem distRow_hasDerivAt (frm tgt : Pt ℝ) (ξ : ℕ → ℝ)
    (hne : (tgt.X - frm.X) ^ 2 + (tgt.Y - frm.Y) ^ 2 + (tgt.Z - frm.Z) ^ 2 ≠ 0) :
    HasDerivAt (distAlong frm tgt ξ) (@rowDot ℝ realScalar (distRow frm tgt) ξ) 0 := by
  have hq : 0 < (tgt.X - frm.X) ^ 2 + (tgt.Y - frm.Y) ^ 2 + (tgt.Z - frm.Z) ^ 2 :=
    lt_of_le_of_ne (by positivity) (Ne.symm hne)
  have hsq : (tgt.X - frm.X) * (tgt.X - frm.X) + (tgt.Y - frm.Y) * (tgt.Y - frm.Y) +
      (tgt.Z - frm.Z) * (tgt.Z - frm.Z) = (tgt.X - frm.X) ^ 2 + (tgt.Y - frm.Y) ^ 2 + (tgt.Z - frm.Z) ^ 2 := by ring
  have hD0 : Real.sqrt ((tgt.X - frm.X) ^ 2 + (tgt.Y - frm.Y) ^ 2 + (tgt.Z - frm.Z) ^ 2) ≠ 0 :=
    ne_of_gt (Real.sqrt_pos.mpr hq)
  have hin : HasDerivAt (fun t : ℝ =>
      ((tgt.X + t * (dispXYZ tgt ξ).1) - (frm.X + t * (dispXYZ frm ξ).1)) ^ 2 +
      ((tgt.Y + t * (dispXYZ tgt ξ).2.1) - (frm.Y + t * (dispXYZ frm ξ).2.1)) ^ 2 +
      ((tgt.Z + t * (dispXYZ tgt ξ).2.2) - (frm.Z + t * (dispXYZ frm ξ).2.2)) ^ 2)
      (2 * ((tgt.X - frm.X) * ((dispXYZ tgt ξ).1 - (dispXYZ frm ξ).1) +
            (tgt.Y - frm.Y) * ((dispXYZ tgt ξ).2.1 - (dispXYZ frm ξ).2.1) +
            (tgt.Z - frm.Z) * ((dispXYZ tgt ξ).2.2 - (dispXYZ frm ξ).2.2))) 0 := by
    have h1 : ∀ (a b u v : ℝ), HasDerivAt (fun t : ℝ => ((a + t * u) - (b + t * v)) ^ 2)
        (2 * (a - b) * (u - v)) 0 := by
      intro a b u v
      have hlin : HasDerivAt (fun t : ℝ => (a + t * u) - (b + t * v)) (u - v) 0 := by
        have h := HasDerivAt.fun_sub
          (HasDerivAt.const_add a (HasDerivAt.mul_const (hasDerivAt_id' (0:ℝ)) u))
          (HasDerivAt.const_add b (HasDerivAt.mul_const (hasDerivAt_id' (0:ℝ)) v))
        simpa using h
      have h2 := HasDerivAt.fun_pow hlin 2
      simpa using h2
    have h3 := HasDerivAt.fun_add (HasDerivAt.fun_add (h1 tgt.X frm.X (dispXYZ tgt ξ).1 (dispXYZ frm ξ).1)
      (h1 tgt.Y frm.Y (dispXYZ tgt ξ).2.1 (dispXYZ frm ξ).2.1))
      (h1 tgt.Z frm.Z (dispXYZ tgt ξ).2.2 (dispXYZ frm ξ).2.2)
    have e : (2 * ((tgt.X - frm.X) * ((dispXYZ tgt ξ).1 - (dispXYZ frm ξ).1) +
            (tgt.Y - frm.Y) * ((dispXYZ tgt ξ).2.1 - (dispXYZ frm ξ).2.1) +
            (tgt.Z - frm.Z) * ((dispXYZ tgt ξ).2.2 - (dispXYZ frm ξ).2.2))) =
        2 * (tgt.X - frm.X) * ((dispXYZ tgt ξ).1 - (dispXYZ frm ξ).1) +
          2 * (tgt.Y - frm.Y) * ((dispXYZ tgt ξ).2.1 - (dispXYZ frm ξ).2.1) +
          2 * (tgt.Z - frm.Z) * ((dispXYZ tgt ξ).2.2 - (dispXYZ frm ξ).2.2) := by ring
    rw [e]
    exact h3
  have hs := hin.sqrt (by simpa using hne)
  unfold distAlong
  convert hs using 1
  simp only [distRow, rowDot_append, pointTriple_dot, mul_zero, zero_mul, add_zero, hsq]
  field_simp
  ring

end Neu
end Gama
