/-
  C19 helper lemmas: the NEU frame of `g3::Point` over ℝ.
-/
import Gama.Model.Neu
import Mathlib.Analysis.SpecialFunctions.Trigonometric.Basic
import Mathlib.Analysis.SpecialFunctions.Sqrt
import Mathlib.LinearAlgebra.Matrix.Determinant.Basic
import Mathlib.LinearAlgebra.Matrix.Notation
import Mathlib.Tactic.Ring
import Mathlib.Tactic.LinearCombination
import Mathlib.Tactic.FinCases

namespace Gama
namespace Neu

/-- ℝ as a `Scalar` (the model's operations are the field's; `sqrt` is `Real.sqrt`).
    Deliberately *not* an instance: it is passed explicitly so that Mathlib's own
    instances on ℝ stay the only ones found by elaboration. -/
@[reducible] noncomputable def realScalar : Scalar ℝ where
  sqrt := Real.sqrt
  ofNat := fun n => (n : ℝ)
  ofSci := fun m s e => (OfScientific.ofScientific m s e : ℝ)
  decLt := fun a b => Classical.propDecidable (a < b)
  decLe := fun a b => Classical.propDecidable (a ≤ b)
  beq := fun a b => @decide (a = b) (Classical.propDecidable _)
  abs := fun x => |x|

@[reducible] noncomputable def realSinCos : SinCos ℝ :=
  { realScalar with sin := Real.sin, cos := Real.cos }

/-- the frame of a point at latitude `b`, longitude `l`, over ℝ -/
noncomputable def frame (b l : ℝ) : Rot ℝ := @transformationMatrix ℝ realSinCos b l

/-- a `Rot` as a Mathlib matrix (row i, column j = `r_ij`) -/
def Rot.toMatrix {K : Type} (R : Rot K) : Matrix (Fin 3) (Fin 3) K :=
  !![R.r11, R.r12, R.r13; R.r21, R.r22, R.r23; R.r31, R.r32, R.r33]

theorem frame_eq (b l : ℝ) : frame b l =
    { r11 := -Real.sin b * Real.cos l, r12 := -Real.sin l, r13 := Real.cos b * Real.cos l,
      r21 := -Real.sin b * Real.sin l, r22 := Real.cos l,  r23 := Real.cos b * Real.sin l,
      r31 := Real.cos b,               r32 := 0,           r33 := Real.sin b } := rfl

/-- orthogonality entry by entry -/
structure Orthonormal (R : Rot ℝ) : Prop where
  c11 : R.r11 * R.r11 + R.r21 * R.r21 + R.r31 * R.r31 = 1
  c22 : R.r12 * R.r12 + R.r22 * R.r22 + R.r32 * R.r32 = 1
  c33 : R.r13 * R.r13 + R.r23 * R.r23 + R.r33 * R.r33 = 1
  c12 : R.r11 * R.r12 + R.r21 * R.r22 + R.r31 * R.r32 = 0
  c13 : R.r11 * R.r13 + R.r21 * R.r23 + R.r31 * R.r33 = 0
  c23 : R.r12 * R.r13 + R.r22 * R.r23 + R.r32 * R.r33 = 0

theorem frame_orthonormal (b l : ℝ) : Orthonormal (frame b l) := by
  have hb := Real.sin_sq_add_cos_sq b
  have hl := Real.sin_sq_add_cos_sq l
  rw [frame_eq]
  constructor <;> dsimp only
  · linear_combination (Real.sin b) ^ 2 * hl + hb
  · linear_combination hl
  · linear_combination (Real.cos b) ^ 2 * hl + hb
  · ring
  · linear_combination (-(Real.sin b * Real.cos b)) * hl
  · ring

open Matrix in
theorem toMatrix_transpose_mul_self {R : Rot ℝ} (h : Orthonormal R) :
    R.toMatrixᵀ * R.toMatrix = 1 := by
  obtain ⟨c11, c22, c33, c12, c13, c23⟩ := h
  ext i j
  fin_cases i <;> fin_cases j <;>
    simp [Rot.toMatrix, Matrix.mul_apply, Fin.sum_univ_three, Matrix.one_apply] <;>
    first
      | linear_combination c11 | linear_combination c22 | linear_combination c33
      | linear_combination c12 | linear_combination c13 | linear_combination c23

/-- north × east = down: the (north, east, up) frame is left-handed, the determinant is −1 -/
theorem frame_det (b l : ℝ) : (frame b l).toMatrix.det = -1 := by
  have hb := Real.sin_sq_add_cos_sq b
  have hl := Real.sin_sq_add_cos_sq l
  rw [frame_eq, Rot.toMatrix, Matrix.det_fin_three]
  simp
  linear_combination (-((Real.sin b) ^ 2 + (Real.cos b) ^ 2)) * hl - hb

end Neu
end Gama
