/-
  `pinv(A)` of pinv.h END TO END: `SVD svd(A); svd.decompose();` then `W_inv` by `lindep` and
  `V · diag(W_inv) · Uᵀ` — the model composes the statement-by-statement model of `SVD::svd`
  (`Svd.decompose`, Model/Ls/Svd/Decomp.lean) with the model of the loops of `pinv` (`pinvFrom`,
  Model/SymChol.lean); the factors are never an input, no certificate is evaluated.
-/
import Gama.Lemmas.PinvSvdDecomp
namespace Gama.MatVec
open Gama Gama.LS Gama.Ls Matrix

section
variable {K : Type} [Field K] [LinearOrder K] [IsStrictOrderedRing K]

/-- `Mat pinv(const Mat& A)`: `NoConvergence` (and the other throws of `SVD::svd`) propagate; otherwise the
    `N × M` row-major result computed from the factors the decomposition left in the `SVD` object -/
def pinvOf (sq : K → K) (M N : Nat) (tol : K) (A : DMat K) : Except ErrKind (Nat → K) :=
  match @Svd.decompose K (Gama.LS.fieldScalar sq) M N A with
  | .error e => .error e
  | .ok d => .ok (@pinvFrom K (fieldScalar K sq) M N tol (flatM N d.U) (flatV d.W) (flatM N d.V))

/-- the singular values `pinvOf` works with (what `svd.SVD_W()` holds after the same run) -/
def pinvOfW (sq : K → K) (M N : Nat) (A : DMat K) : Nat → K :=
  match @Svd.decompose K (Gama.LS.fieldScalar sq) M N A with
  | .error _ => fun _ => 0
  | .ok d => flatV d.W

/-- **whenever `pinv(A)` returns, it is the Moore–Penrose pseudo-inverse** — provided the singular values
    the run computed are unambiguous w.r.t. the tolerance (every dropped one an exact zero) -/
theorem pinvOf_moore_penrose (sq : K → K) (hsq : ∀ x : K, 0 ≤ x → sq x * sq x = x)
    (hsq0 : ∀ x : K, 0 ≤ x → 0 ≤ sq x) (M N : Nat) (tol : K) (A : DMat K) (X : Nat → K)
    (hX : pinvOf sq M N tol A = .ok X)
    (h0 : ∀ k : Fin N, @pinvWinv K (fieldScalar K sq) N tol (pinvOfW sq M N A) k.val = 0 → pinvOfW sq M N A k.val = 0) :
    let 𝔸 : Matrix (Fin M) (Fin N) K := toMatrix M N A
    let 𝕏 : Matrix (Fin N) (Fin M) K := rowMajor N M X
    𝔸 * 𝕏 * 𝔸 = 𝔸 ∧ 𝕏 * 𝔸 * 𝕏 = 𝕏 ∧ (𝔸 * 𝕏)ᵀ = 𝔸 * 𝕏 ∧ (𝕏 * 𝔸)ᵀ = 𝕏 * 𝔸 := by
  unfold pinvOf at hX
  unfold pinvOfW at h0
  cases hd : @Svd.decompose K (Gama.LS.fieldScalar sq) M N A with
  | error e => rw [hd] at hX; cases hX
  | ok d =>
    rw [hd] at hX h0
    simp only [Except.ok.injEq] at hX
    subst hX
    exact pinv_moore_penrose_decompose sq hsq hsq0 M N tol A d hd h0

/-- `pinv` returns exactly when the decomposition does (its own loops cannot throw) -/
theorem pinvOf_ok_iff (sq : K → K) (M N : Nat) (tol : K) (A : DMat K) :
    (∃ X, pinvOf sq M N tol A = .ok X) ↔ ∃ d, @Svd.decompose K (Gama.LS.fieldScalar sq) M N A = .ok d := by
  unfold pinvOf
  cases @Svd.decompose K (Gama.LS.fieldScalar sq) M N A with
  | error e => simp
  | ok d => simp

end
end Gama.MatVec
