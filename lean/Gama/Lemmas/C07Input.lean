/-
  C07 — the input conversions of `Gama/Model/Input.lean` over ℝ: sexagesimal value, the
  `1.0/0.324` rescaling of variances, radians, consistency of axes/angles, mirroring.
-/
import Gama.Lemmas.LinReal
import Gama.Lemmas.C07LS
import Gama.Model.Input
namespace Gama.Input
open Gama Gama.Lin Real

theorem ofInt_real (i : ℤ) : (Scalar.ofInt i : ℝ) = (i : ℝ) := by
  unfold Scalar.ofInt
  split_ifs with h
  · rw [ofNat_real, Nat.cast_natAbs, abs_of_neg h]; push_cast; ring
  · rw [ofNat_real, Nat.cast_natAbs, abs_of_nonneg (not_lt.mp h)]

/-- sign of a sexagesimal reading -/
def dmsSign (negative : Bool) : ℝ := if negative then -1 else 1

/-- the seconds `mantissa · 10^exp` of the shared model, over ℝ -/
theorem sciToK_real (p : Nat × Int) : (Angles.sciToK p : ℝ) = (p.1 : ℝ) * (10 : ℝ) ^ p.2 := by
  unfold Angles.sciToK
  split_ifs with h
  · rw [ofSci_real]; simp only [if_true]
    have : p.2 = -((p.2.natAbs : ℕ) : ℤ) := by omega
    conv_rhs => rw [this, zpow_neg, zpow_natCast]
    rw [div_eq_mul_inv]
  · rw [ofSci_real]; simp only [Bool.false_eq_true, if_false]
    have : p.2 = ((p.2.natAbs : ℕ) : ℤ) := by omega
    conv_rhs => rw [this, zpow_natCast]

/-- **the shared model of `deg2gon` over ℝ**: every string it accepts (sign, degrees, minutes and
    seconds as parsed by `Angles.parseDms`) denotes `±(d + m/60 + s/3600)·10/9` gon -/
theorem deg2gon_real (str : String) (neg : Bool) (d m : ℤ) (s : Nat × Int)
    (hp : Angles.parseDms str = some (neg, d, m, s)) :
    (Angles.deg2gon str : Option ℝ) =
      some (dmsSign neg * (((d : ℝ) + (m : ℝ) / 60 + Angles.sciToK s / 3600) * (10 / 9))) := by
  unfold Angles.deg2gon
  rw [hp]
  simp only [Option.map_some, ofInt_real, ofNat_real, Option.some.injEq]
  set G : ℝ := ((d : ℝ) / (360 : ℕ) + (m : ℝ) / (21600 : ℕ) + Angles.sciToK s / (1296000 : ℕ)) * (400 : ℕ) with hG
  have hGe : G = ((d : ℝ) + (m : ℝ) / 60 + Angles.sciToK s / 3600) * (10 / 9) := by
    rw [hG]; push_cast; ring
  by_cases h0 : G = 0
  · have hb : Scalar.beq G 0 = true := (beq_real _ _).2 h0
    rw [← hGe, h0]; simp [hb]
  · have hb : Scalar.beq G 0 = false := by
      cases hb : Scalar.beq G 0
      · rfl
      · exact absurd ((beq_real _ _).1 hb) h0
    rw [← hGe]
    cases neg <;> simp [hb, dmsSign]

/-- what the parser stores for an accepted sexagesimal attribute: the shared model's value,
    flagged as degrees -/
theorem angularValue_deg (str : String) (g : ℝ) (h : (Angles.deg2gon str : Option ℝ) = some g) :
    (angularValue str : Option (ℝ × Bool)) = some (g, true) := by
  unfold angularValue; rw [h]

/-- `1.0/0.324` is exactly the number of cc in one second of arc: 400·10⁴ / (360·3600) -/
theorem secScale_real : (secScale : ℝ) = (400 * 10 ^ 4) / (360 * 3600) := by
  unfold secScale
  simp only [ofSci_real, if_true]
  norm_num

theorem literal_0324 : (0.324 : ℝ) = (360 * 3600) / (400 * 10 ^ 4) := by norm_num

/-- a standard deviation σ (cc) written as 0.324·σ seconds next to a sexagesimal value gives the
    same variance as σ written next to a centesimal value -/
theorem variance_deg (σ : ℝ) : variance (0.324 * σ) true = variance σ false := by
  unfold variance
  simp only [if_true, Bool.false_eq_true, if_false, secScale_real]
  ring

/-- `dm*G2R` is `dm·π/200` -/
theorem toRadians_real (g : ℝ) : toRadians g = g * π / 200 := by
  unfold toRadians
  simp only [pi_real, ofSci_real, if_true]
  norm_num

/-! ### axes and angles -/

/-- the consistent combinations are exactly: left-handed axes (ne, sw, es, wn) with left-handed
    angles, right-handed axes (en, nw, se, ws) with right-handed angles -/
theorem consistent_iff (cs : CS) (lh : Bool) :
    consistent cs lh = true ↔ (lh = true ∧ (cs = .NE ∨ cs = .SW ∨ cs = .ES ∨ cs = .WN)) ∨
                              (lh = false ∧ (cs = .EN ∨ cs = .NW ∨ cs = .SE ∨ cs = .WS)) := by
  cases cs <;> cases lh <;> simp [consistent, leftHandedCoords, CS.ord]

theorem handedness_exclusive (cs : CS) : rightHandedCoords cs = !leftHandedCoords cs := by
  cases cs <;> rfl

theorem ySign_sq (cs : CS) (lh : Bool) : (ySign cs lh : ℝ) * ySign cs lh = 1 := by
  unfold ySign; split <;> simp

/-! ### removing and restoring the inconsistency -/

theorem mirrored_flip (o : NetObs ℝ) :
    (if o.mirrored then ({ o with value := -o.value } : NetObs ℝ) else o).mirrored = o.mirrored := by
  by_cases h : o.mirrored = true <;> simp [h, NetObs.mirrored] at * <;> simp [h]

theorem mirroredAt_flip (obs : List (NetObs ℝ)) (r : Nat) :
    mirroredAt (obs.map fun o => if o.mirrored then { o with value := -o.value } else o) r = mirroredAt obs r := by
  unfold mirroredAt
  rw [List.getElem?_map]
  cases h : obs[r]? with
  | none => rfl
  | some o => simp only [Option.map_some]; exact mirrored_flip o

theorem flipCluster_involutive (c : NetCluster ℝ) : flipCluster (flipCluster c) = c := by
  cases c with
  | mk obs dim cov =>
    simp only [flipCluster, NetCluster.mk.injEq, List.map_map, true_and]
    constructor
    · conv_rhs => rw [← List.map_id obs]
      apply List.map_congr_left
      intro o _
      cases o with
      | mk k v =>
        by_cases hk : (NetObs.mk k v).mirrored = true
        · have := mirrored_flip ⟨k, v⟩
          simp only [hk, if_true] at this
          simp [hk, this]
        · simp [hk]
    · funext r s
      unfold flipCov
      simp only [List.length_map, mirroredAt_flip]
      split <;> simp

theorem changeYSigns_involutive (n : Net ℝ) : changeYSigns (changeYSigns n) = n := by
  cases n with
  | mk cs lh rem pts cls =>
    simp only [changeYSigns, Net.mk.injEq, true_and, List.map_map]
    constructor
    · conv_rhs => rw [← List.map_id pts]
      apply List.map_congr_left
      intro p _
      cases p with
      | mk h x y z => cases h <;> simp
    · conv_rhs => rw [← List.map_id cls]
      apply List.map_congr_left
      intro c _
      exact flipCluster_involutive c

theorem removeInconsistency_idem (n : Net ℝ) :
    removeInconsistency (removeInconsistency n) = removeInconsistency n := by
  unfold removeInconsistency
  by_cases hc : consistent n.cs n.leftHandedAngles = true
  · simp [hc]
  · by_cases hr : n.removed = true
    · simp [hc, hr]
    · simp [hc, hr, changeYSigns]

theorem return_remove (n : Net ℝ) (h : n.removed = false) :
    returnInconsistency (removeInconsistency n) = n := by
  unfold removeInconsistency returnInconsistency
  by_cases hc : consistent n.cs n.leftHandedAngles = true
  · simp [hc, h]
  · simp only [hc, h, Bool.false_eq_true, if_false]
    have := changeYSigns_involutive n
    cases n with
    | mk cs lh rem pts cls =>
      simp only at h; subst h
      simp only [changeYSigns, Bool.not_true, Bool.false_eq_true, if_false, Net.mk.injEq, true_and] at this ⊢
      exact this

/-- exactly which quantities `remove_inconsistency` changes: y of points with xy, the values of
    `Y` and `Ydiff`, and the covariances between a mirrored and a not mirrored component; every
    other observed value and every x and z is kept -/
theorem changeYSigns_spec (n : Net ℝ) :
    (changeYSigns n).points = n.points.map (fun p => if p.hasXY then { p with y := -p.y } else p) ∧
    (changeYSigns n).clusters = n.clusters.map (fun c =>
      { obs := c.obs.map (fun o => if o.kind = .y ∨ o.kind = .ydiff then { o with value := -o.value } else o)
        dim := c.dim
        cov := fun r s => if r < c.dim ∧ s < c.dim ∧ r < c.obs.length ∧ s < c.obs.length ∧
                             mirroredAt c.obs r ≠ mirroredAt c.obs s then -(c.cov r s) else c.cov r s }) := by
  constructor
  · rfl
  · simp only [changeYSigns]
    apply List.map_congr_left
    intro c _
    simp only [flipCluster, NetCluster.mk.injEq, true_and]
    constructor
    · apply List.map_congr_left
      intro o _
      by_cases h1 : o.kind = .y <;> by_cases h2 : o.kind = .ydiff <;> simp [NetObs.mirrored, h1, h2]
    · funext r s
      unfold flipCov
      by_cases h : r < c.dim ∧ s < c.dim ∧ r < c.obs.length ∧ s < c.obs.length ∧ mirroredAt c.obs r ≠ mirroredAt c.obs s
      · obtain ⟨a, b, d, e, f⟩ := h
        simp [a, b, d, e, f]
      · rw [if_neg h]
        split
        · rename_i hh
          simp only [Bool.and_eq_true, decide_eq_true_eq, bne_iff_ne, ne_eq] at hh
          exact absurd ⟨hh.1.1.1.1, hh.1.1.1.2, hh.1.1.2, hh.1.2, hh.2⟩ h
        · rfl

/-! ### the covariance of a mirrored cluster is the conjugated covariance -/

open Matrix in
/-- sign of the component at position `i` -/
def sgnAt (obs : List (NetObs ℝ)) (i : Nat) : ℝ := if mirroredAt obs i then -1 else 1

theorem sgnAt_sq (obs : List (NetObs ℝ)) (i : Nat) : sgnAt obs i * sgnAt obs i = 1 := by
  unfold sgnAt; split <;> norm_num

open Matrix in
/-- the modelled normalisation (fixed code) conjugates the covariance matrix of a cluster whose
    matrix has one row per observation: `C' = D_s C D_s`, `s = -1` on `Y`/`Ydiff` -/
theorem flipCov_conj (obs : List (NetObs ℝ)) (d : Nat) (hd : d ≤ obs.length) (C : Nat → Nat → ℝ) :
    (Matrix.of fun i j : Fin d => flipCov obs d C i j) =
      diagonal (fun i : Fin d => sgnAt obs i) * (Matrix.of fun i j : Fin d => C i j) *
        diagonal (fun i : Fin d => sgnAt obs i) := by
  ext i j
  rw [Matrix.mul_diagonal, Matrix.diagonal_mul]
  simp only [Matrix.of_apply, flipCov, sgnAt]
  have hi : (i : Nat) < d := i.2
  have hj : (j : Nat) < d := j.2
  have hi' : (i : Nat) < obs.length := lt_of_lt_of_le hi hd
  have hj' : (j : Nat) < obs.length := lt_of_lt_of_le hj hd
  cases h1 : mirroredAt obs i <;> cases h2 : mirroredAt obs j <;> simp [hi, hj, hi', hj']

open Matrix in
/-- hence the weight matrix is conjugated too: `C P = 1 → (D C D)(D P D) = 1` -/
theorem conj_inverse {d : Nat} (s : Fin d → ℝ) (hs : ∀ i, s i * s i = 1) (C P : Matrix (Fin d) (Fin d) ℝ)
    (h : C * P = 1) : (diagonal s * C * diagonal s) * (diagonal s * P * diagonal s) = 1 := by
  have hD := LS.diag_sq s hs
  calc diagonal s * C * diagonal s * (diagonal s * P * diagonal s)
      = diagonal s * C * (diagonal s * diagonal s) * P * diagonal s := by simp only [Matrix.mul_assoc]
    _ = diagonal s * (C * P) * diagonal s := by rw [hD, Matrix.mul_one]; simp only [Matrix.mul_assoc]
    _ = 1 := by rw [h, Matrix.mul_one, hD]

end Gama.Input
