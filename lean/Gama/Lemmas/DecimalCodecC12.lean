/-
  C12 — the number format of the records of the adjustment XML instantiated with the real stream formats
  (`Fmt.fixed p` for coordinates / observations, `Fmt.sci p` for `<flt>`, standard deviations …, `Fmt.gen p`), and the
  data of the non-vacuity examples of Props/C12Codec.lean (over ℚ).
-/
import Gama.Lemmas.XmlRecords
import Gama.Lemmas.DecimalCodecSig
namespace Gama.XmlRec
open Gama.ReaderPoint Gama.Dec

/-- `out.setf(floatfield …); out.precision(p); out << x` on the way out, `IsFloat` + exact value on the way in -/
def realNum (m : RMode) (f : Fmt) : Num ℚ := ⟨f.print m, rdDecimal⟩

theorem realNum_law (m : RMode) (f : Fmt) (x : ℚ) : (realNum m f).rd ((realNum m f).fmt x) = some (f.q m x) :=
  rd_print m f x

/-- y not mirrored; corrections `X(k) = k/3` mm; numbers with more digits than any precision -/
def qFrame : Frame ℚ := ⟨1, fun k => (k : ℚ) / 3, 200 / 3, 1, 3⟩

/-- a fixed 3D point, a free 3D point (1.23456789, 0.99996), a constrained plane point, a free height point with a
    tiny negative height, an unused point -/
def qPoints : List (LPoint ℚ) :=
  [⟨"F", true, true, 0, 0, 0, false, false, 1001 / 7, 2002 / 7, 3003 / 7⟩,
   ⟨"A", true, true, 1, 2, 3, false, false, 123456789 / 100000000, 99996 / 100000, -1 / 3⟩,
   ⟨"B x", true, false, 4, 5, 0, true, false, 4004, 5005 / 1000, 0⟩,
   ⟨"C", false, true, 0, 0, 6, false, false, 0, 0, -1 / 100000⟩,
   ⟨"U", false, false, 0, 0, 0, false, false, 7, 7, 7⟩]

theorem qPoints_trimmed : ∀ p ∈ qPoints, Trimmed p.id := by
  intro p hp
  simp only [qPoints, List.mem_cons, List.not_mem_nil, or_false] at hp
  rcases hp with rfl | rfl | rfl | rfl | rfl <;> exact ⟨by decide, by decide⟩

def qOris : List (LOri ℚ) := [⟨"A", 7, 1 / 7⟩, ⟨"B x", 8, -2 / 3⟩]

theorem qOris_trimmed : ∀ o ∈ qOris, Trimmed o.id := by
  intro o ho
  simp only [qOris, List.mem_cons, List.not_mem_nil, or_false] at ho
  rcases ho with rfl | rfl <;> exact ⟨by decide, by decide⟩

def qObs : LObs ℚ := ⟨.dy, "A", "B x", "", "", 12345 / 1000, 2 / 3, 7 / 10, 1, 9 / 7, 4, 2, true⟩

end Gama.XmlRec
