/-
  C04 (audit #3, "Missing, by value 2", svd part) — the region in which an `AdjSVD` object REALLY differs from a fresh
  one with the same configuration, as theorems (it was one `example` in Props/C04Full.lean).

  How the region is entered: `AdjSVD::min_x(n, list)` is `svd.min_x(n, list); is_solved = false;`.  On a decomposed
  singular system `SVD::min_x(n, list)` re-regularises at once (`min_subset_x()`), and when the new list does not
  resolve the defect it throws from inside — BEFORE `is_solved = false` is reached.  The object keeps
  `is_solved = true`, `decomposed = true` with the new list configured; `x`, `r` are those of the OLD regularisation.
  (Unlike chol/gso the refusal is delivered by the `min_x` call, not by a query.)

  What differs, per query (all of it under `RefusesS`: the current problem is singular, `minx == subset` and the
  stored list does not resolve the defect — a fresh object refuses EVERY query then, `sfresh_refused_iff`):
    * `unknowns`, `residuals`, `sumsq` (`Op.ReadsX`): `if (!is_solved) solve(); return x;` — differ iff `is_solved`;
    * `defect`, `lindep` (`Op.OnlyDecomposes`): `svd.nullity()` / `svd.lindep(i)` decompose, do not solve — differ
      iff `decomposed` (also when `is_solved = false`: `defect; min_x(bad list); defect` answers, a fresh object refuses);
    * `q_xx`, `q_bb`, `q_bx`: `if (!is_solved) solve(); svd.q_*()` — differ iff `is_solved ∧ decomposed`.
  Along every history `is_solved → decomposed` (`SInvR`, no hypothesis on inputs, lists, outcomes), so
  `PendingS := is_solved ∧ RefusesS` is a region of difference for ALL queries; the larger region `decomposed ∧ RefusesS`
  only for `defect`/`lindep` (`decomposed_step_ne_fresh`), and there the solving queries are exempt: they re-decompose,
  are refused, and so AGREE with the fresh object (`decomposed_unsolved_step_eq_fresh`).
  NOT proved here: the converse for svd (outside these regions every answer equals the fresh one along every history,
  refusals included) — it needs a refusal-inclusive invariant for the ghosts `vprov`/`minV`/`minVok` like `InvR` for
  chol/gso; `svd_history_free_across_inputs` still assumes resolving lists (`ValidS`).

  Core Lean only.
-/
import Gama.Lemmas.FullHist
namespace Gama.C04.Full
open Gama Gama.C04

/-- the regularisation of the current problem with the current svd configuration fails: singular system,
    `minx == subset`, and `min_subset_x()` throws for the stored list -/
def RefusesS (inp : Input) (s : SState) : Prop :=
  0 < inp.nullity ∧ s.sub = true ∧ inp.resolves (s.list.getD []) = false

instance (inp : Input) (s : SState) : Decidable (RefusesS inp s) := by unfold RefusesS; infer_instance

/-- svd analogue of `Pending`: the configuration is refused for the current problem, and `is_solved` is (still) set —
    a `min_x(list)` threw inside `SVD::min_x` before `is_solved = false` -/
def PendingS (inp : Input) (s : SState) : Prop := s.solved = true ∧ RefusesS inp s

instance (inp : Input) (s : SState) : Decidable (PendingS inp s) := by unfold PendingS; infer_instance

/-- refusal-inclusive invariant (holds along EVERY history, `hsrunR`): `is_solved` is only ever set right after a
    decomposition that did not throw, and `decomposed` is only cleared together with `is_solved` or inside `solve()` -/
def SInvR (s : SState) : Prop := s.solved = true → s.decomposed = true

/-- queries that return `x`, `r` or `rᵀr`: `if (!is_solved) solve();` and nothing else -/
def Op.ReadsX : Op → Prop
  | .unknowns => True
  | .residuals => True
  | .sumsq => True
  | _ => False

/-- queries that only decompose (`svd.nullity()`, `svd.lindep(i)`): they never look at `is_solved` -/
def Op.OnlyDecomposes : Op → Prop
  | .defect => True
  | .lindep _ => True
  | _ => False

/-- queries that call `solve()` first -/
def Op.NeedsSolve : Op → Prop
  | .unknowns => True
  | .residuals => True
  | .sumsq => True
  | .qxx _ _ => True
  | .qbb _ _ => True
  | .qbx _ _ => True
  | _ => False

instance (o : Op) : Decidable o.ReadsX := by cases o <;> simp only [Op.ReadsX] <;> infer_instance
instance (o : Op) : Decidable o.OnlyDecomposes := by cases o <;> simp only [Op.OnlyDecomposes] <;> infer_instance
instance (o : Op) : Decidable o.NeedsSolve := by cases o <;> simp only [Op.NeedsSolve] <;> infer_instance

theorem Op.query_cases (q : Op) (hq : q.IsQuery) : q.NeedsSolve ∨ q.OnlyDecomposes := by
  cases q <;> simp [Op.IsQuery, Op.NeedsSolve, Op.OnlyDecomposes] at hq ⊢

/-! ### the fresh object -/

/-- **a fresh svd object refuses a query iff the regularisation of ITS problem with ITS configuration fails** — every
    query, also `defect`/`lindep` (the decomposition itself regularises when `minx == subset`) -/
theorem sfresh_refused_iff (inp : Input) (sub : Bool) (l : Option (List Nat)) (q : Op) (hq : q.IsQuery) :
    sfresh inp sub l q = .badReg ↔ RefusesS inp (sinit sub l) := by
  unfold RefusesS sfresh
  by_cases hn : inp.nullity = 0
  · cases q <;> simp only [Op.IsQuery] at hq <;> simp [sstep, svdSolve, svdDecomp, sinit, hn]
  · have h0 : 0 < inp.nullity := by omega
    cases sub with
    | false => cases q <;> simp only [Op.IsQuery] at hq <;> simp [sstep, svdSolve, svdDecomp, sinit, hn]
    | true =>
      by_cases hr : inp.resolves (l.getD []) = true
      · cases q <;> simp only [Op.IsQuery] at hq <;> simp [sstep, svdSolve, svdDecomp, minSubsetX, sinit, hn, hr]
      · have hr' : inp.resolves (l.getD []) = false := by simpa using hr
        by_cases hl : (l.getD []).length < inp.nullity
        · cases q <;> simp only [Op.IsQuery] at hq <;>
            simp [sstep, svdSolve, svdDecomp, minSubsetX, sinit, hn, hr', hl, h0]
        · cases q <;> simp only [Op.IsQuery] at hq <;>
            simp [sstep, svdSolve, svdDecomp, minSubsetX, sinit, hn, hr', hl, h0]

/-! ### the object -/

/-- a solved object answers the `x`-reading queries without refusing -/
theorem solved_readsX_ne_badReg (inp : Input) (s : SState) (hs : s.solved = true) (q : Op) (hq : q.ReadsX) :
    (sstep inp s q).2 ≠ .badReg := by
  cases q <;> simp only [Op.ReadsX] at hq <;> simp only [sstep, svdSolve, hs, if_true] <;>
    (repeat' split) <;> simp_all

/-- a decomposed object answers `defect`/`lindep` without refusing -/
theorem decomposed_onlyDec_ne_badReg (inp : Input) (s : SState) (hd : s.decomposed = true) (q : Op)
    (hq : q.OnlyDecomposes) : (sstep inp s q).2 ≠ .badReg := by
  cases q <;> simp only [Op.OnlyDecomposes] at hq <;> simp only [sstep, svdDecomp, hd, if_true] <;>
    (repeat' split) <;> simp_all

/-- a solved and decomposed object refuses no query, and a query leaves it as it is -/
theorem solved_decomposed_step (inp : Input) (s : SState) (hs : s.solved = true) (hd : s.decomposed = true) (q : Op)
    (hq : q.IsQuery) : (sstep inp s q).2 ≠ .badReg ∧ (sstep inp s q).1 = s := by
  cases q <;> simp only [Op.IsQuery] at hq <;> simp only [sstep, svdSolve, svdDecomp, hs, hd, if_true] <;>
    (refine ⟨?_, ?_⟩ <;> (repeat' split) <;> simp_all)

/-- **svd: on `PendingS` the object differs from a fresh one on every query** (`SInvR` holds along every history) -/
theorem pendingS_step_ne_fresh (inp : Input) (s : SState) (hi : SInvR s) (hp : PendingS inp s) (q : Op)
    (hq : q.IsQuery) : (sstep inp s q).2 ≠ sfresh inp s.sub s.list q := by
  have hf : sfresh inp s.sub s.list q = .badReg := (sfresh_refused_iff inp s.sub s.list q hq).2 hp.2
  rw [hf]
  exact (solved_decomposed_step inp s hp.1 (hi hp.1) q hq).1

/-- without the invariant: the `x`-reading queries differ on `PendingS` whatever `decomposed` is -/
theorem pendingS_readsX_ne_fresh (inp : Input) (s : SState) (hp : PendingS inp s) (q : Op) (hq : q.ReadsX) :
    (sstep inp s q).2 ≠ sfresh inp s.sub s.list q := by
  have hqq : q.IsQuery := by cases q <;> simp_all [Op.ReadsX, Op.IsQuery]
  have hf : sfresh inp s.sub s.list q = .badReg := (sfresh_refused_iff inp s.sub s.list q hqq).2 hp.2
  rw [hf]
  exact solved_readsX_ne_badReg inp s hp.1 q hq

/-- the larger region for `defect`/`lindep`: decomposed with a refused configuration, solved or not -/
theorem decomposed_step_ne_fresh (inp : Input) (s : SState) (hd : s.decomposed = true) (hr : RefusesS inp s) (q : Op)
    (hq : q.OnlyDecomposes) : (sstep inp s q).2 ≠ sfresh inp s.sub s.list q := by
  have hqq : q.IsQuery := by cases q <;> simp_all [Op.OnlyDecomposes, Op.IsQuery]
  have hf : sfresh inp s.sub s.list q = .badReg := (sfresh_refused_iff inp s.sub s.list q hqq).2 hr
  rw [hf]
  exact decomposed_onlyDec_ne_badReg inp s hd q hq

/-- `solve()` of an unsolved object with a refused configuration throws (it re-decomposes: `svd.reset(A)`) -/
theorem svdSolve_unsolved_refused (inp : Input) (s : SState) (hs : s.solved = false) (hr : RefusesS inp s) :
    (svdSolve inp s).2 = true := by
  obtain ⟨h0, hsub, hres⟩ := hr
  have hn : ¬ inp.nullity = 0 := by omega
  simp only [svdSolve, hs, svdDecomp, hn, hsub, minSubsetX, hres]
  simp
  (repeat' split) <;> simp_all

/-- the exemption: in that larger region, when `is_solved = false`, the queries that solve first are refused like a
    fresh object — they AGREE with it -/
theorem decomposed_unsolved_step_eq_fresh (inp : Input) (s : SState) (hs : s.solved = false) (hr : RefusesS inp s)
    (q : Op) (hq : q.NeedsSolve) : (sstep inp s q).2 = sfresh inp s.sub s.list q := by
  have hqq : q.IsQuery := by cases q <;> simp_all [Op.NeedsSolve, Op.IsQuery]
  have hf : sfresh inp s.sub s.list q = .badReg := (sfresh_refused_iff inp s.sub s.list q hqq).2 hr
  rw [hf]
  have ht := svdSolve_unsolved_refused inp s hs hr
  cases q <;> simp only [Op.NeedsSolve] at hq <;> simp [sstep, ht]

/-- `PendingS` is absorbing under queries (until a `min_x…` that does not throw, or a `reset`) -/
theorem pendingS_step_pendingS (inp : Input) (s : SState) (hi : SInvR s) (hp : PendingS inp s) (q : Op)
    (hq : q.IsQuery) : PendingS inp (sstep inp s q).1 := by
  rw [(solved_decomposed_step inp s hp.1 (hi hp.1) q hq).2]; exact hp

/-! ### the invariant along every history -/

theorem svdDecomp_solved (inp : Input) (s : SState) : (svdDecomp inp s).1.solved = s.solved := by
  simp only [svdDecomp, minSubsetX]
  (repeat' split) <;> rfl

theorem svdDecomp_keeps_decomposed (inp : Input) (s : SState) (hd : s.decomposed = true) :
    (svdDecomp inp s).1 = s := by
  simp [svdDecomp, hd]

theorem svdDecomp_decomposed (inp : Input) (s : SState) : (svdDecomp inp s).1.decomposed = true := by
  by_cases hd : s.decomposed = true
  · rw [svdDecomp_keeps_decomposed inp s hd]; exact hd
  · simp only [svdDecomp, minSubsetX]
    (repeat' split) <;> simp_all

theorem svdSolve_unsolved (inp : Input) (s : SState) (hs : s.solved = false) :
    svdSolve inp s =
      if (svdDecomp inp { s with decomposed := false }).2 = true
      then ((svdDecomp inp { s with decomposed := false }).1, true)
      else ({ (svdDecomp inp { s with decomposed := false }).1 with
                solved := true, xprov := (svdDecomp inp { s with decomposed := false }).1.vprov, haveX := true }, false) := by
  simp only [svdSolve, hs, Bool.false_eq_true, if_false]

theorem svdSolve_invR (inp : Input) (s : SState) (hi : SInvR s) : SInvR (svdSolve inp s).1 := by
  by_cases hs : s.solved = true
  · simp only [svdSolve, hs, if_true]; exact hi
  · have hs' : s.solved = false := by simpa using hs
    have hdd := svdDecomp_decomposed inp { s with decomposed := false }
    rw [svdSolve_unsolved inp s hs']
    split
    · exact fun _ => hdd
    · exact fun _ => hdd

theorem svdDecomp_invR (inp : Input) (s : SState) : SInvR (svdDecomp inp s).1 :=
  fun _ => svdDecomp_decomposed inp s

/-- one step keeps `is_solved → decomposed`, whatever the operation and its outcome -/
theorem sstep_invR (inp : Input) (s : SState) (hi : SInvR s) (op : Op) : SInvR (sstep inp s op).1 := by
  have h1 := svdSolve_invR inp s hi
  have h2 := svdDecomp_invR inp (svdSolve inp s).1
  have h3 := svdDecomp_invR inp s
  cases op with
  | unknowns => simp only [sstep]; split <;> exact h1
  | residuals => simp only [sstep]; split <;> exact h1
  | sumsq => simp only [sstep]; split <;> exact h1
  | defect => simp only [sstep]; split <;> exact h3
  | lindep i => simp only [sstep]; split <;> exact h3
  | qxx i j => simp only [sstep]; split; exact h1; split <;> exact h2
  | qbb i j => simp only [sstep]; split; exact h1; split <;> exact h2
  | qbx i j => simp only [sstep]; split; exact h1; split <;> exact h2
  | minxAll => intro h; simp [sstep] at h
  | reset => intro h; simp [sstep] at h
  | minx l =>
    intro h
    simp only [sstep, minSubsetX] at h ⊢
    revert h
    (repeat' split) <;> simp_all [SInvR]

/-- the invariant along ANY history, across inputs — no hypothesis on inputs, lists or outcomes -/
theorem hsrunR (h : HS) (hi : SInvR h.s) (ops : List HOp) : SInvR (hsrun h ops).s := by
  induction ops generalizing h with
  | nil => exact hi
  | cons o ops ih =>
    refine ih (h := (hsstep h o).1) ?_
    cases o with
    | q op => exact sstep_invR h.inp h.s hi op
    | resetNew inp' => intro hh; simp [hsstep, hsstepWith, sreset] at hh

/-- history version, across inputs, throws anywhere in the history: whenever the object is `PendingS`, its answer to
    any query differs from the fresh object's -/
theorem hs_pending_step_ne_fresh (inp0 : Input) (sub : Bool) (l0 : Option (List Nat)) (ops : List HOp) (q : Op) :
    let h := hsrun ⟨inp0, sinit sub l0⟩ ops
    PendingS h.inp h.s → q.IsQuery → (hsstep h (.q q)).2 ≠ sfresh h.inp h.s.sub h.s.list q := by
  intro h hp hq
  have hi := hsrunR ⟨inp0, sinit sub l0⟩ (fun hh => by simp [sinit] at hh) ops
  exact pendingS_step_ne_fresh h.inp h.s hi hp q hq

/-! ### reachability / non-vacuity -/

/-- the history of the example in Props/C04Full.lean (`unknowns`, then `min_x([1])` on a system of defect 2) ends in
    `PendingS`; the old `x` (computed with the plain `V`) is answered where a fresh object refuses; also `defect`
    and `q_xx` answer (from the half-restored `V_`) -/
example :
    let inp : Input := { n := 4, nullity := 2, resolves := fun l => decide (2 ≤ l.length) }
    let h := hsrun ⟨inp, sinit false none⟩ [.q .unknowns, .q (.minx [1])]
    (hsstep (hsrun ⟨inp, sinit false none⟩ [.q .unknowns]) (.q (.minx [1]))).2 = .badReg
    ∧ PendingS h.inp h.s ∧ h.s.decomposed = true
    ∧ (hsstep h (.q .unknowns)).2 = .x .plain ∧ sfresh h.inp h.s.sub h.s.list .unknowns = .badReg
    ∧ (hsstep h (.q .defect)).2 = .defect ∧ sfresh h.inp h.s.sub h.s.list .defect = .badReg
    ∧ (hsstep h (.q (.qxx 1 2))).2 = .qxx 1 2 none .plain ∧ sfresh h.inp h.s.sub h.s.list (.qxx 1 2) = .badReg := by
  refine ⟨by decide, by decide, by decide, by decide, by decide, by decide, by decide, by decide, by decide⟩

/-- a list long enough for `defect ≤ n_min` but with a zero column norm (`resolves` false, length ≥ nullity): `V_` is
    left half-regularised (`.broken`) and `q_xx` reads it -/
example :
    let inp : Input := { n := 4, nullity := 2, resolves := fun l => decide (l = [3, 4]) }
    let h := hsrun ⟨inp, sinit false none⟩ [.q .unknowns, .q (.minx [1, 2])]
    PendingS h.inp h.s ∧ (hsstep h (.q (.qxx 1 2))).2 = .qxx 1 2 none (.broken [1, 2]) := by
  exact ⟨by decide, by decide⟩

/-- the larger region and its exemption: `defect; min_x([1])` — decomposed, NOT solved, configuration refused:
    `defect` answers (differs from fresh), `unknowns` is refused (agrees with fresh) -/
example :
    let inp : Input := { n := 4, nullity := 2, resolves := fun l => decide (2 ≤ l.length) }
    let h := hsrun ⟨inp, sinit false none⟩ [.q .defect, .q (.minx [1])]
    h.s.decomposed = true ∧ h.s.solved = false ∧ RefusesS h.inp h.s ∧ ¬ PendingS h.inp h.s
    ∧ (hsstep h (.q .defect)).2 = .defect ∧ sfresh h.inp h.s.sub h.s.list .defect = .badReg
    ∧ (hsstep h (.q .unknowns)).2 = .badReg ∧ sfresh h.inp h.s.sub h.s.list .unknowns = .badReg := by
  refine ⟨by decide, by decide, by decide, by decide, by decide, by decide, by decide, by decide⟩

/-- `sfresh_refused_iff`, both sides: refused for [1], answered for [1,2] -/
example :
    let inp : Input := { n := 4, nullity := 2, resolves := fun l => decide (2 ≤ l.length) }
    RefusesS inp (sinit true (some [1])) ∧ sfresh inp true (some [1]) .defect = .badReg
    ∧ ¬ RefusesS inp (sinit true (some [1, 2])) ∧ sfresh inp true (some [1, 2]) .defect = .defect := by
  exact ⟨by decide, by decide, by decide, by decide⟩

end Gama.C04.Full
