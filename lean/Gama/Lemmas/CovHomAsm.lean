/-
  `Homogenization::run()`, section "assembling scaled sparse matrix": the gather/scatter bookkeeping of
  ONE block (model `Hom.corrBlock`, `Hom.diagBlock`, `Hom.countBlock` in Model/Homogenization.lean).

  * `blockOcc mat off dim`   the distinct columns of the block in order of first appearance
                             (`countBlock_snd`: what `countBlock` counts);
  * `gatherOf …`             the state after the gather loop (`T.set_zero(); … T(i, perm[c]) += *b++`);
                             `GInv`/`gatherOf_inv` its loop invariant: `T(i, perm[c])` = the SUM of all values stored
                             with `(i, c)`, in storage order, starting from 0 (`sumVal`); `gather_spec` reads `T` as
                             `colOf` (`sumVal_tagged`: that sum IS `denseRow`) — NO no-repeated-column hypothesis;
  * `corrBlock_rows_gen`, `corrBlock_perm_gen`, `diagBlock_rows_gen` over any `[Scalar K]` from the facts
    `0 + a = a`, `beq a 0 ↔ a = 0`, `(a+b)/d = a/d + b/d`, `0/d = 0`;
  * `gather_spec_field`, `corrBlock_rows`, `corrBlock_perm`, `diagBlock_rows`, `countBlock_spec` at
    `fieldScalar K sqrt` (linearly ordered field).
  Hypotheses the C++ silently relies on: `perm` all zero on entry and of size `cols+1`, column indices in
  `1..cols`, `bcols` = number of distinct columns.  (A repeated column index within a sparse row is summed, as on the
  dense path `project_equations()`; before /repo 6d0f7107 the last one won.)
-/
import Gama.Lemmas.CovHomDefs
import Gama.Lemmas.CovField
namespace Gama.Cov
open Hom

attribute [local instance] inhabitedOfScalarH
set_option linter.unusedSectionVars false
set_option linter.style.haveILetI false

/-! ### generic list / array facts -/
section Generic
variable {α β γ : Type}

theorem foldl_flatMap' (l : List α) (f : α → List β) (step : γ → β → γ) (a : γ) :
    (l.flatMap f).foldl step a = l.foldl (fun a i => (f i).foldl step a) a := by
  induction l generalizing a with
  | nil => rfl
  | cons x l ih => simp [List.flatMap_cons, List.foldl_append, ih]

theorem foldl_keep (l : List α) (step : γ → α → γ) (a : γ) (h : ∀ a, ∀ x ∈ l, step a x = a) :
    l.foldl step a = a := by
  induction l generalizing a with
  | nil => rfl
  | cons x l ih =>
    rw [List.foldl_cons, h a x (by simp)]
    exact ih a (fun a y hy => h a y (by simp [hy]))

/-- `l[j-1]` for `j = 1 .. |l|` is `l` -/
theorem map_range'_getD (l : List Nat) :
    (List.range' 1 l.length).map (fun j => l.getD (j - 1) 0) = l := by
  apply List.ext_getElem
  · simp
  · intro i h1 h2
    simp at h1
    simp [List.getD, h1]

theorem getD_setIfInBounds' (x : Array α) (n k : Nat) (a z : α) :
    (x.setIfInBounds n a).getD k z = if k = n ∧ n < x.size then a else x.getD k z := by
  by_cases hk : k < x.size
  · by_cases e : k = n
    · subst e
      simp [Array.getD, hk]
    · have e' : n ≠ k := fun h => e h.symm
      simp [Array.getD, hk, e, e']
  · have : ¬ (k = n ∧ n < x.size) := by rintro ⟨rfl, h⟩; exact hk h
    simp [Array.getD, hk, this]

theorem getD_modify' (x : Array α) (n k : Nat) (f : α → α) (z : α) :
    (x.modify n f).getD k z = if k = n ∧ n < x.size then f (x.getD n z) else x.getD k z := by
  by_cases hk : k < x.size
  · by_cases e : k = n
    · subst e
      simp [Array.getD, hk, Array.getElem_modify]
    · have e' : n ≠ k := fun h => e h.symm
      simp [Array.getD, hk, e, e', Array.getElem_modify]
  · have : ¬ (k = n ∧ n < x.size) := by rintro ⟨rfl, h⟩; exact hk h
    simp [Array.getD, hk, this]

theorem array_ext_getD (a b : Array α) (z : α) (hs : a.size = b.size)
    (h : ∀ r, r < a.size → a.getD r z = b.getD r z) : a = b := by
  apply Array.ext hs
  intro i h1 h2
  have := h i h1
  simpa [Array.getD, h1, h2] using this

end Generic

/-! ### 4. the uncorrelated block -/
section Diag
variable {K : Type} [Scalar K]

theorem diagBlock_length (mat : SMat K) (nonz : Array K) (begin_ off dim : Nat) :
    (Hom.diagBlock mat nonz begin_ off dim).length = dim := by
  simp [Hom.diagBlock]

theorem diagBlock_getD (mat : SMat K) (nonz : Array K) (begin_ off dim i : Nat) (h1 : 1 ≤ i) (h2 : i ≤ dim) :
    (Hom.diagBlock mat nonz begin_ off dim).getD (i - 1) [] =
      (mat.rowEntries (off + i)).map fun e => (e.1, e.2 / nonz.getD (begin_ + (i - 1)) 0) := by
  have h : i - 1 < dim := by omega
  have e : 1 + (i - 1) = i := by omega
  simp [Hom.diagBlock, List.getD, h, e]

/-- dense reading of a row divided entry by entry, from the two facts about `/` that are used -/
theorem denseRow_map_div (hadd : ∀ a b d : K, (a + b) / d = a / d + b / d) (h0 : ∀ d : K, (0 : K) / d = 0)
    (row : List (Nat × K)) (d : K) (c : Nat) :
    denseRow (row.map fun e => (e.1, e.2 / d)) c = denseRow row c / d := by
  unfold denseRow
  have key : ∀ (l : List (Nat × K)) (acc : K),
      ((l.map fun e => (e.1, e.2 / d)).filter (fun e => e.1 == c)).foldl (fun acc e => acc + e.2) (acc / d) =
        ((l.filter (fun e => e.1 == c)).foldl (fun acc e => acc + e.2) acc) / d := by
    intro l
    induction l with
    | nil => intro acc; rfl
    | cons e l ih =>
      intro acc
      by_cases hc : e.1 = c
      · simp only [List.map_cons, List.filter_cons, hc, beq_self_eq_true, if_true, List.foldl_cons]
        rw [← hadd, ih]
      · have : (e.1 == c) = false := by simpa using hc
        simp only [List.map_cons, List.filter_cons, this]
        exact ih acc
  have := key row 0
  rw [h0] at this
  exact this

end Diag

/-! ### 1. the gather loop of a correlated block -/
section Gather
variable {K : Type} [Scalar K]

theorem insertNew_eq (l : List Nat) (c : Nat) : insertNew l c = if c ∈ l then l else l ++ [c] := by
  simp [insertNew]

theorem mem_foldl_insertNew (cs s : List Nat) (c : Nat) :
    c ∈ cs.foldl insertNew s ↔ c ∈ s ∨ c ∈ cs := by
  induction cs generalizing s with
  | nil => simp
  | cons a cs ih =>
    rw [List.foldl_cons, ih, insertNew_eq]
    by_cases h : a ∈ s
    · simp only [h, if_true, List.mem_cons]
      grind
    · simp only [h, if_false, List.mem_append, List.mem_cons]
      grind

theorem nodup_foldl_insertNew (cs s : List Nat) (hs : s.Nodup) : (cs.foldl insertNew s).Nodup := by
  induction cs generalizing s with
  | nil => simpa
  | cons a cs ih =>
    rw [List.foldl_cons]
    apply ih
    rw [insertNew_eq]
    by_cases h : a ∈ s
    · simpa [h]
    · simp only [h, if_false]
      rw [List.nodup_append]
      refine ⟨hs, by simp, ?_⟩
      intro x hx y hy
      simp at hy
      subst hy
      intro e; subst e; exact h hx

theorem length_le_foldl_insertNew (cs s : List Nat) : s.length ≤ (cs.foldl insertNew s).length := by
  induction cs generalizing s with
  | nil => simp
  | cons a cs ih =>
    rw [List.foldl_cons]
    refine Nat.le_trans ?_ (ih _)
    rw [insertNew_eq]
    split <;> simp

/-- the distinct column indices of a list of `(row, column, value)`, in order of first appearance -/
def occOf (es : List (Nat × Nat × K)) : List Nat := (es.map (fun p => p.2.1)).foldl insertNew []

/-- the value a dense matrix (all zero at the start) holds at `(i, c)` after the statements `T(i, c) += v` for `es` in
    order: the SUM of all values stored with `(i, c)`, in storage order, starting from 0 -/
def sumVal (es : List (Nat × Nat × K)) (i c : Nat) : K :=
  es.foldl (fun acc p => if p.1 = i ∧ p.2.1 = c then acc + p.2.2 else acc) 0

theorem occOf_snoc (es : List (Nat × Nat × K)) (p : Nat × Nat × K) :
    occOf (es ++ [p]) = insertNew (occOf es) p.2.1 := by
  simp [occOf, List.foldl_append]

theorem occOf_append_length (es fs : List (Nat × Nat × K)) :
    (occOf es).length ≤ (occOf (es ++ fs)).length := by
  simp only [occOf, List.map_append, List.foldl_append]
  exact length_le_foldl_insertNew _ _

theorem mem_occOf (es : List (Nat × Nat × K)) (c : Nat) : c ∈ occOf es ↔ ∃ p ∈ es, p.2.1 = c := by
  simp [occOf, mem_foldl_insertNew]

theorem nodup_occOf (es : List (Nat × Nat × K)) : (occOf es).Nodup :=
  nodup_foldl_insertNew _ _ List.nodup_nil

theorem sumVal_snoc (es : List (Nat × Nat × K)) (p : Nat × Nat × K) (i c : Nat) :
    sumVal (es ++ [p]) i c = if p.1 = i ∧ p.2.1 = c then sumVal es i c + p.2.2 else sumVal es i c := by
  simp [sumVal, List.foldl_append]

theorem sumVal_of_not_mem (es : List (Nat × Nat × K)) (i c : Nat) (h : c ∉ occOf es) :
    sumVal es i c = 0 := by
  unfold sumVal
  apply foldl_keep
  intro a p hp
  have : ¬ p.2.1 = c := fun e => h ((mem_occOf es c).2 ⟨p, hp, e⟩)
  simp [this]

/-- the facts about `o' = insertNew o c`, `k = o'.idxOf c` used by the loop invariant -/
theorem insertNew_facts (o : List Nat) (c : Nat) (ho : o.Nodup) :
    let o' := insertNew o c
    let k := o'.idxOf c
    o'.Nodup ∧ k < o'.length ∧ o'.getD k 0 = c ∧ o.length ≤ o'.length ∧
    (∀ j, j < o.length → o'.getD j 0 = o.getD j 0) ∧
    (∀ j, o.length ≤ j → j < o'.length → j = k ∧ c ∉ o) ∧
    (∀ c', c' ∈ o' ↔ c' = c ∨ c' ∈ o) ∧
    (∀ c', c' ∈ o → o'.idxOf c' = o.idxOf c') ∧
    (c ∉ o → k = o.length) := by
  intro o' k
  have hnd : o'.Nodup := by
    have := nodup_foldl_insertNew [c] o ho
    simpa using this
  have hmem : ∀ c', c' ∈ o' ↔ c' = c ∨ c' ∈ o := by
    intro c'
    have := mem_foldl_insertNew [c] o c'
    simp only [List.foldl_cons, List.foldl_nil, List.mem_singleton] at this
    rw [show o' = insertNew o c from rfl, this]
    exact Or.comm
  have hk : k < o'.length := List.idxOf_lt_length_of_mem ((hmem c).2 (Or.inl rfl))
  have hgk : o'.getD k 0 = c := by
    rw [List.getD_eq_getElem?_getD, List.getElem?_eq_getElem hk, Option.getD_some]
    exact List.getElem_idxOf hk
  by_cases h : c ∈ o
  · have e : o' = o := by simp [o', insertNew_eq, h]
    refine ⟨hnd, hk, hgk, Nat.le_of_eq (by rw [e]), ?_, ?_, hmem, ?_, ?_⟩
    · intro j _; rw [e]
    · intro j h1 h2; rw [e] at h2; omega
    · intro c' _; rw [e]
    · intro h'; exact absurd h h'
  · have e : o' = o ++ [c] := by simp [o', insertNew_eq, h]
    have ek : k = o.length := by
      show o'.idxOf c = o.length
      rw [e, List.idxOf_append]; simp [h]
    refine ⟨hnd, hk, hgk, by rw [e]; simp, ?_, ?_, hmem, ?_, fun _ => ek⟩
    · intro j hj
      rw [e, List.getD_eq_getElem?_getD, List.getElem?_append_left hj, ← List.getD_eq_getElem?_getD]
    · intro j h1 h2
      rw [e] at h2; simp at h2
      exact ⟨by omega, h⟩
    · intro c' hc'
      rw [e, List.idxOf_append]; simp [hc']

/-- the invariant of the gather loop after the assignments `es` -/
structure GInv (cols bcols dim : Nat) (es : List (Nat × Nat × K)) (g : Gather K) : Prop where
  cnt : g.cnt = (occOf es).length
  psize : g.perm.size = cols + 1
  isize : g.invp.size = bcols + 1
  tsize : g.T.size = bcols
  csize : ∀ j, j < bcols → (g.T.getD j #[]).size = dim
  perm : ∀ c, g.perm.getD c 0 = if c ∈ occOf es then (occOf es).idxOf c + 1 else 0
  invp : ∀ j, 1 ≤ j → j ≤ (occOf es).length → g.invp.getD j 0 = (occOf es).getD (j - 1) 0
  tval : ∀ j r, j < bcols → r < dim →
    (g.T.getD j #[]).getD r 0 =
      if j < (occOf es).length then sumVal es (r + 1) ((occOf es).getD j 0) else 0

theorem gather1_inv {cols bcols dim : Nat} (es : List (Nat × Nat × K)) (g : Gather K) (p : Nat × Nat × K)
    (h : GInv cols bcols dim es g) (hi1 : 1 ≤ p.1) (hi2 : p.1 ≤ dim) (hc : p.2.1 ≤ cols)
    (hb : (occOf (es ++ [p])).length ≤ bcols) :
    GInv cols bcols dim (es ++ [p]) (gather1 p.1 g p.2) := by
  obtain ⟨i, c, v⟩ := p
  rw [occOf_snoc] at hb
  replace hi1 : 1 ≤ i := hi1
  replace hi2 : i ≤ dim := hi2
  replace hc : c ≤ cols := hc
  replace hb : (insertNew (occOf es) c).length ≤ bcols := hb
  obtain ⟨hnd, hk, hgk, hlen, hpre, hnew, hmem, hidx, hknew⟩ := insertNew_facts (occOf es) c (nodup_occOf es)
  -- the shape of the new state
  have hperm' : ∀ c', (gather1 i g (c, v)).perm.getD c' 0 =
      if c' ∈ insertNew (occOf es) c then (insertNew (occOf es) c).idxOf c' + 1 else 0 := by
    intro c'
    by_cases hm : c ∈ occOf es
    · have e : insertNew (occOf es) c = occOf es := by simp [insertNew_eq, hm]
      have : g.perm.getD c 0 ≠ 0 := by rw [h.perm c]; simp [hm]
      simp only [gather1, this, if_false]
      rw [e]; exact h.perm c'
    · have hp0 : g.perm.getD c 0 = 0 := by rw [h.perm c]; simp [hm]
      simp only [gather1, hp0, if_true]
      rw [getD_setIfInBounds', h.psize, h.perm c', h.cnt]
      by_cases e : c' = c
      · subst e
        have : c' ∈ insertNew (occOf es) c' := (hmem c').2 (Or.inl rfl)
        simp only [true_and, this, if_true, show c' < cols + 1 by omega]
        have := hknew hm
        rw [this]
      · have h1 : (c' ∈ insertNew (occOf es) c) ↔ c' ∈ occOf es := by rw [hmem c']; simp [e]
        simp only [e, false_and, if_false, h1]
        split
        · rename_i hc'; rw [hidx c' hc']
        · rfl
  have hT : ∃ k', k' = (insertNew (occOf es) c).idxOf c ∧
      (gather1 i g (c, v)).T = g.T.modify k' (fun col => col.setIfInBounds (i - 1) (col.getD (i - 1) 0 + v)) := by
    refine ⟨_, rfl, ?_⟩
    have := hperm' c
    rw [if_pos ((hmem c).2 (Or.inl rfl))] at this
    have e : (gather1 i g (c, v)).T =
        g.T.modify ((gather1 i g (c, v)).perm.getD c 0 - 1)
          (fun col => col.setIfInBounds (i - 1) (col.getD (i - 1) 0 + v)) := by
      simp only [gather1]
      split <;> rfl
    rw [e, this]; rfl
  obtain ⟨k, hkdef, hT⟩ := hT
  rw [← hkdef] at hk hgk hnew hknew
  have hkb : k < bcols := by omega
  constructor
  · -- cnt
    rw [occOf_snoc]
    by_cases hm : c ∈ occOf es
    · have : g.perm.getD c 0 ≠ 0 := by rw [h.perm c]; simp [hm]
      simp only [gather1, this, if_false, insertNew_eq, hm, if_true]
      exact h.cnt
    · have hp0 : g.perm.getD c 0 = 0 := by rw [h.perm c]; simp [hm]
      simp only [gather1, hp0, if_false, insertNew_eq, hm, if_true]
      simp [h.cnt]
  · -- psize
    simp only [gather1]; split <;> simp [h.psize]
  · simp only [gather1]; split <;> simp [h.isize]
  · rw [hT]; simp [h.tsize]
  · intro j hj
    rw [hT, getD_modify']
    split
    · rw [Array.size_setIfInBounds]; exact h.csize k hkb
    · exact h.csize j hj
  · rw [occOf_snoc]; exact hperm'
  · -- invp
    intro j hj1 hj2
    rw [occOf_snoc] at hj2 ⊢
    simp only at hj2 ⊢
    by_cases hm : c ∈ occOf es
    · have e : insertNew (occOf es) c = occOf es := by simp [insertNew_eq, hm]
      have : g.perm.getD c 0 ≠ 0 := by rw [h.perm c]; simp [hm]
      simp only [gather1, this, if_false]
      rw [e] at hj2 ⊢; exact h.invp j hj1 hj2
    · have hp0 : g.perm.getD c 0 = 0 := by rw [h.perm c]; simp [hm]
      simp only [gather1, hp0, if_true]
      rw [getD_setIfInBounds', h.isize, h.cnt]
      by_cases e : j = (occOf es).length + 1
      · have hkk := hknew hm
        have : j - 1 = k := by omega
        rw [this, hgk]
        have : (occOf es).length + 1 < bcols + 1 := by omega
        simp [e, this]
      · have e2 : insertNew (occOf es) c = occOf es ++ [c] := by simp [insertNew_eq, hm]
        have hj3 : j ≤ (occOf es).length := by
          rw [e2] at hj2; simp at hj2; omega
        simp only [e, false_and, if_false]
        rw [h.invp j hj1 hj3, hpre (j - 1) (by omega)]
  · -- tval
    intro j r hj hr
    rw [occOf_snoc, hT, getD_modify', h.tsize]
    simp only
    rw [sumVal_snoc]
    simp only
    by_cases hjk : j = k
    · subst hjk
      simp only [true_and, hkb, if_true, hk]
      rw [getD_setIfInBounds', h.csize j hj, hgk]
      by_cases e : i = r + 1
      · subst e
        have e1 : r + 1 - 1 = r := by omega
        simp only [e1, hr, and_self, if_true]
        rw [h.tval j r hj hr]
        by_cases hjo : j < (occOf es).length
        · have := hpre j hjo
          rw [hgk] at this
          simp [hjo, this]
        · have := hnew j (by omega) hk
          simp only [hjo, if_false]
          rw [sumVal_of_not_mem es (r + 1) c this.2]
      · have hri : ¬ r = i - 1 := by omega
        simp only [hri, false_and, if_false, e]
        rw [h.tval j r hj hr]
        by_cases hjo : j < (occOf es).length
        · have := hpre j hjo
          rw [hgk] at this
          simp [hjo, this]
        · have := hnew j (by omega) hk
          simp only [hjo, if_false]
          exact (sumVal_of_not_mem es (r + 1) c this.2).symm
    · simp only [hjk, false_and, if_false]
      rw [h.tval j r hj hr]
      by_cases hjo : j < (occOf es).length
      · have hjo' : j < (insertNew (occOf es) c).length := by omega
        have hne : ¬ c = (insertNew (occOf es) c).getD j 0 := by
          intro e
          exact hjk ((List.getD_inj hjo' hk hnd).1 (e.symm.trans hgk.symm))
        rw [hpre j hjo] at hne
        simp only [hjo, hjo', if_true, hpre j hjo, hne, and_false, if_false]
      · by_cases hjo' : j < (insertNew (occOf es) c).length
        · exact absurd (hnew j (by omega) hjo').1 hjk
        · simp [hjo, hjo']

theorem gather_foldl_inv {cols bcols dim : Nat} (es pre : List (Nat × Nat × K)) (g : Gather K)
    (h : GInv cols bcols dim pre g) (hes : ∀ p ∈ es, 1 ≤ p.1 ∧ p.1 ≤ dim ∧ p.2.1 ≤ cols)
    (hb : (occOf (pre ++ es)).length ≤ bcols) :
    GInv cols bcols dim (pre ++ es) (es.foldl (fun g p => gather1 p.1 g p.2) g) := by
  induction es generalizing pre g with
  | nil => simpa using h
  | cons p es ih =>
    have e : pre ++ p :: es = (pre ++ [p]) ++ es := by simp
    rw [List.foldl_cons, e]
    rw [e] at hb
    obtain ⟨h1, h2, h3⟩ := hes p (by simp)
    exact ih (pre ++ [p]) _
      (gather1_inv pre g p h h1 h2 h3 (Nat.le_trans (occOf_append_length _ _) hb))
      (fun q hq => hes q (by simp [hq])) hb

theorem gather_init_inv {cols bcols dim : Nat} (perm : Array Nat)
    (hperm0 : ∀ c, perm.getD c 0 = 0) (hpsize : perm.size = cols + 1) :
    GInv (K := K) cols bcols dim []
      { perm := perm, invp := Array.replicate (bcols + 1) 0, cnt := 0
        T := Array.replicate bcols (Array.replicate dim 0) } := by
  constructor
  · rfl
  · exact hpsize
  · simp
  · simp
  · intro j hj; simp [Array.getD, hj]
  · intro c; simpa [occOf] using hperm0 c
  · intro j h1 h2; simp [occOf] at h2; omega
  · intro j r hj hr; simp [Array.getD, hj, hr, occOf]

/-- the rows `off+1 … off+dim` as one list of `(local row, (column, value))` in storage order -/
def tagged (mat : SMat K) (off dim : Nat) : List (Nat × Nat × K) :=
  (List.range' 1 dim).flatMap fun i => (mat.rowEntries (off + i)).map fun e => (i, e)

/-- the distinct columns of the block in order of first appearance (what `countBlock` counts) -/
def blockOcc (mat : SMat K) (off dim : Nat) : List Nat :=
  (List.range' 1 dim).foldl (fun s i => (mat.rowCols (off + i)).foldl Hom.insertNew s) []

/-- the state after the gather loop of `corrBlock` -/
def gatherOf (mat : SMat K) (off dim bcols : Nat) (perm : Array Nat) : Gather K :=
  (List.range' 1 dim).foldl (fun g i => (mat.rowEntries (off + i)).foldl (gather1 i) g)
    { perm := perm, invp := Array.replicate (bcols + 1) 0, cnt := 0
      T := Array.replicate bcols (Array.replicate dim 0) }

theorem rowCols_eq (mat : SMat K) (r : Nat) : mat.rowCols r = (mat.rowEntries r).map (fun e => e.1) := by
  simp [SMat.rowCols, SMat.rowEntries, List.map_map, Function.comp_def]

theorem blockOcc_eq (mat : SMat K) (off dim : Nat) : blockOcc mat off dim = occOf (tagged mat off dim) := by
  unfold blockOcc occOf tagged
  rw [List.map_flatMap, foldl_flatMap']
  congr 1
  funext s i
  rw [rowCols_eq, List.map_map]
  rfl

theorem gatherOf_eq (mat : SMat K) (off dim bcols : Nat) (perm : Array Nat) :
    gatherOf mat off dim bcols perm =
      (tagged mat off dim).foldl (fun g p => gather1 p.1 g p.2)
        ({ perm := perm, invp := Array.replicate (bcols + 1) 0, cnt := 0
           T := Array.replicate bcols (Array.replicate dim 0) } : Gather K) := by
  unfold gatherOf tagged
  rw [foldl_flatMap']
  congr 1
  funext g i
  rw [List.foldl_map]

theorem countBlock_snd (mat : SMat K) (off dim width : Nat) (hw : width ≠ 0) :
    (Hom.countBlock mat off dim width).2 = (blockOcc mat off dim).length := by
  simp [Hom.countBlock, hw, blockOcc]

theorem countBlock_fst (mat : SMat K) (off dim width : Nat) (hw : width ≠ 0) :
    (Hom.countBlock mat off dim width).1 = dim * (blockOcc mat off dim).length := by
  simp [Hom.countBlock, hw, blockOcc]

theorem mem_tagged (mat : SMat K) (off dim : Nat) (p : Nat × Nat × K) :
    p ∈ tagged mat off dim ↔ 1 ≤ p.1 ∧ p.1 ≤ dim ∧ p.2 ∈ mat.rowEntries (off + p.1) := by
  obtain ⟨i, e⟩ := p
  simp only [tagged, List.mem_flatMap, List.mem_map, List.mem_range'_1, Prod.mk.injEq]
  constructor
  · rintro ⟨a, ⟨h1, h2⟩, b, hb, rfl, rfl⟩
    exact ⟨h1, by omega, hb⟩
  · rintro ⟨h1, h2, h3⟩
    exact ⟨i, ⟨h1, by omega⟩, e, h3, rfl, rfl⟩

/-- the loop invariant at the end of the gather loop -/
theorem gatherOf_inv (mat : SMat K) (off dim bcols cols : Nat) (perm : Array Nat)
    (hperm0 : ∀ c, perm.getD c 0 = 0) (hpsize : perm.size = cols + 1)
    (hcols : ∀ i, 1 ≤ i → i ≤ dim → ∀ e ∈ mat.rowEntries (off + i), 1 ≤ e.1 ∧ e.1 ≤ cols)
    (hbcols : bcols = (blockOcc mat off dim).length) :
    GInv cols bcols dim (tagged mat off dim) (gatherOf mat off dim bcols perm) := by
  rw [gatherOf_eq]
  have := gather_foldl_inv (cols := cols) (bcols := bcols) (dim := dim) (tagged mat off dim) [] _
    (gather_init_inv perm hperm0 hpsize)
    (by
      intro p hp
      obtain ⟨h1, h2, h3⟩ := (mem_tagged mat off dim p).1 hp
      exact ⟨h1, h2, (hcols p.1 h1 h2 p.2 h3).2⟩)
    (by rw [List.nil_append, ← blockOcc_eq, hbcols])
  simpa using this

/-! #### the dense reading of the gathered matrix -/

theorem filter_col_of_not_mem (row : List (Nat × K)) (c : Nat) (h : c ∉ row.map (fun e => e.1)) :
    row.filter (fun e => e.1 == c) = [] := by
  rw [List.filter_eq_nil_iff]
  intro e he
  have : ¬ e.1 = c := fun h' => h (List.mem_map.2 ⟨e, he, h'⟩)
  simpa using this

theorem denseRow_of_not_mem (row : List (Nat × K)) (c : Nat) (h : c ∉ row.map (fun e => e.1)) :
    denseRow row c = 0 := by
  unfold denseRow
  rw [filter_col_of_not_mem row c h]; rfl

theorem denseRow_cons_ne (e : Nat × K) (row : List (Nat × K)) (c : Nat) (h : ¬ e.1 = c) :
    denseRow (e :: row) c = denseRow row c := by
  unfold denseRow
  have : (e.1 == c) = false := by simpa using h
  rw [List.filter_cons, this]; rfl

theorem denseRow_cons_eq (hzadd : ∀ a : K, 0 + a = a) (e : Nat × K) (row : List (Nat × K)) (c : Nat)
    (h : e.1 = c) (hn : c ∉ row.map (fun e => e.1)) : denseRow (e :: row) c = e.2 := by
  unfold denseRow
  have : (e.1 == c) = true := by simpa using h
  rw [List.filter_cons, this, filter_col_of_not_mem row c hn]
  simp [hzadd]

/-- "add every value stored with column `c`" is the dense reading of a row — whatever the column indices are -/
theorem foldl_sum_eq_filter (row : List (Nat × K)) (c : Nat) (acc : K) :
    row.foldl (fun acc e => if e.1 = c then acc + e.2 else acc) acc =
      (row.filter (fun e => e.1 == c)).foldl (fun acc e => acc + e.2) acc := by
  induction row generalizing acc with
  | nil => rfl
  | cons e row ih =>
    by_cases hc : e.1 = c
    · have hb : (e.1 == c) = true := by simpa using hc
      rw [List.foldl_cons, List.filter_cons, hb]
      simp only [if_pos hc, if_true, List.foldl_cons]
      exact ih _
    · have hb : (e.1 == c) = false := by simpa using hc
      rw [List.foldl_cons, List.filter_cons, hb]
      simp only [if_neg hc, Bool.false_eq_true, if_false]
      exact ih _

theorem foldl_sum_eq_denseRow (row : List (Nat × K)) (c : Nat) :
    row.foldl (fun acc e => if e.1 = c then acc + e.2 else acc) 0 = denseRow row c :=
  foldl_sum_eq_filter row c 0

theorem sumVal_flatMap (R : Nat → List (Nat × K)) (l : List Nat) (hl : l.Nodup) (i c : Nat) (acc : K) :
    (l.flatMap fun i' => (R i').map fun e => (i', e)).foldl
        (fun acc (p : Nat × Nat × K) => if p.1 = i ∧ p.2.1 = c then acc + p.2.2 else acc) acc
      = if i ∈ l then (R i).foldl (fun acc e => if e.1 = c then acc + e.2 else acc) acc else acc := by
  induction l generalizing acc with
  | nil => rfl
  | cons a l ih =>
    rw [List.nodup_cons] at hl
    rw [List.flatMap_cons, List.foldl_append, ih hl.2, List.foldl_map]
    by_cases ha : a = i
    · subst ha
      simp [hl.1]
    · have hia : ¬ i = a := fun h => ha h.symm
      simp only [ha, false_and, if_false, List.mem_cons, hia, false_or]
      rw [foldl_keep _ _ _ (fun _ _ _ => rfl)]

/-- the sum of the values the block stores with `(i, c)` is `denseRow` of row `off+i` at `c`: exactly the number the
    dense path (`project_equations()`, `Net.denseA`) holds — no hypothesis on repeated columns -/
theorem sumVal_tagged (mat : SMat K) (off dim i c : Nat) (h1 : 1 ≤ i) (h2 : i ≤ dim) :
    sumVal (tagged mat off dim) i c = denseRow (mat.rowEntries (off + i)) c := by
  unfold sumVal tagged
  rw [sumVal_flatMap (fun i => mat.rowEntries (off + i)) _ (List.nodup_range' (step := 1)) i c 0]
  have : i ∈ List.range' 1 dim := by simp; omega
  rw [if_pos this]
  exact foldl_sum_eq_denseRow _ c

theorem colOf_size (mat : SMat K) (off d c : Nat) : (colOf mat off d c).size = d := by
  simp [colOf]

theorem colOf_getD (mat : SMat K) (off d c r : Nat) (hr : r < d) :
    (colOf mat off d c).getD r 0 = denseRow (mat.rowEntries (off + (r + 1))) c := by
  simp [colOf, Array.getD, hr, Nat.add_comm 1 r]

/-- 1. the state after the gather loop: `invp_count`, `invp`, `perm` number the distinct columns in order of first
    appearance and column `j` of `T` is the dense column `occ[j-1]` of the block — for every row the SUM of the values
    stored with that column.  No hypothesis on repeated column indices (`hzadd` is kept for the callers; unused) -/
theorem gather_spec (hzadd : ∀ a : K, 0 + a = a) (mat : SMat K) (off dim bcols cols : Nat) (perm : Array Nat)
    (hperm0 : ∀ c, perm.getD c 0 = 0) (hpsize : perm.size = cols + 1)
    (hcols : ∀ i, 1 ≤ i → i ≤ dim → ∀ e ∈ mat.rowEntries (off + i), 1 ≤ e.1 ∧ e.1 ≤ cols)
    (hbcols : bcols = (blockOcc mat off dim).length) :
    (gatherOf mat off dim bcols perm).cnt = (blockOcc mat off dim).length ∧
    (∀ j, 1 ≤ j → j ≤ (blockOcc mat off dim).length →
      (gatherOf mat off dim bcols perm).invp.getD j 0 = (blockOcc mat off dim).getD (j - 1) 0) ∧
    (∀ c, (gatherOf mat off dim bcols perm).perm.getD c 0 =
      if c ∈ blockOcc mat off dim then (blockOcc mat off dim).idxOf c + 1 else 0) ∧
    (gatherOf mat off dim bcols perm).perm.size = perm.size ∧
    (gatherOf mat off dim bcols perm).T.size = bcols ∧
    (∀ j, 1 ≤ j → j ≤ (blockOcc mat off dim).length →
      (gatherOf mat off dim bcols perm).T.getD (j - 1) #[] =
        colOf mat off dim ((blockOcc mat off dim).getD (j - 1) 0)) := by
  have h := gatherOf_inv mat off dim bcols cols perm hperm0 hpsize hcols hbcols
  rw [blockOcc_eq]
  refine ⟨h.cnt, h.invp, h.perm, by rw [h.psize, hpsize], h.tsize, ?_⟩
  intro j hj1 hj2
  have hjb : j - 1 < bcols := by rw [hbcols, blockOcc_eq]; omega
  apply array_ext_getD _ _ (0 : K)
  · rw [h.csize _ hjb, colOf_size]
  · intro r hr
    rw [h.csize _ hjb] at hr
    rw [h.tval _ r hjb hr, colOf_getD _ _ _ _ _ hr, if_pos (by omega),
      sumVal_tagged mat off dim (r + 1) _ (by omega) (by omega)]

/-! ### 2. the scatter of a correlated block -/

/-- `if (T(i,j)) add_element(T(i,j), invp[j])` for the value `x c` of column `c` -/
def keepNZ (x : Nat → K) (c : Nat) : Option (Nat × K) :=
  if Scalar.beq (x c) 0 then none else some (c, x c)

theorem mem_filterMap_keepNZ (hbeq : ∀ a : K, Scalar.beq a 0 = true ↔ a = 0) (x : Nat → K) (l : List Nat)
    (e : Nat × K) (he : e ∈ l.filterMap (keepNZ x)) : e.1 ∈ l ∧ e.2 = x e.1 ∧ e.2 ≠ 0 := by
  rw [List.mem_filterMap] at he
  obtain ⟨c, hc, h⟩ := he
  unfold keepNZ at h
  split at h
  · cases h
  · rename_i hb
    cases h
    exact ⟨hc, rfl, fun h0 => hb ((hbeq _).2 h0)⟩

theorem cols_filterMap_keepNZ (x : Nat → K) (l : List Nat) :
    (l.filterMap (keepNZ x)).map (fun e => e.1) = l.filter (fun c => !Scalar.beq (x c) 0) := by
  induction l with
  | nil => rfl
  | cons a l ih =>
    rw [List.filterMap_cons, List.filter_cons]
    unfold keepNZ
    cases hb : Scalar.beq (x a) 0
    · simp only [Bool.false_eq_true, if_false, List.map_cons, Bool.not_false, if_true]
      rw [← ih]; rfl
    · simp only [if_true, Bool.not_true, Bool.false_eq_true, if_false]
      rw [← ih]; rfl

theorem denseRow_filterMap_keepNZ (hzadd : ∀ a : K, 0 + a = a) (hbeq : ∀ a : K, Scalar.beq a 0 = true ↔ a = 0)
    (x : Nat → K) (l : List Nat) (hl : l.Nodup) (c : Nat) :
    denseRow (l.filterMap (keepNZ x)) c = if c ∈ l then x c else 0 := by
  induction l with
  | nil => rfl
  | cons a l ih =>
    rw [List.nodup_cons] at hl
    have hnot : c ∉ l → c ∉ (l.filterMap (keepNZ x)).map (fun e => e.1) := by
      intro h hm
      rw [cols_filterMap_keepNZ] at hm
      exact h (List.mem_filter.1 hm).1
    rw [List.filterMap_cons]
    cases hb : Scalar.beq (x a) 0
    · have hk : keepNZ x a = some (a, x a) := by simp [keepNZ, hb]
      rw [hk]
      simp only
      by_cases hac : a = c
      · subst hac
        simp only [List.mem_cons, true_or, if_true]
        rw [denseRow_cons_eq hzadd _ _ a rfl (hnot hl.1)]
      · have hca : ¬ c = a := fun h => hac h.symm
        simp only [List.mem_cons, hca, false_or]
        rw [denseRow_cons_ne _ _ c hac]
        exact ih hl.2
    · have hk : keepNZ x a = none := by simp [keepNZ, hb]
      rw [hk]
      simp only
      by_cases hac : a = c
      · subst hac
        simp only [List.mem_cons, true_or, if_true]
        rw [denseRow_of_not_mem _ a (hnot hl.1), (hbeq _).1 hb]
      · have hca : ¬ c = a := fun h => hac h.symm
        simp only [List.mem_cons, hca, false_or]
        exact ih hl.2

/-- the rows produced by the scatter loop from the gathered state, for the column operation `S` -/
def scatterRows (S : Array K → Array K) (g : Gather K) (dim bcols : Nat) : List (List (Nat × K)) :=
  (List.range' 1 dim).map fun i =>
    (List.range' 1 bcols).filterMap fun j =>
      let element := ((g.T.map S).getD (j - 1) #[]).getD (i - 1) 0
      if Scalar.beq element 0 then none else some (g.invp.getD j 0, element)

/-- `corrBlock` depends on `nonz`, `tab` only through the column operation `sweepTab nonz tab off dim` -/
theorem corrBlock_fst (mat : SMat K) (nonz : Array K) (tab : Array Nat) (off dim bcols : Nat) (perm : Array Nat) :
    (Hom.corrBlock mat nonz tab off dim bcols perm).1 =
      scatterRows (sweepTab nonz tab off dim) (gatherOf mat off dim bcols perm) dim bcols := rfl

theorem corrBlock_snd (mat : SMat K) (nonz : Array K) (tab : Array Nat) (off dim bcols : Nat) (perm : Array Nat) :
    (Hom.corrBlock mat nonz tab off dim bcols perm).2 =
      (List.range' 1 bcols).foldl
        (fun p i => p.setIfInBounds ((gatherOf mat off dim bcols perm).invp.getD i 0) 0)
        (gatherOf mat off dim bcols perm).perm := rfl

theorem scatterRows_length (S : Array K → Array K) (g : Gather K) (dim bcols : Nat) :
    (scatterRows S g dim bcols).length = dim := by
  simp [scatterRows]

/-- row `i` of the scattered block: the non-zero entries of row `i` of `S(column c)`, `c` running through
    the distinct columns in order of first appearance -/
theorem scatterRows_getD (hzadd : ∀ a : K, 0 + a = a) (S : Array K → Array K)
    (mat : SMat K) (off dim bcols cols : Nat) (perm : Array Nat)
    (hperm0 : ∀ c, perm.getD c 0 = 0) (hpsize : perm.size = cols + 1)
    (hcols : ∀ i, 1 ≤ i → i ≤ dim → ∀ e ∈ mat.rowEntries (off + i), 1 ≤ e.1 ∧ e.1 ≤ cols)
    (hbcols : bcols = (blockOcc mat off dim).length) (i : Nat) (hi1 : 1 ≤ i) (hi2 : i ≤ dim) :
    (scatterRows S (gatherOf mat off dim bcols perm) dim bcols).getD (i - 1) [] =
      (blockOcc mat off dim).filterMap (keepNZ fun c => (S (colOf mat off dim c)).getD (i - 1) 0) := by
  obtain ⟨_, hinvp, _, _, htsize, hT⟩ :=
    gather_spec hzadd mat off dim bcols cols perm hperm0 hpsize hcols hbcols
  have hlt : i - 1 < dim := by omega
  have e1 : 1 + (i - 1) = i := by omega
  have : (scatterRows S (gatherOf mat off dim bcols perm) dim bcols).getD (i - 1) [] =
      (List.range' 1 bcols).filterMap fun j =>
        let element := (((gatherOf mat off dim bcols perm).T.map S).getD (j - 1) #[]).getD (i - 1) 0
        if Scalar.beq element 0 then none else some ((gatherOf mat off dim bcols perm).invp.getD j 0, element) := by
    simp [scatterRows, List.getD, hlt, e1]
  rw [this]
  have hcongr : ∀ j ∈ List.range' 1 bcols,
      (let element := (((gatherOf mat off dim bcols perm).T.map S).getD (j - 1) #[]).getD (i - 1) 0
        if Scalar.beq element 0 then none
        else some ((gatherOf mat off dim bcols perm).invp.getD j 0, element)) =
      ((keepNZ fun c => (S (colOf mat off dim c)).getD (i - 1) 0) ∘
        (fun j => (blockOcc mat off dim).getD (j - 1) 0)) j := by
    intro j hj
    rw [List.mem_range'_1] at hj
    have hj2 : j ≤ (blockOcc mat off dim).length := by omega
    have hjs : j - 1 < (gatherOf mat off dim bcols perm).T.size := by omega
    have eT : ((gatherOf mat off dim bcols perm).T.map S).getD (j - 1) #[] =
        S (colOf mat off dim ((blockOcc mat off dim).getD (j - 1) 0)) := by
      rw [← hT j hj.1 hj2]
      simp [Array.getD, hjs]
    simp only [Function.comp, keepNZ]
    rw [eT, hinvp j hj.1 hj2]
  rw [List.filterMap_congr hcongr, ← List.filterMap_map, hbcols, map_range'_getD]

/-! ### 3. clearing the permutation vector -/

theorem clear_foldl (l : List Nat) (p : Array Nat) :
    (l.foldl (fun p c => p.setIfInBounds c 0) p).size = p.size ∧
    ∀ c, (l.foldl (fun p c => p.setIfInBounds c 0) p).getD c 0 = if c ∈ l then 0 else p.getD c 0 := by
  induction l generalizing p with
  | nil => simp
  | cons a l ih =>
    obtain ⟨h1, h2⟩ := ih (p.setIfInBounds a 0)
    rw [List.foldl_cons]
    refine ⟨by rw [h1]; simp, ?_⟩
    intro c
    rw [h2 c, getD_setIfInBounds']
    by_cases hc : c ∈ l
    · simp [hc]
    · by_cases hca : c = a
      · subst hca
        by_cases hs : c < p.size
        · simp [hs]
        · simp [hs, Array.getD]
      · simp [hc, hca]

/-! ### the theorems for one block, over `[Scalar K]` with the facts about `+`, `/`, `==` that are used -/

/-- 2. rows of a correlated block (general `Scalar`; `hzadd`, `hbeq` hold in every field) -/
theorem corrBlock_rows_gen (hzadd : ∀ a : K, 0 + a = a) (hbeq : ∀ a : K, Scalar.beq a 0 = true ↔ a = 0)
    (mat : SMat K) (nonz : Array K) (tab : Array Nat) (off dim bcols cols : Nat) (perm : Array Nat)
    (hperm0 : ∀ c, perm.getD c 0 = 0) (hpsize : perm.size = cols + 1)
    (hcols : ∀ i, 1 ≤ i → i ≤ dim → ∀ e ∈ mat.rowEntries (off + i), 1 ≤ e.1 ∧ e.1 ≤ cols)
    (hbcols : bcols = (blockOcc mat off dim).length) :
    (Hom.corrBlock mat nonz tab off dim bcols perm).1.length = dim ∧
    ∀ i, 1 ≤ i → i ≤ dim →
      (Hom.corrBlock mat nonz tab off dim bcols perm).1.getD (i - 1) [] =
        (blockOcc mat off dim).filterMap
          (keepNZ fun c => (sweepTab nonz tab off dim (colOf mat off dim c)).getD (i - 1) 0) ∧
      (∀ c, denseRow ((Hom.corrBlock mat nonz tab off dim bcols perm).1.getD (i - 1) []) c =
        if c ∈ blockOcc mat off dim then (sweepTab nonz tab off dim (colOf mat off dim c)).getD (i - 1) 0
        else 0) ∧
      (∀ e ∈ (Hom.corrBlock mat nonz tab off dim bcols perm).1.getD (i - 1) [], e.2 ≠ 0) ∧
      (((Hom.corrBlock mat nonz tab off dim bcols perm).1.getD (i - 1) []).map (fun e => e.1)).Sublist
        (blockOcc mat off dim) ∧
      (((Hom.corrBlock mat nonz tab off dim bcols perm).1.getD (i - 1) []).map (fun e => e.1)).Nodup := by
  rw [corrBlock_fst]
  refine ⟨scatterRows_length _ _ _ _, ?_⟩
  intro i hi1 hi2
  have hrow := scatterRows_getD hzadd (sweepTab nonz tab off dim) mat off dim bcols cols perm
    hperm0 hpsize hcols hbcols i hi1 hi2
  have hnd : (blockOcc mat off dim).Nodup := by rw [blockOcc_eq]; exact nodup_occOf _
  have hsub : (((blockOcc mat off dim).filterMap
      (keepNZ fun c => (sweepTab nonz tab off dim (colOf mat off dim c)).getD (i - 1) 0)).map
        (fun e => e.1)).Sublist (blockOcc mat off dim) := by
    rw [cols_filterMap_keepNZ]; exact List.filter_sublist
  rw [hrow]
  refine ⟨rfl, ?_, ?_, hsub, hsub.nodup hnd⟩
  · intro c
    exact denseRow_filterMap_keepNZ hzadd hbeq _ _ hnd c
  · intro e he
    exact (mem_filterMap_keepNZ hbeq _ _ e he).2.2

/-- 3. `perm` is all zero again after a correlated block -/
theorem corrBlock_perm_gen (hzadd : ∀ a : K, 0 + a = a)
    (mat : SMat K) (nonz : Array K) (tab : Array Nat) (off dim bcols cols : Nat) (perm : Array Nat)
    (hperm0 : ∀ c, perm.getD c 0 = 0) (hpsize : perm.size = cols + 1)
    (hcols : ∀ i, 1 ≤ i → i ≤ dim → ∀ e ∈ mat.rowEntries (off + i), 1 ≤ e.1 ∧ e.1 ≤ cols)
    (hbcols : bcols = (blockOcc mat off dim).length) :
    (Hom.corrBlock mat nonz tab off dim bcols perm).2.size = perm.size ∧
    ∀ c, (Hom.corrBlock mat nonz tab off dim bcols perm).2.getD c 0 = 0 := by
  obtain ⟨_, hinvp, hperm, hps, _, _⟩ :=
    gather_spec hzadd mat off dim bcols cols perm hperm0 hpsize hcols hbcols
  rw [corrBlock_snd]
  have e : (List.range' 1 bcols).foldl
        (fun p i => p.setIfInBounds ((gatherOf mat off dim bcols perm).invp.getD i 0) 0)
        (gatherOf mat off dim bcols perm).perm =
      (blockOcc mat off dim).foldl (fun p c => p.setIfInBounds c 0) (gatherOf mat off dim bcols perm).perm := by
    have hm : (List.range' 1 bcols).map (fun i => (gatherOf mat off dim bcols perm).invp.getD i 0) =
        blockOcc mat off dim := by
      rw [← map_range'_getD (blockOcc mat off dim), ← hbcols]
      apply List.map_congr_left
      intro j hj
      rw [List.mem_range'_1] at hj
      exact hinvp j hj.1 (by omega)
    rw [← hm, List.foldl_map]
  rw [e]
  obtain ⟨h1, h2⟩ := clear_foldl (blockOcc mat off dim) (gatherOf mat off dim bcols perm).perm
  refine ⟨by rw [h1, hps], ?_⟩
  intro c
  rw [h2 c, hperm c]
  split <;> rfl

/-- 4. rows of an uncorrelated block -/
theorem diagBlock_rows_gen (hadd : ∀ a b d : K, (a + b) / d = a / d + b / d) (h0 : ∀ d : K, (0 : K) / d = 0)
    (mat : SMat K) (nonz : Array K) (begin_ off dim : Nat) :
    (Hom.diagBlock mat nonz begin_ off dim).length = dim ∧
    ∀ i, 1 ≤ i → i ≤ dim → ∀ c,
      denseRow ((Hom.diagBlock mat nonz begin_ off dim).getD (i - 1) []) c =
        denseRow (mat.rowEntries (off + i)) c / nonz.getD (begin_ + (i - 1)) 0 := by
  refine ⟨diagBlock_length _ _ _ _ _, ?_⟩
  intro i h1 h2 c
  rw [diagBlock_getD mat nonz begin_ off dim i h1 h2]
  exact denseRow_map_div hadd h0 _ _ c

end Gather

/-! ### the same over a linearly ordered field (`fieldScalar K sqrt`) -/
section Field
variable {K : Type} [Field K] [LinearOrder K]

theorem field_hzadd (sqrt : K → K) : letI := fieldScalar K sqrt; ∀ a : K, 0 + a = a :=
  fun a => zero_add a

theorem field_hbeq (sqrt : K → K) : letI := fieldScalar K sqrt; ∀ a : K, Scalar.beq a 0 = true ↔ a = 0 :=
  fun _ => decide_eq_true_iff

/-- `countBlock` (correlated block) counts the distinct columns -/
theorem countBlock_spec (sqrt : K → K) (mat : SMat K) (off dim width : Nat) (hw : width ≠ 0) :
    letI := fieldScalar K sqrt
    Hom.countBlock mat off dim width =
      (dim * (blockOcc mat off dim).length, (blockOcc mat off dim).length) := by
  letI := fieldScalar K sqrt
  exact Prod.ext (countBlock_fst mat off dim width hw) (countBlock_snd mat off dim width hw)

/-- 1. after the gather loop of a correlated block: `invp_count`, `invp`, `perm` number the distinct
    columns in order of first appearance and column `j` of `T` is the dense column `occ[j-1]` -/
theorem gather_spec_field (sqrt : K → K) (mat : SMat K) (off dim bcols cols : Nat) (perm : Array Nat)
    (hperm0 : ∀ c, perm.getD c 0 = 0) (hpsize : perm.size = cols + 1)
    (hcols : letI := fieldScalar K sqrt
      ∀ i, 1 ≤ i → i ≤ dim → ∀ e ∈ mat.rowEntries (off + i), 1 ≤ e.1 ∧ e.1 ≤ cols)
    (hbcols : bcols = (blockOcc mat off dim).length) :
    letI := fieldScalar K sqrt
    (gatherOf mat off dim bcols perm).cnt = (blockOcc mat off dim).length ∧
    (∀ j, 1 ≤ j → j ≤ (blockOcc mat off dim).length →
      (gatherOf mat off dim bcols perm).invp.getD j 0 = (blockOcc mat off dim).getD (j - 1) 0) ∧
    (∀ c, (gatherOf mat off dim bcols perm).perm.getD c 0 =
      if c ∈ blockOcc mat off dim then (blockOcc mat off dim).idxOf c + 1 else 0) ∧
    (gatherOf mat off dim bcols perm).perm.size = perm.size ∧
    (gatherOf mat off dim bcols perm).T.size = bcols ∧
    (∀ j, 1 ≤ j → j ≤ (blockOcc mat off dim).length →
      (gatherOf mat off dim bcols perm).T.getD (j - 1) #[] =
        colOf mat off dim ((blockOcc mat off dim).getD (j - 1) 0)) := by
  letI := fieldScalar K sqrt
  exact gather_spec (field_hzadd sqrt) mat off dim bcols cols perm hperm0 hpsize hcols hbcols

/-- 2. the rows written for a correlated block: row `i` is, for the distinct columns `c` of the block in
    order of first appearance, the entry `i` of the swept dense column `c`, exact zeros dropped -/
theorem corrBlock_rows (sqrt : K → K)
    (mat : SMat K) (nonz : Array K) (tab : Array Nat) (off dim bcols cols : Nat) (perm : Array Nat)
    (hperm0 : ∀ c, perm.getD c 0 = 0) (hpsize : perm.size = cols + 1)
    (hcols : letI := fieldScalar K sqrt
      ∀ i, 1 ≤ i → i ≤ dim → ∀ e ∈ mat.rowEntries (off + i), 1 ≤ e.1 ∧ e.1 ≤ cols)
    (hbcols : bcols = (blockOcc mat off dim).length) :
    letI := fieldScalar K sqrt
    (Hom.corrBlock mat nonz tab off dim bcols perm).1.length = dim ∧
    ∀ i, 1 ≤ i → i ≤ dim →
      (Hom.corrBlock mat nonz tab off dim bcols perm).1.getD (i - 1) [] =
        (blockOcc mat off dim).filterMap
          (keepNZ fun c => (sweepTab nonz tab off dim (colOf mat off dim c)).getD (i - 1) 0) ∧
      (∀ c, denseRow ((Hom.corrBlock mat nonz tab off dim bcols perm).1.getD (i - 1) []) c =
        if c ∈ blockOcc mat off dim then (sweepTab nonz tab off dim (colOf mat off dim c)).getD (i - 1) 0
        else 0) ∧
      (∀ e ∈ (Hom.corrBlock mat nonz tab off dim bcols perm).1.getD (i - 1) [], e.2 ≠ 0) ∧
      (((Hom.corrBlock mat nonz tab off dim bcols perm).1.getD (i - 1) []).map (fun e => e.1)).Sublist
        (blockOcc mat off dim) ∧
      (((Hom.corrBlock mat nonz tab off dim bcols perm).1.getD (i - 1) []).map (fun e => e.1)).Nodup := by
  letI := fieldScalar K sqrt
  exact corrBlock_rows_gen (field_hzadd sqrt) (field_hbeq sqrt) mat nonz tab off dim bcols cols perm
    hperm0 hpsize hcols hbcols

/-- 3. a correlated block leaves `perm` all zero (and of the same size): the next block starts clean -/
theorem corrBlock_perm (sqrt : K → K)
    (mat : SMat K) (nonz : Array K) (tab : Array Nat) (off dim bcols cols : Nat) (perm : Array Nat)
    (hperm0 : ∀ c, perm.getD c 0 = 0) (hpsize : perm.size = cols + 1)
    (hcols : letI := fieldScalar K sqrt
      ∀ i, 1 ≤ i → i ≤ dim → ∀ e ∈ mat.rowEntries (off + i), 1 ≤ e.1 ∧ e.1 ≤ cols)
    (hbcols : bcols = (blockOcc mat off dim).length) :
    letI := fieldScalar K sqrt
    (Hom.corrBlock mat nonz tab off dim bcols perm).2.size = perm.size ∧
    ∀ c, (Hom.corrBlock mat nonz tab off dim bcols perm).2.getD c 0 = 0 := by
  letI := fieldScalar K sqrt
  exact corrBlock_perm_gen (field_hzadd sqrt) mat nonz tab off dim bcols cols perm
    hperm0 hpsize hcols hbcols

/-- 4. the rows written for an uncorrelated block: row `i` of `mat` divided by `nonz[begin + (i-1)]` -/
theorem diagBlock_rows (sqrt : K → K) (mat : SMat K) (nonz : Array K) (begin_ off dim : Nat) :
    letI := fieldScalar K sqrt
    (Hom.diagBlock mat nonz begin_ off dim).length = dim ∧
    ∀ i, 1 ≤ i → i ≤ dim → ∀ c,
      denseRow ((Hom.diagBlock mat nonz begin_ off dim).getD (i - 1) []) c =
        denseRow (mat.rowEntries (off + i)) c / nonz.getD (begin_ + (i - 1)) 0 := by
  letI := fieldScalar K sqrt
  exact diagBlock_rows_gen (fun a b d => add_div a b d) (fun d => zero_div d) mat nonz begin_ off dim

end Field

/-! ### non-vacuity: a 2×3 correlated block over `Rat` (columns appear in the order 3, 1; one exact zero
    is produced by the sweep and dropped) -/
section Example

def exMat : SMat Rat := SMat.ofRows 2 3 [[(3, 2), (1, 4)], [(1, 6), (3, 1)]] []

example : blockOcc exMat 0 2 = [3, 1] := by decide
example : (Hom.countBlock exMat 0 2 1).2 = 2 := by decide
example : ∀ i, 1 ≤ i → i ≤ 2 → ((exMat.rowEntries (0 + i)).map (fun e => e.1)).Nodup := by decide
example : ∀ i, 1 ≤ i → i ≤ 2 → ∀ e ∈ exMat.rowEntries (0 + i), 1 ≤ e.1 ∧ e.1 ≤ 3 := by decide
example : Hom.corrBlock exMat #[2, 1, 1] #[0, 0, 2, 3] 0 2 2 (Array.replicate 4 0) =
    ([[(3, 1), (1, 2)], [(1, 4)]], Array.replicate 4 0) := by decide +kernel
/-- the hypotheses of `corrBlock_rows_gen` / `corrBlock_perm_gen` are satisfiable -/
example := corrBlock_rows_gen (K := Rat) (fun a => Rat.zero_add a) (fun _ => beq_iff_eq)
  exMat #[2, 1, 1] #[0, 0, 2, 3] 0 2 2 3 (Array.replicate 4 0)
  (by intro c; simp [Array.getD]) (by decide) (by decide) (by decide)
example : Hom.diagBlock exMat #[2, 3] 0 0 2 = [[(3, 1), (1, 2)], [(1, 2), (3, 1 / 3)]] := by decide +kernel

end Example

end Gama.Cov
