/-
  Invariant of the `LocalNetwork` update cascade (Model/NetState.lean over the generated table
  Gen/NetCascade.lean) and its consequences.  Core Lean only.
  The lemmas `entry_*`, `update_eq` are computed on the GENERATED data: if the source changes a
  guard, the fall-through order or the `update(L)` a compute function ends with, they fail.
-/
import Gama.Model.NetState
namespace Gama.C04.Net
open Gen

/-! ### what the generated table says -/

theorem entry_0 : entry 0 = ⟨"revision_points", true, none, some 1, false, false⟩ := by decide
theorem entry_1 : entry 1 = ⟨"revision_observations", false, some true, some 2, false, false⟩ := by decide
theorem entry_2 : entry 2 = ⟨"project_equations", true, some true, some 3, false, false⟩ := by decide
/-- `vyrovnani_`: the flag is set before the solver is consulted and taken back by the `catch (...)`
    handler (code after the fix notes/proposed/C04-net-adjusted-flag-after-throw.diff) -/
theorem entry_3 : entry 3 = ⟨"vyrovnani_", true, some false, none, true, true⟩ := by decide

/-- `update(L)` clears exactly the flags of the levels ≥ L (fall-through), nothing else -/
theorem update_eq (s : NState) :
    update s 0 = { s with f0 := false, f1 := false, f2 := false, f3 := false }
    ∧ update s 1 = { s with f1 := false, f2 := false, f3 := false }
    ∧ update s 2 = { s with f2 := false, f3 := false }
    ∧ update s 3 = { s with f3 := false } := by
  refine ⟨?_, ?_, ?_, ?_⟩ <;> rfl

/-! ### invariant -/

structure NInv (s : NState) : Prop where
  m1 : s.f1 = true → s.f0 = true
  m2 : s.f2 = true → s.f1 = true
  m3 : s.f3 = true → s.f2 = true
  v0 : s.f0 = true → s.a0 = some (snap s.cfg 0)
  v1 : s.f1 = true → s.a1 = some (snap s.cfg 1)
  v2 : s.f2 = true → s.a2 = some (snap s.cfg 2)
  v3 : s.f3 = true → s.a3 = some (snap s.cfg 3)

theorem ninv_init (c : Cfg) : NInv (ninit c) := by
  constructor <;> simp [ninit]

theorem ninv_update {s : NState} (h : NInv s) (l : Nat) (hl : l ≤ 3) : NInv (update s l) := by
  have hu := update_eq s
  obtain ⟨m1, m2, m3, v0, v1, v2, v3⟩ := h
  have : l = 0 ∨ l = 1 ∨ l = 2 ∨ l = 3 := by omega
  rcases this with rfl | rfl | rfl | rfl
  · rw [hu.1]; constructor <;> simp
  · rw [hu.2.1]; constructor <;> simp <;> assumption
  · rw [hu.2.2.1]; constructor <;> simp <;> assumption
  · rw [hu.2.2.2]; constructor <;> simp <;> assumption

theorem update_frame (s : NState) (l : Nat) (hl : l ≤ 3) :
    (update s l).cfg = s.cfg ∧ (update s l).a0 = s.a0 ∧ (update s l).a1 = s.a1
    ∧ (update s l).a2 = s.a2 ∧ (update s l).a3 = s.a3 := by
  have hu := update_eq s
  have : l = 0 ∨ l = 1 ∨ l = 2 ∨ l = 3 := by omega
  rcases this with rfl | rfl | rfl | rfl
  · rw [hu.1]; simp
  · rw [hu.2.1]; simp
  · rw [hu.2.2.1]; simp
  · rw [hu.2.2.2]; simp

theorem snap_bump (c : Cfg) (l k : Nat) (hk : k < l) (hl : l ≤ 3) : snap (bump c l) k = snap c k := by
  have : l = 1 ∨ l = 2 ∨ l = 3 := by omega
  rcases this with rfl | rfl | rfl
  · have : k = 0 := by omega
    subst this; rfl
  · have : k = 0 ∨ k = 1 := by omega
    rcases this with rfl | rfl <;> rfl
  · have : k = 0 ∨ k = 1 ∨ k = 2 := by omega
    rcases this with rfl | rfl | rfl <;> rfl

theorem ninv_change {s : NState} (h : NInv s) (l : Nat) (hl : l ≤ 3) :
    NInv (update { s with cfg := bump s.cfg l } l) := by
  have hu := update_eq { s with cfg := bump s.cfg l }
  obtain ⟨m1, m2, m3, v0, v1, v2, v3⟩ := h
  have : l = 0 ∨ l = 1 ∨ l = 2 ∨ l = 3 := by omega
  rcases this with rfl | rfl | rfl | rfl
  · rw [hu.1]; constructor <;> simp
  · rw [hu.2.1]; constructor <;> simp
    · intro h0; rw [v0 h0]; rfl
  · rw [hu.2.2.1]; constructor <;> simp
    · exact m1
    · intro h0; rw [v0 h0]; rfl
    · intro h1; rw [v1 h1]; rfl
  · rw [hu.2.2.2]; constructor <;> simp
    · exact m1
    · exact m2
    · intro h0; rw [v0 h0]; rfl
    · intro h1; rw [v1 h1]; rfl
    · intro h2; rw [v2 h2]; rfl

/-! ### the compute functions -/

theorem update_0 (s : NState) : update s 0 = { s with f0 := false, f1 := false, f2 := false, f3 := false } := rfl
theorem update_1 (s : NState) : update s 1 = { s with f1 := false, f2 := false, f3 := false } := rfl
theorem update_2 (s : NState) : update s 2 = { s with f2 := false, f3 := false } := rfl
theorem update_3 (s : NState) : update s 3 = { s with f3 := false } := rfl

theorem ninv_iff (s : NState) : NInv s ↔
    ((s.f1 = true → s.f0 = true) ∧ (s.f2 = true → s.f1 = true) ∧ (s.f3 = true → s.f2 = true)
     ∧ (s.f0 = true → s.a0 = some (snap s.cfg 0)) ∧ (s.f1 = true → s.a1 = some (snap s.cfg 1))
     ∧ (s.f2 = true → s.a2 = some (snap s.cfg 2)) ∧ (s.f3 = true → s.a3 = some (snap s.cfg 3))) :=
  ⟨fun h => ⟨h.m1, h.m2, h.m3, h.v0, h.v1, h.v2, h.v3⟩,
   fun ⟨a, b, c, d, e, f, g⟩ => ⟨a, b, c, d, e, f, g⟩⟩

/-- result of the compute function of level L in a state satisfying the invariant, when the
    solver does not throw: no throw, invariant kept, configuration unchanged, levels ≤ L valid -/
def RunOk (s s' : NState) (L : Nat) : Prop :=
  NInv s' ∧ s'.cfg = s.cfg ∧ s'.f0 = true ∧ (1 ≤ L → s'.f1 = true) ∧ (2 ≤ L → s'.f2 = true)
  ∧ (3 ≤ L → s'.f3 = true)

theorem run_spec (inp : NInput) (hthr : inp.throws = false) {s : NState} (h : NInv s) (L : Nat) (hL : L ≤ 3) :
    (run inp L s).2 = false ∧ RunOk s (run inp L s).1 L := by
  obtain ⟨f0, f1, f2, f3, c, a0, a1, a2, a3⟩ := s
  rw [ninv_iff] at h
  simp only at h
  have : L = 0 ∨ L = 1 ∨ L = 2 ∨ L = 3 := by omega
  rcases this with rfl | rfl | rfl | rfl <;>
  cases f0 <;> cases f1 <;> cases f2 <;> cases f3 <;>
  simp_all [run, compute1, entry_0, entry_1, entry_2, entry_3, update_0, update_1, update_2, update_3,
    NState.flag, NState.setFlag, NState.setArt, RunOk, ninv_iff]

theorem runOk_flag {s s' : NState} {L : Nat} (h : RunOk s s' L) (k : Nat) (hk : k ≤ L) (hL : L ≤ 3) :
    s'.flag k = true := by
  obtain ⟨_, _, h0, h1, h2, h3⟩ := h
  have : k = 0 ∨ k = 1 ∨ k = 2 ∨ k = 3 := by omega
  rcases this with rfl | rfl | rfl | rfl
  · exact h0
  · exact h1 hk
  · exact h2 hk
  · exact h3 hk

theorem ninv_art {s : NState} (h : NInv s) (k : Nat) (hk : k ≤ 3) (hf : s.flag k = true) :
    s.art k = some (snap s.cfg k) := by
  have : k = 0 ∨ k = 1 ∨ k = 2 ∨ k = 3 := by omega
  rcases this with rfl | rfl | rfl | rfl
  · exact h.v0 hf
  · exact h.v1 hf
  · exact h.v2 hf
  · exact h.v3 hf

/-- when the solver throws inside `vyrovnani_` the invariant survives: the flag is taken back, nothing
    is claimed about the adjustment artefacts, the levels below stay valid -/
theorem run3_throw (inp : NInput) (hthr : inp.throws = true) {s : NState} (h : NInv s) :
    NInv (run inp 3 s).1 ∧ (run inp 3 s).1.cfg = s.cfg
    ∧ ((run inp 3 s).2 = true → (run inp 3 s).1.f3 = false)
    ∧ ((run inp 3 s).2 = false → (run inp 3 s).1 = s ∧ s.f3 = true) := by
  obtain ⟨f0, f1, f2, f3, c, a0, a1, a2, a3⟩ := s
  rw [ninv_iff] at h
  simp only at h
  cases f0 <;> cases f1 <;> cases f2 <;> cases f3 <;>
  simp_all [run, compute1, entry_0, entry_1, entry_2, entry_3, update_1, update_2, update_3,
    NState.flag, NState.setFlag, NState.setArt, ninv_iff]

/-! ### public members -/

/-- a table row that reads only what its unconditional prefix has brought up to date -/
structure Gen.Member.WF (m : Member) : Prop where
  covered : m.uncovered = []
  reads : ∀ r ∈ m.reads, ∃ e, m.ensures = some e ∧ r ≤ e
  ens : ∀ e, m.ensures = some e → e ≤ 3
  upd : ∀ u, m.updates = some u → u ≤ 3

def Gen.Member.wfb (m : Member) : Bool :=
  m.uncovered.isEmpty
  && m.reads.all (fun r => match m.ensures with | some e => decide (r ≤ e) | none => false)
  && (match m.ensures with | some e => decide (e ≤ 3) | none => true)
  && (match m.updates with | some u => decide (u ≤ 3) | none => true)

theorem Gen.Member.wf_of_wfb {m : Member} (h : m.wfb = true) : m.WF := by
  simp only [Gen.Member.wfb, Bool.and_eq_true, List.all_eq_true, List.isEmpty_iff] at h
  obtain ⟨⟨⟨h1, h2⟩, h3⟩, h4⟩ := h
  refine ⟨h1, ?_, ?_, ?_⟩
  · intro r hr
    have := h2 r hr
    cases he : m.ensures with
    | none => simp [he] at this
    | some e => simp [he] at this; exact ⟨e, rfl, this⟩
  · intro e he; simp [he] at h3; exact h3
  · intro u hu; simp [hu] at h4; exact h4

def NOp.Ok : NOp → Prop
  | .change l => l ≤ 3
  | .touch l => l ≤ 3
  | .call m => m.WF

def NOp.IsQuery : NOp → Prop
  | .call m => m.updates = none
  | _ => False

/-- the history-free specification: every artefact read is the one computed from the current
    configuration -/
def nspec (c : Cfg) : NOp → NOut
  | .change _ => .ok
  | .touch _ => .ok
  | .call m => .read (m.reads.map fun l => (l, some (snap c l)))

theorem nstep_spec (inp : NInput) (hthr : inp.throws = false) {s : NState} (h : NInv s) (op : NOp) (hop : op.Ok) :
    NInv (nstep inp s op).1 ∧ (nstep inp s op).2 = nspec s.cfg op
    ∧ (∀ m, op = .call m → (nstep inp s op).1.cfg = s.cfg)
    ∧ (∀ l, op = .touch l → (nstep inp s op).1.cfg = s.cfg) := by
  cases op with
  | change l => exact ⟨ninv_change h l hop, rfl, fun m hm => (by cases hm), fun l' hl' => (by cases hl')⟩
  | touch l => exact ⟨ninv_update h l hop, rfl, fun m hm => (by cases hm), fun _ _ => (update_frame s l hop).1⟩
  | call m =>
    obtain ⟨hcov, hreads, hens, hupd⟩ := hop
    -- the state after the unconditional prefix
    have hrun : ∃ s', prefixRun inp m s = (s', false)
        ∧ NInv s' ∧ s'.cfg = s.cfg ∧ ∀ r ∈ m.reads, s'.art r = some (snap s.cfg r) := by
      cases he : m.ensures with
      | none =>
        refine ⟨s, by simp [prefixRun, he], h, rfl, ?_⟩
        intro r hr
        obtain ⟨e, he', _⟩ := hreads r hr
        rw [he] at he'; cases he'
      | some L =>
        have hL := hens L he
        have hr := run_spec inp hthr h L hL
        refine ⟨(run inp L s).1, ?_, hr.2.1, hr.2.2.1, ?_⟩
        · simp only [prefixRun, he]
          rw [← hr.1]
        · intro r hrd
          obtain ⟨e, he', hre⟩ := hreads r hrd
          rw [he] at he'; cases he'
          have hf := runOk_flag hr.2 r hre hL
          rw [ninv_art hr.2.1 r (by omega) hf, hr.2.2.1]
    obtain ⟨s', hs', hi', hc', ha'⟩ := hrun
    have hout : (nstep inp s (.call m)).2 = nspec s.cfg (.call m) := by
      simp only [nstep, hs', hcov, List.map_nil, List.nil_append, nspec, Bool.false_eq_true, if_false]
      congr 1
      have : (m.reads.filter fun l => !([] : List Nat).contains l) = m.reads := by
        apply List.filter_eq_self.mpr; intro a _; simp
      rw [this]
      apply List.map_congr_left
      intro r hr
      rw [ha' r hr]
    have hst : (nstep inp s (.call m)).1 = (match m.updates with | some u => update s' u | none => s') := by
      simp only [nstep, hs', Bool.false_eq_true, if_false]
      rfl
    refine ⟨?_, hout, fun _ _ => ?_, fun l hl => by cases hl⟩
    · rw [hst]
      cases hu : m.updates with
      | none => exact hi'
      | some u => exact ninv_update hi' u (hupd u hu)
    · rw [hst]
      cases hu : m.updates with
      | none => exact hc'
      | some u => simp only; rw [(update_frame s' u (hupd u hu)).1]; exact hc'

theorem nrun_inv (inp : NInput) (hthr : inp.throws = false) {s : NState} (h : NInv s) {ops : List NOp}
    (hops : ∀ o ∈ ops, o.Ok) : NInv (nrun inp s ops) := by
  induction ops generalizing s with
  | nil => exact h
  | cons o ops ih =>
    exact ih (nstep_spec inp hthr h o (hops o (List.mem_cons_self ..))).1
      (fun o' ho' => hops o' (List.mem_cons_of_mem _ ho'))

theorem nstep_eq_fresh (inp : NInput) (hthr : inp.throws = false) {s : NState} (h : NInv s) (op : NOp) (hop : op.Ok) :
    (nstep inp s op).2 = nfresh inp s.cfg op := by
  rw [(nstep_spec inp hthr h op hop).2.1]
  unfold nfresh
  rw [(nstep_spec inp hthr (ninv_init s.cfg) op hop).2.1]
  rfl

theorem nstep_twice (inp : NInput) (hthr : inp.throws = false) {s : NState} (h : NInv s) (m : Member) (hop : m.WF) :
    (nstep inp (nstep inp s (.call m)).1 (.call m)).2 = (nstep inp s (.call m)).2 := by
  have h1 := nstep_spec inp hthr h (.call m) hop
  rw [(nstep_spec inp hthr h1.1 (.call m) hop).2.1, h1.2.1, h1.2.2.1 m rfl]

theorem nstep_after_touch (inp : NInput) (hthr : inp.throws = false) {s : NState} (h : NInv s) (l : Nat) (hl : l ≤ 3)
    (q : NOp) (hq : q.Ok) : (nstep inp (nstep inp s (.touch l)).1 q).2 = (nstep inp s q).2 := by
  have h1 := nstep_spec inp hthr h (.touch l) hl
  rw [(nstep_spec inp hthr h1.1 q hq).2.1, (nstep_spec inp hthr h q hq).2.1, h1.2.2.2 l rfl]

end Gama.C04.Net
