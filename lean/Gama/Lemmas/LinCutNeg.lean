/-
  C05, clause 6 as a negative finding: the witness configuration used by `Props/C05Cut.lean`
  (a sight of length 0.5 µm along the y axis: inside the cut `d < 10⁻⁶` of `bearing_distance`, outside
  the singular set `d = 0`).
-/
import Gama.Lemmas.LinCut
namespace Gama.Lin
open Real

/-- the witness: both end points adjusted, `from = (0, 0, 0)`, `to = (0, 5·10⁻⁷, 0)` (x towards bearing 0) -/
noncomputable def witness : Obs ℝ :=
  { pfrom := ⟨0, 0, 0, .free, .free⟩, pto := ⟨0, 1 / 2000000, 0, .free, .free⟩, pfs := ⟨0, 0, 0, .free, .free⟩,
    value := 1 / 2000000, orientation := 0, xNorth := 0 }

theorem witness_geometry : dX witness = 0 ∧ dY witness = 1 / 2000000 ∧ hdist witness = 1 / 2000000 := by
  have hx : dX witness = 0 := by simp [dX, witness]
  have hy : dY witness = 1 / 2000000 := by simp [dY, witness]
  refine ⟨hx, hy, ?_⟩
  unfold hdist
  rw [hx, hy]
  rw [show (0 : ℝ) * 0 + 1 / 2000000 * (1 / 2000000) = (1 / 2000000) ^ 2 by ring]
  exact Real.sqrt_sq (by norm_num)

end Gama.Lin
