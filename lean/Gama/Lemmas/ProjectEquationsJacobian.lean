/-
  PE — the CONTENT of what `project_equations()` hands over (round 7, gap #1 of notes/CLAUSES.md audit #3):
  the sparse rows of `np` are the Jacobian of the observation functions at the approximate coordinates and
  `np.rhs` are the misclosures.  Until now the theorems about `PE.projectEquations` were structural; the link
  `pe_final` → `assemble_fresh` (one inner call IS `Lin.passFrom` from the cleared state, on `u.net`) was never
  composed with C05's per-pass theorem `Lin.design_matrix_is_jacobian`.

    * `RowMisclosure`   "observed − computed in gama's units" for the 13 classes, one table
                        (the per-class `*_rhs` / `*_correct` statements of `Props/C05.lean`)
    * `lin_rhs_misclosure`   what a member function returns as `rhs` is that
    * `pe_pass`         the last inner call as a pass from `IdxState.init` over `revisedObs u.net`, with the
                        rows / rhs / counts of `np` and the index fields of `u.net` (on every cleared unknown)
    * `lin_events_free` every unknown an observation touches is adjusted (`free_*()`); orientations always
    * `rowSum_zero_of_not_col`, `rows_getD`   list ↔ array glue
-/
import Gama.Lemmas.LinJacobian
import Gama.Lemmas.LinReal
import Gama.Lemmas.ProjectEquationsTotal
namespace Gama.PE
open Gama Gama.Lin Real

/-- **observed − computed** in gama's units (mm; cc reduced to the half-open half circle) -/
def RowMisclosure : Kind → Obs ℝ → ℝ → Prop
  | .direction, o, v => IsWrapOf ((o.value + o.orientation - brg (dX o) (dY o)) * R2CC) v
  | .azimuth, o, v => IsWrapOf ((o.value + o.xNorth - brg (dX o) (dY o)) * R2CC) v
  | .angle, o, v => IsWrapOf ((o.value - angleBsFs o) * R2CC) v
  | .distance, o, v => v = MM * (o.value - hdist o)
  | .s_distance, o, v => v = MM * (o.value - sdist o)
  | .z_angle, o, v => v = R2CC * (o.value - zenithComputed o)
  | .h_diff, o, v => v = MM * (o.value - dZ o)
  | .zdiff, o, v => v = MM * (o.value - dZ o)
  | .xdiff, o, v => v = MM * (o.value - dX o)
  | .ydiff, o, v => v = MM * (o.value - dY o)
  | .x, o, v => v = MM * (o.value - fromX o)
  | .y, o, v => v = MM * (o.value - fromY o)
  | .z, o, v => v = MM * (o.value - fromZ o)

/-- the right-hand side every member function of the regenerated linearisation returns is the misclosure -/
theorem lin_rhs_misclosure (k : Kind) (fuel : Nat) (o : Obs ℝ) (out : LinOut ℝ) (hreg : Regular k o)
    (h : k.lin fuel o = .ok out) : RowMisclosure k o out.rhs := by
  cases k
  case direction => exact (direction_ok fuel o out hreg h).1
  case azimuth => exact (azimuth_ok fuel o out hreg h).1
  case angle => exact (angle_ok fuel o out hreg.1 hreg.2 h).1
  case distance => exact distance_rhs fuel o out hreg h
  case s_distance => exact (s_distance_rhs fuel o out h).2
  case z_angle => exact (z_angle_rhs fuel o out h).2
  case h_diff =>
    have e : Gen.Lin.h_diff fuel o = .ok out := h
    rw [h_diff_eq] at e; injection e with e; subst e; show _ = _; simp [MM]; ring
  case zdiff =>
    have e : Gen.Lin.zdiff fuel o = .ok out := h
    rw [zdiff_eq] at e; injection e with e; subst e; show _ = _; simp [MM]; ring
  case xdiff =>
    have e : Gen.Lin.xdiff fuel o = .ok out := h
    rw [xdiff_eq] at e; injection e with e; subst e; show _ = _; simp [MM]; ring
  case ydiff =>
    have e : Gen.Lin.ydiff fuel o = .ok out := h
    rw [ydiff_eq] at e; injection e with e; subst e; show _ = _; simp [MM]; ring
  case x =>
    have e : Gen.Lin.x fuel o = .ok out := h
    rw [x_eq] at e; injection e with e; subst e; show _ = _; simp [MM]; ring
  case y =>
    have e : Gen.Lin.y fuel o = .ok out := h
    rw [y_eq] at e; injection e with e; subst e; show _ = _; simp [MM]; ring
  case z =>
    have e : Gen.Lin.z fuel o = .ok out := h
    rw [z_eq] at e; injection e with e; subst e; show _ = _; simp [MM]; ring

/-! ### the last inner call as a pass -/

/-- what `pe_final` + `assemble_fresh` say, with the bookkeeping done: `b` is the pass of `Lin.passFrom` from the
    cleared state over `revised_obs_` of the network the call leaves -/
structure Pass {K : Type} [TrigScalar K] (np : Ls.Net.NetProblem K) (u : Unknowns K) (b : PassOut K) : Prop where
  pass : passFrom (sigmaOf u.net) u.net.fuel (revisedObs u.net) IdxState.init = .ok b
  ok : PassOK (revisedObs u.net) IdxState.init b
  m : np.m = (revisedObs u.net).length
  n : np.n = b.idx.maxn
  rows : np.rows = (b.rows.map List.toArray).toArray
  rhs : np.rhs = b.rhs.toArray
  agree : ∀ v, Cleared u.net v → u.net.idx.get v = b.idx.get v

theorem pe_pass {K : Type} [TrigScalar K] (net : Net K) (np : Ls.Net.NetProblem K) (u : Unknowns K)
    (h : projectEquations net = .ok (np, u)) : ∃ b, Pass np u b := by
  obtain ⟨net', a, F⟩ := pe_final net np u h
  obtain ⟨b, Fr⟩ := assemble_fresh net' a F.asm
  refine ⟨b, ?_⟩
  have e : u.net = { net' with idx := a.idx } := F.u_net
  constructor
  · rw [e]; exact Fr.pass
  · rw [e]; exact Fr.ok
  · rw [e, F.np_eq]; exact Fr.m
  · rw [F.np_eq]; exact Fr.n
  · rw [F.np_eq]; exact Fr.rows
  · rw [F.np_eq]; exact Fr.rhs
  · rw [e]; exact Fr.agree

/-- row `r` of the array of arrays handed to the solver is row `r` of the pass -/
theorem rows_getD {K : Type} (rows : List (List (Nat × K))) (r : Nat) :
    (((rows.map List.toArray).toArray).getD r #[]).toList = rows.getD r [] := by
  by_cases hr : r < rows.length
  · simp [hr]
  · simp [hr]

theorem rhs_get {K : Type} (l : List K) (r : Nat) : l.toArray[r]? = l[r]? := by simp

theorem rowSum_zero_of_not_col (row : List (Nat × ℝ)) (j : Nat) (h : ∀ e ∈ row, e.1 ≠ j) : rowSum row j = 0 := by
  induction row with
  | nil => rfl
  | cons e t ih =>
    obtain ⟨i, v⟩ := e
    rw [rowSum_cons, if_neg (h (i, v) List.mem_cons_self), ih (fun e he => h e (List.mem_cons_of_mem _ he)), add_zero]

/-! ### touched unknowns are adjusted -/

theorem lin_events_free (net : Net ℝ) (ob : NObs ℝ) (out : LinOut ℝ)
    (h : ob.kind.lin net.fuel ((sigmaOf net).view ob) = .ok out) :
    ∀ e ∈ out.evs, (sigmaOf net).isFree (evTarget ob.name e) = true := by
  intro e he
  have hs : shapeOfEv e ∈ kindShape ob.kind ((sigmaOf net).view ob) := by
    rw [← shape_of_ok _ _ _ _ h, evShape_eq_map]; exact List.mem_map_of_mem he
  have hf := shapeB_free _ _ _ _ _ _ _ hs
  rw [evTarget_eq, name_eq]
  generalize shapeOfEv e = x at hf
  obtain ⟨b, r, c⟩ := x
  simp only at hf ⊢
  cases c <;> cases r <;>
    first
    | rfl
    | (simp [freeB] at hf; done)
    | simpa [freeB, Lin.Net.isFree, sigmaOf, Lin.Net.view, roleId] using hf

/-- an adjusted unknown is one the prologue cleared -/
theorem cleared_of_free (net : Net ℝ) (v : Unk) (h : (sigmaOf net).isFree v = true) : Cleared net v := by
  obtain ⟨id, c⟩ := v
  cases c
  case ori => exact Or.inl rfl
  all_goals
    right
    show Gen.Lin.resetGuard (ptAt net id) = true
    first
    | exact (resetGuard_of_free _).1 h
    | exact (resetGuard_of_free _).2 h

/-- every column `1 … n` of the pass belongs to an ADJUSTED unknown, whose index field in the network the call
    leaves is that column -/
theorem Pass.col_owner {np : Ls.Net.NetProblem ℝ} {u : Unknowns ℝ} {b : PassOut ℝ} (P : Pass np u b)
    (j : Nat) (h1 : 1 ≤ j) (h2 : j ≤ np.n) :
    ∃ v, (sigmaOf u.net).isFree v = true ∧ u.net.idx.get v = j ∧ b.idx.get v = j := by
  obtain ⟨v, hv, hj⟩ := IdxState.exists_key P.ok.wf j h1 (by rw [← P.n]; exact h2)
  rcases passFrom_keys _ _ _ _ _ P.pass v hv with h0 | ⟨ob, _, out, ho, r, c, he, hvn⟩
  · simp [IdxState.init] at h0
  · have hfree : (sigmaOf u.net).isFree v = true := by
      have := lin_events_free u.net ob out ho (Ev.touch r c) he
      rw [hvn]; exact this
    exact ⟨v, hfree, by rw [P.agree v (cleared_of_free _ _ hfree)]; exact hj, hj⟩

end Gama.PE
