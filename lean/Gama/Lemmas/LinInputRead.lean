/-
  C05, clause 5 — the two remaining hypotheses of `C05_azimuth_rhs_geographic_from_input`
  (`Lemmas/LinInputAxes.lean`) looked at more closely.

  (1) `ReadsInternal σ n` ("the `Lin.Net` the pass reads holds x, y of the points as `remove_inconsistency`
      left them").  No bridge `Input.Net → PE.Net / Lin.Net` existed (C07 works on `PE.Net` and on what the pass
      reads, `mirLin`/`mirNet`, never on `Input.Net`), so the reader is defined HERE: `netOfInput n st ori` is the
      `Lin.Net` whose `pt i` holds x, y, z of `(Input.removeInconsistency n).points[i]` (a missing point is the
      default-constructed `⟨0,0,0,unused,unused⟩`, as `PE.ptAt` does), with statuses `st`, orientations `ori`
      (neither is read by the azimuth right-hand side) and `xNorth = Gen.XNorth.xNorthAngle n.cs (!n.leftHandedAngles)`
      (`PointData::xNorthAngle()` reads the same two attributes).  For it `ReadsInternal` AND `hN` hold by
      definition (`reads_internal_netOfInput`, `rfl`).  For the network record of `Model/ProjectEquations.lean`:
      `reads_internal_sigmaOf` — `PE.sigmaOf net` satisfies `ReadsInternal` as soon as the record lists the
      points at the same positions with the same x, y (`HoldsInput`).

  (2) `FileCoords` (the meaning of the axes code) cannot be derived; what can be proved is that the regenerated
      tables (`Gen.XNorth.xNorthGon`, `left/rightHandedCoordinates`) are consistent with the documented reading
      `CS.xDir`, `CS.yDir` and with NO OTHER assignment of compass directions to the two axes
      (`axes_reading_unique`), and that under `FileCoords` the internal bearing of a line is its geographic
      azimuth in the sense in force plus `xNorthAngle` (`internal_bearing_from_input`; due north: `xNorthAngle`
      itself).
-/
import Gama.Lemmas.LinInputAxes
import Gama.Model.ProjectEquations
namespace Gama.Lin
open Real

/-! ### (1) the reader -/

/-- what `LocalLinearization` reads when `LocalNetwork` hands it `PD` after `remove_inconsistency()`: the point at
    position `i` with the coordinates `remove_inconsistency` left, statuses `st i`, `xNorthAngle()` of the same
    `axes-xy` / `angles` attributes -/
noncomputable def netOfInput (n : Input.Net ℝ) (st : Nat → Status × Status) (ori : Nat → ℝ) : Net ℝ :=
  { pt := fun i => match (Input.removeInconsistency n).points[i]? with
      | some p => ⟨p.x, p.y, p.z, (st i).1, (st i).2⟩
      | none => ⟨0, 0, 0, .unused, .unused⟩
    ori := ori
    xNorth := Gen.XNorth.xNorthAngle n.cs (!n.leftHandedAngles) }

theorem netOfInput_pt (n : Input.Net ℝ) (st : Nat → Status × Status) (ori : Nat → ℝ) (i : Nat) (p : Input.NetPoint ℝ)
    (h : (Input.removeInconsistency n).points[i]? = some p) :
    (netOfInput n st ori).pt i = ⟨p.x, p.y, p.z, (st i).1, (st i).2⟩ := by
  simp [netOfInput, h]

/-- `ReadsInternal` holds for the reader — by definition (no hypothesis; also for the points without xy) -/
theorem reads_internal_netOfInput (n : Input.Net ℝ) (st : Nat → Status × Status) (ori : Nat → ℝ) :
    ReadsInternal (netOfInput n st ori) n := by
  intro i p h _
  rw [netOfInput_pt n st ori i p h]
  exact ⟨rfl, rfl⟩

/-- the network record of `Model/ProjectEquations.lean` lists the internal points at the same positions -/
def HoldsInput (net : PE.Net ℝ) (n : Input.Net ℝ) : Prop :=
  ∀ (i : Nat) (p : Input.NetPoint ℝ), (Input.removeInconsistency n).points[i]? = some p → p.hasXY = true →
    ∃ q : PE.Point ℝ, net.points[i]? = some q ∧ q.pt.x = p.x ∧ q.pt.y = p.y

/-- `ReadsInternal` for what `PE.linPass` reads (`PE.sigmaOf`) -/
theorem reads_internal_sigmaOf (net : PE.Net ℝ) (n : Input.Net ℝ) (h : HoldsInput net n) :
    ReadsInternal (PE.sigmaOf net) n := by
  intro i p hp hxy
  obtain ⟨q, hq, hx, hy⟩ := h i p hp hxy
  simp [PE.sigmaOf, PE.ptAt, hq, hx, hy]

/-- the azimuth theorem with `ReadsInternal` and `hN` REMOVED: the net is the reader's -/
theorem azimuth_rhs_geographic_from_input_reader (n : Input.Net ℝ) (hrem : n.removed = false) (E N : Nat → ℝ)
    (hfile : FileCoords n E N) (st : Nat → Status × Status) (ori : Nat → ℝ) (ob : NObs ℝ)
    (pi pj : Input.NetPoint ℝ)
    (hi : (Input.removeInconsistency n).points[ob.pfrom]? = some pi) (hj : (Input.removeInconsistency n).points[ob.pto]? = some pj)
    (hxi : pi.hasXY = true) (hxj : pj.hasXY = true)
    (α : ℝ) (hα : IsPolarAngle (N ob.pto - N ob.pfrom) (E ob.pto - E ob.pfrom) α)
    (fuel : Nat) (out : LinOut ℝ) (h : ¬ hdist ((netOfInput n st ori).view ob) < CUT)
    (hok : Gen.Lin.azimuth fuel ((netOfInput n st ori).view ob) = .ok out) :
    IsWrapOf ((ob.value - (if (!n.leftHandedAngles) then -α else α)) * R2CC) out.rhs :=
  azimuth_rhs_geographic_from_input n hrem E N hfile (netOfInput n st ori) (reads_internal_netOfInput n st ori) ob pi pj
    hi hj hxi hxj rfl α hα fuel out h hok

/-! ### (2) the axes code: consistency of the generated tables with the documented reading, and uniqueness -/

/-- under `FileCoords`, a line of geographic azimuth `α` (clockwise from north) between two points with xy has, in
    the coordinates `remove_inconsistency` left, the bearing `(α in the sense in force) + xNorthAngle` -/
theorem internal_bearing_from_input (n : Input.Net ℝ) (hrem : n.removed = false) (E N : Nat → ℝ) (hfile : FileCoords n E N)
    (i j : Nat) (pi pj : Input.NetPoint ℝ)
    (hi : (Input.removeInconsistency n).points[i]? = some pi) (hj : (Input.removeInconsistency n).points[j]? = some pj)
    (hxi : pi.hasXY = true) (hxj : pj.hasXY = true)
    (α : ℝ) (hα : IsPolarAngle (N j - N i) (E j - E i) α) :
    IsPolarAngle (pj.x - pi.x) (pj.y - pi.y)
      ((if (!n.leftHandedAngles) then -α else α) + (Gen.XNorth.xNorthAngle n.cs (!n.leftHandedAngles) : ℝ)) := by
  obtain ⟨dx, dy⟩ := internal_differences n hrem E N hfile i j pi pj hi hj hxi hxj
  rw [dx, dy]
  exact internal_bearing_geographic n.cs (!n.leftHandedAngles) (E j - E i) (N j - N i) α hα

/-- a displacement due north has geographic azimuth 0 -/
theorem north_polar (d : ℝ) (hd : 0 ≤ d) : IsPolarAngle d 0 0 := by
  constructor
  · rw [show d * d + 0 * 0 = d * d by ring, Real.sqrt_mul_self hd, Real.cos_zero, mul_one]
  · rw [Real.sin_zero, mul_zero]

/-- under `FileCoords`, `xNorthAngle` IS the internal bearing of the line due north: the angle, in the sense in
    force, from the internal +x axis to geographic north -/
theorem xnorth_is_bearing_of_north (n : Input.Net ℝ) (hrem : n.removed = false) (E N : Nat → ℝ) (hfile : FileCoords n E N)
    (i j : Nat) (pi pj : Input.NetPoint ℝ)
    (hi : (Input.removeInconsistency n).points[i]? = some pi) (hj : (Input.removeInconsistency n).points[j]? = some pj)
    (hxi : pi.hasXY = true) (hxj : pj.hasXY = true) (hE : E j = E i) (hN : N i ≤ N j) :
    IsPolarAngle (pj.x - pi.x) (pj.y - pi.y) (Gen.XNorth.xNorthAngle n.cs (!n.leftHandedAngles) : ℝ) := by
  have hα : IsPolarAngle (N j - N i) (E j - E i) 0 := by
    rw [hE, sub_self]; exact north_polar _ (by linarith)
  have := internal_bearing_from_input n hrem E N hfile i j pi pj hi hj hxi hxj 0 hα
  have e : ((if (!n.leftHandedAngles) = true then -(0:ℝ) else 0) + (Gen.XNorth.xNorthAngle n.cs (!n.leftHandedAngles) : ℝ))
      = Gen.XNorth.xNorthAngle n.cs (!n.leftHandedAngles) := by
    cases n.leftHandedAngles <;> simp
  rw [e] at this
  exact this

/-- a reading of the axes code `cs`: "+x points to `dx`, +y points to `dy`" is compatible with the regenerated code
    when (a) `xNorthAngle()` is, for both angle senses, north seen from `dx` in that sense, and (b), (c) the
    handedness classification of lcoords.h is that of the pair (`dy` = `dx` turned clockwise by 100 gon: left-handed;
    `dx` = `dy` turned clockwise by 100 gon: right-handed) -/
def AxesReading (cs : CS) (dx dy : Dir) : Prop :=
  (∀ rh : Bool, Gen.XNorth.xNorthGon cs rh = (((400 - senseGon rh dx.az) % 400 : Nat) : Int)) ∧
  (Gen.XNorth.leftHandedCoordinates cs = true ↔ dy.az = (dx.az + 100) % 400) ∧
  (Gen.XNorth.rightHandedCoordinates cs = true ↔ dx.az = (dy.az + 100) % 400)

/-- the documented reading (`CS.xDir`, `CS.yDir`: first letter = +x, second letter = +y) is compatible with the
    regenerated tables, and it is the ONLY one among the 4 × 4 assignments of compass directions to the two axes -/
theorem axes_reading_unique (cs : CS) (dx dy : Dir) : AxesReading cs dx dy ↔ dx = cs.xDir ∧ dy = cs.yDir := by
  constructor
  · rintro ⟨h1, h2, h3⟩
    have a := h1 false
    have b := h1 true
    clear h1
    revert a b h2 h3
    cases cs <;> cases dx <;> cases dy <;> decide
  · rintro ⟨rfl, rfl⟩
    exact ⟨fun rh => xnorth_spec cs rh, (handedness_spec cs).1, (handedness_spec cs).2⟩

/-- the table of `xNorthAngle()` alone already fixes the +x axis (one sense suffices) -/
theorem xnorth_fixes_xDir (cs : CS) (rh : Bool) (dx : Dir)
    (h : Gen.XNorth.xNorthGon cs rh = (((400 - senseGon rh dx.az) % 400 : Nat) : Int)) : dx = cs.xDir := by
  revert h
  cases cs <;> cases rh <;> cases dx <;> decide

/-! ### the instance `exIn` read by the reader -/

theorem exIn_reader_eq (ori : Nat → ℝ) : (netOfInput exIn (fun _ => (.free, .free)) ori).view exInOb
    = { (exInσ.view exInOb) with orientation := ori 0 } := by
  simp only [netOfInput, Net.view, exInOb, exIn_removed]
  simp [exInσ, exIn]

theorem exIn_reader_hdist : ¬ hdist ((netOfInput exIn (fun _ => (.free, .free)) (fun _ => 0)).view exInOb) < CUT := by
  rw [exIn_reader_eq]; exact exIn_hdist

/-! ### the bearing law itself singles out the reading (semantic uniqueness, over ℝ) -/

/-- two vectors with a common polar angle are parallel and point the same way (either may be 0) -/
theorem polar_parallel {x y x' y' θ : ℝ} (h : IsPolarAngle x y θ) (h' : IsPolarAngle x' y' θ) :
    x * y' = x' * y ∧ 0 ≤ x * x' + y * y' := by
  obtain ⟨a, b⟩ := h
  obtain ⟨a', b'⟩ := h'
  have hr : 0 ≤ Real.sqrt (x * x + y * y) := Real.sqrt_nonneg _
  have hr' : 0 ≤ Real.sqrt (x' * x' + y' * y') := Real.sqrt_nonneg _
  have hcs := Real.cos_sq_add_sin_sq θ
  generalize Real.sqrt (x * x + y * y) = r at a b hr
  generalize Real.sqrt (x' * x' + y' * y') = r' at a' b' hr'
  subst a b a' b'
  constructor
  · ring
  · have e : r * Real.cos θ * (r' * Real.cos θ) + r * Real.sin θ * (r' * Real.sin θ) = r * r' := by
      linear_combination (r * r') * hcs
    rw [e]; exact mul_nonneg hr hr'

theorem east_polar : IsPolarAngle 0 1 (π / 2) := by
  simp [IsPolarAngle]

theorem ySign_sq (cs : CS) (rh : Bool) : ySign cs rh * ySign cs rh = 1 := by
  unfold ySign; split <;> norm_num

/-- the bearing law of a candidate reading "+x points to `dx`, +y points to `dy`": every line of geographic azimuth `α`
    has, after the mirroring `y_sign()`, the bearing `(α in the sense in force) + xNorthAngle` -/
def BearingLaw (cs : CS) (rh : Bool) (dx dy : Dir) : Prop :=
  ∀ dE dN α : ℝ, IsPolarAngle dN dE α →
    IsPolarAngle (comp dx dE dN) (ySign cs rh * comp dy dE dN) ((if rh then -α else α) + (Gen.XNorth.xNorthAngle cs rh : ℝ))

/-- for each code and EACH sense separately: the bearing law (with the regenerated `xNorthAngle`, `consistent`) holds
    for the reading `(dx, dy)` iff it is the documented one.  Only the lines due north and due east are used. -/
theorem bearing_law_unique (cs : CS) (rh : Bool) (dx dy : Dir) :
    BearingLaw cs rh dx dy ↔ dx = cs.xDir ∧ dy = cs.yDir := by
  constructor
  · intro h
    have hσ := ySign_sq cs rh
    obtain ⟨n1, n2⟩ := polar_parallel (h 0 1 0 (north_polar 1 zero_le_one))
      (internal_bearing_geographic cs rh 0 1 0 (north_polar 1 zero_le_one))
    obtain ⟨e1, e2⟩ := polar_parallel (h 1 0 (π / 2) east_polar)
      (internal_bearing_geographic cs rh 1 0 (π / 2) east_polar)
    generalize ySign cs rh = σ at hσ n1 n2 e1 e2
    have qn1 : comp dx 0 1 * comp cs.yDir 0 1 = comp cs.xDir 0 1 * comp dy 0 1 := by
      linear_combination σ * n1 - (comp dx 0 1 * comp cs.yDir 0 1 - comp cs.xDir 0 1 * comp dy 0 1) * hσ
    have qe1 : comp dx 1 0 * comp cs.yDir 1 0 = comp cs.xDir 1 0 * comp dy 1 0 := by
      linear_combination σ * e1 - (comp dx 1 0 * comp cs.yDir 1 0 - comp cs.xDir 1 0 * comp dy 1 0) * hσ
    have qn2 : 0 ≤ comp dx 0 1 * comp cs.xDir 0 1 + comp dy 0 1 * comp cs.yDir 0 1 := by
      have : σ * comp dy 0 1 * (σ * comp cs.yDir 0 1) = comp dy 0 1 * comp cs.yDir 0 1 := by
        linear_combination (comp dy 0 1 * comp cs.yDir 0 1) * hσ
      rw [this] at n2; exact n2
    have qe2 : 0 ≤ comp dx 1 0 * comp cs.xDir 1 0 + comp dy 1 0 * comp cs.yDir 1 0 := by
      have : σ * comp dy 1 0 * (σ * comp cs.yDir 1 0) = comp dy 1 0 * comp cs.yDir 1 0 := by
        linear_combination (comp dy 1 0 * comp cs.yDir 1 0) * hσ
      rw [this] at e2; exact e2
    clear n1 n2 e1 e2 h hσ
    revert qn1 qn2 qe1 qe2
    cases cs <;> cases dx <;> cases dy <;> norm_num [comp, CS.xDir, CS.yDir]
  · rintro ⟨rfl, rfl⟩ dE dN α hα
    exact internal_bearing_geographic cs rh dE dN α hα

/-- a network record listing the two internal points of `exIn` -/
noncomputable def exInPE : PE.Net ℝ :=
  { points := [⟨"P0", ⟨0, 0, 0, .free, .free⟩⟩, ⟨"P1", ⟨0, -100, 0, .free, .free⟩⟩], clusters := [], m0 := 10,
    xNorth := Gen.XNorth.xNorthAngle .EN false, fuel := 4, idx := IdxState.init }

theorem exInPE_holds : HoldsInput exInPE exIn := by
  intro i p h _
  rw [exIn_removed] at h
  rcases i with _ | _ | i
  · simp at h; subst h; exact ⟨_, rfl, rfl, rfl⟩
  · simp at h; subst h; exact ⟨_, rfl, rfl, rfl⟩
  · simp at h

theorem exIn_north : exInE 1 = exInE 0 ∧ exInN 0 ≤ exInN 1 := by
  simp [exInE, exInN]

end Gama.Lin
