/-
  A concrete number format for the non-vacuity examples of Props/C13: numbers are their decimal text.
-/
import Gama.Model.Export
namespace Gama.Export

def strFmt : NumFmt String := ⟨id, some, "0", (· == "0")⟩

end Gama.Export
