/-
  A concrete number format for the non-vacuity examples of Props/C13: numbers are their decimal text.
-/
import Gama.Model.Export
import Gama.Model.ExportNet
namespace Gama.Export
open Gama.Gen.GkfAttrs Gama.Gen.GkfDoc

def strFmt : NumFmt String := ⟨id, some, "0", (· == "0")⟩

/-- numbers as decimal text, `-` prefixed for the mirrored ones (for reading the examples; not lawful on every string) -/
def strCodec : Codec String :=
  { strFmt with neg := fun s => "-" ++ s, fmtI := toString, rdI := String.toInt?, latOut := id, latIn := id, fmtDeg := id,
                rdDeg := fun _ => none, toSec := id, fromSec := id, pos := fun s => s != "0", lt1 := fun _ => true,
                ellKnown := fun _ => true, sdDist := fun _ d => d }

/-- a lawful instance: unary numerals (`n` is printed as `n+1` strokes), sign and unit conversions trivial -/
def unaryCodec : Codec Nat :=
  { fmt := fun n => String.ofList (List.replicate (n + 1) 'x'), rd := fun t => some (t.length - 1), zero := 0, isZero := (· == 0),
    neg := id, fmtI := fun i => String.ofList (List.replicate (i + 2).toNat 'i'), rdI := fun t => some ((t.length : Int) - 2),
    latOut := id, latIn := id, fmtDeg := fun _ => "", rdDeg := fun _ => none, toSec := id, fromSec := id,
    pos := fun n => 0 < n, lt1 := fun _ => true, ellKnown := fun e => e == "wgs84", sdDist := fun s d => s * d }

/-- a small network with every cluster kind: A fixed, B constrained in xy and free in z, C unused (not exported) -/
def sampleNet : Net Nat :=
  { head := ⟨.en, true, some 7⟩, descr := "sample",
    par := ⟨10, 1, 1000, true, true, some "gso", some 50, some "wgs84", -1⟩,
    points := [⟨"A", some (1, 2), some 3, .fixed, .fixed⟩, ⟨"B", some (4, 5), none, .constr, .free⟩,
               ⟨"C", some (6, 7), none, .unused, .unused⟩],
    clusters := [.obs ⟨"A", [⟨.direction, "A", "B", "", 30, 10, 0, 2, 0, "e"⟩, ⟨.angle, "A", "B", "C", 40, 10, 1, 0, 3, ""⟩]⟩
                   (some ⟨2, 1, [100, 20, 100]⟩),
                 .hdiffs [⟨"A", "B", 5, 2, 20, ""⟩, ⟨"B", "A", 5, 0, 3, "lev"⟩] none,
                 .coords "gps" [⟨"B", some (4, 5), none⟩] ⟨2, 1, [1, 0, 1]⟩,
                 .vectors [⟨"A", "B", 3, 3, 3, 0, 0, ""⟩] ⟨3, 2, [1, 0, 0, 1, 0, 1]⟩] }

end Gama.Export
