/-
  C03 over solver-object histories (round 6): the small vocabulary of `Props/C03/History.lean`.
  The models and their invariants are C04's (`Lemmas/EnvState.lean`, `EnvHist.lean`, `EnvDenote.lean`,
  `FullState.lean`, …); nothing is duplicated here.
-/
import Gama.Lemmas.EnvDenote
import Gama.Lemmas.EnvStateFacts
import Gama.Lemmas.FullDenote
namespace Gama.C03H
open Gama Gama.C04

/-- the cofactor member functions of `AdjEnvelope` -/
def IsCofactor : C04.Op → Prop
  | .qxx _ _ => True
  | .q0xx _ _ => True
  | .qbb _ _ => True
  | _ => False

/-- the cofactor member functions of the full-matrix solvers -/
def IsCofactorF : C04.Full.Op → Prop
  | .qxx _ _ => True
  | .qbb _ _ => True
  | .qbx _ _ => True
  | _ => False

/-- the element the code reads for `q_xx(i,j)` is `(i,j)` or its mirror image -/
theorem codeOrder_qxx (inp : EnvInput) (i j : Nat) :
    codeOrder inp (.qxx i j) = .qxx i j ∨ codeOrder inp (.qxx i j) = .qxx j i := by
  unfold codeOrder q0pair
  by_cases hn : inp.nullity = 0
  · by_cases he : inp.inEnv (inp.invp i) (inp.invp j) = true
    · simp [hn, he]
    · by_cases hl : inp.invp i < inp.invp j
      · simp [hn, he, hl]
      · simp [hn, he, hl]
  · simp [hn]

end Gama.C03H
