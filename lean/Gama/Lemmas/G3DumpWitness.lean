/-
  C19 — a joint witness over ℝ of the composite theorems of `Props/C19Dump.lean`: one point with fixed n, e and free u,
  two consistent height records in one cluster with unit covariance.  `dumpOfR` evaluated to an explicit `Problem`,
  `AdjM.homogenise`, the Gram–Schmidt run over ℝ, `RankGap` / `SingGap` for the one-column system (proved generically for
  a matrix of ones with two rows and one column, so that the index types `Fin p.m`, `Fin p.n` of a problem need not be
  numerals), and the transfer lemma `w_facts`.
-/
import Gama.Lemmas.G3DumpInput
import Gama.Lemmas.G3NetExample
import Gama.Lemmas.Ls.ComposeAdjExample
namespace Gama
namespace G3Dump
namespace W
open Neu G3Book G3Lin G3Net Matrix Gama.Gen.G3Lin Gama.Ls Gama.LS Gama.Ls.AdjM

set_option linter.unusedSectionVars false
set_option linter.unusedVariables false
set_option linter.unusedSimpArgs false

attribute [local instance] sqrtFnOfSqrtField
attribute [local instance 2000] scalarOfField

/-- point 0: n, e fixed, u free; ellipsoidal height 5, geoid 1 (model height 4) -/
noncomputable def wNet : Net Nat ℝ :=
  ⟨fun n => if n = 0 then some ⟨0, 0, 0, 0, 0, 0, 0, 0, 5, 1, 0, 0, rot0, ⟨true, false, true, .fixed, .fixed, .free⟩⟩ else none, 1000⟩

/-- a height record observing 4 -/
noncomputable def wOb : NObs Nat ℝ := ⟨.height 0, ⟨4, 0, 0, 0, 0, 0, 0⟩⟩
noncomputable def wObs : List (NObs Nat ℝ) := [wOb, wOb]
/-- one cluster, unit 2×2 covariance -/
noncomputable def wCls : List (Cluster Nat ℝ) := [⟨⟨2, 0, #[1, 1]⟩, [(true, wOb), (true, wOb)]⟩]

theorem w_nobs : nobsOf wCls = wObs := rfl

theorem w_bookOf : bookOf wNet wObs = updateObservations wNet.points [.height 0, .height 0] := rfl

theorem w_book : (bookOf wNet wObs).idx.cols = 1 ∧ (bookOf wNet wObs).rows = 2 ∧
    minx wNet.points (bookOf wNet wObs) = [] ∧ (bookOf wNet wObs).idx.ind (0, .U) = 1 := by
  rw [w_bookOf]
  refine ⟨by decide, by decide, by decide, by decide⟩

theorem w_active : activeOf wNet wObs = wObs := by
  have h1 : (revision wNet.points (.height 0)).isSome = true := by decide
  unfold activeOf wObs wOb
  rw [List.filter_cons_of_pos (by simpa using h1), List.filter_cons_of_pos (by simpa using h1)]
  rfl

theorem w_linObs (ind : Par Nat → Nat) :
    @linObs Nat ℝ realTrig wNet ind wOb = ⟨[[((1 : ℝ), ind (0, .U))]], [0], false⟩ := by
  show evalLin _ (@Gen.G3Lin.height ℝ realTrig _ wOb.o wNet.tol) = _
  rw [gen_height_eq]
  simp [linHeight, toPt, ptsOf, roleName, wOb, wNet, mkGPt, GPt.index, GPt.state, PtS.normalise, PState.isFree,
    PState.isFixed, PState.isConstr, Pt.modelHeight, GPt.ind]
  norm_num

theorem w_eqs : netEqsR wNet wObs = [([((1 : ℝ), 1)], 0), ([((1 : ℝ), 1)], 0)] := by
  unfold netEqsR netEqs linearizeNet
  rw [w_active]
  simp only [wObs, List.map_cons, List.map_nil, List.flatMap_cons, List.flatMap_nil, w_linObs]
  have hi : (bookOf wNet [wOb, wOb]).idx.ind (0, .U) = 1 := w_book.2.2.2
  simp [hi]

theorem activeCov_2_0_tt {K : Type} [Zero K] (a b : K) :
    Cov.activeCov ⟨2, 0, #[a, b]⟩ [⟨true, 1⟩, ⟨true, 1⟩] = ⟨2, 0, #[a, b]⟩ := by
  simp [Cov.activeCov, Cov.activeCovOf, Cov.activeIdx, Cov.CovMat.mk', Cov.Packed.size, Cov.CovMat.set, Cov.CovMat.get,
    Cov.Packed.idx, Cov.Packed.rowOff, Cov.CovMat.rawSet, Cov.CovMat.raw, Cov.CovMat.inBuf, List.range, List.range.loop,
    List.range'_succ, List.range'_zero]
  rfl

theorem w_cov : covBlocks wNet 1 wCls = [⟨2, 0, #[1, 1]⟩] := by
  have h1 : (revision wNet.points (.height 0)).isSome = true := by decide
  have hinfo : infoOf wNet ⟨⟨2, 0, #[1, 1]⟩, [(true, wOb), (true, wOb)]⟩ = [⟨true, 1⟩, ⟨true, 1⟩] := by
    simp [infoOf, wOb, h1, Obs.dimension]
  simp only [covBlocks, wCls, List.filterMap_cons, List.filterMap_nil, clusterBlock, hinfo, activeCov_2_0_tt, cofactor,
    cofactorBlock]
  norm_num

/-- gama-g3's adjustment input for the witness, explicitly -/
noncomputable def wP : Problem ℝ :=
  { m := 2, n := 1, rows := #[#[(1, 1)], #[(1, 1)]], cov := #[⟨2, 0, #[1, 1]⟩], rhs := #[0, 0], reg := .none }

theorem w_dump : dumpOfR wNet 1 wCls = wP := by
  show ({ m := (netEqsR wNet (nobsOf wCls)).length, n := (bookOf wNet (nobsOf wCls)).idx.cols,
          rows := ((netEqsR wNet (nobsOf wCls)).map fun e => rowOf e.1).toArray,
          cov := (covBlocks wNet 1 wCls).toArray,
          rhs := ((netEqsR wNet (nobsOf wCls)).map (·.2)).toArray,
          reg := G3Dump.regOf (minx wNet.points (bookOf wNet (nobsOf wCls))) } : Problem ℝ) = wP
  rw [w_nobs, w_eqs, w_cov, w_book.1, w_book.2.2.1]
  rfl

/-! ### class `Adj` on the witness: block Cholesky, homogenisation, Gram–Schmidt -/

section solve
open Gama.Ls.Gso Gama.Ls.Dn Gama.Ls.Ex

set_option maxRecDepth 8000 in
theorem w_factors : factorsL wP.cov.toList = .ok [#[#[1, 0], #[0, 1]]] := by
  simp [wP, factorsL, choldec, ldl, ldlRows, blockDense, rowOff, scaleChol, Chol.elim, mmk, mget, vget, pmk, pget,
    Chol.invPerm, Chol.posOf, sget, maxDiag, epsilon, Array.ofFn_succ, Scalar.max, sqS, ofNatS, Except.map,
    List.range, List.range.loop]
  norm_num
  exact Real.sqrt_one

set_option maxRecDepth 8000 in
theorem w_homogenise : homogenise wP = .ok (#[#[1], #[1]], #[0, 0]) := by
  unfold homogenise
  simp only [w_factors]
  simp [wP, Problem.dense, locate, forwardSubst, sweep, subFrom, mmk, vmk, mget, vget, Array.ofFn_succ,
    List.range, List.range.loop, List.range']

noncomputable def wDot : Problem ℝ := dotProblem wP #[#[1], #[1]] #[0, 0] (AdjM.regOf wP.reg)

theorem wDot_dense : wDot.dense = #[#[1], #[1]] := by
  simp [wDot, dotProblem, Problem.dense, wP, mget, Array.ofFn_succ, List.range, List.range.loop]

theorem wDot_run : runOf wDot = run (tolerance : ℝ) 2 1 (entry #[#[1], #[1]])
    (fun i => (#[0, 0] : Array ℝ).getD i 0) [true] := by
  unfold runOf
  rw [wDot_dense]
  rfl

set_option maxRecDepth 8000 in
theorem wDot_result : (runOf wDot).rhs.bot = [0] ∧ (runOf wDot).dep = [] ∧ (runOf wDot).err = 0 := by
  have h0 : ¬ (tolerance : ℝ) < 0 := not_lt.2 (le_of_lt Gso.Ex.tol_pos)
  have h1 := Gso.Ex.tol_lt_one
  have hs1 : (1 : ℝ) < Real.sqrt 2 := by
    rw [show (1 : ℝ) = Real.sqrt 1 by simp]; exact Real.sqrt_lt_sqrt (by norm_num) (by norm_num)
  have h2 : (tolerance : ℝ) < Real.sqrt 2 := by linarith
  have h2' : (tolerance : ℝ) < Real.sqrt (1 + 1) := by norm_num; exact h2
  have hne : Real.sqrt 2 ≠ 0 := by positivity
  have h2q : (tolerance : ℝ) < SqrtFn.sq 2 := h2
  rw [wDot_run]
  norm_num [run, augmented, entry, icgs1, icgs2, step1, orth1, cgs1, subAll,
    dot, dotAux, norm1, Col.axpy, Col.scale, vaxpy, vscale, phase2, step2, orth2, cgs2, subAllB,
    dotM, dotMAux, norm2, movePtrs, movePtrsAux, swapAt, sqS, h1, h2q, h2, h2', h0, hne,
    List.range, List.range.loop, List.replicate]

theorem wDot_answers : ∃ s, gsoSolve wDot = .ok s ∧ s.x = #[0] ∧ s.xErr = none := by
  obtain ⟨hx, hd, he⟩ := wDot_result
  have hreg : regInRange wDot.n wDot.reg = true := by decide
  have h2 : ∃ a, gsoSolve wDot = .ok a := by
    simp [gsoSolve, gsoSolveWith, hreg, he]
  obtain ⟨a, ha⟩ := h2
  obtain ⟨ax, -, -, adef, -, -⟩ := gsoSolveWith_ok (refuse := true) ha
  exact ⟨a, ha, by rw [ax, hx], gsoSolveWith_xErr ha⟩

/-- `Adj` + gso answers the witness with `x = 0` -/
theorem w_adj_gso : ∃ a, adjSolve .gso wP = .ok a ∧ a.x = #[0] := by
  obtain ⟨s, hs, hx, he⟩ := wDot_answers
  obtain ⟨a, ha, ax, -, -, -⟩ := adjFull_ok (alg := .gso) w_homogenise hs he
  exact ⟨a, ha, by rw [ax, hx]⟩

end solve

/-! ### the one-column system of ones, generically in the index types -/

theorem ones_gapAll {m n : Nat} (A : Matrix (Fin m) (Fin n) ℝ) (hm : m = 2) (hn : n = 1) (hA : ∀ i j, A i j = 1) :
    GapAllP A 1 (1 / 2) := by
  subst hm hn
  intro k β hk _
  right
  have hk0 : β 0 = 1 := by have : k = 0 := Subsingleton.elim _ _; rw [← this]; exact hk
  have hAb : A *ᵥ β = fun _ => 1 := by
    funext i
    simp [Matrix.mulVec, dotProduct, hA, hk0]
  rw [hAb]
  simp [dotProduct, Fin.sum_univ_two]
  norm_num

theorem ones_singGap {m n : Nat} (A : Matrix (Fin m) (Fin n) ℝ) (hm : m = 2) (hn : n = 1) (hA : ∀ i j, A i j = 1) :
    SingGap A 1 (1 / 2) := by
  subst hm hn
  have key : ∀ lam, IsEig (Aᵀ * (1 : Matrix (Fin 2) (Fin 2) ℝ) * A) lam → lam = 2 := by
    rintro lam ⟨v, hv, he⟩
    rw [Matrix.mul_one] at he
    have h0 : v 0 ≠ 0 := by
      intro h; apply hv; funext i; fin_cases i; exact h
    have := congrFun he 0
    simp [Matrix.mulVec, dotProduct, Matrix.mul_apply, Matrix.transpose_apply, hA, Fin.sum_univ_two] at this
    have h2 : (2 - lam) * v 0 = 0 := by
      rcases this with h | h
      · rw [← h]; norm_num
      · rw [h]; ring
    rcases mul_eq_zero.1 h2 with h | h
    · linarith
    · exact absurd h h0
  intro lam mu hl hm
  rw [key lam hl, key mu hm]
  right; norm_num

/-! ### the witness meets every solver-side hypothesis -/

theorem wP_A : ∀ (i : Fin wP.m) (j : Fin wP.n), wP.A i j = 1 := by
  rintro ⟨i, hi⟩ ⟨j, hj⟩
  have hi' : i < 2 := hi
  have hj' : j < 1 := hj
  interval_cases i <;> interval_cases j <;> (simp [Problem.A, toMatrix, Problem.dense, wP]; rfl)

theorem wP_C : wP.C * (1 : Matrix (Fin wP.m) (Fin wP.m) ℝ) = 1 := by
  rw [Matrix.mul_one, ← Cadj_eq_C wP (by decide)]
  ext ⟨i, hi⟩ ⟨j, hj⟩
  have hi' : i < 2 := hi
  have hj' : j < 2 := hj
  show covF wP i j = _
  interval_cases i <;> interval_cases j <;>
    simp [covF, dimsOf, locate, wP, blockDense, rowOff, Dn.sget, Dn.mmk, Dn.mget, Dn.vget, List.range, List.range.loop,
      Matrix.one_apply]

/-- **all solver-side facts about the witness, for any problem equal to it** (so that they transfer to
    `dumpOfR wNet 1 wCls` along `w_dump` without dependent rewriting) -/
theorem w_facts (q : Problem ℝ) (hq : q = wP) :
    ∃ P : Matrix (Fin q.m) (Fin q.m) ℝ, q.C * P = 1 ∧ RankGap q.A P q.S (1 / 2) ∧ SingGap q.A P (1 / 2) ∧
      (∃ Ad bd, homogenise q = .ok (Ad, bd)) ∧ ∃ a, adjSolve .gso q = .ok a ∧ a.x = #[0] := by
  subst hq
  refine ⟨1, wP_C, ?_, ones_singGap wP.A rfl rfl wP_A, ⟨_, _, w_homogenise⟩, w_adj_gso⟩
  show RankGap wP.A 1 (Finset.univ : Finset (Fin wP.n)) (1 / 2)
  exact (rankGap_univ_iff (by norm_num)).2 (ones_gapAll wP.A rfl rfl wP_A)

/-- both height records are consistent with the coordinates the linearisation reads -/
theorem w_consistent : ∀ no ∈ activeOf wNet wObs,
    ConsistentAt (ptsOfR wNet (bookOf wNet wObs).idx.ind no.obs) no.obs no.o := by
  intro no hno
  rw [w_active] at hno
  have : no = wOb := by simp [wObs] at hno; exact hno
  subst this
  show @GObs.v1 ℝ wOb.o = _
  simp [wOb, ptsOf, roleName, wNet, mkGPt, GPt.modelHeight]
  norm_num

end W
end G3Dump
end Gama
