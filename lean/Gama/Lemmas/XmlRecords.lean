/-
  C12 — reader ∘ writer on the records of the adjustment XML (`Model/XmlRecords.lean`).

  The number law is the satisfiable one of b-C13 (`Codec.Printer`): `rd (fmt x) = some (q x)`; `q` is the quantisation of
  the printer (identity for an exact codec).  Strings: `get_string` returns an identifier unchanged when it has no
  leading / trailing white space (`PointID::init` guarantees it).
-/
import Gama.Model.XmlRecords
namespace Gama.XmlRec
open Gama.ReaderPoint
variable {K : Type}

theorem getString_trimmed {s : String} (h : Trimmed s) : getString s = s := by
  unfold getString
  rw [h.1, h.2]
  simp

/-! ## points -/

/-- one `<point>`: whatever the reader state left by earlier points, the record pushed is the expected one -/
theorem readPoint_writePoint [Scalar K] (N : Num K) (q : K → K) (hN : ∀ x, N.rd (N.fmt x) = some (q x))
    (zero : K) (st : PState K) (s : Sect) (f : Frame K) (p : LPoint K) (hid : Trimmed p.id)
    (ha : st.adjusted = (s == .adjusted)) :
    ∃ r, readPoint N zero st (writePoint N s f p) = .ok r ∧ r.tmp = expectPoint q zero s f st.k p ∧
      r.k = nextK s st.k p ∧ r.out = st.out ++ [expectPoint q zero s f st.k p] ∧ r.adjusted = st.adjusted := by
  unfold writePoint
  cases hb : bxy s p <;> cases hz : bz s p <;> cases hc : capXY s p <;> cases hcz : capZ s p <;>
    cases hadj : (s == Sect.adjusted) <;>
    simp [readPoint, pleaves, pleaf, ptag, pnext, hN, getString_trimmed hid, pointEnd, endV, view, child, pointStart,
      clearRec, expectPoint, nextK, ha, hb, hz, hc, hcz, hadj]

/-- a whole section: every mix of 3D, plane and height points, constrained or not, in any order -/
theorem readPoints_writeSection [Scalar K] (N : Num K) (q : K → K) (hN : ∀ x, N.rd (N.fmt x) = some (q x))
    (zero : K) (s : Sect) (f : Frame K) (pts : List (LPoint K)) (hid : ∀ p ∈ pts, Trimmed p.id)
    (st : PState K) (ha : st.adjusted = (s == .adjusted)) :
    ∃ r, readPoints N zero st (writeSection N s f pts) = .ok r ∧
      r.out = st.out ++ (expectSection q zero s f st.k pts).1 ∧ r.k = (expectSection q zero s f st.k pts).2 ∧
      r.adjusted = st.adjusted := by
  induction pts generalizing st with
  | nil => exact ⟨st, rfl, by simp [expectSection], rfl, rfl⟩
  | cons p ps ih =>
    have hps : ∀ p ∈ ps, Trimmed p.id := fun p' h' => hid p' (List.mem_cons_of_mem _ h')
    by_cases hl : listed s p = true
    · obtain ⟨r1, h1, _, hk, ho, had⟩ := readPoint_writePoint N q hN zero st s f p (hid p List.mem_cons_self) ha
      obtain ⟨r, h2, ho2, hk2, had2⟩ := ih hps r1 (by rw [had, ha])
      refine ⟨r, ?_, ?_, ?_, by rw [had2, had]⟩
      · simp only [writeSection, List.filter_cons, hl, if_true, List.map_cons, readPoints, h1]
        exact h2
      · rw [ho2, ho, hk]; simp [expectSection, hl]
      · rw [hk2, hk]; simp [expectSection, hl]
    · obtain ⟨r, h2, ho2, hk2, had2⟩ := ih hps st ha
      refine ⟨r, ?_, ?_, ?_, had2⟩
      · simpa [writeSection, List.filter_cons, hl] using h2
      · rw [ho2]; simp [expectSection, hl]
      · rw [hk2]; simp [expectSection, hl]

/-! ## orientations -/

theorem readOri_writeOri [Scalar K] (N : Num K) (q : K → K) (hN : ∀ x, N.rd (N.fmt x) = some (q x))
    (f : Frame K) (o : LOri K) (hid : Trimmed o.id) (st : OState K) :
    ∃ r, readOri N st (writeOri N f o) = .ok r ∧ r.k = st.k + 1 ∧ r.out = st.out ++ [expectOri q f st.k o] := by
  simp [readOri, writeOri, oleaves, oleaf, hN, getString_trimmed hid, expectOri]

theorem readOris_writeOris [Scalar K] (N : Num K) (q : K → K) (hN : ∀ x, N.rd (N.fmt x) = some (q x))
    (f : Frame K) (os : List (LOri K)) (hid : ∀ o ∈ os, Trimmed o.id) (st : OState K) :
    ∃ r, readOris N st (os.map (writeOri N f)) = .ok r ∧ r.k = st.k + os.length ∧
      r.out = st.out ++ expectOris q f st.k os := by
  induction os generalizing st with
  | nil => exact ⟨st, rfl, rfl, by simp [expectOris]⟩
  | cons o os ih =>
    obtain ⟨r1, h1, hk, ho⟩ := readOri_writeOri N q hN f o (hid o List.mem_cons_self) st
    obtain ⟨r, h2, hk2, ho2⟩ := ih (fun o' h' => hid o' (List.mem_cons_of_mem _ h')) r1
    refine ⟨r, ?_, ?_, ?_⟩
    · simp only [List.map_cons, readOris, h1]; exact h2
    · rw [hk2, hk, List.length_cons]; omega
    · rw [ho2, ho, hk]; simp [expectOris]

/-! ## observations -/

theorem readObs_writeObs [Scalar K] (N : Num K) (q : K → K) (hN : ∀ x, N.rd (N.fmt x) = some (q x))
    (zero : K) (f : Frame K) (o : LObs K)
    (hfrom : Trimmed o.from_) (hto : Trimmed o.to) (hbs : Trimmed o.bs) (hfs : Trimmed o.fs) :
    readObs N zero o.kind.tag (writeObs N f o) = .ok (expectObs N q zero f o) := by
  unfold writeObs expectObs
  cases hs : hasStud o <;> cases he : hasErr f o <;> cases hk : o.kind <;>
    simp [readObs, bleaves, bleaf, setNum, hN, getString_trimmed hfrom, getString_trimmed hto, getString_trimmed hbs,
      getString_trimmed hfs, OKind.ends, OKind.tag, clearObs] <;>
    simp [hasErr, hs] at he

end Gama.XmlRec
