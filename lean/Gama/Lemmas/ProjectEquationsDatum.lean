/-
  `project_equations()` reads the constrained ↔ free status of a coordinate group ONLY when it fills `min_x_`.

  `Net.nrm` rewrites every `constrained` status of a network to `free` (coordinates, identifiers, clusters,
  `m0`, index fields untouched).  Two networks "differ only in constrained ↔ free" iff they have the same
  normal form: `DatumEq net net' := net.nrm = net'.nrm`.

      `pe_nrm`  :  `projectEquations net.nrm = (projectEquations net).map strip`,
                   `strip (np, u) = ({ np with minx := [] }, { u with net := u.net.nrm })`

  i.e. the call on the normal form throws exactly when the call on `net` throws (same exception), and
  otherwise assembles the SAME rows, right-hand sides, `m`, `n`, clusters, `m0`, `unknowns_`, removed list,
  leaves the same index fields — only `min_x_` (empty for the normal form) differs.  VALUE level, every
  carrier `[TrigScalar K]`, any depth of the `singular_coords` recursion.  Ingredients:
    * `lin_nrm`            the 13 REGENERATED member functions `LocalLinearization::<type>` read a status only through
                           `free_xy()` / `free_z()` (proved by unfolding the generated text: re-checked on every run)
    * `isRevised_nrm`      `revision_observations()` (structural part) reads statuses through `active_*()` only
    * `guardOf_nrm`        the regenerated prologue guard `Gen.Lin.resetGuard` likewise
    * `unknownsList_nrm`   the `unknowns_` loops read `active_xy()/active_z()` and the index fields
    * `singularFrom_nrm`   `singular_coords` tests `fixed_xy()`, `active_xy()`; `set_unused_xy()` commutes with `nrm`
    * `feed_nrm`           no constrained group ⇒ `min_n_ = 0`, `min_x_` empty
  `pe_datum_same` is the hypothesis `hsame` of `C08_pe_datum_partial`, now a theorem.
-/
import Gama.Model.ProjectEquations
namespace Gama.PE
open Gama Gama.Lin Gama.NetDecision

variable {K : Type}

/-! ### the normal form -/

def nS : Status → Status
  | .constrained => .free | s => s

def nC : CStat → CStat
  | .constrained => .free | s => s

def nPt (p : Pt K) : Pt K := { p with sxy := nS p.sxy, sz := nS p.sz }

def Point.nrm (p : Point K) : Point K := { p with pt := nPt p.pt }

def nP (q : MinX.PtS) : MinX.PtS := { q with xy := nC q.xy, z := nC q.z }

def Net.nrm (net : Net K) : Net K := { net with points := net.points.map Point.nrm }

def nObs (o : Obs K) : Obs K := { o with pfrom := nPt o.pfrom, pto := nPt o.pto, pfs := nPt o.pfs }

/-- the two networks differ only in the constrained ↔ free status of their coordinate groups -/
def DatumEq (net net' : Net K) : Prop := net.nrm = net'.nrm

@[simp] theorem nS_isFree (s : Status) : (nS s).isFree = s.isFree := by cases s <;> rfl
@[simp] theorem nS_isActive (s : Status) : (nS s).isActive = s.isActive := by cases s <;> rfl
@[simp] theorem nS_idem (s : Status) : nS (nS s) = nS s := by cases s <;> rfl
@[simp] theorem nC_active (s : CStat) : (nC s).active = s.active := by cases s <;> rfl
@[simp] theorem nC_adjusted (s : CStat) : (nC s).adjusted = s.adjusted := by cases s <;> rfl
theorem nC_eq_fixed (s : CStat) : (nC s = .fixed) = (s = .fixed) := by cases s <;> simp [nC]
theorem nC_eq_unused (s : CStat) : (nC s = .unused) = (s = .unused) := by cases s <;> simp [nC]
theorem nC_ne_constrained (s : CStat) : (nC s = .constrained) = False := by cases s <;> simp [nC]
theorem cstat_nS (s : Status) : cstat (nS s) = nC (cstat s) := by cases s <;> rfl

@[simp] theorem nPt_x (p : Pt K) : (nPt p).x = p.x := rfl
@[simp] theorem nPt_y (p : Pt K) : (nPt p).y = p.y := rfl
@[simp] theorem nPt_z (p : Pt K) : (nPt p).z = p.z := rfl
@[simp] theorem nPt_free_xy (p : Pt K) : (nPt p).free_xy = p.free_xy := nS_isFree p.sxy
@[simp] theorem nPt_free_z (p : Pt K) : (nPt p).free_z = p.free_z := nS_isFree p.sz
@[simp] theorem nPt_active_xy (p : Pt K) : (nPt p).active_xy = p.active_xy := nS_isActive p.sxy
@[simp] theorem nPt_active_z (p : Pt K) : (nPt p).active_z = p.active_z := nS_isActive p.sz
@[simp] theorem nObs_pfrom (o : Obs K) : (nObs o).pfrom = nPt o.pfrom := rfl
@[simp] theorem nObs_pto (o : Obs K) : (nObs o).pto = nPt o.pto := rfl
@[simp] theorem nObs_pfs (o : Obs K) : (nObs o).pfs = nPt o.pfs := rfl
@[simp] theorem nObs_value (o : Obs K) : (nObs o).value = o.value := rfl
@[simp] theorem nObs_orientation (o : Obs K) : (nObs o).orientation = o.orientation := rfl
@[simp] theorem nObs_xNorth (o : Obs K) : (nObs o).xNorth = o.xNorth := rfl

/-! ### the linearisation: the regenerated member functions -/

theorem bdPt_nrm [TrigScalar K] (a b : Pt K) :
    Gen.Lin.bearingDistancePt (nPt a) (nPt b) = Gen.Lin.bearingDistancePt a b := rfl

/-- **the 13 regenerated `LocalLinearization::<type>` give the same right-hand side and the same events
    (touches and pushes with their coefficients) whether a group is constrained or free** -/
theorem lin_nrm [TrigScalar K] (k : Kind) (fuel : Nat) (o : Obs K) : k.lin fuel (nObs o) = k.lin fuel o := by
  cases k <;>
    simp only [Kind.lin, Gen.Lin.direction, Gen.Lin.distance, Gen.Lin.angle, Gen.Lin.azimuth, Gen.Lin.s_distance,
      Gen.Lin.z_angle, Gen.Lin.h_diff, Gen.Lin.x, Gen.Lin.y, Gen.Lin.z, Gen.Lin.xdiff, Gen.Lin.ydiff, Gen.Lin.zdiff,
      nObs_pfrom, nObs_pto, nObs_pfs, nObs_value, nObs_orientation, nObs_xNorth, bdPt_nrm,
      nPt_x, nPt_y, nPt_z, nPt_free_xy, nPt_free_z] <;> rfl

/-! ### what a pass reads of the network -/

theorem ptAt_nrm [Zero K] (net : Net K) (i : Nat) : ptAt net.nrm i = nPt (ptAt net i) := by
  unfold ptAt Net.nrm
  simp only [List.getElem?_map]
  cases net.points[i]? with
  | none => rfl
  | some p => rfl

theorem idOf_nrm (net : Net K) (i : Nat) : idOf net.nrm i = idOf net i := by
  unfold idOf Net.nrm
  simp only [List.getElem?_map]
  cases net.points[i]? with
  | none => rfl
  | some p => rfl

theorem view_nrm [Zero K] (net : Net K) (ob : NObs K) :
    (sigmaOf net.nrm).view ob = nObs ((sigmaOf net).view ob) := by
  show ({ pfrom := ptAt net.nrm ob.pfrom, pto := ptAt net.nrm ob.pto, pfs := ptAt net.nrm ob.pfs, value := ob.value,
          orientation := (sigmaOf net).ori ob.sp, xNorth := net.xNorth } : Obs K) = _
  rw [ptAt_nrm, ptAt_nrm, ptAt_nrm]
  rfl

theorem passFrom_nrm [TrigScalar K] (net : Net K) (fuel : Nat) :
    ∀ (obs : List (NObs K)) (s : IdxState),
      passFrom (sigmaOf net.nrm) fuel obs s = passFrom (sigmaOf net) fuel obs s
  | [], s => rfl
  | ob :: t, s => by
    simp only [passFrom, view_nrm, lin_nrm]
    cases ob.kind.lin fuel ((sigmaOf net).view ob) with
    | error e => rfl
    | ok out => simp only [passFrom_nrm net fuel t]

theorem linPass_nrm [TrigScalar K] (net : Net K) (obs : List (NObs K)) (s : IdxState) :
    linPass net.nrm obs s = linPass net obs s := by
  unfold linPass
  rw [show oriOK net.nrm = oriOK net from rfl, show net.nrm.fuel = net.fuel from rfl]
  simp only [passFrom_nrm]

theorem guardOf_nrm [Zero K] (net : Net K) : guardOf net.nrm = guardOf net := by
  funext i
  unfold guardOf
  rw [ptAt_nrm]
  simp only [Gen.Lin.resetGuard, nPt_active_xy, nPt_active_z]

/-! ### the revision -/

theorem ptsOf_nrm (net : Net K) : ptsOf net.nrm = (ptsOf net).map nP := by
  unfold ptsOf Net.nrm
  simp only [List.map_map]
  refine List.map_congr_left fun p _ => ?_
  simp only [Function.comp, Point.nrm, nPt, nP, cstat_nS]

theorem xyOf_nP (pts : List MinX.PtS) (p : Nat) : MinX.xyOf (pts.map nP) p = nC (MinX.xyOf pts p) := by
  unfold MinX.xyOf
  simp only [List.getElem?_map]
  cases pts[p]? with
  | none => rfl
  | some q => rfl

theorem zOf_nP (pts : List MinX.PtS) (p : Nat) : MinX.zOf (pts.map nP) p = nC (MinX.zOf pts p) := by
  unfold MinX.zOf
  simp only [List.getElem?_map]
  cases pts[p]? with
  | none => rfl
  | some q => rfl

theorem activeBasic_nP (pts : List MinX.PtS) : MinX.activeBasic (pts.map nP) = MinX.activeBasic pts := by
  funext fo
  simp only [MinX.activeBasic, xyOf_nP, zOf_nP, nC_active]

theorem isRevised_nP (pts : List MinX.PtS) : MinX.isRevised (pts.map nP) = MinX.isRevised pts := by
  funext obs fo
  unfold MinX.isRevised MinX.dirTargets
  rw [activeBasic_nP]

theorem reviseFrom_nP (pts : List MinX.PtS) (all : List (Bool × MinX.Obs)) :
    ∀ (k : Nat) (cs : List (Cluster K)), reviseFrom (pts.map nP) all k cs = reviseFrom pts all k cs
  | _, [] => rfl
  | k, c :: cs => by
    simp only [reviseFrom, isRevised_nP, reviseFrom_nP pts all (k + 1) cs]

/-- **`revision_observations()` (structural part) commutes with the normal form** -/
theorem revise_nrm (net : Net K) : revise net.nrm = (revise net).nrm := by
  unfold revise
  rw [ptsOf_nrm]
  show ({ net.nrm with clusters := reviseFrom ((ptsOf net).map nP) (flatFrom 0 net.clusters) 0 net.clusters } : Net K) = _
  rw [reviseFrom_nP]
  rfl

/-! ### `unknowns_` -/

theorem oriLoop_nrm [Zero K] (net : Net K) (idx : IdxState) :
    ∀ (k : Nat) (cs : List (Cluster K)) (l : List (Option UEntry)),
      oriLoop net.nrm idx k cs l = oriLoop net idx k cs l
  | _, [], _ => rfl
  | k, c :: cs, l => by
    simp only [oriLoop, ptAt_nrm, nPt_active_xy, idOf_nrm, oriLoop_nrm net idx (k + 1) cs]

theorem ptLoop_nrm (idx : IdxState) :
    ∀ (i : Nat) (ps : List (Point K)) (l : List (Option UEntry)),
      ptLoop idx i (ps.map Point.nrm) l = ptLoop idx i ps l
  | _, [], _ => rfl
  | i, p :: ps, l => by
    simp only [List.map_cons, ptLoop, ptLoop_nrm idx (i + 1) ps,
      show (Point.nrm p).pt.active_xy = p.pt.active_xy from nPt_active_xy p.pt,
      show (Point.nrm p).pt.active_z = p.pt.active_z from nPt_active_z p.pt,
      show (Point.nrm p).id = p.id from rfl]

theorem unknownsList_nrm [Zero K] (net : Net K) (idx : IdxState) :
    unknownsList net.nrm idx = unknownsList net idx := by
  unfold unknownsList
  rw [show net.nrm.clusters = net.clusters from rfl, oriLoop_nrm, show net.nrm.points = net.points.map Point.nrm from rfl,
    ptLoop_nrm]

/-- **one inner call assembles the same system** (rows, right-hand sides, counts, clusters, `m0`, index fields,
    `unknowns_`), throwing the same exception if it throws -/
theorem assemble_nrm [TrigScalar K] (net : Net K) : assemble net.nrm = assemble net := by
  unfold assemble
  rw [show revisedObs net.nrm = revisedObs net from rfl, show net.nrm.idx = net.idx from rfl, guardOf_nrm]
  simp only [linPass_nrm, unknownsList_nrm]
  rfl

/-! ### `singular_coords`, `set_unused_xy()`, `min_x_` -/

theorem singularPoint_nP (degen : Nat → Bool) (idx : MinX.Unk → Nat) (p : Nat) (q : MinX.PtS) :
    MinX.singularPoint degen idx p (nP q)
      = (nP (MinX.singularPoint degen idx p q).1, (MinX.singularPoint degen idx p q).2) := by
  obtain ⟨id, xy, z⟩ := q
  cases xy <;> simp [MinX.singularPoint, nP, CStat.active, nC] <;> (repeat' split) <;> simp_all

theorem singularFrom_nP (degen : Nat → Bool) (idx : MinX.Unk → Nat) :
    ∀ (p : Nat) (pts : List MinX.PtS),
      MinX.singularFrom degen idx p (pts.map nP)
        = ((MinX.singularFrom degen idx p pts).1, (MinX.singularFrom degen idx p pts).2.1.map nP,
            (MinX.singularFrom degen idx p pts).2.2)
  | _, [] => rfl
  | p, q :: r => by
    simp only [List.map_cons, MinX.singularFrom, singularPoint_nP, singularFrom_nP degen idx (p + 1) r]
    rfl

theorem applySingular_nrm : ∀ (ps : List (Point K)) (qs : List MinX.PtS),
    applySingular (ps.map Point.nrm) (qs.map nP) = (applySingular ps qs).map Point.nrm
  | [], _ => by simp [applySingular]
  | p :: ps, [] => by simp [applySingular]
  | p :: ps, q :: qs => by
    simp only [List.map_cons, applySingular, applySingular_nrm ps qs, show (nP q).xy = nC q.xy from rfl, nC_eq_unused]
    split <;> rfl

theorem countFrom_nP (idx : MinX.Unk → Nat) : ∀ (p : Nat) (pts : List MinX.PtS), MinX.countFrom idx p (pts.map nP) = 0
  | _, [] => rfl
  | p, q :: r => by
    simp only [List.map_cons, MinX.countFrom, countFrom_nP idx (p + 1) r, show (nP q).xy = nC q.xy from rfl,
      show (nP q).z = nC q.z from rfl, nC_ne_constrained]
    simp

/-- without a constrained group `min_n_ = 0` and `min_x_` is empty -/
theorem feed_nP (idx : MinX.Unk → Nat) (pts : List MinX.PtS) : MinX.feed idx (pts.map nP) = (0, []) := by
  unfold MinX.feed MinX.countMin
  rw [countFrom_nP]
  rfl

/-! ### the whole call -/

/-- what of the result does not depend on constrained ↔ free -/
def strip (r : Ls.Net.NetProblem K × Unknowns K) : Ls.Net.NetProblem K × Unknowns K :=
  ({ r.1 with minx := [] }, { r.2 with net := r.2.net.nrm })

theorem peStep_nrm [TrigScalar K] (fuel : Nat)
    (ih : ∀ (net : Net K) (rm : List String), peLoop fuel net.nrm rm = (peLoop fuel net rm).map strip)
    (net1 : Net K) (a : Asm K) (rm : List String) (sc : Bool × List MinX.PtS × List String) (fd : List Nat) :
    (if sc.1 = true then
        peLoop fuel { net1.nrm with points := applySingular net1.nrm.points (sc.2.1.map nP), idx := a.idx } (rm ++ sc.2.2)
      else .ok ({ a.np with minx := [] }, ⟨a.np.n, a.list, { net1.nrm with idx := a.idx }, rm⟩))
    = (if sc.1 = true then
        peLoop fuel { net1 with points := applySingular net1.points sc.2.1, idx := a.idx } (rm ++ sc.2.2)
      else .ok ({ a.np with minx := fd }, ⟨a.np.n, a.list, { net1 with idx := a.idx }, rm⟩)).map strip := by
  by_cases hb : sc.1 = true
  · rw [if_pos hb, if_pos hb, show net1.nrm.points = net1.points.map Point.nrm from rfl, applySingular_nrm]
    exact ih { net1 with points := applySingular net1.points sc.2.1, idx := a.idx } _
  · rw [if_neg hb, if_neg hb]
    rfl

/-- **`project_equations()` on the normal form**: same exception or the same result up to `min_x_`
    (any depth of the `singular_coords` recursion, any accumulated removed list) -/
theorem peLoop_nrm [TrigScalar K] : ∀ (fuel : Nat) (net : Net K) (rm : List String),
    peLoop fuel net.nrm rm = (peLoop fuel net rm).map strip
  | 0, _, _ => rfl
  | fuel + 1, net, rm => by
    have ih := peLoop_nrm fuel
    simp only [peLoop]
    rw [revise_nrm, assemble_nrm]
    cases assemble (revise net) with
    | error e => rfl
    | ok a =>
      simp only []
      cases Ls.Net.prepare a.np with
      | error e => rfl
      | ok h =>
        simp only [ptsOf_nrm, SingularCoords.singularCoords, MinX.singularCoords, singularFrom_nP, feed_nP]
        exact peStep_nrm fuel ih (revise net) a rm _ _

theorem pe_nrm [TrigScalar K] (net : Net K) : projectEquations net.nrm = (projectEquations net).map strip := by
  unfold projectEquations
  rw [show net.nrm.points.length = net.points.length from List.length_map _]
  exact peLoop_nrm _ net []

/-- **`hsame`**: two networks that differ only in constrained ↔ free hand the solver the same rows, right-hand
    sides, counts, clusters and `m0`; only `min_x_` differs — and they leave the same `pocet_neznamych_`,
    `unknowns_`, removed list, and final networks that again differ only in constrained ↔ free -/
theorem pe_datum_same [TrigScalar K] (net net' : Net K) (hd : DatumEq net net')
    (np np' : Ls.Net.NetProblem K) (u u' : Unknowns K)
    (h : projectEquations net = .ok (np, u)) (h' : projectEquations net' = .ok (np', u')) :
    np' = { np with minx := np'.minx } ∧ u'.n = u.n ∧ u'.list = u.list ∧ u'.removed = u.removed
      ∧ DatumEq u.net u'.net := by
  have e1 := pe_nrm net
  have e2 := pe_nrm net'
  rw [h] at e1
  rw [h', ← hd, e1] at e2
  have e3 : strip (np, u) = strip (np', u') := Except.ok.inj e2
  simp only [strip, Prod.mk.injEq] at e3
  obtain ⟨e4, e5⟩ := e3
  have a1 := congrArg Ls.Net.NetProblem.m e4
  have a2 := congrArg Ls.Net.NetProblem.n e4
  have a3 := congrArg Ls.Net.NetProblem.rows e4
  have a4 := congrArg Ls.Net.NetProblem.rhs e4
  have a5 := congrArg Ls.Net.NetProblem.clusters e4
  have a6 := congrArg Ls.Net.NetProblem.m0 e4
  have b1 := congrArg Unknowns.n e5
  have b2 := congrArg Unknowns.list e5
  have b3 := congrArg Unknowns.net e5
  have b4 := congrArg Unknowns.removed e5
  simp only at a1 a2 a3 a4 a5 a6 b1 b2 b3 b4
  refine ⟨?_, b1.symm, b2.symm, b4.symm, b3⟩
  obtain ⟨m, n, rows, rhs, cl, m0, mx⟩ := np
  obtain ⟨m', n', rows', rhs', cl', m0', mx'⟩ := np'
  simp only at a1 a2 a3 a4 a5 a6
  subst a1 a2 a3 a4 a5 a6
  rfl

/-- the other direction of the equivalence: the call on `net'` answers whenever the call on `net` does (and throws
    the same exception otherwise) -/
theorem pe_datum_ok [TrigScalar K] (net net' : Net K) (hd : DatumEq net net')
    (np : Ls.Net.NetProblem K) (u : Unknowns K) (h : projectEquations net = .ok (np, u)) :
    ∃ np' u', projectEquations net' = .ok (np', u') := by
  have e1 := pe_nrm net
  have e2 := pe_nrm net'
  rw [h] at e1
  rw [← hd, e1] at e2
  cases h' : projectEquations net' with
  | error e => rw [h'] at e2; cases e2
  | ok r => exact ⟨r.1, r.2, rfl⟩

end Gama.PE
