/-
  `icgs2()` does not touch the upper block: the tops of the STORAGE columns after `Gso.icgs2` are the tops after
  `icgs1` — whatever `lindep` holds (no sortedness / range hypothesis on `r.dep`).

  The model moves column pointers (`movePtrs`, a chain of `swapAt`s), processes the bottoms in pointer order
  (`phase2`) and re-sorts the pointer-ordered list into storage order (`mergeSort` on the storage index).  The
  argument:
    1. `swapAt` / `movePtrsAux` / `movePtrs` return a permutation of their input (unconditionally);
    2. `phase2` keeps `(storage index, top)` of every entry, position by position;
    3. two lists sorted by the storage index that are permutations of one another, one of them with strictly
       increasing indices, are equal (`List.Perm.eq_of_pairwise`).

  Core Lean only.
-/
import Gama.Model.Ls.Gso.Icgs
namespace Gama.C04.Full
open Gama Gama.Ls

-- ------------------------------------------------------------------ 1. the pointer moves are permutations

section Ptr
variable {α : Type}

theorem tops_swapAt_perm (l : List α) (i j : Nat) : (Gso.swapAt l i j).Perm l := by
  unfold Gso.swapAt
  split
  · rename_i a b ha hb
    obtain ⟨hi, rfl⟩ := List.getElem?_eq_some_iff.1 ha
    obtain ⟨hj, rfl⟩ := List.getElem?_eq_some_iff.1 hb
    exact List.set_set_perm hi hj
  · exact List.Perm.refl _

theorem tops_movePtrsAux_perm (zs : List Nat) : ∀ (t : Nat) (l : List α), (Gso.movePtrsAux t l zs).Perm l := by
  induction zs with
  | nil => intro t l; exact List.Perm.refl _
  | cons z zs ih =>
    intro t l
    exact (ih (t + 1) (Gso.swapAt l t (z - 1))).trans (tops_swapAt_perm l t (z - 1))

/-- no hypothesis on `zs` (`movePtrs_spec` of `Lemmas/Ls/GsoPhase2.lean` also locates the entries and needs
    `zs` increasing and inside the range) -/
theorem tops_movePtrs_perm (l : List α) (zs : List Nat) : (Gso.movePtrs l zs).Perm l :=
  tops_movePtrsAux_perm zs 0 l

end Ptr

-- ------------------------------------------------------------------ 2. `phase2` keeps (storage index, top)

variable {K : Type} [Scalar K]

/-- what the re-sorting looks at (storage index) and what `q_bb` reads (top) -/
def topKey (c : Nat × Gso.Col K) : Nat × List K := (c.1, c.2.top)

theorem step2_ks_length (tol : K) (mask : List Bool) (s : Gso.S2 K) (c : List K) :
    (Gso.step2 tol mask s c).ks.length = s.ks.length + 1 := by
  unfold Gso.step2
  simp only
  split <;> simp

theorem foldl_step2_ks_length (tol : K) (mask : List Bool) (l : List (Nat × Gso.Col K)) :
    ∀ s0 : Gso.S2 K, (l.foldl (fun s c => Gso.step2 tol mask s c.2.bot) s0).ks.length = s0.ks.length + l.length := by
  induction l with
  | nil => intro s0; rfl
  | cons c l ih =>
    intro s0
    rw [List.foldl_cons, ih, step2_ks_length, List.length_cons]
    omega

theorem phase2_topKey (tol : K) (mask : List Bool) (d : Nat) (ord : List (Nat × Gso.Col K)) (rhs : Gso.Col K) :
    (Gso.phase2 tol mask d ord rhs).2.1.map topKey = ord.map topKey := by
  unfold Gso.phase2
  simp only
  rw [List.map_append, List.map_map, List.map_map]
  have hlen : (ord.take d).length
      ≤ ((ord.take d).foldl (fun s c => Gso.step2 tol mask s c.2.bot) ({} : Gso.S2 K)).ks.length := by
    rw [foldl_step2_ks_length]
    exact Nat.le_add_left _ _
  have h1 : ∀ (ks : List (List K)),
      List.map (topKey ∘ fun (x : (Nat × Gso.Col K) × List K) =>
          (x.1.1, ({ top := x.1.2.top, bot := Gso.vscale x.2 0 } : Gso.Col K))) ((ord.take d).zip ks)
        = (((ord.take d).zip ks).map Prod.fst).map topKey := by
    intro ks
    rw [List.map_map]
    rfl
  have h2 : ∀ (ks : List (List K)),
      List.map (topKey ∘ fun (c : Nat × Gso.Col K) =>
          (c.1, ({ top := c.2.top, bot := Gso.orth2 mask ks c.2.bot } : Gso.Col K))) (ord.drop d)
        = (ord.drop d).map topKey := by
    intro ks
    rfl
  rw [h2]
  refine Eq.trans (congrArg (· ++ _) (h1 _)) ?_
  rw [List.map_fst_zip hlen, ← List.map_append, List.take_append_drop]

-- ------------------------------------------------------------------ 3. sorting by the index restores the storage order

theorem eq_of_fst_eq_of_pairwise_lt {β : Type} (l : List (Nat × β)) (h : l.Pairwise (fun a b => a.1 < b.1)) :
    ∀ a b, a ∈ l → b ∈ l → a.1 = b.1 → a = b := by
  induction l with
  | nil => intro a b ha; cases ha
  | cons x l ih =>
    rw [List.pairwise_cons] at h
    intro a b ha hb hab
    rw [List.mem_cons] at ha hb
    rcases ha with rfl | ha
    · rcases hb with rfl | hb
      · rfl
      · have := h.1 b hb; omega
    · rcases hb with rfl | hb
      · have := h.1 a ha; omega
      · exact ih h.2 a b ha hb hab

/-- `out` is `idx` permuted, up to the parts of the entries that `g` does not see; `idx` has strictly increasing
    indices: sorting `out` by the index gives `idx` back, as far as `g` sees -/
theorem sort_restores {β γ : Type} (g : β → γ) (idx out : List (Nat × β))
    (hlt : idx.Pairwise (fun a b => a.1 < b.1))
    (hperm : (out.map fun c => (c.1, g c.2)).Perm (idx.map fun c => (c.1, g c.2))) :
    ((out.mergeSort fun a b => a.1 ≤ b.1).map (·.2)).map g = (idx.map (·.2)).map g := by
  let key : Nat × β → Nat × γ := fun c => (c.1, g c.2)
  have hs1 : ((out.mergeSort fun a b => a.1 ≤ b.1).map key).Pairwise (fun a b => a.1 ≤ b.1) := by
    have hp := List.pairwise_mergeSort (le := fun (a b : Nat × β) => decide (a.1 ≤ b.1))
      (fun a b c hab hbc => by
        simp only [decide_eq_true_eq] at hab hbc ⊢
        exact Nat.le_trans hab hbc)
      (fun a b => by
        simp only [Bool.or_eq_true, decide_eq_true_eq]
        exact Nat.le_total _ _) out
    exact hp.map key (fun a b hab => by simpa using hab)
  have hlt2 : (idx.map key).Pairwise (fun a b => a.1 < b.1) := hlt.map key (fun a b hab => hab)
  have hs2 : (idx.map key).Pairwise (fun a b => a.1 ≤ b.1) := hlt2.imp (fun h => Nat.le_of_lt h)
  have hp : ((out.mergeSort fun a b => a.1 ≤ b.1).map key).Perm (idx.map key) :=
    ((List.mergeSort_perm out _).map key).trans hperm
  have heq : (out.mergeSort fun a b => a.1 ≤ b.1).map key = idx.map key :=
    List.Perm.eq_of_pairwise (le := fun (a b : Nat × γ) => a.1 ≤ b.1)
      (fun a b ha hb hab hba =>
        eq_of_fst_eq_of_pairwise_lt _ hlt2 a b (hp.subset ha) hb (Nat.le_antisymm hab hba))
      hs1 hs2 hp
  have := congrArg (List.map Prod.snd) heq
  simpa [key, List.map_map, Function.comp_def] using this

-- ------------------------------------------------------------------ the statement

/-- **`icgs2` leaves the tops of the storage columns alone** — unconditionally -/
theorem icgs2_tops (tol : K) (mask : List Bool) (r : Gso.R1 K) :
    (Gso.icgs2 tol mask r).cols.map (·.top) = r.cols.map (·.top) := by
  unfold Gso.icgs2
  split
  · rfl
  · simp only
    have hk := phase2_topKey tol mask r.dep.length
      (Gso.movePtrs ((List.range r.cols.length).zip r.cols) r.dep) r.rhs
    generalize Gso.phase2 tol mask r.dep.length
      (Gso.movePtrs ((List.range r.cols.length).zip r.cols) r.dep) r.rhs = ph at hk ⊢
    obtain ⟨s, out, rhs⟩ := ph
    simp only at hk ⊢
    have hidx : ((List.range r.cols.length).zip r.cols).Pairwise (fun a b => a.1 < b.1) := by
      have h0 : (((List.range r.cols.length).zip r.cols).map Prod.fst).Pairwise (· < ·) := by
        rw [List.map_fst_zip (by simp)]
        exact List.pairwise_lt_range
      exact List.pairwise_map.1 h0
    have hsnd : ((List.range r.cols.length).zip r.cols).map (·.2) = r.cols :=
      List.map_snd_zip (by simp)
    have := sort_restores (fun c : Gso.Col K => c.top) ((List.range r.cols.length).zip r.cols) out hidx (by
      show (out.map topKey).Perm _
      rw [hk]
      exact (tops_movePtrs_perm _ _).map _)
    rw [hsnd] at this
    exact this

/-- `ICGS::rowdot` over the tops reads the same numbers before and after `icgs2()` -/
theorem icgs2_rowdot_top (tol : K) (mask : List Bool) (r : Gso.R1 K) (i j : Nat) :
    Gso.rowdot (Gso.icgs2 tol mask r).cols (fun c => c.top.getD i 0) (fun c => c.top.getD j 0)
      = Gso.rowdot r.cols (fun c => c.top.getD i 0) (fun c => c.top.getD j 0) := by
  unfold Gso.rowdot
  have h := icgs2_tops tol mask r
  have e : ∀ (cols : List (Gso.Col K)) (k : Nat),
      cols.map (fun c => c.top.getD k 0) = (cols.map (·.top)).map (fun t => t.getD k 0) := by
    intro cols k
    rw [List.map_map]
    rfl
  rw [e _ i, e _ j, e r.cols i, e r.cols j, h]

end Gama.C04.Full
