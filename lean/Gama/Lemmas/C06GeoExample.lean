/-
  C06 — a GEOMETRIC regular instance of the assembled fixed-point theorem (replaces the 1×1 instance `regObs` as the
  witness of `C06_true_coordinates_fixed_point_assembled_regular`): the free point P = (3, 4) determined by two
  distances of 5 m to the fixed points A = (0, 0) and B = (6, 0).  One pass of `Lin.passFrom` (C05's generated
  `LocalLinearization::distance`) assembles the 2×2 matrix `[[3/5, 4/5], [−3/5, 4/5]]` (columns x, y of P;
  determinant 24/25), right-hand side (0, 0); its kernel is trivial, so no regularisation subset is needed (`S = ∅`).
-/
import Gama.Lemmas.C06FixedPoint
namespace Gama.C06FP
open Gama Gama.Lin Gama.LS Gama.GN Gama.C06L Gama.C06R Matrix

/-- A = 1 at (0,0) and B = 2 at (6,0) fixed, P = 3 at (3,4) free in xy -/
noncomputable def geoNet : Net ℝ :=
  { pt := fun i => if i = 3 then ⟨3, 4, 0, .free, .fixed⟩ else if i = 2 then ⟨6, 0, 0, .fixed, .fixed⟩
                   else ⟨0, 0, 0, .fixed, .fixed⟩
    ori := fun _ => 0, xNorth := 0 }

noncomputable def geoObs : List (NObs ℝ) := [⟨.distance, 0, 1, 3, 0, 5⟩, ⟨.distance, 0, 2, 3, 0, 5⟩]

theorem geo_hdist1 : hdist (geoNet.view ⟨.distance, 0, 1, 3, 0, 5⟩) = 5 := by
  simp [hdist, dX, dY, Net.view, geoNet]
  rw [show (3:ℝ) * 3 + 4 * 4 = 5 ^ 2 by norm_num]; exact Real.sqrt_sq (by norm_num)

theorem geo_hdist2 : hdist (geoNet.view ⟨.distance, 0, 2, 3, 0, 5⟩) = 5 := by
  simp [hdist, dX, dY, Net.view, geoNet]
  rw [show ((3:ℝ) - 6) * (3 - 6) + 4 * 4 = 5 ^ 2 by norm_num]; exact Real.sqrt_sq (by norm_num)

theorem geo_cut1 : ¬ hdist (geoNet.view ⟨.distance, 0, 1, 3, 0, 5⟩) < CUT := by
  rw [geo_hdist1]; unfold CUT; norm_num

theorem geo_cut2 : ¬ hdist (geoNet.view ⟨.distance, 0, 2, 3, 0, 5⟩) < CUT := by
  rw [geo_hdist2]; unfold CUT; norm_num

theorem geoObs_exact : ∀ ob ∈ geoObs, ExactObs geoNet ob := by
  intro ob hob
  simp only [geoObs, List.mem_cons, List.not_mem_nil, or_false] at hob
  rcases hob with rfl | rfl
  · exact ⟨geo_cut1, by rw [geo_hdist1]; rfl⟩
  · exact ⟨geo_cut2, by rw [geo_hdist2]; rfl⟩

/-- what the pass returns: rows in push order (y before x), zero right-hand side, P.x ↦ 1, P.y ↦ 2 -/
noncomputable def geoRes : PassOut ℝ :=
  ⟨[[(2, 4 / 5), (1, 3 / 5)], [(2, 4 / 5), (1, -3 / 5)]], [0, 0], ⟨2, [(⟨3, .y⟩, 2), (⟨3, .x⟩, 1)]⟩⟩

theorem geoObs_pass : passFrom geoNet 0 geoObs IdxState.init = .ok geoRes := by
  simp only [geoObs, passFrom, Kind.lin, distance_eq _ _ geo_cut1, distance_eq _ _ geo_cut2, geo_hdist1, geo_hdist2]
  simp [Net.view, geoNet, geoRes, Pt.free_xy, Status.isFree, runEvs, NObs.name, IdxState.touch, IdxState.get,
    IdxState.init, dX, dY]
  norm_num

theorem geo_sum2 (f : Fin geoRes.idx.maxn → ℝ) : ∑ x, f x = f ⟨0, by decide⟩ + f ⟨1, by decide⟩ :=
  Fin.sum_univ_two (M := ℝ) f

theorem geo_c01 : codeMatrix geoRes.rows 0 1 = 3 / 5 := by simp [codeMatrix, geoRes, rowSum_cons, rowSum_nil]
theorem geo_c02 : codeMatrix geoRes.rows 0 2 = 4 / 5 := by simp [codeMatrix, geoRes, rowSum_cons, rowSum_nil]
theorem geo_c11 : codeMatrix geoRes.rows 1 1 = -3 / 5 := by simp [codeMatrix, geoRes, rowSum_cons, rowSum_nil]
theorem geo_c12 : codeMatrix geoRes.rows 1 2 = 4 / 5 := by simp [codeMatrix, geoRes, rowSum_cons, rowSum_nil]

/-- the assembled 2×2 matrix has trivial kernel -/
theorem geo_ker : ∀ g, passMatrix geoRes geoObs.length *ᵥ g = 0 → g = 0 := by
  intro g hg
  have h0 := congrFun hg ⟨0, by simp [geoObs]⟩
  have h1 := congrFun hg ⟨1, by simp [geoObs]⟩
  have e0 : (passMatrix geoRes geoObs.length *ᵥ g) ⟨0, by simp [geoObs]⟩ = 3 / 5 * g ⟨0, by decide⟩ + 4 / 5 * g ⟨1, by decide⟩ := by
    simp only [mulVec, dotProduct]
    rw [geo_sum2]
    show codeMatrix geoRes.rows 0 1 * _ + codeMatrix geoRes.rows 0 2 * _ = _
    rw [geo_c01, geo_c02]
  have e1 : (passMatrix geoRes geoObs.length *ᵥ g) ⟨1, by simp [geoObs]⟩ = -3 / 5 * g ⟨0, by decide⟩ + 4 / 5 * g ⟨1, by decide⟩ := by
    simp only [mulVec, dotProduct]
    rw [geo_sum2]
    show codeMatrix geoRes.rows 1 1 * _ + codeMatrix geoRes.rows 1 2 * _ = _
    rw [geo_c11, geo_c12]
  rw [e0] at h0; rw [e1] at h1
  simp only [Pi.zero_apply] at h0 h1
  funext j
  have hj : j = ⟨0, by decide⟩ ∨ j = ⟨1, by decide⟩ := by
    have := j.isLt
    have h2 : geoRes.idx.maxn = 2 := rfl
    rcases j with ⟨v, hv⟩
    have : v = 0 ∨ v = 1 := by omega
    rcases this with rfl | rfl
    · exact Or.inl rfl
    · exact Or.inr rfl
  rcases hj with rfl | rfl
  · show g ⟨0, _⟩ = 0; linarith
  · show g ⟨1, _⟩ = 0; linarith

end Gama.C06FP
