/-
  C06 — the libm extension `Trig` instantiated at ℝ (noncomputable; proofs only) and the bridge lemmas
  that turn the scalar signature's operations into Mathlib's.  The `Scalar ℝ` instance is C05's
  (`Gama.instScalarReal`, Lemmas/LinSpec.lean) so that the C05 right-hand-side theorems can be used.
  atan2 y x := Complex.arg (x + y i).
-/
import Gama.Model.Cogo
import Gama.Lemmas.LinSpec
import Mathlib.Analysis.SpecialFunctions.Complex.Arg
import Mathlib.Analysis.SpecialFunctions.Sqrt
import Mathlib.Tactic.Ring
import Mathlib.Tactic.Linarith
import Mathlib.Tactic.FieldSimp
import Mathlib.Tactic.Positivity
import Mathlib.Tactic.LinearCombination

namespace Gama.C06R
open Gama

noncomputable scoped instance instTrigReal : Trig ℝ where
  sin := Real.sin
  cos := Real.cos
  atan2 := fun y x => Complex.arg ⟨x, y⟩
  acos := Real.arccos
  tan := Real.tan
  pi := Real.pi

@[simp] theorem add_eq (a b : ℝ) : @HAdd.hAdd ℝ ℝ ℝ (@instHAdd ℝ instScalarReal.toAdd) a b = a + b := rfl
@[simp] theorem sub_eq (a b : ℝ) : @HSub.hSub ℝ ℝ ℝ (@instHSub ℝ instScalarReal.toSub) a b = a - b := rfl
@[simp] theorem mul_eq (a b : ℝ) : @HMul.hMul ℝ ℝ ℝ (@instHMul ℝ instScalarReal.toMul) a b = a * b := rfl
@[simp] theorem div_eq (a b : ℝ) : @HDiv.hDiv ℝ ℝ ℝ (@instHDiv ℝ instScalarReal.toDiv) a b = a / b := rfl
@[simp] theorem neg_eq (a : ℝ) : @Neg.neg ℝ instScalarReal.toNeg a = -a := rfl
@[simp] theorem zero_eq : @OfNat.ofNat ℝ 0 (@Zero.toOfNat0 ℝ instScalarReal.toZero) = (0 : ℝ) := rfl
@[simp] theorem one_eq : @OfNat.ofNat ℝ 1 (@One.toOfNat1 ℝ instScalarReal.toOne) = (1 : ℝ) := rfl
@[simp] theorem lt_eq (a b : ℝ) : @LT.lt ℝ instScalarReal.toLT a b = (a < b) := rfl
@[simp] theorem le_eq (a b : ℝ) : @LE.le ℝ instScalarReal.toLE a b = (a ≤ b) := rfl
@[simp] theorem sqrt_eq (a : ℝ) : Scalar.sqrt a = Real.sqrt a := rfl
@[simp] theorem abs_eq (a : ℝ) : Scalar.abs a = |a| := rfl
@[simp] theorem ofNat_eq (n : ℕ) : (Scalar.ofNat n : ℝ) = (n : ℝ) := rfl
@[simp] theorem beq_eq (a b : ℝ) : Scalar.beq a b = true ↔ a = b := by
  show @decide (a = b) (Classical.propDecidable _) = true ↔ a = b
  simp
@[simp] theorem sin_eq (a : ℝ) : Trig.sin a = Real.sin a := rfl
@[simp] theorem cos_eq (a : ℝ) : Trig.cos a = Real.cos a := rfl
@[simp] theorem tan_eq (a : ℝ) : Trig.tan a = Real.tan a := rfl
@[simp] theorem pi_eq : (Trig.pi : ℝ) = Real.pi := rfl
@[simp] theorem acos_eq (a : ℝ) : Trig.acos a = Real.arccos a := rfl
@[simp] theorem atan2_eq (y x : ℝ) : Trig.atan2 y x = Complex.arg ⟨x, y⟩ := rfl
@[simp] theorem two_eq : (Cogo.two : ℝ) = 2 := by simp [Cogo.two]
@[simp] theorem sqr_eq (a : ℝ) : Cogo.sqr a = a * a := rfl

end Gama.C06R
