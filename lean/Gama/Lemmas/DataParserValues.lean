/-
  The run of the DataParser model on the real character data (`Model/DataParserValues.lean`) projects onto `DP.run`.
-/
import Gama.Model.DataParserValues
import Gama.Lemmas.DataParser
namespace Gama.DP

theorem exec_seq_skip_left (q : Prog) (c : Ctx) (d : List Bool) (st : St) :
    exec (.seq .skip q) c d st = exec q c d st := by
  simp [exec]

theorem exec_seq_skip_right (p : Prog) (c : Ctx) (d : List Bool) (st : St) :
    exec (.seq p .skip) c d st = exec p c d st := by
  simp only [exec]
  split
  · rfl
  · next h =>
    have : (exec p c d st).2.1 = false := by simpa using h
    rcases hx : exec p c d st with ⟨a, b, e⟩
    rw [hx] at this
    simp only at this
    subst this
    rfl

theorem exec_mkSeq (p q : Prog) (c : Ctx) (d : List Bool) (st : St) :
    exec (mkSeq p q) c d st = exec (.seq p q) c d st := by
  unfold mkSeq
  split
  · rw [exec_seq_skip_left]
  · rw [exec_seq_skip_right]
  · rfl

/-- `exec` of the erased program, fed with the truth values `cexec` computed, takes the same path -/
theorem cexec_erase (p : CProg) : ∀ (c : Ctx) (piece buf : List Char) (o : List Bool) (st : St) (d : List Bool),
    exec p.erase c ((cexec p c piece buf o st).tr ++ d) st =
      ((cexec p c piece buf o st).st, (cexec p c piece buf o st).ret, d) := by
  induction p with
  | skip => intro c piece buf o st d; rfl
  | setNext => intro c piece buf o st d; rfl
  | setAfter => intro c piece buf o st d; rfl
  | noAttrs => intro c piece buf o st d; rfl
  | ret => intro c piece buf o st d; rfl
  | addText => intro c piece buf o st d; rfl
  | clearText => intro c piece buf o st d; rfl
  | err k => intro c piece buf o st d; rfl
  | seq a b iha ihb =>
    intro c piece buf o st d
    simp only [CProg.erase, exec_mkSeq, cexec]
    cases hr : (cexec a c piece buf o st).ret
    · simp only [Bool.false_eq_true, ↓reduceIte, exec, List.append_assoc]
      rw [iha, hr]
      simp only [Bool.false_eq_true, ↓reduceIte]
      rw [ihb]
    · simp only [↓reduceIte, exec]
      rw [iha, hr]
      simp
  | ifData cd a b iha ihb =>
    intro c piece buf o st d
    simp only [CProg.erase, cexec]
    cases hx : (condBit cd piece buf o).1
    · simp only [Bool.false_eq_true, ↓reduceIte, List.cons_append, exec]
      rw [ihb]
    · simp only [↓reduceIte, List.cons_append, exec]
      rw [iha]
  | ifNoAttrs a b iha ihb =>
    intro c piece buf o st d
    simp only [CProg.erase, cexec, exec]
    split
    · rw [ihb]
    · rw [iha]
  | ifHasAttrs a b iha ihb =>
    intro c piece buf o st d
    simp only [CProg.erase, cexec, exec]
    split
    · rw [ihb]
    · rw [iha]
  | ifStateErr a b iha ihb =>
    intro c piece buf o st d
    simp only [CProg.erase, cexec, exec]
    split
    · rw [iha]
    · rw [ihb]
  | ifBlank a b iha ihb =>
    intro c piece buf o st d
    simp only [CProg.erase, cexec, exec]
    split
    · rw [iha]
    · rw [ihb]
  | scope a iha =>
    intro c piece buf o st d
    simp only [CProg.erase, cexec, exec]
    rw [iha]

theorem erasesOk_true : erasesOk = true := by decide +kernel

theorem erase_start (h : StartH) : (cStartProg h).erase = startProg h := by
  cases h <;> rfl

theorem erase_data (h : DataH) : (cDataProg h).erase = dataProg h := by
  cases h <;> rfl

theorem erase_end (h : EndH) : (cEndProg h).erase = endProg h := by
  cases h <;> rfl

/-- one event: the state after `cstep` is the state after `step` on the abstracted event -/
theorem cstep_st (cs : CSt) (e : CEvent) : (cstep cs e).st = step cs.st (toAbs cs e) := by
  cases e with
  | start t ae o =>
    simp only [cstep, toAbs, step, react, ccall]
    rw [← erase_start]
    have := cexec_erase (cStartProg (stag cs.st.state t)) ⟨t, ae, true⟩ [] cs.buf o (tagCall cs.st t) []
    rw [List.append_nil] at this
    rw [this]
  | stop o =>
    simp only [cstep, toAbs, step, react, ccall]
    rw [← erase_end]
    have := cexec_erase (cEndProg (etag cs.st.state)) ⟨.t_unused, true, true⟩ [] cs.buf o cs.st []
    rw [List.append_nil] at this
    rw [this]
  | text s o =>
    simp only [cstep, toAbs, step, react, ccall]
    rw [← erase_data]
    have := cexec_erase (cDataProg (dataH cs.st.state)) ⟨.t_unused, true, isBlank s⟩ s cs.buf o cs.st []
    rw [List.append_nil] at this
    rw [this]

/-- the run on real text IS `DP.run` on the events whose bits `toAbs` computes -/
theorem crun_st (cs : CSt) (evs : List CEvent) : (crun cs evs).st = run cs.st (absEvents cs evs) := by
  induction evs generalizing cs with
  | nil => rfl
  | cons e r ih =>
    simp only [crun, List.foldl_cons, absEvents, run]
    have := ih (cstep cs e)
    simp only [crun, run] at this
    rw [this, cstep_st]

end Gama.DP

namespace Gama.DP

/-! ### one numeric field: accepted iff its text is in the language of the chain, otherwise refused at its end event -/

/-- the end handler of an element read as ONE `pure_data` test over `text_buffer`:
    `stringstream istr(text_buffer); if ([g &&] pure_data(istr >> x1 … >> xn)) { text_buffer.clear(); …; return end_tag(name); } return error("…");` -/
def fieldProg (chain : List XKind) (g : Guard) : CProg :=
  .seq (.ifData (.pure .buffer chain g false) (.seq .clearText (.seq (.scope cEndTagProg) .ret)) .skip) (.seq (.err .data) .ret)

/-- recogniser of that shape -/
def isField : CProg → Option (List XKind × Guard)
  | .seq (.ifData (.pure .buffer chain g false) (.seq .clearText (.seq (.scope p) .ret)) .skip) (.seq (.err .data) .ret) =>
      if p = cEndTagProg then some (chain, g) else none
  | _ => none

theorem isField_sound {p : CProg} {chain : List XKind} {g : Guard} (h : isField p = some (chain, g)) :
    p = fieldProg chain g := by
  unfold isField at h
  split at h
  · split at h
    · next hp =>
      simp only [Option.some.injEq, Prod.mk.injEq] at h
      obtain ⟨h1, h2⟩ := h
      subst h1; subst h2; subst hp
      rfl
    · cases h
  · cases h

/-- the guard conjunct of the condition holds (an oracle bit unless there is none) -/
def guardOk (g : Guard) (o : List Bool) : Bool :=
  match g with
  | .none => true
  | _ => (pop o).1

theorem cEndTagProg_eq : cEndTagProg = .seq .setAfter (.seq (.ifStateErr (.seq (.err .end_tag) .ret) .skip) .ret) := rfl

theorem field_refused (chain : List XKind) (g : Guard) (ctx : Ctx) (buf : List Char) (o : List Bool) (st : St)
    (h : pureOk chain buf = false) :
    (cexec (fieldProg chain g) ctx [] buf o st).st = st.error .data := by
  cases g <;> simp [fieldProg, cexec, condBit, h]

theorem field_accepted (chain : List XKind) (g : Guard) (ctx : Ctx) (buf : List Char) (o : List Bool) (st : St)
    (h : pureOk chain buf = true) (hg : guardOk g o = true) (ha : after st.state ≠ .s_error) :
    (cexec (fieldProg chain g) ctx [] buf o st).st = { st with state := after st.state } ∧
    (cexec (fieldProg chain g) ctx [] buf o st).buf = [] := by
  cases g <;> simp_all [fieldProg, cexec, condBit, guardOk, cEndTagProg_eq]

/-- every state whose end handler is a field handler has a successor state (`after[s] != s_error`): the accepted
    field does not run into "unexpected end tag" (table fact, all states) -/
theorem field_after_ok : ∀ s : State, (isField (cEndProg (etag s))).isSome = true → after s ≠ .s_error := by
  intro s
  cases s <;> decide

theorem crun_append (cs : CSt) (a b : List CEvent) : crun cs (a ++ b) = crun (crun cs a) b := by
  simp [crun, List.foldl_append]

theorem cstep_n (cs : CSt) (e : CEvent) : (cstep cs e).st.n = cs.st.n + 1 := rfl

theorem crun_n (evs : List CEvent) : ∀ cs : CSt, (crun cs evs).st.n = cs.st.n + evs.length := by
  induction evs with
  | nil => intro cs; rfl
  | cons e r ih =>
    intro cs
    show (crun (cstep cs e) r).st.n = _
    rw [ih, cstep_n, List.length_cons]; omega

theorem crun_err_preserved (evs : List CEvent) (cs : CSt) (e : Nat × ErrKind) (h : cs.st.err = some e) :
    (crun cs evs).st.err = some e := by
  rw [crun_st]; exact run_err_preserved _ _ _ h

theorem crun_error_absorbing (evs : List CEvent) (cs : CSt) (h : cs.st.state = .s_error) :
    (crun cs evs).st.state = .s_error := by
  rw [crun_st]; exact run_error_absorbing _ _ h

/-- REFUSED, LOCATED: after any prefix without recorded error, the end event of a field element whose pooled text is not in
    the language of its chain records `(index of that end event, data)`, whatever the oracle bits and whatever follows -/
theorem field_located (pre post : List CEvent) (o : List Bool) (chain : List XKind) (g : Guard)
    (hclean : (crun CSt.init pre).st.err = none)
    (hh : isField (cEndProg (etag (crun CSt.init pre).st.state)) = some (chain, g))
    (hbad : pureOk chain (crun CSt.init pre).buf = false) :
    (crun CSt.init (pre ++ .stop o :: post)).st.err = some (pre.length, .data) ∧
    outcome (crun CSt.init (pre ++ .stop o :: post)).st = .refused (some (pre.length, .data)) := by
  have hn : (crun CSt.init pre).st.n = pre.length := by
    rw [crun_n]; simp [CSt.init, St.init]
  have h1 : (cstep (crun CSt.init pre) (.stop o)).st.err = some (pre.length, .data) ∧
      (cstep (crun CSt.init pre) (.stop o)).st.state = .s_error := by
    simp only [cstep, ccall]
    rw [isField_sound hh, field_refused _ _ _ _ _ _ hbad, error_of_none _ hclean, hn]
    exact ⟨rfl, rfl⟩
  have h2 : crun CSt.init (pre ++ .stop o :: post) = crun (cstep (crun CSt.init pre) (.stop o)) post := by
    rw [crun_append]; rfl
  rw [h2]
  have he := crun_err_preserved post _ _ h1.1
  have hs := crun_error_absorbing post _ h1.2
  refine ⟨he, ?_⟩
  simp [outcome, hs, he]

/-- ACCEPTED: … and when the text is in the language (and the guard conjunct holds) the end event records nothing, moves to
    `after[state]` and empties `text_buffer` -/
theorem field_passes (pre : List CEvent) (o : List Bool) (chain : List XKind) (g : Guard)
    (hh : isField (cEndProg (etag (crun CSt.init pre).st.state)) = some (chain, g))
    (hok : pureOk chain (crun CSt.init pre).buf = true) (hg : guardOk g o = true) :
    (crun CSt.init (pre ++ [.stop o])).st.err = (crun CSt.init pre).st.err ∧
    (crun CSt.init (pre ++ [.stop o])).st.state = after (crun CSt.init pre).st.state ∧
    (crun CSt.init (pre ++ [.stop o])).buf = [] := by
  have ha := field_after_ok (crun CSt.init pre).st.state (by rw [hh]; rfl)
  have h2 : crun CSt.init (pre ++ [.stop o]) = cstep (crun CSt.init pre) (.stop o) := by
    rw [crun_append]; rfl
  rw [h2]
  simp only [cstep, ccall]
  rw [isField_sound hh]
  obtain ⟨h1, h3⟩ := field_accepted chain g ⟨.t_unused, true, true⟩ _ o _ hok hg ha
  rw [h1, h3]
  exact ⟨rfl, rfl, rfl⟩

theorem pureOk_double (s : List Char) : pureOk [.double] s = PD.numberOk s := rfl

end Gama.DP
