/-
  C05 — what `distance / direction / azimuth / angle` return INSIDE the region `bearing_distance`
  excludes (`d < 1e-6`: bearing and distance are reported as 0), and total closed forms that cover
  both regimes.

  `bC o`, `dC o` are the bearing and the distance as the code takes them.  Inside the cut the
  factor `10*R2G/d` is a division by `dC o = 0`; the statements keep that quotient unevaluated
  (`KF 0`).  Over ℝ Lean's `x / 0 = 0` makes it 0 (`KF_zero`, an artefact of the totalised
  division); at `double` it is `+inf`, so the pushed coefficients are `±inf` (times `cos 0 = 1`) and
  `NaN` (times `sin 0 = 0`) — seen by the correspondence stream on every run.  What the theorems
  establish for the excluded set is therefore: WHICH unknowns receive a coefficient (the same as
  outside), the right-hand side (formed with bearing 0 / distance 0), and that the distance row is
  the finite row `(0, −1, 0, 1)`; they make no claim that those rows are derivatives.
-/
import Gama.Lemmas.LinReal
namespace Gama.Lin
open Real

/-- bearing from → to as `bearing_distance` reports it -/
noncomputable def bC (o : Obs ℝ) : ℝ := if hdist o < CUT then 0 else brg (dX o) (dY o)
/-- distance from → to as `bearing_distance` reports it -/
noncomputable def dC (o : Obs ℝ) : ℝ := if hdist o < CUT then 0 else hdist o
/-- the same for the foresight of an angle -/
noncomputable def bC2 (o : Obs ℝ) : ℝ := if hdist2 o < CUT then 0 else brg (dX2 o) (dY2 o)
noncomputable def dC2 (o : Obs ℝ) : ℝ := if hdist2 o < CUT then 0 else hdist2 o

theorem bd_fst (o : Obs ℝ) : (Gen.Lin.bearingDistancePt o.pfrom o.pto).1 = bC o := by
  rw [bearingDistancePt_eq]; unfold bC; split <;> rfl
theorem bd_snd (o : Obs ℝ) : (Gen.Lin.bearingDistancePt o.pfrom o.pto).2 = dC o := by
  rw [bearingDistancePt_eq]; unfold dC; split <;> rfl
theorem bd_fst2 (o : Obs ℝ) : (Gen.Lin.bearingDistancePt o.pfrom o.pfs).1 = bC2 o := by
  rw [bearingDistancePt_eq2]; unfold bC2; split <;> rfl
theorem bd_snd2 (o : Obs ℝ) : (Gen.Lin.bearingDistancePt o.pfrom o.pfs).2 = dC2 o := by
  rw [bearingDistancePt_eq2]; unfold dC2; split <;> rfl

theorem KF_zero : KF 0 = 0 := by simp [KF]

/-- the block of two pushes of an angular type for the point in role `r` -/
def xyBlock (b : Bool) (r : Role) (cy cx : ℝ) : List (Ev ℝ) :=
  if b then [Ev.touch r .x, Ev.touch r .y, Ev.push r .y cy, Ev.push r .x cx] else []

/-- distance, any regime -/
theorem distance_form (fuel : Nat) (o : Obs ℝ) :
    Gen.Lin.distance fuel o = .ok ⟨(o.value - dC o) * 1000,
      xyBlock o.pfrom.free_xy .pfrom (-(Real.sin (bC o))) (-(Real.cos (bC o))) ++
      xyBlock o.pto.free_xy .pto (Real.sin (bC o)) (Real.cos (bC o))⟩ := by
  simp only [Gen.Lin.distance, bd_fst, bd_snd, sin_real, cos_real, ofSci_real, xyBlock]
  norm_num

/-- direction, any regime -/
theorem direction_form (fuel : Nat) (o : Obs ℝ) (out : LinOut ℝ) (hok : Gen.Lin.direction fuel o = .ok out) :
    IsWrapOf ((o.value + o.orientation - bC o) * R2CC) out.rhs ∧
    out.evs = [Ev.touch .station .ori] ++ [Ev.push .station .ori (-1)] ++
      xyBlock o.pfrom.free_xy .pfrom (-(KF (dC o) * Real.cos (bC o))) (KF (dC o) * Real.sin (bC o)) ++
      xyBlock o.pto.free_xy .pto (KF (dC o) * Real.cos (bC o)) (-(KF (dC o) * Real.sin (bC o))) := by
  simp only [Gen.Lin.direction, bd_fst, bd_snd, sin_real, cos_real, full_eq, pi_real] at hok
  split at hok
  · exact absurd hok (by simp)
  · rename_i r1 h1
    split at hok
    · exact absurd hok (by simp)
    · rename_i r h2
      injection hok with hok; subst hok
      refine ⟨?_, ?_⟩
      · have := wrap_spec _ _ hc1 hc2 fuel _ r1 r h1 h2
        convert this using 1
        simp [R2CC]; ring
      · simp [xyBlock, KF]
        norm_num

/-- azimuth, any regime -/
theorem azimuth_form (fuel : Nat) (o : Obs ℝ) (out : LinOut ℝ) (hok : Gen.Lin.azimuth fuel o = .ok out) :
    IsWrapOf ((o.value + o.xNorth - bC o) * R2CC) out.rhs ∧
    out.evs =
      xyBlock o.pfrom.free_xy .pfrom (-(KF (dC o) * Real.cos (bC o))) (KF (dC o) * Real.sin (bC o)) ++
      xyBlock o.pto.free_xy .pto (KF (dC o) * Real.cos (bC o)) (-(KF (dC o) * Real.sin (bC o))) := by
  simp only [Gen.Lin.azimuth, bd_fst, bd_snd, sin_real, cos_real, full_eq, pi_real] at hok
  split at hok
  · exact absurd hok (by simp)
  · rename_i r1 h1
    split at hok
    · exact absurd hok (by simp)
    · rename_i r h2
      injection hok with hok; subst hok
      refine ⟨?_, ?_⟩
      · have := wrap_spec _ _ hc1 hc2 fuel _ r1 r h1 h2
        convert this using 1
        simp [R2CC]; ring
      · simp [xyBlock, KF]
        norm_num

/-- the angle bs → fs as the code forms it from the reported bearings -/
noncomputable def angleC (o : Obs ℝ) : ℝ :=
  let ds := bC2 o - bC o
  if ds < 0 then ds + 2 * π else ds

/-- angle, any regime -/
theorem angle_form (fuel : Nat) (o : Obs ℝ) (out : LinOut ℝ) (hok : Gen.Lin.angle fuel o = .ok out) :
    IsWrapOf ((o.value - angleC o) * R2CC) out.rhs ∧
    out.evs =
      xyBlock o.pfrom.free_xy .pfrom (-(KF (dC2 o) * Real.cos (bC2 o)) + KF (dC o) * Real.cos (bC o))
        (KF (dC2 o) * Real.sin (bC2 o) - KF (dC o) * Real.sin (bC o)) ++
      xyBlock o.pto.free_xy .pto (-(KF (dC o) * Real.cos (bC o))) (KF (dC o) * Real.sin (bC o)) ++
      xyBlock o.pfs.free_xy .pfs (KF (dC2 o) * Real.cos (bC2 o)) (-(KF (dC2 o) * Real.sin (bC2 o))) := by
  simp only [Gen.Lin.angle, bd_fst, bd_snd, bd_fst2, bd_snd2, sin_real, cos_real, full_eq, pi_real] at hok
  split at hok
  · exact absurd hok (by simp)
  · rename_i r1 h1
    split at hok
    · exact absurd hok (by simp)
    · rename_i r h2
      injection hok with hok; subst hok
      refine ⟨?_, ?_⟩
      · have := wrap_spec _ _ hc1 hc2 fuel _ r1 r h1 h2
        convert this using 1
        simp [R2CC, angleC]; ring
      · simp [xyBlock, KF]
        norm_num

/-! ### inside the cut -/

theorem bC_cut {o : Obs ℝ} (h : hdist o < CUT) : bC o = 0 := by simp [bC, h]
theorem dC_cut {o : Obs ℝ} (h : hdist o < CUT) : dC o = 0 := by simp [dC, h]
theorem bC2_cut {o : Obs ℝ} (h : hdist2 o < CUT) : bC2 o = 0 := by simp [bC2, h]
theorem dC2_cut {o : Obs ℝ} (h : hdist2 o < CUT) : dC2 o = 0 := by simp [dC2, h]

/-- a distance shorter than the cut: the row is finite and fixed — `0` on both `y`, `−1 / +1` on `x` —
    and the right-hand side is the whole observed value (computed distance 0) -/
theorem distance_cut (fuel : Nat) (o : Obs ℝ) (h : hdist o < CUT) :
    Gen.Lin.distance fuel o = .ok ⟨o.value * 1000,
      xyBlock o.pfrom.free_xy .pfrom 0 (-1) ++ xyBlock o.pto.free_xy .pto 0 1⟩ := by
  rw [distance_form, bC_cut h, dC_cut h]; simp

theorem direction_cut (fuel : Nat) (o : Obs ℝ) (out : LinOut ℝ) (h : hdist o < CUT)
    (hok : Gen.Lin.direction fuel o = .ok out) :
    IsWrapOf ((o.value + o.orientation) * R2CC) out.rhs ∧
    out.evs = [Ev.touch .station .ori] ++ [Ev.push .station .ori (-1)] ++
      xyBlock o.pfrom.free_xy .pfrom (-(KF 0 * 1)) (KF 0 * 0) ++ xyBlock o.pto.free_xy .pto (KF 0 * 1) (-(KF 0 * 0)) := by
  have := direction_form fuel o out hok
  rw [bC_cut h, dC_cut h] at this
  simpa using this

theorem azimuth_cut (fuel : Nat) (o : Obs ℝ) (out : LinOut ℝ) (h : hdist o < CUT)
    (hok : Gen.Lin.azimuth fuel o = .ok out) :
    IsWrapOf ((o.value + o.xNorth) * R2CC) out.rhs ∧
    out.evs = xyBlock o.pfrom.free_xy .pfrom (-(KF 0 * 1)) (KF 0 * 0) ++ xyBlock o.pto.free_xy .pto (KF 0 * 1) (-(KF 0 * 0)) := by
  have := azimuth_form fuel o out hok
  rw [bC_cut h, dC_cut h] at this
  simpa using this

/-- angle whose backsight is shorter than the cut: the backsight bearing is taken as 0, so the
    right-hand side compares the observed angle with the bare foresight bearing; the coefficients of
    the backsight are `KF 0`-multiples -/
theorem angle_cut_bs (fuel : Nat) (o : Obs ℝ) (out : LinOut ℝ) (h : hdist o < CUT)
    (hok : Gen.Lin.angle fuel o = .ok out) :
    IsWrapOf ((o.value - bC2 o) * R2CC) out.rhs ∧
    out.evs =
      xyBlock o.pfrom.free_xy .pfrom (-(KF (dC2 o) * Real.cos (bC2 o)) + KF 0 * 1) (KF (dC2 o) * Real.sin (bC2 o) - KF 0 * 0) ++
      xyBlock o.pto.free_xy .pto (-(KF 0 * 1)) (KF 0 * 0) ++
      xyBlock o.pfs.free_xy .pfs (KF (dC2 o) * Real.cos (bC2 o)) (-(KF (dC2 o) * Real.sin (bC2 o))) := by
  obtain ⟨h1, h2⟩ := angle_form fuel o out hok
  have hb : 0 ≤ bC2 o := by unfold bC2; split; exact le_refl _; exact brg_nonneg _ _
  have ha : angleC o = bC2 o := by
    simp only [angleC, bC_cut h, sub_zero]
    rw [if_neg (not_lt.mpr hb)]
  rw [ha] at h1
  rw [bC_cut h, dC_cut h] at h2
  exact ⟨h1, by simpa using h2⟩

/-- the targets of the pushes are the same inside and outside the cut -/
theorem pushes_xyBlock (b : Bool) (r : Role) (cy cx : ℝ) :
    targets (pushes (xyBlock b r cy cx)) = if b then [(r, .y), (r, .x)] else [] := by
  cases b <;> simp [xyBlock, pushes, targets]

end Gama.Lin
