/-
  Example documents (SAX events with the real character data) for Props/C11DataParserAccept.lean.
-/
import Gama.Model.DataParserValues
namespace Gama.DP.Ex
open Gama Gama.DP


def el (t : Tag) (txt : String) (o : List Bool := []) : List CEvent := [.start t true [], .text txt.toList [], .stop o]

/-- head of a g3 document: constants with an ellipsoid given by a / b (two children pooled into one buffer), a point -/
def headDoc : List CEvent :=
  [.start .t_gama_data false [false], .text ['\n'] []] ++ el .t_text "demo" ++
  [.start .t_g3_model true [], .start .t_constants true []] ++ el .t_apriori_sd " 10 " ++
  [.start .t_ang_gons true [], .stop [], .start .t_ellipsoid true []] ++ el .t_a "6378137" ++ el .t_b "6356752.3" ++
  [.stop [], .stop [], .start .t_fixed true [], .start .t_n true [], .stop [], .stop [],
   .start .t_point true []] ++ el .t_id "A" [false] ++ el .t_x "1" ++ el .t_y "-2.5e0" ++ el .t_z ".3" ++ [.stop [false]]

/-- an `<obs>` with a distance (`val` = the pieces of its character data), its `<stdev>`, a vector with the given `<dz>` text -/
def obsDoc (dz : String) (val : List String := ["10.5"]) : List CEvent :=
  [.start .t_obs true [], .start .t_dist true []] ++ el .t_from "A" ++ el .t_to "B" ++
  [.start .t_val true []] ++ val.map (fun p => CEvent.text p.toList []) ++ [.stop []] ++
  [.start .t_stdev true [], .text "5".toList [], .stop [], .stop [],
   .start .t_vector true []] ++ el .t_from "A" ++ el .t_to "B" ++ el .t_dx "1" ++ el .t_dy "+2" ++ el .t_dz dz

/-- `</vector>`, the covariance matrix, then everything is closed -/
def tailDoc : List CEvent :=
  [.stop [], .start .t_covmat true []] ++ el .t_dim "4" ++ el .t_band "0" ++ el .t_flt "25" ++ el .t_flt "1" ++ el .t_flt "1" ++ el .t_flt "1" ++
  [.stop [false, false, false, false, false], .stop [false, false, false, false], .stop [], .stop []]


end Gama.DP.Ex
