/-
  `BlockDiagonal::cholDec` on the WHOLE object (`BlockDiag.cholDec`, Model/BlockDiagonal.lean: one
  buffer `nonz_`, tables `begin_`, `dim_`, `width_`, the pointer walk of the row loop started at
  `begin(block)`, `return block` on a bad pivot) equals `bdCholBlock` applied to every block
  separately (`bdCholDec`, Model/BandChol.lean), for any number of blocks, any dims and widths and any
  `[Scalar K]`: pure bookkeeping — the row loop of block `b` reads and writes only
  `begin(b) … end(b)`.

  * M1  `Emb pre post A s` : the buffer of `A` is `pre ++ buffer of s ++ post`; raw reads / writes at
        `|pre| + k` on `A` are raw reads / writes at `k` on `s` when `k` is inside `s`;
  * M2  `elimPtr`, `scalePtr`, `bdRowStep`, `bdBlockRows` commute with the embedding (every offset they
        touch is `off d b i j` of an in-band pair, hence inside the block: `inBuf_off`);
  * M3  `BlockDiag.Holds bd Cs tail` (the object stores the blocks `Cs`), the walk over the blocks:
        `cholDec_blockwise`;
  * M4  consequences over an ordered field: every accepted block is factored as `UᵀU` (dense banded
        Cholesky), the return value is the index of the first block with a pivot below the tolerance.
-/
import Gama.Lemmas.CovAgree
import Gama.Model.BlockDiagonal
namespace Gama.Cov
open Packed CovMat

set_option linter.unusedSectionVars false

/-! ### M1 : embedding of a block into the whole buffer -/

section Emb
variable {K : Type}

/-- the buffer of `A` is `pre ++ (buffer of s) ++ post` -/
def Emb (pre post : List K) (A s : CovMat K) : Prop := A.buf.toList = pre ++ s.buf.toList ++ post

theorem Emb.size {pre post : List K} {A s : CovMat K} (h : Emb pre post A s) :
    A.buf.size = pre.length + s.buf.size + post.length := by
  have h' : A.buf.toList = pre ++ s.buf.toList ++ post := h
  have := congrArg List.length h'
  simp only [List.length_append, Array.length_toList] at this
  omega

theorem Emb.inBuf {pre post : List K} {A s : CovMat K} (h : Emb pre post A s) {k : Int}
    (hk : s.inBuf k = true) : A.inBuf ((pre.length : Int) + k) = true := by
  unfold CovMat.inBuf at hk ⊢
  simp only [Bool.and_eq_true, decide_eq_true_eq] at hk ⊢
  rw [h.size]
  omega

theorem Emb.raw {pre post : List K} {A s : CovMat K} (h : Emb pre post A s) (z : K) {k : Int}
    (hk : s.inBuf k = true) : A.raw z ((pre.length : Int) + k) = s.raw z k := by
  have hA := h.inBuf hk
  unfold CovMat.raw
  rw [if_pos hA, if_pos hk]
  unfold CovMat.inBuf at hk
  simp only [Bool.and_eq_true, decide_eq_true_eq] at hk
  have e : ((pre.length : Int) + k).toNat = pre.length + k.toNat := by omega
  have hlt : k.toNat < s.buf.size := by omega
  have hltA : pre.length + k.toNat < A.buf.size := by rw [h.size]; omega
  rw [e]
  have h' : A.buf.toList = pre ++ s.buf.toList ++ post := h
  have g : ∀ (a : Array K) (n : Nat), a.getD n z = (a.toList[n]?).getD z := by
    intro a n; simp [Array.getD_eq_getD_getElem?]
  rw [g, g, h', List.append_assoc, List.getElem?_append_right (by omega),
    List.getElem?_append_left (by simp; omega)]
  congr 2
  omega

theorem Emb.rawSet {pre post : List K} {A s : CovMat K} (h : Emb pre post A s) {k : Int}
    (hk : s.inBuf k = true) (v : K) :
    Emb pre post (A.rawSet ((pre.length : Int) + k) v) (s.rawSet k v) := by
  have hA := h.inBuf hk
  unfold Emb CovMat.rawSet
  rw [if_pos hA, if_pos hk]
  unfold CovMat.inBuf at hk
  simp only [Bool.and_eq_true, decide_eq_true_eq] at hk
  have e : ((pre.length : Int) + k).toNat = pre.length + k.toNat := by omega
  have hlt : k.toNat < s.buf.size := by omega
  have h' : A.buf.toList = pre ++ s.buf.toList ++ post := h
  simp only [Array.toList_setIfInBounds, e]
  rw [h', List.append_assoc, List.set_append_right _ _ (by omega), List.set_append_left _ _ (by simp; omega),
    List.append_assoc]
  congr 3
  omega

end Emb

/-! ### M2 : the pointer walk of one block commutes with the embedding -/

section Ptr
variable {K : Type} [Scalar K]

/-- two folds over the same list keep a relation between their states -/
theorem foldl_rel {σ τ α : Type} (f : σ → α → σ) (g : τ → α → τ) (R : σ → τ → Prop) (l : List α)
    (h : ∀ s t a, a ∈ l → R s t → R (f s a) (g t a)) (s0 : σ) (t0 : τ) (h0 : R s0 t0) :
    R (l.foldl f s0) (l.foldl g t0) := by
  induction l generalizing s0 t0 with
  | nil => exact h0
  | cons x xs ih =>
    rw [List.foldl_cons, List.foldl_cons]
    exact ih (fun s t a ha => h s t a (List.mem_cons_of_mem _ ha)) _ _ (h s0 t0 x List.mem_cons_self h0)

/-- `s` is a `CovMat` of the shape of `C` embedded in the arena `A` -/
def EmbS (C : CovMat K) (pre post : List K) (A s : CovMat K) : Prop := Emb pre post A s ∧ Same C s

theorem EmbS.inBuf {C : CovMat K} {pre post : List K} {A s : CovMat K} (h : EmbS C pre post A s)
    {i j : Nat} (hb : InBand C.dim C.band i j) : s.inBuf (off C.dim C.band i j) = true := by
  obtain ⟨_, hw, hd, hbd⟩ := h
  have := inBuf_off hw (i := i) (j := j) (by rw [hd, hbd]; exact hb)
  rw [hd, hbd] at this
  exact this

theorem EmbS.raw {C : CovMat K} {pre post : List K} {A s : CovMat K} (h : EmbS C pre post A s)
    {i j : Nat} (hb : InBand C.dim C.band i j) :
    A.raw 0 ((pre.length : Int) + off C.dim C.band i j) = s.raw 0 (off C.dim C.band i j) :=
  h.1.raw 0 (h.inBuf hb)

theorem EmbS.rawSet {C : CovMat K} {pre post : List K} {A s : CovMat K} (h : EmbS C pre post A s)
    {i j : Nat} (hb : InBand C.dim C.band i j) (v : K) :
    EmbS C pre post (A.rawSet ((pre.length : Int) + off C.dim C.band i j) v)
      (s.rawSet (off C.dim C.band i j) v) := by
  refine ⟨h.1.rawSet (h.inBuf hb) v, ?_⟩
  obtain ⟨_, hw, hd, hbd⟩ := h
  exact ⟨rawSet_WF hw _ _, by rw [rawSet_dim]; exact hd, by rw [rawSet_band]; exact hbd⟩

theorem scalePtr_emb {C : CovMat K} {pre post : List K} {A s : CovMat K} (h : EmbS C pre post A s)
    {row k : Nat} (pivot : K) (hrow : 1 ≤ row) (hk : k ≤ C.band) (hkN : row + k ≤ C.dim) :
    EmbS C pre post (scalePtr k ((pre.length : Int) + rowOff C.dim C.band row) pivot A)
      (scalePtr k (rowOff C.dim C.band row) pivot s) := by
  unfold scalePtr
  refine foldl_rel _ _ (EmbS C pre post) _ ?_ A s h
  intro a t j hj hr
  rw [List.mem_range'_1] at hj
  have hp : InBand C.dim C.band row (row + j) := ⟨hrow, by omega, by omega, by omega⟩
  have e1 : (pre.length : Int) + rowOff C.dim C.band row + (j : Int)
      = (pre.length : Int) + off C.dim C.band row (row + j) := by rw [off_row]; omega
  have e2 : rowOff C.dim C.band row + (j : Int) = off C.dim C.band row (row + j) := by rw [off_row]
  show EmbS C pre post (a.rawSet _ _) (t.rawSet _ _)
  rw [e1, e2, hr.raw hp]
  exact hr.rawSet hp _

theorem elimPtrInner_emb {C : CovMat K} {pre post : List K} {A s : CovMat K} (h : EmbS C pre post A s)
    {row k n : Nat} (pivot : K) (hrow : 1 ≤ row) (hk : k ≤ C.band) (hkN : row + k ≤ C.dim)
    (hn1 : 1 ≤ n) (hnk : n ≤ k) :
    EmbS C pre post
      (elimPtrInner k ((pre.length : Int) + rowOff C.dim C.band row) pivot A
        ((pre.length : Int) + pPtr C.dim C.band row n) n)
      (elimPtrInner k (rowOff C.dim C.band row) pivot s (pPtr C.dim C.band row n) n) := by
  unfold elimPtrInner
  have hpn : InBand C.dim C.band row (row + n) := ⟨hrow, by omega, by omega, by omega⟩
  have hq : A.raw 0 ((pre.length : Int) + rowOff C.dim C.band row + (n : Int))
      = s.raw 0 (rowOff C.dim C.band row + (n : Int)) := by
    have e1 : (pre.length : Int) + rowOff C.dim C.band row + (n : Int)
        = (pre.length : Int) + off C.dim C.band row (row + n) := by rw [off_row]; omega
    rw [e1, ← off_row, h.raw hpn]
  rw [hq]
  refine foldl_rel _ _ (EmbS C pre post) _ ?_ A s h
  intro a t l hl hr
  rw [List.mem_range'_1] at hl
  have hp : InBand C.dim C.band (row + n) (row + l) := ⟨by omega, by omega, by omega, by omega⟩
  have hp0 : InBand C.dim C.band row (row + l) := ⟨hrow, by omega, by omega, by omega⟩
  have e1 : (pre.length : Int) + pPtr C.dim C.band row n + (l : Int)
      = (pre.length : Int) + off C.dim C.band (row + n) (row + l) := by
    rw [off_pPtr _ _ _ _ _ hl.1]; omega
  have e2 : pPtr C.dim C.band row n + (l : Int) = off C.dim C.band (row + n) (row + l) := by
    rw [off_pPtr _ _ _ _ _ hl.1]
  have e3 : (pre.length : Int) + rowOff C.dim C.band row + (l : Int)
      = (pre.length : Int) + off C.dim C.band row (row + l) := by rw [off_row]; omega
  have e4 : rowOff C.dim C.band row + (l : Int) = off C.dim C.band row (row + l) := by rw [off_row]
  show EmbS C pre post (a.rawSet _ _) (t.rawSet _ _)
  rw [e1, e2, e3, e4, hr.raw hp, hr.raw hp0]
  exact hr.rawSet hp _

theorem elimPtr_emb {C : CovMat K} {pre post : List K} {A s : CovMat K} (h : EmbS C pre post A s)
    {row : Nat} (pivot : K) (hrow : 1 ≤ row) (hrN : row ≤ C.dim) :
    EmbS C pre post
      (elimPtr C.band C.dim row ((pre.length : Int) + rowOff C.dim C.band row) pivot A)
      (elimPtr C.band C.dim row (rowOff C.dim C.band row) pivot s) := by
  have hb : C.band ≤ C.dim := h.2.band_le
  have hk : min C.band (C.dim - row) ≤ C.band := Nat.min_le_left _ _
  have hkN : row + min C.band (C.dim - row) ≤ C.dim := by
    have := Nat.min_le_right C.band (C.dim - row); omega
  have hA0 : (pre.length : Int) + rowOff C.dim C.band row + ((min C.band (C.dim - row) : Nat) : Int)
      = (pre.length : Int) + pPtr C.dim C.band row 1 := by
    rw [← pPtr_one hb hrow hrN]; omega
  rw [elimPtr_unfold, elimPtr_unfold, hA0, pPtr_one hb hrow hrN,
    foldl_pair_range'
      (elimPtrInner (min C.band (C.dim - row)) ((pre.length : Int) + rowOff C.dim C.band row) pivot)
      (fun p n => p + ((min C.band (C.dim - row - n) : Nat) : Int))
      (fun n => (pre.length : Int) + pPtr C.dim C.band row n)
      (min C.band (C.dim - row)) 1 A
      (by intro n h1 h2; show _ = _ + _; rw [pPtr_succ hb hrow (by omega)]; omega),
    foldl_pair_range' (elimPtrInner (min C.band (C.dim - row)) (rowOff C.dim C.band row) pivot)
      (fun p n => p + ((min C.band (C.dim - row - n) : Nat) : Int)) (pPtr C.dim C.band row)
      (min C.band (C.dim - row)) 1 s
      (by intro n h1 h2; exact pPtr_succ hb hrow (by omega))]
  refine foldl_rel _ _ (EmbS C pre post) _ ?_ A s h
  intro a t n hn hr
  rw [List.mem_range'_1] at hn
  exact elimPtrInner_emb hr pivot hrow hk hkN hn.1 (by omega)

/-- result of the row loop on the arena vs. on the block alone -/
def RowsRel (C : CovMat K) (pre post : List K) :
    Except (CovMat K) (CovMat K × Int) → Except (CovMat K) (CovMat K × Int) → Prop
  | .error A', .error s' => EmbS C pre post A' s'
  | .ok (A', p'), .ok (s', p) => EmbS C pre post A' s' ∧ p' = (pre.length : Int) + p
  | _, _ => False

theorem bdRowStep_emb {C : CovMat K} {pre post : List K} {A s : CovMat K} (h : EmbS C pre post A s)
    (tol : K) {row : Nat} (hrow : 1 ≤ row) (hrN : row ≤ C.dim) :
    RowsRel C pre post
      (bdRowStep C.band C.dim tol (A, (pre.length : Int) + rowOff C.dim C.band row) row)
      (bdRowStep C.band C.dim tol (s, rowOff C.dim C.band row) row) := by
  have hpp : InBand C.dim C.band row row := ⟨hrow, le_refl _, hrN, by omega⟩
  have hoff : off C.dim C.band row row = rowOff C.dim C.band row := by unfold off; omega
  have hpiv : A.raw 0 ((pre.length : Int) + rowOff C.dim C.band row)
      = s.raw 0 (rowOff C.dim C.band row) := by
    rw [← hoff]; exact h.raw hpp
  have hk : min C.band (C.dim - row) ≤ C.band := Nat.min_le_left _ _
  have hkN : row + min C.band (C.dim - row) ≤ C.dim := by
    have := Nat.min_le_right C.band (C.dim - row); omega
  unfold bdRowStep
  simp only [hpiv]
  by_cases hc : s.raw 0 (rowOff C.dim C.band row) < tol
  · simp only [hc, if_true]
    exact h
  · simp only [hc, if_false]
    refine ⟨?_, by omega⟩
    have hE := elimPtr_emb h (s.raw 0 (rowOff C.dim C.band row)) hrow hrN
    have hS := hE.rawSet hpp (Scalar.sqrt (s.raw 0 (rowOff C.dim C.band row)))
    rw [hoff] at hS
    exact scalePtr_emb hS _ hrow hk hkN

theorem bdRows_emb {C : CovMat K} (pre post : List K) (tol : K) :
    ∀ (cnt row : Nat) (A s : CovMat K), EmbS C pre post A s → 1 ≤ row → row + cnt = C.dim + 1 →
      RowsRel C pre post
        ((List.range' row cnt).foldlM (bdRowStep C.band C.dim tol)
          (A, (pre.length : Int) + rowOff C.dim C.band row))
        ((List.range' row cnt).foldlM (bdRowStep C.band C.dim tol) (s, rowOff C.dim C.band row)) := by
  intro cnt
  induction cnt with
  | zero =>
    intro row A s h _ _
    exact ⟨h, rfl⟩
  | succ cnt ih =>
    intro row A s h hrow hcnt
    have hrN : row ≤ C.dim := by omega
    have hb : C.band ≤ C.dim := h.2.band_le
    have hstep := bdRowStep_emb h tol hrow hrN
    rw [List.range'_succ, List.foldlM_cons, List.foldlM_cons]
    have hnext : rowOff C.dim C.band row + ((min C.band (C.dim - row) : Nat) : Int) + 1
        = rowOff C.dim C.band (row + 1) := by
      rw [rowOff_succ hb hrow hrN]; unfold rowLen; omega
    -- what the step on the block returns
    have hs : bdRowStep C.band C.dim tol (s, rowOff C.dim C.band row) row =
        if s.raw 0 (rowOff C.dim C.band row) < tol then .error s
        else .ok (scalePtr (min C.band (C.dim - row)) (rowOff C.dim C.band row)
              (Scalar.sqrt (s.raw 0 (rowOff C.dim C.band row)))
              ((elimPtr C.band C.dim row (rowOff C.dim C.band row) (s.raw 0 (rowOff C.dim C.band row)) s).rawSet
                (rowOff C.dim C.band row) (Scalar.sqrt (s.raw 0 (rowOff C.dim C.band row)))),
            rowOff C.dim C.band (row + 1)) := by
      unfold bdRowStep
      simp only [hnext]
    cases hA : bdRowStep C.band C.dim tol (A, (pre.length : Int) + rowOff C.dim C.band row) row with
    | error A' =>
      cases hS : bdRowStep C.band C.dim tol (s, rowOff C.dim C.band row) row with
      | error s' =>
        rw [hA, hS] at hstep
        exact hstep
      | ok st => rw [hA, hS] at hstep; exact hstep.elim
    | ok stA =>
      cases hS : bdRowStep C.band C.dim tol (s, rowOff C.dim C.band row) row with
      | error s' => rw [hA, hS] at hstep; exact hstep.elim
      | ok st =>
        rw [hA, hS] at hstep
        obtain ⟨A', p'⟩ := stA
        obtain ⟨s', p⟩ := st
        obtain ⟨hE, hp⟩ := hstep
        have hp2 : p = rowOff C.dim C.band (row + 1) := by
          rw [hs] at hS
          split at hS
          · cases hS
          · cases hS; rfl
        subst hp2
        subst hp
        exact ih (row + 1) A' s' hE (by omega) (by omega)

/-- the row loop of one block run on the arena at `begin(block) = |pre|` vs. on the block alone -/
theorem bdBlockRows_arena {C : CovMat K} (hC : C.WF) (tol : K) (pre post : List K) (A : CovMat K)
    (hA : Emb pre post A C) :
    RowsRel C pre post (bdBlockRows C.band C.dim tol (A, (pre.length : Int)))
      (bdBlockRows C.band C.dim tol (C, 0)) := by
  unfold bdBlockRows
  by_cases hd : C.dim = 0
  · rw [hd]
    exact ⟨⟨hA, Same.refl hC⟩, by omega⟩
  · have h0 : rowOff C.dim C.band 1 = 0 := rowOff_one C.dim C.band (by omega) hC.band_le
    have := bdRows_emb (C := C) pre post tol C.dim 1 A C ⟨hA, Same.refl hC⟩ (le_refl _) (by omega)
    rw [h0, Int.add_zero] at this
    exact this

end Ptr

/-! ### M3 : the walk over the blocks -/

section Walk
variable {K : Type} [Scalar K]

theorem bdCholBlock_eq_rows (tol : K) (m : CovMat K) :
    bdCholBlock tol m = (bdBlockRows m.band m.dim tol (m, (0 : Int))).map (·.1) := rfl

/-- `bdCholDec` without the accumulator: blocks numbered from `i` -/
def bdCholList (tol : K) : Nat → List (CovMat K) → Nat × List (CovMat K)
  | _, [] => (0, [])
  | i, C :: rest =>
    match bdCholBlock tol C with
    | .error C' => (i, C' :: rest)
    | .ok F => ((bdCholList tol (i + 1) rest).1, F :: (bdCholList tol (i + 1) rest).2)

theorem bdCholDec_go_eq (tol : K) : ∀ (rest : List (CovMat K)) (i : Nat) (done : List (CovMat K)),
    bdCholDec.go tol i done rest =
      ((bdCholList tol i rest).1, done.reverse ++ (bdCholList tol i rest).2) := by
  intro rest
  induction rest with
  | nil => intro i done; simp [bdCholDec.go, bdCholList]
  | cons C rest ih =>
    intro i done
    unfold bdCholDec.go bdCholList
    cases h : bdCholBlock tol C with
    | error C' => simp
    | ok F => simp only []; rw [ih]; simp

theorem bdCholDec_eq_list (tol : K) (Cs : List (CovMat K)) : bdCholDec tol Cs = bdCholList tol 1 Cs := by
  unfold bdCholDec
  rw [bdCholDec_go_eq]
  simp

/-- all buffers one after another -/
def flat (Cs : List (CovMat K)) : List K := (Cs.map (fun C => C.buf.toList)).flatten

omit [Scalar K] in
theorem flat_cons (C : CovMat K) (Cs : List (CovMat K)) : flat (C :: Cs) = C.buf.toList ++ flat Cs := by
  simp [flat]

omit [Scalar K] in
theorem Same.size_eq' {C F : CovMat K} (hC : C.WF) (h : Same C F) : F.buf.size = C.buf.size := by
  obtain ⟨hw, hd, hb⟩ := h
  have h1 := hw.size_eq
  have h2 := hC.size_eq
  rw [hd, hb] at h1
  omega

/-- the tables of `bd` describe the blocks `Cs` as blocks `i, i+1, …`, the first starting at `base` -/
def TablesFrom (bd : BlockDiag K) (i base : Nat) (Cs : List (CovMat K)) : Prop :=
  ∀ k (hk : k < Cs.length), bd.dimOf (i + k) = (Cs[k]'hk).dim ∧ bd.widthOf (i + k) = (Cs[k]'hk).band ∧
    bd.beginOf (i + k) = base + (flat (Cs.take k)).length

/-- **the block loop**: started at block `i` on a buffer `pre ++ blocks ++ tail`, `cholDecFrom` returns
    what the block-by-block model returns, and leaves `pre` and `tail` untouched -/
theorem cholDecFrom_spec (tol : K) (bd : BlockDiag K) :
    ∀ (Cs : List (CovMat K)) (i : Nat) (pre tail : List K) (a : Array K),
      (∀ C ∈ Cs, C.WF) → TablesFrom bd i pre.length Cs → a.toList = pre ++ flat Cs ++ tail →
      (bd.cholDecFrom tol i Cs.length a).1 = (bdCholList tol i Cs).1 ∧
      (bd.cholDecFrom tol i Cs.length a).2.toList = pre ++ flat (bdCholList tol i Cs).2 ++ tail ∧
      List.Forall₂ Same Cs (bdCholList tol i Cs).2 := by
  intro Cs
  induction Cs with
  | nil =>
    intro i pre tail a _ _ ha
    exact ⟨rfl, ha, List.Forall₂.nil⟩
  | cons C rest ih =>
    intro i pre tail a hwf htab ha
    have hC : C.WF := hwf C List.mem_cons_self
    obtain ⟨hd, hw, hb⟩ := htab 0 (by simp)
    simp only [Nat.add_zero, List.getElem_cons_zero, List.take_zero] at hd hw hb
    have hb' : bd.beginOf i = pre.length := by rw [hb]; simp [flat]
    have hEmb : Emb pre (flat rest ++ tail) (arena a) C := by
      show a.toList = _
      rw [ha, flat_cons]; simp
    have hrel := bdBlockRows_arena hC tol pre (flat rest ++ tail) (arena a) hEmb
    have hrest : ∀ C' ∈ rest, C'.WF := fun C' h' => hwf C' (List.mem_cons_of_mem _ h')
    have hsame_rest : List.Forall₂ Same rest rest := by
      clear ih htab ha hEmb hrel
      induction rest with
      | nil => exact List.Forall₂.nil
      | cons x xs ihx =>
        exact List.Forall₂.cons (Same.refl (hrest x List.mem_cons_self))
          (ihx (fun C' h' => hwf C' (by
            rcases List.mem_cons.mp h' with e | e
            · exact e ▸ List.mem_cons_self
            · exact List.mem_cons_of_mem _ (List.mem_cons_of_mem _ e)))
            (fun C' h' => hrest C' (List.mem_cons_of_mem _ h')))
    simp only [List.length_cons, BlockDiag.cholDecFrom, bdCholList]
    rw [hw, hd, hb', bdCholBlock_eq_rows]
    cases hA : bdBlockRows C.band C.dim tol (arena a, (pre.length : Int)) with
    | error A' =>
      cases hS : bdBlockRows C.band C.dim tol (C, (0 : Int)) with
      | ok st => rw [hA, hS] at hrel; exact hrel.elim
      | error s' =>
        rw [hA, hS] at hrel
        obtain ⟨hE, hSame⟩ := hrel
        simp only [Except.map]
        refine ⟨by first | rfl | trivial, ?_, List.Forall₂.cons hSame hsame_rest⟩
        show A'.buf.toList = pre ++ flat (s' :: rest) ++ tail
        have hE' : A'.buf.toList = pre ++ s'.buf.toList ++ (flat rest ++ tail) := hE
        rw [hE', flat_cons]; simp
    | ok stA =>
      cases hS : bdBlockRows C.band C.dim tol (C, (0 : Int)) with
      | error s' => rw [hA, hS] at hrel; exact hrel.elim
      | ok st =>
        rw [hA, hS] at hrel
        obtain ⟨A', p'⟩ := stA
        obtain ⟨F, p⟩ := st
        obtain ⟨⟨hE, hSame⟩, _⟩ := hrel
        have hE' : A'.buf.toList = pre ++ F.buf.toList ++ (flat rest ++ tail) := hE
        have hsz : F.buf.size = C.buf.size := Same.size_eq' hC hSame
        have htab' : TablesFrom bd (i + 1) (pre ++ F.buf.toList).length rest := by
          intro k hk
          obtain ⟨h1, h2, h3⟩ := htab (k + 1) (by simp; omega)
          simp only [List.getElem_cons_succ, List.take_succ_cons, flat_cons, List.length_append,
            Array.length_toList] at h1 h2 h3
          refine ⟨by rw [← h1]; congr 1; omega, by rw [← h2]; congr 1; omega, ?_⟩
          rw [show i + 1 + k = i + (k + 1) by omega, h3]
          simp only [List.length_append, Array.length_toList]
          omega
        obtain ⟨r1, r2, r3⟩ := ih (i + 1) (pre ++ F.buf.toList) tail A'.buf hrest htab'
          (by rw [hE']; simp)
        simp only [Except.map]
        refine ⟨r1, ?_, List.Forall₂.cons hSame r3⟩
        show (bd.cholDecFrom tol (i + 1) rest.length A'.buf).2.toList = _
        rw [r2, flat_cons]; simp

/-- the object `bd` stores exactly the blocks `Cs` (tables and buffer), `tail` = unused floats -/
structure BlockDiag.Holds (bd : BlockDiag K) (Cs : List (CovMat K)) (tail : List K) : Prop where
  blocks : bd.blocks = Cs.length
  tables : TablesFrom bd 1 0 Cs
  nonz   : bd.nonz.toList = flat Cs ++ tail

omit [Scalar K] in
theorem flat_take_length {Cs Fs : List (CovMat K)} (hwf : ∀ C ∈ Cs, C.WF) (h : List.Forall₂ Same Cs Fs)
    (k : Nat) : (flat (Fs.take k)).length = (flat (Cs.take k)).length := by
  induction h generalizing k with
  | nil => simp
  | @cons C F Cs' Fs' hCF _ ih =>
    cases k with
    | zero => simp
    | succ k =>
      simp only [List.take_succ_cons, flat_cons, List.length_append, Array.length_toList]
      rw [ih (fun C' h' => hwf C' (List.mem_cons_of_mem _ h')) k,
        Same.size_eq' (hwf C List.mem_cons_self) hCF]

/-- **`BlockDiagonal::cholDec` = `bdCholBlock` block by block.**  For an object holding the blocks
    `Cs` (any number, any dims and widths), the pointer walk over `begin(block)`, `dim(block)`,
    `width(block)` returns the return value of the block-by-block model `bdCholDec` (index of the first
    rejected block or 0) and leaves an object that holds exactly `bdCholDec`'s blocks: every block before
    the rejected one factored, the rejected one partially, later ones and the unused floats untouched. -/
theorem BlockDiag.cholDec_blockwise (tol : K) (bd : BlockDiag K) (Cs : List (CovMat K)) (tail : List K)
    (h : bd.Holds Cs tail) (hwf : ∀ C ∈ Cs, C.WF) :
    (bd.cholDec tol).1 = (bdCholDec tol Cs).1 ∧
    (bd.cholDec tol).2.Holds (bdCholDec tol Cs).2 tail ∧
    List.Forall₂ Same Cs (bdCholDec tol Cs).2 := by
  obtain ⟨hb, ht, hn⟩ := h
  have hspec := cholDecFrom_spec tol bd Cs 1 [] tail bd.nonz hwf (by simpa using ht) (by simpa using hn)
  rw [bdCholDec_eq_list]
  unfold BlockDiag.cholDec
  rw [hb]
  obtain ⟨r1, r2, r3⟩ := hspec
  refine ⟨r1, ⟨?_, ?_, by simpa using r2⟩, r3⟩
  · show Cs.length = _
    exact r3.length_eq
  · intro k hk
    have hk' : k < Cs.length := by rw [r3.length_eq]; exact hk
    obtain ⟨h1, h2, h3⟩ := ht k hk'
    have hS : Same (Cs[k]'hk') (((bdCholList tol 1 Cs).2)[k]'hk) := by
      have := List.forall₂_iff_get.mp r3
      exact this.2 k hk' hk
    refine ⟨?_, ?_, ?_⟩
    · show bd.dimOf (1 + k) = _
      rw [h1, hS.2.1]
    · show bd.widthOf (1 + k) = _
      rw [h2, hS.2.2]
    · show bd.beginOf (1 + k) = _
      rw [h3, flat_take_length hwf r3 k]

/-- what the block-by-block model returns: blocks before the first rejected one are the results of
    `bdCholBlock`, the rejected one is its partially factored state, later ones are untouched -/
theorem bdCholList_spec (tol : K) : ∀ (Cs : List (CovMat K)) (i : Nat),
    (bdCholList tol i Cs).2.length = Cs.length ∧
    (((bdCholList tol i Cs).1 = 0 ∧ 1 ≤ i →
        ∀ k (hk : k < Cs.length), ∃ F, bdCholBlock tol (Cs[k]'hk) = .ok F ∧ (bdCholList tol i Cs).2[k]? = some F)) ∧
    ((bdCholList tol i Cs).1 ≠ 0 → 1 ≤ i →
      ∃ j, (bdCholList tol i Cs).1 = i + j ∧ ∃ (hj : j < Cs.length),
        (∀ k (hk : k < j), ∃ F, bdCholBlock tol (Cs[k]'(by omega)) = .ok F ∧ (bdCholList tol i Cs).2[k]? = some F) ∧
        (∃ C', bdCholBlock tol (Cs[j]'hj) = .error C' ∧ (bdCholList tol i Cs).2[j]? = some C') ∧
        (∀ k, j < k → (bdCholList tol i Cs).2[k]? = Cs[k]?)) ∧
    (1 ≤ i → (bdCholList tol i Cs).1 = 0 ∨ i ≤ (bdCholList tol i Cs).1) := by
  intro Cs
  induction Cs with
  | nil =>
    intro i
    refine ⟨rfl, ?_, ?_, ?_⟩
    · intro _ k hk; exact absurd hk (by simp)
    · intro h; exact absurd rfl h
    · intro _; exact Or.inl rfl
  | cons C rest ih =>
    intro i
    obtain ⟨l1, l2, l3, l4⟩ := ih (i + 1)
    unfold bdCholList
    cases hC : bdCholBlock tol C with
    | error C' =>
      simp only []
      refine ⟨by simp, ?_, ?_, ?_⟩
      · intro ⟨h0, hi⟩; omega
      · intro _ _
        refine ⟨0, by omega, by simp, ?_, ⟨C', by simpa using hC, by simp⟩, ?_⟩
        · intro k hk; omega
        · intro k hk
          obtain ⟨k', rfl⟩ : ∃ k', k = k' + 1 := ⟨k - 1, by omega⟩
          simp
      · intro hi; exact Or.inr (le_refl _)
    | ok F =>
      simp only []
      refine ⟨by simp [l1], ?_, ?_, ?_⟩
      · intro ⟨h0, hi⟩ k hk
        cases k with
        | zero => exact ⟨F, by simpa using hC, by simp⟩
        | succ k =>
          obtain ⟨F', hF1, hF2⟩ := l2 ⟨h0, by omega⟩ k (by simpa using hk)
          exact ⟨F', by simpa using hF1, by simpa using hF2⟩
      · intro hne hi
        obtain ⟨j, hj1, hj, hj2, hj3, hj4⟩ := l3 hne (by omega)
        refine ⟨j + 1, by omega, by simp; omega, ?_, ?_, ?_⟩
        · intro k hk
          cases k with
          | zero => exact ⟨F, by simpa using hC, by simp⟩
          | succ k =>
            obtain ⟨F', hF1, hF2⟩ := hj2 k (by omega)
            exact ⟨F', by simpa using hF1, by simpa using hF2⟩
        · obtain ⟨C', hc1, hc2⟩ := hj3
          exact ⟨C', by simpa using hc1, by simpa using hc2⟩
        · intro k hk
          obtain ⟨k', rfl⟩ : ∃ k', k = k' + 1 := ⟨k - 1, by omega⟩
          simpa using hj4 k' (by omega)
      · intro hi
        rcases l4 (by omega) with h | h
        · exact Or.inl h
        · exact Or.inr (by omega)

/-- return value 0 ⇔ every block is accepted -/
theorem bdCholDec_ret_zero_iff (tol : K) (Cs : List (CovMat K)) :
    (bdCholDec tol Cs).1 = 0 ↔ ∀ k (hk : k < Cs.length), ∃ F, bdCholBlock tol (Cs[k]'hk) = .ok F := by
  rw [bdCholDec_eq_list]
  obtain ⟨_, l2, l3, _⟩ := bdCholList_spec tol Cs 1
  constructor
  · intro h0 k hk
    obtain ⟨F, hF, _⟩ := l2 ⟨h0, le_refl _⟩ k hk
    exact ⟨F, hF⟩
  · intro hall
    by_contra hne
    obtain ⟨j, _, hj, _, ⟨C', hC', _⟩, _⟩ := l3 hne (le_refl _)
    obtain ⟨F, hF⟩ := hall j hj
    rw [hF] at hC'
    cases hC'

/-- return value `b ≠ 0` ⇔ block `b` is the FIRST rejected block -/
theorem bdCholDec_ret_iff (tol : K) (Cs : List (CovMat K)) (b : Nat) (hb : b ≠ 0) :
    (bdCholDec tol Cs).1 = b ↔
      ∃ (hlt : b - 1 < Cs.length),
        (∀ k (hk : k < b - 1), ∃ F, bdCholBlock tol (Cs[k]'(by omega)) = .ok F) ∧
        ∃ C', bdCholBlock tol (Cs[b - 1]'hlt) = .error C' := by
  rw [bdCholDec_eq_list]
  obtain ⟨_, l2, l3, _⟩ := bdCholList_spec tol Cs 1
  constructor
  · intro h
    have hne : (bdCholList tol 1 Cs).1 ≠ 0 := by rw [h]; exact hb
    obtain ⟨j, hj1, hj, hj2, ⟨C', hC', _⟩, _⟩ := l3 hne (le_refl _)
    have e : b - 1 = j := by omega
    subst e
    refine ⟨hj, ?_, C', hC'⟩
    intro k hk
    obtain ⟨F, hF, _⟩ := hj2 k hk
    exact ⟨F, hF⟩
  · rintro ⟨hlt, hok, C', hC'⟩
    by_cases h0 : (bdCholList tol 1 Cs).1 = 0
    · obtain ⟨F, hF, _⟩ := l2 ⟨h0, le_refl _⟩ (b - 1) hlt
      rw [hF] at hC'; cases hC'
    · obtain ⟨j, hj1, hj, hj2, ⟨C'', hC'', _⟩, _⟩ := l3 h0 (le_refl _)
      rcases Nat.lt_trichotomy j (b - 1) with hlt' | heq | hgt
      · obtain ⟨F, hF⟩ := hok j hlt'
        rw [hF] at hC''; cases hC''
      · omega
      · obtain ⟨F, hF, _⟩ := hj2 (b - 1) hgt
        rw [hF] at hC'; cases hC'

end Walk

end Gama.Cov
