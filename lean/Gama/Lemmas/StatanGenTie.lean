/-
  Source tie of the statistical functions (C17, round 7).

  `Gen/StatanFns.lean` is rewritten from lib/gnu_gama/statan.cpp on every run of the check
  (tools/gen/c17_constants.py): `Normal`, `Student`, `Chi_square`, `NormalDistribution`, one line per C++ statement,
  every coefficient and threshold the exact decimal of the source.  Here the hand model `Model/Statan.lean` — the
  object of all C17 theorems — is proved EQUAL to the regenerated functions for every scalar type, and the individual
  constants follow by `rfl`.  A changed coefficient, threshold, sign, branch or statement order in the C++ changes the
  right-hand side and a proof below fails.  Core Lean only.
-/
import Mathlib.Tactic.SplitIfs
import Gama.Model.Statan
import Gama.Gen.StatanFns
namespace Gama.Statan
open Gama Scalar Transc Trunc
variable {K : Type} [Scalar K] [Transc K]

theorem maxd_eq_gen : (maxd : K) = Gen.Statan.maxd := rfl
theorem mind_eq_gen : (mind : K) = Gen.Statan.mind := rfl

/-- `NormalDistribution`: density constant, the `x == 0` shortcut, the underflow branch, the thresholds 2.32 / 3.5
    between power series and continued fraction, the initial convergents, the final `s - D` test -/
theorem normalDistribution_eq_gen (fuel : Nat) (x : K) :
    normalDistribution fuel x = Gen.Statan.NormalDistribution fuel x := by
  unfold normalDistribution Gen.Statan.NormalDistribution
  simp only [Id.run, f0, lit]
  split_ifs <;> rfl

/-- `Normal`: the fold at 1/2, the start value `sqrt(-2 log a)`, the rational correction (7.47395, 494.877, 1637.72 /
    117.9407, 908.401, 659.935), the Newton-type step (0.75, 0.875, 0.5, /3), the final sign -/
theorem normal_eq_gen (fuel : Nat) (alfa : K) : normal fuel alfa = Gen.Statan.Normal fuel alfa := by
  unfold normal normalWith normalTail Gen.Statan.Normal
  simp only [Id.run, fold, normalZ1, normalZ0, normalDen, lit, ← normalDistribution_eq_gen,
    StatanGen.normalUpperDirect, Bool.false_eq_true, eq_self, ↓reduceIte]
  split_ifs <;> rfl

/-- `Student`: fold and doubling, `palfa == 0.5`, the closed forms N ≤ 1 and N ≤ 2, Hill's prelude (48, 20700, 98, 16,
    96.36, 94.5, 3), the branch threshold `a + 0.05`, both Hill branches with all their constants, the final sign -/
theorem student_eq_gen (fuel : Nat) (palfa : K) (N : Int) : student fuel palfa N = Gen.Statan.Student fuel palfa N := by
  unfold student Gen.Statan.Student
  by_cases hb : Scalar.beq palfa (Scalar.ofSci 5 true 1) = true
  · simp only [Id.run, lit, hb, ↓reduceIte]; rfl
  by_cases h1 : N ≤ 1
  · simp only [Id.run, lit, studentAbs, student1, fold, hb, h1, ↓reduceIte, Bool.false_eq_true]; rfl
  by_cases h2 : N ≤ 2
  · simp only [Id.run, lit, studentAbs, student2, fold, hb, h1, h2, ↓reduceIte, Bool.false_eq_true]; rfl
  by_cases hs : (Scalar.ofSci 5 true 1 : K) < palfa
  all_goals
    by_cases hy : (hillABCD (Scalar.ofInt N : K)).1 + Scalar.ofSci 5 true 2 <
        pow ((hillABCD (Scalar.ofInt N : K)).2.2.2 * ((if Scalar.ofSci 5 true 1 < palfa then 1 - palfa else palfa) * Scalar.ofNat 2))
          (Scalar.ofNat 2 / Scalar.ofInt N)
    all_goals
      simp only [hillABCD, lit, hs, ↓reduceIte] at hy
      simp only [Id.run, lit, studentAbs, studentHill, hillABCD, hillDiv1, hillDiv2, hillY2, fold, hb, h1, h2, hs, hy,
        ↓reduceIte, Bool.false_eq_true, ← normal_eq_gen]
      rfl

/-- `Chi_square`: n < 2, n = 2, the selector `n < 2 + int(4|t|)` and both polynomials with all coefficients -/
theorem chiSquare_eq_gen [Trunc K] (fuel : Nat) (p : K) (n : Int) :
    chiSquare fuel p n = Gen.Statan.Chi_square fuel p n := by
  unfold chiSquare Gen.Statan.Chi_square
  simp only [Id.run, lit, StatanGen.chiSel, StatanGen.chiPolyA, StatanGen.chiPolyB, decide_eq_true_eq,
    ← normal_eq_gen]
  split_ifs <;> rfl

/-- `KSprob` (round 13): `eps = 1e-20`, the two early returns, the split at 1.18, `pi2`, `xx8`, the factor `sqrt(2*M_PI)/x`,
    `x2 = -2*x*x`, the start values `k = 1`, `s = -2`, `sum = 1`; both loop bodies are pinned text in the translator -/
theorem ksProb_eq_gen (x : K) : ksProb x = Gen.Statan.KSprob x := by
  unfold ksProb Gen.Statan.KSprob
  simp only [Id.run, lit]
  split_ifs <;> rfl

end Gama.Statan
