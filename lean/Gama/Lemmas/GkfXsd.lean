/-
  The hand-written documented tables of the GKF input (`docAttrs`, `docNames`, `docRules`, `docCheck`, `kidTags`, the
  occurrence conditions of `Cluster.valid`, the constructors of `NetItem'` / `POItem'`) against the schema
  xml/gama-local.xsd as REGENERATED into Gen/GkfXsd.lean (tools/gen/c11_xsd.py): comparison functions, evaluated by
  `decide` in Props/C11Xsd.lean.  Where the documented tables deliberately say more or something else than the schema, the
  difference is a table of its own here (`nameDiff`, `requiredDiff`), so the statements are "equal except exactly these".
-/
import Gama.Gen.GkfXsd
import Gama.Lemmas.GkfDocFirstBad
namespace Gama.Gkf
open Gama.Gkf.Xsd

/-- the tags of the documented input (every tag of the parser except `unknown`) -/
def docTags : List Tag := Tag.all.filter (fun t => t != .unknown)

/-- the element name of a tag in the schema: the parser's name table, the root being `gama-local` (the alias `gama-xml`
    is liberal spot L2 of Model/GkfLiberal.lean) -/
def xsdName (t : Tag) : Option String :=
  if t == .gama_xml then some "gama-local" else (tagTable.find? (fun p => p.2 == t)).map (fun p => p.1)

def tagOfName (n : String) : Option Tag := (tagTable.find? (fun p => p.1 == n)).map (fun p => p.2)

def xsdElem (t : Tag) : Option Element := (xsdName t).bind element?

/-- the schema declares exactly the elements of the documented tags -/
def elementsMatch : Bool :=
  elements.all (fun e => match tagOfName e.name with | some t => docTags.contains t && xsdName t == some e.name | none => false) &&
  docTags.all (fun t => (xsdElem t).isSome)

def xsdAttrNames (t : Tag) : List String := ((xsdElem t).map (fun e => e.attrs.map (fun a => a.name))).getD []

def minus (a b : List String) : List String := a.filter (fun x => !b.contains x)

/-- attribute names: (element, only in the documented table, only in the schema).  `xmlns` is a namespace declaration
    for the schema, an attribute for expat without namespace processing -/
def nameDiff : List (Tag × List String × List String) := [(.gama_xml, ["xmlns"], [])]

def namesMatch (t : Tag) : Bool :=
  (minus (docAttrs t) (xsdAttrNames t), minus (xsdAttrNames t) (docAttrs t)) == ((nameDiff.lookup t).getD ([], [])) &&
  docNames (tagHandler t) == docAttrs t

/-- attributes the documented rules require (`req`, `reqId`) -/
def handRequired (t : Tag) : List String :=
  (docRules (tagHandler t)).filterMap (fun r => match r with | .req n => some n | .reqId n => some n | _ => none)

def xsdRequired (t : Tag) : List String :=
  ((xsdElem t).map (fun e => (e.attrs.filter (fun a => a.required)).map (fun a => a.name))).getD []

/-- required by the documented rules (and by the parser: `rules_enforced_table`) but optional in the schema: `from` of
    `<dh>` and `<vec>` (no `<obs from=..>` to inherit from) -/
def requiredDiff : List (Tag × List String) := [(.dh, ["from"]), (.vec, ["from"])]

def requiredMatch (t : Tag) : Bool :=
  minus (handRequired t) (xsdRequired t) == ((requiredDiff.lookup t).getD []) && minus (xsdRequired t) (handRequired t) == []

/-- the documented rules a schema cannot express -/
def rulesBeyondXsd (t : Tag) : List Rule :=
  (docRules (tagHandler t)).filter (fun r => match r with | .req _ => false | .reqId _ => false | _ => true)

/-- schema type against the documented check of the value -/
def tyMatches : Ty → Check → Bool
  | .double, .num .dbl _ => true
  | .nmtoken, .num .angle .any => true
  | .token, .free => true
  | .string, .free => true
  | .enum vs, .enum vs' => vs == vs'
  | .nonNegInt, .num .index _ => true
  | .nmtokens, .words _ .dbl => true
  | .intMin _, .num .int .any => true
  | _, _ => false

def typesMatch (t : Tag) : Bool :=
  ((xsdElem t).map (fun e => e.attrs.all (fun a => match docCheck (tagHandler t) a.name with
    | some d => tyMatches a.ty d.check
    | none => false))).getD false

/-- value ranges of the documented table (from the manual) the schema does not state -/
def rangesBeyondXsd : List (Tag × String × Range) :=
  docTags.flatMap (fun t => (docAttrs t).filterMap (fun a => match docCheck (tagHandler t) a with
    | some ⟨.num _ r, _⟩ => if r == .any then none else some (t, a, r)
    | _ => none))

/-! ### nesting -/

def netKids : List Tag := [.description, .parameters, .points_observations]
def poKids : List Tag := [.point_, ClusterKind.obs.tag, ClusterKind.coords.tag, ClusterKind.hdiffs.tag, ClusterKind.vectors.tag]

def NetItem'.tag : NetItem' → Tag
  | .description _ => .description
  | .parameters _ => .parameters
  | .pointsObs _ _ => .points_observations

def altTags (p : Particle) : List Tag := p.alts.filterMap tagOfName

/-- spine: `<gama-local>` holds exactly one `<network>`; `<network>` any number of the three `NetItem'` kinds;
    `<points-observations>` any number of `<point>` and the four clusters; character data only in `<description>` and
    `<cov-mat>`; the empty elements have no content -/
def spineMatch : Bool :=
  ((xsdElem .gama_xml).map (fun e => e.content == [⟨["network"], 1, some 1⟩])).getD false &&
  ((xsdElem .network).map (fun e => e.content.map altTags == [netKids] &&
      e.content.all (fun p => p.min == 0 && p.max == none && p.alts.length == netKids.length))).getD false &&
  ((xsdElem .points_observations).map (fun e => e.content.map altTags == [poKids] &&
      e.content.all (fun p => p.min == 0 && p.max == none && p.alts.length == poKids.length))).getD false &&
  docTags.all (fun t => ((xsdElem t).map (fun e => e.text == (t == .description || t == .cov_mat))).getD false) &&
  [Tag.description, .parameters, .point_, .cov_mat, .direction, .distance, .angle, .s_distance, .z_angle, .azimuth, .dh, .vec].all
    (fun t => ((xsdElem t).map (fun e => e.content == [])).getD false)

/-- a child of the cluster `k` that the grammar accepts -/
def probeLeaf (k : ClusterKind) : Leaf := ⟨(kidTags k).headD .unknown, if k == .coords then [⟨"x", true⟩] else []⟩

/-- clusters: the children are `kidTags k` (any number, at least `min`), then at most one `<cov-mat>`; the occurrence
    conditions of the grammar (`Cluster.valid`: `dh+`, `point+`, `vec+`, `<cov-mat>` required in `<coordinates>` and
    `<vectors>`) are those of the schema, evaluated on the four probes without/with a child × without/with `<cov-mat>` -/
def clusterMatch (k : ClusterKind) : Bool :=
  match (xsdElem k.tag).map (fun e => e.content) with
  | some [p1, p2] =>
    altTags p1 == kidTags k && p1.alts.length == (kidTags k).length && p1.max == none &&
    p2.alts == ["cov-mat"] && p2.max == some 1 &&
    [false, true].all (fun ne => [false, true].all (fun cv =>
      Cluster.valid ⟨k, [], if ne then [probeLeaf k] else [], if cv then some ⟨[], []⟩ else none⟩ ==
        (decide (p1.min ≤ (if ne then 1 else 0)) && decide (p2.min ≤ (if cv then 1 else 0)))))
  | _ => false

theorem netitem_tag_mem (i : NetItem') : i.tag ∈ netKids := by cases i <;> simp [NetItem'.tag, netKids]

theorem netitem_events_head (i : NetItem') : ∃ as r, i.events = .start i.tag as :: r := by
  cases i with
  | description text => exact ⟨[], _, rfl⟩
  | parameters as => exact ⟨as, _, rfl⟩
  | pointsObs as items => exact ⟨as, _, rfl⟩

theorem cluster_events_head (c : Cluster') : ∃ r, c.events = .start c.kind.tag c.attrs :: r := ⟨_, rfl⟩

theorem cluster_tag_mem (k : ClusterKind) : k.tag ∈ poKids := by cases k <;> simp [poKids, ClusterKind.tag]

end Gama.Gkf
