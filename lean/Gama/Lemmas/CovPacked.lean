/-
  Lemmas about the packed band storage of `CovMat` (Model/Packed.lean):
  row starts are strictly increasing with the row length `min b (d-r) + 1`,
  hence the offset map is a bijection from the band onto `[0, size)`.
-/
import Gama.Model.Packed
import Mathlib.Tactic.Ring
import Mathlib.Tactic.Linarith
namespace Gama.Cov.Packed

/-- the correction `i_*(i_+1)/2` with `i_ = t` when `t > 0` -/
def corr (t : Int) : Int := if t > 0 then t * (t + 1) / 2 else 0

theorem tri_succ (i : Int) : (i + 1) * (i + 1 + 1) / 2 = i * (i + 1) / 2 + (i + 1) := by
  have h : (i + 1) * (i + 1 + 1) = i * (i + 1) + (i + 1) * 2 := by ring
  rw [h, Int.add_mul_ediv_right _ _ (by decide : (2 : Int) ≠ 0)]

theorem corr_succ (t : Int) : corr (t + 1) = corr t + (if 0 ≤ t then t + 1 else 0) := by
  unfold corr
  by_cases h0 : 0 < t
  · have h1 : t + 1 > 0 := by omega
    have h2 : 0 ≤ t := by omega
    simp only [h1, h0, h2, if_true, gt_iff_lt]
    exact tri_succ t
  · by_cases h1 : t = 0
    · subst h1; simp
    · have h2 : ¬ (t + 1 > 0) := by omega
      have h3 : ¬ (0 ≤ t) := by omega
      simp [h0, h2, h3]

theorem rowOff_eq (d b r : Nat) :
    rowOff d b r = ((r : Int) - 1) * ((b : Int) + 1) - corr ((r : Int) - 1 - ((d : Int) - (b : Int))) := by
  unfold rowOff corr
  simp only []
  by_cases h : (r : Int) - 1 > (d : Int) - (b : Int)
  · have h' : (r : Int) - 1 - ((d : Int) - (b : Int)) > 0 := by omega
    simp [h, h']
  · have h' : ¬ ((r : Int) - 1 - ((d : Int) - (b : Int)) > 0) := by omega
    simp [h, h']

/-- number of stored elements of row `r` -/
def rowLen (d b r : Nat) : Nat := min b (d - r) + 1

/-- consecutive rows are adjacent in the buffer -/
theorem rowOff_succ {d b r : Nat} (hb : b ≤ d) (hr : 1 ≤ r) (hrd : r ≤ d) :
    rowOff d b (r + 1) = rowOff d b r + (rowLen d b r : Int) := by
  rw [rowOff_eq, rowOff_eq]
  have e : ((r + 1 : Nat) : Int) - 1 - ((d : Int) - (b : Int)) = ((r : Int) - 1 - ((d : Int) - (b : Int))) + 1 := by
    push_cast; ring
  rw [e, corr_succ]
  have hlen : (rowLen d b r : Int) = (b : Int) + 1 -
      (if 0 ≤ (r : Int) - 1 - ((d : Int) - (b : Int)) then (r : Int) - 1 - ((d : Int) - (b : Int)) + 1 else 0) := by
    unfold rowLen
    split_ifs with h <;> omega
  rw [hlen]
  push_cast
  ring

theorem rowOff_one (d b : Nat) (_hd : 1 ≤ d) (hb : b ≤ d) : rowOff d b 1 = 0 := by
  rw [rowOff_eq]
  have h : ¬ (((1 : Nat) : Int) - 1 - ((d : Int) - (b : Int)) > 0) := by omega
  unfold corr
  rw [if_neg h]
  simp

theorem rowOff_last (d b : Nat) (hb : b ≤ d) : rowOff d b (d + 1) = size d b := by
  rw [rowOff_eq]
  unfold size corr
  have e : ((d + 1 : Nat) : Int) - 1 - ((d : Int) - (b : Int)) = (b : Int) := by push_cast; ring
  rw [e]
  by_cases h : (b : Int) > 0
  · rw [if_pos h]; push_cast; ring_nf
  · have : b = 0 := by omega
    subst this; simp

theorem rowLen_pos (d b r : Nat) : 0 < rowLen d b r := by unfold rowLen; omega

/-- row starts are monotone -/
theorem rowOff_mono {d b : Nat} (hb : b ≤ d) {r r' : Nat} (hr : 1 ≤ r) (hrr : r ≤ r') (hr' : r' ≤ d + 1) :
    rowOff d b r ≤ rowOff d b r' := by
  induction r', hrr using Nat.le_induction with
  | base => exact le_refl _
  | succ n hn ih =>
    have := rowOff_succ (d := d) (b := b) (r := n) hb (by omega) (by omega)
    have := ih (by omega)
    have := rowLen_pos d b n
    omega

theorem rowOff_nonneg {d b r : Nat} (hb : b ≤ d) (hd : 1 ≤ d) (hr : 1 ≤ r) (hrd : r ≤ d + 1) : 0 ≤ rowOff d b r := by
  have := rowOff_mono (d := d) (b := b) hb (r := 1) (r' := r) (le_refl _) hr hrd
  rw [rowOff_one d b hd hb] at this
  exact this

/-- the band (upper triangle): `1 ≤ i ≤ j ≤ min(d, i+b)` -/
def InBand (d b i j : Nat) : Prop := 1 ≤ i ∧ i ≤ j ∧ j ≤ d ∧ j ≤ i + b

instance (d b i j : Nat) : Decidable (InBand d b i j) := by unfold InBand; infer_instance

/-- offset of an in-band upper pair -/
def off (d b i j : Nat) : Int := rowOff d b i + ((j : Int) - (i : Int))

theorem idx_upper {d b i j : Nat} (h : InBand d b i j) : idx d b i j = some (off d b i j) := by
  obtain ⟨h1, h2, h3, h4⟩ := h
  unfold idx off
  have : ¬ (i > j) := by omega
  simp only [this, if_false]
  have : ¬ (j > i + b) := by omega
  simp [this]

theorem idx_symm (d b i j : Nat) : idx d b i j = idx d b j i := by
  unfold idx
  by_cases h : i > j
  · have : ¬ (j > i) := by omega
    simp [h, this]
  · by_cases h' : j > i
    · simp [h, h']
    · have : i = j := by omega
      subst this; rfl

theorem idx_none {d b i j : Nat} (h1 : i ≤ j) (h : j > i + b) : idx d b i j = none := by
  unfold idx
  have : ¬ (i > j) := by omega
  simp [this, h]

/-- an in-band offset lies inside its own row -/
theorem off_range {d b i j : Nat} (hb : b ≤ d) (h : InBand d b i j) :
    rowOff d b i ≤ off d b i j ∧ off d b i j < rowOff d b (i + 1) := by
  obtain ⟨h1, h2, h3, h4⟩ := h
  have hs := rowOff_succ (d := d) (b := b) (r := i) hb h1 (by omega)
  unfold off
  unfold rowLen at hs
  constructor
  · omega
  · rw [hs]; omega

/-- no access outside the buffer -/
theorem off_bounds {d b i j : Nat} (hb : b ≤ d) (h : InBand d b i j) :
    0 ≤ off d b i j ∧ off d b i j < size d b := by
  have hr := off_range hb h
  obtain ⟨h1, h2, h3, h4⟩ := h
  have hd : 1 ≤ d := by omega
  have h0 := rowOff_nonneg (d := d) (b := b) (r := i) hb hd h1 (by omega)
  have hl := rowOff_mono (d := d) (b := b) hb (r := i + 1) (r' := d + 1) (by omega) (by omega) (le_refl _)
  rw [rowOff_last d b hb] at hl
  omega

/-- no aliasing -/
theorem off_inj {d b i j i' j' : Nat} (hb : b ≤ d) (h : InBand d b i j) (h' : InBand d b i' j')
    (e : off d b i j = off d b i' j') : i = i' ∧ j = j' := by
  have r1 := off_range hb h
  have r2 := off_range hb h'
  have hi : i = i' := by
    rcases Nat.lt_trichotomy i i' with hlt | heq | hgt
    · have := rowOff_mono (d := d) (b := b) hb (r := i + 1) (r' := i') (by omega) (by omega) (by have := h'.2.1; have := h'.2.2.1; omega)
      omega
    · exact heq
    · have := rowOff_mono (d := d) (b := b) hb (r := i' + 1) (r' := i) (by omega) (by omega) (by have := h.2.1; have := h.2.2.1; omega)
      omega
  subst hi
  refine ⟨rfl, ?_⟩
  unfold off at e
  omega

/-- every cell of the buffer is the image of an in-band pair -/
theorem off_surj {d b : Nat} (hb : b ≤ d) (k : Int) (h0 : 0 ≤ k) (hk : k < size d b) :
    ∃ i j, InBand d b i j ∧ off d b i j = k := by
  have hd : 1 ≤ d := by
    rcases Nat.eq_zero_or_pos d with h | h
    · subst h
      have : b = 0 := by omega
      subst this
      simp [size] at hk
      omega
    · exact h
  -- find the row: the largest r ≤ d with rowOff r ≤ k
  have key : ∀ n, n ≤ d → k < rowOff d b (n + 1) → ∃ i, 1 ≤ i ∧ i ≤ n ∧ rowOff d b i ≤ k ∧ k < rowOff d b (i + 1) := by
    intro n
    induction n with
    | zero =>
      intro _ hlt
      rw [Nat.zero_add, rowOff_one d b hd hb] at hlt
      omega
    | succ n ih =>
      intro hn hlt
      by_cases hc : rowOff d b (n + 1) ≤ k
      · exact ⟨n + 1, by omega, le_refl _, hc, hlt⟩
      · obtain ⟨i, h1, h2, h3, h4⟩ := ih (by omega) (by omega)
        exact ⟨i, h1, by omega, h3, h4⟩
  obtain ⟨i, h1, h2, h3, h4⟩ := key d (le_refl _) (by rw [rowOff_last d b hb]; exact hk)
  have hs := rowOff_succ (d := d) (b := b) (r := i) hb h1 h2
  unfold rowLen at hs
  refine ⟨i, i + (k - rowOff d b i).toNat, ⟨h1, by omega, by omega, by omega⟩, ?_⟩
  unfold off
  omega

end Gama.Cov.Packed
