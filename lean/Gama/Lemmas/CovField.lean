/-
  The `Scalar` signature of a linearly ordered field (every operation is the field's; `sqrt` is a
  parameter), used to state the C10 theorems about the `[Scalar K]` kernels over ordered fields.
  (Same construction as `Gama.fieldScalar` in Lemmas/SparseBasic.lean; kept separate so that the
  C10 files do not depend on another property's lemma files.)
-/
import Gama.Scalar
import Mathlib.Algebra.Order.Field.Basic
namespace Gama.Cov

@[reducible] def fieldScalar (K : Type) [Field K] [LinearOrder K] (sqrt : K → K) : Scalar K where
  add := (· + ·)
  sub := (· - ·)
  mul := (· * ·)
  div := (· / ·)
  neg := (- ·)
  zero := 0
  one := 1
  lt := (· < ·)
  le := (· ≤ ·)
  sqrt := sqrt
  ofNat := fun n => (n : K)
  ofSci := fun m s e => if s then (m : K) / 10 ^ e else (m : K) * 10 ^ e
  decLt := fun a b => inferInstanceAs (Decidable (a < b))
  decLe := fun a b => inferInstanceAs (Decidable (a ≤ b))
  beq := fun a b => decide (a = b)
  abs := fun x => |x|

end Gama.Cov
