/-
  `SymMat<>::cholDec()` / `SymMat<>::solve()` (model `Gama/Model/SymChol.lean`) over a linearly
  ordered field, `Scalar` structure `fieldScalar K sq`.
-/
import Gama.Model.SymChol
import Gama.Lemmas.C15Field
import Mathlib.Algebra.Order.Field.Basic
import Mathlib.Algebra.BigOperators.Intervals
import Mathlib.Algebra.BigOperators.Ring.Finset
import Mathlib.Tactic.Ring
import Mathlib.Tactic.Linarith
import Mathlib.Tactic.FieldSimp
import Mathlib.Tactic.Positivity

namespace Gama.MatVec
open Finset

set_option linter.unusedSectionVars false

/-! ### generic loop facts -/

theorem forUp_succ {σ : Type} (n : Nat) (body : Nat → σ → σ) (s : σ) :
    forUp (n + 1) body s = body n (forUp n body s) := rfl

theorem forUp_sum {M : Type} [AddCommMonoid M] (f : Nat → M) :
    ∀ n, forUp n (fun j s => s + f j) 0 = ∑ j ∈ range n, f j
  | 0 => by simp [forUp]
  | n + 1 => by rw [forUp_succ, forUp_sum f n, sum_range_succ]

theorem forUp_fset_other {α : Type} (p : Nat → Nat) (g : Nat → (Nat → α) → α) (b : Nat → α) :
    ∀ n k, (∀ t, t < n → k ≠ p t) →
      forUp n (fun t b => fset b (p t) (g t b)) b k = b k := by
  intro n
  induction n with
  | zero => intro k _; rfl
  | succ n ih =>
    intro k hk
    rw [forUp_succ]
    show fset _ _ _ k = _
    unfold fset
    rw [if_neg (hk n (Nat.lt_succ_self n))]
    exact ih k (fun t ht => hk t (Nat.lt_succ_of_lt ht))

theorem forUp_fset_at {α : Type} (p : Nat → Nat) (g : Nat → (Nat → α) → α) (b : Nat → α) :
    ∀ n, (∀ i j, i < n → j < n → p i = p j → i = j) → ∀ t, t < n →
      forUp n (fun t b => fset b (p t) (g t b)) b (p t)
        = g t (forUp t (fun t b => fset b (p t) (g t b)) b) := by
  intro n
  induction n with
  | zero => intro _ t ht; omega
  | succ n ih =>
    intro hinj t ht
    rw [forUp_succ]
    show fset _ _ _ (p t) = _
    unfold fset
    by_cases h : t = n
    · subst h
      rw [if_pos rfl]
    · have htn : t < n := by omega
      have hne : p t ≠ p n := fun hp => h (hinj t n ht (Nat.lt_succ_self n) hp)
      rw [if_neg hne]
      exact ih (fun i j hi hj => hinj i j (Nat.lt_succ_of_lt hi) (Nat.lt_succ_of_lt hj)) t htn

/-! ### `solve` -/

section Solve
variable {K : Type} [Field K] [LinearOrder K] [IsStrictOrderedRing K]

/-- forward substitution loop of `solve`, written with the field operations -/
def fwdLoop (L : Nat → K) (n : Nat) (b : Nat → K) : Nat → K :=
  forUp n (fun i0 b => fset b (id i0)
    ((b i0 - forUp (i0 + 1 - 1) (fun j0 (sum : K) => sum + L (tri (i0 + 1) (j0 + 1)) * b j0) 0)
      / L (tri (i0 + 1) (i0 + 1)))) b

/-- backward substitution loop of `solve`, written with the field operations -/
def bwdLoop (N : Nat) (L : Nat → K) (n : Nat) (b : Nat → K) : Nat → K :=
  forUp n (fun t b => fset b (N - t - 1)
    ((b (N - t - 1) - forUp (N - (N - t))
        (fun u (sum : K) => sum + L (tri (N - u) (N - t)) * b (N - u - 1)) 0)
      / L (tri (N - t) (N - t)))) b

theorem cholSolve_eq (sq : K → K) (N : Nat) (L b : Nat → K) :
    @cholSolve K (fieldScalar K sq) N L b = bwdLoop N L N (fwdLoop L N b) := rfl

theorem fwdLoop_spec (L b : Nat → K) (N : Nat)
    (hd : ∀ i, 1 ≤ i → i ≤ N → L (tri i i) ≠ 0) (i0 : Nat) (hi : i0 < N) :
    ∑ j ∈ range (i0 + 1), L (tri (i0 + 1) (j + 1)) * fwdLoop L N b j = b i0 := by
  have hinj : ∀ n i j : Nat, i < n → j < n → id i = id j → i = j := fun _ _ _ _ _ h => h
  have hat : ∀ n t : Nat, t < n → fwdLoop L n b t
      = (fwdLoop L t b t - forUp (t + 1 - 1)
          (fun j0 (sum : K) => sum + L (tri (t + 1) (j0 + 1)) * fwdLoop L t b j0) 0)
        / L (tri (t + 1) (t + 1)) :=
    fun n t ht => forUp_fset_at id _ b n (hinj n) t ht
  have hother : ∀ n k, n ≤ k → fwdLoop L n b k = b k :=
    fun n k hk => forUp_fset_other id _ b n k (fun t ht => by simp only [id]; omega)
  have hstab : ∀ j, j < i0 → fwdLoop L i0 b j = fwdLoop L N b j := by
    intro j hj
    rw [hat i0 j hj, hat N j (by omega)]
  have hdi := hd (i0 + 1) (by omega) (by omega)
  have key := hat N i0 hi
  rw [Nat.add_sub_cancel, forUp_sum, hother i0 i0 (Nat.le_refl _)] at key
  have hs : ∑ j ∈ range i0, L (tri (i0 + 1) (j + 1)) * fwdLoop L i0 b j
      = ∑ j ∈ range i0, L (tri (i0 + 1) (j + 1)) * fwdLoop L N b j :=
    sum_congr rfl (fun j hj => by rw [hstab j (mem_range.mp hj)])
  rw [hs] at key
  rw [sum_range_succ, key, mul_div_cancel₀ _ hdi]
  ring

theorem bwdLoop_spec (L y : Nat → K) (N : Nat)
    (hd : ∀ i, 1 ≤ i → i ≤ N → L (tri i i) ≠ 0) (i0 : Nat) (hi : i0 < N) :
    ∑ j ∈ Ico i0 N, L (tri (j + 1) (i0 + 1)) * bwdLoop N L N y j = y i0 := by
  have hinj : ∀ n, n ≤ N → ∀ i j, i < n → j < n → N - i - 1 = N - j - 1 → i = j := by
    intro n hn i j hi hj h; omega
  have hat : ∀ n : Nat, n ≤ N → ∀ t : Nat, t < n → bwdLoop N L n y (N - t - 1)
      = (bwdLoop N L t y (N - t - 1) - forUp (N - (N - t))
          (fun u (sum : K) => sum + L (tri (N - u) (N - t)) * bwdLoop N L t y (N - u - 1)) 0)
        / L (tri (N - t) (N - t)) :=
    fun n hn t ht => forUp_fset_at (fun t => N - t - 1) _ y n (hinj n hn) t ht
  have hother : ∀ n k, k + n < N → bwdLoop N L n y k = y k :=
    fun n k hk => forUp_fset_other (fun t => N - t - 1) _ y n k (fun t ht => by omega)
  have hstab : ∀ n, n ≤ N → ∀ u, u < n →
      bwdLoop N L n y (N - u - 1) = bwdLoop N L N y (N - u - 1) := by
    intro n hn u hu
    rw [hat n hn u hu, hat N (Nat.le_refl _) u (by omega)]
  have hdi := hd (i0 + 1) (by omega) (by omega)
  have e1 : N - (N - (i0 + 1)) = i0 + 1 := by omega
  have e2 : N - (N - (i0 + 1)) - 1 = i0 := by omega
  have key := hat N (Nat.le_refl _) (N - (i0 + 1)) (by omega)
  rw [forUp_sum, e2, e1, hother (N - (i0 + 1)) i0 (by omega)] at key
  rw [sum_eq_sum_Ico_succ_bot hi, sum_Ico_eq_sum_range,
    ← sum_range_reflect (fun x => L (tri (i0 + 1 + x + 1) (i0 + 1)) * bwdLoop N L N y (i0 + 1 + x))]
  have : ∀ u ∈ range (N - (i0 + 1)),
      L (tri (N - u) (i0 + 1)) * bwdLoop N L (N - (i0 + 1)) y (N - u - 1)
      = L (tri (i0 + 1 + (N - (i0 + 1) - 1 - u) + 1) (i0 + 1))
          * bwdLoop N L N y (i0 + 1 + (N - (i0 + 1) - 1 - u)) := by
    intro u hu
    have hu' := mem_range.mp hu
    rw [hstab _ (by omega) u hu']
    have a1 : i0 + 1 + (N - (i0 + 1) - 1 - u) + 1 = N - u := by omega
    have a2 : i0 + 1 + (N - (i0 + 1) - 1 - u) = N - u - 1 := by omega
    rw [a1, a2]
  rw [sum_congr rfl this] at key
  rw [key, mul_div_cancel₀ _ hdi]
  ring

/-- (T2) `solve`: `x = cholSolve N L b` solves `L y = b`, `Lᵀ x = y` -/
theorem cholSolve_spec (sq : K → K) (N : Nat) (L b : Nat → K)
    (hd : ∀ i, 1 ≤ i → i ≤ N → L (tri i i) ≠ 0) :
    ∃ y : Nat → K, ∀ i, 1 ≤ i → i ≤ N →
      (∑ j ∈ range i, L (tri i (j + 1)) * y j = b (i - 1)) ∧
      (∑ j ∈ Ico (i - 1) N, L (tri (j + 1) i) * @cholSolve K (fieldScalar K sq) N L b j
          = y (i - 1)) := by
  refine ⟨fwdLoop L N b, ?_⟩
  intro i h1 hN
  obtain ⟨i0, rfl⟩ : ∃ i0, i = i0 + 1 := ⟨i - 1, by omega⟩
  rw [cholSolve_eq, Nat.add_sub_cancel]
  exact ⟨fwdLoop_spec L b N hd i0 (by omega), bwdLoop_spec L _ N hd i0 (by omega)⟩

end Solve

/-! ### `cholDec` -/

/-- `i(i-1)/2` : number of packed cells before row `i` -/
def Tr (i : Nat) : Nat := i * (i - 1) / 2

theorem Tr_succ (i : Nat) : Tr (i + 1) = Tr i + i := by
  unfold Tr
  cases i with
  | zero => simp
  | succ k =>
    simp only [Nat.add_sub_cancel]
    have : (k + 1 + 1) * (k + 1) = (k + 1) * k + 2 * (k + 1) := by ring
    rw [this, Nat.add_mul_div_left _ _ (by norm_num : 0 < 2)]

theorem Tr_one : Tr 1 = 0 := rfl

theorem Tr_mono {i j : Nat} (h : i ≤ j) : Tr i ≤ Tr j := by
  induction h with
  | refl => exact Nat.le_refl _
  | step _ ih => rw [Tr_succ]; omega

theorem tri_eq (i j : Nat) : tri i j = Tr i + j - 1 := rfl

theorem pos_inj {i j i' j' : Nat} (hj : 1 ≤ j) (hji : j ≤ i) (hj' : 1 ≤ j') (hji' : j' ≤ i')
    (h : Tr i + j = Tr i' + j') : i = i' ∧ j = j' := by
  rcases Nat.lt_trichotomy i i' with hlt | heq | hgt
  · have h1 : Tr (i + 1) ≤ Tr i' := Tr_mono hlt
    rw [Tr_succ] at h1
    omega
  · subst heq
    omega
  · have h1 : Tr (i' + 1) ≤ Tr i := Tr_mono hgt
    rw [Tr_succ] at h1
    omega

theorem fset_eq {α : Type} (f : Nat → α) (i : Nat) (v : α) : fset f i v i = v := by
  unfold fset; rw [if_pos rfl]

theorem fset_ne {α : Type} (f : Nat → α) (i : Nat) (v : α) {k : Nat} (h : k ≠ i) :
    fset f i v k = f k := by
  unfold fset; rw [if_neg h]

theorem forUpM_zero_ok {σ ε : Type} (body : Nat → σ → Except ε σ) (s s' : σ)
    (h : forUpM 0 body s = .ok s') : s' = s := by
  unfold forUpM at h
  cases h
  rfl

theorem forUpM_succ_ok {σ ε : Type} (n : Nat) (body : Nat → σ → Except ε σ) (s s'' : σ)
    (h : forUpM (n + 1) body s = .ok s'') :
    ∃ s', forUpM n body s = .ok s' ∧ body n s' = .ok s'' := by
  rw [forUpM] at h
  split at h
  · cases h
  · exact ⟨_, ‹_›, h⟩

section Dec
variable {K : Type} [Field K] [LinearOrder K] [IsStrictOrderedRing K]

theorem cholInner_def (sq : K → K) (a : Nat → K) (iq ip : Nat) (x : K) (ir : Nat) :
    @cholInner K (fieldScalar K sq) a iq ip x ir
      = forUp (ip + 1 - iq) (fun t (p : K × Nat) => (p.1 - a (iq + t) * a (p.2 + 1), p.2 + 1))
          (x, ir) := rfl

theorem cholInner_eq (sq : K → K) (a : Nat → K) (iq ip : Nat) (x : K) (ir : Nat) :
    @cholInner K (fieldScalar K sq) a iq ip x ir
      = (x - ∑ t ∈ range (ip + 1 - iq), a (iq + t) * a (ir + t + 1), ir + (ip + 1 - iq)) := by
  rw [cholInner_def]
  generalize ip + 1 - iq = m
  induction m with
  | zero => simp [forUp]
  | succ m ih =>
    rw [forUp_succ, ih, sum_range_succ]
    refine Prod.ext ?_ ?_
    · show x - _ - _ = x - (_ + _)
      ring
    · show ir + m + 1 = ir + (m + 1)
      omega

theorem cholCell_eq (sq : K → K) (tol : K) (i j iq : Nat) (s : CholSt K) :
    @cholCell K (fieldScalar K sq) tol i j iq s =
      (let r := @cholInner K (fieldScalar K sq) s.a iq s.ip (s.a (s.ip + 1)) s.ir
       if i ≠ j then
         .ok ⟨fset s.a (s.ip + 1)
                (if decide (s.a (r.2 + 1) = 0) = true then 0 else r.1 / s.a (r.2 + 1)),
              s.ip + 1, r.2 + 1, s.idf⟩
       else if s.a (s.ip + 1) * tol < r.1 then
         if r.1 < 0 then .error .badRank
         else .ok ⟨fset s.a (s.ip + 1) (sq r.1), s.ip + 1, r.2 + 1, s.idf⟩
       else .ok ⟨fset s.a (s.ip + 1) 0, s.ip + 1, r.2 + 1, s.idf + 1⟩) := rfl

theorem cholCell_idf (sq : K → K) (tol : K) (i j iq : Nat) (s s' : CholSt K)
    (h : @cholCell K (fieldScalar K sq) tol i j iq s = .ok s') (hidf : s'.idf = 0) :
    s.idf = 0 := by
  rw [cholCell_eq] at h
  dsimp only at h
  split at h
  · cases h; exact hidf
  · split at h
    · split at h
      · cases h
      · cases h; exact hidf
    · cases h; simp at hidf

theorem row_idf (sq : K → K) (tol : K) (i iq : Nat) :
    ∀ m (s0 s' : CholSt K),
      forUpM m (fun j0 s => @cholCell K (fieldScalar K sq) tol i (j0 + 1) iq s) s0 = .ok s' →
      s'.idf = 0 → s0.idf = 0 := by
  intro m
  induction m with
  | zero => intro s0 s' h hidf; rw [forUpM_zero_ok _ _ _ h] at hidf; exact hidf
  | succ m ih =>
    intro s0 s' h hidf
    obtain ⟨s1, h1, h2⟩ := forUpM_succ_ok _ _ _ _ h
    exact ih s0 s1 h1 (cholCell_idf sq tol _ _ _ _ _ h2 hidf)

/-- invariant of `cholDec`: cells at 1-based positions `≤ ip` are final and reproduce `a0`,
    positions `> ip` are untouched -/
structure CInv (a0 : Nat → K) (s : CholSt K) : Prop where
  rest : ∀ p, s.ip < p → s.a p = a0 p
  done : ∀ i j, 1 ≤ j → j ≤ i → Tr i + j ≤ s.ip →
    ∑ k ∈ range j, s.a (Tr i + (k + 1)) * s.a (Tr j + (k + 1)) = a0 (Tr i + j)
  dpos : ∀ i, 1 ≤ i → Tr i + i ≤ s.ip → 0 < s.a (Tr i + i) * s.a (Tr i + i)

theorem CInv_extend {a0 : Nat → K} {s : CholSt K} {i j0 : Nat} (hji : j0 < i)
    (hinv : CInv a0 s) (hip : s.ip = Tr i + j0) (v : K) (ir idf : Nat)
    (hsum : ∑ k ∈ range j0, s.a (Tr i + (k + 1)) * s.a (Tr (j0 + 1) + (k + 1))
        + v * (if i = j0 + 1 then v else s.a (Tr (j0 + 1) + (j0 + 1))) = a0 (Tr i + (j0 + 1)))
    (hpos : i = j0 + 1 → 0 < v * v) :
    CInv a0 ⟨fset s.a (s.ip + 1) v, s.ip + 1, ir, idf⟩ := by
  have hTji : Tr (j0 + 1) ≤ Tr i := Tr_mono hji
  have hTj2 : i ≠ j0 + 1 → Tr (j0 + 1) + (j0 + 1) ≤ Tr i := by
    intro hne
    have : Tr (j0 + 1 + 1) ≤ Tr i := Tr_mono (by omega)
    rw [Tr_succ] at this
    exact this
  constructor
  · intro p hp
    show fset s.a (s.ip + 1) v p = a0 p
    have hp' : s.ip + 1 < p := hp
    rw [fset_ne _ _ _ (by omega)]
    exact hinv.rest p (by omega)
  · intro i' j' hj' hji' hle
    show ∑ k ∈ range j', fset s.a (s.ip + 1) v (Tr i' + (k + 1))
        * fset s.a (s.ip + 1) v (Tr j' + (k + 1)) = a0 (Tr i' + j')
    have hle' : Tr i' + j' ≤ s.ip + 1 := hle
    by_cases hold : Tr i' + j' ≤ s.ip
    · rw [← hinv.done i' j' hj' hji' hold]
      refine sum_congr rfl (fun k hk => ?_)
      have hk' := mem_range.mp hk
      have hT : Tr j' ≤ Tr i' := Tr_mono hji'
      rw [fset_ne _ _ _ (by omega), fset_ne _ _ _ (by omega)]
    · have heq : Tr i' + j' = Tr i + (j0 + 1) := by omega
      obtain ⟨rfl, hjj⟩ := pos_inj (i' := i) (j' := j0 + 1) hj' hji' (by omega) hji heq
      rw [hjj, sum_range_succ, ← hsum]
      congr 1
      · refine sum_congr rfl (fun k hk => ?_)
        have hk' := mem_range.mp hk
        rw [fset_ne _ _ _ (by omega), fset_ne _ _ _ (by omega)]
      · rw [show Tr i' + (j0 + 1) = s.ip + 1 by omega, fset_eq]
        by_cases hd : i' = j0 + 1
        · rw [if_pos hd, ← hd, show Tr i' + i' = s.ip + 1 by omega, fset_eq]
        · have := hTj2 hd
          rw [if_neg hd, fset_ne _ _ _ (by omega)]
  · intro i' hi' hle
    show 0 < fset s.a (s.ip + 1) v (Tr i' + i') * fset s.a (s.ip + 1) v (Tr i' + i')
    have hle' : Tr i' + i' ≤ s.ip + 1 := hle
    by_cases hold : Tr i' + i' ≤ s.ip
    · rw [fset_ne _ _ _ (by omega)]
      exact hinv.dpos i' hi' hold
    · have heq : Tr i' + i' = Tr i + (j0 + 1) := by omega
      obtain ⟨rfl, h2⟩ := pos_inj (i' := i) (j' := j0 + 1) hi' (Nat.le_refl _) (by omega) hji heq
      rw [show Tr i' + i' = s.ip + 1 by omega, fset_eq]
      exact hpos h2

theorem cholCell_step (sq : K → K) (hsq : ∀ x, 0 ≤ x → sq x * sq x = x) (tol : K) (htol : 0 ≤ tol)
    {a0 : Nat → K} {s s' : CholSt K} {i j0 : Nat} (hji : j0 < i)
    (hinv : CInv a0 s) (hip : s.ip = Tr i + j0) (hir : s.ir = Tr (j0 + 1))
    (h : @cholCell K (fieldScalar K sq) tol i (j0 + 1) (Tr i + 1) s = .ok s') (hidf : s'.idf = 0) :
    CInv a0 s' ∧ s'.ip = Tr i + (j0 + 1) ∧ s'.ir = Tr (j0 + 1 + 1) := by
  rw [cholCell_eq, cholInner_eq] at h
  dsimp only at h
  have hm : s.ip + 1 - (Tr i + 1) = j0 := by omega
  rw [hm] at h
  have hS : ∑ t ∈ range j0, s.a (Tr i + 1 + t) * s.a (s.ir + t + 1)
      = ∑ k ∈ range j0, s.a (Tr i + (k + 1)) * s.a (Tr (j0 + 1) + (k + 1)) := by
    refine sum_congr rfl (fun t _ => ?_)
    rw [hir, show Tr i + 1 + t = Tr i + (t + 1) by omega]
    rfl
  rw [hS] at h
  have hir2 : s.ir + j0 + 1 = Tr (j0 + 1) + (j0 + 1) := by omega
  rw [hir2] at h
  have hdiag : s.a (s.ip + 1) = a0 (Tr i + (j0 + 1)) := by
    rw [hinv.rest (s.ip + 1) (by omega), hip]; rfl
  rw [hdiag] at h
  split at h
  · -- off-diagonal
    rename_i hne
    have hTj2 : Tr (j0 + 1) + (j0 + 1) ≤ Tr i := by
      have : Tr (j0 + 1 + 1) ≤ Tr i := Tr_mono (by omega)
      rw [Tr_succ] at this
      exact this
    have hdp := hinv.dpos (j0 + 1) (by omega) (by omega)
    have hd0 : s.a (Tr (j0 + 1) + (j0 + 1)) ≠ 0 := by
      intro h0; rw [h0] at hdp; simp at hdp
    simp only [decide_eq_true_eq, if_neg hd0] at h
    cases h
    refine ⟨CInv_extend hji hinv hip _ _ _ ?_ (fun he => absurd he hne), ?_, ?_⟩
    · rw [if_neg hne, div_mul_cancel₀ _ hd0]
      ring
    · show s.ip + 1 = _
      omega
    · show Tr (j0 + 1) + (j0 + 1) = _
      rw [Tr_succ (j0 + 1)]
  · rename_i heq
    have heq' : i = j0 + 1 := by omega
    split at h
    · rename_i hlt
      split at h
      · cases h
      · rename_i hx
        cases h
        have hSnn : 0 ≤ ∑ k ∈ range j0, s.a (Tr i + (k + 1)) * s.a (Tr (j0 + 1) + (k + 1)) := by
          refine sum_nonneg (fun k _ => ?_)
          rw [heq']
          exact mul_self_nonneg _
        have hx0 : 0 ≤ a0 (Tr i + (j0 + 1))
            - ∑ k ∈ range j0, s.a (Tr i + (k + 1)) * s.a (Tr (j0 + 1) + (k + 1)) :=
          not_lt.mp hx
        have hxpos : 0 < a0 (Tr i + (j0 + 1))
            - ∑ k ∈ range j0, s.a (Tr i + (k + 1)) * s.a (Tr (j0 + 1) + (k + 1)) := by
          rcases lt_or_eq_of_le hx0 with hp | hz
          · exact hp
          · exfalso
            rw [← hz] at hlt
            have hdnn : 0 ≤ a0 (Tr i + (j0 + 1)) := by linarith
            have := mul_nonneg hdnn htol
            linarith
        refine ⟨CInv_extend hji hinv hip _ _ _ ?_ (fun _ => ?_), ?_, ?_⟩
        · rw [if_pos heq', hsq _ hx0]
          ring
        · rw [hsq _ hx0]
          exact hxpos
        · show s.ip + 1 = _
          omega
        · show Tr (j0 + 1) + (j0 + 1) = _
          rw [Tr_succ (j0 + 1)]
    · cases h
      simp at hidf

theorem row_spec (sq : K → K) (hsq : ∀ x, 0 ≤ x → sq x * sq x = x) (tol : K) (htol : 0 ≤ tol)
    {a0 : Nat → K} {i : Nat} :
    ∀ m, m ≤ i → ∀ (s0 s' : CholSt K), CInv a0 s0 → s0.ip = Tr i → s0.ir = 0 →
      forUpM m (fun j0 s => @cholCell K (fieldScalar K sq) tol i (j0 + 1) (Tr i + 1) s) s0 = .ok s' →
      s'.idf = 0 → CInv a0 s' ∧ s'.ip = Tr i + m ∧ s'.ir = Tr (m + 1) := by
  intro m
  induction m with
  | zero =>
    intro _ s0 s' hinv hip hir h _
    rw [forUpM_zero_ok _ _ _ h]
    exact ⟨hinv, hip, by rw [hir]; rfl⟩
  | succ m ih =>
    intro hm s0 s' hinv hip hir h hidf
    obtain ⟨s1, h1, h2⟩ := forUpM_succ_ok _ _ _ _ h
    have hidf1 := cholCell_idf sq tol _ _ _ _ _ h2 hidf
    obtain ⟨hinv1, hip1, hir1⟩ := ih (by omega) s0 s1 hinv hip hir h1 hidf1
    exact cholCell_step sq hsq tol htol (by omega) hinv1 hip1 hir1 h2 hidf

theorem outer_spec (sq : K → K) (hsq : ∀ x, 0 ≤ x → sq x * sq x = x) (tol : K) (htol : 0 ≤ tol)
    (a0 : Nat → K) :
    ∀ n (s : CholSt K),
      forUpM n (fun i0 (s : CholSt K) =>
        forUpM (i0 + 1) (fun j0 s' => @cholCell K (fieldScalar K sq) tol (i0 + 1) (j0 + 1) (s.ip + 1) s')
          { s with ir := 0 }) ⟨a0, 0, 0, 0⟩ = .ok s →
      s.idf = 0 → CInv a0 s ∧ s.ip = Tr (n + 1) := by
  intro n
  induction n with
  | zero =>
    intro s h _
    rw [forUpM_zero_ok _ _ _ h]
    refine ⟨⟨fun _ _ => rfl, ?_, ?_⟩, rfl⟩
    · intro i j hj _ hle
      have : Tr i + j ≤ 0 := hle
      omega
    · intro i hi hle
      have : Tr i + i ≤ 0 := hle
      omega
  | succ n ih =>
    intro s h hidf
    obtain ⟨s1, h1, h2⟩ := forUpM_succ_ok _ _ _ _ h
    have hidf1 : s1.idf = 0 := row_idf sq tol _ _ _ { s1 with ir := 0 } s h2 hidf
    obtain ⟨hinv1, hip1⟩ := ih s1 h1 hidf1
    have h2' : forUpM (n + 1) (fun j0 s' =>
        @cholCell K (fieldScalar K sq) tol (n + 1) (j0 + 1) (Tr (n + 1) + 1) s')
        { s1 with ir := 0 } = .ok s := by
      rw [← hip1]; exact h2
    obtain ⟨hinv, hip, _⟩ := row_spec sq hsq tol htol (n + 1) (Nat.le_refl _)
      { s1 with ir := 0 } s ⟨hinv1.rest, hinv1.done, hinv1.dpos⟩ hip1 rfl h2' hidf
    refine ⟨hinv, ?_⟩
    rw [hip, Tr_succ (n + 1)]

theorem cholDec1_eq (sq : K → K) (n : Nat) (tol : K) (a : Nat → K) :
    @cholDec1 K (fieldScalar K sq) n tol a =
      match forUpM n (fun i0 (s : CholSt K) =>
        forUpM (i0 + 1) (fun j0 s' => @cholCell K (fieldScalar K sq) tol (i0 + 1) (j0 + 1) (s.ip + 1) s')
          { s with ir := 0 }) ⟨a, 0, 0, 0⟩ with
      | .error e => .error e
      | .ok s => .ok (s.a, s.idf) := rfl

/-- (T1) on the 1-based view -/
theorem cholDec1_spec (sq : K → K) (hsq : ∀ x, 0 ≤ x → sq x * sq x = x) (tol : K) (htol : 0 ≤ tol)
    (n : Nat) (a L : Nat → K) (h : @cholDec1 K (fieldScalar K sq) n tol a = .ok (L, 0)) :
    ∀ i j, 1 ≤ j → j ≤ i → i ≤ n →
      (∑ k ∈ range j, L (Tr i + (k + 1)) * L (Tr j + (k + 1)) = a (Tr i + j)) ∧
      0 < L (Tr i + i) * L (Tr i + i) := by
  rw [cholDec1_eq] at h
  split at h
  · cases h
  · rename_i s hs
    simp only [Except.ok.injEq, Prod.mk.injEq] at h
    obtain ⟨rfl, hI⟩ := h
    obtain ⟨hinv, hip⟩ := outer_spec sq hsq tol htol a n s hs hI
    intro i j hj hji hin
    have h1 : Tr (i + 1) ≤ Tr (n + 1) := Tr_mono (by omega)
    rw [Tr_succ i] at h1
    exact ⟨hinv.done i j hj hji (by omega), hinv.dpos i (by omega) (by omega)⟩

theorem cholDec_eq (sq : K → K) (n : Nat) (tol : K) (s : Nat → K) :
    @cholDec K (fieldScalar K sq) n tol s =
      match @cholDec1 K (fieldScalar K sq) n tol (fun k => s (k - 1)) with
      | .error e => .error e
      | .ok (a, idf) => .ok (fun p => a (p + 1), idf) := rfl

/-- (T1) `cholDec` not rejected with nullity `0`  ⇒  `L Lᵀ = A` on the lower triangle and the
    diagonal of `L` is non-zero -/
theorem cholDec_spec (sq : K → K) (hsq : ∀ x, 0 ≤ x → sq x * sq x = x) (tol : K) (htol : 0 ≤ tol)
    (n : Nat) (s L : Nat → K) (h : @cholDec K (fieldScalar K sq) n tol s = .ok (L, 0)) :
    ∀ i j, 1 ≤ j → j ≤ i → i ≤ n →
      (∑ k ∈ range j, L (tri i (k + 1)) * L (tri j (k + 1)) = s (tri i j)) ∧
      0 < L (tri i i) * L (tri i i) ∧ L (tri i i) ≠ 0 := by
  rw [cholDec_eq] at h
  split at h
  · cases h
  · rename_i a idf h1
    simp only [Except.ok.injEq, Prod.mk.injEq] at h
    obtain ⟨rfl, rfl⟩ := h
    intro i j hj hji hin
    obtain ⟨hs, hp⟩ := cholDec1_spec sq hsq tol htol n _ a h1 i j hj hji hin
    have e : ∀ i j, 1 ≤ j → tri i j + 1 = Tr i + j := by
      intro i j hj; rw [tri_eq]; omega
    refine ⟨?_, ?_, ?_⟩
    · show ∑ k ∈ range j, a (tri i (k + 1) + 1) * a (tri j (k + 1) + 1) = s (Tr i + j - 1)
      rw [← hs]
      refine sum_congr rfl (fun k _ => ?_)
      rw [e i (k + 1) (by omega), e j (k + 1) (by omega)]
    · show 0 < a (tri i i + 1) * a (tri i i + 1)
      rw [e i i (by omega)]
      exact hp
    · show a (tri i i + 1) ≠ 0
      rw [e i i (by omega)]
      intro h0
      rw [h0] at hp
      simp at hp

end Dec

/-! ### `cholDec` + `solve` : `A x = b` -/

section Combined
variable {K : Type} [Field K] [LinearOrder K] [IsStrictOrderedRing K]

/-- entry `(i,j)` (1-based) of the full symmetric matrix stored packed in `s` -/
def symEntry (s : Nat → K) (i j : Nat) : K := s (tri (max i j) (min i j))

/-- T1 + T2: after a non-rejected `cholDec` with nullity `0`, `solve` returns `x` with `A x = b` -/
theorem cholDec_cholSolve_spec (sq : K → K) (hsq : ∀ x, 0 ≤ x → sq x * sq x = x) (tol : K)
    (htol : 0 ≤ tol) (n : Nat) (s L b : Nat → K)
    (h : @cholDec K (fieldScalar K sq) n tol s = .ok (L, 0)) :
    ∀ i, 1 ≤ i → i ≤ n →
      ∑ j ∈ range n, symEntry s i (j + 1) * @cholSolve K (fieldScalar K sq) n L b j = b (i - 1) := by
  have hT1 := cholDec_spec sq hsq tol htol n s L h
  obtain ⟨y, hy⟩ := cholSolve_spec sq n L b (fun i h1 hn => (hT1 i i h1 (Nat.le_refl _) hn).2.2)
  generalize @cholSolve K (fieldScalar K sq) n L b = x at hy ⊢
  let Lf : Nat → Nat → K := fun i k => if k ≤ i then L (tri i k) else 0
  have hLf : ∀ i j, j ≤ i → i ≤ n →
      ∑ k ∈ range n, Lf i (k + 1) * Lf j (k + 1)
        = ∑ k ∈ range j, L (tri i (k + 1)) * L (tri j (k + 1)) := by
    intro i j hji hin
    rw [← sum_subset (range_subset_range.mpr (by omega : j ≤ n))
      (fun k _ hk => by
        have hk' : ¬ k < j := fun hlt => hk (mem_range.mpr hlt)
        show Lf i (k + 1) * (if k + 1 ≤ j then _ else 0) = 0
        rw [if_neg (by omega), mul_zero])]
    refine sum_congr rfl (fun k hk => ?_)
    have hk' := mem_range.mp hk
    show (if k + 1 ≤ i then _ else 0) * (if k + 1 ≤ j then _ else 0) = _
    rw [if_pos (by omega), if_pos (by omega)]
  have hA : ∀ i j, 1 ≤ i → i ≤ n → 1 ≤ j → j ≤ n →
      symEntry s i j = ∑ k ∈ range n, Lf i (k + 1) * Lf j (k + 1) := by
    intro i j hi hin hj hjn
    unfold symEntry
    rcases Nat.le_total j i with hji | hij
    · rw [Nat.max_eq_left hji, Nat.min_eq_right hji, hLf i j hji hin]
      exact ((hT1 i j hj hji hin).1).symm
    · rw [Nat.max_eq_right hij, Nat.min_eq_left hij,
        sum_congr rfl (fun k _ => mul_comm (Lf i (k + 1)) (Lf j (k + 1))), hLf j i hij hjn]
      exact ((hT1 j i hi hij hjn).1).symm
  have hF : ∀ i, 1 ≤ i → i ≤ n → ∑ k ∈ range n, Lf i (k + 1) * y k = b (i - 1) := by
    intro i hi hin
    rw [← (hy i hi hin).1,
      ← sum_subset (range_subset_range.mpr hin)
      (fun k _ hk => by
        have hk' : ¬ k < i := fun hlt => hk (mem_range.mpr hlt)
        show (if k + 1 ≤ i then _ else 0) * y k = 0
        rw [if_neg (by omega), zero_mul])]
    refine sum_congr rfl (fun k hk => ?_)
    have hk' := mem_range.mp hk
    show (if k + 1 ≤ i then _ else 0) * y k = _
    rw [if_pos (by omega)]
  have hB : ∀ k, 1 ≤ k → k ≤ n → ∑ j ∈ range n, Lf (j + 1) k * x j = y (k - 1) := by
    intro k hk hkn
    rw [← (hy k hk hkn).2, range_eq_Ico,
      ← sum_subset (Ico_subset_Ico_left (Nat.zero_le (k - 1)))
      (fun j _ hj => by
        have hj' : ¬ (k - 1 ≤ j ∧ j < n) := fun hh => hj (mem_Ico.mpr hh)
        have hj2 := mem_Ico.mp ‹j ∈ Ico 0 n›
        show (if k ≤ j + 1 then _ else 0) * x j = 0
        rw [if_neg (by omega), zero_mul])]
    refine sum_congr rfl (fun j hj => ?_)
    have hj' := mem_Ico.mp hj
    show (if k ≤ j + 1 then _ else 0) * x j = _
    rw [if_pos (by omega)]
  intro i hi hin
  calc ∑ j ∈ range n, symEntry s i (j + 1) * x j
      = ∑ j ∈ range n, ∑ k ∈ range n, Lf i (k + 1) * (Lf (j + 1) (k + 1) * x j) := by
        refine sum_congr rfl (fun j hj => ?_)
        have hj' := mem_range.mp hj
        rw [hA i (j + 1) hi hin (by omega) (by omega), sum_mul]
        exact sum_congr rfl (fun k _ => mul_assoc _ _ _)
    _ = ∑ k ∈ range n, Lf i (k + 1) * ∑ j ∈ range n, Lf (j + 1) (k + 1) * x j := by
        rw [sum_comm]
        exact sum_congr rfl (fun k _ => (mul_sum _ _ _).symm)
    _ = ∑ k ∈ range n, Lf i (k + 1) * y k := by
        refine sum_congr rfl (fun k hk => ?_)
        have hk' := mem_range.mp hk
        rw [hB (k + 1) (by omega) (by omega), Nat.add_sub_cancel]
    _ = b (i - 1) := hF i hi hin

end Combined

/-! ### non-vacuity: the 2×2 matrix `[[4,2],[2,2]]` over `ℚ` -/

section Example

def sqEx : ℚ → ℚ := fun x => if x = 4 then 2 else if x = 1 then 1 else 0
def sEx : Nat → ℚ := fun k => if k = 0 then 4 else if k = 1 then 2 else if k = 2 then 2 else 0

/-- checker used to phrase the evaluation as a closed Boolean computation -/
def chkEx (r : Except CholErr ((Nat → ℚ) × Nat)) : Bool :=
  match r with
  | .ok (L, idf) => idf == 0 && decide (L 0 = 2) && decide (L 1 = 1) && decide (L 2 = 1)
  | .error _ => false

theorem chkEx_ok {r : Except CholErr ((Nat → ℚ) × Nat)} (h : chkEx r = true) :
    ∃ L, r = .ok (L, 0) ∧ L 0 = 2 ∧ L 1 = 1 ∧ L 2 = 1 := by
  match r, h with
  | .ok (L, idf), h =>
    simp [chkEx] at h
    obtain ⟨⟨⟨rfl, h0⟩, h1⟩, h2⟩ := h
    exact ⟨L, rfl, h0, h1, h2⟩
  | .error _, h => simp [chkEx] at h

/-- (T3) `cholDec` accepts packed `[4,2,2]` with nullity `0` and returns packed `[2,1,1]` -/
theorem cholDec_example : ∃ L, @cholDec ℚ (fieldScalar ℚ sqEx) 2 (1 / 100000000) sEx = .ok (L, 0) ∧
    L 0 = 2 ∧ L 1 = 1 ∧ L 2 = 1 := by
  apply chkEx_ok
  norm_num [chkEx, cholDec, cholDec1, forUpM, cholCell, cholInner, forUp, fset, sqEx, sEx,
    Scalar.sqrt, Scalar.beq]

def LEx : Nat → ℚ := fun k => if k = 0 then 2 else if k = 1 then 1 else if k = 2 then 1 else 0
def bEx : Nat → ℚ := fun k => if k = 0 then 8 else if k = 1 then 6 else 0

/-- `solve` with the factor `[2,1,1]` of `[[4,2],[2,2]]` and `b = (8,6)` returns `x = (1,2)` -/
theorem cholSolve_example :
    @cholSolve ℚ (fieldScalar ℚ sqEx) 2 LEx bEx 0 = 1 ∧
    @cholSolve ℚ (fieldScalar ℚ sqEx) 2 LEx bEx 1 = 2 := by
  constructor <;> norm_num [cholSolve, forUp, fset, tri, LEx, bEx]

end Example

end Gama.MatVec
