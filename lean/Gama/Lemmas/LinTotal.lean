/-
  C05 — totality of a whole pass (`Lin.passFrom`, Model/LinPass.lean) over ℝ.

  * every generated member function is monotone in the fuel (`lin_mono`): the fuel is read by the two
    wrap loops of direction / azimuth / angle only (`wrapK`, the common tail of the three), the ten
    other classes do not read it at all (`lin_fuel_indep`);
  * a member function fails for exactly two reasons: the throw of `s_distance` / `z_angle`
    (`ThrowsO`, for EVERY fuel, `lin_throws`) or — direction / azimuth / angle only — not enough fuel
    for the wrap loops (`LinErr.fuel`, `lin_error`), and enough fuel always exists (`lin_total`), INSIDE
    the cut of `bearing_distance` as well (no `¬ hdist o < CUT` hypothesis: the wrap loops terminate on
    any real number);
  * lifted to a pass: `passFrom_mono`, `passFrom_total_iff`, `passFrom_throws`, `passFrom_error`.
  The start state of the index plays no role for success or for the error kind (all statements `∀ s`).
-/
import Gama.Lemmas.LinCut
import Gama.Model.LinPass
namespace Gama.Lin
open Real

/-! ### the wrap-loop classes: direction / azimuth / angle

  The three generated functions end in the same tail
  `while (a > 200e4) a -= 400e4; while (a <= -200e4) a += 400e4; rhs = a; …pushes…`; the fuel is read by
  the two loops only.  The proofs below unfold the GENERATED text (they break if the tail changes). -/

theorem direction_mono {fuel fuel' : Nat} (hle : fuel ≤ fuel') (o : Obs ℝ) (out : LinOut ℝ)
    (h : Gen.Lin.direction fuel o = .ok out) : Gen.Lin.direction fuel' o = .ok out := by
  simp only [Gen.Lin.direction] at h ⊢
  split at h
  · exact absurd h (by simp)
  · rename_i r1 h1
    split at h
    · exact absurd h (by simp)
    · rename_i r h2
      rw [whileLoop_mono_le _ _ hle _ _ h1]; simp only []
      rw [whileLoop_mono_le _ _ hle _ _ h2]; exact h

theorem azimuth_mono {fuel fuel' : Nat} (hle : fuel ≤ fuel') (o : Obs ℝ) (out : LinOut ℝ)
    (h : Gen.Lin.azimuth fuel o = .ok out) : Gen.Lin.azimuth fuel' o = .ok out := by
  simp only [Gen.Lin.azimuth] at h ⊢
  split at h
  · exact absurd h (by simp)
  · rename_i r1 h1
    split at h
    · exact absurd h (by simp)
    · rename_i r h2
      rw [whileLoop_mono_le _ _ hle _ _ h1]; simp only []
      rw [whileLoop_mono_le _ _ hle _ _ h2]; exact h

theorem angle_mono {fuel fuel' : Nat} (hle : fuel ≤ fuel') (o : Obs ℝ) (out : LinOut ℝ)
    (h : Gen.Lin.angle fuel o = .ok out) : Gen.Lin.angle fuel' o = .ok out := by
  simp only [Gen.Lin.angle] at h ⊢
  split at h
  · exact absurd h (by simp)
  · rename_i r1 h1
    split at h
    · exact absurd h (by simp)
    · rename_i r h2
      rw [whileLoop_mono_le _ _ hle _ _ h1]; simp only []
      rw [whileLoop_mono_le _ _ hle _ _ h2]; exact h

theorem direction_error (fuel : Nat) (o : Obs ℝ) (e : LinErr) (h : Gen.Lin.direction fuel o = .error e) : e = .fuel := by
  simp only [Gen.Lin.direction] at h
  split at h
  · injection h with h'; exact h'.symm
  · split at h
    · injection h with h'; exact h'.symm
    · exact absurd h (by simp)

theorem azimuth_error (fuel : Nat) (o : Obs ℝ) (e : LinErr) (h : Gen.Lin.azimuth fuel o = .error e) : e = .fuel := by
  simp only [Gen.Lin.azimuth] at h
  split at h
  · injection h with h'; exact h'.symm
  · split at h
    · injection h with h'; exact h'.symm
    · exact absurd h (by simp)

theorem angle_error (fuel : Nat) (o : Obs ℝ) (e : LinErr) (h : Gen.Lin.angle fuel o = .error e) : e = .fuel := by
  simp only [Gen.Lin.angle] at h
  split at h
  · injection h with h'; exact h'.symm
  · split at h
    · injection h with h'; exact h'.symm
    · exact absurd h (by simp)

/-- enough fuel exists, in EVERY regime (also inside the cut `hdist o < CUT`: the loops wrap whatever real
    number the bearing — there 0 — produces) -/
theorem direction_total (o : Obs ℝ) : ∃ fuel out, Gen.Lin.direction fuel o = .ok out := by
  obtain ⟨fuel, r1, r, h1, h2⟩ := wrap_terminates _ _ hc1 hc2
    ((o.value + o.orientation - (Gen.Lin.bearingDistancePt o.pfrom o.pto).1) * (Scalar.ofSci 2000 false 3 : ℝ) / π)
  refine ⟨fuel, ?_⟩
  simp only [Gen.Lin.direction, full_eq, pi_real]
  rw [h1]; simp only []; rw [h2]
  exact ⟨_, rfl⟩

theorem azimuth_total (o : Obs ℝ) : ∃ fuel out, Gen.Lin.azimuth fuel o = .ok out := by
  obtain ⟨fuel, r1, r, h1, h2⟩ := wrap_terminates _ _ hc1 hc2
    ((o.value + o.xNorth - (Gen.Lin.bearingDistancePt o.pfrom o.pto).1) * (Scalar.ofSci 2000 false 3 : ℝ) / π)
  refine ⟨fuel, ?_⟩
  simp only [Gen.Lin.azimuth, full_eq, pi_real]
  rw [h1]; simp only []; rw [h2]
  exact ⟨_, rfl⟩

theorem angle_total (o : Obs ℝ) : ∃ fuel out, Gen.Lin.angle fuel o = .ok out := by
  obtain ⟨fuel, r1, r, h1, h2⟩ := wrap_terminates _ _ hc1 hc2
    ((o.value - (if decide ((Gen.Lin.bearingDistancePt o.pfrom o.pfs).1 - (Gen.Lin.bearingDistancePt o.pfrom o.pto).1 < (Scalar.ofNat 0 : ℝ)) = true then
        (Gen.Lin.bearingDistancePt o.pfrom o.pfs).1 - (Gen.Lin.bearingDistancePt o.pfrom o.pto).1 + (Scalar.ofNat 2 : ℝ) * π
      else (Gen.Lin.bearingDistancePt o.pfrom o.pfs).1 - (Gen.Lin.bearingDistancePt o.pfrom o.pto).1)) * (Scalar.ofSci 2000 false 3 : ℝ) / π)
  refine ⟨fuel, ?_⟩
  simp only [Gen.Lin.angle, full_eq, pi_real]
  rw [h1]; simp only []; rw [h2]
  exact ⟨_, rfl⟩

/-! ### one observation: `Kind.lin` -/

/-- the inputs on which `LocalLinearization::<class>` throws -/
def ThrowsO (k : Kind) (o : Obs ℝ) : Prop :=
  (k = .s_distance ∧ sdist o = 0) ∨ (k = .z_angle ∧ (hdist o = 0 ∨ sdist o = 0))

/-- the exception a class throws (`s_distance`: zero slope distance, `z_angle`: zero zenith angle; the other
    classes never throw, the value is irrelevant for them) -/
def throwKind : Kind → LinErr
  | .z_angle => .zeroZenithAngle
  | _ => .zeroSlopeDistance

/-- the classes whose code contains the two wrap loops -/
def Kind.wraps : Kind → Bool
  | .direction | .azimuth | .angle => true
  | _ => false

/-- the ten classes without a loop do not read the fuel -/
theorem lin_fuel_indep (k : Kind) (hk : k.wraps = false) (fuel fuel' : Nat) (o : Obs ℝ) :
    k.lin fuel o = k.lin fuel' o := by
  cases k <;> simp only [Kind.wraps, Bool.true_eq_false] at hk <;> simp only [Kind.lin]
  · rw [distance_form, distance_form]
  · rw [h_diff_eq, h_diff_eq]
  · rw [s_distance_eq, s_distance_eq]
  · rw [z_angle_eq, z_angle_eq]
  · rw [x_eq, x_eq]
  · rw [y_eq, y_eq]
  · rw [z_eq, z_eq]
  · rw [xdiff_eq, xdiff_eq]
  · rw [ydiff_eq, ydiff_eq]
  · rw [zdiff_eq, zdiff_eq]

/-- fuel monotonicity of every generated member function -/
theorem lin_mono (k : Kind) {fuel fuel' : Nat} (hle : fuel ≤ fuel') (o : Obs ℝ) (out : LinOut ℝ)
    (h : k.lin fuel o = .ok out) : k.lin fuel' o = .ok out := by
  by_cases hk : k.wraps = false
  · rw [← lin_fuel_indep k hk fuel fuel' o]; exact h
  · cases k <;> simp only [Kind.wraps, not_true_eq_false] at hk
    · exact direction_mono hle o out h
    · exact angle_mono hle o out h
    · exact azimuth_mono hle o out h

/-- a throwing input throws for every fuel, with the exception of its class -/
theorem lin_throws (k : Kind) (o : Obs ℝ) (ht : ThrowsO k o) (fuel : Nat) : k.lin fuel o = .error (throwKind k) := by
  rcases ht with ⟨rfl, h⟩ | ⟨rfl, h⟩
  · simp only [Kind.lin, throwKind]; rw [s_distance_eq, if_pos h]
  · simp only [Kind.lin, throwKind]; rw [z_angle_eq, if_pos h]

/-- enough fuel exists for every input that does not throw -/
theorem lin_total (k : Kind) (o : Obs ℝ) (ht : ¬ ThrowsO k o) : ∃ fuel out, k.lin fuel o = .ok out := by
  cases k <;> simp only [Kind.lin]
  · exact direction_total o
  · exact ⟨0, _, distance_form 0 o⟩
  · exact angle_total o
  · exact ⟨0, _, h_diff_eq 0 o⟩
  · exact ⟨0, _, by rw [s_distance_eq, if_neg (fun h => ht (Or.inl ⟨rfl, h⟩))]⟩
  · exact ⟨0, _, by rw [z_angle_eq, if_neg (fun h => ht (Or.inr ⟨rfl, h⟩))]⟩
  · exact ⟨0, _, x_eq 0 o⟩
  · exact ⟨0, _, y_eq 0 o⟩
  · exact ⟨0, _, z_eq 0 o⟩
  · exact ⟨0, _, xdiff_eq 0 o⟩
  · exact ⟨0, _, ydiff_eq 0 o⟩
  · exact ⟨0, _, zdiff_eq 0 o⟩
  · exact azimuth_total o

/-- the two ways a member function fails: the throw (exactly on `ThrowsO`), or — wrap-loop classes only —
    the fuel did not suffice -/
theorem lin_error (k : Kind) (fuel : Nat) (o : Obs ℝ) (e : LinErr) (h : k.lin fuel o = .error e) :
    (ThrowsO k o ∧ e = throwKind k) ∨ (¬ ThrowsO k o ∧ k.wraps = true ∧ e = .fuel) := by
  by_cases ht : ThrowsO k o
  · left; rw [lin_throws k o ht fuel] at h; injection h with h; exact ⟨ht, h.symm⟩
  · right
    refine ⟨ht, ?_⟩
    by_cases hk : k.wraps = false
    · obtain ⟨f, out, hok⟩ := lin_total k o ht
      rw [lin_fuel_indep k hk fuel f o, hok] at h
      exact absurd h (by simp)
    · cases k <;> simp only [Kind.wraps, not_true_eq_false] at hk
      · exact ⟨rfl, direction_error fuel o e h⟩
      · exact ⟨rfl, angle_error fuel o e h⟩
      · exact ⟨rfl, azimuth_error fuel o e h⟩

theorem lin_ok_not_throws (k : Kind) (fuel : Nat) (o : Obs ℝ) (out : LinOut ℝ) (h : k.lin fuel o = .ok out) :
    ¬ ThrowsO k o := by
  intro ht; rw [lin_throws k o ht fuel] at h; exact absurd h (by simp)

/-! ### the whole pass -/

/-- the observation throws in the network `σ` -/
def Throws (σ : Net ℝ) (ob : NObs ℝ) : Prop :=
  (ob.kind = .s_distance ∧ sdist (σ.view ob) = 0) ∨
  (ob.kind = .z_angle ∧ (hdist (σ.view ob) = 0 ∨ sdist (σ.view ob) = 0))

theorem throws_iff (σ : Net ℝ) (ob : NObs ℝ) : Throws σ ob ↔ ThrowsO ob.kind (σ.view ob) := Iff.rfl

theorem passFrom_cons_ok (σ : Net ℝ) (fuel : Nat) (ob : NObs ℝ) (t : List (NObs ℝ)) (s : IdxState) (out : LinOut ℝ)
    (r : PassOut ℝ) (h1 : ob.kind.lin fuel (σ.view ob) = .ok out)
    (h2 : passFrom σ fuel t (runEvs ob.name out.evs s).1 = .ok r) :
    passFrom σ fuel (ob :: t) s = .ok ⟨(runEvs ob.name out.evs s).2 :: r.rows, out.rhs :: r.rhs, r.idx⟩ := by
  simp only [passFrom, h1, h2]

theorem passFrom_cons_err1 (σ : Net ℝ) (fuel : Nat) (ob : NObs ℝ) (t : List (NObs ℝ)) (s : IdxState) (e : LinErr)
    (h1 : ob.kind.lin fuel (σ.view ob) = .error e) : passFrom σ fuel (ob :: t) s = .error e := by
  simp only [passFrom, h1]

theorem passFrom_cons_err2 (σ : Net ℝ) (fuel : Nat) (ob : NObs ℝ) (t : List (NObs ℝ)) (s : IdxState) (out : LinOut ℝ)
    (e : LinErr) (h1 : ob.kind.lin fuel (σ.view ob) = .ok out)
    (h2 : passFrom σ fuel t (runEvs ob.name out.evs s).1 = .error e) :
    passFrom σ fuel (ob :: t) s = .error e := by
  simp only [passFrom, h1, h2]

/-- inversion of a successful step -/
theorem passFrom_cons_inv (σ : Net ℝ) (fuel : Nat) (ob : NObs ℝ) (t : List (NObs ℝ)) (s : IdxState) (res : PassOut ℝ)
    (h : passFrom σ fuel (ob :: t) s = .ok res) :
    ∃ out r, ob.kind.lin fuel (σ.view ob) = .ok out ∧ passFrom σ fuel t (runEvs ob.name out.evs s).1 = .ok r ∧
      res = ⟨(runEvs ob.name out.evs s).2 :: r.rows, out.rhs :: r.rhs, r.idx⟩ := by
  cases h1 : ob.kind.lin fuel (σ.view ob) with
  | error e => rw [passFrom_cons_err1 σ fuel ob t s e h1] at h; exact absurd h (by simp)
  | ok out =>
    cases h2 : passFrom σ fuel t (runEvs ob.name out.evs s).1 with
    | error e => rw [passFrom_cons_err2 σ fuel ob t s out e h1 h2] at h; exact absurd h (by simp)
    | ok r =>
      rw [passFrom_cons_ok σ fuel ob t s out r h1 h2] at h
      injection h with h
      exact ⟨out, r, rfl, h2, h.symm⟩

/-- **fuel monotonicity of a pass**: more fuel keeps the result -/
theorem passFrom_mono (σ : Net ℝ) {fuel fuel' : Nat} (hle : fuel ≤ fuel') :
    ∀ (obs : List (NObs ℝ)) (s : IdxState) (res : PassOut ℝ),
      passFrom σ fuel obs s = .ok res → passFrom σ fuel' obs s = .ok res := by
  intro obs
  induction obs with
  | nil => intro s res h; simpa [passFrom] using h
  | cons ob t ih =>
    intro s res h
    obtain ⟨out, r, h1, h2, rfl⟩ := passFrom_cons_inv σ fuel ob t s res h
    exact passFrom_cons_ok σ fuel' ob t s out r (lin_mono _ hle _ _ h1) (ih _ _ h2)

/-- a pass over observations none of which throws succeeds with enough fuel, from every index state -/
theorem passFrom_total (σ : Net ℝ) :
    ∀ (obs : List (NObs ℝ)), (∀ ob ∈ obs, ¬ Throws σ ob) → ∀ s : IdxState, ∃ fuel res, passFrom σ fuel obs s = .ok res := by
  intro obs
  induction obs with
  | nil => intro _ s; exact ⟨0, _, rfl⟩
  | cons ob t ih =>
    intro hno s
    obtain ⟨f1, out, h1⟩ := lin_total ob.kind (σ.view ob) (hno ob (List.mem_cons_self ..))
    obtain ⟨f2, r, h2⟩ := ih (fun p hp => hno p (List.mem_cons_of_mem _ hp)) (runEvs ob.name out.evs s).1
    exact ⟨max f1 f2, _, passFrom_cons_ok σ _ ob t s out r (lin_mono _ (le_max_left _ _) _ _ h1)
      (passFrom_mono σ (le_max_right _ _) _ _ _ h2)⟩

/-- a successful pass contains no throwing observation -/
theorem passFrom_ok_no_throw (σ : Net ℝ) (fuel : Nat) :
    ∀ (obs : List (NObs ℝ)) (s : IdxState) (res : PassOut ℝ), passFrom σ fuel obs s = .ok res →
      ∀ ob ∈ obs, ¬ Throws σ ob := by
  intro obs
  induction obs with
  | nil => intro _ _ _ ob hob; exact absurd hob (by simp)
  | cons ob t ih =>
    intro s res h p hp
    obtain ⟨out, r, h1, h2, -⟩ := passFrom_cons_inv σ fuel ob t s res h
    rcases List.mem_cons.mp hp with rfl | hp
    · exact lin_ok_not_throws _ _ _ _ h1
    · exact ih _ _ h2 p hp

/-- **exact characterisation of success** (every start state) -/
theorem passFrom_total_iff (σ : Net ℝ) (obs : List (NObs ℝ)) (s : IdxState) :
    (∃ fuel res, passFrom σ fuel obs s = .ok res) ↔ ∀ ob ∈ obs, ¬ Throws σ ob :=
  ⟨fun ⟨fuel, res, h⟩ => passFrom_ok_no_throw σ fuel obs s res h, fun h => passFrom_total σ obs h s⟩

/-- the first throwing observation decides: for every sufficiently large fuel the pass leaves with ITS exception -/
theorem passFrom_throws (σ : Net ℝ) (ob : NObs ℝ) (post : List (NObs ℝ)) (hthrow : Throws σ ob) :
    ∀ (pre : List (NObs ℝ)), (∀ p ∈ pre, ¬ Throws σ p) → ∀ s : IdxState,
      ∃ N, ∀ fuel, N ≤ fuel → passFrom σ fuel (pre ++ ob :: post) s = .error (throwKind ob.kind) := by
  intro pre
  induction pre with
  | nil =>
    intro _ s
    exact ⟨0, fun fuel _ => passFrom_cons_err1 σ fuel ob post s _ (lin_throws _ _ hthrow fuel)⟩
  | cons p t ih =>
    intro hno s
    obtain ⟨f1, out, h1⟩ := lin_total p.kind (σ.view p) (hno p (List.mem_cons_self ..))
    obtain ⟨N, hN⟩ := ih (fun q hq => hno q (List.mem_cons_of_mem _ hq)) (runEvs p.name out.evs s).1
    refine ⟨max f1 N, fun fuel hf => ?_⟩
    exact passFrom_cons_err2 σ fuel p (t ++ ob :: post) s out _
      (lin_mono _ (le_trans (le_max_left _ _) hf) _ _ h1) (hN fuel (le_trans (le_max_right _ _) hf))

/-- the errors of a pass: the exception of the FIRST throwing observation, or `fuel` (then some wrap-loop
    class occurs before any throwing observation and the fuel was too small for it) -/
theorem passFrom_error (σ : Net ℝ) (fuel : Nat) :
    ∀ (obs : List (NObs ℝ)) (s : IdxState) (e : LinErr), passFrom σ fuel obs s = .error e →
      (∃ pre ob post, obs = pre ++ ob :: post ∧ (∀ p ∈ pre, ¬ Throws σ p) ∧ Throws σ ob ∧ e = throwKind ob.kind) ∨
      (e = .fuel ∧ ∃ pre ob post, obs = pre ++ ob :: post ∧ (∀ p ∈ pre, ¬ Throws σ p) ∧ ¬ Throws σ ob ∧
        ob.kind.wraps = true ∧ ob.kind.lin fuel (σ.view ob) = .error .fuel) := by
  intro obs
  induction obs with
  | nil => intro s e h; simp [passFrom] at h
  | cons ob t ih =>
    intro s e h
    cases h1 : ob.kind.lin fuel (σ.view ob) with
    | error e1 =>
      rw [passFrom_cons_err1 σ fuel ob t s e1 h1] at h
      injection h with h; subst h
      rcases lin_error _ _ _ _ h1 with ⟨ht, he⟩ | ⟨ht, hw, he⟩
      · exact Or.inl ⟨[], ob, t, rfl, by simp, ht, he⟩
      · subst he
        exact Or.inr ⟨rfl, [], ob, t, rfl, by simp, ht, hw, h1⟩
    | ok out =>
      cases h2 : passFrom σ fuel t (runEvs ob.name out.evs s).1 with
      | ok r => rw [passFrom_cons_ok σ fuel ob t s out r h1 h2] at h; exact absurd h (by simp)
      | error e2 =>
        rw [passFrom_cons_err2 σ fuel ob t s out e2 h1 h2] at h
        injection h with h; subst h
        have hob : ¬ Throws σ ob := lin_ok_not_throws _ _ _ _ h1
        have hpre : ∀ (pre : List (NObs ℝ)), (∀ p ∈ pre, ¬ Throws σ p) → ∀ p ∈ ob :: pre, ¬ Throws σ p := by
          intro pre hp p hm
          rcases List.mem_cons.mp hm with rfl | hm
          · exact hob
          · exact hp p hm
        rcases ih _ _ h2 with ⟨pre, o2, post, rfl, hp, ht, he⟩ | ⟨he, pre, o2, post, rfl, hp, ht, hw, hl⟩
        · exact Or.inl ⟨ob :: pre, o2, post, rfl, hpre pre hp, ht, he⟩
        · exact Or.inr ⟨he, ob :: pre, o2, post, rfl, hpre pre hp, ht, hw, hl⟩

end Gama.Lin
