/-
  C06 — `RA.Env.adjust` instantiated with the EXECUTED pipeline `project_equations()` ∘ solver façade
  (`PE.projectEquations`, `Net.netSolve`), so that the loop theorem of `refine_adjustment` speaks about the models that
  are run (round 10).

  `peAdjust alg mk σ xyz obs`: the current state is presented to `project_equations()` as the network `mk σ obs`
  (`PE.Net`: point list with statuses, clusters with covariance matrices, `m_0_apr_`), then `netSolve alg`; the answer is
  read as the loop reads it: index fields of `u.net`, `solve()` and `residuals()` (the first `n` / `m` entries),
  `revised_obs_`.  `none` = an exception.

  LIMIT: `PE.Ob` carries `value()` only (no `value_`, `from_dh`, `to_dh`, `reduction`), so `mk` can hand over
  `o.raw + o.red` but the model of `project_equations()` cannot see a reduction change by itself: the coherence between the
  loop's observation list and the network is asked as two hypotheses (`hview`, `hsub`) — trivially true for networks
  without from_dh/to_dh (then `stored σ xyz o = o`), which is where the instantiation is complete.
-/
import Gama.Lemmas.C06NetZero
import Gama.Lemmas.C06Refine
import Gama.Lemmas.C06NetWitness
namespace Gama.C06PL2
open Gama Gama.Lin Gama.PE Gama.Ls Gama.Ls.Net Gama.LS Gama.RA Gama.C06FP Gama.C06RA Gama.C06NZ Matrix
attribute [local instance] sqrtFnOfSqrtField
attribute [local instance 2000] scalarOfField
attribute [local instance 3000] fieldTrig

/-- what the loop reads of a completed adjustment -/
noncomputable def adjOf (np : NetProblem ℝ) (u : Unknowns ℝ) (a : NetAnswer ℝ) : RA.Adj ℝ :=
  ⟨u.net.idx, List.ofFn (toVec (toProblem np).n a.x), List.ofFn (toVec (toProblem np).m a.r), revisedObs u.net⟩

/-- `project_equations()` + the solver on the current state -/
noncomputable def peAdjust (alg : Alg) (mk : Lin.Net ℝ → List (DObs ℝ) → PE.Net ℝ) :
    Lin.Net ℝ → (Nat → Bool) → List (DObs ℝ) → Option (RA.Adj ℝ) := fun σ _ obs =>
  match projectEquations (mk σ obs) with
  | .error _ => none
  | .ok (np, u) =>
    match netSolve alg np with
    | .error _ => none
    | .ok a => some (adjOf np u a)

/-- the environment of `refine_adjustment` whose adjustment is the executed pipeline -/
noncomputable def peEnv (alg : Alg) (mk : Lin.Net ℝ → List (DObs ℝ) → PE.Net ℝ)
    (ra : Lin.Net ℝ → (Nat → Bool) → List (DObs ℝ) → RA.Adj ℝ → Lin.Net ℝ × (Nat → Bool)) (fuel : Nat) : RA.Env ℝ :=
  ⟨peAdjust alg mk, ra, fuel⟩

theorem peAdjust_eq (alg : Alg) (mk : Lin.Net ℝ → List (DObs ℝ) → PE.Net ℝ) (σ : Lin.Net ℝ) (xyz : Nat → Bool)
    (obs : List (DObs ℝ)) (np : NetProblem ℝ) (u : Unknowns ℝ) (a : NetAnswer ℝ)
    (hpe : projectEquations (mk σ obs) = .ok (np, u)) (hs : netSolve alg np = .ok a) :
    peAdjust alg mk σ xyz obs = some (adjOf np u a) := by
  unfold peAdjust
  simp only [hpe, hs]

/-- **the loop at the true coordinates, on the executed pipeline**: the hypotheses of `C06_exact_network_solution_zero` for
    the network `mk σ obs'` (`obs'` = the observations with the reductions stored), all `OD` observations `DhExact`, and the
    coherence of the loop's view with the network (`hview`, `hsub`) ⇒ `refine_adjustment()` with THIS adjustment leaves by
    `break` in its first turn, 0 iterations, nothing changed -/
theorem refineAdjustment_fixed_point_pipeline (alg : Alg) (halg : alg ≠ .svd)
    (mk : Lin.Net ℝ → List (DObs ℝ) → PE.Net ℝ) (σ : Lin.Net ℝ) (xyz : Nat → Bool) (obs : List (DObs ℝ))
    (np : NetProblem ℝ) (u : Unknowns ℝ) (a : NetAnswer ℝ)
    (hpe : projectEquations (mk σ (obs.map (stored σ xyz))) = .ok (np, u))
    (hs : netSolve alg np = .ok a)
    (hex : ∀ o ∈ obs, DhExact σ xyz o)
    (hview : ∀ ob ∈ revisedObs u.net, (sigmaOf u.net).view ob = σ.view ob)
    (hsub : ∀ ob ∈ revisedObs u.net, ∃ o ∈ obs, ob = (stored σ xyz o).nobs)
    (hm0 : np.m0 ≠ 0)
    (Pc : Matrix (Fin (toProblem np).m) (Fin (toProblem np).m) ℝ) (hPc : Sigma np * Pc = 1)
    (hreg : Env.RegListOK (toProblem np)) {τ : ℝ} (hτ : GapThresholds τ)
    (hgap : RankGap (toProblem np).A ((np.m0 * np.m0) • Pc) (toProblem np).S τ) :
    ∃ f0 : Nat, ∀ ra fuel, f0 ≤ fuel → ∀ maxIter i0 : Nat,
      @refineAdjustment ℝ instTrigScalarReal (peEnv alg mk ra fuel) (maxIter + 1) ⟨σ, xyz, obs.map (stored σ xyz), i0⟩
        = some (⟨σ, xyz, obs.map (stored σ xyz), 0⟩, true, false) := by
  have hexσ : ∀ ob ∈ revisedObs u.net, ExactObs σ ob := by
    intro ob hob
    obtain ⟨o, ho, rfl⟩ := hsub ob hob
    exact stored_exact σ xyz o (hex o ho)
  have hexu : ∀ ob ∈ revisedObs u.net, ExactObs (sigmaOf u.net) ob := by
    intro ob hob
    have := hexσ ob hob
    unfold ExactObs at this ⊢
    rw [hview ob hob]; exact this
  obtain ⟨hx, hr, _⟩ := exact_network_solution_zero (mk σ (obs.map (stored σ xyz))) np u hpe hexu hm0 Pc hPc hreg hτ
    hgap alg halg a hs
  obtain ⟨f0, hf⟩ := refineAdjustment_fixed_point σ xyz obs (adjOf np u a) hex hsub
    (fun _ => ⟨xAt_ofFn_zero _ hx, xAt_ofFn_zero _ hr⟩)
  exact ⟨f0, fun ra fuel hfu maxIter i0 =>
    hf (peEnv alg mk ra fuel) (peAdjust_eq alg mk σ xyz _ np u a hpe hs) hfu maxIter i0⟩

/-! ### witness: the levelling network `Ex.netWexact` (no from_dh/to_dh: the instantiation is complete there) -/

namespace Ex
open Gama.C06NZ.Ex

/-- `OD` of the levelling network as the loop sees it (all five height differences, active or not) -/
noncomputable def odW : List (DObs ℝ) :=
  [⟨.h_diff, 0, 0, 1, 0, 10, 0, 0, 0⟩, ⟨.h_diff, 0, 1, 2, 0, -5, 0, 0, 0⟩, ⟨.h_diff, 2, 0, 2, 0, 5, 0, 0, 0⟩]

noncomputable def σW : Lin.Net ℝ := sigmaOf netWexact
def xyzW : Nat → Bool := fun _ => true

theorem stored_odW : ∀ o ∈ odW, stored σW xyzW o = o := by
  intro o ho
  simp only [odW, List.mem_cons, List.not_mem_nil, or_false] at ho
  rcases ho with rfl | rfl | rfl <;> rfl

theorem odW_exact : ∀ o ∈ odW, DhExact σW xyzW o := by
  intro o ho
  refine ⟨fun _ => ?_, fun rs h => ?_⟩
  · simp only [odW, List.mem_cons, List.not_mem_nil, or_false] at ho
    rcases ho with rfl | rfl | rfl
    · show (10 : ℝ) + 0 = 110 - 100; norm_num
    · show (-5 : ℝ) + 0 = 105 - 110; norm_num
    · show (5 : ℝ) + 0 = 105 - 100; norm_num
  · simp only [odW, List.mem_cons, List.not_mem_nil, or_false] at ho
    rcases ho with rfl | rfl | rfl <;> cases h

theorem odW_sub : ∀ ob ∈ revisedObs uX.net, ∃ o ∈ odW, ob = (stored σW xyzW o).nobs := by
  intro ob hob
  rw [uX_robs, robs] at hob
  simp only [List.mem_cons, List.not_mem_nil, or_false] at hob
  rcases hob with rfl | rfl | rfl
  · exact ⟨_, List.mem_cons_self, by show _ = (⟨.h_diff, 0, 0, 1, 0, (10 : ℝ) + 0⟩ : NObs ℝ); rw [add_zero]⟩
  · exact ⟨_, List.mem_cons_of_mem _ List.mem_cons_self,
      by show _ = (⟨.h_diff, 0, 1, 2, 0, (-5 : ℝ) + 0⟩ : NObs ℝ); rw [add_zero]⟩
  · exact ⟨_, List.mem_cons_of_mem _ (List.mem_cons_of_mem _ List.mem_cons_self),
      by show _ = (⟨.h_diff, 2, 0, 2, 0, (5 : ℝ) + 0⟩ : NObs ℝ); rw [add_zero]⟩

end Ex

end Gama.C06PL2
