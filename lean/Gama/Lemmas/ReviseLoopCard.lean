/-
  C14 — the count of the station rule as a cardinality: the number of distinct targets that have AT
  LEAST ONE active reading (a `Finset`, so order and repetitions of the readings cannot matter), for
  the loop as coded (`activeDirections`, regenerated body) and for the whole revision of a cluster.
-/
import Gama.Lemmas.Revise
import Mathlib.Data.Finset.Card
import Mathlib.Data.List.Perm.Basic
namespace Gama.Rev
variable {K : Type}

/-- the targets having at least one ACTIVE direction reading in the list -/
def activeTargetSet (os : List (Obs K)) : Finset Nat := (activeTargets os).toFinset

/-- the targets having at least one direction reading that is active AND usable (specification
    tables), i.e. a reading the revision leaves active -/
def usableTargetSet (pts : List (Pt K)) (os : List (Obs K)) : Finset Nat :=
  ((os.filter (fun o => o.ty == .direction && (o.active && Spec.usable pts o))).map (·.to)).toFinset

theorem mem_activeTargetSet (os : List (Obs K)) (t : Nat) :
    t ∈ activeTargetSet os ↔ ∃ o ∈ os, o.ty = .direction ∧ o.active = true ∧ o.to = t := by
  unfold activeTargetSet
  rw [List.mem_toFinset, ← (distinctTargets_char os).2.2 t, List.mem_eraseDups]

theorem mem_usableTargetSet (pts : List (Pt K)) (os : List (Obs K)) (t : Nat) :
    t ∈ usableTargetSet pts os ↔
      ∃ o ∈ os, o.ty = .direction ∧ o.active = true ∧ Spec.usable pts o = true ∧ o.to = t := by
  unfold usableTargetSet
  simp only [List.mem_toFinset, List.mem_map, List.mem_filter, Bool.and_eq_true, beq_iff_eq]
  constructor
  · rintro ⟨o, ⟨ho, h1, h2, h3⟩, rfl⟩
    exact ⟨o, ho, h1, h2, h3, rfl⟩
  · rintro ⟨o, ho, h1, h2, h3, rfl⟩
    exact ⟨o, ⟨ho, h1, h2, h3⟩, rfl⟩

theorem eraseDups_length_eq_card (l : List Nat) : l.eraseDups.length = l.toFinset.card := by
  have h1 : l.eraseDups.toFinset = l.toFinset := by
    ext t; simp
  rw [← h1, List.toFinset_card_of_nodup (nodup_eraseDups _ _ (Nat.le_refl _))]

theorem distinctTargets_eq_card (os : List (Obs K)) : distinctTargets os = (activeTargetSet os).card :=
  eraseDups_length_eq_card _

/-- the loop as coded counts the targets with at least one active reading -/
theorem activeDirections_eq_card (os : List (Obs K)) : activeDirections os = (activeTargetSet os).card := by
  rw [activeDirections_eq, distinctTargets_eq_card]

theorem activeTargetSet_perm {os os' : List (Obs K)} (h : os'.Perm os) : activeTargetSet os' = activeTargetSet os := by
  unfold activeTargetSet activeTargets
  exact List.toFinset_eq_of_perm _ _ ((h.filter _).map _)

theorem usableTargets_eq_card (pts : List (Pt K)) (os : List (Obs K)) :
    Spec.usableTargets pts os = (usableTargetSet pts os).card :=
  eraseDups_length_eq_card _

theorem standRule_card (c : Cluster K) :
    standRule c =
      if c.stand = true ∧ (activeTargetSet c.obs).card < 2 then { c with obs := c.obs.map passDir } else c := by
  rw [standRule_def, distinctTargets_eq_card]
  by_cases h1 : c.stand = true <;> by_cases h2 : (activeTargetSet c.obs).card < 2 <;> simp [h1, h2]

end Gama.Rev
