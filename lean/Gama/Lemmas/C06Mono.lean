/-
  C06, clause 6 ("adding further consistent observations never makes a determined point undetermined") for the
  MODELLED `Acord2::execute` as a whole: AcordAzimuth, AcordHdiff, AcordZderived, AcordVector, AcordIntersection
  in the constructor's order + the bookkeeping, for two sets of exact observations `o ⊆ o'`.

  Part 1  the machine (`ObsSet`, `strategies5`) and the BRIDGE from the erase-remove list of `Acord2::execute`
          (`modelledAlgs`, Model/Acord2.lean) to the fixed list of idling strategies (`loop_filter_is_rounds`,
          `modelled_loop_is_rounds`).
  Part 2  the soundness instance (`Sound5`).
  Part 3  the simulation relation `KL` and the step monotonicities: AcordHdiff, AcordVector, AcordZderived,
          AcordAzimuth (`prepare` and `execute`), bookkeeping PROVED; AcordIntersection a hypothesis (`aiMono`,
          reduced to facts about the point list by `aiMono_of_facts`, proved for `cls = []`).
  Part 4  the `MonoMachine` instance (`monoMachine5`), the final theorems (`acord2_modelled_monotone_partial`,
          `acord2_modelled_execute_monotone_or_stops_earlier_partial`), non-vacuity.
-/
import Gama.Lemmas.C06Sched
import Gama.Lemmas.C06Inter
open Gama Gama.Cogo Gama.Median Gama.C06R Gama.C06L Gama.Acord Gama.C06A Gama.C06S

namespace Gama.C06M
open Real

set_option linter.unusedSectionVars false
set_option linter.unusedVariables false
set_option linter.unusedSimpArgs false

/-! ## Part 1: the machine -/

/-- the global state of the modelled Acord2 over ℝ -/
abbrev G5 (ι : Type) := G ι ℝ (Priv ι ℝ (AiPriv ℝ))

/-- an observation set, in the two representations the strategies read (the driver builds both from the same
    records): `od` for AcordAzimuth / AcordHdiff / AcordZderived / AcordVector, `cls`, `keys`, `extra` for
    AcordIntersection -/
structure ObsSet (ι : Type) where
  od : List (Cluster ι ℝ)
  cls : List (Inter.Cl ι ℝ)
  keys : List ι
  extra : Bool

section bridge
variable {S O : Type}

/-- a strategy object that has been removed from `algorithms_` idles -/
def idle (a : Alg S) : S → S := fun s => if a.completed s then s else a.exec s

/-- `completed()` of one strategy is not changed by `execute()` of the other (both directions) -/
def Indep (a b : Alg S) : Prop :=
  (∀ t, a.completed (b.exec t) = a.completed t) ∧ (∀ t, b.completed (a.exec t) = b.completed t)

/-- every strategy of the list in order, idling when completed -/
def idleFold (L : List (Alg S)) (s : S) : S := L.foldl (fun s a => idle a s) s

theorem idleFold_cons (b : Alg S) (l : List (Alg S)) (t : S) : idleFold (b :: l) t = idleFold l (idle b t) := rfl

theorem idleFold_completed_of_indep (x : Alg S) (L : List (Alg S))
    (h : ∀ b ∈ L, ∀ t, x.completed (b.exec t) = x.completed t) : ∀ t, x.completed (idleFold L t) = x.completed t := by
  induction L with
  | nil => intro t; rfl
  | cons b l ih =>
    intro t
    rw [idleFold_cons, ih (fun c hc => h c (by simp [hc]))]
    unfold idle
    split
    · rfl
    · exact h b (by simp) t

/-- (ii) a completed strategy stays completed through a round of idling strategies -/
theorem idleFold_stays (L : List (Alg S)) (hp : L.Pairwise Indep) :
    ∀ t, ∀ a ∈ L, a.completed t = true → a.completed (idleFold L t) = true := by
  induction L with
  | nil => intro t a ha; simp at ha
  | cons b l ih =>
    obtain ⟨hb, hl⟩ := List.pairwise_cons.mp hp
    intro t a ha hc
    rw [idleFold_cons]
    rcases List.mem_cons.mp ha with rfl | ha
    · have : idle a t = t := by unfold idle; rw [if_pos hc]
      rw [this, idleFold_completed_of_indep a l (fun c hc' => (hb c hc').1)]; exact hc
    · apply ih hl _ a ha
      unfold idle
      split
      · exact hc
      · rw [(hb a ha).2]; exact hc

/-- running the strategies that are not completed = running all of them with the completed ones idling -/
theorem runAll_filter_eq (L : List (Alg S)) (hp : L.Pairwise Indep) :
    ∀ t, runAll (L.filter (fun a => !a.completed t)) t = idleFold L t := by
  induction L with
  | nil => intro t; rfl
  | cons b l ih =>
    obtain ⟨hb, hl⟩ := List.pairwise_cons.mp hp
    intro t
    rw [idleFold_cons]
    by_cases hc : b.completed t = true
    · have e : idle b t = t := by unfold idle; rw [if_pos hc]
      rw [e, List.filter_cons_of_neg (by simp [hc])]
      exact ih hl t
    · have e : idle b t = b.exec t := by unfold idle; rw [if_neg hc]
      rw [e, List.filter_cons_of_pos (by simpa using hc)]
      have e2 : l.filter (fun a => !a.completed t) = l.filter (fun a => !a.completed (b.exec t)) :=
        List.filter_congr (fun c hc' => by rw [(hb c hc').2])
      rw [e2]
      show runAll (l.filter (fun a => !a.completed (b.exec t))) (b.exec t) = _
      exact ih hl (b.exec t)

/-- one turn of the loop on the shrunk list = one turn of the idling list; the list shrinks to the strategies that
    are not completed in the new state -/
theorem round_filter (book : S → S) (L : List (Alg S)) (hp : L.Pairwise Indep)
    (hbook : ∀ a ∈ L, ∀ t, a.completed (book t) = a.completed t) (s : S) :
    (Acord.round book (L.filter (fun a => !a.completed s)) s).2 = book (idleFold L s) ∧
    (Acord.round book (L.filter (fun a => !a.completed s)) s).1 =
      L.filter (fun a => !a.completed (book (idleFold L s))) := by
  have e := runAll_filter_eq L hp s
  refine ⟨by simp only [Acord.round, e], ?_⟩
  simp only [Acord.round, e, List.filter_filter]
  apply List.filter_congr
  intro a ha
  rw [hbook a ha]
  have := idleFold_stays L hp s a ha
  cases h1 : a.completed s <;> cases h2 : a.completed (idleFold L s) <;> simp_all

theorem roundO_idle (book : S → S) (L : List (Alg S)) (algsO : List (O → S → S)) (o : O)
    (hmap : algsO.map (fun a => a o) = L.map idle) (s : S) : roundO book algsO o s = book (idleFold L s) := by
  rw [roundO_eq]
  have : algsO.foldl (fun s a => a o s) s = (algsO.map (fun a => a o)).foldl (fun s f => f s) s := by
    rw [List.foldl_map]
  rw [this, hmap, List.foldl_map]; rfl

/-- **the bridge** (general form): for a list of strategies whose `completed()` flags are pairwise independent
    (`Indep`: only a strategy's own `execute()` changes its flag) and untouched by the bookkeeping, the do-while of
    `Acord2::execute` with its erase-remove — started on the not yet completed strategies — reaches exactly the
    states of the FIXED list in which a completed strategy idles; a finished run is `rounds` turns, the last of
    which met the stopping rule (compare `C06S.loop_is_rounds`, for lists that never complete) -/
theorem loop_filter_is_rounds (measure : S → Nat) (book : S → S) (L : List (Alg S)) (hp : L.Pairwise Indep)
    (hbook : ∀ a ∈ L, ∀ t, a.completed (book t) = a.completed t) (algsO : List (O → S → S)) (o : O)
    (hmap : algsO.map (fun a => a o) = L.map idle) :
    ∀ (fuel : Nat) (s : S), (loop measure book fuel (L.filter (fun a => !a.completed s)) s).finished = true →
      ∃ n, (loop measure book fuel (L.filter (fun a => !a.completed s)) s).state = roundsO book algsO o (n + 1) s ∧
        (loop measure book fuel (L.filter (fun a => !a.completed s)) s).rounds = n + 1 ∧
        Stops measure (roundsO book algsO o n s) (roundsO book algsO o (n + 1) s) := by
  intro fuel
  induction fuel with
  | zero => intro s h; simp [loop] at h
  | succ k ih =>
    intro s h
    obtain ⟨r2, r1⟩ := round_filter book L hp hbook s
    have eO : roundO book algsO o s = book (idleFold L s) := roundO_idle book L algsO o hmap s
    rcases loop_succ measure book k (L.filter (fun a => !a.completed s)) s with ⟨_, _, e⟩ | ⟨c, e⟩
    · rw [e] at h ⊢
      rw [r1, r2] at h ⊢
      simp only at h ⊢
      obtain ⟨n, h1, h2, h3⟩ := ih (book (idleFold L s)) h
      refine ⟨n + 1, ?_, ?_, ?_⟩
      · rw [h1]; show _ = roundsO book algsO o (n + 1) (roundO book algsO o s); rw [eO]
      · rw [h2]
      · show Stops measure (roundsO book algsO o n (roundO book algsO o s))
          (roundsO book algsO o (n + 1) (roundO book algsO o s))
        rw [eO]; exact h3
    · rw [e]
      refine ⟨0, ?_, rfl, ?_⟩
      · show _ = roundO book algsO o s
        rw [eO, r2]
      · show Stops measure s (roundO book algsO o s)
        rw [eO, ← r2]; exact c

end bridge

/-! ### the five modelled strategies -/

section machine
variable {ι : Type} [DecidableEq ι]

/-- the five modelled strategies in the constructor's order (azimuth, hdiff, zderived, vector, intersection), each
    reading its observations from `o`, each idling once its `completed_` flag is set (C06Sched Part 4) -/
noncomputable def strategies5 (fuel : Nat) (lt : ι → ι → Bool) (xN : ℝ) : List (ObsSet ι → G5 ι → G5 ι) :=
  [fun o => idle (azAlg fuel lt xN o.od), fun o => idle (hdAlg fuel o.od), fun o => idle (zdAlg o.od),
   fun o => idle (vecAlg fuel o.od), fun o => idle (aiAlg fuel lt o.keys o.extra xN o.cls)]

/-- the real list of Acord2's constructor for the modelled strategies (all five present) -/
noncomputable def algs5 (fuel : Nat) (lt : ι → ι → Bool) (xN : ℝ) (o : ObsSet ι) : List (Alg (G5 ι)) :=
  modelledAlgs fuel lt o.keys o.extra xN o.od o.cls true true true true true

theorem algs5_eq (fuel : Nat) (lt : ι → ι → Bool) (xN : ℝ) (o : ObsSet ι) :
    algs5 fuel lt xN o = [azAlg fuel lt xN o.od, hdAlg fuel o.od, zdAlg o.od, vecAlg fuel o.od,
      aiAlg fuel lt o.keys o.extra xN o.cls] := rfl

/-- the end-of-round bookkeeping of the modelled machine: `traverses.clear()` does not touch `AiPriv` -/
noncomputable def book5 (slope : Bool) : G5 ι → G5 ι := bookkeeping slope (Priv.clearTraverses id)

theorem book5_priv (slope : Bool) (g : G5 ι) : (book5 slope g).priv = g.priv := rfl

/-- what `execute()` of each wrapper leaves alone in the private part -/
theorem hdAlg_exec_priv (fuel : Nat) (od : List (Cluster ι ℝ)) (g : G5 ι) :
    ((hdAlg fuel od).exec g).priv.az = g.priv.az ∧ ((hdAlg fuel od).exec g).priv.vec = g.priv.vec ∧
    ((hdAlg fuel od).exec g).priv.zd = g.priv.zd ∧ ((hdAlg fuel od).exec g).priv.rest = g.priv.rest := by
  rcases hdAlg_exec (Q := AiPriv ℝ) fuel od g with ⟨_, e⟩ | ⟨a, s, _, e⟩ <;> rw [e] <;> exact ⟨rfl, rfl, rfl, rfl⟩

theorem vecAlg_exec_priv (fuel : Nat) (od : List (Cluster ι ℝ)) (g : G5 ι) :
    ((vecAlg fuel od).exec g).priv.az = g.priv.az ∧ ((vecAlg fuel od).exec g).priv.hd = g.priv.hd ∧
    ((vecAlg fuel od).exec g).priv.zd = g.priv.zd ∧ ((vecAlg fuel od).exec g).priv.rest = g.priv.rest := by
  rcases vecAlg_exec (Q := AiPriv ℝ) fuel od g with ⟨_, e⟩ | ⟨a, s, _, e⟩ <;> rw [e] <;> exact ⟨rfl, rfl, rfl, rfl⟩

/-- (i) the `completed_` flags of the five strategy objects are pairwise independent: the private components are
    disjoint -/
theorem algs5_pairwise (fuel : Nat) (lt : ι → ι → Bool) (xN : ℝ) (o : ObsSet ι) :
    (algs5 fuel lt xN o).Pairwise Indep := by
  rw [algs5_eq]
  have hd := hdAlg_exec_priv fuel o.od
  have vc := vecAlg_exec_priv fuel o.od
  simp only [List.pairwise_cons, List.mem_cons, List.not_mem_nil, or_false, forall_eq_or_imp, forall_eq,
    IsEmpty.forall_iff, implies_true, List.Pairwise.nil, and_true]
  refine ⟨⟨⟨?_, ?_⟩, ⟨?_, ?_⟩, ⟨?_, ?_⟩, ⟨?_, ?_⟩⟩, ⟨⟨?_, ?_⟩, ⟨?_, ?_⟩, ⟨?_, ?_⟩⟩, ⟨⟨?_, ?_⟩, ⟨?_, ?_⟩⟩, ⟨?_, ?_⟩⟩
  all_goals intro t
  all_goals first
    | rfl
    | exact congrArg AzAlg.completed (hd t).1
    | exact congrArg VecAlg.completed (hd t).2.1
    | exact congrArg ZdAlg.completed (hd t).2.2.1
    | exact congrArg (fun r : AiPriv ℝ => r.alg.completed) (hd t).2.2.2
    | exact congrArg AzAlg.completed (vc t).1
    | exact congrArg HdAlg.completed (vc t).2.1
    | exact congrArg ZdAlg.completed (vc t).2.2.1
    | exact congrArg (fun r : AiPriv ℝ => r.alg.completed) (vc t).2.2.2

theorem algs5_book (slope : Bool) (fuel : Nat) (lt : ι → ι → Bool) (xN : ℝ) (o : ObsSet ι) :
    ∀ a ∈ algs5 fuel lt xN o, ∀ t, a.completed (book5 slope t) = a.completed t := by
  rw [algs5_eq]
  intro a ha t
  simp only [List.mem_cons, List.not_mem_nil, or_false] at ha
  rcases ha with rfl | rfl | rfl | rfl | rfl <;> rfl

theorem strategies5_map (fuel : Nat) (lt : ι → ι → Bool) (xN : ℝ) (o : ObsSet ι) :
    (strategies5 fuel lt xN).map (fun a => a o) = (algs5 fuel lt xN o).map idle := rfl

/-- all five strategy objects fresh enough: no `completed_` flag set -/
def NoneCompleted (g : G5 ι) : Prop :=
  g.priv.az.completed = false ∧ g.priv.hd.completed = false ∧ g.priv.zd.completed = false ∧
  g.priv.vec.completed = false ∧ g.priv.rest.alg.completed = false

theorem algs5_filter (fuel : Nat) (lt : ι → ι → Bool) (xN : ℝ) (o : ObsSet ι) (g : G5 ι) (h : NoneCompleted g) :
    (algs5 fuel lt xN o).filter (fun a => !a.completed g) = algs5 fuel lt xN o := by
  apply List.filter_eq_self.mpr
  rw [algs5_eq]
  intro a ha
  simp only [List.mem_cons, List.not_mem_nil, or_false] at ha
  obtain ⟨h1, h2, h3, h4, h5⟩ := h
  rcases ha with rfl | rfl | rfl | rfl | rfl
  · show (!g.priv.az.completed) = true; rw [h1]; rfl
  · show (!g.priv.hd.completed) = true; rw [h2]; rfl
  · show (!g.priv.zd.completed) = true; rw [h3]; rfl
  · show (!g.priv.vec.completed) = true; rw [h4]; rfl
  · show (!g.priv.rest.alg.completed) = true; rw [h5]; rfl

/-- **the bridge** for the modelled list: a finished run of the do-while of `Acord2::execute` on the constructor's
    list `modelledAlgs … true true true true true` (with its erase-remove of completed strategies) is `rounds` turns
    of the fixed list `strategies5` of idling strategies, the last of which met the stopping rule -/
theorem modelled_loop_is_rounds (slope : Bool) (fuel : Nat) (lt : ι → ι → Bool) (xN : ℝ) (o : ObsSet ι) (fuelL : Nat)
    (g : G5 ι) (hg : NoneCompleted g)
    (hf : (loop Acord.measure (book5 slope) fuelL (algs5 fuel lt xN o) g).finished = true) :
    ∃ n, (loop Acord.measure (book5 slope) fuelL (algs5 fuel lt xN o) g).state =
          roundsO (book5 slope) (strategies5 fuel lt xN) o (n + 1) g ∧
      (loop Acord.measure (book5 slope) fuelL (algs5 fuel lt xN o) g).rounds = n + 1 ∧
      Stops Acord.measure (roundsO (book5 slope) (strategies5 fuel lt xN) o n g)
        (roundsO (book5 slope) (strategies5 fuel lt xN) o (n + 1) g) := by
  have key := loop_filter_is_rounds Acord.measure (book5 slope) (algs5 fuel lt xN o) (algs5_pairwise fuel lt xN o)
    (algs5_book slope fuel lt xN o) (strategies5 fuel lt xN) o (strategies5_map fuel lt xN o) fuelL g
  rw [algs5_filter fuel lt xN o g hg] at key
  exact key hf

/-- … and for `execute` itself (`before = …; if (before > 0) { do … while … }`) -/
theorem modelled_execute_is_rounds (slope : Bool) (fuel : Nat) (lt : ι → ι → Bool) (xN : ℝ) (o : ObsSet ι) (fuelL : Nat)
    (g : G5 ι) (hg : NoneCompleted g)
    (hf : (execute slope (Priv.clearTraverses id) fuelL (algs5 fuel lt xN o) g).finished = true) :
    ((execute slope (Priv.clearTraverses id) fuelL (algs5 fuel lt xN o) g).state = g ∧
      (execute slope (Priv.clearTraverses id) fuelL (algs5 fuel lt xN o) g).rounds = 0 ∧ Acord.measure g = 0) ∨
    ∃ n, (execute slope (Priv.clearTraverses id) fuelL (algs5 fuel lt xN o) g).state =
          roundsO (book5 slope) (strategies5 fuel lt xN) o (n + 1) g ∧
      (execute slope (Priv.clearTraverses id) fuelL (algs5 fuel lt xN o) g).rounds = n + 1 ∧
      Stops Acord.measure (roundsO (book5 slope) (strategies5 fuel lt xN) o n g)
        (roundsO (book5 slope) (strategies5 fuel lt xN) o (n + 1) g) := by
  unfold execute executeG at hf ⊢
  by_cases h0 : 0 < Acord.measure g
  · simp only [if_pos h0] at hf ⊢
    exact Or.inr (modelled_loop_is_rounds slope fuel lt xN o fuelL g hg hf)
  · rw [if_neg h0]
    exact Or.inl ⟨rfl, rfl, by omega⟩

end machine

/-! ## Part 2: the soundness instance -/

section sound
variable {ι : Type} [DecidableEq ι]

/-- the soundness invariant of the modelled machine; `IRai` = AcordIntersection's own invariant (true orientations,
    positive small-angle limit) -/
abbrev Sound5 (T : Truth ι) (xN : ℝ) (IRai : AiPriv ℝ → Prop) : G5 ι → Prop := SoundInv T xN IRai

theorem idle_inv {S : Type} (Inv : S → Prop) (a : Alg S) (h : ∀ s, Inv s → Inv (a.exec s)) (s : S) (hs : Inv s) :
    Inv (idle a s) := by
  unfold idle; split
  · exact hs
  · exact h s hs

/-- `sound` of `MonoMachine`: every strategy of `strategies5` keeps `Sound5` on exact observations; AcordIntersection's
    step is the hypothesis `haiSound` -/
theorem strategies5_sound {lt : ι → ι → Bool} (htri : Tri lt) (T : Truth ι) (xN : ℝ) (IRai : AiPriv ℝ → Prop)
    (n : Nat) (o : ObsSet ι) (hex : ExactObs T xN o.od)
    (haiSound : ∀ g, Sound5 T xN IRai g → Sound5 T xN IRai ((aiAlg (n + 1) lt o.keys o.extra xN o.cls).exec g)) :
    ∀ a ∈ strategies5 (n + 1) lt xN, ∀ g, Sound5 T xN IRai g → Sound5 T xN IRai (a o g) := by
  intro a ha g hg
  simp only [strategies5, List.mem_cons, List.not_mem_nil, or_false] at ha
  rcases ha with rfl | rfl | rfl | rfl | rfl
  · exact idle_inv _ _ (fun s hs => azAlg_soundInv htri T xN o.od n hex.az hex.dist IRai s hs) g hg
  · exact idle_inv _ _ (fun s hs => hdAlg_soundInv T xN (n + 1) o.od hex.hdiff IRai s hs) g hg
  · exact idle_inv _ _ (fun s hs => zdAlg_soundInv T xN o.od hex.zd IRai s hs) g hg
  · exact idle_inv _ _ (fun s hs => vecAlg_soundInv T xN (n + 1) o.od hex.vec IRai s hs) g hg
  · exact idle_inv _ _ haiSound g hg

/-- `soundBook` of `MonoMachine` -/
theorem book5_sound (T : Truth ι) (xN : ℝ) (IRai : AiPriv ℝ → Prop) (slope : Bool) (g : G5 ι)
    (h : Sound5 T xN IRai g) : Sound5 T xN IRai (book5 slope g) :=
  bookkeeping_soundInv T xN IRai slope id (fun _ h => h) g h

end sound

/-! ## Part 3: the simulation relation and the step monotonicities -/

/-- monotonicity of one step in the pair (observation set, state): the two runs are related before, sound before
    ⇒ related after -/
def StepMono {S : Type} (Sound : S → Prop) (KL : S → S → Prop) (a a' : S → S) : Prop :=
  ∀ s s', Sound s → Sound s' → KL s s' → KL (a s) (a' s')

section stepok
variable {ι : Type} [DecidableEq ι]

theorem mem_erase_iff (l : List ι) (i j : ι) : j ∈ erase l i ↔ j ∈ l ∧ j ≠ i := by
  unfold Acord.erase; simp [List.mem_filter]

/-- what every write of a modelled strategy / of the bookkeeping does to the shared state of ONE run: flags and
    `missing` sets monotone, a point leaves a `missing` set only when its coordinates are set, points of the
    `missing` sets have no coordinates, `candidate_z_` untouched -/
structure StepOK (s s1 : St ι ℝ) : Prop where
  flags : StFlags s s1
  exy : ∀ i ∈ s.missXY, i ∉ s1.missXY → (s1.pd i).bxy = true
  ez : ∀ i ∈ s.missZ, i ∉ s1.missZ → (s1.pd i).bz = true
  muxy : MissUnkXY s → MissUnkXY s1
  muz : MissUnkZ s → MissUnkZ s1
  cand : s1.candZ = s.candZ

theorem StepOK.refl (s : St ι ℝ) : StepOK s s :=
  ⟨StFlags.refl s, fun i hi hn => absurd hi hn, fun i hi hn => absurd hi hn, id, id, rfl⟩

theorem StepOK.trans {a b c : St ι ℝ} (h1 : StepOK a b) (h2 : StepOK b c) : StepOK a c := by
  refine ⟨h1.flags.trans h2.flags, fun i hi hn => ?_, fun i hi hn => ?_, fun h => h2.muxy (h1.muxy h),
    fun h => h2.muz (h1.muz h), h2.cand.trans h1.cand⟩
  · by_cases hb : i ∈ b.missXY
    · exact h2.exy i hb hn
    · exact h2.flags.fxy i (h1.exy i hi hb)
  · by_cases hb : i ∈ b.missZ
    · exact h2.ez i hb hn
    · exact h2.flags.fz i (h1.ez i hi hb)

theorem wrXY_stepOK (s : St ι ℝ) (pt : ι) (a b : ℝ) : StepOK s (wrXY s pt a b) := by
  refine ⟨wrXY_flags s pt a b, fun i hi hn => ?_, fun i hi hn => absurd hi hn, wrXY_missUnk s pt a b,
    wrXY_missUnkZ s pt a b, rfl⟩
  have : i = pt := by
    by_contra hne
    exact hn ((mem_erase_iff _ _ _).mpr ⟨hi, hne⟩)
  subst this
  simp [wrXY, upd_same, LP.setXY]

theorem wrZ_stepOK (s : St ι ℝ) (pt : ι) (v : ℝ) : StepOK s (wrZ s pt v) := by
  refine ⟨wrZ_flags s pt v, fun i hi hn => absurd hi hn, fun i hi hn => ?_, wrZ_missUnkXY s pt v,
    wrZ_missUnk s pt v, rfl⟩
  have : i = pt := by
    by_contra hne
    exact hn ((mem_erase_iff _ _ _).mpr ⟨hi, hne⟩)
  subst this
  simp [wrZ, upd_same, LP.setZ]

theorem StepOK.foldl {β : Type} (f : St ι ℝ → β → St ι ℝ) (l : List β) (h : ∀ s b, StepOK s (f s b)) (s : St ι ℝ) :
    StepOK s (l.foldl f s) :=
  (foldl_rel (fun _ : St ι ℝ => True) StepOK StepOK.refl (fun _ _ _ h1 h2 => h1.trans h2) f l
    (fun s b _ _ => ⟨trivial, h s b⟩) s trivial).2

theorem azExecute_stepOK (fuel : Nat) (lt : ι → ι → Bool) (xN : ℝ) (od : List (Cluster ι ℝ)) (alg : AzAlg ι ℝ)
    (st : St ι ℝ) : StepOK st (azExecute fuel lt xN od alg st).2 := by
  show StepOK st (List.foldl (azStep xN) st _)
  apply StepOK.foldl
  intro s e
  rcases azStep_eq_wr xN s e with h | ⟨i, a, b, h⟩
  · rw [h]; exact StepOK.refl _
  · rw [h]; exact wrXY_stepOK _ _ _ _

theorem hdCopyStep_stepOK (lpd : PD ι ℝ) (s : St ι ℝ) (i : ι) : StepOK s (hdCopyStep lpd s i) := by
  rw [hdCopyStep_eq]; split
  · exact wrZ_stepOK _ _ _
  · exact StepOK.refl _

theorem vecCopyStep_stepOK (lpd : PD ι ℝ) (s : St ι ℝ) (i : ι) : StepOK s (vecCopyStep lpd s i) := by
  unfold vecCopyStep
  refine StepOK.trans ?_ (hdCopyStep_stepOK lpd _ i)
  rw [vecCopyXY_eq]; split
  · exact wrXY_stepOK _ _ _ _
  · exact StepOK.refl _

theorem hdCopyBack_stepOK (keys : List ι) (lpd : PD ι ℝ) (s : St ι ℝ) : StepOK s (hdCopyBack keys lpd s) :=
  StepOK.foldl _ _ (fun s i => hdCopyStep_stepOK lpd s i) s

theorem vecCopyBack_stepOK (keys : List ι) (lpd : PD ι ℝ) (s : St ι ℝ) : StepOK s (vecCopyBack keys lpd s) :=
  StepOK.foldl _ _ (fun s i => vecCopyStep_stepOK lpd s i) s

theorem getMediansZ_stepOK (st : St ι ℝ) : StepOK st (getMediansZ st) := by
  unfold getMediansZ
  apply StepOK.foldl
  intro s i; rw [medZStep_eq]; exact wrZ_stepOK _ _ _

/-- the ids AcordZderived can ever propose a height candidate for (stations and zenith-angle targets of `o`) -/
def ZId (o : ObsSet ι) (i : ι) : Prop := ∃ (pd : PD ι ℝ) (c : ι × ℝ), c ∈ zdAll pd o.od ∧ c.1 = i

/-- the shared point lists and `missing` sets of the two runs (`s` on `o`, `s'` on the larger `o'`) -/
structure StRel (o : ObsSet ι) (s s' : St ι ℝ) : Prop where
  /-- what is known from `o` is known from `o'` -/
  kxy : ∀ i, (s.pd i).bxy = true → (s'.pd i).bxy = true
  kz : ∀ i, (s.pd i).bz = true → (s'.pd i).bz = true
  /-- a point missing in the small run is missing or known in the large run -/
  mxy : ∀ i ∈ s.missXY, i ∈ s'.missXY ∨ (s'.pd i).bxy = true
  mz : ∀ i ∈ s.missZ, i ∈ s'.missZ ∨ (s'.pd i).bz = true
  /-- `missing' ⊆ missing` -/
  sxy : ∀ i ∈ s'.missXY, i ∈ s.missXY
  sz : ∀ i ∈ s'.missZ, i ∈ s.missZ
  /-- in the small run every point of the point list without xy is in `missing_xy_`, every point AcordZderived can
      propose a height for and that has none is in `missing_z_` (the strategies compute such points whether or not
      they are "missing", but AcordZderived / AcordIntersection stop when the `missing` set is empty) -/
  uxy : ∀ i ∈ o.keys, (s.pd i).bxy = false → i ∈ s.missXY
  uz : ∀ i, ZId o i → (s.pd i).bz = false → i ∈ s.missZ
  /-- points in `missing` have no coordinates (both runs) -/
  muxy : MissUnkXY s
  muz : MissUnkZ s
  muxy' : MissUnkXY s'
  muz' : MissUnkZ s'

theorem StRel.step {o : ObsSet ι} {s s' s1 s1' : St ι ℝ} (h : StRel o s s') (k : StepOK s s1) (k' : StepOK s' s1')
    (kxy1 : ∀ i, (s1.pd i).bxy = true → (s1'.pd i).bxy = true)
    (kz1 : ∀ i, (s1.pd i).bz = true → (s1'.pd i).bz = true) : StRel o s1 s1' := by
  have m1 := k.muxy h.muxy
  have m2 := k.muz h.muz
  have m1' := k'.muxy h.muxy'
  have m2' := k'.muz h.muz'
  refine ⟨kxy1, kz1, fun i hi => ?_, fun i hi => ?_, fun i hi => ?_, fun i hi => ?_, fun i hi hb => ?_,
    fun i hi hb => ?_, m1, m2, m1', m2'⟩
  · rcases h.mxy i (k.flags.mxy i hi) with h1 | h1
    · by_cases h2 : i ∈ s1'.missXY
      · exact Or.inl h2
      · exact Or.inr (k'.exy i h1 h2)
    · exact Or.inr (k'.flags.fxy i h1)
  · rcases h.mz i (k.flags.mz i hi) with h1 | h1
    · by_cases h2 : i ∈ s1'.missZ
      · exact Or.inl h2
      · exact Or.inr (k'.ez i h1 h2)
    · exact Or.inr (k'.flags.fz i h1)
  · by_contra hn
    have := kxy1 i (k.exy i (h.sxy i (k'.flags.mxy i hi)) hn)
    rw [m1' i hi] at this; exact absurd this (by simp)
  · by_contra hn
    have := kz1 i (k.ez i (h.sz i (k'.flags.mz i hi)) hn)
    rw [m2' i hi] at this; exact absurd this (by simp)
  · have hb0 : (s.pd i).bxy = false := by
      cases hc : (s.pd i).bxy
      · rfl
      · rw [k.flags.fxy i hc] at hb; exact absurd hb (by simp)
    by_contra hn
    have := k.exy i (h.uxy i hi hb0) hn
    rw [hb] at this; exact absurd this (by simp)
  · have hb0 : (s.pd i).bz = false := by
      cases hc : (s.pd i).bz
      · rfl
      · rw [k.flags.fz i hc] at hb; exact absurd hb (by simp)
    by_contra hn
    have := k.ez i (h.uz i hi hb0) hn
    rw [hb] at this; exact absurd this (by simp)

end stepok

/-! ### AcordHdiff: one run -/

section hdiff
variable {ι : Type} [DecidableEq ι]

theorem mem_dedup_of_mem (l : List ι) (i : ι) (h : i ∈ l) : i ∈ dedup l := by
  induction l with
  | nil => simp at h
  | cons a as ih =>
    simp only [dedup, List.mem_cons, List.mem_filter]
    by_cases hia : i = a
    · exact Or.inl hia
    · rcases List.mem_cons.mp h with h | h
      · exact absurd h hia
      · exact Or.inr ⟨ih h, by simpa using hia⟩

theorem countP_lt {α : Type} (p q : α → Bool) (l : List α) (himp : ∀ x ∈ l, q x = true → p x = true)
    (hex : ∃ x ∈ l, p x = true ∧ q x = false) : l.countP q < l.countP p := by
  induction l with
  | nil => obtain ⟨x, hx, _⟩ := hex; simp at hx
  | cons a as ih =>
    have hle : as.countP q ≤ as.countP p :=
      List.countP_mono_left (fun x hx hq => himp x (by simp [hx]) hq)
    obtain ⟨x, hx, hp, hq⟩ := hex
    rcases List.mem_cons.mp hx with rfl | hx
    · rw [List.countP_cons_of_pos hp, List.countP_cons_of_neg (by simp [hq])]; omega
    · have := ih (fun y hy => himp y (by simp [hy])) ⟨x, hx, hp, hq⟩
      by_cases hqa : q a = true
      · rw [List.countP_cons_of_pos hqa, List.countP_cons_of_pos (himp a (by simp) hqa)]; omega
      · by_cases hpa : p a = true
        · rw [List.countP_cons_of_neg hqa, List.countP_cons_of_pos hpa]; omega
        · rw [List.countP_cons_of_neg hqa, List.countP_cons_of_neg hpa]; exact this

/-- a pass that reports no success changed nothing: every entry has both heights or none (in the local copy) -/
theorem hdPassStep_false (ls : PD ι ℝ × Bool) (h : Hd ι ℝ) (hf : (hdPassStep ls h).2 = false) :
    hdPassStep ls h = ls ∧ (ls.1 h.f).bz = (ls.1 h.t).bz := by
  unfold hdPassStep at hf ⊢
  simp only at hf ⊢
  cases h1 : (ls.1 h.f).bz <;> cases h2 : (ls.1 h.t).bz <;> simp_all

theorem hdPass_false : ∀ (hds : List (Hd ι ℝ)) (ls : PD ι ℝ × Bool), (hds.foldl hdPassStep ls).2 = false →
    hds.foldl hdPassStep ls = ls ∧ ∀ h ∈ hds, (ls.1 h.f).bz = (ls.1 h.t).bz := by
  intro hds
  induction hds with
  | nil => intro ls _; exact ⟨rfl, fun h hh => by simp at hh⟩
  | cons h t ih =>
    intro ls hf
    simp only [List.foldl_cons] at hf ⊢
    obtain ⟨e, c⟩ := ih (hdPassStep ls h) hf
    obtain ⟨e1, c1⟩ := hdPassStep_false ls h (by rw [← e]; exact hf)
    rw [e1] at e c ⊢
    refine ⟨e, fun h' hh' => ?_⟩
    rcases List.mem_cons.mp hh' with rfl | hh'
    · exact c1
    · exact c h' hh'

theorem hdPass_keep : ∀ (hds : List (Hd ι ℝ)) (ls : PD ι ℝ × Bool),
    KeepZ ls.1 (hds.foldl hdPassStep ls).1 ∧ SameXY ls.1 (hds.foldl hdPassStep ls).1 := by
  intro hds
  induction hds with
  | nil => intro ls; exact ⟨KeepZ.refl _, SameXY.refl _⟩
  | cons h t ih =>
    intro ls
    simp only [List.foldl_cons]
    obtain ⟨a, b⟩ := hdPassStep_mono ls h
    obtain ⟨c, d⟩ := ih (hdPassStep ls h)
    exact ⟨a.trans c, b.trans d⟩

theorem hdRemoveKnown_idem (pd : PD ι ℝ) (hds : List (Hd ι ℝ)) :
    hdRemoveKnown pd (hdRemoveKnown pd hds) = hdRemoveKnown pd hds := by
  unfold hdRemoveKnown; rw [List.filter_filter]; simp

theorem mem_hdRemoveKnown (pd : PD ι ℝ) (hds : List (Hd ι ℝ)) (h : Hd ι ℝ) :
    h ∈ hdRemoveKnown pd hds ↔ h ∈ hds ∧ ¬ ((pd h.f).bz = true ∧ (pd h.t).bz = true) := by
  unfold hdRemoveKnown; rw [List.mem_filter]
  cases h1 : (pd h.f).bz <;> cases h2 : (pd h.t).bz <;> simp

/-- the loop: local flags only grow, xy untouched, the list that is left is the input without the entries between
    heights known in `PD_` -/
theorem hdLoop_keep (pd : PD ι ℝ) : ∀ (fuel : Nat) (hds : List (Hd ι ℝ)) (lpd : PD ι ℝ) (r : List (Hd ι ℝ) × PD ι ℝ),
    hdLoop pd fuel hds lpd = some r → KeepZ lpd r.2 ∧ SameXY lpd r.2 ∧ r.1 = hdRemoveKnown pd hds := by
  intro fuel
  induction fuel with
  | zero => intro hds lpd r h; simp [hdLoop] at h
  | succ n ih =>
    intro hds lpd r h
    unfold hdLoop at h
    simp only at h
    obtain ⟨k1, k2⟩ := hdPass_keep hds (lpd, false)
    split at h
    · obtain ⟨a, b, c⟩ := ih _ _ r h
      exact ⟨k1.trans a, k2.trans b, by rw [c, hdRemoveKnown_idem]⟩
    · cases h
      exact ⟨k1, k2, rfl⟩

/-- the loop ends with a local copy that is CLOSED under every entry of the list: both heights or none -/
theorem hdLoop_closed (pd : PD ι ℝ) : ∀ (fuel : Nat) (hds : List (Hd ι ℝ)) (lpd : PD ι ℝ) (r : List (Hd ι ℝ) × PD ι ℝ),
    (∀ h ∈ hds, (pd h.f).bz = true → (pd h.t).bz = true → (lpd h.f).bz = true ∧ (lpd h.t).bz = true) →
    hdLoop pd fuel hds lpd = some r → ∀ h ∈ hds, (r.2 h.f).bz = (r.2 h.t).bz := by
  intro fuel
  induction fuel with
  | zero => intro hds lpd r _ h; simp [hdLoop] at h
  | succ n ih =>
    intro hds lpd r hk hloop h hh
    have hkeep := (hdLoop_keep pd (n + 1) hds lpd r hloop).1
    by_cases hb : (pd h.f).bz = true ∧ (pd h.t).bz = true
    · obtain ⟨a, b⟩ := hk h hh hb.1 hb.2
      rw [(hkeep h.f a).1, (hkeep h.t b).1]
    · have hmem : h ∈ hdRemoveKnown pd hds := (mem_hdRemoveKnown pd hds h).mpr ⟨hh, hb⟩
      unfold hdLoop at hloop
      simp only at hloop
      split at hloop
      · refine ih _ _ r (fun h' hh' a b => ?_) hloop h hmem
        exact absurd ⟨a, b⟩ ((mem_hdRemoveKnown pd hds h').mp hh').2
      · rename_i hc
        cases hloop
        have hne : (hdRemoveKnown pd hds).isEmpty = false := by
          cases hq : hdRemoveKnown pd hds with
          | nil => rw [hq] at hmem; simp at hmem
          | cons _ _ => rfl
        have hs : (hdPass hds lpd).2 = false := by
          cases hq : (hdPass hds lpd).2
          · rfl
          · rw [hq, hne] at hc; simp at hc
        obtain ⟨e, c⟩ := hdPass_false hds (lpd, false) hs
        show ((hdPass hds lpd).1 h.f).bz = ((hdPass hds lpd).1 h.t).bz
        unfold hdPass; rw [e]; exact c h hh

/-- every height a pass defines is a height of the target set `tg`, if `tg` is closed under the entries -/
theorem hdPassStep_target (tg : ι → Bool) (ls : PD ι ℝ × Bool) (h : Hd ι ℝ) (hg : tg h.f = tg h.t)
    (hl : ∀ i, (ls.1 i).bz = true → tg i = true) : ∀ i, ((hdPassStep ls h).1 i).bz = true → tg i = true := by
  unfold hdPassStep
  simp only
  split
  · exact hl
  · split
    · rename_i hne hf
      intro i hi
      by_cases hit : i = h.t
      · subst hit; rw [← hg]; exact hl _ hf
      · simp only [upd_other _ _ _ _ hit] at hi; exact hl i hi
    · rename_i hne hf
      have ht : (ls.1 h.t).bz = true := by
        cases h1 : (ls.1 h.f).bz <;> cases h2 : (ls.1 h.t).bz <;> simp_all
      intro i hi
      by_cases hif : i = h.f
      · subst hif; rw [hg]; exact hl _ ht
      · simp only [upd_other _ _ _ _ hif] at hi; exact hl i hi

theorem hdPass_target (tg : ι → Bool) : ∀ (hds : List (Hd ι ℝ)) (ls : PD ι ℝ × Bool),
    (∀ h ∈ hds, tg h.f = tg h.t) → (∀ i, (ls.1 i).bz = true → tg i = true) →
    ∀ i, ((hds.foldl hdPassStep ls).1 i).bz = true → tg i = true := by
  intro hds
  induction hds with
  | nil => intro ls _ hl; exact hl
  | cons h t ih =>
    intro ls hg hl
    simp only [List.foldl_cons]
    exact ih _ (fun h' hh' => hg h' (by simp [hh'])) (hdPassStep_target tg ls h (hg h (by simp)) hl)

theorem hdLoop_target (pd : PD ι ℝ) (tg : ι → Bool) : ∀ (fuel : Nat) (hds : List (Hd ι ℝ)) (lpd : PD ι ℝ)
    (r : List (Hd ι ℝ) × PD ι ℝ), (∀ h ∈ hds, tg h.f = tg h.t) → (∀ i, (lpd i).bz = true → tg i = true) →
    hdLoop pd fuel hds lpd = some r → ∀ i, (r.2 i).bz = true → tg i = true := by
  intro fuel
  induction fuel with
  | zero => intro hds lpd r _ _ h; simp [hdLoop] at h
  | succ n ih =>
    intro hds lpd r hg hl h
    unfold hdLoop at h
    simp only at h
    have hp := hdPass_target tg hds (lpd, false) hg hl
    split at h
    · exact ih _ _ r (fun h' hh' => hg h' ((mem_hdRemoveKnown pd hds h').mp hh').1) hp h
    · cases h; exact hp

/-- a successful pass defines the height of at least one more point of `keys` -/
theorem hdPassStep_new (keys : List ι) (ls : PD ι ℝ × Bool) (h : Hd ι ℝ) (hk : h.f ∈ keys ∧ h.t ∈ keys)
    (hs : (hdPassStep ls h).2 = true) :
    ls.2 = true ∨ ∃ i ∈ keys, (ls.1 i).bz = false ∧ ((hdPassStep ls h).1 i).bz = true := by
  by_cases hb : (ls.1 h.f).bz = (ls.1 h.t).bz
  · left; simpa [hdPassStep, hb] using hs
  · right
    by_cases hbf : (ls.1 h.f).bz = true
    · have ht : (ls.1 h.t).bz = false := by
        cases h2 : (ls.1 h.t).bz
        · rfl
        · rw [hbf, h2] at hb; exact absurd rfl hb
      refine ⟨h.t, hk.2, ht, ?_⟩
      simp [hdPassStep, hbf, ht, upd_same, LP.setZ]
    · have hf : (ls.1 h.f).bz = false := by simpa using hbf
      have ht : (ls.1 h.t).bz = true := by
        cases h2 : (ls.1 h.t).bz
        · rw [hf, h2] at hb; exact absurd rfl hb
        · rfl
      refine ⟨h.f, hk.1, hf, ?_⟩
      simp [hdPassStep, hf, ht, upd_same, LP.setZ]

theorem hdPass_new (keys : List ι) : ∀ (hds : List (Hd ι ℝ)) (ls : PD ι ℝ × Bool),
    (∀ h ∈ hds, h.f ∈ keys ∧ h.t ∈ keys) → (hds.foldl hdPassStep ls).2 = true →
    ls.2 = true ∨ ∃ i ∈ keys, (ls.1 i).bz = false ∧ ((hds.foldl hdPassStep ls).1 i).bz = true := by
  intro hds
  induction hds with
  | nil => intro ls _ h; exact Or.inl h
  | cons h t ih =>
    intro ls hk hs
    simp only [List.foldl_cons] at hs ⊢
    rcases ih (hdPassStep ls h) (fun h' hh' => hk h' (by simp [hh'])) hs with h1 | ⟨i, hi, h1, h2⟩
    · rcases hdPassStep_new keys ls h (hk h (by simp)) h1 with h3 | ⟨i, hi, h3, h4⟩
      · exact Or.inl h3
      · exact Or.inr ⟨i, hi, h3, ((hdPass_keep t (hdPassStep ls h)).1 i h4).1⟩
    · refine Or.inr ⟨i, hi, ?_, h2⟩
      cases hc : (ls.1 i).bz
      · rfl
      · rw [((hdPassStep_mono ls h).1 i hc).1] at h1; exact absurd h1 (by simp)

/-- **termination of the inner do-while of AcordHdiff::execute**: every successful pass defines at least one more
    local height among `keys`, so `fuel > #keys without a local height` is never exhausted -/
theorem hdLoop_some (pd : PD ι ℝ) (keys : List ι) : ∀ (fuel : Nat) (hds : List (Hd ι ℝ)) (lpd : PD ι ℝ),
    (∀ h ∈ hds, h.f ∈ keys ∧ h.t ∈ keys) → keys.countP (fun i => !(lpd i).bz) < fuel →
    ∃ r, hdLoop pd fuel hds lpd = some r := by
  intro fuel
  induction fuel with
  | zero => intro hds lpd _ h; exact absurd h (Nat.not_lt_zero _)
  | succ n ih =>
    intro hds lpd hk hc
    unfold hdLoop
    simp only
    split
    · rename_i hcont
      have hs : (hdPass hds lpd).2 = true := by
        cases hq : (hdPass hds lpd).2
        · rw [hq] at hcont; simp at hcont
        · rfl
      apply ih _ _ (fun h' hh' => hk h' ((mem_hdRemoveKnown pd hds h').mp hh').1)
      rcases hdPass_new keys hds (lpd, false) hk hs with h1 | ⟨i, hi, h1, h2⟩
      · simp at h1
      · have := countP_lt (fun i => !(lpd i).bz) (fun i => !((hdPass hds lpd).1 i).bz) keys
          (fun x _ hx => by
            cases hc' : (lpd x).bz
            · rfl
            · have := ((hdPass_keep hds (lpd, false)).1 x hc').1
              unfold hdPass at hx; rw [this] at hx; simp at hx)
          ⟨i, hi, by simpa using h1, by simp only [hdPass]; simpa using h2⟩
        omega
    · exact ⟨_, rfl⟩

/-- the algorithm object `execute` works on: `if (!prepared_) prepare();` -/
noncomputable def hdEff (od : List (Cluster ι ℝ)) (alg : HdAlg ι ℝ) (st : St ι ℝ) : HdAlg ι ℝ :=
  if alg.prepared then alg else hdPrepare st.pd od

/-- the key set of AcordHdiff's local copy: every end point of a height difference -/
def hdKeys (od : List (Cluster ι ℝ)) : List ι := dedup ((hdAll od).foldr (fun h l => h.f :: h.t :: l) [])

theorem hdPrepare_keys (pd : PD ι ℝ) (od : List (Cluster ι ℝ)) : (hdPrepare pd od).keys = hdKeys od := rfl

theorem hdEnds_mem (l : List (Hd ι ℝ)) (h : Hd ι ℝ) (hh : h ∈ l) :
    h.f ∈ l.foldr (fun h l => h.f :: h.t :: l) [] ∧ h.t ∈ l.foldr (fun h l => h.f :: h.t :: l) [] := by
  induction l with
  | nil => simp at hh
  | cons a as ih =>
    simp only [List.foldr_cons, List.mem_cons]
    rcases List.mem_cons.mp hh with rfl | hh
    · exact ⟨Or.inl rfl, Or.inr (Or.inl rfl)⟩
    · exact ⟨Or.inr (Or.inr (ih hh).1), Or.inr (Or.inr (ih hh).2)⟩

theorem hdPrepare_ends (pd : PD ι ℝ) (od : List (Cluster ι ℝ)) :
    ∀ h ∈ (hdPrepare pd od).hds, h.f ∈ (hdPrepare pd od).keys ∧ h.t ∈ (hdPrepare pd od).keys := by
  intro h hh
  have hm : h ∈ hdAll od := ((mem_hdRemoveKnown pd _ h).mp hh).1
  exact ⟨mem_dedup_of_mem _ _ (hdEnds_mem _ h hm).1, mem_dedup_of_mem _ _ (hdEnds_mem _ h hm).2⟩

/-- what a call of AcordHdiff::execute that returns is made of -/
theorem hdExecute_some (fuel : Nat) (od : List (Cluster ι ℝ)) (alg alg' : HdAlg ι ℝ) (st st' : St ι ℝ)
    (hex : hdExecute fuel od alg st = some (alg', st')) :
    ∃ l1, hdLoop st.pd fuel (hdEff od alg st).hds (hdRefresh st.pd (hdEff od alg st).keys (hdEff od alg st).lpd) =
        some (hdRemoveKnown st.pd (hdEff od alg st).hds, l1) ∧
      alg' = ⟨true, (hdEff od alg st).completed || (hdRemoveKnown st.pd (hdEff od alg st).hds).isEmpty,
        hdRemoveKnown st.pd (hdEff od alg st).hds, (hdEff od alg st).keys, l1⟩ ∧
      st' = hdCopyBack (hdEff od alg st).keys l1 st := by
  unfold hdEff
  unfold hdExecute at hex
  simp only at hex
  split at hex
  · cases hex
  · rename_i hds lpd hloop
    cases hex
    have e := (hdLoop_keep st.pd fuel _ _ _ hloop).2.2
    simp only at e
    subst e
    exact ⟨lpd, hloop, rfl, rfl⟩

/-- the copy-back publishes exactly the local heights of the points of `keys` -/
theorem hdCopyBack_flags (lpd : PD ι ℝ) : ∀ (keys : List ι) (s : St ι ℝ),
    (∀ i, ((hdCopyBack keys lpd s).pd i).bxy = (s.pd i).bxy) ∧
    (∀ i, i ∈ keys → (lpd i).bz = true → ((hdCopyBack keys lpd s).pd i).bz = true) ∧
    (∀ i, ((hdCopyBack keys lpd s).pd i).bz = true → (s.pd i).bz = true ∨ (i ∈ keys ∧ (lpd i).bz = true)) := by
  intro keys
  induction keys with
  | nil => intro s; exact ⟨fun _ => rfl, fun i hi => by simp at hi, fun i hi => Or.inl hi⟩
  | cons k ks ih =>
    intro s
    obtain ⟨a, b, c⟩ := ih (hdCopyStep lpd s k)
    have hstep : (∀ i, ((hdCopyStep lpd s k).pd i).bxy = (s.pd i).bxy) ∧
        ((lpd k).bz = true → ((hdCopyStep lpd s k).pd k).bz = true) ∧
        (∀ i, ((hdCopyStep lpd s k).pd i).bz = true → (s.pd i).bz = true ∨ (i = k ∧ (lpd i).bz = true)) := by
      rw [hdCopyStep_eq]
      split
      · rename_i hb
        refine ⟨fun i => (wrZ_sameXY s k _ i).1, fun _ => by simp [wrZ, upd_same, LP.setZ], fun i hi => ?_⟩
        by_cases hik : i = k
        · subst hik; exact Or.inr ⟨rfl, hb⟩
        · simp only [wrZ, upd_other _ _ _ _ hik] at hi; exact Or.inl hi
      · rename_i hb
        exact ⟨fun _ => rfl, fun h => absurd h hb, fun i hi => Or.inl hi⟩
    have hfl := (hdCopyBack_stepOK ks lpd (hdCopyStep lpd s k)).flags
    show (∀ i, ((hdCopyBack ks lpd (hdCopyStep lpd s k)).pd i).bxy = (s.pd i).bxy) ∧ _ ∧ _
    refine ⟨fun i => (a i).trans (hstep.1 i), fun i hi hb => ?_, fun i hi => ?_⟩
    · rcases List.mem_cons.mp hi with rfl | hi
      · exact hfl.fz i (hstep.2.1 hb)
      · exact b i hi hb
    · rcases c i hi with h1 | ⟨h1, h2⟩
      · rcases hstep.2.2 i h1 with h3 | ⟨h3, h4⟩
        · exact Or.inl h3
        · exact Or.inr ⟨by simp [h3], h4⟩
      · exact Or.inr ⟨by simp [h1], h2⟩

theorem hdRefresh_flags (pd : PD ι ℝ) (keys : List ι) (lpd : PD ι ℝ) (i : ι) :
    ((hdRefresh pd keys lpd i).bz = true → (lpd i).bz = true ∨ (pd i).bz = true) ∧
    ((lpd i).bz = true → (hdRefresh pd keys lpd i).bz = true) ∧
    (i ∈ keys → (pd i).bz = true → (hdRefresh pd keys lpd i).bz = true) := by
  unfold hdRefresh
  by_cases hk : i ∈ keys <;> cases h1 : (lpd i).bz <;> cases h2 : (pd i).bz <;> simp [hk, h1, h2, LP.setZ]

/-- **one call of AcordHdiff::execute, seen from the run on the larger observation set**: afterwards the point list is
    closed under every entry the object held at entry (both heights or none) -/
theorem hdExecute_facts (fuel : Nat) (od : List (Cluster ι ℝ)) (alg alg' : HdAlg ι ℝ) (st st' : St ι ℝ)
    (hex : hdExecute fuel od alg st = some (alg', st'))
    (hkeys : ∀ h ∈ (hdEff od alg st).hds, h.f ∈ (hdEff od alg st).keys ∧ h.t ∈ (hdEff od alg st).keys) :
    StepOK st st' ∧ (∀ i, (st'.pd i).bxy = (st.pd i).bxy) ∧
    (∀ h ∈ (hdEff od alg st).hds, (st'.pd h.f).bz = (st'.pd h.t).bz) ∧
    alg'.prepared = true ∧ alg'.keys = (hdEff od alg st).keys ∧
    alg'.hds = hdRemoveKnown st.pd (hdEff od alg st).hds ∧
    alg'.completed = ((hdEff od alg st).completed || alg'.hds.isEmpty) := by
  obtain ⟨l1, hloop, rfl, rfl⟩ := hdExecute_some fuel od alg alg' st st' hex
  refine ⟨hdCopyBack_stepOK _ _ _, (hdCopyBack_flags l1 _ st).1, ?_, rfl, rfl, rfl, rfl⟩
  obtain ⟨keep, _, _⟩ := hdLoop_keep st.pd fuel _ _ _ hloop
  have hclosed := hdLoop_closed st.pd fuel _ _ _ (fun h hh a b =>
    ⟨(hdRefresh_flags st.pd _ _ h.f).2.2 (hkeys h hh).1 a, (hdRefresh_flags st.pd _ _ h.t).2.2 (hkeys h hh).2 b⟩) hloop
  simp only at hclosed keep
  obtain ⟨_, pub, back⟩ := hdCopyBack_flags l1 (hdEff od alg st).keys st
  -- on `keys`: the height is in the point list afterwards iff it is in the local copy
  have hiff : ∀ i ∈ (hdEff od alg st).keys, ((hdCopyBack (hdEff od alg st).keys l1 st).pd i).bz = (l1 i).bz := by
    intro i hi
    cases hb : (l1 i).bz
    · cases hc : ((hdCopyBack (hdEff od alg st).keys l1 st).pd i).bz
      · rfl
      · rcases back i hc with h1 | ⟨_, h1⟩
        · have := (keep i ((hdRefresh_flags st.pd _ _ i).2.2 hi h1)).1
          rw [hb] at this; exact absurd this (by simp)
        · rw [hb] at h1; exact absurd h1 (by simp)
    · exact pub i hi hb
  intro h hh
  rw [hiff _ (hkeys h hh).1, hiff _ (hkeys h hh).2]
  exact hclosed h hh

/-- **one call of AcordHdiff::execute, seen from the run on the smaller observation set**: every height it knows
    afterwards (point list and local copy) lies in any set `tg` that contains the heights known before and is closed
    under the entries the object held at entry -/
theorem hdExecute_target (fuel : Nat) (od : List (Cluster ι ℝ)) (alg alg' : HdAlg ι ℝ) (st st' : St ι ℝ)
    (hex : hdExecute fuel od alg st = some (alg', st')) (tg : ι → Bool)
    (hpd : ∀ i, (st.pd i).bz = true → tg i = true)
    (hl : ∀ i, ((hdEff od alg st).lpd i).bz = true → tg i = true)
    (hg : ∀ h ∈ (hdEff od alg st).hds, tg h.f = tg h.t) :
    (∀ i, (st'.pd i).bz = true → tg i = true) ∧ (∀ i, (alg'.lpd i).bz = true → tg i = true) := by
  obtain ⟨l1, hloop, rfl, rfl⟩ := hdExecute_some fuel od alg alg' st st' hex
  have h1 := hdLoop_target st.pd tg fuel _ _ _ hg (fun i hi => by
    rcases (hdRefresh_flags st.pd _ _ i).1 hi with h | h
    · exact hl i h
    · exact hpd i h) hloop
  simp only at h1
  refine ⟨fun i hi => ?_, h1⟩
  rcases (hdCopyBack_flags l1 _ st).2.2 i hi with h | ⟨_, h⟩
  · exact hpd i h
  · exact h1 i h

/-- a call of AcordHdiff::execute returns when `fuel` exceeds the number of keys of the local copy -/
theorem hdExecute_terminates (fuel : Nat) (od : List (Cluster ι ℝ)) (alg : HdAlg ι ℝ) (st : St ι ℝ)
    (hkeys : ∀ h ∈ (hdEff od alg st).hds, h.f ∈ (hdEff od alg st).keys ∧ h.t ∈ (hdEff od alg st).keys)
    (hlen : (hdEff od alg st).keys.length < fuel) : ∃ r, hdExecute fuel od alg st = some r := by
  obtain ⟨r, hr⟩ := hdLoop_some st.pd (hdEff od alg st).keys fuel (hdEff od alg st).hds
    (hdRefresh st.pd (hdEff od alg st).keys (hdEff od alg st).lpd) hkeys
    (Nat.lt_of_le_of_lt List.countP_le_length hlen)
  obtain ⟨hds, l⟩ := r
  unfold hdEff at hr
  unfold hdExecute
  simp only
  rw [hr]
  exact ⟨_, rfl⟩

end hdiff

/-! ### the observation order and the simulation relation -/

section relations
variable {ι : Type} [DecidableEq ι]

/-- a cluster of the smaller set inside a cluster of the larger one: same class, same station, a sub-list of its
    observations (same relative order); `Vectors` clusters whole (their observations are read by a buffer automaton) -/
def ClusterLe : Cluster ι ℝ → Cluster ι ℝ → Prop
  | .standpoint s obs, .standpoint s' obs' => s = s' ∧ obs.Sublist obs'
  | .hdiffs obs, .hdiffs obs' => obs.Sublist obs'
  | .vectors obs, .vectors obs' => obs = obs'
  | _, _ => False

/-- `od` is obtained from `od'` by deleting whole clusters and observations inside clusters (orders kept) -/
def OdLe (od od' : List (Cluster ι ℝ)) : Prop := ∃ l, List.Forall₂ ClusterLe od l ∧ l.Sublist od'

/-- the same for the representation AcordIntersection reads (orientation state of the cluster kept) -/
def ClsLe (cls cls' : List (Inter.Cl ι ℝ)) : Prop :=
  ∃ l, List.Forall₂ (fun c c' : Inter.Cl ι ℝ => c'.ori = c.ori ∧ c.obs.Sublist c'.obs) cls l ∧ l.Sublist cls'

/-- **`o ⊆ o'`**: every cluster of `o` is a cluster of `o'` with a sub-list of its observations, in the same
    relative order, new clusters and new observations may be added anywhere; every vector `AcordVector::prepare`
    assembles from `o` it assembles from `o'` (true when vectors are added as whole x/y/z triplets: the buffer
    automaton `vecScan` lives across clusters, so this is stated on its output); the point list only grows; an
    azimuth / coordinate difference present in `o` is present in `o'` -/
structure ObsSet.le (o o' : ObsSet ι) : Prop where
  od : OdLe o.od o'.od
  vec : ∀ v ∈ vecAll o.od ⟨0, 0, 0, 0⟩ [], v ∈ vecAll o'.od ⟨0, 0, 0, 0⟩ []
  cls : ClsLe o.cls o'.cls
  keys : ∀ i ∈ o.keys, i ∈ o'.keys
  extra : o.extra = true → o'.extra = true

theorem OdLe.mem {od od' : List (Cluster ι ℝ)} (h : OdLe od od') : ∀ c ∈ od, ∃ c' ∈ od', ClusterLe c c' := by
  obtain ⟨l, h1, h2⟩ := h
  intro c hc
  have : ∀ (a b : List (Cluster ι ℝ)), List.Forall₂ ClusterLe a b → ∀ c ∈ a, ∃ c' ∈ b, ClusterLe c c' := by
    intro a b hab
    induction hab with
    | nil => intro c hc; simp at hc
    | cons hx _ ih =>
      intro c hc
      rcases List.mem_cons.mp hc with rfl | hc
      · exact ⟨_, by simp, hx⟩
      · obtain ⟨c', h1, h2⟩ := ih c hc
        exact ⟨c', by simp [h1], h2⟩
  obtain ⟨c', hc', hle⟩ := this od l h1 c hc
  exact ⟨c', h2.subset hc', hle⟩

theorem OdLe.standpoint {od od' : List (Cluster ι ℝ)} (h : OdLe od od') (s : ι) (obs : List (Obs ι ℝ))
    (hc : Cluster.standpoint s obs ∈ od) : ∃ obs', Cluster.standpoint s obs' ∈ od' ∧ obs.Sublist obs' := by
  obtain ⟨c', hc', hle⟩ := h.mem _ hc
  cases c' with
  | standpoint s' obs' => obtain ⟨rfl, h2⟩ := hle; exact ⟨obs', hc', h2⟩
  | hdiffs _ => exact absurd hle (by simp [ClusterLe])
  | vectors _ => exact absurd hle (by simp [ClusterLe])

theorem mem_hdAll (od : List (Cluster ι ℝ)) (h : Hd ι ℝ) :
    h ∈ hdAll od ↔ ∃ obs, Cluster.hdiffs obs ∈ od ∧ ∃ x ∈ obs, h = ⟨x.1, x.2.1, x.2.2⟩ := by
  induction od with
  | nil => simp [hdAll]
  | cons c cs ih =>
    cases c with
    | hdiffs obs =>
      simp only [hdAll, List.mem_append, List.mem_map, ih, List.mem_cons]
      constructor
      · rintro (⟨x, hx, rfl⟩ | ⟨obs', h1, h2⟩)
        · exact ⟨obs, Or.inl rfl, x, hx, rfl⟩
        · exact ⟨obs', Or.inr h1, h2⟩
      · rintro ⟨obs', h1 | h1, x, hx, rfl⟩
        · cases h1; exact Or.inl ⟨x, hx, rfl⟩
        · exact Or.inr ⟨obs', h1, x, hx, rfl⟩
    | standpoint s obs =>
      simp only [hdAll, ih, List.mem_cons]
      constructor
      · rintro ⟨obs', h1, h2⟩; exact ⟨obs', Or.inr h1, h2⟩
      · rintro ⟨obs', h1 | h1, h2⟩
        · cases h1
        · exact ⟨obs', h1, h2⟩
    | vectors obs =>
      simp only [hdAll, ih, List.mem_cons]
      constructor
      · rintro ⟨obs', h1, h2⟩; exact ⟨obs', Or.inr h1, h2⟩
      · rintro ⟨obs', h1 | h1, h2⟩
        · cases h1
        · exact ⟨obs', h1, h2⟩

theorem OdLe.hdAll {od od' : List (Cluster ι ℝ)} (h : OdLe od od') : ∀ x ∈ hdAll od, x ∈ hdAll od' := by
  intro x hx
  obtain ⟨obs, hc, y, hy, rfl⟩ := (mem_hdAll od x).mp hx
  obtain ⟨c', hc', hle⟩ := h.mem _ hc
  cases c' with
  | hdiffs obs' => exact (mem_hdAll od' _).mpr ⟨obs', hc', y, (show obs.Sublist obs' from hle).subset hy, rfl⟩
  | standpoint _ _ => exact absurd hle (by simp [ClusterLe])
  | vectors _ => exact absurd hle (by simp [ClusterLe])

/-- flags of the point list: everything defined on the left is defined on the right -/
def FlagLe (pd pd' : PD ι ℝ) : Prop :=
  (∀ i, (pd i).bxy = true → (pd' i).bxy = true) ∧ (∀ i, (pd i).bz = true → (pd' i).bz = true)

theorem FlagLe.refl (pd : PD ι ℝ) : FlagLe pd pd := ⟨fun _ h => h, fun _ h => h⟩
theorem stFlags_flagLe {s s1 : St ι ℝ} (h : StFlags s s1) : FlagLe s.pd s1.pd := ⟨h.fxy, h.fz⟩

/-- every id with a height candidate in the small run has one in the large run, or a height there -/
def CandLe (c c' : List (ι × ℝ)) (pd' : PD ι ℝ) : Prop :=
  ∀ x ∈ c, (∃ x' ∈ c', x'.1 = x.1) ∨ (pd' x.1).bz = true

theorem CandLe.mono {c c' : List (ι × ℝ)} {pd' pd1' : PD ι ℝ} (h : CandLe c c' pd') (hf : FlagLe pd' pd1') :
    CandLe c c' pd1' := fun x hx => (h x hx).imp id (hf.2 _)

/-- AcordHdiff, private state of the two runs; `pd'` = the point list of the large run -/
structure HdRel (fuel : Nat) (a a' : HdAlg ι ℝ) (pd' : PD ι ℝ) : Prop where
  /-- both runs prepare in the same call -/
  prep : a.prepared = a'.prepared
  /-- a completed object is prepared and holds no entries -/
  comp : a.completed = true → a.prepared = true ∧ a.hds = []
  comp' : a'.completed = true → a'.prepared = true ∧ a'.hds = []
  /-- every entry the small run still holds is held by the large run, or both its heights are known there -/
  hds : a.prepared = true → ∀ h ∈ a.hds, h ∈ a'.hds ∨ ((pd' h.f).bz = true ∧ (pd' h.t).bz = true)
  /-- local heights of the small run are known in the large run -/
  lpd : a.prepared = true → ∀ i, (a.lpd i).bz = true → (pd' i).bz = true
  /-- the end points of the entries are keys of the local copy; the inner fuel exceeds their number -/
  keys : a.prepared = true → ∀ h ∈ a.hds, h.f ∈ a.keys ∧ h.t ∈ a.keys
  klen : a.prepared = true → a.keys.length < fuel
  keys' : a'.prepared = true → ∀ h ∈ a'.hds, h.f ∈ a'.keys ∧ h.t ∈ a'.keys
  klen' : a'.prepared = true → a'.keys.length < fuel

theorem HdRel.mono {fuel : Nat} {a a' : HdAlg ι ℝ} {pd' pd1' : PD ι ℝ} (h : HdRel fuel a a' pd')
    (hf : FlagLe pd' pd1') : HdRel fuel a a' pd1' :=
  ⟨h.prep, h.comp, h.comp', fun hp x hx => (h.hds hp x hx).imp id (fun hb => ⟨hf.2 _ hb.1, hf.2 _ hb.2⟩),
    fun hp i hi => hf.2 _ (h.lpd hp i hi), h.keys, h.klen, h.keys', h.klen'⟩

/-- a point with xy and height (what AcordVector calls known) -/
def Full (p : LP ℝ) : Bool := p.bxy && p.bz

/-- AcordVector, private state of the two runs -/
structure VecRel (fuel : Nat) (a a' : VecAlg ι ℝ) (pd' : PD ι ℝ) : Prop where
  prep : a.prepared = a'.prepared
  comp : a.completed = true → a.prepared = true ∧ a.vecs = []
  comp' : a'.completed = true → a'.prepared = true ∧ a'.vecs = []
  vecs : a.prepared = true → ∀ h ∈ a.vecs, h ∈ a'.vecs ∨ (Full (pd' h.f) = true ∧ Full (pd' h.t) = true)
  lpd : a.prepared = true → FlagLe a.lpd pd'
  keys : a.prepared = true → ∀ h ∈ a.vecs, h.f ∈ a.keys ∧ h.t ∈ a.keys
  klen : a.prepared = true → a.keys.length < fuel
  keys' : a'.prepared = true → ∀ h ∈ a'.vecs, h.f ∈ a'.keys ∧ h.t ∈ a'.keys
  klen' : a'.prepared = true → a'.keys.length < fuel

theorem full_mono {pd' pd1' : PD ι ℝ} (hf : FlagLe pd' pd1') (i : ι) (h : Full (pd' i) = true) :
    Full (pd1' i) = true := by
  unfold Full at h ⊢
  simp only [Bool.and_eq_true] at h ⊢
  exact ⟨hf.1 _ h.1, hf.2 _ h.2⟩

theorem VecRel.mono {fuel : Nat} {a a' : VecAlg ι ℝ} {pd' pd1' : PD ι ℝ} (h : VecRel fuel a a' pd')
    (hf : FlagLe pd' pd1') : VecRel fuel a a' pd1' :=
  ⟨h.prep, h.comp, h.comp',
    fun hp x hx => (h.vecs hp x hx).imp id (fun hb => ⟨full_mono hf _ hb.1, full_mono hf _ hb.2⟩),
    fun hp => ⟨fun i hi => hf.1 _ ((h.lpd hp).1 i hi), fun i hi => hf.2 _ ((h.lpd hp).2 i hi)⟩,
    h.keys, h.klen, h.keys', h.klen'⟩

/-- both ends of the pair have xy in the large run -/
def AzBoth (pd' : PD ι ℝ) (e : AzEntry ι ℝ) : Prop := (pd' e.a).bxy = true ∧ (pd' e.b).bxy = true
/-- the same pair; usable in the large run if usable in the small one -/
def AzMatch (e e' : AzEntry ι ℝ) : Prop := e'.a = e.a ∧ e'.b = e.b ∧ (e.distance ≠ 0 → e'.distance ≠ 0)

/-- `azimuths_` of the small run inside `azimuths_` of the large run, IN THE SAME KEY ORDER (`execute` is a single
    pass in key order that reads the point list while it writes it): an entry of the small run has its counterpart
    later in the large list, or both its ends are known in the large run; the large list may hold further entries -/
inductive AzEmb (pd' : PD ι ℝ) : List (AzEntry ι ℝ) → List (AzEntry ι ℝ) → Prop
  | nil (l' : List (AzEntry ι ℝ)) : AzEmb pd' [] l'
  | skip (e' : AzEntry ι ℝ) {l l' : List (AzEntry ι ℝ)} : AzEmb pd' l l' → AzEmb pd' l (e' :: l')
  | both {e e' : AzEntry ι ℝ} {l l' : List (AzEntry ι ℝ)} : AzMatch e e' → AzEmb pd' l l' → AzEmb pd' (e :: l) (e' :: l')
  | drop {e : AzEntry ι ℝ} {l l' : List (AzEntry ι ℝ)} : AzBoth pd' e → AzEmb pd' l l' → AzEmb pd' (e :: l) l'

theorem AzEmb.mono {pd' pd1' : PD ι ℝ} (hf : FlagLe pd' pd1') {l l' : List (AzEntry ι ℝ)} (h : AzEmb pd' l l') :
    AzEmb pd1' l l' := by
  induction h with
  | nil l' => exact .nil l'
  | skip e' _ ih => exact .skip e' ih
  | both hm _ ih => exact .both hm ih
  | drop hb _ ih => exact .drop ⟨hf.1 _ hb.1, hf.1 _ hb.2⟩ ih

/-- AcordAzimuth, private state of the two runs -/
structure AzRel (a a' : AzAlg ι ℝ) (pd' : PD ι ℝ) : Prop where
  prep : a.prepared = a'.prepared
  comp : a.completed = true → a.prepared = true ∧ a.azs = []
  comp' : a'.completed = true → a'.prepared = true ∧ a'.azs = []
  emb : a.prepared = true → AzEmb pd' a.azs a'.azs

theorem AzRel.mono {a a' : AzAlg ι ℝ} {pd' pd1' : PD ι ℝ} (h : AzRel a a' pd') (hf : FlagLe pd' pd1') :
    AzRel a a' pd1' := ⟨h.prep, h.comp, h.comp', fun hp => (h.emb hp).mono hf⟩

/-- **the simulation relation** between the run on `o` (state `g`) and the run on `o' ⊇ o` (state `g'`) -/
structure KL (fuel : Nat) (Rai : AiPriv ℝ → AiPriv ℝ → Prop) (o o' : ObsSet ι) (g g' : G5 ι) : Prop where
  /-- point lists and `missing` sets -/
  st : StRel o g.st g'.st
  /-- `candidate_xy_` is empty (no modelled strategy writes it) -/
  cxy : g.candXY = []
  cxy' : g'.candXY = []
  /-- height candidates (between AcordZderived and `get_medians_z`) -/
  cz : CandLe g.st.candZ g'.st.candZ g'.st.pd
  az : AzRel g.priv.az g'.priv.az g'.st.pd
  hd : HdRel fuel g.priv.hd g'.priv.hd g'.st.pd
  vec : VecRel fuel g.priv.vec g'.priv.vec g'.st.pd
  /-- AcordZderived of the large run completes only when nothing is missing there -/
  zd : g'.priv.zd.completed = true → g'.st.missZ = []
  /-- AcordIntersection: an abstract relation on its private state -/
  ai : Rai g.priv.rest g'.priv.rest

theorem KL.knownLe {fuel : Nat} {Rai : AiPriv ℝ → AiPriv ℝ → Prop} {o o' : ObsSet ι} {g g' : G5 ι}
    (h : KL fuel Rai o o' g g') : KnownLe g g' := ⟨h.st.kxy, h.st.kz⟩

theorem missZ_nil_of_step {s s1 : St ι ℝ} (k : StepOK s s1) (h : s.missZ = []) : s1.missZ = [] := by
  apply List.eq_nil_iff_forall_not_mem.mpr
  intro i hi
  have := k.flags.mz i hi
  rw [h] at this; simp at this

/-- the frame rule: a pair of steps that are `StepOK`, keep `candidate_xy_` and AcordZderived's private state, and
    re-establish `KnownLe` and the four private relations -/
theorem KL.frame {fuel : Nat} {Rai : AiPriv ℝ → AiPriv ℝ → Prop} {o o' : ObsSet ι} {g g' g1 g1' : G5 ι}
    (h : KL fuel Rai o o' g g') (k : StepOK g.st g1.st) (k' : StepOK g'.st g1'.st)
    (kxy1 : ∀ i, (g1.st.pd i).bxy = true → (g1'.st.pd i).bxy = true)
    (kz1 : ∀ i, (g1.st.pd i).bz = true → (g1'.st.pd i).bz = true)
    (c : g1.candXY = g.candXY) (c' : g1'.candXY = g'.candXY)
    (haz : AzRel g1.priv.az g1'.priv.az g1'.st.pd) (hhd : HdRel fuel g1.priv.hd g1'.priv.hd g1'.st.pd)
    (hvec : VecRel fuel g1.priv.vec g1'.priv.vec g1'.st.pd) (hzd : g1'.priv.zd = g'.priv.zd)
    (hai : Rai g1.priv.rest g1'.priv.rest) : KL fuel Rai o o' g1 g1' := by
  refine ⟨h.st.step k k' kxy1 kz1, c.trans h.cxy, c'.trans h.cxy', ?_, haz, hhd, hvec, ?_, hai⟩
  · rw [k.cand, k'.cand]; exact h.cz.mono (stFlags_flagLe k'.flags)
  · intro hc; rw [hzd] at hc; exact missZ_nil_of_step k' (h.zd hc)

end relations

/-! ### AcordHdiff: step monotonicity -/

section hdmono
variable {ι : Type} [DecidableEq ι]

/-- the idling wrapper: completed (idle), inner fuel exhausted (unchanged), or a call that returns -/
theorem hdIdle_cases (fuel : Nat) (od : List (Cluster ι ℝ)) (g : G5 ι) :
    (g.priv.hd.completed = true ∧ idle (hdAlg fuel od) g = g) ∨
    (g.priv.hd.completed = false ∧ hdExecute fuel od g.priv.hd g.st = none ∧ idle (hdAlg fuel od) g = g) ∨
    (g.priv.hd.completed = false ∧ ∃ alg' st', hdExecute fuel od g.priv.hd g.st = some (alg', st') ∧
      idle (hdAlg fuel od) g = { g with st := st', priv := { g.priv with hd := alg' } }) := by
  by_cases hc : g.priv.hd.completed = true
  · left; refine ⟨hc, ?_⟩; unfold idle; rw [if_pos (show (hdAlg fuel od).completed g = true from hc)]
  · have hc' : g.priv.hd.completed = false := by simpa using hc
    right
    have e : idle (hdAlg fuel od) g = (hdAlg fuel od).exec g := by
      unfold idle; rw [if_neg (show ¬ (hdAlg fuel od).completed g = true from hc)]
    rcases hdAlg_exec (Q := AiPriv ℝ) fuel od g with ⟨h1, h2⟩ | ⟨a, s, h1, h2⟩
    · exact Or.inl ⟨hc', h1, e.trans h2⟩
    · exact Or.inr ⟨hc', a, s, h1, e.trans h2⟩

theorem hdEff_ok (fuel : Nat) (od : List (Cluster ι ℝ)) (alg : HdAlg ι ℝ) (st : St ι ℝ)
    (hk : alg.prepared = true → ∀ h ∈ alg.hds, h.f ∈ alg.keys ∧ h.t ∈ alg.keys)
    (hl : alg.prepared = true → alg.keys.length < fuel) (hfuel : (hdKeys od).length < fuel) :
    (∀ h ∈ (hdEff od alg st).hds, h.f ∈ (hdEff od alg st).keys ∧ h.t ∈ (hdEff od alg st).keys) ∧
    (hdEff od alg st).keys.length < fuel := by
  unfold hdEff
  by_cases hp : alg.prepared = true
  · simp only [hp, if_true]; exact ⟨hk hp, hl hp⟩
  · simp only [hp]; exact ⟨hdPrepare_ends st.pd od, hfuel⟩

theorem hdEff_completed (od : List (Cluster ι ℝ)) (alg : HdAlg ι ℝ) (st : St ι ℝ) (hc : alg.completed = false) :
    (hdEff od alg st).completed = false := by
  unfold hdEff; split
  · exact hc
  · rfl

theorem hdEff_prepared (od : List (Cluster ι ℝ)) (alg : HdAlg ι ℝ) (st : St ι ℝ) (hp : alg.prepared = true) :
    hdEff od alg st = alg := by unfold hdEff; rw [if_pos hp]

theorem hdEff_unprepared (od : List (Cluster ι ℝ)) (alg : HdAlg ι ℝ) (st : St ι ℝ) (hp : ¬ alg.prepared = true) :
    hdEff od alg st = hdPrepare st.pd od := by unfold hdEff; rw [if_neg hp]

theorem hdPrepare_lpd (pd : PD ι ℝ) (od : List (Cluster ι ℝ)) (i : ι) (h : ((hdPrepare pd od).lpd i).bz = true) :
    (pd i).bz = true := by
  simp only [hdPrepare] at h
  split at h
  · exact h
  · simp [LP.unset] at h

/-- the algorithm object after a call that returned, on an object that was not completed -/
theorem hdPost (fuel : Nat) (od : List (Cluster ι ℝ)) (alg alg' : HdAlg ι ℝ) (st st' : St ι ℝ)
    (hex : hdExecute fuel od alg st = some (alg', st')) (hc : alg.completed = false)
    (hkeys : ∀ h ∈ (hdEff od alg st).hds, h.f ∈ (hdEff od alg st).keys ∧ h.t ∈ (hdEff od alg st).keys)
    (hlen : (hdEff od alg st).keys.length < fuel) :
    alg'.prepared = true ∧ (alg'.completed = true → alg'.prepared = true ∧ alg'.hds = []) ∧
    (∀ h ∈ alg'.hds, h ∈ (hdEff od alg st).hds ∧ ¬ ((st.pd h.f).bz = true ∧ (st.pd h.t).bz = true)) ∧
    (alg'.prepared = true → ∀ h ∈ alg'.hds, h.f ∈ alg'.keys ∧ h.t ∈ alg'.keys) ∧
    (alg'.prepared = true → alg'.keys.length < fuel) := by
  obtain ⟨_, _, _, p1, p2, p3, p4⟩ := hdExecute_facts fuel od alg alg' st st' hex hkeys
  have hsub : ∀ h ∈ alg'.hds, h ∈ (hdEff od alg st).hds ∧ ¬ ((st.pd h.f).bz = true ∧ (st.pd h.t).bz = true) := by
    intro h hh; rw [p3] at hh; exact (mem_hdRemoveKnown _ _ h).mp hh
  refine ⟨p1, fun hcomp => ⟨p1, ?_⟩, hsub, fun _ h hh => ?_, fun _ => ?_⟩
  · rw [p4, hdEff_completed od alg st hc] at hcomp
    simpa using hcomp
  · rw [p2]; exact hkeys h (hsub h hh).1
  · rw [p2]; exact hlen

/-- **AcordHdiff is monotone in the observation set** (on the simulation relation; needs no soundness: only flags
    and list memberships are compared).  `fuel` exceeds the number of end points of height differences. -/
theorem hd_stepMono (fuel : Nat) (Rai : AiPriv ℝ → AiPriv ℝ → Prop) (Sound : G5 ι → Prop) (o o' : ObsSet ι)
    (hle : ObsSet.le o o') (hfuel : (hdKeys o.od).length < fuel) (hfuel' : (hdKeys o'.od).length < fuel) :
    StepMono Sound (KL fuel Rai o o') (idle (hdAlg fuel o.od)) (idle (hdAlg fuel o'.od)) := by
  intro g g' _ _ hk
  obtain ⟨ek, el⟩ := hdEff_ok fuel o.od g.priv.hd g.st hk.hd.keys hk.hd.klen hfuel
  obtain ⟨ek', el'⟩ := hdEff_ok fuel o'.od g'.priv.hd g'.st hk.hd.keys' hk.hd.klen' hfuel'
  -- every entry the small run works on is worked on by the large run, or lies between heights known there
  have hds0 : ∀ h ∈ (hdEff o.od g.priv.hd g.st).hds, h ∈ (hdEff o'.od g'.priv.hd g'.st).hds ∨
      ((g'.st.pd h.f).bz = true ∧ (g'.st.pd h.t).bz = true) := by
    by_cases hp : g.priv.hd.prepared = true
    · rw [hdEff_prepared _ _ _ hp, hdEff_prepared _ _ _ (hk.hd.prep ▸ hp)]; exact hk.hd.hds hp
    · have hp' : ¬ g'.priv.hd.prepared = true := by rw [← hk.hd.prep]; exact hp
      rw [hdEff_unprepared _ _ _ hp, hdEff_unprepared _ _ _ hp']
      intro h hh
      have h1 : h ∈ hdAll o'.od := hle.od.hdAll h ((mem_hdRemoveKnown _ _ h).mp hh).1
      by_cases hb : (g'.st.pd h.f).bz = true ∧ (g'.st.pd h.t).bz = true
      · exact Or.inr hb
      · exact Or.inl ((mem_hdRemoveKnown _ _ h).mpr ⟨h1, hb⟩)
  rcases hdIdle_cases fuel o.od g with ⟨c, e⟩ | ⟨c, hn, e⟩ | ⟨c, a1, s1, hex, e⟩
  · rcases hdIdle_cases fuel o'.od g' with ⟨c', e'⟩ | ⟨c', hn', e'⟩ | ⟨c', a1', s1', hex', e'⟩
    · rw [e, e']; exact hk
    · obtain ⟨r, hr⟩ := hdExecute_terminates fuel o'.od _ _ ek' el'
      rw [hr] at hn'; cases hn'
    · -- the small run idles, the large run works
      rw [e, e']
      obtain ⟨k', bxy', _, _⟩ := hdExecute_facts fuel o'.od _ a1' _ s1' hex' ek'
      obtain ⟨q1, q2, q3, q4, q5⟩ := hdPost fuel o'.od _ a1' _ s1' hex' c' ek' el'
      have fl := stFlags_flagLe k'.flags
      refine hk.frame (g1 := g) (g1' := { g' with st := s1', priv := { g'.priv with hd := a1' } })
        (StepOK.refl _) k' (fun i hi => fl.1 i (hk.st.kxy i hi)) (fun i hi => fl.2 i (hk.st.kz i hi)) rfl rfl
        (hk.az.mono fl) ?_ (hk.vec.mono fl) rfl hk.ai
      have hm := hk.hd.mono fl
      exact ⟨(hk.hd.comp c).1.trans q1.symm, hm.comp, q2,
        fun _ h hh => by rw [(hk.hd.comp c).2] at hh; simp at hh, hm.lpd, hm.keys, hm.klen, q4, q5⟩
  · obtain ⟨r, hr⟩ := hdExecute_terminates fuel o.od _ _ ek el
    rw [hr] at hn; cases hn
  · obtain ⟨k, bxy, _, _⟩ := hdExecute_facts fuel o.od _ a1 _ s1 hex ek
    obtain ⟨p1, p2, p3, p4, p5⟩ := hdPost fuel o.od _ a1 _ s1 hex c ek el
    rcases hdIdle_cases fuel o'.od g' with ⟨c', e'⟩ | ⟨c', hn', e'⟩ | ⟨c', a1', s1', hex', e'⟩
    · -- the small run works, the large run has completed: every entry lies between heights known there
      rw [e, e']
      obtain ⟨hp', hnil'⟩ := hk.hd.comp' c'
      have hp : g.priv.hd.prepared = true := hk.hd.prep.trans hp'
      have eeff := hdEff_prepared o.od g.priv.hd g.st hp
      obtain ⟨t1, t2⟩ := hdExecute_target fuel o.od _ a1 _ s1 hex (fun i => (g'.st.pd i).bz) hk.st.kz
        (by rw [eeff]; exact hk.hd.lpd hp)
        (by
          rw [eeff]; intro h hh
          rcases hk.hd.hds hp h hh with h1 | h1
          · rw [hnil'] at h1; simp at h1
          · show (g'.st.pd h.f).bz = (g'.st.pd h.t).bz
            rw [h1.1, h1.2])
      refine hk.frame (g1 := { g with st := s1, priv := { g.priv with hd := a1 } }) (g1' := g') k (StepOK.refl _)
        (fun i hi => hk.st.kxy i (by rw [← bxy i]; exact hi)) t1 rfl rfl hk.az ?_ hk.vec rfl hk.ai
      refine ⟨p1.trans hp'.symm, p2, hk.hd.comp', fun _ h hh => ?_, fun _ => t2, p4, p5, hk.hd.keys', hk.hd.klen'⟩
      have := (p3 h hh).1
      rw [eeff] at this
      exact hk.hd.hds hp h this
    · obtain ⟨r, hr⟩ := hdExecute_terminates fuel o'.od _ _ ek' el'
      rw [hr] at hn'; cases hn'
    · -- both runs work
      rw [e, e']
      obtain ⟨k', bxy', closed', r1, r2, r3, r4⟩ := hdExecute_facts fuel o'.od _ a1' _ s1' hex' ek'
      obtain ⟨q1, q2, q3, q4, q5⟩ := hdPost fuel o'.od _ a1' _ s1' hex' c' ek' el'
      have fl := stFlags_flagLe k'.flags
      obtain ⟨t1, t2⟩ := hdExecute_target fuel o.od _ a1 _ s1 hex (fun i => (s1'.pd i).bz)
        (fun i hi => fl.2 i (hk.st.kz i hi))
        (by
          intro i hi
          by_cases hp : g.priv.hd.prepared = true
          · rw [hdEff_prepared _ _ _ hp] at hi; exact fl.2 i (hk.hd.lpd hp i hi)
          · rw [hdEff_unprepared _ _ _ hp] at hi; exact fl.2 i (hk.st.kz i (hdPrepare_lpd _ _ i hi)))
        (by
          intro h hh
          rcases hds0 h hh with h1 | h1
          · exact closed' h h1
          · show (s1'.pd h.f).bz = (s1'.pd h.t).bz
            rw [fl.2 _ h1.1, fl.2 _ h1.2])
      refine hk.frame (g1 := { g with st := s1, priv := { g.priv with hd := a1 } })
        (g1' := { g' with st := s1', priv := { g'.priv with hd := a1' } }) k k'
        (fun i hi => by rw [bxy' i]; exact hk.st.kxy i (by rw [← bxy i]; exact hi)) t1 rfl rfl
        (hk.az.mono fl) ?_ (hk.vec.mono fl) rfl hk.ai
      refine ⟨p1.trans q1.symm, p2, q2, fun _ h hh => ?_, fun _ => t2, p4, p5, q4, q5⟩
      rcases hds0 h (p3 h hh).1 with h1 | h1
      · by_cases hb : (g'.st.pd h.f).bz = true ∧ (g'.st.pd h.t).bz = true
        · exact Or.inr ⟨fl.2 _ hb.1, fl.2 _ hb.2⟩
        · left
          show h ∈ a1'.hds
          rw [r3]; exact (mem_hdRemoveKnown _ _ h).mpr ⟨h1, hb⟩
      · exact Or.inr ⟨fl.2 _ h1.1, fl.2 _ h1.2⟩

end hdmono

/-! ### AcordVector: one run -/

section vector
variable {ι : Type} [DecidableEq ι]

theorem full_iff (p : LP ℝ) : Full p = true ↔ p.bxy = true ∧ p.bz = true := by
  unfold Full; simp

/-- one turn of the pass: nothing (both ends known or both not), or the unknown end gets xy and height -/
theorem vecPassStep_cases (ls : PD ι ℝ × Bool) (h : Vec ι ℝ) :
    (Full (ls.1 h.f) = Full (ls.1 h.t) ∧ vecPassStep ls h = ls) ∨
    (Full (ls.1 h.f) = true ∧ Full (ls.1 h.t) = false ∧ (vecPassStep ls h).2 = true ∧
      (∀ i, i ≠ h.t → (vecPassStep ls h).1 i = ls.1 i) ∧
      ((vecPassStep ls h).1 h.t).bxy = true ∧ ((vecPassStep ls h).1 h.t).bz = true) ∨
    (Full (ls.1 h.f) = false ∧ Full (ls.1 h.t) = true ∧ (vecPassStep ls h).2 = true ∧
      (∀ i, i ≠ h.f → (vecPassStep ls h).1 i = ls.1 i) ∧
      ((vecPassStep ls h).1 h.f).bxy = true ∧ ((vecPassStep ls h).1 h.f).bz = true) := by
  unfold Full
  by_cases hb : ((ls.1 h.f).bxy && (ls.1 h.f).bz) = ((ls.1 h.t).bxy && (ls.1 h.t).bz)
  · left; exact ⟨hb, by simp [vecPassStep, hb]⟩
  · right
    cases hf : ((ls.1 h.f).bxy && (ls.1 h.f).bz)
    · right
      have ht : ((ls.1 h.t).bxy && (ls.1 h.t).bz) = true := by
        cases h2 : ((ls.1 h.t).bxy && (ls.1 h.t).bz)
        · rw [hf, h2] at hb; exact absurd rfl hb
        · rfl
      have e : vecPassStep ls h = (ls.1.upd h.f (((ls.1 h.f).setXY ((ls.1 h.t).x - h.dx) ((ls.1 h.t).y - h.dy)).setZ
          ((ls.1 h.t).z - h.dz)), true) := by
        simp [vecPassStep, hf, ht]
      rw [e]
      exact ⟨rfl, ht, rfl, fun i hi => upd_other _ _ _ _ hi, by simp [upd_same, LP.setXY, LP.setZ],
        by simp [upd_same, LP.setXY, LP.setZ]⟩
    · left
      have ht : ((ls.1 h.t).bxy && (ls.1 h.t).bz) = false := by
        cases h2 : ((ls.1 h.t).bxy && (ls.1 h.t).bz)
        · rfl
        · rw [hf, h2] at hb; exact absurd rfl hb
      have e : vecPassStep ls h = (ls.1.upd h.t (((ls.1 h.t).setXY ((ls.1 h.f).x + h.dx) ((ls.1 h.f).y + h.dy)).setZ
          ((ls.1 h.f).z + h.dz)), true) := by
        simp [vecPassStep, hf, ht]
      rw [e]
      exact ⟨rfl, ht, rfl, fun i hi => upd_other _ _ _ _ hi, by simp [upd_same, LP.setXY, LP.setZ],
        by simp [upd_same, LP.setXY, LP.setZ]⟩

theorem vecPassStep_keep (ls : PD ι ℝ × Bool) (h : Vec ι ℝ) : FlagLe ls.1 (vecPassStep ls h).1 :=
  ⟨fun i hi => (vecPassStep_flags ls h i).1 hi, fun i hi => (vecPassStep_flags ls h i).2 hi⟩

theorem FlagLe.trans {a b c : PD ι ℝ} (h1 : FlagLe a b) (h2 : FlagLe b c) : FlagLe a c :=
  ⟨fun i hi => h2.1 i (h1.1 i hi), fun i hi => h2.2 i (h1.2 i hi)⟩

theorem vecPass_keep : ∀ (vs : List (Vec ι ℝ)) (ls : PD ι ℝ × Bool), FlagLe ls.1 (vs.foldl vecPassStep ls).1 := by
  intro vs
  induction vs with
  | nil => intro ls; exact FlagLe.refl _
  | cons h t ih => intro ls; simp only [List.foldl_cons]; exact (vecPassStep_keep ls h).trans (ih _)

theorem vecPassStep_false (ls : PD ι ℝ × Bool) (h : Vec ι ℝ) (hf : (vecPassStep ls h).2 = false) :
    vecPassStep ls h = ls ∧ Full (ls.1 h.f) = Full (ls.1 h.t) := by
  rcases vecPassStep_cases ls h with ⟨a, b⟩ | ⟨_, _, c, _⟩ | ⟨_, _, c, _⟩
  · exact ⟨b, a⟩
  · rw [c] at hf; cases hf
  · rw [c] at hf; cases hf

theorem vecPass_false : ∀ (vs : List (Vec ι ℝ)) (ls : PD ι ℝ × Bool), (vs.foldl vecPassStep ls).2 = false →
    vs.foldl vecPassStep ls = ls ∧ ∀ h ∈ vs, Full (ls.1 h.f) = Full (ls.1 h.t) := by
  intro vs
  induction vs with
  | nil => intro ls _; exact ⟨rfl, fun h hh => by simp at hh⟩
  | cons h t ih =>
    intro ls hf
    simp only [List.foldl_cons] at hf ⊢
    obtain ⟨e, c⟩ := ih (vecPassStep ls h) hf
    obtain ⟨e1, c1⟩ := vecPassStep_false ls h (by rw [← e]; exact hf)
    rw [e1] at e c ⊢
    refine ⟨e, fun h' hh' => ?_⟩
    rcases List.mem_cons.mp hh' with rfl | hh'
    · exact c1
    · exact c h' hh'

theorem mem_vecRemoveKnown (pd : PD ι ℝ) (vs : List (Vec ι ℝ)) (h : Vec ι ℝ) :
    h ∈ vecRemoveKnown pd vs ↔ h ∈ vs ∧ ¬ (Full (pd h.f) = true ∧ Full (pd h.t) = true) := by
  unfold vecRemoveKnown Full; rw [List.mem_filter]
  cases h1 : (pd h.f).bxy <;> cases h2 : (pd h.f).bz <;> cases h3 : (pd h.t).bxy <;> cases h4 : (pd h.t).bz <;> simp

theorem vecRemoveKnown_idem (pd : PD ι ℝ) (vs : List (Vec ι ℝ)) :
    vecRemoveKnown pd (vecRemoveKnown pd vs) = vecRemoveKnown pd vs := by
  unfold vecRemoveKnown; rw [List.filter_filter]; simp

theorem vecLoop_keep (pd : PD ι ℝ) : ∀ (fuel : Nat) (vs : List (Vec ι ℝ)) (lpd : PD ι ℝ) (r : List (Vec ι ℝ) × PD ι ℝ),
    vecLoop pd fuel vs lpd = some r → FlagLe lpd r.2 ∧ r.1 = vecRemoveKnown pd vs := by
  intro fuel
  induction fuel with
  | zero => intro vs lpd r h; simp [vecLoop] at h
  | succ n ih =>
    intro vs lpd r h
    unfold vecLoop at h
    simp only at h
    have k1 := vecPass_keep vs (lpd, false)
    split at h
    · obtain ⟨a, c⟩ := ih _ _ r h
      exact ⟨k1.trans a, by rw [c, vecRemoveKnown_idem]⟩
    · cases h
      exact ⟨k1, rfl⟩

theorem full_of_flagLe {a b : PD ι ℝ} (h : FlagLe a b) (i : ι) (hi : Full (a i) = true) : Full (b i) = true :=
  full_mono h i hi

/-- the loop ends with a local copy that is CLOSED under every vector of the list: both ends known or none -/
theorem vecLoop_closed (pd : PD ι ℝ) : ∀ (fuel : Nat) (vs : List (Vec ι ℝ)) (lpd : PD ι ℝ) (r : List (Vec ι ℝ) × PD ι ℝ),
    (∀ h ∈ vs, Full (pd h.f) = true → Full (pd h.t) = true → Full (lpd h.f) = true ∧ Full (lpd h.t) = true) →
    vecLoop pd fuel vs lpd = some r → ∀ h ∈ vs, Full (r.2 h.f) = Full (r.2 h.t) := by
  intro fuel
  induction fuel with
  | zero => intro vs lpd r _ h; simp [vecLoop] at h
  | succ n ih =>
    intro vs lpd r hk hloop h hh
    have hkeep := (vecLoop_keep pd (n + 1) vs lpd r hloop).1
    by_cases hb : Full (pd h.f) = true ∧ Full (pd h.t) = true
    · obtain ⟨a, b⟩ := hk h hh hb.1 hb.2
      rw [full_of_flagLe hkeep _ a, full_of_flagLe hkeep _ b]
    · have hmem : h ∈ vecRemoveKnown pd vs := (mem_vecRemoveKnown pd vs h).mpr ⟨hh, hb⟩
      unfold vecLoop at hloop
      simp only at hloop
      split at hloop
      · refine ih _ _ r (fun h' hh' a b => ?_) hloop h hmem
        exact absurd ⟨a, b⟩ ((mem_vecRemoveKnown pd vs h').mp hh').2
      · rename_i hc
        cases hloop
        have hne : (vecRemoveKnown pd vs).isEmpty = false := by
          cases hq : vecRemoveKnown pd vs with
          | nil => rw [hq] at hmem; simp at hmem
          | cons _ _ => rfl
        have hs : (vecPass vs lpd).2 = false := by
          cases hq : (vecPass vs lpd).2
          · rfl
          · rw [hq, hne] at hc; simp at hc
        obtain ⟨e, c⟩ := vecPass_false vs (lpd, false) hs
        show Full ((vecPass vs lpd).1 h.f) = Full ((vecPass vs lpd).1 h.t)
        unfold vecPass; rw [e]; exact c h hh

/-- local flags inside a target set given by two flag functions -/
def FlagT (tx tz : ι → Bool) (l : PD ι ℝ) : Prop :=
  ∀ i, ((l i).bxy = true → tx i = true) ∧ ((l i).bz = true → tz i = true)

theorem vecPassStep_target (tx tz : ι → Bool) (ls : PD ι ℝ × Bool) (h : Vec ι ℝ)
    (hg : (tx h.f && tz h.f) = (tx h.t && tz h.t)) (hl : FlagT tx tz ls.1) : FlagT tx tz (vecPassStep ls h).1 := by
  rcases vecPassStep_cases ls h with ⟨_, e⟩ | ⟨hf, _, _, ho, _, _⟩ | ⟨_, ht, _, ho, _, _⟩
  · rw [e]; exact hl
  · obtain ⟨f1, f2⟩ := (full_iff _).mp hf
    have : (tx h.t && tz h.t) = true := by rw [← hg, (hl h.f).1 f1, (hl h.f).2 f2]; rfl
    simp only [Bool.and_eq_true] at this
    intro i
    by_cases hi : i = h.t
    · subst hi; exact ⟨fun _ => this.1, fun _ => this.2⟩
    · rw [ho i hi]; exact hl i
  · obtain ⟨f1, f2⟩ := (full_iff _).mp ht
    have : (tx h.f && tz h.f) = true := by rw [hg, (hl h.t).1 f1, (hl h.t).2 f2]; rfl
    simp only [Bool.and_eq_true] at this
    intro i
    by_cases hi : i = h.f
    · subst hi; exact ⟨fun _ => this.1, fun _ => this.2⟩
    · rw [ho i hi]; exact hl i

theorem vecPass_target (tx tz : ι → Bool) : ∀ (vs : List (Vec ι ℝ)) (ls : PD ι ℝ × Bool),
    (∀ h ∈ vs, (tx h.f && tz h.f) = (tx h.t && tz h.t)) → FlagT tx tz ls.1 →
    FlagT tx tz (vs.foldl vecPassStep ls).1 := by
  intro vs
  induction vs with
  | nil => intro ls _ hl; exact hl
  | cons h t ih =>
    intro ls hg hl
    simp only [List.foldl_cons]
    exact ih _ (fun h' hh' => hg h' (by simp [hh'])) (vecPassStep_target tx tz ls h (hg h (by simp)) hl)

theorem vecLoop_target (pd : PD ι ℝ) (tx tz : ι → Bool) : ∀ (fuel : Nat) (vs : List (Vec ι ℝ)) (lpd : PD ι ℝ)
    (r : List (Vec ι ℝ) × PD ι ℝ), (∀ h ∈ vs, (tx h.f && tz h.f) = (tx h.t && tz h.t)) → FlagT tx tz lpd →
    vecLoop pd fuel vs lpd = some r → FlagT tx tz r.2 := by
  intro fuel
  induction fuel with
  | zero => intro vs lpd r _ _ h; simp [vecLoop] at h
  | succ n ih =>
    intro vs lpd r hg hl h
    unfold vecLoop at h
    simp only at h
    have hp := vecPass_target tx tz vs (lpd, false) hg hl
    split at h
    · exact ih _ _ r (fun h' hh' => hg h' ((mem_vecRemoveKnown pd vs h').mp hh').1) hp h
    · cases h; exact hp

theorem vecPass_new (keys : List ι) : ∀ (vs : List (Vec ι ℝ)) (ls : PD ι ℝ × Bool),
    (∀ h ∈ vs, h.f ∈ keys ∧ h.t ∈ keys) → (vs.foldl vecPassStep ls).2 = true →
    ls.2 = true ∨ ∃ i ∈ keys, Full (ls.1 i) = false ∧ Full ((vs.foldl vecPassStep ls).1 i) = true := by
  intro vs
  induction vs with
  | nil => intro ls _ h; exact Or.inl h
  | cons h t ih =>
    intro ls hk hs
    simp only [List.foldl_cons] at hs ⊢
    have keep := vecPass_keep t (vecPassStep ls h)
    rcases ih (vecPassStep ls h) (fun h' hh' => hk h' (by simp [hh'])) hs with h1 | ⟨i, hi, h1, h2⟩
    · rcases vecPassStep_cases ls h with ⟨_, e⟩ | ⟨_, ht, _, _, b1, b2⟩ | ⟨hf, _, _, _, b1, b2⟩
      · rw [e] at h1; exact Or.inl h1
      · exact Or.inr ⟨h.t, (hk h (by simp)).2, ht, full_of_flagLe keep _ ((full_iff _).mpr ⟨b1, b2⟩)⟩
      · exact Or.inr ⟨h.f, (hk h (by simp)).1, hf, full_of_flagLe keep _ ((full_iff _).mpr ⟨b1, b2⟩)⟩
    · refine Or.inr ⟨i, hi, ?_, h2⟩
      cases hc : Full (ls.1 i)
      · rfl
      · rw [full_of_flagLe (vecPassStep_keep ls h) i hc] at h1; exact absurd h1 (by simp)

/-- **termination of the inner do-while of AcordVector::execute** -/
theorem vecLoop_some (pd : PD ι ℝ) (keys : List ι) : ∀ (fuel : Nat) (vs : List (Vec ι ℝ)) (lpd : PD ι ℝ),
    (∀ h ∈ vs, h.f ∈ keys ∧ h.t ∈ keys) → keys.countP (fun i => !Full (lpd i)) < fuel →
    ∃ r, vecLoop pd fuel vs lpd = some r := by
  intro fuel
  induction fuel with
  | zero => intro vs lpd _ h; exact absurd h (Nat.not_lt_zero _)
  | succ n ih =>
    intro vs lpd hk hc
    unfold vecLoop
    simp only
    split
    · rename_i hcont
      have hs : (vecPass vs lpd).2 = true := by
        cases hq : (vecPass vs lpd).2
        · rw [hq] at hcont; simp at hcont
        · rfl
      apply ih _ _ (fun h' hh' => hk h' ((mem_vecRemoveKnown pd vs h').mp hh').1)
      rcases vecPass_new keys vs (lpd, false) hk hs with h1 | ⟨i, hi, h1, h2⟩
      · simp at h1
      · have := countP_lt (fun i => !Full (lpd i)) (fun i => !Full ((vecPass vs lpd).1 i)) keys
          (fun x _ hx => by
            cases hc' : Full (lpd x)
            · rfl
            · have := full_of_flagLe (vecPass_keep vs (lpd, false)) x hc'
              unfold vecPass at hx; rw [this] at hx; simp at hx)
          ⟨i, hi, by simpa using h1, by simp only [vecPass]; simpa using h2⟩
        omega
    · exact ⟨_, rfl⟩

/-- the algorithm object `execute` works on: `if (!prepared_) prepare();` -/
noncomputable def vecEff (od : List (Cluster ι ℝ)) (alg : VecAlg ι ℝ) (st : St ι ℝ) : VecAlg ι ℝ :=
  if alg.prepared then alg else vecPrepare st.pd od

/-- the key set of AcordVector's local copy: every end point of a vector -/
noncomputable def vecKeys (od : List (Cluster ι ℝ)) : List ι :=
  dedup ((vecAll od ⟨0, 0, 0, 0⟩ []).foldr (fun h l => h.f :: h.t :: l) [])

theorem vecEnds_mem (l : List (Vec ι ℝ)) (h : Vec ι ℝ) (hh : h ∈ l) :
    h.f ∈ l.foldr (fun h l => h.f :: h.t :: l) [] ∧ h.t ∈ l.foldr (fun h l => h.f :: h.t :: l) [] := by
  induction l with
  | nil => simp at hh
  | cons a as ih =>
    simp only [List.foldr_cons, List.mem_cons]
    rcases List.mem_cons.mp hh with rfl | hh
    · exact ⟨Or.inl rfl, Or.inr (Or.inl rfl)⟩
    · exact ⟨Or.inr (Or.inr (ih hh).1), Or.inr (Or.inr (ih hh).2)⟩

theorem vecPrepare_ends (pd : PD ι ℝ) (od : List (Cluster ι ℝ)) :
    ∀ h ∈ (vecPrepare pd od).vecs, h.f ∈ (vecPrepare pd od).keys ∧ h.t ∈ (vecPrepare pd od).keys := by
  intro h hh
  have hm : h ∈ vecAll od ⟨0, 0, 0, 0⟩ [] := ((mem_vecRemoveKnown pd _ h).mp hh).1
  exact ⟨mem_dedup_of_mem _ _ (vecEnds_mem _ h hm).1, mem_dedup_of_mem _ _ (vecEnds_mem _ h hm).2⟩

theorem vecExecute_some (fuel : Nat) (od : List (Cluster ι ℝ)) (alg alg' : VecAlg ι ℝ) (st st' : St ι ℝ)
    (hex : vecExecute fuel od alg st = some (alg', st')) :
    ∃ l1, vecLoop st.pd fuel (vecEff od alg st).vecs (vecRefresh st.pd (vecEff od alg st).keys (vecEff od alg st).lpd) =
        some (vecRemoveKnown st.pd (vecEff od alg st).vecs, l1) ∧
      alg' = ⟨true, (vecEff od alg st).completed || (vecRemoveKnown st.pd (vecEff od alg st).vecs).isEmpty,
        vecRemoveKnown st.pd (vecEff od alg st).vecs, (vecEff od alg st).keys, l1⟩ ∧
      st' = vecCopyBack (vecEff od alg st).keys l1 st := by
  unfold vecEff
  unfold vecExecute at hex
  simp only at hex
  split at hex
  · cases hex
  · rename_i vs lpd hloop
    cases hex
    have e := (vecLoop_keep st.pd fuel _ _ _ hloop).2
    simp only at e
    subst e
    exact ⟨lpd, hloop, rfl, rfl⟩

theorem hdCopyStep_flags1 (lpd : PD ι ℝ) (s : St ι ℝ) (k : ι) :
    (∀ i, ((hdCopyStep lpd s k).pd i).bxy = (s.pd i).bxy) ∧
    ((lpd k).bz = true → ((hdCopyStep lpd s k).pd k).bz = true) ∧
    (∀ i, ((hdCopyStep lpd s k).pd i).bz = true → (s.pd i).bz = true ∨ (i = k ∧ (lpd i).bz = true)) := by
  rw [hdCopyStep_eq]
  split
  · rename_i hb
    refine ⟨fun i => (wrZ_sameXY s k _ i).1, fun _ => by simp [wrZ, upd_same, LP.setZ], fun i hi => ?_⟩
    by_cases hik : i = k
    · subst hik; exact Or.inr ⟨rfl, hb⟩
    · simp only [wrZ, upd_other _ _ _ _ hik] at hi; exact Or.inl hi
  · rename_i hb
    exact ⟨fun _ => rfl, fun h => absurd h hb, fun i hi => Or.inl hi⟩

theorem vecCopyXY_flags1 (lpd : PD ι ℝ) (s : St ι ℝ) (k : ι) :
    (∀ i, ((vecCopyXY lpd s k).pd i).bz = (s.pd i).bz) ∧
    ((lpd k).bxy = true → ((vecCopyXY lpd s k).pd k).bxy = true) ∧
    (∀ i, ((vecCopyXY lpd s k).pd i).bxy = true → (s.pd i).bxy = true ∨ (i = k ∧ (lpd i).bxy = true)) := by
  rw [vecCopyXY_eq]
  split
  · rename_i hb
    refine ⟨fun i => (wrXY_sameZ s k _ _ i).1, fun _ => by simp [wrXY, upd_same, LP.setXY], fun i hi => ?_⟩
    by_cases hik : i = k
    · subst hik; exact Or.inr ⟨rfl, hb⟩
    · simp only [wrXY, upd_other _ _ _ _ hik] at hi; exact Or.inl hi
  · rename_i hb
    exact ⟨fun _ => rfl, fun h => absurd h hb, fun i hi => Or.inl hi⟩

/-- one turn of the copy-back publishes the local xy and the local height of its point -/
theorem vecCopyStep_flags (lpd : PD ι ℝ) (s : St ι ℝ) (k : ι) :
    ((lpd k).bxy = true → ((vecCopyStep lpd s k).pd k).bxy = true) ∧
    ((lpd k).bz = true → ((vecCopyStep lpd s k).pd k).bz = true) ∧
    (∀ i, ((vecCopyStep lpd s k).pd i).bxy = true → (s.pd i).bxy = true ∨ (i = k ∧ (lpd i).bxy = true)) ∧
    (∀ i, ((vecCopyStep lpd s k).pd i).bz = true → (s.pd i).bz = true ∨ (i = k ∧ (lpd i).bz = true)) := by
  unfold vecCopyStep
  obtain ⟨a1, a2, a3⟩ := vecCopyXY_flags1 lpd s k
  obtain ⟨b1, b2, b3⟩ := hdCopyStep_flags1 lpd (vecCopyXY lpd s k) k
  refine ⟨fun h => by rw [b1]; exact a2 h, b2, fun i hi => a3 i (by rw [← b1]; exact hi), fun i hi => ?_⟩
  rcases b3 i hi with h | h
  · exact Or.inl (by rw [← a1]; exact h)
  · exact Or.inr h

theorem vecCopyBack_flags (lpd : PD ι ℝ) : ∀ (keys : List ι) (s : St ι ℝ),
    (∀ i, i ∈ keys → (lpd i).bxy = true → ((vecCopyBack keys lpd s).pd i).bxy = true) ∧
    (∀ i, i ∈ keys → (lpd i).bz = true → ((vecCopyBack keys lpd s).pd i).bz = true) ∧
    (∀ i, ((vecCopyBack keys lpd s).pd i).bxy = true → (s.pd i).bxy = true ∨ (i ∈ keys ∧ (lpd i).bxy = true)) ∧
    (∀ i, ((vecCopyBack keys lpd s).pd i).bz = true → (s.pd i).bz = true ∨ (i ∈ keys ∧ (lpd i).bz = true)) := by
  intro keys
  induction keys with
  | nil => intro s; exact ⟨fun i hi => by simp at hi, fun i hi => by simp at hi, fun i hi => Or.inl hi, fun i hi => Or.inl hi⟩
  | cons k ks ih =>
    intro s
    obtain ⟨a, b, c, d⟩ := ih (vecCopyStep lpd s k)
    obtain ⟨s1, s2, s3, s4⟩ := vecCopyStep_flags lpd s k
    have hfl := (vecCopyBack_stepOK ks lpd (vecCopyStep lpd s k)).flags
    show (∀ i, i ∈ k :: ks → (lpd i).bxy = true → ((vecCopyBack ks lpd (vecCopyStep lpd s k)).pd i).bxy = true) ∧ _
    refine ⟨fun i hi hb => ?_, fun i hi hb => ?_, fun i hi => ?_, fun i hi => ?_⟩
    · rcases List.mem_cons.mp hi with rfl | hi
      · exact hfl.fxy i (s1 hb)
      · exact a i hi hb
    · rcases List.mem_cons.mp hi with rfl | hi
      · exact hfl.fz i (s2 hb)
      · exact b i hi hb
    · rcases c i hi with h1 | ⟨h1, h2⟩
      · rcases s3 i h1 with h3 | ⟨h3, h4⟩
        · exact Or.inl h3
        · exact Or.inr ⟨by simp [h3], h4⟩
      · exact Or.inr ⟨by simp [h1], h2⟩
    · rcases d i hi with h1 | ⟨h1, h2⟩
      · rcases s4 i h1 with h3 | ⟨h3, h4⟩
        · exact Or.inl h3
        · exact Or.inr ⟨by simp [h3], h4⟩
      · exact Or.inr ⟨by simp [h1], h2⟩

theorem vecRefresh_flags (pd : PD ι ℝ) (keys : List ι) (lpd : PD ι ℝ) (i : ι) :
    ((vecRefresh pd keys lpd i).bxy = true → (lpd i).bxy = true ∨ (pd i).bxy = true) ∧
    ((vecRefresh pd keys lpd i).bz = true → (lpd i).bz = true ∨ (pd i).bz = true) ∧
    ((lpd i).bxy = true → (vecRefresh pd keys lpd i).bxy = true) ∧
    ((lpd i).bz = true → (vecRefresh pd keys lpd i).bz = true) ∧
    (i ∈ keys → (pd i).bxy = true → (vecRefresh pd keys lpd i).bxy = true) ∧
    (i ∈ keys → (pd i).bz = true → (vecRefresh pd keys lpd i).bz = true) := by
  unfold vecRefresh refreshZ refreshXY
  by_cases hk : i ∈ keys <;> cases h1 : (lpd i).bxy <;> cases h2 : (pd i).bxy <;> cases h3 : (lpd i).bz <;>
    cases h4 : (pd i).bz <;> simp [hk, h1, h2, h3, h4, LP.setZ, LP.setXY]

/-- **one call of AcordVector::execute, seen from the run on the larger observation set** -/
theorem vecExecute_facts (fuel : Nat) (od : List (Cluster ι ℝ)) (alg alg' : VecAlg ι ℝ) (st st' : St ι ℝ)
    (hex : vecExecute fuel od alg st = some (alg', st'))
    (hkeys : ∀ h ∈ (vecEff od alg st).vecs, h.f ∈ (vecEff od alg st).keys ∧ h.t ∈ (vecEff od alg st).keys) :
    StepOK st st' ∧
    (∀ h ∈ (vecEff od alg st).vecs, Full (st'.pd h.f) = Full (st'.pd h.t)) ∧
    alg'.prepared = true ∧ alg'.keys = (vecEff od alg st).keys ∧
    alg'.vecs = vecRemoveKnown st.pd (vecEff od alg st).vecs ∧
    alg'.completed = ((vecEff od alg st).completed || alg'.vecs.isEmpty) := by
  obtain ⟨l1, hloop, rfl, rfl⟩ := vecExecute_some fuel od alg alg' st st' hex
  refine ⟨vecCopyBack_stepOK _ _ _, ?_, rfl, rfl, rfl, rfl⟩
  obtain ⟨keep, _⟩ := vecLoop_keep st.pd fuel _ _ _ hloop
  have rf := vecRefresh_flags st.pd (vecEff od alg st).keys (vecEff od alg st).lpd
  have hclosed := vecLoop_closed st.pd fuel _ _ _ (fun h hh a b => by
    obtain ⟨a1, a2⟩ := (full_iff _).mp a
    obtain ⟨b1, b2⟩ := (full_iff _).mp b
    exact ⟨(full_iff _).mpr ⟨(rf h.f).2.2.2.2.1 (hkeys h hh).1 a1, (rf h.f).2.2.2.2.2 (hkeys h hh).1 a2⟩,
      (full_iff _).mpr ⟨(rf h.t).2.2.2.2.1 (hkeys h hh).2 b1, (rf h.t).2.2.2.2.2 (hkeys h hh).2 b2⟩⟩) hloop
  simp only at hclosed keep
  obtain ⟨pubxy, pubz, backxy, backz⟩ := vecCopyBack_flags l1 (vecEff od alg st).keys st
  have hiff : ∀ i ∈ (vecEff od alg st).keys,
      Full ((vecCopyBack (vecEff od alg st).keys l1 st).pd i) = Full (l1 i) := by
    intro i hi
    have e1 : ((vecCopyBack (vecEff od alg st).keys l1 st).pd i).bxy = (l1 i).bxy := by
      cases hb : (l1 i).bxy
      · cases hc : ((vecCopyBack (vecEff od alg st).keys l1 st).pd i).bxy
        · rfl
        · rcases backxy i hc with h1 | ⟨_, h1⟩
          · have := keep.1 i ((rf i).2.2.2.2.1 hi h1)
            rw [hb] at this; exact absurd this (by simp)
          · rw [hb] at h1; exact absurd h1 (by simp)
      · exact pubxy i hi hb
    have e2 : ((vecCopyBack (vecEff od alg st).keys l1 st).pd i).bz = (l1 i).bz := by
      cases hb : (l1 i).bz
      · cases hc : ((vecCopyBack (vecEff od alg st).keys l1 st).pd i).bz
        · rfl
        · rcases backz i hc with h1 | ⟨_, h1⟩
          · have := keep.2 i ((rf i).2.2.2.2.2 hi h1)
            rw [hb] at this; exact absurd this (by simp)
          · rw [hb] at h1; exact absurd h1 (by simp)
      · exact pubz i hi hb
    unfold Full; rw [e1, e2]
  intro h hh
  rw [hiff _ (hkeys h hh).1, hiff _ (hkeys h hh).2]
  exact hclosed h hh

/-- **one call of AcordVector::execute, seen from the run on the smaller observation set** -/
theorem vecExecute_target (fuel : Nat) (od : List (Cluster ι ℝ)) (alg alg' : VecAlg ι ℝ) (st st' : St ι ℝ)
    (hex : vecExecute fuel od alg st = some (alg', st')) (tx tz : ι → Bool)
    (hpd : FlagT tx tz st.pd) (hl : FlagT tx tz (vecEff od alg st).lpd)
    (hg : ∀ h ∈ (vecEff od alg st).vecs, (tx h.f && tz h.f) = (tx h.t && tz h.t)) :
    FlagT tx tz st'.pd ∧ FlagT tx tz alg'.lpd := by
  obtain ⟨l1, hloop, rfl, rfl⟩ := vecExecute_some fuel od alg alg' st st' hex
  have rf := vecRefresh_flags st.pd (vecEff od alg st).keys (vecEff od alg st).lpd
  have h1 := vecLoop_target st.pd tx tz fuel _ _ _ hg (fun i => ⟨fun hi => by
    rcases (rf i).1 hi with h | h
    · exact (hl i).1 h
    · exact (hpd i).1 h, fun hi => by
    rcases (rf i).2.1 hi with h | h
    · exact (hl i).2 h
    · exact (hpd i).2 h⟩) hloop
  simp only at h1
  obtain ⟨_, _, backxy, backz⟩ := vecCopyBack_flags l1 (vecEff od alg st).keys st
  refine ⟨fun i => ⟨fun hi => ?_, fun hi => ?_⟩, h1⟩
  · rcases backxy i hi with h | ⟨_, h⟩
    · exact (hpd i).1 h
    · exact (h1 i).1 h
  · rcases backz i hi with h | ⟨_, h⟩
    · exact (hpd i).2 h
    · exact (h1 i).2 h

theorem vecExecute_terminates (fuel : Nat) (od : List (Cluster ι ℝ)) (alg : VecAlg ι ℝ) (st : St ι ℝ)
    (hkeys : ∀ h ∈ (vecEff od alg st).vecs, h.f ∈ (vecEff od alg st).keys ∧ h.t ∈ (vecEff od alg st).keys)
    (hlen : (vecEff od alg st).keys.length < fuel) : ∃ r, vecExecute fuel od alg st = some r := by
  obtain ⟨r, hr⟩ := vecLoop_some st.pd (vecEff od alg st).keys fuel (vecEff od alg st).vecs
    (vecRefresh st.pd (vecEff od alg st).keys (vecEff od alg st).lpd) hkeys
    (Nat.lt_of_le_of_lt List.countP_le_length hlen)
  obtain ⟨vs, l⟩ := r
  unfold vecEff at hr
  unfold vecExecute
  simp only
  rw [hr]
  exact ⟨_, rfl⟩

end vector

/-! ### AcordVector: step monotonicity -/

section vecmono
variable {ι : Type} [DecidableEq ι]

theorem vecIdle_cases (fuel : Nat) (od : List (Cluster ι ℝ)) (g : G5 ι) :
    (g.priv.vec.completed = true ∧ idle (vecAlg fuel od) g = g) ∨
    (g.priv.vec.completed = false ∧ vecExecute fuel od g.priv.vec g.st = none ∧ idle (vecAlg fuel od) g = g) ∨
    (g.priv.vec.completed = false ∧ ∃ alg' st', vecExecute fuel od g.priv.vec g.st = some (alg', st') ∧
      idle (vecAlg fuel od) g = { g with st := st', priv := { g.priv with vec := alg' } }) := by
  by_cases hc : g.priv.vec.completed = true
  · left; refine ⟨hc, ?_⟩; unfold idle; rw [if_pos (show (vecAlg fuel od).completed g = true from hc)]
  · have hc' : g.priv.vec.completed = false := by simpa using hc
    right
    have e : idle (vecAlg fuel od) g = (vecAlg fuel od).exec g := by
      unfold idle; rw [if_neg (show ¬ (vecAlg fuel od).completed g = true from hc)]
    rcases vecAlg_exec (Q := AiPriv ℝ) fuel od g with ⟨h1, h2⟩ | ⟨a, s, h1, h2⟩
    · exact Or.inl ⟨hc', h1, e.trans h2⟩
    · exact Or.inr ⟨hc', a, s, h1, e.trans h2⟩

theorem vecEff_ok (fuel : Nat) (od : List (Cluster ι ℝ)) (alg : VecAlg ι ℝ) (st : St ι ℝ)
    (hk : alg.prepared = true → ∀ h ∈ alg.vecs, h.f ∈ alg.keys ∧ h.t ∈ alg.keys)
    (hl : alg.prepared = true → alg.keys.length < fuel) (hfuel : (vecKeys od).length < fuel) :
    (∀ h ∈ (vecEff od alg st).vecs, h.f ∈ (vecEff od alg st).keys ∧ h.t ∈ (vecEff od alg st).keys) ∧
    (vecEff od alg st).keys.length < fuel := by
  unfold vecEff
  by_cases hp : alg.prepared = true
  · simp only [hp, if_true]; exact ⟨hk hp, hl hp⟩
  · simp only [hp]; exact ⟨vecPrepare_ends st.pd od, hfuel⟩

theorem vecEff_completed (od : List (Cluster ι ℝ)) (alg : VecAlg ι ℝ) (st : St ι ℝ) (hc : alg.completed = false) :
    (vecEff od alg st).completed = false := by
  unfold vecEff; split
  · exact hc
  · rfl

theorem vecEff_prepared (od : List (Cluster ι ℝ)) (alg : VecAlg ι ℝ) (st : St ι ℝ) (hp : alg.prepared = true) :
    vecEff od alg st = alg := by unfold vecEff; rw [if_pos hp]

theorem vecEff_unprepared (od : List (Cluster ι ℝ)) (alg : VecAlg ι ℝ) (st : St ι ℝ) (hp : ¬ alg.prepared = true) :
    vecEff od alg st = vecPrepare st.pd od := by unfold vecEff; rw [if_neg hp]

theorem vecPrepare_lpd (pd : PD ι ℝ) (od : List (Cluster ι ℝ)) : FlagLe (vecPrepare pd od).lpd pd := by
  refine ⟨fun i h => ?_, fun i h => ?_⟩
  all_goals simp only [vecPrepare] at h
  all_goals split at h
  · exact h
  · simp [LP.unset] at h
  · exact h
  · simp [LP.unset] at h

theorem flagT_of_flagLe {l pd' : PD ι ℝ} (h : FlagLe l pd') :
    FlagT (fun i => (pd' i).bxy) (fun i => (pd' i).bz) l := fun i => ⟨h.1 i, h.2 i⟩
theorem flagLe_of_flagT {l pd' : PD ι ℝ} (h : FlagT (fun i => (pd' i).bxy) (fun i => (pd' i).bz) l) :
    FlagLe l pd' := ⟨fun i => (h i).1, fun i => (h i).2⟩

theorem vecPost (fuel : Nat) (od : List (Cluster ι ℝ)) (alg alg' : VecAlg ι ℝ) (st st' : St ι ℝ)
    (hex : vecExecute fuel od alg st = some (alg', st')) (hc : alg.completed = false)
    (hkeys : ∀ h ∈ (vecEff od alg st).vecs, h.f ∈ (vecEff od alg st).keys ∧ h.t ∈ (vecEff od alg st).keys)
    (hlen : (vecEff od alg st).keys.length < fuel) :
    alg'.prepared = true ∧ (alg'.completed = true → alg'.prepared = true ∧ alg'.vecs = []) ∧
    (∀ h ∈ alg'.vecs, h ∈ (vecEff od alg st).vecs ∧ ¬ (Full (st.pd h.f) = true ∧ Full (st.pd h.t) = true)) ∧
    (alg'.prepared = true → ∀ h ∈ alg'.vecs, h.f ∈ alg'.keys ∧ h.t ∈ alg'.keys) ∧
    (alg'.prepared = true → alg'.keys.length < fuel) := by
  obtain ⟨_, _, p1, p2, p3, p4⟩ := vecExecute_facts fuel od alg alg' st st' hex hkeys
  have hsub : ∀ h ∈ alg'.vecs, h ∈ (vecEff od alg st).vecs ∧ ¬ (Full (st.pd h.f) = true ∧ Full (st.pd h.t) = true) := by
    intro h hh; rw [p3] at hh; exact (mem_vecRemoveKnown _ _ h).mp hh
  refine ⟨p1, fun hcomp => ⟨p1, ?_⟩, hsub, fun _ h hh => ?_, fun _ => ?_⟩
  · rw [p4, vecEff_completed od alg st hc] at hcomp
    simpa using hcomp
  · rw [p2]; exact hkeys h (hsub h hh).1
  · rw [p2]; exact hlen

/-- **AcordVector is monotone in the observation set** (on the simulation relation; flags and list memberships
    only).  `fuel` exceeds the number of end points of vectors. -/
theorem vec_stepMono (fuel : Nat) (Rai : AiPriv ℝ → AiPriv ℝ → Prop) (Sound : G5 ι → Prop) (o o' : ObsSet ι)
    (hle : ObsSet.le o o') (hfuel : (vecKeys o.od).length < fuel) (hfuel' : (vecKeys o'.od).length < fuel) :
    StepMono Sound (KL fuel Rai o o') (idle (vecAlg fuel o.od)) (idle (vecAlg fuel o'.od)) := by
  intro g g' _ _ hk
  obtain ⟨ek, el⟩ := vecEff_ok fuel o.od g.priv.vec g.st hk.vec.keys hk.vec.klen hfuel
  obtain ⟨ek', el'⟩ := vecEff_ok fuel o'.od g'.priv.vec g'.st hk.vec.keys' hk.vec.klen' hfuel'
  have hvs0 : ∀ h ∈ (vecEff o.od g.priv.vec g.st).vecs, h ∈ (vecEff o'.od g'.priv.vec g'.st).vecs ∨
      (Full (g'.st.pd h.f) = true ∧ Full (g'.st.pd h.t) = true) := by
    by_cases hp : g.priv.vec.prepared = true
    · rw [vecEff_prepared _ _ _ hp, vecEff_prepared _ _ _ (hk.vec.prep ▸ hp)]; exact hk.vec.vecs hp
    · have hp' : ¬ g'.priv.vec.prepared = true := by rw [← hk.vec.prep]; exact hp
      rw [vecEff_unprepared _ _ _ hp, vecEff_unprepared _ _ _ hp']
      intro h hh
      have h1 : h ∈ vecAll o'.od ⟨0, 0, 0, 0⟩ [] := hle.vec h ((mem_vecRemoveKnown _ _ h).mp hh).1
      by_cases hb : Full (g'.st.pd h.f) = true ∧ Full (g'.st.pd h.t) = true
      · exact Or.inr hb
      · exact Or.inl ((mem_vecRemoveKnown _ _ h).mpr ⟨h1, hb⟩)
  have kfl : FlagLe g.st.pd g'.st.pd := ⟨hk.st.kxy, hk.st.kz⟩
  rcases vecIdle_cases fuel o.od g with ⟨c, e⟩ | ⟨c, hn, e⟩ | ⟨c, a1, s1, hex, e⟩
  · rcases vecIdle_cases fuel o'.od g' with ⟨c', e'⟩ | ⟨c', hn', e'⟩ | ⟨c', a1', s1', hex', e'⟩
    · rw [e, e']; exact hk
    · obtain ⟨r, hr⟩ := vecExecute_terminates fuel o'.od _ _ ek' el'
      rw [hr] at hn'; cases hn'
    · rw [e, e']
      obtain ⟨k', _⟩ := vecExecute_facts fuel o'.od _ a1' _ s1' hex' ek'
      obtain ⟨q1, q2, q3, q4, q5⟩ := vecPost fuel o'.od _ a1' _ s1' hex' c' ek' el'
      have fl := stFlags_flagLe k'.flags
      refine hk.frame (g1 := g) (g1' := { g' with st := s1', priv := { g'.priv with vec := a1' } })
        (StepOK.refl _) k' (fun i hi => fl.1 i (hk.st.kxy i hi)) (fun i hi => fl.2 i (hk.st.kz i hi)) rfl rfl
        (hk.az.mono fl) (hk.hd.mono fl) ?_ rfl hk.ai
      have hm := hk.vec.mono fl
      exact ⟨(hk.vec.comp c).1.trans q1.symm, hm.comp, q2,
        fun _ h hh => by rw [(hk.vec.comp c).2] at hh; simp at hh, hm.lpd, hm.keys, hm.klen, q4, q5⟩
  · obtain ⟨r, hr⟩ := vecExecute_terminates fuel o.od _ _ ek el
    rw [hr] at hn; cases hn
  · obtain ⟨k, _⟩ := vecExecute_facts fuel o.od _ a1 _ s1 hex ek
    obtain ⟨p1, p2, p3, p4, p5⟩ := vecPost fuel o.od _ a1 _ s1 hex c ek el
    rcases vecIdle_cases fuel o'.od g' with ⟨c', e'⟩ | ⟨c', hn', e'⟩ | ⟨c', a1', s1', hex', e'⟩
    · rw [e, e']
      obtain ⟨hp', hnil'⟩ := hk.vec.comp' c'
      have hp : g.priv.vec.prepared = true := hk.vec.prep.trans hp'
      have eeff := vecEff_prepared o.od g.priv.vec g.st hp
      obtain ⟨t1, t2⟩ := vecExecute_target fuel o.od _ a1 _ s1 hex (fun i => (g'.st.pd i).bxy)
        (fun i => (g'.st.pd i).bz) (flagT_of_flagLe kfl)
        (by rw [eeff]; exact flagT_of_flagLe (hk.vec.lpd hp))
        (by
          rw [eeff]; intro h hh
          rcases hk.vec.vecs hp h hh with h1 | h1
          · rw [hnil'] at h1; simp at h1
          · show Full (g'.st.pd h.f) = Full (g'.st.pd h.t)
            rw [h1.1, h1.2])
      have t1' := flagLe_of_flagT t1
      refine hk.frame (g1 := { g with st := s1, priv := { g.priv with vec := a1 } }) (g1' := g') k (StepOK.refl _)
        t1'.1 t1'.2 rfl rfl hk.az hk.hd ?_ rfl hk.ai
      refine ⟨p1.trans hp'.symm, p2, hk.vec.comp', fun _ h hh => ?_, fun _ => flagLe_of_flagT t2, p4, p5,
        hk.vec.keys', hk.vec.klen'⟩
      have := (p3 h hh).1
      rw [eeff] at this
      exact hk.vec.vecs hp h this
    · obtain ⟨r, hr⟩ := vecExecute_terminates fuel o'.od _ _ ek' el'
      rw [hr] at hn'; cases hn'
    · rw [e, e']
      obtain ⟨k', closed', r1, r2, r3, r4⟩ := vecExecute_facts fuel o'.od _ a1' _ s1' hex' ek'
      obtain ⟨q1, q2, q3, q4, q5⟩ := vecPost fuel o'.od _ a1' _ s1' hex' c' ek' el'
      have fl := stFlags_flagLe k'.flags
      obtain ⟨t1, t2⟩ := vecExecute_target fuel o.od _ a1 _ s1 hex (fun i => (s1'.pd i).bxy)
        (fun i => (s1'.pd i).bz) (flagT_of_flagLe (kfl.trans fl))
        (by
          by_cases hp : g.priv.vec.prepared = true
          · rw [vecEff_prepared _ _ _ hp]; exact flagT_of_flagLe ((hk.vec.lpd hp).trans fl)
          · rw [vecEff_unprepared _ _ _ hp]; exact flagT_of_flagLe ((vecPrepare_lpd _ _).trans (kfl.trans fl)))
        (by
          intro h hh
          rcases hvs0 h hh with h1 | h1
          · exact closed' h h1
          · show Full (s1'.pd h.f) = Full (s1'.pd h.t)
            rw [full_mono fl _ h1.1, full_mono fl _ h1.2])
      have t1' := flagLe_of_flagT t1
      refine hk.frame (g1 := { g with st := s1, priv := { g.priv with vec := a1 } })
        (g1' := { g' with st := s1', priv := { g'.priv with vec := a1' } }) k k' t1'.1 t1'.2 rfl rfl
        (hk.az.mono fl) (hk.hd.mono fl) ?_ rfl hk.ai
      refine ⟨p1.trans q1.symm, p2, q2, fun _ h hh => ?_, fun _ => flagLe_of_flagT t2, p4, p5, q4, q5⟩
      rcases hvs0 h (p3 h hh).1 with h1 | h1
      · by_cases hb : Full (g'.st.pd h.f) = true ∧ Full (g'.st.pd h.t) = true
        · exact Or.inr ⟨full_mono fl _ hb.1, full_mono fl _ hb.2⟩
        · left
          show h ∈ a1'.vecs
          rw [r3]; exact (mem_vecRemoveKnown _ _ h).mpr ⟨h1, hb⟩
      · exact Or.inr ⟨full_mono fl _ h1.1, full_mono fl _ h1.2⟩

end vecmono

/-! ### AcordZderived: monotonicity of the candidate ids -/

section zderived
variable {ι : Type} [DecidableEq ι]

theorem isEmpty_false_of_mem {α : Type} {l : List α} {x : α} (h : x ∈ l) : l.isEmpty = false := by
  cases l with
  | nil => simp at h
  | cons _ _ => rfl

theorem zdAngles_mem (keep : ι → Bool) (obs : List (Obs ι ℝ)) (f t : ι) (v a b : ℝ)
    (h : Obs.zangle f t v a b ∈ obs) (hk : keep t = true) : (⟨f, t, v, a, b⟩ : ZA ι ℝ) ∈ zdAngles keep obs := by
  unfold zdAngles; exact List.mem_filterMap.mpr ⟨_, h, by simp [hk]⟩

theorem zdDistances_mem (keep : ι → Bool) (obs : List (Obs ι ℝ)) (f t : ι) (v : ℝ)
    (h : Obs.distance f t v ∈ obs) (hk : keep t = true) : (t, v) ∈ zdDistances keep obs := by
  unfold zdDistances; exact List.mem_filterMap.mpr ⟨_, h, by simp [hk]⟩

theorem zdSDistances_mem (keep : ι → Bool) (obs : List (Obs ι ℝ)) (f t : ι) (v a b : ℝ)
    (h : Obs.sdistance f t v a b ∈ obs) (hk : keep t = true) : (t, v) ∈ zdSDistances keep obs := by
  unfold zdSDistances; exact List.mem_filterMap.mpr ⟨_, h, by simp [hk]⟩

/-- a horizontal / slope distance to `t` is in the cluster -/
def HasD (obs : List (Obs ι ℝ)) (t : ι) : Prop := ∃ f v, Obs.distance f t v ∈ obs
def HasS (obs : List (Obs ι ℝ)) (t : ι) : Prop := ∃ f v a b, Obs.sdistance f t v a b ∈ obs
/-- a zenith angle `f → t` contributes a height: a distance of either kind to `t`, or both ends have xy -/
def Contrib (pd : PD ι ℝ) (obs : List (Obs ι ℝ)) (f t : ι) : Prop :=
  HasD obs t ∨ HasS obs t ∨ ((pd f).bxy = true ∧ (pd t).bxy = true)
/-- branch B proposes a height for the target `t` -/
def TgtOK (pd : PD ι ℝ) (obs : List (Obs ι ℝ)) (t : ι) : Prop :=
  (pd t).bz = false ∧ ∃ f v a b, Obs.zangle f t v a b ∈ obs ∧ Contrib pd obs f t
/-- branch A finds a station height -/
def StOK (pd : PD ι ℝ) (obs : List (Obs ι ℝ)) : Prop :=
  (∃ t, (pd t).bz = true ∧ (HasD obs t ∨ HasS obs t)) ∧
  ∃ f t v a b, Obs.zangle f t v a b ∈ obs ∧ (pd t).bz = true ∧ Contrib pd obs f t

theorem contrib_mono {pd pd' : PD ι ℝ} (hf : FlagLe pd pd') {obs obs' : List (Obs ι ℝ)} (hs : ∀ x ∈ obs, x ∈ obs')
    {f t : ι} (h : Contrib pd obs f t) : Contrib pd' obs' f t := by
  rcases h with ⟨f', v, h⟩ | ⟨f', v, a, b, h⟩ | ⟨h1, h2⟩
  · exact Or.inl ⟨f', v, hs _ h⟩
  · exact Or.inr (Or.inl ⟨f', v, a, b, hs _ h⟩)
  · exact Or.inr (Or.inr ⟨hf.1 _ h1, hf.1 _ h2⟩)

theorem tgtOK_mono {pd pd' : PD ι ℝ} (hf : FlagLe pd pd') {obs obs' : List (Obs ι ℝ)} (hs : ∀ x ∈ obs, x ∈ obs')
    {t : ι} (h : TgtOK pd obs t) : TgtOK pd' obs' t ∨ (pd' t).bz = true := by
  obtain ⟨_, f, v, a, b, h1, h2⟩ := h
  cases hb : (pd' t).bz
  · exact Or.inl ⟨hb, f, v, a, b, hs _ h1, contrib_mono hf hs h2⟩
  · exact Or.inr rfl

theorem stOK_mono {pd pd' : PD ι ℝ} (hf : FlagLe pd pd') {obs obs' : List (Obs ι ℝ)} (hs : ∀ x ∈ obs, x ∈ obs')
    (h : StOK pd obs) : StOK pd' obs' := by
  obtain ⟨⟨t, h1, h2⟩, f, t', v, a, b, h3, h4, h5⟩ := h
  refine ⟨⟨t, hf.2 _ h1, ?_⟩, f, t', v, a, b, hs _ h3, hf.2 _ h4, contrib_mono hf hs h5⟩
  rcases h2 with ⟨f', v', h⟩ | ⟨f', v', a', b', h⟩
  · exact Or.inl ⟨f', v', hs _ h⟩
  · exact Or.inr ⟨f', v', a', b', hs _ h⟩

/-- what one zenith angle contributes, by id: the three parts of `zdTargetHeights` all carry the target's id -/
theorem zdTargetHeights_id (pd : PD ι ℝ) (z : ℝ) (ds ss : List (ι × ℝ)) (za : ZA ι ℝ) :
    ∀ c ∈ zdTargetHeights pd z ds ss za, c.1 = za.t ∧
      ((∃ d ∈ ds, za.t = d.1) ∨ (∃ d ∈ ss, za.t = d.1) ∨ ((pd za.f).bxy = true ∧ (pd za.t).bxy = true)) := by
  intro c hc
  unfold zdTargetHeights at hc
  simp only [List.mem_append, List.mem_map, List.mem_filter, decide_eq_true_eq] at hc
  rcases hc with (⟨d, ⟨hd1, hdt⟩, rfl⟩ | ⟨d, ⟨hd1, hdt⟩, rfl⟩) | hc
  · exact ⟨hdt.symm, Or.inl ⟨d, hd1, hdt⟩⟩
  · exact ⟨hdt.symm, Or.inr (Or.inl ⟨d, hd1, hdt⟩)⟩
  · split at hc
    · rename_i hb
      simp only [Bool.and_eq_true] at hb
      simp only [List.mem_singleton] at hc
      subst hc
      exact ⟨rfl, Or.inr (Or.inr hb)⟩
    · simp at hc

theorem zdTargets_tgtOK (pd : PD ι ℝ) (z : ℝ) (obs : List (Obs ι ℝ)) :
    ∀ c ∈ zdTargets pd z obs, TgtOK pd obs c.1 := by
  intro c hc
  unfold zdTargets at hc
  obtain ⟨za, hza, hc⟩ := List.mem_flatMap.mp hc
  obtain ⟨hk, hzo⟩ := mem_zdAngles _ obs za hza
  have hk' : (pd za.t).bz = false := by simpa using hk
  obtain ⟨e, hcon⟩ := zdTargetHeights_id pd z _ _ za c hc
  rw [e]
  refine ⟨hk', za.f, za.v, za.fdh, za.tdh, hzo, ?_⟩
  rcases hcon with ⟨d, hd, hdt⟩ | ⟨d, hd, hdt⟩ | hb
  · obtain ⟨_, f, ho⟩ := mem_zdDistances _ obs d hd
    exact Or.inl ⟨f, d.2, hdt ▸ ho⟩
  · obtain ⟨_, f, a, b, ho⟩ := mem_zdSDistances _ obs d hd
    exact Or.inr (Or.inl ⟨f, d.2, a, b, hdt ▸ ho⟩)
  · exact Or.inr (Or.inr hb)

theorem tgtOK_zdTargets (pd : PD ι ℝ) (z : ℝ) (obs : List (Obs ι ℝ)) (t : ι) (h : TgtOK pd obs t) :
    ∃ c ∈ zdTargets pd z obs, c.1 = t := by
  obtain ⟨hb, f, v, a, b, hz, hcon⟩ := h
  have hk : (fun t => !(pd t).bz) t = true := by simp [hb]
  have hza := zdAngles_mem (fun t => !(pd t).bz) obs f t v a b hz hk
  have hx : ∃ c, c ∈ zdTargetHeights pd z (zdDistances (fun t => !(pd t).bz) obs)
      (zdSDistances (fun t => !(pd t).bz) obs) (⟨f, t, v, a, b⟩ : ZA ι ℝ) ∧ c.1 = t := by
    unfold zdTargetHeights
    rcases hcon with ⟨f', v', hd⟩ | ⟨f', v', a', b', hd⟩ | ⟨h1, h2⟩
    · have hd' := zdDistances_mem (fun t => !(pd t).bz) obs f' t v' hd hk
      exact ⟨_, List.mem_append.mpr (Or.inl (List.mem_append.mpr (Or.inl
        (List.mem_map.mpr ⟨(t, v'), List.mem_filter.mpr ⟨hd', by simp⟩, rfl⟩)))), rfl⟩
    · have hd' := zdSDistances_mem (fun t => !(pd t).bz) obs f' t v' a' b' hd hk
      exact ⟨_, List.mem_append.mpr (Or.inl (List.mem_append.mpr (Or.inr
        (List.mem_map.mpr ⟨(t, v'), List.mem_filter.mpr ⟨hd', by simp⟩, rfl⟩)))), rfl⟩
    · simp only [h1, h2, Bool.and_self, if_true]
      exact ⟨_, List.mem_append.mpr (Or.inr (List.mem_singleton.mpr rfl)), rfl⟩
  obtain ⟨c, hc, e⟩ := hx
  unfold zdTargets
  exact ⟨c, List.mem_flatMap.mpr ⟨_, hza, hc⟩, e⟩

theorem zdStation_stOK (pd : PD ι ℝ) (obs : List (Obs ι ℝ)) (z : ℝ) (h : zdStation pd obs = some z) : StOK pd obs := by
  unfold zdStation at h
  simp only at h
  split at h
  · cases h
  · rename_i hne
    split at h
    · cases h
    · rename_i hsp
      simp only [Bool.or_eq_true, Bool.and_eq_true, not_or, not_and] at hne
      -- a distance of either kind to a point with a height
      have hfirst : ∃ t, (pd t).bz = true ∧ (HasD obs t ∨ HasS obs t) := by
        by_cases hd : (zdDistances (fun t => (pd t).bz) obs).isEmpty = true
        · have hs := hne.2 hd
          cases hss : zdSDistances (fun t => (pd t).bz) obs with
          | nil => rw [hss] at hs; simp at hs
          | cons d _ =>
            obtain ⟨hk, f, a, b, ho⟩ := mem_zdSDistances _ obs d (by rw [hss]; simp)
            exact ⟨d.1, hk, Or.inr ⟨f, d.2, a, b, ho⟩⟩
        · cases hds : zdDistances (fun t => (pd t).bz) obs with
          | nil => rw [hds] at hd; simp at hd
          | cons d _ =>
            obtain ⟨hk, f, ho⟩ := mem_zdDistances _ obs d (by rw [hds]; simp)
            exact ⟨d.1, hk, Or.inl ⟨f, d.2, ho⟩⟩
      refine ⟨hfirst, ?_⟩
      cases hsp' : (zdAngles (fun t => (pd t).bz) obs).flatMap
          (zdStationHeights pd (zdDistances (fun t => (pd t).bz) obs) (zdSDistances (fun t => (pd t).bz) obs)) with
      | nil => rw [hsp'] at hsp; simp at hsp
      | cons x _ =>
        have hx : x ∈ (zdAngles (fun t => (pd t).bz) obs).flatMap
            (zdStationHeights pd (zdDistances (fun t => (pd t).bz) obs) (zdSDistances (fun t => (pd t).bz) obs)) := by
          rw [hsp']; simp
        obtain ⟨za, hza, hx⟩ := List.mem_flatMap.mp hx
        obtain ⟨hk, hzo⟩ := mem_zdAngles _ obs za hza
        refine ⟨za.f, za.t, za.v, za.fdh, za.tdh, hzo, hk, ?_⟩
        unfold zdStationHeights at hx
        simp only [List.mem_append, List.mem_map, List.mem_filter, decide_eq_true_eq] at hx
        rcases hx with (⟨d, ⟨hd1, hdt⟩, _⟩ | ⟨d, ⟨hd1, hdt⟩, _⟩) | hx
        · obtain ⟨_, f, ho⟩ := mem_zdDistances _ obs d hd1
          exact Or.inl ⟨f, d.2, hdt ▸ ho⟩
        · obtain ⟨_, f, a, b, ho⟩ := mem_zdSDistances _ obs d hd1
          exact Or.inr (Or.inl ⟨f, d.2, a, b, hdt ▸ ho⟩)
        · split at hx
          · rename_i hb
            simp only [Bool.and_eq_true] at hb
            exact Or.inr (Or.inr hb)
          · simp at hx

theorem stOK_zdStation (pd : PD ι ℝ) (obs : List (Obs ι ℝ)) (h : StOK pd obs) : ∃ z, zdStation pd obs = some z := by
  obtain ⟨⟨t0, hb0, hfirst⟩, f, t, v, a, b, hz, hb, hcon⟩ := h
  have hza := zdAngles_mem (fun t => (pd t).bz) obs f t v a b hz hb
  have h1 : ((zdAngles (fun t => (pd t).bz) obs).isEmpty ||
      ((zdDistances (fun t => (pd t).bz) obs).isEmpty && (zdSDistances (fun t => (pd t).bz) obs).isEmpty)) = false := by
    rw [isEmpty_false_of_mem hza]
    rcases hfirst with ⟨f', v', hd⟩ | ⟨f', v', a', b', hd⟩
    · rw [isEmpty_false_of_mem (zdDistances_mem (fun t => (pd t).bz) obs f' t0 v' hd hb0)]; rfl
    · rw [isEmpty_false_of_mem (zdSDistances_mem (fun t => (pd t).bz) obs f' t0 v' a' b' hd hb0)]; simp
  have hx : ∃ x, x ∈ zdStationHeights pd (zdDistances (fun t => (pd t).bz) obs) (zdSDistances (fun t => (pd t).bz) obs)
      (⟨f, t, v, a, b⟩ : ZA ι ℝ) := by
    unfold zdStationHeights
    rcases hcon with ⟨f', v', hd⟩ | ⟨f', v', a', b', hd⟩ | ⟨c1, c2⟩
    · have hd' := zdDistances_mem (fun t => (pd t).bz) obs f' t v' hd hb
      exact ⟨_, List.mem_append.mpr (Or.inl (List.mem_append.mpr (Or.inl
          (List.mem_map.mpr ⟨(t, v'), List.mem_filter.mpr ⟨hd', by simp⟩, rfl⟩))))⟩
    · have hd' := zdSDistances_mem (fun t => (pd t).bz) obs f' t v' a' b' hd hb
      exact ⟨_, List.mem_append.mpr (Or.inl (List.mem_append.mpr (Or.inr
          (List.mem_map.mpr ⟨(t, v'), List.mem_filter.mpr ⟨hd', by simp⟩, rfl⟩))))⟩
    · simp only [c1, c2, Bool.and_self, if_true]
      exact ⟨_, List.mem_append.mpr (Or.inr (List.mem_singleton.mpr rfl))⟩
  obtain ⟨x, hx⟩ := hx
  have h2 : ((zdAngles (fun t => (pd t).bz) obs).flatMap
      (zdStationHeights pd (zdDistances (fun t => (pd t).bz) obs) (zdSDistances (fun t => (pd t).bz) obs))).isEmpty =
      false := isEmpty_false_of_mem (List.mem_flatMap.mpr ⟨_, hza, hx⟩)
  unfold zdStation
  simp only [h1, h2, Bool.false_eq_true, if_false]
  exact ⟨_, rfl⟩

theorem zdCluster_mono {pd pd' : PD ι ℝ} (hf : FlagLe pd pd') (s : ι) {obs obs' : List (Obs ι ℝ)}
    (hs : ∀ x ∈ obs, x ∈ obs') : ∀ c ∈ zdCluster pd s obs,
      (∃ c' ∈ zdCluster pd' s obs', c'.1 = c.1) ∨ (pd' c.1).bz = true := by
  intro c hc
  -- a target of the small run
  have htgt : ∀ z, c ∈ zdTargets pd z obs → (∃ c' ∈ zdCluster pd' s obs', c'.1 = c.1) ∨ (pd' c.1).bz = true := by
    intro z hz
    rcases tgtOK_mono hf hs (zdTargets_tgtOK pd z obs c hz) with h1 | h1
    · left
      unfold zdCluster
      by_cases hb' : (pd' s).bz = true
      · simp only [hb', if_true]; exact tgtOK_zdTargets pd' _ obs' c.1 h1
      · simp only [hb']
        -- the station height exists in the large run as well
        have hst : StOK pd' obs' := by
          unfold zdCluster at hc
          by_cases hb : (pd s).bz = true
          · exact absurd (hf.2 _ hb) hb'
          · simp only [hb] at hc
            cases hq : zdStation pd obs with
            | none => rw [hq] at hc; simp at hc
            | some z0 => exact stOK_mono hf hs (zdStation_stOK pd obs z0 hq)
        obtain ⟨z', hz'⟩ := stOK_zdStation pd' obs' hst
        rw [hz']
        obtain ⟨c', hc', e⟩ := tgtOK_zdTargets pd' z' obs' c.1 h1
        exact ⟨c', by simp [hc'], e⟩
    · exact Or.inr h1
  unfold zdCluster at hc
  by_cases hb : (pd s).bz = true
  · simp only [hb, if_true] at hc; exact htgt _ hc
  · simp only [hb] at hc
    cases hq : zdStation pd obs with
    | none => rw [hq] at hc; simp at hc
    | some z0 =>
      rw [hq] at hc
      rcases List.mem_cons.mp hc with rfl | hc
      · by_cases hb' : (pd' s).bz = true
        · exact Or.inr hb'
        · left
          obtain ⟨z', hz'⟩ := stOK_zdStation pd' obs' (stOK_mono hf hs (zdStation_stOK pd obs z0 hq))
          unfold zdCluster
          simp only [hb', hz']
          exact ⟨(s, z'), by simp, rfl⟩
      · exact htgt _ hc

theorem mem_zdAll (pd : PD ι ℝ) (od : List (Cluster ι ℝ)) (c : ι × ℝ) :
    c ∈ zdAll pd od ↔ ∃ s obs, Cluster.standpoint s obs ∈ od ∧ c ∈ zdCluster pd s obs := by
  induction od with
  | nil => simp [zdAll]
  | cons cl cs ih =>
    cases cl with
    | standpoint s obs =>
      simp only [zdAll, List.mem_append, ih, List.mem_cons]
      constructor
      · rintro (h | ⟨s', obs', h1, h2⟩)
        · exact ⟨s, obs, Or.inl rfl, h⟩
        · exact ⟨s', obs', Or.inr h1, h2⟩
      · rintro ⟨s', obs', h1 | h1, h2⟩
        · cases h1; exact Or.inl h2
        · exact Or.inr ⟨s', obs', h1, h2⟩
    | hdiffs o =>
      simp only [zdAll, ih, List.mem_cons]
      constructor
      · rintro ⟨s', obs', h1, h2⟩; exact ⟨s', obs', Or.inr h1, h2⟩
      · rintro ⟨s', obs', h1 | h1, h2⟩
        · cases h1
        · exact ⟨s', obs', h1, h2⟩
    | vectors o =>
      simp only [zdAll, ih, List.mem_cons]
      constructor
      · rintro ⟨s', obs', h1, h2⟩; exact ⟨s', obs', Or.inr h1, h2⟩
      · rintro ⟨s', obs', h1 | h1, h2⟩
        · cases h1
        · exact ⟨s', obs', h1, h2⟩

/-- **the ids AcordZderived proposes heights for are monotone**: an id with a candidate from (`pd`, `od`) has a
    candidate from (`pd' ≥ pd`, `od' ⊇ od`) or a height in `pd'` -/
theorem zdAll_mono {pd pd' : PD ι ℝ} (hf : FlagLe pd pd') {od od' : List (Cluster ι ℝ)} (hle : OdLe od od') :
    ∀ c ∈ zdAll pd od, (∃ c' ∈ zdAll pd' od', c'.1 = c.1) ∨ (pd' c.1).bz = true := by
  intro c hc
  obtain ⟨s, obs, hcl, hc⟩ := (mem_zdAll pd od c).mp hc
  obtain ⟨obs', hcl', hsub⟩ := hle.standpoint s obs hcl
  rcases zdCluster_mono hf s (fun x hx => hsub.subset hx) c hc with ⟨c', h1, h2⟩ | h
  · exact Or.inl ⟨c', (mem_zdAll pd' od' c').mpr ⟨s, obs', hcl', h1⟩, h2⟩
  · exact Or.inr h

end zderived

/-! ### AcordZderived and the bookkeeping: step monotonicity -/

section zdbook
variable {ι : Type} [DecidableEq ι]

theorem StRel.congr {o : ObsSet ι} {s s' s1 s1' : St ι ℝ} (h : StRel o s s') (e1 : s1.pd = s.pd)
    (e2 : s1.missXY = s.missXY) (e3 : s1.missZ = s.missZ) (e1' : s1'.pd = s'.pd) (e2' : s1'.missXY = s'.missXY)
    (e3' : s1'.missZ = s'.missZ) : StRel o s1 s1' := by
  obtain ⟨pd, mxy, mz, c⟩ := s
  obtain ⟨pd', mxy', mz', c'⟩ := s'
  obtain ⟨pd1, mxy1, mz1, c1⟩ := s1
  obtain ⟨pd1', mxy1', mz1', c1'⟩ := s1'
  simp only at e1 e2 e3 e1' e2' e3'
  subst e1 e2 e3 e1' e2' e3'
  exact ⟨h.kxy, h.kz, h.mxy, h.mz, h.sxy, h.sz, h.uxy, h.uz, h.muxy, h.muz, h.muxy', h.muz'⟩

/-- what one (possibly idling) call of AcordZderived::execute does to the global state -/
structure ZdStep (od : List (Cluster ι ℝ)) (g g1 : G5 ι) : Prop where
  pd : g1.st.pd = g.st.pd
  mxy : g1.st.missXY = g.st.missXY
  mz : g1.st.missZ = g.st.missZ
  cxy : g1.candXY = g.candXY
  az : g1.priv.az = g.priv.az
  hd : g1.priv.hd = g.priv.hd
  vec : g1.priv.vec = g.priv.vec
  rest : g1.priv.rest = g.priv.rest
  cand : (g1.st.candZ = g.st.candZ ∧ (g.priv.zd.completed = true ∨ g.st.missZ = [])) ∨
    g1.st.candZ = g.st.candZ ++ zdAll g.st.pd od
  comp : g1.priv.zd.completed = true → g.priv.zd.completed = true ∨ g.st.missZ = []

theorem zdStep (od : List (Cluster ι ℝ)) (g : G5 ι) : ZdStep od g (idle (zdAlg od) g) := by
  unfold idle
  by_cases hc : (zdAlg od).completed g = true
  · rw [if_pos hc]
    exact ⟨rfl, rfl, rfl, rfl, rfl, rfl, rfl, rfl, Or.inl ⟨rfl, Or.inl hc⟩, fun _ => Or.inl hc⟩
  · rw [if_neg hc]
    have hc' : ¬ g.priv.zd.completed = true := hc
    obtain ⟨e1, e2, e3⟩ := zdAlg_exec (Q := AiPriv ℝ) od g
    obtain ⟨z1, z2, z3, _⟩ := zdExecute_st od g.priv.zd g.st
    refine ⟨by rw [e1, z1], by rw [e1, z2], by rw [e1, z3], e2, by rw [e3], by rw [e3], by rw [e3], by rw [e3], ?_, ?_⟩
    · rw [e1]; unfold zdExecute; split
      · rename_i hm; exact Or.inl ⟨rfl, Or.inr (List.isEmpty_iff.mp hm)⟩
      · exact Or.inr rfl
    · rw [e3]; intro h; right; revert h; unfold zdExecute; split
      · rename_i hm; intro _; exact List.isEmpty_iff.mp hm
      · intro h; simp at h

/-- **AcordZderived is monotone in the observation set** -/
theorem zd_stepMono (fuel : Nat) (Rai : AiPriv ℝ → AiPriv ℝ → Prop) (Sound : G5 ι → Prop) (o o' : ObsSet ι)
    (hle : ObsSet.le o o') :
    StepMono Sound (KL fuel Rai o o') (idle (zdAlg o.od)) (idle (zdAlg o'.od)) := by
  intro g g' _ _ hk
  have z := zdStep o.od g
  have z' := zdStep o'.od g'
  have hsub' : ∀ x ∈ g'.st.candZ, x ∈ (idle (zdAlg o'.od) g').st.candZ := by
    intro x hx
    rcases z'.cand with ⟨e, _⟩ | e
    · rw [e]; exact hx
    · rw [e]; exact List.mem_append.mpr (Or.inl hx)
  refine ⟨hk.st.congr z.pd z.mxy z.mz z'.pd z'.mxy z'.mz, z.cxy.trans hk.cxy, z'.cxy.trans hk.cxy', ?_, ?_, ?_, ?_, ?_, ?_⟩
  · -- candidates
    have hold : ∀ x ∈ g.st.candZ, (∃ x' ∈ (idle (zdAlg o'.od) g').st.candZ, x'.1 = x.1) ∨
        ((idle (zdAlg o'.od) g').st.pd x.1).bz = true := by
      intro x hx
      rw [z'.pd]
      rcases hk.cz x hx with ⟨x', h1, h2⟩ | h1
      · exact Or.inl ⟨x', hsub' x' h1, h2⟩
      · exact Or.inr h1
    intro x hx
    rcases z.cand with ⟨e, _⟩ | e
    · rw [e] at hx; exact hold x hx
    · rw [e] at hx
      rcases List.mem_append.mp hx with hx | hx
      · exact hold x hx
      · rw [z'.pd]
        rcases z'.cand with ⟨_, hcm⟩ | e'
        · -- the large run has nothing missing: the point is known there
          have hnil : g'.st.missZ = [] := hcm.elim hk.zd id
          have hmem := hk.st.uz x.1 ⟨g.st.pd, x, hx, rfl⟩ (zdAll_unknown g.st.pd o.od x hx)
          rcases hk.st.mz x.1 hmem with h1 | h1
          · rw [hnil] at h1; simp at h1
          · exact Or.inr h1
        · rcases zdAll_mono (pd := g.st.pd) (pd' := g'.st.pd) ⟨hk.st.kxy, hk.st.kz⟩ hle.od x hx with ⟨c', h1, h2⟩ | h1
          · exact Or.inl ⟨c', by rw [e']; exact List.mem_append.mpr (Or.inr h1), h2⟩
          · exact Or.inr h1
  · rw [z.az, z'.az, z'.pd]; exact hk.az
  · rw [z.hd, z'.hd, z'.pd]; exact hk.hd
  · rw [z.vec, z'.vec, z'.pd]; exact hk.vec
  · intro hc
    rw [z'.mz]
    exact (z'.comp hc).elim hk.zd id
  · rw [z.rest, z'.rest]; exact hk.ai

theorem wrZ_bz (s : St ι ℝ) (j : ι) (v : ℝ) (i : ι) :
    ((wrZ s j v).pd i).bz = true ↔ (s.pd i).bz = true ∨ i = j := by
  by_cases h : i = j
  · subst h; simp [wrZ, upd_same, LP.setZ]
  · simp [wrZ, upd_other _ _ _ _ h, h]

theorem medZFold_bz (cand : List (ι × ℝ)) : ∀ (ids : List ι) (s : St ι ℝ) (i : ι),
    ((ids.foldl (medZStep cand) s).pd i).bz = true ↔ (s.pd i).bz = true ∨ i ∈ ids := by
  intro ids
  induction ids with
  | nil => intro s i; simp
  | cons j js ih =>
    intro s i
    simp only [List.foldl_cons, List.mem_cons]
    rw [ih, medZStep_eq, wrZ_bz]
    tauto

/-- `get_medians_z` gives a height exactly to the points that had one or have a candidate -/
theorem getMediansZ_bz (st : St ι ℝ) (i : ι) :
    ((getMediansZ st).pd i).bz = true ↔ (st.pd i).bz = true ∨ ∃ c ∈ st.candZ, c.1 = i := by
  unfold getMediansZ
  rw [medZFold_bz]
  constructor
  · rintro (h | h)
    · exact Or.inl h
    · obtain ⟨c, hc, e⟩ := List.mem_map.mp (mem_dedup _ i h)
      exact Or.inr ⟨c, hc, e⟩
  · rintro (h | ⟨c, hc, e⟩)
    · exact Or.inl h
    · exact Or.inr (mem_dedup_of_mem _ i (List.mem_map.mpr ⟨c, hc, e⟩))

theorem book5_st (slope : Bool) (g : G5 ι) (h : g.candXY = []) :
    (book5 slope g).st = { getMediansZ g.st with candZ := [] } := by
  have e : (getMedians slope g).st = g.st := by rw [(getMedians_st slope g).1, h]; rfl
  show ({ getMediansZ (getMedians slope g).st with candZ := [] } : St ι ℝ) = _
  rw [e]

/-- **the bookkeeping is monotone** (`monoBook`): `get_medians` has nothing to do (`candidate_xy_` is empty),
    `get_medians_z` publishes a height for every id with a candidate, the candidate lists are cleared -/
theorem book_mono (fuel : Nat) (Rai : AiPriv ℝ → AiPriv ℝ → Prop) (o o' : ObsSet ι) (slope : Bool) (g g' : G5 ι)
    (hk : KL fuel Rai o o' g g') : KL fuel Rai o o' (book5 slope g) (book5 slope g') := by
  have e := book5_st slope g hk.cxy
  have e' := book5_st slope g' hk.cxy'
  have k := getMediansZ_stepOK g.st
  have k' := getMediansZ_stepOK g'.st
  have fl' := stFlags_flagLe k'.flags
  have hxy := (getMediansZ_flags g.st).2.1
  have hxy' := (getMediansZ_flags g'.st).2.1
  have kxy1 : ∀ i, ((getMediansZ g.st).pd i).bxy = true → ((getMediansZ g'.st).pd i).bxy = true := by
    intro i hi; rw [(hxy' i).1]; exact hk.st.kxy i (by rw [← (hxy i).1]; exact hi)
  have kz1 : ∀ i, ((getMediansZ g.st).pd i).bz = true → ((getMediansZ g'.st).pd i).bz = true := by
    intro i hi
    rw [getMediansZ_bz] at hi ⊢
    rcases hi with h | ⟨c, hc, rfl⟩
    · exact Or.inl (hk.st.kz i h)
    · rcases hk.cz c hc with ⟨c', h1, h2⟩ | h1
      · exact Or.inr ⟨c', h1, h2⟩
      · exact Or.inl h1
  have hst := hk.st.step k k' kxy1 kz1
  have epd' : (book5 slope g').st.pd = (getMediansZ g'.st).pd := by rw [e']
  refine ⟨?_, rfl, rfl, ?_, ?_, ?_, ?_, ?_, hk.ai⟩
  · rw [e, e']; exact hst.congr rfl rfl rfl rfl rfl rfl
  · rw [e]; intro x hx; simp at hx
  · rw [epd']; exact hk.az.mono fl'
  · rw [epd']; exact hk.hd.mono fl'
  · rw [epd']; exact hk.vec.mono fl'
  · intro hc
    have h0 : g'.st.missZ = [] := hk.zd hc
    rw [e']
    show (getMediansZ g'.st).missZ = []
    exact missZ_nil_of_step k' h0

end zdbook

/-! ### AcordAzimuth: step monotonicity of `execute` (the single pass in key order), given that of `prepare` -/

section azimuth
variable {ι : Type} [DecidableEq ι]

/-- which xy a turn of the loop of AcordAzimuth::execute can define -/
theorem azStep_bxy (xN : ℝ) (st : St ι ℝ) (e : AzEntry ι ℝ) (i : ι) (h : ((azStep xN st e).pd i).bxy = true) :
    (st.pd i).bxy = true ∨ (i = e.b ∧ (st.pd e.a).bxy = true ∧ e.distance ≠ 0) ∨
    (i = e.a ∧ (st.pd e.b).bxy = true ∧ e.distance ≠ 0) := by
  rcases azStep_cases xN st e with h1 | ⟨ha, _, hd0, h1⟩ | ⟨_, hb, hd0, h1⟩
  · rw [h1] at h; exact Or.inl h
  · rw [h1] at h
    by_cases hi : i = e.b
    · exact Or.inr (Or.inl ⟨hi, ha, hd0⟩)
    · simp only [azFwd, upd_other _ _ _ _ hi] at h; exact Or.inl h
  · rw [h1] at h
    by_cases hi : i = e.a
    · exact Or.inr (Or.inr ⟨hi, hb, hd0⟩)
    · simp only [azRev, upd_other _ _ _ _ hi] at h; exact Or.inl h

theorem azStep_sets_b (xN : ℝ) (st : St ι ℝ) (e : AzEntry ι ℝ) (ha : (st.pd e.a).bxy = true) (hd0 : e.distance ≠ 0) :
    ((azStep xN st e).pd e.b).bxy = true := by
  have hbq : Scalar.beq e.distance 0 = false := by
    cases hq : Scalar.beq e.distance 0
    · rfl
    · exact absurd ((beq_eq _ _).mp hq) hd0
  unfold azStep
  by_cases hb : (st.pd e.b).bxy = true
  all_goals simp [ha, hb, hbq, upd_same, LP.setXY]

theorem azStep_sets_a (xN : ℝ) (st : St ι ℝ) (e : AzEntry ι ℝ) (hb : (st.pd e.b).bxy = true) (hd0 : e.distance ≠ 0) :
    ((azStep xN st e).pd e.a).bxy = true := by
  have hbq : Scalar.beq e.distance 0 = false := by
    cases hq : Scalar.beq e.distance 0
    · rfl
    · exact absurd ((beq_eq _ _).mp hq) hd0
  unfold azStep
  by_cases ha : (st.pd e.a).bxy = true
  all_goals simp [ha, hb, hbq, upd_same, LP.setXY]

theorem azStep_keep (xN : ℝ) (st : St ι ℝ) (e : AzEntry ι ℝ) (i : ι) (h : (st.pd i).bxy = true) :
    ((azStep xN st e).pd i).bxy = true := ((azStep_mono xN st e).1 i h).1

theorem azFold_keep (xN : ℝ) (l : List (AzEntry ι ℝ)) (st : St ι ℝ) (i : ι) (h : (st.pd i).bxy = true) :
    ((l.foldl (azStep xN) st).pd i).bxy = true := ((azFold_mono xN l st).1 i h).1

/-- **the simulation of the two passes**: if `azimuths_` of the small run is embedded in key order in `azimuths_` of
    the large run, the pass of the large run defines every xy the pass of the small run defines -/
theorem azFold_sim (xN : ℝ) {pd0' : PD ι ℝ} {l l' : List (AzEntry ι ℝ)} (h : AzEmb pd0' l l') :
    ∀ (st st' : St ι ℝ), (∀ i, (pd0' i).bxy = true → (st'.pd i).bxy = true) →
      (∀ i, (st.pd i).bxy = true → (st'.pd i).bxy = true) →
      ∀ i, ((l.foldl (azStep xN) st).pd i).bxy = true → ((l'.foldl (azStep xN) st').pd i).bxy = true := by
  induction h with
  | nil l' => intro st st' _ hk i hi; exact azFold_keep xN l' st' i (hk i hi)
  | skip e' _ ih =>
    intro st st' h0 hk i hi
    simp only [List.foldl_cons]
    exact ih st (azStep xN st' e') (fun j hj => azStep_keep xN st' e' j (h0 j hj))
      (fun j hj => azStep_keep xN st' e' j (hk j hj)) i hi
  | @both e e' l l' hm _ ih =>
    intro st st' h0 hk i hi
    simp only [List.foldl_cons] at hi ⊢
    obtain ⟨ma, mb, md⟩ := hm
    refine ih (azStep xN st e) (azStep xN st' e') (fun j hj => azStep_keep xN st' e' j (h0 j hj)) (fun j hj => ?_) i hi
    rcases azStep_bxy xN st e j hj with h1 | ⟨rfl, h1, h2⟩ | ⟨rfl, h1, h2⟩
    · exact azStep_keep xN st' e' j (hk j h1)
    · rw [← mb]; exact azStep_sets_b xN st' e' (by rw [ma]; exact hk _ h1) (md h2)
    · rw [← ma]; exact azStep_sets_a xN st' e' (by rw [mb]; exact hk _ h1) (md h2)
  | @drop e l l' hb _ ih =>
    intro st st' h0 hk i hi
    simp only [List.foldl_cons] at hi
    refine ih (azStep xN st e) st' h0 (fun j hj => ?_) i hi
    rcases azStep_bxy xN st e j hj with h1 | ⟨rfl, _, _⟩ | ⟨rfl, _, _⟩
    · exact hk j h1
    · exact h0 _ hb.2
    · exact h0 _ hb.1

theorem azRemoveKnown_cons (pd : PD ι ℝ) (e : AzEntry ι ℝ) (l : List (AzEntry ι ℝ)) :
    azRemoveKnown pd (e :: l) =
      if (pd e.a).bxy = true ∧ (pd e.b).bxy = true then azRemoveKnown pd l else e :: azRemoveKnown pd l := by
  unfold azRemoveKnown
  by_cases h : (pd e.a).bxy = true ∧ (pd e.b).bxy = true
  · rw [if_pos h, List.filter_cons_of_neg (by simp [h.1, h.2])]
  · rw [if_neg h, List.filter_cons_of_pos]
    cases h1 : (pd e.a).bxy <;> cases h2 : (pd e.b).bxy <;> simp_all

/-- the embedding survives `remove_azimuths_between_known_xy` on both sides -/
theorem azEmb_filter {pd0' : PD ι ℝ} {l l' : List (AzEntry ι ℝ)} (h : AzEmb pd0' l l') (pd1 pd1' : PD ι ℝ)
    (h0 : ∀ i, (pd0' i).bxy = true → (pd1' i).bxy = true) (hk : ∀ i, (pd1 i).bxy = true → (pd1' i).bxy = true) :
    AzEmb pd1' (azRemoveKnown pd1 l) (azRemoveKnown pd1' l') := by
  induction h with
  | nil l' => exact .nil _
  | skip e' _ ih =>
    rw [azRemoveKnown_cons pd1' e']
    split
    · exact ih
    · exact .skip e' ih
  | @both e e' l l' hm _ ih =>
    rw [azRemoveKnown_cons pd1 e, azRemoveKnown_cons pd1' e']
    obtain ⟨ma, mb, md⟩ := hm
    by_cases h1 : (pd1 e.a).bxy = true ∧ (pd1 e.b).bxy = true
    · have h1' : (pd1' e'.a).bxy = true ∧ (pd1' e'.b).bxy = true := by
        rw [ma, mb]; exact ⟨hk _ h1.1, hk _ h1.2⟩
      rw [if_pos h1, if_pos h1']; exact ih
    · rw [if_neg h1]
      by_cases h1' : (pd1' e'.a).bxy = true ∧ (pd1' e'.b).bxy = true
      · rw [if_pos h1']
        exact .drop (by rw [ma, mb] at h1'; exact h1') ih
      · rw [if_neg h1']; exact .both ⟨ma, mb, md⟩ ih
  | @drop e l l' hb _ ih =>
    rw [azRemoveKnown_cons pd1 e]
    split
    · exact ih
    · exact .drop ⟨h0 _ hb.1, h0 _ hb.2⟩ ih

/-- `AcordAzimuth::prepare` is monotone (proved below: `azPrepMono_of_exact`) — the map of azimuths built from `o`
    (pairs with an azimuth, not between points with xy; median azimuth, median distance) is embedded in key order in
    the map built from `o' ⊇ o` on a point list that knows at least as much.  (For exact data the medians of a pair
    agree, so a pair that is usable — `distance ≠ 0` — from `o` is usable from `o'`.) -/
def AzPrepMono (fuel : Nat) (lt : ι → ι → Bool) (T : Truth ι) (o o' : ObsSet ι) : Prop :=
  ∀ pd pd' : PD ι ℝ, SoundXY T pd → SoundXY T pd' → (∀ i, (pd i).bxy = true → (pd' i).bxy = true) →
    AzEmb pd' (azPrepare fuel lt pd (spObs o.od)) (azPrepare fuel lt pd' (spObs o'.od))

/-- `azimuths_` as `execute` uses it: `if (!prepared_) prepare();` -/
noncomputable def azEff (fuel : Nat) (lt : ι → ι → Bool) (od : List (Cluster ι ℝ)) (alg : AzAlg ι ℝ) (st : St ι ℝ) :
    List (AzEntry ι ℝ) := if alg.prepared then alg.azs else azPrepare fuel lt st.pd (spObs od)

theorem azExecute_eq (fuel : Nat) (lt : ι → ι → Bool) (xN : ℝ) (od : List (Cluster ι ℝ)) (alg : AzAlg ι ℝ)
    (st : St ι ℝ) :
    azExecute fuel lt xN od alg st =
      (⟨true, alg.completed || (azRemoveKnown ((azEff fuel lt od alg st).foldl (azStep xN) st).pd
          (azEff fuel lt od alg st)).isEmpty,
        azRemoveKnown ((azEff fuel lt od alg st).foldl (azStep xN) st).pd (azEff fuel lt od alg st)⟩,
       (azEff fuel lt od alg st).foldl (azStep xN) st) := rfl

theorem azIdle_cases (fuel : Nat) (lt : ι → ι → Bool) (xN : ℝ) (od : List (Cluster ι ℝ)) (g : G5 ι) :
    (g.priv.az.completed = true ∧ idle (azAlg fuel lt xN od) g = g) ∨
    (g.priv.az.completed = false ∧ idle (azAlg fuel lt xN od) g =
      { g with st := (azExecute fuel lt xN od g.priv.az g.st).2,
               priv := { g.priv with az := (azExecute fuel lt xN od g.priv.az g.st).1 } }) := by
  by_cases hc : g.priv.az.completed = true
  · left; refine ⟨hc, ?_⟩; unfold idle; rw [if_pos (show (azAlg fuel lt xN od).completed g = true from hc)]
  · right
    refine ⟨by simpa using hc, ?_⟩
    unfold idle; rw [if_neg (show ¬ (azAlg fuel lt xN od).completed g = true from hc)]
    rfl

/-- **AcordAzimuth is monotone in the observation set**, given that its `prepare` is (`AzPrepMono`, discharged by
    `azPrepMono_of_exact`) -/
theorem az_stepMono (fuel : Nat) (lt : ι → ι → Bool) (xN : ℝ) (Rai : AiPriv ℝ → AiPriv ℝ → Prop) (T : Truth ι)
    (IRai : AiPriv ℝ → Prop) (o o' : ObsSet ι) (hprep : AzPrepMono fuel lt T o o') :
    StepMono (Sound5 T xN IRai) (KL fuel Rai o o') (idle (azAlg fuel lt xN o.od)) (idle (azAlg fuel lt xN o'.od)) := by
  intro g g' hs hs' hk
  -- the embedding of the lists the two passes run over
  have emb0 : AzEmb g'.st.pd (azEff fuel lt o.od g.priv.az g.st) (azEff fuel lt o'.od g'.priv.az g'.st) := by
    unfold azEff
    by_cases hp : g.priv.az.prepared = true
    · have hp' : g'.priv.az.prepared = true := hk.az.prep ▸ hp
      simp only [hp, hp', if_true]; exact hk.az.emb hp
    · have hp' : ¬ g'.priv.az.prepared = true := by rw [← hk.az.prep]; exact hp
      simp only [hp, hp']; exact hprep g.st.pd g'.st.pd hs.sxy hs'.sxy hk.st.kxy
  have comp1 : ∀ (od : List (Cluster ι ℝ)) (a : AzAlg ι ℝ) (st : St ι ℝ), a.completed = false →
      (azExecute fuel lt xN od a st).1.completed = true →
      (azExecute fuel lt xN od a st).1.prepared = true ∧ (azExecute fuel lt xN od a st).1.azs = [] := by
    intro od a st hc h
    rw [azExecute_eq] at h ⊢
    simp only [hc, Bool.false_or] at h
    exact ⟨rfl, List.isEmpty_iff.mp h⟩
  rcases azIdle_cases fuel lt xN o.od g with ⟨c, e⟩ | ⟨c, e⟩
  · rcases azIdle_cases fuel lt xN o'.od g' with ⟨c', e'⟩ | ⟨c', e'⟩
    · rw [e, e']; exact hk
    · rw [e, e']
      have k' := azExecute_stepOK fuel lt xN o'.od g'.priv.az g'.st
      have fl := stFlags_flagLe k'.flags
      refine hk.frame (g1 := g) (StepOK.refl _) k' (fun i hi => fl.1 i (hk.st.kxy i hi))
        (fun i hi => fl.2 i (hk.st.kz i hi)) rfl rfl ?_ (hk.hd.mono fl) (hk.vec.mono fl) rfl hk.ai
      refine ⟨(hk.az.comp c).1, hk.az.comp, comp1 o'.od _ _ c', fun _ => ?_⟩
      rw [(hk.az.comp c).2]; exact .nil _
  · have k := azExecute_stepOK fuel lt xN o.od g.priv.az g.st
    have sz := (azExecute_mono fuel lt xN o.od g.priv.az g.st).2.1
    rcases azIdle_cases fuel lt xN o'.od g' with ⟨c', e'⟩ | ⟨c', e'⟩
    · rw [e, e']
      obtain ⟨hp', hnil'⟩ := hk.az.comp' c'
      have hp : g.priv.az.prepared = true := hk.az.prep.trans hp'
      have eeff' : azEff fuel lt o'.od g'.priv.az g'.st = [] := by unfold azEff; rw [if_pos hp', hnil']
      rw [eeff'] at emb0
      have sim := azFold_sim xN emb0 g.st g'.st (fun _ h => h) hk.st.kxy
      refine hk.frame (g1' := g') k (StepOK.refl _) sim (fun i hi => hk.st.kz i (by rw [← (sz i).1]; exact hi))
        rfl rfl ?_ hk.hd hk.vec rfl hk.ai
      refine ⟨hp'.symm, comp1 o.od _ _ c, hk.az.comp', fun _ => ?_⟩
      have := azEmb_filter emb0 ((azEff fuel lt o.od g.priv.az g.st).foldl (azStep xN) g.st).pd g'.st.pd
        (fun _ h => h) sim
      rw [hnil']
      exact this
    · rw [e, e']
      have k' := azExecute_stepOK fuel lt xN o'.od g'.priv.az g'.st
      have sz' := (azExecute_mono fuel lt xN o'.od g'.priv.az g'.st).2.1
      have fl := stFlags_flagLe k'.flags
      have sim := azFold_sim xN emb0 g.st g'.st (fun _ h => h) hk.st.kxy
      refine hk.frame k k' sim
        (fun i hi => by rw [(sz' i).1]; exact hk.st.kz i (by rw [← (sz i).1]; exact hi))
        rfl rfl ?_ (hk.hd.mono fl) (hk.vec.mono fl) rfl hk.ai
      refine ⟨rfl, comp1 o.od _ _ c, comp1 o'.od _ _ c', fun _ => ?_⟩
      exact azEmb_filter emb0 _ _ fl.1 sim

end azimuth

/-! ### AcordAzimuth::prepare is monotone (`AzPrepMono` proved for a strict total order on point ids) -/

section azprep
variable {ι : Type} [DecidableEq ι]

/-- `PointID::operator<` is a strict total order (C07, `Gama/Lemmas/C07PointId.lean`) -/
structure StrictTotal (lt : ι → ι → Bool) : Prop where
  irrefl : ∀ a, lt a a = false
  trans : ∀ a b c, lt a b = true → lt b c = true → lt a c = true
  tri : Tri lt

theorem pairLt_iff {lt : ι → ι → Bool} (h : StrictTotal lt) (p q : ι × ι) :
    pairLt lt p q = true ↔ lt p.1 q.1 = true ∨ (p.1 = q.1 ∧ lt p.2 q.2 = true) := by
  unfold pairLt
  constructor
  · intro hp
    simp only [Bool.or_eq_true, Bool.and_eq_true, Bool.not_eq_true'] at hp
    rcases hp with h1 | ⟨h1, h2⟩
    · exact Or.inl h1
    · by_cases h3 : lt p.1 q.1 = true
      · exact Or.inl h3
      · exact Or.inr ⟨h.tri _ _ (by simpa using h3) h1, h2⟩
  · rintro (h1 | ⟨h1, h2⟩)
    · simp [h1]
    · simp [h1, h.irrefl, h2]

theorem pairLt_irrefl {lt : ι → ι → Bool} (h : StrictTotal lt) (p : ι × ι) : ¬ pairLt lt p p = true := by
  rw [pairLt_iff h]
  rintro (h1 | ⟨_, h1⟩)
  · rw [h.irrefl] at h1; cases h1
  · rw [h.irrefl] at h1; cases h1

theorem pairLt_trans {lt : ι → ι → Bool} (h : StrictTotal lt) (p q r : ι × ι) (h1 : pairLt lt p q = true)
    (h2 : pairLt lt q r = true) : pairLt lt p r = true := by
  rw [pairLt_iff h] at h1 h2 ⊢
  rcases h1 with a | ⟨a1, a2⟩ <;> rcases h2 with b | ⟨b1, b2⟩
  · exact Or.inl (h.trans _ _ _ a b)
  · exact Or.inl (b1 ▸ a)
  · exact Or.inl (a1 ▸ b)
  · exact Or.inr ⟨a1.trans b1, h.trans _ _ _ a2 b2⟩

/-- the key of an entry of `azimuths_` -/
def akey (e : AzEntry ι ℝ) : ι × ι := (e.a, e.b)

/-- strictly increasing keys -/
def KSorted (lt : ι → ι → Bool) (l : List (ι × ι)) : Prop := l.Pairwise (fun p q => pairLt lt p q = true)

/-- `std::map::operator[]` on the key list -/
def insertKey (lt : ι → ι → Bool) (k : ι × ι) : List (ι × ι) → List (ι × ι)
  | [] => [k]
  | x :: xs => if pairLt lt k x then k :: x :: xs else if pairLt lt x k then x :: insertKey lt k xs else x :: xs

theorem azPush_keys (lt : ι → ι → Bool) (a b : ι) (v : ℝ) : ∀ m : List (AzEntry ι ℝ),
    (azPush lt a b v m).map akey = insertKey lt (a, b) (m.map akey) := by
  intro m
  induction m with
  | nil => rfl
  | cons e es ih =>
    simp only [azPush, List.map_cons, insertKey, akey]
    split_ifs <;> simp [akey, ih]

theorem azPushIfPresent_keys (lt : ι → ι → Bool) (a b : ι) (v : ℝ) : ∀ m : List (AzEntry ι ℝ),
    (azPushIfPresent lt a b v m).map akey = m.map akey := by
  intro m
  induction m with
  | nil => rfl
  | cons e es ih =>
    simp only [azPushIfPresent]
    split_ifs <;> simp [akey, ih]

theorem mem_insertKey {lt : ι → ι → Bool} (h : StrictTotal lt) (k : ι × ι) : ∀ (l : List (ι × ι)) (x : ι × ι),
    x ∈ insertKey lt k l ↔ x = k ∨ x ∈ l := by
  intro l
  induction l with
  | nil => intro x; simp [insertKey]
  | cons y ys ih =>
    intro x
    simp only [insertKey]
    split_ifs with h1 h2
    · simp
    · simp only [List.mem_cons, ih]; tauto
    · have : k = y := pair_tri h.tri _ _ (by simpa using h1) (by simpa using h2)
      subst this; simp

theorem sorted_insertKey {lt : ι → ι → Bool} (h : StrictTotal lt) (k : ι × ι) : ∀ l : List (ι × ι),
    KSorted lt l → KSorted lt (insertKey lt k l) := by
  intro l
  induction l with
  | nil => intro _; simp [insertKey, KSorted]
  | cons y ys ih =>
    intro hs
    unfold KSorted at hs ⊢
    obtain ⟨h1, h2⟩ := List.pairwise_cons.mp hs
    simp only [insertKey]
    split_ifs with c1 c2
    · refine List.pairwise_cons.mpr ⟨fun z hz => ?_, hs⟩
      rcases List.mem_cons.mp hz with rfl | hz
      · exact c1
      · exact pairLt_trans h _ _ _ c1 (h1 z hz)
    · refine List.pairwise_cons.mpr ⟨fun z hz => ?_, ih h2⟩
      rcases (mem_insertKey h k ys z).mp hz with rfl | hz
      · exact c2
      · exact h1 z hz
    · exact hs

/-- the key an observation between `f` and `t` is filed under: `if (to < from) swap(from, to)` -/
def nkey (lt : ι → ι → Bool) (f t : ι) : ι × ι := if lt t f then (t, f) else (f, t)

theorem azNormalize_key (lt : ι → ι → Bool) (f t : ι) (v : ℝ) :
    ((azNormalize lt f t v).1, (azNormalize lt f t v).2.1) = nkey lt f t := by
  unfold azNormalize nkey; split <;> rfl

def azKeyStep (lt : ι → ι → Bool) (l : List (ι × ι)) (o : Obs ι ℝ) : List (ι × ι) :=
  match o with
  | .azimuth f t _ => insertKey lt (nkey lt f t) l
  | _ => l

theorem azCollectStep_keys (lt : ι → ι → Bool) (m : List (AzEntry ι ℝ)) (o : Obs ι ℝ) :
    (azCollectStep lt m o).map akey = azKeyStep lt (m.map akey) o := by
  cases o with
  | azimuth f t v => simp only [azCollectStep, azKeyStep, azPush_keys, azNormalize_key]
  | _ => rfl

theorem azCollectFold_keys (lt : ι → ι → Bool) : ∀ (obs : List (Obs ι ℝ)) (m : List (AzEntry ι ℝ)),
    (obs.foldl (azCollectStep lt) m).map akey = obs.foldl (azKeyStep lt) (m.map akey) := by
  intro obs
  induction obs with
  | nil => intro m; rfl
  | cons o os ih => intro m; simp only [List.foldl_cons]; rw [ih, azCollectStep_keys]

theorem azKeyFold {lt : ι → ι → Bool} (h : StrictTotal lt) : ∀ (obs : List (Obs ι ℝ)) (l : List (ι × ι)),
    KSorted lt l → KSorted lt (obs.foldl (azKeyStep lt) l) ∧
      ∀ k, k ∈ obs.foldl (azKeyStep lt) l ↔ k ∈ l ∨ ∃ f t v, Obs.azimuth f t v ∈ obs ∧ nkey lt f t = k := by
  intro obs
  induction obs with
  | nil => intro l hs; exact ⟨hs, fun k => by simp⟩
  | cons o os ih =>
    intro l hs
    simp only [List.foldl_cons]
    cases o with
    | azimuth f t v =>
      obtain ⟨a, b⟩ := ih (insertKey lt (nkey lt f t) l) (sorted_insertKey h _ l hs)
      refine ⟨a, fun k => ?_⟩
      show k ∈ os.foldl (azKeyStep lt) (insertKey lt (nkey lt f t) l) ↔ _
      rw [b, mem_insertKey h]
      constructor
      · rintro ((rfl | h1) | ⟨f', t', v', h1, h2⟩)
        · exact Or.inr ⟨f, t, v, by simp, rfl⟩
        · exact Or.inl h1
        · exact Or.inr ⟨f', t', v', by simp [h1], h2⟩
      · rintro (h1 | ⟨f', t', v', h1, h2⟩)
        · exact Or.inl (Or.inr h1)
        · rcases List.mem_cons.mp h1 with h1 | h1
          · cases h1; exact Or.inl (Or.inl h2.symm)
          · exact Or.inr ⟨f', t', v', h1, h2⟩
    | distance f t v =>
      obtain ⟨a, b⟩ := ih l hs
      refine ⟨a, fun k => ?_⟩
      show k ∈ os.foldl (azKeyStep lt) l ↔ _
      rw [b]; simp
    | sdistance f t v a1 a2 =>
      obtain ⟨a, b⟩ := ih l hs
      refine ⟨a, fun k => ?_⟩
      show k ∈ os.foldl (azKeyStep lt) l ↔ _
      rw [b]; simp
    | zangle f t v a1 a2 =>
      obtain ⟨a, b⟩ := ih l hs
      refine ⟨a, fun k => ?_⟩
      show k ∈ os.foldl (azKeyStep lt) l ↔ _
      rw [b]; simp
    | other f t =>
      obtain ⟨a, b⟩ := ih l hs
      refine ⟨a, fun k => ?_⟩
      show k ∈ os.foldl (azKeyStep lt) l ↔ _
      rw [b]; simp

theorem azCollectDistStep_eq (lt : ι → ι → Bool) (m : List (AzEntry ι ℝ)) (f t : ι) (v : ℝ) :
    azCollectDistStep lt m (.distance f t v) = azPushIfPresent lt (nkey lt f t).1 (nkey lt f t).2 v m := by
  show (if lt t f then azPushIfPresent lt t f v m else azPushIfPresent lt f t v m) = _
  unfold nkey
  by_cases c : lt t f = true <;> simp [c]

theorem azCollectDistStep_keys (lt : ι → ι → Bool) (m : List (AzEntry ι ℝ)) (o : Obs ι ℝ) :
    (azCollectDistStep lt m o).map akey = m.map akey := by
  cases o with
  | distance f t v => rw [azCollectDistStep_eq, azPushIfPresent_keys]
  | _ => rfl

theorem azCollectDistFold_keys (lt : ι → ι → Bool) : ∀ (obs : List (Obs ι ℝ)) (m : List (AzEntry ι ℝ)),
    (obs.foldl (azCollectDistStep lt) m).map akey = m.map akey := by
  intro obs
  induction obs with
  | nil => intro m; rfl
  | cons o os ih => intro m; simp only [List.foldl_cons]; rw [ih, azCollectDistStep_keys]

/-- the keys of the map `prepare` leaves: the pairs with an azimuth, in key order, without the pairs between points
    with xy -/
theorem azPrepare_keys (fuel : Nat) (lt : ι → ι → Bool) (pd : PD ι ℝ) (obs : List (Obs ι ℝ)) :
    (azPrepare fuel lt pd obs).map akey =
      (obs.foldl (azKeyStep lt) []).filter (fun k => !((pd k.1).bxy && (pd k.2).bxy)) := by
  unfold azPrepare azCollectDist
  simp only [List.map_map]
  have e1 : (akey ∘ azMedianDistance : AzEntry ι ℝ → ι × ι) = akey := by
    funext e; unfold azMedianDistance; simp only [Function.comp]; split <;> rfl
  rw [e1, azCollectDistFold_keys, List.map_map]
  have e2 : (akey ∘ azMedianValue fuel : AzEntry ι ℝ → ι × ι) = akey := by funext e; rfl
  rw [e2]
  unfold azRemoveKnown azCollect
  have e3 := azCollectFold_keys lt obs []
  simp only [List.map_nil] at e3
  rw [← e3, List.filter_map]
  rfl

theorem pushIfPresent_mem {lt : ι → ι → Bool} (h : StrictTotal lt) (a b : ι) (v : ℝ) : ∀ (m : List (AzEntry ι ℝ)),
    ∀ x ∈ azPushIfPresent lt a b v m, x ∈ m ∨ akey x = (a, b) := by
  intro m
  induction m with
  | nil => intro x hx; simp [azPushIfPresent] at hx
  | cons e es ih =>
    intro x hx
    simp only [azPushIfPresent] at hx
    split_ifs at hx with c1 c2
    · exact Or.inl hx
    · rcases List.mem_cons.mp hx with rfl | hx
      · exact Or.inl (by simp)
      · rcases ih x hx with h1 | h1
        · exact Or.inl (by simp [h1])
        · exact Or.inr h1
    · have hk : (a, b) = (e.a, e.b) := pair_tri h.tri _ _ (by simpa using c1) (by simpa using c2)
      rcases List.mem_cons.mp hx with rfl | hx
      · exact Or.inr hk.symm
      · exact Or.inl (by simp [hx])

/-- `azimuths_[key].values.push_back(v)` reaches the entry when the key is present (sorted map) -/
theorem pushIfPresent_hit {lt : ι → ι → Bool} (h : StrictTotal lt) (a b : ι) (v : ℝ) : ∀ (m : List (AzEntry ι ℝ)),
    KSorted lt (m.map akey) → (a, b) ∈ m.map akey →
    ∃ x ∈ azPushIfPresent lt a b v m, akey x = (a, b) ∧ x.values ≠ [] := by
  intro m
  induction m with
  | nil => intro _ hm; simp at hm
  | cons e es ih =>
    intro hs hm
    unfold KSorted at hs
    simp only [List.map_cons] at hs hm
    obtain ⟨h1, h2⟩ := List.pairwise_cons.mp hs
    simp only [azPushIfPresent]
    split_ifs with c1 c2
    · exfalso
      rcases List.mem_cons.mp hm with hm | hm
      · have : pairLt lt (a, b) (a, b) = true := by
          have e' : (e.a, e.b) = (a, b) := hm.symm
          rw [e'] at c1; exact c1
        exact pairLt_irrefl h _ this
      · exact pairLt_irrefl h _ (pairLt_trans h _ _ _ c1 (h1 _ hm))
    · rcases List.mem_cons.mp hm with hm | hm
      · exfalso
        have e' : (e.a, e.b) = (a, b) := hm.symm
        rw [e'] at c2; exact pairLt_irrefl h _ c2
      · obtain ⟨x, hx, hk, hv⟩ := ih h2 hm
        exact ⟨x, by simp [hx], hk, hv⟩
    · have hk : (a, b) = (e.a, e.b) := pair_tri h.tri _ _ (by simpa using c1) (by simpa using c2)
      exact ⟨{ e with values := e.values ++ [v] }, by simp, hk.symm, by simp⟩

theorem pushIfPresent_keep (lt : ι → ι → Bool) (a b : ι) (v : ℝ) : ∀ (m : List (AzEntry ι ℝ)),
    ∀ x ∈ m, x.values ≠ [] → ∃ y ∈ azPushIfPresent lt a b v m, akey y = akey x ∧ y.values ≠ [] := by
  intro m
  induction m with
  | nil => intro x hx; simp at hx
  | cons e es ih =>
    intro x hx hv
    simp only [azPushIfPresent]
    split_ifs with c1 c2
    · exact ⟨x, hx, rfl, hv⟩
    · rcases List.mem_cons.mp hx with rfl | hx
      · exact ⟨x, by simp, rfl, hv⟩
      · obtain ⟨y, hy, h1, h2⟩ := ih x hx hv
        exact ⟨y, by simp [hy], h1, h2⟩
    · rcases List.mem_cons.mp hx with rfl | hx
      · exact ⟨{ x with values := x.values ++ [v] }, by simp, rfl, by simp⟩
      · exact ⟨x, by simp [hx], rfl, hv⟩

theorem collectDist_keep (lt : ι → ι → Bool) : ∀ (obs : List (Obs ι ℝ)) (m : List (AzEntry ι ℝ)),
    ∀ x ∈ m, x.values ≠ [] → ∃ y ∈ obs.foldl (azCollectDistStep lt) m, akey y = akey x ∧ y.values ≠ [] := by
  intro obs
  induction obs with
  | nil => intro m x hx hv; exact ⟨x, hx, rfl, hv⟩
  | cons o os ih =>
    intro m x hx hv
    simp only [List.foldl_cons]
    have hstep : ∃ y ∈ azCollectDistStep lt m o, akey y = akey x ∧ y.values ≠ [] := by
      cases o with
      | distance f t v => rw [azCollectDistStep_eq]; exact pushIfPresent_keep lt _ _ v m x hx hv
      | _ => exact ⟨x, hx, rfl, hv⟩
    obtain ⟨y, hy, h1, h2⟩ := hstep
    obtain ⟨z, hz, h3, h4⟩ := ih _ y hy h2
    exact ⟨z, hz, h3.trans h1, h4⟩

/-- a distance between the ends of a pair that is in the map gives the pair a non-empty value list -/
theorem collectDist_hit {lt : ι → ι → Bool} (h : StrictTotal lt) (k : ι × ι) (f t : ι) (v : ℝ)
    (hk : nkey lt f t = k) : ∀ (obs : List (Obs ι ℝ)) (m : List (AzEntry ι ℝ)),
    KSorted lt (m.map akey) → k ∈ m.map akey → Obs.distance f t v ∈ obs →
    ∃ y ∈ obs.foldl (azCollectDistStep lt) m, akey y = k ∧ y.values ≠ [] := by
  intro obs
  induction obs with
  | nil => intro m _ _ hd; simp at hd
  | cons o os ih =>
    intro m hs hm hd
    simp only [List.foldl_cons]
    rcases List.mem_cons.mp hd with hd | hd
    · subst hd
      rw [azCollectDistStep_eq, hk]
      obtain ⟨x, hx, h1, h2⟩ := pushIfPresent_hit h k.1 k.2 v m hs (by simpa using hm)
      obtain ⟨y, hy, h3, h4⟩ := collectDist_keep lt os _ x hx h2
      exact ⟨y, hy, h3.trans h1, h4⟩
    · exact ih _ (by rw [azCollectDistStep_keys]; exact hs) (by rw [azCollectDistStep_keys]; exact hm) hd

/-- a pair that got a distance has a distance observation between its ends -/
theorem azPrepare_distance_obs {lt : ι → ι → Bool} (h : StrictTotal lt) (fuel : Nat) (pd : PD ι ℝ)
    (obs : List (Obs ι ℝ)) (e : AzEntry ι ℝ) (he : e ∈ azPrepare fuel lt pd obs) (hd0 : e.distance ≠ 0) :
    ∃ f t v, Obs.distance f t v ∈ obs ∧ nkey lt f t = akey e := by
  by_contra hno
  -- every entry with this key keeps an empty value list and distance 0
  have hinv := azCollect_inv h.tri (fun _ _ _ => True) obs (fun _ _ _ _ => trivial)
  have J0 : ∀ x ∈ (azRemoveKnown pd (azCollect lt obs)).map (azMedianValue fuel),
      akey x = akey e → x.values = [] ∧ x.distance = 0 := by
    intro x hx _
    obtain ⟨x0, hx0, rfl⟩ := List.mem_map.mp hx
    exact ⟨rfl, (hinv x0 (List.mem_filter.mp hx0).1).1.2⟩
  have Jfold : ∀ (l : List (Obs ι ℝ)) (m : List (AzEntry ι ℝ)), (∀ o ∈ l, o ∈ obs) →
      (∀ x ∈ m, akey x = akey e → x.values = [] ∧ x.distance = 0) →
      ∀ x ∈ l.foldl (azCollectDistStep lt) m, akey x = akey e → x.values = [] ∧ x.distance = 0 := by
    intro l
    induction l with
    | nil => intro m _ hm; exact hm
    | cons o os ih =>
      intro m hl hm
      simp only [List.foldl_cons]
      apply ih _ (fun o' ho' => hl o' (by simp [ho']))
      cases o with
      | distance f t v =>
        rw [azCollectDistStep_eq]
        intro x hx hkx
        rcases pushIfPresent_mem h _ _ v m x hx with h1 | h1
        · exact hm x h1 hkx
        · exact absurd ⟨f, t, v, hl _ (by simp), by rw [← hkx, h1]⟩ hno
      | _ => exact hm
  unfold azPrepare azCollectDist at he
  obtain ⟨x, hx, rfl⟩ := List.mem_map.mp he
  have hkx : akey x = akey (azMedianDistance x) := by unfold azMedianDistance; split <;> rfl
  obtain ⟨hv, hd⟩ := Jfold obs _ (fun _ h => h) J0 x hx hkx
  apply hd0
  unfold azMedianDistance
  simp [hv, hd]

/-- two key-sorted lists: if every entry of the first has both ends known or a match in the second, the first is
    embedded in the second in key order -/
theorem azEmb_of_sorted {lt : ι → ι → Bool} (h : StrictTotal lt) (pd' : PD ι ℝ) :
    ∀ (l' l : List (AzEntry ι ℝ)), KSorted lt (l.map akey) → KSorted lt (l'.map akey) →
      (∀ e ∈ l, AzBoth pd' e ∨ ∃ e' ∈ l', AzMatch e e') → AzEmb pd' l l' := by
  have key_of_match : ∀ e e' : AzEntry ι ℝ, AzMatch e e' → akey e' = akey e := by
    intro e e' hm; unfold akey; rw [hm.1, hm.2.1]
  intro l'
  induction l' with
  | nil =>
    intro l hs _ hc
    induction l with
    | nil => exact .nil _
    | cons e t ih =>
      have hs2 : KSorted lt (t.map akey) := by
        unfold KSorted at hs ⊢
        simp only [List.map_cons] at hs
        exact (List.pairwise_cons.mp hs).2
      rcases hc e (by simp) with hb | ⟨m, hm, _⟩
      · exact .drop hb (ih hs2 (fun x hx => hc x (by simp [hx])))
      · simp at hm
  | cons e' t' ih' =>
    intro l hs hs' hc
    unfold KSorted at hs'
    simp only [List.map_cons] at hs'
    obtain ⟨hs1', hs2'⟩ := List.pairwise_cons.mp hs'
    induction l with
    | nil => exact .nil _
    | cons e t ih =>
      have hs0 := hs
      unfold KSorted at hs
      simp only [List.map_cons] at hs
      obtain ⟨hs1, hs2⟩ := List.pairwise_cons.mp hs
      rcases hc e (by simp) with hb | ⟨m, hm, hmatch⟩
      · exact .drop hb (ih hs2 (fun x hx => hc x (by simp [hx])))
      · rcases List.mem_cons.mp hm with rfl | hm'
        · refine .both hmatch (ih' t hs2 hs2' (fun x hx => ?_))
          rcases hc x (by simp [hx]) with hb | ⟨m2, hm2, hmatch2⟩
          · exact Or.inl hb
          · rcases List.mem_cons.mp hm2 with rfl | hm2
            · exfalso
              have e1 := key_of_match _ _ hmatch
              have e2 := key_of_match _ _ hmatch2
              have := hs1 (akey x) (List.mem_map.mpr ⟨x, hx, rfl⟩)
              rw [← e2, e1] at this
              exact pairLt_irrefl h _ this
            · exact Or.inr ⟨m2, hm2, hmatch2⟩
        · refine .skip e' (ih' (e :: t) hs0 hs2' (fun x hx => ?_))
          rcases hc x hx with hb | ⟨m2, hm2, hmatch2⟩
          · exact Or.inl hb
          · rcases List.mem_cons.mp hm2 with rfl | hm2
            · exfalso
              -- key m2 < key m = key e ≤ key x = key m2
              have e1 := key_of_match _ _ hmatch
              have e2 := key_of_match _ _ hmatch2
              have lt1 : pairLt lt (akey m2) (akey e) = true := by
                rw [← e1]; exact hs1' _ (List.mem_map.mpr ⟨m, hm', rfl⟩)
              rcases List.mem_cons.mp hx with rfl | hx
              · rw [e2] at lt1; exact pairLt_irrefl h _ lt1
              · have lt2 := hs1 (akey x) (List.mem_map.mpr ⟨x, hx, rfl⟩)
                have := pairLt_trans h _ _ _ lt1 lt2
                rw [e2] at this; exact pairLt_irrefl h _ this
            · exact Or.inr ⟨m2, hm2, hmatch2⟩

theorem spObs_sublist_of_forall₂ : ∀ (a b : List (Cluster ι ℝ)), List.Forall₂ ClusterLe a b →
    (spObs a).Sublist (spObs b) := by
  intro a b hab
  induction hab with
  | nil => exact List.Sublist.refl _
  | @cons c c' l l' hx _ ih =>
    cases c <;> cases c' <;> simp only [ClusterLe] at hx
    · obtain ⟨rfl, h2⟩ := hx
      exact List.Sublist.append h2 ih
    · exact ih
    · exact ih

theorem spObs_sublist_of_sublist : ∀ (a b : List (Cluster ι ℝ)), a.Sublist b → (spObs a).Sublist (spObs b) := by
  intro a b hab
  induction hab with
  | slnil => exact List.Sublist.refl _
  | @cons l1 l2 c _ ih =>
    cases c with
    | standpoint s obs => exact ih.trans (List.sublist_append_right _ _)
    | hdiffs _ => exact ih
    | vectors _ => exact ih
  | @cons_cons l1 l2 c _ ih =>
    cases c with
    | standpoint s obs => exact List.Sublist.append (List.Sublist.refl _) ih
    | hdiffs _ => exact ih
    | vectors _ => exact ih

theorem OdLe.spObs {od od' : List (Cluster ι ℝ)} (h : OdLe od od') : (spObs od).Sublist (spObs od') := by
  obtain ⟨l, h1, h2⟩ := h
  exact (spObs_sublist_of_forall₂ od l h1).trans (spObs_sublist_of_sublist l od' h2)

/-- **`AcordAzimuth::prepare` is monotone in the observation set** on exact observations, for a strict total order
    on the point ids -/
theorem azPrepMono_of_exact {lt : ι → ι → Bool} (h : StrictTotal lt) (T : Truth ι) (xN : ℝ) (n : Nat)
    (o o' : ObsSet ι) (hle : ObsSet.le o o') (hex : ExactObs T xN o.od) (hex' : ExactObs T xN o'.od) :
    AzPrepMono (n + 1) lt T o o' := by
  intro pd pd' _ _ hfl
  have hsub := hle.od.spObs
  have ks := azKeyFold h (spObs o.od) [] (by simp [KSorted])
  have ks' := azKeyFold h (spObs o'.od) [] (by simp [KSorted])
  have kk := azPrepare_keys (n + 1) lt pd (spObs o.od)
  have kk' := azPrepare_keys (n + 1) lt pd' (spObs o'.od)
  apply azEmb_of_sorted h pd'
  · rw [kk]; exact List.Pairwise.filter _ ks.1
  · rw [kk']; exact List.Pairwise.filter _ ks'.1
  intro e he
  by_cases hb : AzBoth pd' e
  · exact Or.inl hb
  right
  -- the key of `e` is a key of the large map
  have hke : akey e ∈ (azPrepare (n + 1) lt pd (spObs o.od)).map akey := List.mem_map.mpr ⟨e, he, rfl⟩
  rw [kk, List.mem_filter] at hke
  obtain ⟨f, t, v, hobs, hk⟩ := ((ks.2 (akey e)).mp hke.1).resolve_left (by simp)
  have hke' : akey e ∈ (azPrepare (n + 1) lt pd' (spObs o'.od)).map akey := by
    rw [kk', List.mem_filter]
    refine ⟨(ks'.2 (akey e)).mpr (Or.inr ⟨f, t, v, hsub.subset hobs, hk⟩), ?_⟩
    unfold AzBoth at hb
    show (!((pd' e.a).bxy && (pd' e.b).bxy)) = true
    cases h1 : (pd' e.a).bxy <;> cases h2 : (pd' e.b).bxy <;> simp_all
  by_cases hd0 : e.distance = 0
  · obtain ⟨e', he', hk'⟩ := List.mem_map.mp hke'
    have : e'.a = e.a ∧ e'.b = e.b := by
      unfold akey at hk'; exact ⟨(Prod.ext_iff.mp hk').1, (Prod.ext_iff.mp hk').2⟩
    exact ⟨e', he', this.1, this.2, fun hne => absurd hd0 hne⟩
  · -- the small entry is usable: a distance between its ends, the true one, not zero
    obtain ⟨f2, t2, v2, hdo, hk2⟩ := azPrepare_distance_obs h (n + 1) pd (spObs o.od) e he hd0
    have hok := azPrepare_ok h.tri T xN pd (spObs o.od) n hex.az hex.dist e he hd0
    have hhd : hd T e.a e.b ≠ 0 := by rw [← hok.1]; exact hd0
    -- the large map before the medians of the distances
    have hm2' : KSorted lt (((azRemoveKnown pd' (azCollect lt (spObs o'.od))).map (azMedianValue (n + 1))).map akey) ∧
        akey e ∈ ((azRemoveKnown pd' (azCollect lt (spObs o'.od))).map (azMedianValue (n + 1))).map akey := by
      have e0 : ((azRemoveKnown pd' (azCollect lt (spObs o'.od))).map (azMedianValue (n + 1))).map akey =
          (azPrepare (n + 1) lt pd' (spObs o'.od)).map akey := by
        unfold azPrepare azCollectDist
        simp only [List.map_map]
        have e1 : (akey ∘ azMedianDistance : AzEntry ι ℝ → ι × ι) = akey := by
          funext e; unfold azMedianDistance; simp only [Function.comp]; split <;> rfl
        rw [e1, azCollectDistFold_keys, List.map_map]
      rw [e0]
      exact ⟨by rw [kk']; exact List.Pairwise.filter _ ks'.1, hke'⟩
    obtain ⟨y, hy, hky, hvy⟩ := collectDist_hit h (akey e) f2 t2 v2 hk2 (spObs o'.od) _ hm2'.1 hm2'.2
      (hsub.subset hdo)
    have hvals := azCollectDist_inv h.tri (fun a b w => w = hd T a b) (fun _ => True) (fun _ _ _ => trivial)
      (spObs o'.od) (fun f t v ho => ⟨hex'.dist f t v ho, (hex'.dist f t v ho).trans (hd_symm T f t)⟩)
      ((azRemoveKnown pd' (azCollect lt (spObs o'.od))).map (azMedianValue (n + 1)))
      (fun x hx => by
        obtain ⟨x0, _, rfl⟩ := List.mem_map.mp hx
        exact ⟨trivial, fun w hw => by simp [azMedianValue] at hw⟩)
    have hya : y.a = e.a ∧ y.b = e.b := by
      unfold akey at hky; exact ⟨(Prod.ext_iff.mp hky).1, (Prod.ext_iff.mp hky).2⟩
    refine ⟨azMedianDistance y, ?_, ?_⟩
    · unfold azPrepare; exact List.mem_map.mpr ⟨y, hy, rfl⟩
    · have hemp : y.values.isEmpty = false := by simpa using hvy
      have hmed : median2 y.values = hd T y.a y.b := C06L.median2_const _ _ hvy (hvals y hy).2
      refine ⟨?_, ?_, fun _ => ?_⟩
      · unfold azMedianDistance; simp only [hemp]; exact hya.1
      · unfold azMedianDistance; simp only [hemp]; exact hya.2
      · unfold azMedianDistance; simp only [hemp]
        show median2 y.values ≠ 0
        rw [hmed, hya.1, hya.2]; exact hhd

end azprep

/-! ## Part 4: the `MonoMachine` instance and the theorems about the modelled Acord2 -/

section final
variable {ι : Type} [DecidableEq ι]

theorem roundO_map {O O' S : Type} (book : S → S) (algs : List (O → S → S)) (f : O' → O) (x : O') (s : S) :
    roundO book (algs.map (fun a y => a (f y))) x s = roundO book algs (f x) s := by
  rw [roundO_eq, roundO_eq, List.foldl_map]

theorem roundsO_map {O O' S : Type} (book : S → S) (algs : List (O → S → S)) (f : O' → O) (x : O') :
    ∀ (n : Nat) (s : S), roundsO book (algs.map (fun a y => a (f y))) x n s = roundsO book algs (f x) n s := by
  intro n
  induction n with
  | zero => intro s; rfl
  | succ n ih => intro s; simp only [roundsO]; rw [roundO_map, ih]

/-- the two observation sets as an observation type (so that `sound` of `MonoMachine`, which quantifies over ALL
    observation sets, only speaks about the two sets of exact observations) -/
def Two (o o' : ObsSet ι) : Type := { x : ObsSet ι // x = o ∨ x = o' }

/-- the strategies over the two-element observation type -/
noncomputable def strategies5T (fuel : Nat) (lt : ι → ι → Bool) (xN : ℝ) (o o' : ObsSet ι) :
    List (Two o o' → G5 ι → G5 ι) := (strategies5 fuel lt xN).map (fun a (x : Two o o') => a x.1)

/-- all hypotheses of the monotonicity theorems about the two observation sets, collected -/
structure MonoHyps (lt : ι → ι → Bool) (T : Truth ι) (xN : ℝ) (IRai : AiPriv ℝ → Prop)
    (Rai : AiPriv ℝ → AiPriv ℝ → Prop) (n : Nat) (o o' : ObsSet ι) : Prop where
  /-- `PointID::operator<` is a strict total order -/
  ord : StrictTotal lt
  /-- `o ⊆ o'` -/
  le : ObsSet.le o o'
  /-- both sets are exact observations of the same true coordinates -/
  exact : ExactObs T xN o.od
  exact' : ExactObs T xN o'.od
  /-- the inner fuel of AcordHdiff / AcordVector (`n + 1`) exceeds the number of end points of height differences /
      vectors (the C++ loops are unbounded and terminate) -/
  fuelHd : (hdKeys o.od).length < n + 1
  fuelHd' : (hdKeys o'.od).length < n + 1
  fuelVec : (vecKeys o.od).length < n + 1
  fuelVec' : (vecKeys o'.od).length < n + 1
  /-- HYPOTHESIS (proved elsewhere from `ResetOK`): AcordIntersection keeps the soundness invariant, on `o` and `o'` -/
  aiSound : ∀ g, Sound5 T xN IRai g → Sound5 T xN IRai ((aiAlg (n + 1) lt o.keys o.extra xN o.cls).exec g)
  aiSound' : ∀ g, Sound5 T xN IRai g → Sound5 T xN IRai ((aiAlg (n + 1) lt o'.keys o'.extra xN o'.cls).exec g)
  /-- HYPOTHESIS (out of scope: monotonicity of ApproximateCoordinates in the observation list): AcordIntersection is
      monotone on the simulation relation -/
  aiMono : StepMono (Sound5 T xN IRai) (KL (n + 1) Rai o o')
    (idle (aiAlg (n + 1) lt o.keys o.extra xN o.cls)) (idle (aiAlg (n + 1) lt o'.keys o'.extra xN o'.cls))

/-- **the `MonoMachine` instance** for the modelled Acord2: five strategies + bookkeeping, sound and monotone -/
theorem monoMachine5 {lt : ι → ι → Bool} {T : Truth ι} {xN : ℝ} {IRai : AiPriv ℝ → Prop}
    {Rai : AiPriv ℝ → AiPriv ℝ → Prop} {n : Nat} {o o' : ObsSet ι} (H : MonoHyps lt T xN IRai Rai n o o')
    (slope : Bool) :
    MonoMachine (fun (x y : Two o o') => x.1 = o ∧ y.1 = o') (Sound5 T xN IRai) (KL (n + 1) Rai o o') (book5 slope)
      (strategies5T (n + 1) lt xN o o') := by
  refine ⟨?_, fun s hs => book5_sound T xN IRai slope s hs, ?_, fun s s' _ _ hk => book_mono (n + 1) Rai o o' slope s s' hk⟩
  · intro a ha x s hs
    obtain ⟨a0, ha0, rfl⟩ := List.mem_map.mp ha
    rcases x.2 with hx | hx
    · show Sound5 T xN IRai (a0 x.1 s)
      rw [hx]; exact strategies5_sound H.ord.tri T xN IRai n o H.exact H.aiSound a0 ha0 s hs
    · show Sound5 T xN IRai (a0 x.1 s)
      rw [hx]; exact strategies5_sound H.ord.tri T xN IRai n o' H.exact' H.aiSound' a0 ha0 s hs
  · intro a ha x y s s' hxy hs hs' hk
    obtain ⟨a0, ha0, rfl⟩ := List.mem_map.mp ha
    show KL (n + 1) Rai o o' (a0 x.1 s) (a0 y.1 s')
    rw [hxy.1, hxy.2]
    simp only [strategies5, List.mem_cons, List.not_mem_nil, or_false] at ha0
    rcases ha0 with rfl | rfl | rfl | rfl | rfl
    · exact az_stepMono (n + 1) lt xN Rai T IRai o o'
        (azPrepMono_of_exact H.ord T xN n o o' H.le H.exact H.exact') s s' hs hs' hk
    · exact hd_stepMono (n + 1) Rai _ o o' H.le H.fuelHd H.fuelHd' s s' hs hs' hk
    · exact zd_stepMono (n + 1) Rai _ o o' H.le s s' hs hs' hk
    · exact vec_stepMono (n + 1) Rai _ o o' H.le H.fuelVec H.fuelVec' s s' hs hs' hk
    · exact H.aiMono s s' hs hs' hk

/-- **clause 6 for the modelled Acord2, rounds level** (`_partial`: AcordIntersection's soundness and step
    monotonicity are hypotheses, see `MonoHyps`; AcordAzimuth, AcordHdiff, AcordZderived, AcordVector and the
    bookkeeping are proved).  Two sets of exact observations `o ⊆ o'`, the same
    sound start state: after EVERY number `k` of rounds of `Acord2::execute` the two states are related by the
    simulation relation — in particular everything known from `o` is known from `o'` — and both are sound.

    Full statement: the same without `aiSound`, `aiSound'`, `aiMono`. -/
theorem acord2_modelled_monotone_partial {lt : ι → ι → Bool} {T : Truth ι} {xN : ℝ} {IRai : AiPriv ℝ → Prop}
    {Rai : AiPriv ℝ → AiPriv ℝ → Prop} {n : Nat} {o o' : ObsSet ι} (H : MonoHyps lt T xN IRai Rai n o o')
    (slope : Bool) (g0 : G5 ι) (h0 : Sound5 T xN IRai g0) (hinit : KL (n + 1) Rai o o' g0 g0) :
    ∀ k, KL (n + 1) Rai o o' (roundsO (book5 slope) (strategies5 (n + 1) lt xN) o k g0)
        (roundsO (book5 slope) (strategies5 (n + 1) lt xN) o' k g0) ∧
      KnownLe (roundsO (book5 slope) (strategies5 (n + 1) lt xN) o k g0)
        (roundsO (book5 slope) (strategies5 (n + 1) lt xN) o' k g0) ∧
      Sound5 T xN IRai (roundsO (book5 slope) (strategies5 (n + 1) lt xN) o k g0) ∧
      Sound5 T xN IRai (roundsO (book5 slope) (strategies5 (n + 1) lt xN) o' k g0) := by
  intro k
  have key := acord_more_obs_monotone_rounds (monoMachine5 H slope) (⟨o, Or.inl rfl⟩ : Two o o') ⟨o', Or.inr rfl⟩
    ⟨rfl, rfl⟩ k g0 g0 h0 h0 hinit
  unfold strategies5T at key
  rw [roundsO_map (book5 slope) (strategies5 (n + 1) lt xN) (fun x : Two o o' => x.1) ⟨o, Or.inl rfl⟩,
    roundsO_map (book5 slope) (strategies5 (n + 1) lt xN) (fun x : Two o o' => x.1) ⟨o', Or.inr rfl⟩] at key
  exact ⟨key.1, key.1.knownLe, key.2.1, key.2.2⟩

/-- the state the constructor of Acord2 builds: every strategy object fresh (not prepared, not completed), no
    candidates -/
structure Fresh (g : G5 ι) : Prop where
  azP : g.priv.az.prepared = false
  azC : g.priv.az.completed = false
  hdP : g.priv.hd.prepared = false
  hdC : g.priv.hd.completed = false
  vecP : g.priv.vec.prepared = false
  vecC : g.priv.vec.completed = false
  zdC : g.priv.zd.completed = false
  aiC : g.priv.rest.alg.completed = false
  cxy : g.candXY = []
  cz : g.st.candZ = []

theorem Fresh.noneCompleted {g : G5 ι} (h : Fresh g) : NoneCompleted g := ⟨h.azC, h.hdC, h.zdC, h.vecC, h.aiC⟩

/-- **the simulation relation holds at the start**: the state the constructor builds (`Fresh`), `missing` sets that
    contain exactly points without coordinates (`MissUnk…`) and every such point of the point list / every id
    AcordZderived can propose -/
theorem KL_init (fuel : Nat) (Rai : AiPriv ℝ → AiPriv ℝ → Prop) (o o' : ObsSet ι) (g : G5 ι) (hf : Fresh g)
    (muxy : MissUnkXY g.st) (muz : MissUnkZ g.st)
    (uxy : ∀ i ∈ o.keys, (g.st.pd i).bxy = false → i ∈ g.st.missXY)
    (uz : ∀ i, ZId o i → (g.st.pd i).bz = false → i ∈ g.st.missZ) (hrai : Rai g.priv.rest g.priv.rest) :
    KL fuel Rai o o' g g := by
  have nf : ∀ {b : Bool}, b = false → b = true → False := by intro b h1 h2; rw [h1] at h2; cases h2
  refine ⟨⟨fun _ h => h, fun _ h => h, fun _ h => Or.inl h, fun _ h => Or.inl h, fun _ h => h, fun _ h => h, uxy, uz,
    muxy, muz, muxy, muz⟩, hf.cxy, hf.cxy, ?_, ?_, ?_, ?_, fun h => (nf hf.zdC h).elim, hrai⟩
  · rw [hf.cz]; intro x hx; simp at hx
  · exact ⟨rfl, fun h => (nf hf.azC h).elim, fun h => (nf hf.azC h).elim, fun h => (nf hf.azP h).elim⟩
  · exact ⟨rfl, fun h => (nf hf.hdC h).elim, fun h => (nf hf.hdC h).elim, fun h => (nf hf.hdP h).elim,
      fun h => (nf hf.hdP h).elim, fun h => (nf hf.hdP h).elim, fun h => (nf hf.hdP h).elim,
      fun h => (nf hf.hdP h).elim, fun h => (nf hf.hdP h).elim⟩
  · exact ⟨rfl, fun h => (nf hf.vecC h).elim, fun h => (nf hf.vecC h).elim, fun h => (nf hf.vecP h).elim,
      fun h => (nf hf.vecP h).elim, fun h => (nf hf.vecP h).elim, fun h => (nf hf.vecP h).elim,
      fun h => (nf hf.vecP h).elim, fun h => (nf hf.vecP h).elim⟩

theorem idle_flags (a : Alg (G5 ι)) (h : ∀ g, FlagsKept g (a.exec g)) (g : G5 ι) : FlagsKept g (idle a g) := by
  unfold idle; split
  · exact StFlags.refl _
  · exact h g

/-- a round of the modelled machine never loses knowledge (AcordIntersection's part is a hypothesis) -/
theorem roundO5_flags (slope : Bool) (fuel : Nat) (lt : ι → ι → Bool) (xN : ℝ) (o : ObsSet ι)
    (haiFlags : ∀ g, FlagsKept g ((aiAlg fuel lt o.keys o.extra xN o.cls).exec g)) (g : G5 ι) :
    FlagsKept g (roundO (book5 slope) (strategies5 fuel lt xN) o g) := by
  rw [roundO_eq]
  simp only [strategies5, List.foldl_cons, List.foldl_nil]
  refine StFlags.trans ?_ (bookkeeping_flags slope _ _)
  refine StFlags.trans ?_ (idle_flags _ haiFlags _)
  refine StFlags.trans ?_ (idle_flags _ (vecAlg_flags fuel o.od) _)
  refine StFlags.trans ?_ (idle_flags _ (zdAlg_flags o.od) _)
  refine StFlags.trans ?_ (idle_flags _ (hdAlg_flags fuel o.od) _)
  exact idle_flags _ (azAlg_flags fuel lt xN o.od) _

theorem roundsO5_known (slope : Bool) (fuel : Nat) (lt : ι → ι → Bool) (xN : ℝ) (o : ObsSet ι)
    (haiFlags : ∀ g, FlagsKept g ((aiAlg fuel lt o.keys o.extra xN o.cls).exec g)) :
    ∀ (k : Nat) (g : G5 ι), KnownLe g (roundsO (book5 slope) (strategies5 fuel lt xN) o k g) := by
  intro k
  induction k with
  | zero => intro g; exact KnownLe.refl g
  | succ k ih =>
    intro g
    exact KnownLe.trans (roundO5_flags slope fuel lt xN o haiFlags g).knownLe (ih _)

/-- **clause 6 for `Acord2::execute` itself, with the stop-rule limitation made precise**: both runs of the real
    do-while with its erase-remove (`modelledAlgs … true true true true true`), started from the constructor's state,
    both finished: EITHER everything known from `o` is known from `o'`, OR the run on the larger set stopped
    strictly earlier (`rounds' < rounds`: its last round made no progress in the `missing` sets while the smaller
    run still did — `C06S.acord_more_obs_execute_not_monotone` shows on a toy machine that this can lose a point). -/
theorem acord2_modelled_execute_monotone_or_stops_earlier_partial {lt : ι → ι → Bool} {T : Truth ι} {xN : ℝ}
    {IRai : AiPriv ℝ → Prop} {Rai : AiPriv ℝ → AiPriv ℝ → Prop} {n : Nat} {o o' : ObsSet ι}
    (H : MonoHyps lt T xN IRai Rai n o o') (slope : Bool)
    (haiFlags' : ∀ g, FlagsKept g ((aiAlg (n + 1) lt o'.keys o'.extra xN o'.cls).exec g))
    (g0 : G5 ι) (h0 : Sound5 T xN IRai g0) (hfresh : Fresh g0) (hinit : KL (n + 1) Rai o o' g0 g0) (fuelL fuelL' : Nat)
    (hf : (execute slope (Priv.clearTraverses id) fuelL (algs5 (n + 1) lt xN o) g0).finished = true)
    (hf' : (execute slope (Priv.clearTraverses id) fuelL' (algs5 (n + 1) lt xN o') g0).finished = true) :
    KnownLe (execute slope (Priv.clearTraverses id) fuelL (algs5 (n + 1) lt xN o) g0).state
      (execute slope (Priv.clearTraverses id) fuelL' (algs5 (n + 1) lt xN o') g0).state ∨
    (execute slope (Priv.clearTraverses id) fuelL' (algs5 (n + 1) lt xN o') g0).rounds <
      (execute slope (Priv.clearTraverses id) fuelL (algs5 (n + 1) lt xN o) g0).rounds := by
  have ext := roundsO5_known slope (n + 1) lt xN o' haiFlags'
  have main := acord2_modelled_monotone_partial H slope g0 h0 hinit
  rcases modelled_execute_is_rounds slope (n + 1) lt xN o fuelL g0 hfresh.noneCompleted hf with
    ⟨e1, _, _⟩ | ⟨k, e1, r1, _⟩
  · rcases modelled_execute_is_rounds slope (n + 1) lt xN o' fuelL' g0 hfresh.noneCompleted hf' with
      ⟨e2, _, _⟩ | ⟨k', e2, _, _⟩
    · left; rw [e1, e2]; exact KnownLe.refl _
    · left; rw [e1, e2]; exact ext _ g0
  · rcases modelled_execute_is_rounds slope (n + 1) lt xN o' fuelL' g0 hfresh.noneCompleted hf' with
      ⟨_, r2, _⟩ | ⟨k', e2, r2, _⟩
    · right; rw [r1, r2]; omega
    · by_cases hkk : k ≤ k'
      · left
        obtain ⟨d, rfl⟩ := Nat.exists_eq_add_of_le hkk
        have e3 : roundsO (book5 slope) (strategies5 (n + 1) lt xN) o' (k + d + 1) g0 =
            roundsO (book5 slope) (strategies5 (n + 1) lt xN) o' d
              (roundsO (book5 slope) (strategies5 (n + 1) lt xN) o' (k + 1) g0) := by
          rw [show k + d + 1 = (k + 1) + d by omega]
          exact roundsO_add _ _ _ (k + 1) d g0
        rw [e1, e2, e3]
        exact KnownLe.trans (main (k + 1)).2.1 (ext d _)
      · right; rw [r1, r2]; omega

end final

/-! ### AcordIntersection: the hypothesis in narrow form, and the case without stand-point observations -/

section inter
variable {ι : Type} [DecidableEq ι]

/-- what the (idling) wrapper of AcordIntersection leaves alone -/
theorem aiIdle_frame (fuel : Nat) (lt : ι → ι → Bool) (keys : List ι) (extra : Bool) (xN : ℝ)
    (cls : List (Inter.Cl ι ℝ)) (g : G5 ι) :
    (idle (aiAlg fuel lt keys extra xN cls) g).candXY = g.candXY ∧
    (idle (aiAlg fuel lt keys extra xN cls) g).priv.az = g.priv.az ∧
    (idle (aiAlg fuel lt keys extra xN cls) g).priv.hd = g.priv.hd ∧
    (idle (aiAlg fuel lt keys extra xN cls) g).priv.vec = g.priv.vec ∧
    (idle (aiAlg fuel lt keys extra xN cls) g).priv.zd = g.priv.zd := by
  unfold idle; split <;> exact ⟨rfl, rfl, rfl, rfl, rfl⟩

/-- **`aiMono` from facts about the point list only**: AcordIntersection's step is monotone on the whole simulation
    relation as soon as, on related sound states, both calls are `StepOK` (flags and `missing_xy_` monotone, a point
    leaves `missing_xy_` only with xy, …), what the small run knows afterwards the large run knows, and the private
    relation `Rai` is re-established -/
theorem aiMono_of_facts (fuel : Nat) (lt : ι → ι → Bool) (xN : ℝ) (Rai : AiPriv ℝ → AiPriv ℝ → Prop)
    (Sound : G5 ι → Prop) (o o' : ObsSet ι)
    (h : ∀ g g', Sound g → Sound g' → KL fuel Rai o o' g g' →
      StepOK g.st (idle (aiAlg fuel lt o.keys o.extra xN o.cls) g).st ∧
      StepOK g'.st (idle (aiAlg fuel lt o'.keys o'.extra xN o'.cls) g').st ∧
      (∀ i, ((idle (aiAlg fuel lt o.keys o.extra xN o.cls) g).st.pd i).bxy = true →
        ((idle (aiAlg fuel lt o'.keys o'.extra xN o'.cls) g').st.pd i).bxy = true) ∧
      (∀ i, ((idle (aiAlg fuel lt o.keys o.extra xN o.cls) g).st.pd i).bz = true →
        ((idle (aiAlg fuel lt o'.keys o'.extra xN o'.cls) g').st.pd i).bz = true) ∧
      Rai (idle (aiAlg fuel lt o.keys o.extra xN o.cls) g).priv.rest
        (idle (aiAlg fuel lt o'.keys o'.extra xN o'.cls) g').priv.rest) :
    StepMono Sound (KL fuel Rai o o') (idle (aiAlg fuel lt o.keys o.extra xN o.cls))
      (idle (aiAlg fuel lt o'.keys o'.extra xN o'.cls)) := by
  intro g g' hs hs' hk
  obtain ⟨k, k', kxy1, kz1, hr⟩ := h g g' hs hs' hk
  obtain ⟨c, a1, a2, a3, _⟩ := aiIdle_frame fuel lt o.keys o.extra xN o.cls g
  obtain ⟨c', a1', a2', a3', a4'⟩ := aiIdle_frame fuel lt o'.keys o'.extra xN o'.cls g'
  have fl := stFlags_flagLe k'.flags
  refine hk.frame k k' kxy1 kz1 c c' ?_ ?_ ?_ a4' hr
  · rw [a1, a1']; exact hk.az.mono fl
  · rw [a2, a2']; exact hk.hd.mono fl
  · rw [a3, a3']; exact hk.vec.mono fl

theorem acCalculation_nil (fuel : Nat) (lt : ι → ι → Bool) (keys : List ι) (extra : Bool) (sal : ℝ)
    (st : Inter.ACState ι ℝ) : Inter.acCalculation fuel lt keys extra sal [] st = st := by
  unfold Inter.acCalculation; simp

theorem aiLoop_nil (fuel : Nat) (lt : ι → ι → Bool) (keys : List ι) (extra : Bool) (xN : ℝ) (st : Inter.AiState ι ℝ) :
    (Inter.aiLoop fuel lt keys extra xN [] st).1.pd = st.pd ∧
    (Inter.aiLoop fuel lt keys extra xN [] st).1.missXY = st.missXY.filter (fun i => !(st.pd i).bxy) := by
  have e : Inter.copyHorizontal ([] ++ [(⟨some xN, Inter.tempAll st.pd []⟩ : Inter.Cl ι ℝ)]) = [] := by
    simp [Inter.copyHorizontal, Inter.copyFrom, Inter.tempAll]
  unfold Inter.aiLoop
  simp only [e, acCalculation_nil]
  split <;> exact ⟨rfl, rfl⟩

/-- without stand-point clusters AcordIntersection::execute leaves the point list alone and only removes points
    with xy from `missing_xy_` -/
theorem aiExecute_nil (fuel : Nat) (lt : ι → ι → Bool) (keys : List ι) (extra : Bool) (xN : ℝ) (alg : Inter.AiAlg)
    (st : Inter.AiState ι ℝ) :
    (Inter.aiExecute fuel lt keys extra xN [] alg st).2.pd = st.pd ∧
    (∀ i ∈ (Inter.aiExecute fuel lt keys extra xN [] alg st).2.missXY, i ∈ st.missXY) ∧
    (∀ i ∈ st.missXY, i ∉ (Inter.aiExecute fuel lt keys extra xN [] alg st).2.missXY → (st.pd i).bxy = true) := by
  have hfil : ∀ (m : List ι) (pd : PD ι ℝ), (∀ i ∈ m.filter (fun i => !(pd i).bxy), i ∈ m) ∧
      (∀ i ∈ m, i ∉ m.filter (fun i => !(pd i).bxy) → (pd i).bxy = true) := by
    intro m pd
    refine ⟨fun i hi => (List.mem_filter.mp hi).1, fun i hi hn => ?_⟩
    cases hb : (pd i).bxy
    · exact absurd (List.mem_filter.mpr ⟨hi, by simp [hb]⟩) hn
    · rfl
  obtain ⟨l1, l2⟩ := aiLoop_nil fuel lt keys extra xN st
  obtain ⟨m1, m2⟩ := aiLoop_nil fuel lt keys extra xN (Inter.aiLoop fuel lt keys extra xN [] st).1
  have hA : (Inter.aiLoop fuel lt keys extra xN [] st).1.pd = st.pd ∧
      (∀ i ∈ (Inter.aiLoop fuel lt keys extra xN [] st).1.missXY, i ∈ st.missXY) ∧
      (∀ i ∈ st.missXY, i ∉ (Inter.aiLoop fuel lt keys extra xN [] st).1.missXY → (st.pd i).bxy = true) := by
    refine ⟨l1, ?_, ?_⟩
    · rw [l2]; exact (hfil st.missXY st.pd).1
    · rw [l2]; exact (hfil st.missXY st.pd).2
  have hB : (Inter.aiLoop fuel lt keys extra xN [] (Inter.aiLoop fuel lt keys extra xN [] st).1).1.pd = st.pd ∧
      (∀ i ∈ (Inter.aiLoop fuel lt keys extra xN [] (Inter.aiLoop fuel lt keys extra xN [] st).1).1.missXY,
        i ∈ st.missXY) ∧
      (∀ i ∈ st.missXY, i ∉ (Inter.aiLoop fuel lt keys extra xN [] (Inter.aiLoop fuel lt keys extra xN [] st).1).1.missXY →
        (st.pd i).bxy = true) := by
    refine ⟨m1.trans l1, ?_, ?_⟩
    · rw [m2, l1, l2]
      intro i hi
      exact (hfil st.missXY st.pd).1 i ((hfil _ st.pd).1 i hi)
    · rw [m2, l1, l2]
      intro i hi hn
      by_cases h1 : i ∈ st.missXY.filter (fun i => !(st.pd i).bxy)
      · exact (hfil _ st.pd).2 i h1 hn
      · exact (hfil st.missXY st.pd).2 i hi h1
  unfold Inter.aiExecute
  simp only [Inter.copyHorizontal, Inter.copyFrom, acCalculation_nil]
  split_ifs
  all_goals first
    | exact ⟨rfl, fun i hi => hi, fun i hi hn => absurd hi hn⟩
    | exact hA
    | exact hB

/-- `execute()` of the wrapper on an observation set without stand-point clusters -/
theorem aiNil_exec (fuel : Nat) (lt : ι → ι → Bool) (keys : List ι) (extra : Bool) (xN : ℝ) (g : G5 ι) :
    ((aiAlg fuel lt keys extra xN []).exec g).st.pd = g.st.pd ∧ StepOK g.st ((aiAlg fuel lt keys extra xN []).exec g).st := by
  obtain ⟨e1, e2, e3⟩ := aiExecute_nil fuel lt keys extra xN g.priv.rest.alg
    ⟨g.st.pd, g.priv.rest.oris, g.st.missXY, g.priv.rest.sal⟩
  have epd : ((aiAlg fuel lt keys extra xN []).exec g).st.pd = g.st.pd := e1
  refine ⟨epd, ⟨⟨fun i hi => by rw [epd]; exact hi, fun i hi => by rw [epd]; exact hi, fun i hi => e2 i hi,
    Sub.refl _⟩, fun i hi hn => ?_, fun i hi hn => absurd hi hn, fun hm i hi => ?_, fun hm i hi => ?_, rfl⟩⟩
  · rw [epd]; exact e3 i hi hn
  · rw [epd]; exact hm i (e2 i hi)
  · rw [epd]; exact hm i hi

theorem aiNil_flags (fuel : Nat) (lt : ι → ι → Bool) (keys : List ι) (extra : Bool) (xN : ℝ) (g : G5 ι) :
    FlagsKept g ((aiAlg fuel lt keys extra xN []).exec g) := (aiNil_exec fuel lt keys extra xN g).2.flags

/-- the idling wrapper on an observation set without stand-point clusters -/
theorem aiNil_step (fuel : Nat) (lt : ι → ι → Bool) (keys : List ι) (extra : Bool) (xN : ℝ) (g : G5 ι) :
    (idle (aiAlg fuel lt keys extra xN []) g).st.pd = g.st.pd ∧ StepOK g.st (idle (aiAlg fuel lt keys extra xN []) g).st := by
  unfold idle
  split
  · exact ⟨rfl, StepOK.refl _⟩
  · exact aiNil_exec fuel lt keys extra xN g

/-- AcordIntersection keeps the soundness invariant when there are no stand-point clusters (any invariant on its
    private state that holds everywhere) -/
theorem aiNil_sound (T : Truth ι) (xN' : ℝ) (IRai : AiPriv ℝ → Prop) (hI : ∀ q, IRai q) (fuel : Nat)
    (lt : ι → ι → Bool) (keys : List ι) (extra : Bool) (xN : ℝ) (g : G5 ι) (h : Sound5 T xN' IRai g) :
    Sound5 T xN' IRai ((aiAlg fuel lt keys extra xN []).exec g) := by
  obtain ⟨e1, _, _⟩ := aiExecute_nil fuel lt keys extra xN g.priv.rest.alg
    ⟨g.st.pd, g.priv.rest.oris, g.st.missXY, g.priv.rest.sal⟩
  have epd : ((aiAlg fuel lt keys extra xN []).exec g).st.pd = g.st.pd := e1
  exact ⟨by rw [epd]; exact h.sxy, by rw [epd]; exact h.sz, h.cxy, h.cz, h.az, h.hd, h.vec, hI _⟩

/-- … and is monotone (with the trivial private relation) -/
theorem aiNil_mono (fuel : Nat) (lt : ι → ι → Bool) (xN : ℝ) (Sound : G5 ι → Prop) (o o' : ObsSet ι)
    (hc : o.cls = []) (hc' : o'.cls = []) :
    StepMono Sound (KL fuel (fun _ _ => True) o o') (idle (aiAlg fuel lt o.keys o.extra xN o.cls))
      (idle (aiAlg fuel lt o'.keys o'.extra xN o'.cls)) := by
  apply aiMono_of_facts
  intro g g' _ _ hk
  rw [hc, hc']
  obtain ⟨e, k⟩ := aiNil_step fuel lt o.keys o.extra xN g
  obtain ⟨e', k'⟩ := aiNil_step fuel lt o'.keys o'.extra xN g'
  refine ⟨k, k', fun i hi => ?_, fun i hi => ?_, trivial⟩
  · rw [e'] ; rw [e] at hi; exact hk.st.kxy i hi
  · rw [e'] ; rw [e] at hi; exact hk.st.kz i hi

end inter

/-! ## non-vacuity: a levelling line, and the same line with one more height difference to a further point -/

section examples

/-- `o`: the levelling line 0 → 1 of `C06S.exOd` (true heights `3 i`); no stand-point clusters -/
noncomputable def eO : ObsSet ℕ := ⟨exOd, [], [0, 1], false⟩
/-- `o'`: the same line and one more height difference 1 → 2 -/
noncomputable def eO' : ObsSet ℕ := ⟨[.hdiffs [(0, 1, 3), (1, 2, 3)]], [], [0, 1, 2], false⟩
/-- the constructor's state: point 0 given, heights of 1 and 2 missing, every strategy object fresh -/
noncomputable def eG : G5 ℕ :=
  ⟨⟨exPd, [], [1, 2], []⟩, [], ⟨AzAlg.fresh, HdAlg.fresh, VecAlg.fresh, ZdAlg.fresh, ⟨⟨false, false⟩, [], 1⟩⟩⟩
def eLt : ℕ → ℕ → Bool := fun a b => decide (a < b)

theorem eLe : ObsSet.le eO eO' := by
  refine ⟨⟨[.hdiffs [(0, 1, 3), (1, 2, 3)]], ?_, List.Sublist.refl _⟩, ?_, ⟨[], .nil, List.Sublist.refl _⟩, ?_, ?_⟩
  · refine List.Forall₂.cons ?_ .nil
    show List.Sublist [((0 : ℕ), (1 : ℕ), (3 : ℝ))] [(0, 1, 3), (1, 2, 3)]
    exact .cons_cons _ (.cons _ .slnil)
  · intro v hv; simp [eO, exOd, vecAll] at hv
  · intro i hi; simp [eO] at hi; simp [eO']; omega
  · intro h; simp [eO] at h

theorem eObs' : ExactObs exT 0 eO'.od := by
  refine ⟨?_, ?_, ?_, ?_, ?_⟩
  · intro f t v h; simp [eO', spObs] at h
  · intro f t v h; simp [eO', spObs] at h
  · intro h hh
    simp [eO', hdAll] at hh
    rcases hh with rfl | rfl <;> (simp [HdOK, exT]; try norm_num)
  · intro h hh; simp [eO', vecAll] at hh
  · simp [eO', OdZdOK]

theorem eSound : Sound5 exT 0 (fun _ => True) eG := by
  refine ⟨?_, ?_, ?_, ?_, ?_, ?_, ?_, trivial⟩
  · intro i _; by_cases h : i = 0 <;> simp [eG, exPd, exT, h]
  · intro i hi; by_cases h : i = 0
    · simp [eG, exPd, exT, h]
    · simp [eG, exPd, h] at hi
  · intro c hc; simp [eG] at hc
  · intro c hc; simp [eG] at hc
  · intro h; simp [eG, AzAlg.fresh] at h
  · intro h; simp [eG, HdAlg.fresh] at h
  · intro h; simp [eG, VecAlg.fresh] at h

theorem eOrd : StrictTotal eLt := by
  refine ⟨fun a => by simp [eLt], fun a b c h1 h2 => ?_, exTri⟩
  simp only [eLt, decide_eq_true_eq] at h1 h2 ⊢
  omega

theorem eHyps : MonoHyps eLt exT 0 (fun _ => True) (fun _ _ => True) 3 eO eO' := by
  refine ⟨eOrd, eLe, exObs, eObs', ?_, ?_, ?_, ?_, ?_, ?_, ?_⟩
  · simp [hdKeys, eO, exOd, hdAll, dedup]
  · simp [hdKeys, eO', hdAll, dedup]
  · simp [vecKeys, eO, exOd, vecAll, dedup]
  · simp [vecKeys, eO', vecAll, dedup]
  · exact fun g h => aiNil_sound exT 0 _ (fun _ => trivial) 4 eLt _ _ 0 g h
  · exact fun g h => aiNil_sound exT 0 _ (fun _ => trivial) 4 eLt _ _ 0 g h
  · exact aiNil_mono 4 eLt 0 _ eO eO' rfl rfl

theorem eFresh : Fresh eG := ⟨rfl, rfl, rfl, rfl, rfl, rfl, rfl, rfl, rfl, rfl⟩

theorem eInit : KL 4 (fun _ _ => True) eO eO' eG eG := by
  refine KL_init 4 _ eO eO' eG eFresh ?_ ?_ ?_ ?_ trivial
  · intro i hi; simp [eG] at hi
  · intro i hi
    simp [eG] at hi
    rcases hi with rfl | rfl <;> simp [eG, exPd]
  · intro i _ hb
    by_cases h : i = 0 <;> simp [eG, exPd, h] at hb
  · rintro i ⟨pd, c, hc, _⟩ _
    simp [eO, exOd, zdAll] at hc

-- `acord2_modelled_monotone_partial`, `monoMachine5`, `KL_init`, `hd_stepMono`, `vec_stepMono`, `zd_stepMono`,
-- `az_stepMono`, `book_mono`, `aiNil_mono`: every hypothesis holds for the two levelling lines
example (k : ℕ) :
    KnownLe (roundsO (book5 false) (strategies5 4 eLt 0) eO k eG) (roundsO (book5 false) (strategies5 4 eLt 0) eO' k eG) ∧
    Sound5 exT 0 (fun _ => True) (roundsO (book5 false) (strategies5 4 eLt 0) eO' k eG) :=
  ⟨(acord2_modelled_monotone_partial eHyps false eG eSound eInit k).2.1,
    (acord2_modelled_monotone_partial eHyps false eG eSound eInit k).2.2.2⟩

/-- the conclusion is not trivial: after one round the run on `o` has determined the height of point 1 … -/
theorem eRun : ((roundsO (book5 false) (strategies5 4 eLt 0) eO 1 eG).st.pd 1).bz = true := by
  simp [roundsO, roundO_eq, strategies5, idle, azAlg, hdAlg, zdAlg, vecAlg, aiAlg, eG, eO, exOd, azExecute, azPrepare,
    azCollect, azCollectDist, azRemoveKnown, spObs, AzAlg.fresh, hdExecute, HdAlg.fresh, hdPrepare, hdAll, hdRemoveKnown,
    exPd, dedup, hdRefresh, hdLoop, hdPass, hdPassStep, hdCopyBack, hdCopyStep, PD.upd, LP.setZ, zdExecute, zdAll,
    ZdAlg.fresh, vecExecute, VecAlg.fresh, vecPrepare, vecAll, vecRemoveKnown, vecRefresh, vecLoop, vecPass, vecCopyBack,
    Inter.aiExecute, Inter.aiLoop, Inter.acCalculation, Inter.copyHorizontal, Inter.copyFrom, Inter.tempAll,
    book5, bookkeeping, getMedians, getMediansZ, candXYCleanup, Acord.erase, Priv.clearTraverses]

/-- … the run on `o'` has also determined the height of the further point 2, which the run on `o` never does -/
theorem eRun' : ((roundsO (book5 false) (strategies5 4 eLt 0) eO' 1 eG).st.pd 2).bz = true ∧
    ((roundsO (book5 false) (strategies5 4 eLt 0) eO 1 eG).st.pd 2).bz = false := by
  constructor <;>
  simp [roundsO, roundO_eq, strategies5, idle, azAlg, hdAlg, zdAlg, vecAlg, aiAlg, eG, eO, eO', exOd, azExecute, azPrepare,
    azCollect, azCollectDist, azRemoveKnown, spObs, AzAlg.fresh, hdExecute, HdAlg.fresh, hdPrepare, hdAll, hdRemoveKnown,
    exPd, dedup, hdRefresh, hdLoop, hdPass, hdPassStep, hdCopyBack, hdCopyStep, PD.upd, LP.setZ, zdExecute, zdAll,
    ZdAlg.fresh, vecExecute, VecAlg.fresh, vecPrepare, vecAll, vecRemoveKnown, vecRefresh, vecLoop, vecPass, vecCopyBack,
    Inter.aiExecute, Inter.aiLoop, Inter.acCalculation, Inter.copyHorizontal, Inter.copyFrom, Inter.tempAll,
    book5, bookkeeping, getMedians, getMediansZ, candXYCleanup, Acord.erase, Priv.clearTraverses]

-- the consequence of the theorem for this instance: point 1 is determined in the run on the larger set too
example : ((roundsO (book5 false) (strategies5 4 eLt 0) eO' 1 eG).st.pd 1).bz = true :=
  (acord2_modelled_monotone_partial eHyps false eG eSound eInit 1).2.1.2 1 eRun

-- `acord2_modelled_execute_monotone_or_stops_earlier_partial`, `modelled_execute_is_rounds`, `loop_filter_is_rounds`:
-- the real do-while with its erase-remove on both observation sets, both runs finished
example :
    KnownLe (execute false (Priv.clearTraverses id) (Acord.measure eG + 1) (algs5 4 eLt 0 eO) eG).state
      (execute false (Priv.clearTraverses id) (Acord.measure eG + 1) (algs5 4 eLt 0 eO') eG).state ∨
    (execute false (Priv.clearTraverses id) (Acord.measure eG + 1) (algs5 4 eLt 0 eO') eG).rounds <
      (execute false (Priv.clearTraverses id) (Acord.measure eG + 1) (algs5 4 eLt 0 eO) eG).rounds :=
  acord2_modelled_execute_monotone_or_stops_earlier_partial eHyps false (fun g => aiNil_flags 4 eLt _ _ 0 g) eG eSound
    eFresh eInit _ _ (acord_execute_terminates false _ _ eG 0).2.1 (acord_execute_terminates false _ _ eG 0).2.1

end examples

end Gama.C06M
