/-
  Closed-form branches of statan.cpp over ℝ: strict monotonicity and range (`student1`, `student2`, χ² with
  n = 2 and n = 1, `normalZ0`, `normalZ1`), the sign symmetry of the `Chi_square` selector (generated
  `StatanGen.chiSel`), and the non-vanishing of the two divisors of Hill's expansion in `Student`.
-/
import Gama.Lemmas.StatanReal
namespace Gama.Statan
open Real

/-! ### N = 1: cot(π/2·u) -/

theorem student1_strictAnti {u v : ℝ} (hu : 0 < u) (huv : u < v) (hv : v ≤ 1) : student1 v < student1 u := by
  have hpi := Real.pi_pos
  rw [student1_real, student1_real]
  have ha0 : 0 < π / 2 * u := by positivity
  have hab : π / 2 * u < π / 2 * v := by nlinarith
  have hb : π / 2 * v ≤ π / 2 := by nlinarith
  have hsa : 0 < Real.sin (π / 2 * u) := Real.sin_pos_of_pos_of_lt_pi ha0 (by linarith)
  have hsb : 0 < Real.sin (π / 2 * v) := Real.sin_pos_of_pos_of_lt_pi (by linarith) (by linarith)
  have hd : 0 < Real.sin (π / 2 * v - π / 2 * u) :=
    Real.sin_pos_of_pos_of_lt_pi (by linarith) (by linarith)
  rw [Real.sin_sub] at hd
  rw [div_lt_div_iff₀ hsb hsa]
  linarith

theorem student1_nonneg {u : ℝ} (hu : 0 < u) (hv : u ≤ 1) : 0 ≤ student1 u := by
  have hpi := Real.pi_pos
  rw [student1_real]
  have hs : 0 < Real.sin (π / 2 * u) := Real.sin_pos_of_pos_of_lt_pi (by positivity) (by nlinarith)
  have hc : 0 ≤ Real.cos (π / 2 * u) := Real.cos_nonneg_of_mem_Icc ⟨by nlinarith, by nlinarith⟩
  positivity

theorem student1_pos {u : ℝ} (hu : 0 < u) (hv : u < 1) : 0 < student1 u := by
  have hpi := Real.pi_pos
  rw [student1_real]
  have hs : 0 < Real.sin (π / 2 * u) := Real.sin_pos_of_pos_of_lt_pi (by positivity) (by nlinarith)
  have hc : 0 < Real.cos (π / 2 * u) := Real.cos_pos_of_mem_Ioo ⟨by nlinarith, by nlinarith⟩
  positivity

/-! ### N = 2 -/

theorem student2_radicand {u : ℝ} (hu : 0 < u) (hv : u ≤ 1) :
    2 / (u * (2 - u)) - 2 = 2 * (1 - u) ^ 2 / (u * (2 - u)) := by
  have h2u : 2 - u ≠ 0 := by intro h; linarith
  have hune : u ≠ 0 := hu.ne'
  field_simp; ring

theorem student2_strictAnti {u v : ℝ} (hu : 0 < u) (huv : u < v) (hv : v ≤ 1) : student2 v < student2 u := by
  rw [student2_real, student2_real]
  have hdu : 0 < u * (2 - u) := by nlinarith
  have hdv : 0 < v * (2 - v) := by nlinarith
  have hlt : u * (2 - u) < v * (2 - v) := by nlinarith
  apply Real.sqrt_lt_sqrt
  · rw [student2_radicand (by linarith) hv]; positivity
  · have : 2 / (v * (2 - v)) < 2 / (u * (2 - u)) := div_lt_div_of_pos_left (by norm_num) hdu hlt
    linarith

theorem student2_pos {u : ℝ} (hu : 0 < u) (hv : u < 1) : 0 < student2 u := by
  rw [student2_real, student2_radicand hu hv.le]
  apply Real.sqrt_pos.mpr
  have : 0 < u * (2 - u) := by nlinarith
  have : 0 < (1 - u) ^ 2 := by have : 0 < 1 - u := by linarith
                               positivity
  positivity

theorem student2_one : student2 (1 : ℝ) = 0 := by
  rw [student2_real]; norm_num

/-! ### `Student(·, N)`, N ≤ 2: strictly decreasing on (0,1), sign -/

theorem studentAbs_le2_strictAnti (fuel : ℕ) {N : ℤ} (hN : N ≤ 2) {u v : ℝ} (hu : 0 < u) (huv : u < v)
    (hv : v ≤ 1) : studentAbs fuel v N < studentAbs fuel u N := by
  unfold studentAbs
  by_cases h1 : N ≤ 1
  · rw [if_pos h1, if_pos h1]; exact student1_strictAnti hu huv hv
  · rw [if_neg h1, if_neg h1, if_pos hN, if_pos hN]; exact student2_strictAnti hu huv hv

theorem studentAbs_le2_pos (fuel : ℕ) {N : ℤ} (hN : N ≤ 2) {u : ℝ} (hu : 0 < u) (hv : u < 1) :
    0 < studentAbs fuel u N := by
  unfold studentAbs
  by_cases h1 : N ≤ 1
  · rw [if_pos h1]; exact student1_pos hu hv
  · rw [if_neg h1, if_pos hN]; exact student2_pos hu hv

theorem student_le2_pos (fuel : ℕ) {N : ℤ} (hN : N ≤ 2) {α : ℝ} (h0 : 0 < α) (h1 : α < 1 / 2) :
    0 < student fuel α N := by
  rw [student_lt_half fuel N h1]; exact studentAbs_le2_pos fuel hN (by linarith) (by linarith)

theorem student_gt_half (fuel : ℕ) (N : ℤ) {α : ℝ} (h : 1 / 2 < α) :
    student fuel α N = - student fuel (1 - α) N := by
  have := student_antisym fuel N (α := 1 - α) (by intro e; linarith)
  rw [show 1 - (1 - α) = α by ring] at this; exact this

/-- N ≤ 2: `Student(α, N)` is strictly decreasing in α on the whole of (0,1) -/
theorem student_le2_strictAnti (fuel : ℕ) {N : ℤ} (hN : N ≤ 2) {α β : ℝ} (h0 : 0 < α) (hab : α < β)
    (h1 : β < 1) : student fuel β N < student fuel α N := by
  have key : ∀ a b : ℝ, 0 < a → a < b → b < 1 / 2 → student fuel b N < student fuel a N := by
    intro a b ha hab' hb
    rw [student_lt_half fuel N hb, student_lt_half fuel N (by linarith)]
    exact studentAbs_le2_strictAnti fuel hN (by linarith) (by linarith) (by linarith)
  rcases lt_trichotomy β (1 / 2) with hb | hb | hb
  · exact key α β h0 hab hb
  · rw [hb, student_half]; exact student_le2_pos fuel hN h0 (by linarith)
  · have hbneg : student fuel β N < 0 := by
      rw [student_gt_half fuel N hb]
      have := student_le2_pos fuel hN (α := 1 - β) (by linarith) (by linarith)
      linarith
    rcases lt_trichotomy α (1 / 2) with ha | ha | ha
    · have := student_le2_pos fuel hN h0 ha; linarith
    · rw [ha, student_half]; exact hbneg
    · rw [student_gt_half fuel N hb, student_gt_half fuel N ha]
      have := key (1 - β) (1 - α) (by linarith) (by linarith) (by linarith)
      linarith

/-! ### χ², n = 2 and n = 1 -/

theorem chiSquare_two_real (fuel : ℕ) (p : ℝ) : chiSquare fuel p 2 = -2 * Real.log p := by
  unfold chiSquare
  simp only [show ¬ ((2 : ℤ) < 2) by norm_num, if_false, if_true, scalar_ofNat_real, transc_log_real]
  push_cast; ring

theorem chi2_two_strictAnti (fuel : ℕ) {p q : ℝ} (hp : 0 < p) (hpq : p < q) :
    chiSquare fuel q 2 < chiSquare fuel p 2 := by
  rw [chiSquare_two_real, chiSquare_two_real]
  have := Real.log_lt_log hp hpq
  linarith

theorem chi2_two_pos (fuel : ℕ) {p : ℝ} (hp : 0 < p) (h1 : p < 1) : 0 < chiSquare fuel p 2 := by
  rw [chiSquare_two_real]
  have := Real.log_neg hp h1
  linarith

/-- n = 1 (the code's `n < 2`): strictly decreasing in p, *given* that `Normal` is positive and strictly
    decreasing on (0, ½) (oracle-only for the iterated value; proved for its start `normalZ1 ∘ normalZ0`) -/
theorem chi2_one_strictAnti (fuel : ℕ)
    (hpos : ∀ a : ℝ, 0 < a → a < 1 / 2 → 0 < normal fuel a)
    (hmono : ∀ a b : ℝ, 0 < a → a < b → b < 1 / 2 → normal fuel b < normal fuel a)
    {p q : ℝ} (hp : 0 < p) (hpq : p < q) (hq : q < 1) : chiSquare fuel q 1 < chiSquare fuel p 1 := by
  rw [chi2_one, chi2_one]
  have h1 := hpos (q / 2) (by linarith) (by linarith)
  have h2 := hmono (p / 2) (q / 2) (by linarith) (by linarith) (by linarith)
  exact mul_self_lt_mul_self h1.le h2

/-! ### the start of `Normal`: z₀ = √(−2 ln a), z₁ = z₀ − P(z₀)/Q(z₀) -/

theorem normalZ0_strictAnti {a b : ℝ} (ha : 0 < a) (hab : a < b) (hb : b ≤ 1) : normalZ0 b < normalZ0 a := by
  rw [normalZ0_real, normalZ0_real]
  have hl := Real.log_lt_log ha hab
  have hb0 : Real.log b ≤ 0 := Real.log_nonpos (by linarith) hb
  exact Real.sqrt_lt_sqrt (by linarith) (by linarith)

theorem normalZ0_nonneg (a : ℝ) : 0 ≤ normalZ0 a := by rw [normalZ0_real]; exact Real.sqrt_nonneg _

theorem normalZ1_real (z : ℝ) :
    normalZ1 z = z - ((7.47395 * z + 494.877) * z + 1637.72) / (((z + 117.9407) * z + 908.401) * z + 659.935) := by
  unfold normalZ1; rw [normalDen_real]; simp only [lit_real]; norm_num

/-- the rational correction P/Q is strictly decreasing on [0, ∞) (P(z₁)Q(z₂) − P(z₂)Q(z₁) = (z₂ − z₁)·R with all
    coefficients of R positive), hence `normalZ1` is strictly increasing there -/
theorem normalZ1_strictMono {z w : ℝ} (hz : 0 ≤ z) (hzw : z < w) : normalZ1 z < normalZ1 w := by
  rw [normalZ1_real, normalZ1_real]
  have hw : 0 ≤ w := by linarith
  have hQz : 0 < ((z + 117.9407) * z + 908.401) * z + 659.935 := by positivity
  have hQw : 0 < ((w + 117.9407) * w + 908.401) * w + 659.935 := by positivity
  have key : ((7.47395 * w + 494.877) * w + 1637.72) / (((w + 117.9407) * w + 908.401) * w + 659.935)
      < ((7.47395 * z + 494.877) * z + 1637.72) / (((z + 117.9407) * z + 908.401) * z + 659.935) := by
    rw [div_lt_div_iff₀ hQw hQz]
    have hR : 0 < (149479 / 20000 : ℝ) * (z * z * (w * w)) + 494877 / 1000 * (z * z * w) + 40943 / 25 * (z * z)
        + 494877 / 1000 * (z * (w * w)) + 1064290322799 / 20000000 * (z * w) + 752886088043 / 4000000 * z
        + 40943 / 25 * (w * w) + 752886088043 / 4000000 * w + 46444793309 / 40000 := by positivity
    have hd : 0 < w - z := by linarith
    have := mul_pos hd hR
    nlinarith [this]
  linarith

/-- the start value of `Normal` is strictly decreasing in the folded probability on (0, 1] -/
theorem normalStart_strictAnti {a b : ℝ} (ha : 0 < a) (hab : a < b) (hb : b ≤ 1) :
    normalZ1 (normalZ0 b) < normalZ1 (normalZ0 a) :=
  normalZ1_strictMono (normalZ0_nonneg b) (normalZ0_strictAnti ha hab hb)

/-! ### the selector of `Chi_square` -/

/-- the generated selector depends on `|t|` only — fails to compile if `fabs` is dropped in statan.cpp -/
theorem chiSel_neg (n : ℤ) (t : ℝ) : StatanGen.chiSel n (-t) = StatanGen.chiSel n t := by
  unfold StatanGen.chiSel
  simp only [scalar_abs_real, abs_neg]

theorem chiSel_abs (n : ℤ) (t : ℝ) : StatanGen.chiSel n t = StatanGen.chiSel n |t| := by
  unfold StatanGen.chiSel
  simp only [scalar_abs_real, abs_abs]

/-- upper (p) and lower (1 − p) critical values of the same level are computed with the same polynomial -/
theorem chiSel_complement (fuel : ℕ) (n : ℤ) {p : ℝ} (h : p ≠ 1 / 2) :
    StatanGen.chiSel n (normal fuel (1 - p)) = StatanGen.chiSel n (normal fuel p) := by
  rw [normal_antisym fuel h, chiSel_neg]

end Gama.Statan
