/-
  C04 / C20 round 5 — histories that CONTAIN refused solves (BadRegularization), chol and gso.

  The round-1..4 theorems quantify over configurations that resolve the defect (`Inv.cfg`, `ValidF`).  Here nothing is
  assumed about the inputs or the lists: any history of queries, `min_x…`, `reset`, `reset(A', b')`, refused or not.

  What can be claimed: both classes set `is_solved = true` BEFORE they throw (`null_space()` needs `defect()/lindep()`
  afterwards), so after a refusal the SAME object answers the next query on the SAME problem and configuration from
  the abandoned artefacts without throwing again (known observation, C04-full.md) — `Pending`.  In every other state
  the answer, INCLUDING a refusal, is that of a brand-new object with the current input and configuration; in
  particular a refusal never leaks into another problem or configuration.  For gso this rests on the error counter
  `error_icgs2_defect` being reset on every `solve()` (`counter_code`, from the regenerated table).

  Core Lean only.
-/
import Gama.Lemmas.FullHist
namespace Gama.C04.Full
open Gama Gama.C04

/-- the list the regularisation of a singular system works with, as `solve()` materialises it -/
def effM (k : Kind) (inp : Input) (s : FState) : List Nat := (materialise k inp s).list.getD []

/-- the regularisation of the current problem with the current configuration fails -/
def Refuses (k : Kind) (inp : Input) (s : FState) : Prop := 0 < inp.nullity ∧ inp.resolves (effM k inp s) = false

instance (k : Kind) (inp : Input) (s : FState) : Decidable (Refuses k inp s) := by unfold Refuses; infer_instance

/-- the refusal of the CURRENT problem under the CURRENT configuration has already been delivered and nothing
    cleared `is_solved` since -/
def Pending (k : Kind) (inp : Input) (s : FState) : Prop := s.solved = true ∧ Refuses k inp s

instance (k : Kind) (inp : Input) (s : FState) : Decidable (Pending k inp s) := by unfold Pending; infer_instance

/-- refusal-inclusive invariant: a solved object is exactly what a fresh object with the same configuration
    becomes by solving the current input (all fields, also the error counter) -/
def InvR (k : Kind) (inp : Input) (s : FState) : Prop :=
  s.solved = true → (solve k inp (init s.useAll s.list)).1 = s

/-- the list member after `materialise` — a function of the configuration only -/
def matList (k : Kind) (inp : Input) (ua : Bool) (l : Option (List Nat)) : Option (List Nat) :=
  match k with
  | .chol => if ua && ((l.map List.length).getD 0 != inp.n) then some (allList inp.n) else l
  | .gso => if ua then some (allList inp.n) else l

theorem mat_eq (k : Kind) (inp : Input) (s : FState) :
    materialise k inp s = { s with list := matList k inp s.useAll s.list } := by
  cases k <;> simp only [materialise, matList] <;> split <;> rfl

theorem matList_idem (k : Kind) (inp : Input) (ua : Bool) (l : Option (List Nat)) :
    matList k inp ua (matList k inp ua l) = matList k inp ua l := by
  cases k with
  | gso => cases ua <;> simp [matList]
  | chol =>
    by_cases h : (ua && ((l.map List.length).getD 0 != inp.n)) = true
    · simp only [matList, h, if_true]
      simp [allList_length]
    · simp only [matList, h]
      simp [h]

/-- `solve()` with every field written out: only `is_solved` and the configuration of the old state are read -/
theorem solve_fields (k : Kind) (inp : Input) (s : FState) :
    solve k inp s =
      if s.solved then (s, false) else
      if inp.nullity = 0 then (⟨true, s.useAll, s.list, true, .plain, errC k false false⟩, false)
      else
        if inp.resolves ((matList k inp s.useAll s.list).getD []) then
          (⟨true, s.useAll, matList k inp s.useAll s.list, true, .reg ((matList k inp s.useAll s.list).getD []),
            errC k true false⟩, false)
        else
          (⟨true, s.useAll, matList k inp s.useAll s.list, true, .broken ((matList k inp s.useAll s.list).getD []),
            errC k true true⟩, true) := by
  rw [solve_eq]
  obtain ⟨sv, ua, l, d, g, e⟩ := s
  cases sv with
  | true => rfl
  | false =>
    by_cases hn : inp.nullity = 0
    · simp [hn]
    · simp only [hn, mat_eq, if_false, Bool.false_eq_true]

theorem effM_eq (k : Kind) (inp : Input) (s : FState) : effM k inp s = (matList k inp s.useAll s.list).getD [] := by
  simp [effM, mat_eq]

theorem effM_cfg (k : Kind) (inp : Input) (s : FState) : effM k inp s = effM k inp (init s.useAll s.list) := by
  rw [effM_eq, effM_eq]; rfl

/-- gso: the materialised list is the effective list -/
theorem effM_gso (inp : Input) (s : FState) : effM .gso inp s = eff inp s := by
  rw [effM_eq]
  obtain ⟨sv, ua, l, d, g, e⟩ := s
  cases ua <;> simp [matList, eff]

/-- chol: likewise when the stored "all" list is absent or a list 1..n' (`Inv.all`) -/
theorem effM_chol (inp : Input) (s : FState) (hn : 0 < inp.n)
    (hall : s.useAll = true → s.list = none ∨ ∃ n', s.list = some (allList n')) : effM .chol inp s = eff inp s := by
  rw [effM_eq]
  obtain ⟨sv, ua, l, d, g, e⟩ := s
  cases ua with
  | false => simp [matList, eff]
  | true =>
    rcases hall rfl with h | ⟨n', h⟩
    · simp only at h; subst h
      have : ¬ (0 = inp.n) := by omega
      simp [matList, eff, this]
    · simp only at h; subst h
      by_cases hq : n' = inp.n
      · simp [matList, eff, allList_length, hq]
      · simp [matList, eff, allList_length, hq]

/-- **an unsolved object solves like a fresh one**: `solve()` overwrites everything it later reads — `x`, `G` / the
    work array (ghosts `dec`, `gprov`) and, through `icgs1()`, the error counter -/
theorem solve_unsolved (k : Kind) (inp : Input) (s : FState) (hs : s.solved = false) :
    solve k inp s = solve k inp (init s.useAll s.list) := by
  rw [solve_fields, solve_fields]
  simp only [hs, init, Bool.false_eq_true, if_false]
  rfl

/-- the outcome of a fresh `solve()` -/
theorem solve_init_thrown (k : Kind) (inp : Input) (ua : Bool) (l : Option (List Nat)) :
    (solve k inp (init ua l)).2 = true ↔ Refuses k inp (init ua l) := by
  rw [solve_fields]
  unfold Refuses
  rw [effM_eq]
  by_cases hn : inp.nullity = 0
  · simp [hn, init]
  · have h0 : 0 < inp.nullity := by omega
    by_cases hr : inp.resolves ((matList k inp ua l).getD []) = true
    · simp [hn, init, hr]
    · simp [hn, init, hr, h0]

theorem solve_solved (k : Kind) (inp : Input) (ua : Bool) (l : Option (List Nat)) :
    (solve k inp (init ua l)).1.solved = true := by
  rw [solve_fields]
  by_cases hn : inp.nullity = 0
  · simp [hn, init]
  · by_cases hr : inp.resolves ((matList k inp ua l).getD []) = true
    · simp [hn, init, hr]
    · simp [hn, init, hr]

theorem solve_dec (k : Kind) (inp : Input) (ua : Bool) (l : Option (List Nat)) :
    (solve k inp (init ua l)).1.dec = true := by
  rw [solve_fields]
  by_cases hn : inp.nullity = 0
  · simp [hn, init]
  · by_cases hr : inp.resolves ((matList k inp ua l).getD []) = true
    · simp [hn, init, hr]
    · simp [hn, init, hr]

/-- `solve()` from the configuration a `solve()` left behind reproduces the same object (the list 1..n that was
    materialised is found again: gso refills it, chol sees `minx_n == N`) -/
theorem solve_init_fix (k : Kind) (inp : Input) (ua : Bool) (l : Option (List Nat)) :
    (solve k inp (init (solve k inp (init ua l)).1.useAll (solve k inp (init ua l)).1.list)).1
      = (solve k inp (init ua l)).1 := by
  by_cases hn : inp.nullity = 0
  · simp [solve_fields, hn, init]
  · by_cases hr : inp.resolves ((matList k inp ua l).getD []) = true
    · simp [solve_fields, hn, init, hr, matList_idem]
    · simp [solve_fields, hn, init, hr, matList_idem]

/-- a query reads the object only through `solve()` -/
theorem step_query_congr (k : Kind) (inp : Input) (s1 s2 : FState) (q : Op) (hq : q.IsQuery)
    (h : solve k inp s1 = solve k inp s2) : step k inp s1 q = step k inp s2 q := by
  cases q <;> simp only [Op.IsQuery] at hq <;> simp only [step, stepWith, solveWith_code, h] <;> rfl

/-- a query leaves the object as `solve()` left it -/
theorem step_query_fst (k : Kind) (inp : Input) (s : FState) (q : Op) (hq : q.IsQuery) :
    (step k inp s q).1 = (solve k inp s).1 := by
  show (stepWith icgsCode k inp s q).1 = (solveWith icgsCode k inp s).1
  cases q <;> simp only [Op.IsQuery] at hq <;> simp only [stepWith] <;>
    (by_cases h2 : (solveWith icgsCode k inp s).2 = true
     · rw [if_pos h2]
     · rw [if_neg h2] <;> ((repeat' split) <;> rfl))

theorem step_config_out (k : Kind) (inp : Input) (s : FState) (q : Op) (hq : ¬ q.IsQuery) :
    (step k inp s q).2 = .ok ∧ (step k inp s q).1.solved = false := by
  cases q <;> simp only [Op.IsQuery, not_true_eq_false, not_false_eq_true] at hq <;>
    first | exact ⟨rfl, rfl⟩ | (cases k <;> exact ⟨rfl, rfl⟩)

/-- one step: the invariant is kept, and unless a refusal of this very problem and configuration is pending the
    answer — a value, `stale`-free, or the refusal — is that of a fresh object -/
theorem stepR (k : Kind) (inp : Input) (s : FState) (hi : InvR k inp s) (op : Op) :
    InvR k inp (step k inp s op).1 ∧
      (¬ Pending k inp s → (step k inp s op).2 = fresh k inp s.useAll s.list op) := by
  by_cases hq : op.IsQuery
  · cases hsv : s.solved with
    | false =>
      have hA := solve_unsolved k inp s hsv
      have hstep := step_query_congr k inp s (init s.useAll s.list) op hq hA
      refine ⟨?_, fun _ => by rw [hstep]; rfl⟩
      -- the new state is `(solve …).1`
      have hst : (step k inp s op).1 = (solve k inp (init s.useAll s.list)).1 := by
        rw [step_query_fst k inp s op hq, hA]
      intro _
      rw [hst]
      exact solve_init_fix k inp s.useAll s.list
    | true =>
      have hfix := hi hsv
      have hsolve : solve k inp s = (s, false) := by rw [solve_eq]; simp [hsv]
      have hst : (step k inp s op).1 = s := by
        rw [step_query_fst k inp s op hq, hsolve]
      refine ⟨by rw [hst]; exact hi, fun hp => ?_⟩
      have hnr : ¬ Refuses k inp (init s.useAll s.list) := by
        intro hr
        apply hp
        refine ⟨hsv, ?_⟩
        unfold Refuses at hr ⊢
        rw [effM_cfg]; exact hr
      have hthr : (solve k inp (init s.useAll s.list)).2 = false := by
        cases ht : (solve k inp (init s.useAll s.list)).2 with
        | false => rfl
        | true => exact absurd ((solve_init_thrown k inp s.useAll s.list).1 ht) hnr
      have : solve k inp (init s.useAll s.list) = solve k inp s := by
        rw [hsolve]; exact Prod.ext hfix hthr
      unfold fresh
      rw [step_query_congr k inp (init s.useAll s.list) s op hq this]
  · have h := step_config_out k inp s op hq
    refine ⟨fun hh => absurd hh (by simp [h.2]), fun _ => ?_⟩
    rw [h.1]; unfold fresh
    exact (step_config_out k inp (init s.useAll s.list) op hq).1.symm

theorem invR_unsolved (k : Kind) (inp : Input) (s : FState) (h : s.solved = false) : InvR k inp s :=
  fun hh => absurd hh (by simp [h])

/-- the invariant along ANY history, across inputs — no hypothesis on inputs, lists or outcomes -/
theorem hfrunR (k : Kind) (h : HF) (hi : InvR k h.inp h.s) (ops : List HOp) :
    InvR k (hfrun k h ops).inp (hfrun k h ops).s := by
  induction ops generalizing h with
  | nil => exact hi
  | cons o ops ih =>
    refine ih (h := (hfstep k h o).1) ?_
    cases o with
    | q op => exact (stepR k h.inp h.s hi op).1
    | resetNew inp' => exact invR_unsolved k inp' (freset h.s) rfl

/-- a fresh object refuses a query iff the regularisation of ITS problem with ITS configuration fails -/
theorem fresh_refused_iff (k : Kind) (inp : Input) (ua : Bool) (l : Option (List Nat)) (q : Op) (hq : q.IsQuery) :
    fresh k inp ua l q = .badReg ↔ Refuses k inp (init ua l) := by
  rw [← solve_init_thrown]
  unfold fresh
  have hs := solve_solved k inp ua l
  have hd := solve_dec k inp ua l
  cases ht : (solve k inp (init ua l)).2 with
  | true =>
    cases q <;> simp only [Op.IsQuery] at hq <;> simp [step, stepWith, solveWith_code, ht]
  | false =>
    cases q <;> simp only [Op.IsQuery] at hq <;>
      (cases k <;> simp [step, stepWith, solveWith_code, ht, hd] <;> (repeat' split) <;> simp_all)

/-- the Pending state is reached only by a refusal of the current problem under the current configuration, and a
    fresh object would refuse it as well -/
theorem pending_fresh_refuses (k : Kind) (inp : Input) (s : FState) (hp : Pending k inp s) (q : Op) (hq : q.IsQuery) :
    fresh k inp s.useAll s.list q = .badReg := by
  rw [fresh_refused_iff k inp _ _ q hq]
  unfold Refuses
  rw [← effM_cfg]; exact hp.2

end Gama.C04.Full
