/-
  C06 — the true coordinates are a fixed point: for every observation type of the *generated*
  linearisation (Gama/Gen/Linearization.lean, regenerated from local_linearization.cpp by C05's translator),
  an observation that equals its function of the current coordinates has absolute term 0.
  Uses C05's right-hand-side theorems (Gama/Lemmas/LinReal.lean).
-/
import Gama.Lemmas.LinReal
namespace Gama.C06L
open Gama Gama.Lin Real

/-- a misclosure that is a whole number of full circles is reduced to 0 by the two `while` loops -/
theorem isWrapOf_full_zero (k : ℤ) (r : ℝ) (h : IsWrapOf ((k : ℝ) * FULL) r) : r = 0 := by
  obtain ⟨⟨k', hk⟩, hlo, hhi⟩ := h
  have hr : r = ((k - k' : ℤ) : ℝ) * 4000000 := by rw [hk]; simp [FULL]; ring
  set j : ℤ := k - k' with hj
  have h1 : (-1 : ℝ) < (j : ℝ) := by
    have : -HALF < (j : ℝ) * 4000000 := by rw [← hr]; exact hlo
    simp only [HALF] at this; nlinarith
  have h2 : (j : ℝ) < 1 := by
    have : (j : ℝ) * 4000000 ≤ HALF := by rw [← hr]; exact hhi
    simp only [HALF] at this; nlinarith
  have h1' : (-1 : ℤ) < j := by exact_mod_cast h1
  have h2' : j < 1 := by exact_mod_cast h2
  have : j = 0 := by omega
  rw [hr, this]; simp

theorem two_pi_R2CC : 2 * π * R2CC = FULL := by
  simp only [R2CC, FULL]; field_simp; ring

theorem fix_distance (fuel : Nat) (o : Obs ℝ) (out : LinOut ℝ) (h : ¬ hdist o < CUT)
    (hv : o.value = hdist o) (hok : Gen.Lin.distance fuel o = .ok out) : out.rhs = 0 := by
  rw [distance_rhs fuel o out h hok, hv]; ring

/-- direction = bearing − orientation reduced to [0,2π): value + orientation − bearing = 2πk -/
theorem fix_direction (fuel : Nat) (o : Obs ℝ) (out : LinOut ℝ) (h : ¬ hdist o < CUT) (k : ℤ)
    (hv : o.value + o.orientation = brg (dX o) (dY o) + 2 * π * k)
    (hok : Gen.Lin.direction fuel o = .ok out) : out.rhs = 0 := by
  have := (direction_ok fuel o out h hok).1
  have e : (o.value + o.orientation - brg (dX o) (dY o)) * R2CC = (k : ℝ) * FULL := by
    rw [hv, ← two_pi_R2CC]; ring
  rw [e] at this
  exact isWrapOf_full_zero k _ this

theorem fix_azimuth (fuel : Nat) (o : Obs ℝ) (out : LinOut ℝ) (h : ¬ hdist o < CUT) (k : ℤ)
    (hv : o.value + o.xNorth = brg (dX o) (dY o) + 2 * π * k)
    (hok : Gen.Lin.azimuth fuel o = .ok out) : out.rhs = 0 := by
  have := (azimuth_ok fuel o out h hok).1
  have e : (o.value + o.xNorth - brg (dX o) (dY o)) * R2CC = (k : ℝ) * FULL := by
    rw [hv, ← two_pi_R2CC]; ring
  rw [e] at this
  exact isWrapOf_full_zero k _ this

theorem fix_angle (fuel : Nat) (o : Obs ℝ) (out : LinOut ℝ) (h : ¬ hdist o < CUT) (h' : ¬ hdist2 o < CUT)
    (hv : o.value = angleBsFs o) (hok : Gen.Lin.angle fuel o = .ok out) : out.rhs = 0 := by
  have := (angle_ok fuel o out h h' hok).1
  have e : (o.value - angleBsFs o) * R2CC = ((0 : ℤ) : ℝ) * FULL := by rw [hv]; simp
  rw [e] at this
  exact isWrapOf_full_zero 0 _ this

theorem fix_s_distance (fuel : Nat) (o : Obs ℝ) (out : LinOut ℝ)
    (hv : o.value = sdist o) (hok : Gen.Lin.s_distance fuel o = .ok out) : out.rhs = 0 := by
  rw [(s_distance_rhs fuel o out hok).2, hv]; ring

/-- zenith angle: the value the code compares with is acos(dz/s), or 2π − acos(dz/s) for a second-face reading -/
theorem fix_z_angle (fuel : Nat) (o : Obs ℝ) (out : LinOut ℝ)
    (hv : o.value = zenithComputed o) (hok : Gen.Lin.z_angle fuel o = .ok out) : out.rhs = 0 := by
  rw [(z_angle_rhs fuel o out hok).2]; rw [← hv]; ring

theorem fix_linear (fuel : Nat) (o : Obs ℝ) :
    (o.value = dZ o → ∃ out, Gen.Lin.h_diff fuel o = .ok out ∧ out.rhs = 0) ∧
    (o.value = dZ o → ∃ out, Gen.Lin.zdiff fuel o = .ok out ∧ out.rhs = 0) ∧
    (o.value = dX o → ∃ out, Gen.Lin.xdiff fuel o = .ok out ∧ out.rhs = 0) ∧
    (o.value = dY o → ∃ out, Gen.Lin.ydiff fuel o = .ok out ∧ out.rhs = 0) ∧
    (o.value = fromX o → ∃ out, Gen.Lin.x fuel o = .ok out ∧ out.rhs = 0) ∧
    (o.value = fromY o → ∃ out, Gen.Lin.y fuel o = .ok out ∧ out.rhs = 0) ∧
    (o.value = fromZ o → ∃ out, Gen.Lin.z fuel o = .ok out ∧ out.rhs = 0) := by
  refine ⟨fun h => ⟨_, h_diff_eq fuel o, by simp [h]⟩, fun h => ⟨_, zdiff_eq fuel o, by simp [h]⟩,
    fun h => ⟨_, xdiff_eq fuel o, by simp [h]⟩, fun h => ⟨_, ydiff_eq fuel o, by simp [h]⟩,
    fun h => ⟨_, x_eq fuel o, by simp [h]⟩, fun h => ⟨_, y_eq fuel o, by simp [h]⟩,
    fun h => ⟨_, z_eq fuel o, by simp [h]⟩⟩

end Gama.C06L
