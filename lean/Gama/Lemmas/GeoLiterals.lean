/-
  Lemmas about the recognisers of intfloat.h (core Lean lists).
-/
import Gama.Model.GeoLiterals
namespace Gama.Literals

theorem digit_not_sign {c : Char} (h : isDigit c = true) : c ≠ '+' ∧ c ≠ '-' := by
  constructor <;> (intro hc; subst hc; revert h; decide)

theorem skipSign_of_digit {c : Char} {r : List Char} (h : isDigit c = true) : skipSign (c :: r) = c :: r := by
  obtain ⟨h1, h2⟩ := digit_not_sign h
  unfold skipSign
  split
  · rename_i heq; cases heq; exact absurd rfl h1
  · rename_i heq; cases heq; exact absurd rfl h2
  · rfl

theorem skipSign_sublist (cs : List Char) : ∀ c ∈ skipSign cs, c ∈ cs := by
  intro c hc
  unfold skipSign at hc
  split at hc
  · exact List.mem_cons_of_mem _ hc
  · exact List.mem_cons_of_mem _ hc
  · exact hc

theorem isInteger_iff (s : List Char) :
    isInteger s = true ↔
      trim s ≠ [] ∧ ∃ sg ds, trim s = sg ++ ds ∧ (sg = [] ∨ sg = ['+'] ∨ sg = ['-']) ∧
        (∀ c ∈ ds, isDigit c = true) := by
  unfold isInteger isIntegerWith
  simp only [Bool.false_and, Bool.false_eq_true, if_false]
  constructor
  · intro h
    cases ht : trim s with
    | nil => rw [ht] at h; exact absurd h (by decide)
    | cons c r =>
      rw [ht] at h
      simp only at h
      refine ⟨by simp, ?_⟩
      by_cases h1 : c = '+'
      · subst h1
        exact ⟨['+'], r, rfl, Or.inr (Or.inl rfl), by simpa [skipSign, List.all_eq_true] using h⟩
      · by_cases h2 : c = '-'
        · subst h2
          exact ⟨['-'], r, rfl, Or.inr (Or.inr rfl), by simpa [skipSign, List.all_eq_true] using h⟩
        · have hs : skipSign (c :: r) = c :: r := by
            unfold skipSign
            split
            · rename_i heq; cases heq; exact absurd rfl h1
            · rename_i heq; cases heq; exact absurd rfl h2
            · rfl
          rw [hs] at h
          exact ⟨[], c :: r, rfl, Or.inl rfl, by simpa [List.all_eq_true] using h⟩
  · rintro ⟨hne, sg, ds, heq, hsg, hds⟩
    cases ht : trim s with
    | nil => exact absurd ht hne
    | cons c r =>
      simp only
      rw [ht] at heq
      rcases hsg with rfl | rfl | rfl
      · simp only [List.nil_append] at heq
        have hc : isDigit c = true := hds c (by rw [← heq]; exact List.mem_cons_self)
        rw [skipSign_of_digit hc, List.all_eq_true, heq]; exact hds
      · simp only [List.cons_append, List.nil_append, List.cons.injEq] at heq
        obtain ⟨rfl, rfl⟩ := heq
        simp only [skipSign, List.all_eq_true]; exact hds
      · simp only [List.cons_append, List.nil_append, List.cons.injEq] at heq
        obtain ⟨rfl, rfl⟩ := heq
        simp only [skipSign, List.all_eq_true]; exact hds

/-- the repaired recogniser: accepted ⇒ at least one digit after the optional sign, and only digits -/
theorem isIntegerWith_true_iff (s : List Char) :
    isIntegerWith true s = true ↔ (skipSign (trim s)) ≠ [] ∧ (∀ c ∈ skipSign (trim s), isDigit c = true) := by
  unfold isIntegerWith
  cases ht : trim s with
  | nil => simp [skipSign]
  | cons a t =>
    simp only [Bool.true_and]
    cases hs : skipSign (a :: t) with
    | nil => simp
    | cons x r => simp [List.all_eq_true]

theorem isIntegerWith_true_has_digit (s : List Char) (h : isIntegerWith true s = true) :
    ∃ c ∈ s, isDigit c = true := by
  obtain ⟨hne, hall⟩ := (isIntegerWith_true_iff s).mp h
  cases hs : skipSign (trim s) with
  | nil => exact absurd hs hne
  | cons x r =>
    have hx : x ∈ skipSign (trim s) := by rw [hs]; exact List.mem_cons_self
    have h1 : x ∈ trim s := skipSign_sublist _ x hx
    have h2 : x ∈ s := by
      unfold trim at h1
      have := List.mem_reverse.mp h1
      have := (List.dropWhile_sublist _).subset this
      have := List.mem_reverse.mp this
      exact (List.dropWhile_sublist _).subset this
    exact ⟨x, h2, hall x hx⟩

theorem takeWhile_ne_nil_mem {p : Char → Bool} {l : List Char} (h : (l.takeWhile p).isEmpty = false) :
    ∃ c ∈ l, p c = true := by
  cases l with
  | nil => simp at h
  | cons a t =>
    by_cases ha : p a = true
    · exact ⟨a, List.mem_cons_self, ha⟩
    · simp [List.takeWhile, ha] at h

theorem dropWhile_mem {p : Char → Bool} {l : List Char} {c : Char} (h : c ∈ l.dropWhile p) : c ∈ l :=
  (List.dropWhile_sublist p).subset h

theorem skipDot_mem {l : List Char} {c : Char}
    (h : c ∈ (match l with | '.' :: r => r | _ => l)) : c ∈ l := by
  split at h
  · exact List.mem_cons_of_mem _ h
  · exact h

/-- an accepted float literal contains a digit -/
theorem isFloat_has_digit (s : List Char) (h : isFloat s = true) : ∃ c ∈ trim s, isDigit c = true := by
  unfold isFloat at h
  cases ht : trim s with
  | nil => rw [ht] at h; exact absurd h (by decide)
  | cons a t =>
    rw [ht] at h
    simp only [Bool.and_eq_true] at h
    have hd := h.2
    unfold mantissa at hd
    simp only [Bool.or_eq_true] at hd
    rcases hd with hd | hd
    · obtain ⟨c, hc, hp⟩ := takeWhile_ne_nil_mem (by simpa using hd)
      exact ⟨c, skipSign_sublist _ c hc, hp⟩
    · obtain ⟨c, hc, hp⟩ := takeWhile_ne_nil_mem (by simpa using hd)
      exact ⟨c, skipSign_sublist _ c (dropWhile_mem (skipDot_mem hc)), hp⟩

end Gama.Literals
