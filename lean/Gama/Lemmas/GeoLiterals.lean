/-
  Lemmas about the recognisers of intfloat.h (core Lean lists).
-/
import Gama.Model.GeoLiterals
import Gama.Lemmas.GeoGrammar
namespace Gama.Literals

theorem digit_not_sign {c : Char} (h : isDigit c = true) : c ≠ '+' ∧ c ≠ '-' := by
  constructor <;> (intro hc; subst hc; revert h; decide)

theorem skipSign_of_digit {c : Char} {r : List Char} (h : isDigit c = true) : skipSign (c :: r) = c :: r := by
  obtain ⟨h1, h2⟩ := digit_not_sign h
  unfold skipSign
  split
  · rename_i heq; cases heq; exact absurd rfl h1
  · rename_i heq; cases heq; exact absurd rfl h2
  · rfl

theorem skipSign_sublist (cs : List Char) : ∀ c ∈ skipSign cs, c ∈ cs := by
  intro c hc
  unfold skipSign at hc
  split at hc
  · exact List.mem_cons_of_mem _ hc
  · exact List.mem_cons_of_mem _ hc
  · exact hc

theorem isInteger_iff (s : List Char) :
    isInteger s = true ↔
      trim s ≠ [] ∧ ∃ sg ds, trim s = sg ++ ds ∧ (sg = [] ∨ sg = ['+'] ∨ sg = ['-']) ∧
        (∀ c ∈ ds, isDigit c = true) := by
  unfold isInteger isIntegerWith
  simp only [Bool.false_and, Bool.false_eq_true, if_false]
  constructor
  · intro h
    cases ht : trim s with
    | nil => rw [ht] at h; exact absurd h (by decide)
    | cons c r =>
      rw [ht] at h
      simp only at h
      refine ⟨by simp, ?_⟩
      by_cases h1 : c = '+'
      · subst h1
        exact ⟨['+'], r, rfl, Or.inr (Or.inl rfl), by simpa [skipSign, List.all_eq_true] using h⟩
      · by_cases h2 : c = '-'
        · subst h2
          exact ⟨['-'], r, rfl, Or.inr (Or.inr rfl), by simpa [skipSign, List.all_eq_true] using h⟩
        · have hs : skipSign (c :: r) = c :: r := by
            unfold skipSign
            split
            · rename_i heq; cases heq; exact absurd rfl h1
            · rename_i heq; cases heq; exact absurd rfl h2
            · rfl
          rw [hs] at h
          exact ⟨[], c :: r, rfl, Or.inl rfl, by simpa [List.all_eq_true] using h⟩
  · rintro ⟨hne, sg, ds, heq, hsg, hds⟩
    cases ht : trim s with
    | nil => exact absurd ht hne
    | cons c r =>
      simp only
      rw [ht] at heq
      rcases hsg with rfl | rfl | rfl
      · simp only [List.nil_append] at heq
        have hc : isDigit c = true := hds c (by rw [← heq]; exact List.mem_cons_self)
        rw [skipSign_of_digit hc, List.all_eq_true, heq]; exact hds
      · simp only [List.cons_append, List.nil_append, List.cons.injEq] at heq
        obtain ⟨rfl, rfl⟩ := heq
        simp only [skipSign, List.all_eq_true]; exact hds
      · simp only [List.cons_append, List.nil_append, List.cons.injEq] at heq
        obtain ⟨rfl, rfl⟩ := heq
        simp only [skipSign, List.all_eq_true]; exact hds

/-- the repaired recogniser: accepted ⇒ at least one digit after the optional sign, and only digits -/
theorem isIntegerWith_true_iff (s : List Char) :
    isIntegerWith true s = true ↔ (skipSign (trim s)) ≠ [] ∧ (∀ c ∈ skipSign (trim s), isDigit c = true) := by
  unfold isIntegerWith
  cases ht : trim s with
  | nil => simp [skipSign]
  | cons a t =>
    simp only [Bool.true_and]
    cases hs : skipSign (a :: t) with
    | nil => simp
    | cons x r => simp [List.all_eq_true]

theorem isIntegerWith_true_has_digit (s : List Char) (h : isIntegerWith true s = true) :
    ∃ c ∈ s, isDigit c = true := by
  obtain ⟨hne, hall⟩ := (isIntegerWith_true_iff s).mp h
  cases hs : skipSign (trim s) with
  | nil => exact absurd hs hne
  | cons x r =>
    have hx : x ∈ skipSign (trim s) := by rw [hs]; exact List.mem_cons_self
    have h1 : x ∈ trim s := skipSign_sublist _ x hx
    have h2 : x ∈ s := by
      unfold trim at h1
      have := List.mem_reverse.mp h1
      have := (List.dropWhile_sublist _).subset this
      have := List.mem_reverse.mp this
      exact (List.dropWhile_sublist _).subset this
    exact ⟨x, h2, hall x hx⟩

theorem takeWhile_ne_nil_mem {p : Char → Bool} {l : List Char} (h : (l.takeWhile p).isEmpty = false) :
    ∃ c ∈ l, p c = true := by
  cases l with
  | nil => simp at h
  | cons a t =>
    by_cases ha : p a = true
    · exact ⟨a, List.mem_cons_self, ha⟩
    · simp [List.takeWhile, ha] at h

theorem dropWhile_mem {p : Char → Bool} {l : List Char} {c : Char} (h : c ∈ l.dropWhile p) : c ∈ l :=
  (List.dropWhile_sublist p).subset h

theorem skipDot_mem {l : List Char} {c : Char}
    (h : c ∈ (match l with | '.' :: r => r | _ => l)) : c ∈ l := by
  split at h
  · exact List.mem_cons_of_mem _ h
  · exact h

/-- an accepted float literal contains a digit -/
theorem isFloat_has_digit (s : List Char) (h : isFloat s = true) : ∃ c ∈ trim s, isDigit c = true := by
  unfold isFloat at h
  cases ht : trim s with
  | nil => rw [ht] at h; exact absurd h (by decide)
  | cons a t =>
    rw [ht] at h
    simp only [Bool.and_eq_true] at h
    have hd := h.2
    unfold mantissa at hd
    simp only [Bool.or_eq_true] at hd
    rcases hd with hd | hd
    · obtain ⟨c, hc, hp⟩ := takeWhile_ne_nil_mem (by simpa using hd)
      exact ⟨c, skipSign_sublist _ c hc, hp⟩
    · obtain ⟨c, hc, hp⟩ := takeWhile_ne_nil_mem (by simpa using hd)
      exact ⟨c, skipSign_sublist _ c (dropWhile_mem (skipDot_mem hc)), hp⟩

end Gama.Literals

/-! ### the recognisers against the documented formats (Gama/Model/GeoGrammar.lean) -/

namespace Gama.Literals
open Gama.Grammar Gama.Grammar.Rx

theorem trim_eq (l : List Char) : trim l = dropTrailing Grammar.isSpace (l.dropWhile Grammar.isSpace) := rfl

theorem skipSign_eq (l : List Char) : skipSign l = skip isSign l := by
  unfold skipSign
  split
  · simp [skip, isSign]
  · simp [skip, isSign]
  · rename_i h1 h2
    cases l with
    | nil => rfl
    | cons c t =>
      have hc : isSign c = false := by
        cases hs : isSign c with
        | false => rfl
        | true =>
          unfold isSign at hs
          simp only [Bool.or_eq_true, decide_eq_true_eq] at hs
          rcases hs with rfl | rfl
          · exact absurd rfl (h1 t)
          · exact absurd rfl (h2 t)
      simp [skip, hc]

/-- `IsInteger` (repaired) accepts exactly `ws* [+-]? D+ ws*` -/
theorem isIntegerWith_true_grammar (s : List Char) : isIntegerWith true s = true ↔ integerRx.Lang s := by
  rw [isIntegerWith_true_iff]
  unfold integerRx
  rw [trim_lang integerCore ?_ ?_ rfl, ← trim_eq]
  · unfold integerCore
    rw [seq_opt_cls, ← skipSign_eq, digits1_lang]
    · rfl
    · intro c hc
      simp [digits1, starts, nullable] at hc
      exact Grammar.digit_not_sign hc
  · intro c hc
    simp [integerCore, opt, digits1, starts, nullable] at hc
    rcases hc with hc | hc
    · exact sign_not_space hc
    · exact digit_not_space hc
  · intro c hc
    simp [integerCore, opt, digits1, lasts, nullable] at hc
    exact digit_not_space hc

/-- `(seq (many isDigit) r)` after a first digit: the scanner's `dropWhile` -/
theorem tailOk_iff (x : List Char) : tailOk x = true ↔ (opt expPart).Lang x := by
  rw [opt_lang]
  unfold expPart
  cases x with
  | nil => simp [tailOk]
  | cons e r =>
    rw [seq_cls_cons, seq_opt_cls, digits1_lang, ← skipSign_eq]
    · simp only [tailOk, Bool.and_eq_true, exponentOk]
      have he : (decide (e = 'e') || decide (e = 'E')) = isExp e := rfl
      rw [he]
      constructor
      · rintro ⟨h1, h2⟩
        refine Or.inr ⟨h1, ?_⟩
        cases r with
        | nil => simp at h2
        | cons a t =>
          simp only at h2
          cases hs : skipSign (a :: t) with
          | nil => rw [hs] at h2; simp at h2
          | cons y z => rw [hs] at h2; simp only at h2; exact ⟨by simp, by simpa [List.all_eq_true] using (show (y :: z).all Grammar.isDigit = true from h2)⟩
      · rintro (h | ⟨h1, hne, hall⟩)
        · simp at h
        · refine ⟨h1, ?_⟩
          cases r with
          | nil => simp [skipSign] at hne
          | cons a t =>
            simp only
            cases hs : skipSign (a :: t) with
            | nil => exact absurd hs hne
            | cons y z => simp only [List.all_eq_true]; rw [hs] at hall; exact hall
    · intro c hc
      simp [digits1, starts, nullable] at hc
      exact Grammar.digit_not_sign hc

end Gama.Literals
namespace Gama.Literals
open Gama.Grammar Gama.Grammar.Rx

theorem mantissa_eq (cs : List Char) :
    mantissa cs = (!(cs.takeWhile Grammar.isDigit).isEmpty || !((skip isDot (cs.dropWhile Grammar.isDigit)).takeWhile Grammar.isDigit).isEmpty,
                   (skip isDot (cs.dropWhile Grammar.isDigit)).dropWhile Grammar.isDigit) := by
  unfold mantissa
  simp only []
  have e : Grammar.isDigit = isDigit := rfl
  rw [e]
  split
  · rename_i r hr; rw [hr]; simp [skip, isDot]
  · rename_i h1
    cases hl : List.dropWhile isDigit cs with
    | nil => simp [skip]
    | cons c t =>
      have : isDot c = false := by
        cases hd : isDot c with
        | false => rfl
        | true => unfold isDot at hd; simp only [decide_eq_true_eq] at hd; subst hd; exact absurd hl (h1 t)
      simp [skip, this]

theorem R_not_digit : ∀ c, (opt expPart).starts c → Grammar.isDigit c = false := by
  intro c hc
  simp [opt, expPart, starts, nullable] at hc
  exact exp_not_digit hc

theorem R_not_dot : ∀ c, (opt expPart).starts c → isDot c = false := by
  intro c hc
  simp [opt, expPart, starts, nullable] at hc
  exact exp_not_dot hc

theorem mantissa_grammar (cs : List Char) :
    (seq mantissaRx (opt expPart)).Lang cs ↔ ((mantissa cs).1 = true ∧ (opt expPart).Lang (mantissa cs).2) := by
  rw [mantissa_eq]
  unfold mantissaRx digits1
  rw [seq_alt, seq_assoc, seq_assoc, seq_assoc]
  cases cs with
  | nil =>
    simp only [List.takeWhile, List.dropWhile, skip]
    constructor
    · rintro (h | h)
      · exact absurd h (seq_cls_nil _ _)
      · exact absurd h (seq_cls_nil _ _)
    · rintro ⟨h, -⟩; simp at h
  | cons c t =>
    rw [seq_cls_cons, seq_cls_cons]
    by_cases hd : Grammar.isDigit c = true
    · have hdot : isDot c = false := digit_not_dot hd
      simp only [hd, hdot, true_and, Bool.false_eq_true, false_and, or_false, List.takeWhile, List.dropWhile,
        List.isEmpty_cons, Bool.not_false, Bool.true_or]
      rw [seq_many, seq_opt_group _ _ _ R_not_dot]
      · cases hx : t.dropWhile Grammar.isDigit with
        | nil => simp [skip]
        | cons d0 t2 =>
          simp only [skip]
          by_cases hq : isDot d0 = true
          · simp only [hq, if_true]
            rw [seq_many _ _ R_not_digit]
          · have hq' : isDot d0 = false := by simpa using hq
            have hnd : Grammar.isDigit d0 = false := dropWhile_stop _ _ d0 t2 hx
            simp only [hq', Bool.false_eq_true, if_false, List.dropWhile, hnd]
      · intro x hx
        simp [opt, expPart, starts, nullable] at hx
        rcases hx with hx | hx
        · exact dot_not_digit hx
        · exact exp_not_digit hx
    · have hd' : Grammar.isDigit c = false := by simpa using hd
      simp only [hd', Bool.false_eq_true, false_and, false_or, List.takeWhile, List.dropWhile, List.isEmpty_nil,
        Bool.not_true, Bool.false_or]
      by_cases hq : isDot c = true
      · simp only [hq, true_and, skip, if_true]
        cases t with
        | nil =>
          simp only [List.takeWhile, List.isEmpty_nil, Bool.not_true, Bool.false_eq_true, false_and, iff_false]
          rw [seq_assoc]; exact seq_cls_nil _ _
        | cons c2 t' =>
          rw [seq_assoc, seq_cls_cons]
          by_cases h2 : Grammar.isDigit c2 = true
          · simp only [h2, true_and, List.takeWhile, List.dropWhile, List.isEmpty_cons, Bool.not_false]
            rw [seq_many _ _ R_not_digit]
          · have h2' : Grammar.isDigit c2 = false := by simpa using h2
            simp [h2', List.takeWhile]
      · have hq' : isDot c = false := by simpa using hq
        simp [hq', skip, hd']

/-- `IsFloat` accepts exactly `ws* [+-]? ( D+ (. D*)? | . D+ ) ( [eE] [+-]? D+ )? ws*` -/
theorem isFloat_grammar (s : List Char) : isFloat s = true ↔ floatRx.Lang s := by
  unfold floatRx
  rw [trim_lang floatCore ?_ ?_ rfl, ← trim_eq]
  · unfold floatCore
    rw [seq_opt_cls, ← skipSign_eq, mantissa_grammar, ← tailOk_iff]
    · unfold isFloat
      cases ht : trim s with
      | nil =>
        simp only [skipSign, Bool.false_eq_true, false_iff, not_and]
        intro h; rw [mantissa_eq] at h; simp [skip] at h
      | cons a t => simp only [Bool.and_eq_true]; exact And.comm
    · intro c hc
      simp [mantissaRx, opt, expPart, digits1, starts, nullable] at hc
      rcases hc with hc | hc
      · exact Grammar.digit_not_sign hc
      · exact dot_not_sign hc
  · intro c hc
    simp [floatCore, mantissaRx, expPart, opt, digits1, starts, nullable] at hc
    rcases hc with hc | hc | hc
    · exact sign_not_space hc
    · exact digit_not_space hc
    · exact dot_not_space hc
  · intro c hc
    simp [floatCore, mantissaRx, expPart, opt, digits1, lasts, nullable] at hc
    rcases hc with hc | (hc | hc) | hc
    · exact digit_not_space hc
    · exact digit_not_space hc
    · exact dot_not_space hc
    · exact digit_not_space hc

end Gama.Literals
