/-
  The cells produced by `invert` inside a `SymMat` object history (Model/SymObj.lean, `symInvList`)
  are the packed two-sided inverse of the cells the object held before, for a positive definite value:
  `Lemmas/SymInvertPD.symInvert_pd` read on the block's cells.
-/
import Gama.Lemmas.SymObj
import Gama.Lemmas.MatObjInv
import Gama.Lemmas.SymInvertPD
namespace Gama.SymObj
open Gama.MatVec Finset

section
variable {K : Type} [Field K] [LinearOrder K] [IsStrictOrderedRing K]

theorem entry_map (r : Nat → K) (L n : Nat) (hL : L = triSz n) {i j : Nat}
    (hi : 1 ≤ i) (hin : i ≤ n) (hj : 1 ≤ j) (hjn : j ≤ n) :
    symEntry (fun k => ((List.range L).map r).getD k 0) i j = symEntry r i j := by
  unfold symEntry
  exact MatObj.getD_map_range r L _ (by rw [hL]; exact tri_lt_triSz hi hin hj hjn)

/-- full symmetric matrix of packed cells -/
def full (l : List K) (i j : Nat) : K := symEntry (fun k => l.getD k 0) i j

theorem symInvList_inverse (sq : K → K) (n : Nat) (l l' : List K) (hlen : l.length = triSz n)
    (hpd : PosDef n (fun k => l.getD k 0))
    (h : @symInvList K (fieldScalar K sq) n l = .ok l') :
    l'.length = l.length ∧
    (∀ i j, 1 ≤ i → i ≤ n → 1 ≤ j → j ≤ n →
      ∑ c ∈ range n, full l' i (c + 1) * full l (c + 1) j = if i = j then 1 else 0) ∧
    (∀ i j, 1 ≤ i → i ≤ n → 1 ≤ j → j ≤ n →
      ∑ c ∈ range n, full l i (c + 1) * full l' (c + 1) j = if i = j then 1 else 0) := by
  unfold symInvList at h
  by_cases hn2 : 2 ≤ n
  · obtain ⟨_, r, hr, h1, h2⟩ := symInvert_pd sq n hn2 _ hpd
    rw [hr] at h
    simp only [Except.ok.injEq] at h
    subst h
    refine ⟨by simp, ?_, ?_⟩
    · intro i j hi hin hj hjn
      rw [← h1 i j hi hin hj hjn]
      apply sum_congr rfl
      intro c hc
      have hc' := mem_range.mp hc
      unfold full
      rw [entry_map r _ n hlen hi hin (by omega) (by omega)]
    · intro i j hi hin hj hjn
      rw [← h2 i j hi hin hj hjn]
      apply sum_congr rfl
      intro c hc
      have hc' := mem_range.mp hc
      unfold full
      rw [entry_map r _ n hlen (by omega) (by omega) hj hjn]
  · by_cases hn1 : n = 1
    · subst hn1
      obtain ⟨_, r, hr, h1, h2⟩ := symInvert_pd_one sq _ hpd
      rw [hr] at h
      simp only [Except.ok.injEq] at h
      subst h
      have hL : l.length = 1 := by rw [hlen]; rfl
      have e0 : ∀ (s : Nat → K), symEntry s 1 1 = s 0 := fun s => rfl
      refine ⟨by simp, ?_, ?_⟩
      · intro i j hi hin hj hjn
        have : i = 1 := by omega
        have : j = 1 := by omega
        subst_vars
        simp only [sum_range_one, full, e0, hL, if_true]
        simpa using h1
      · intro i j hi hin hj hjn
        have : i = 1 := by omega
        have : j = 1 := by omega
        subst_vars
        simp only [sum_range_one, full, e0, hL, if_true]
        simpa using h2
    · have hn0 : n = 0 := by omega
      subst hn0
      cases hs : @symInvert K (fieldScalar K sq) 0 (fun k => l.getD k 0) with
      | error e => rw [hs] at h; cases h
      | ok a =>
        rw [hs] at h
        simp only [Except.ok.injEq] at h
        subst h
        exact ⟨by simp, by intro i j hi hin; omega, by intro i j hi hin; omega⟩

end
end Gama.SymObj
