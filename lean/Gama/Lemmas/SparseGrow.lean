/-
  `replicate(n, r, c)` as a step of the build machine (Model/SparseOps.lean): the build invariant
  `Built` (Lemmas/SparseBuild.lean: layout of the rows filled so far, `rnxt_ = rows filled + 1`,
  capacities) is carried over to the replica with the NEW capacities, so the sequential fill can
  continue on it.
-/
import Gama.Lemmas.SparseBuild
import Gama.Model.SparseOps
namespace Gama
namespace SMat
variable {K : Type} [Inhabited K]

/-- the replica of a build in progress is a build in progress with the new capacities -/
theorem Built.replicate {floats rows cols : Nat} {rs : List (List (Nat × K))} {A : SMat K}
    (h : Built floats rows cols rs A) (n r c : Nat) (hr : rs.length ≤ r) (hn : rs.flatten.length ≤ n) :
    Built n r c rs (A.replicate n r c) ∧ A.canReplicate n r = true := by
  have hrp : A.rcnt + 2 ≤ A.rptr.size := by rw [h.lay.rcnt_eq]; exact h.lay.rptr_size
  have hc : A.ncnt ≤ A.cind.size := by rw [h.lay.ncnt_eq]; exact h.lay.cind_size
  have hz : A.ncnt ≤ A.nonz.size := by rw [h.lay.ncnt_eq]; exact h.lay.nonz_size
  refine ⟨{
    lay := h.lay.replicate n r c
    rows_eq := rfl
    cols_eq := rfl
    rnxt_eq := h.rnxt_eq
    len_le := hr
    cnt_le := hn
    cap_rptr := by
      show _ ≤ (copyInto A.rptr (A.rcnt + 2) (r + 2)).size
      rw [copyInto_size _ _ _ hrp, h.lay.rcnt_eq]; omega
    cap_cind := by
      show _ ≤ (copyInto A.cind A.ncnt n).size
      rw [copyInto_size _ _ _ hc, h.lay.ncnt_eq]; omega
    cap_nonz := by
      show _ ≤ (copyInto A.nonz A.ncnt n).size
      rw [copyInto_size _ _ _ hz, h.lay.ncnt_eq]; omega }, ?_⟩
  simp only [canReplicate, Bool.and_eq_true, decide_eq_true_eq, h.lay.ncnt_eq, h.lay.rcnt_eq]
  exact ⟨hn, hr⟩

/-- the calls of one row, run by the machine, are `pushRow?` -/
theorem runOps?_rowOps (A : SMat K) (row : List (Nat × K)) :
    runOps? A (rowOps row) = pushRow? A row := by
  simp only [runOps?, rowOps, List.foldlM_cons, pushRow?, newRow?, BuildOp.apply?]
  by_cases hc : A.canNewRow = true
  · simp only [hc, if_true, Option.bind_eq_bind, Option.bind_some, List.foldlM_map]
    rfl
  · simp [hc]

theorem runOps?_append (A : SMat K) (o1 o2 : List (BuildOp K)) :
    runOps? A (o1 ++ o2) = (runOps? A o1).bind fun B => runOps? B o2 := by
  simp [runOps?, List.foldlM_append]

/-- the calls of several rows are `foldlM pushRow?` -/
theorem runOps?_rows (rs : List (List (Nat × K))) : ∀ (A : SMat K),
    runOps? A (rs.flatMap rowOps) = rs.foldlM pushRow? A := by
  induction rs with
  | nil => intro A; simp [runOps?]
  | cons row rs ih =>
    intro A
    rw [List.flatMap_cons, runOps?_append, runOps?_rowOps, List.foldlM_cons]
    cases pushRow? A row with
    | none => rfl
    | some B => simpa using ih B

/-- **fill → replicate into a larger object → continue the fill.**  Every call is defined and the
    final state is a build in progress, with the replica's capacities, of ALL rows. -/
theorem replicate_then_append (floats rows cols : Nat) (pre rs : List (List (Nat × K))) (n r c : Nat)
    (hk : pre.length ≤ rows) (hf : pre.flatten.length ≤ floats)
    (hr : (pre ++ rs).length ≤ r) (hn : (pre ++ rs).flatten.length ≤ n) :
    Built n r c (pre ++ rs) (rs.foldl pushRow ((build floats rows cols pre).replicate n r c)) ∧
    runOps? (new floats rows cols)
        (pre.flatMap rowOps ++ BuildOp.replicate n r c :: rs.flatMap rowOps)
      = some (rs.foldl pushRow ((build floats rows cols pre).replicate n r c)) := by
  have hb := build_built floats rows cols pre hk hf
  have hpre := build?_eq floats rows cols pre hk hf
  obtain ⟨hrep, hcan⟩ := hb.replicate n r c (by rw [List.length_append] at hr; omega)
    (by rw [List.flatten_append, List.length_append] at hn; omega)
  obtain ⟨hfin, hdef⟩ := Built.build rs hrep hr hn
  refine ⟨hfin, ?_⟩
  rw [runOps?_append, runOps?_rows]
  have : pre.foldlM pushRow? (new floats rows cols) = some (build floats rows cols pre) := hpre
  rw [this]
  simp only [Option.bind_eq_bind, Option.bind_some, runOps?, List.foldlM_cons, BuildOp.apply?, hcan, if_true]
  have := runOps?_rows rs ((build floats rows cols pre).replicate n r c)
  simp only [runOps?] at this
  rw [this]; exact hdef

end SMat
end Gama
